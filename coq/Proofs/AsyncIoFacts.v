(* Proofs/AsyncIoFacts.v — facts about Model/AsyncIo.v (AsyncReader / AsyncWriter of minicbor-io), C15 and C16. *)
From MC Require Import Bytes BytesFacts FrameIo FrameIoFacts AsyncIo.
From Coq Require Import Lia.
Local Open Scope N_scope.

(* ------------------------------------------------------------------------------------------ *)
(* be / of_be on byte strings *)
Lemma bytes_ok_app a b : bytes_ok (a ++ b) = bytes_ok a && bytes_ok b.
Proof. unfold bytes_ok. apply forallb_app. Qed.

Lemma bytes_ok_firstn n b : bytes_ok b = true -> bytes_ok (firstn n b) = true.
Proof.
  intro H. rewrite <- (firstn_skipn n b), bytes_ok_app in H. apply andb_prop in H. tauto.
Qed.

Lemma bytes_ok_skipn n b : bytes_ok b = true -> bytes_ok (skipn n b) = true.
Proof.
  intro H. rewrite <- (firstn_skipn n b), bytes_ok_app in H. apply andb_prop in H. tauto.
Qed.

Lemma of_be_cons b r : of_be (b :: r) = b * 256 ^ len r + of_be r.
Proof.
  change (b :: r) with ([b] ++ r). rewrite of_be_app. cbn [of_be fold_left]. ring.
Qed.

Lemma of_be_lt bs : bytes_ok bs = true -> of_be bs < 256 ^ len bs.
Proof.
  induction bs as [|b r IH]; intro H.
  - cbn. lia.
  - cbn [bytes_ok forallb] in H. apply andb_prop in H as [Hb Hr]. unfold byte_ok in Hb. apply N.ltb_lt in Hb.
    fold (bytes_ok r) in Hr. specialize (IH Hr).
    rewrite of_be_cons, len_cons. replace (1 + len r) with (N.succ (len r)) by lia. rewrite N.pow_succ_r'.
    set (P := 256 ^ len r) in *. clearbody P. nia.
Qed.

Lemma be_of_be bs : bytes_ok bs = true -> be (length bs) (of_be bs) = bs.
Proof.
  induction bs as [|b r IH]; intro H; [reflexivity|].
  cbn [bytes_ok forallb] in H. apply andb_prop in H as [Hb Hr]. unfold byte_ok in Hb. apply N.ltb_lt in Hb.
  fold (bytes_ok r) in Hr. pose proof (of_be_lt r Hr) as Hlt.
  cbn [length be]. rewrite of_be_cons.
  assert (EP : 2 ^ (8 * N.of_nat (length r)) = 256 ^ len r).
  { unfold len. change 256 with (2 ^ 8). now rewrite <- N.pow_mul_r. }
  rewrite EP. set (P := 256 ^ len r) in *.
  assert (HP : P <> 0) by (unfold P; apply N.pow_nonzero; lia).
  f_equal.
  - rewrite N.div_add_l by exact HP. rewrite (N.div_small (of_be r) P) by exact Hlt.
    rewrite N.add_0_r. apply N.mod_small. exact Hb.
  - rewrite <- be_mod. rewrite EP. fold P.
    rewrite N.add_comm, N.mod_add by exact HP. rewrite N.mod_small by exact Hlt. apply IH. exact Hr.
Qed.

Lemma of_be_4_lt buf : length buf = 4%nat -> bytes_ok buf = true -> of_be buf < 4294967296.
Proof.
  intros L H. pose proof (of_be_lt buf H) as Hlt. unfold len in Hlt. rewrite L in Hlt. exact Hlt.
Qed.

(* ------------------------------------------------------------------------------------------ *)
(* The scripted AsyncRead *)
Definition atok_ok (t : atok) : Prop := match t with AData k => 1 <= k | _ => True end.
Definition aok (s : asrc) : Prop := Forall atok_ok (a_sched s).

Fixpoint nerr (l : list atok) : nat :=
  match l with [] => O | AErr :: t => S (nerr t) | _ :: t => nerr t end.

Lemma asrc_poll_pend s want s1 :
  aok s -> asrc_poll s want = (PrPending, s1) ->
  aok s1 /\ a_data s1 = a_data s /\ S (length (a_sched s1)) = length (a_sched s) /\ nerr (a_sched s1) = nerr (a_sched s).
Proof.
  unfold asrc_poll, aok. destruct s as [data sched calls]. cbn [a_sched a_data a_calls].
  destruct sched as [|[k| |] t]; intro H.
  - destruct (splitN data want). discriminate.
  - destruct (splitN data (N.min k want)). discriminate.
  - intros [= <-]. cbn [a_sched a_data length nerr]. inversion H. auto.
  - discriminate.
Qed.

Lemma asrc_poll_err s want s1 :
  aok s -> asrc_poll s want = (PrErr, s1) ->
  aok s1 /\ a_data s1 = a_data s /\ S (length (a_sched s1)) = length (a_sched s) /\ S (nerr (a_sched s1)) = nerr (a_sched s).
Proof.
  unfold asrc_poll, aok. destruct s as [data sched calls]. cbn [a_sched a_data a_calls].
  destruct sched as [|[k| |] t]; intro H.
  - destruct (splitN data want). discriminate.
  - destruct (splitN data (N.min k want)). discriminate.
  - discriminate.
  - intros [= <-]. cbn [a_sched a_data length nerr]. inversion H. auto.
Qed.

Lemma asrc_poll_data s want got s1 :
  aok s -> 1 <= want -> asrc_poll s want = (PrData got, s1) ->
  aok s1 /\ a_data s = got ++ a_data s1 /\ len got <= want /\ (len got = 0 -> a_data s = []) /\
  nerr (a_sched s1) = nerr (a_sched s) /\ (length (a_sched s1) <= length (a_sched s))%nat /\
  ((length (a_sched s1) < length (a_sched s))%nat \/ len got = want \/ (a_data s1 = [] /\ (len got <> 0 -> ne (a_data s) = 1%nat))).
Proof.
  unfold asrc_poll, aok. destruct s as [data sched calls]. cbn [a_sched a_data a_calls].
  destruct sched as [|[k| |] t]; intros H Hw.
  - rewrite splitN_spec. intros [= <- <-]. cbn [a_sched a_data length nerr].
    assert (Lg : len (firstn (N.to_nat want) data) = N.min want (len data)) by apply len_firstn.
    split; [constructor|]. split; [now rewrite firstn_skipn|]. split; [lia|].
    split; [intro Hz; apply len_0_nil; lia|]. split; [reflexivity|]. split; [lia|].
    destruct (N.le_gt_cases want (len data)) as [Hle|Hgt].
    + right. left. lia.
    + right. right. split.
      * apply len_0_nil. rewrite len_skipn. lia.
      * intro Hnz. destruct data; [change (len []) with 0 in Lg; lia|reflexivity].
  - rewrite splitN_spec. intros [= <- <-]. cbn [a_sched a_data length nerr].
    inversion H as [|? ? Hk Ht]; subst. cbn [atok_ok] in Hk.
    assert (Lg : len (firstn (N.to_nat (N.min k want)) data) = N.min (N.min k want) (len data)) by apply len_firstn.
    split; [exact Ht|]. split; [now rewrite firstn_skipn|]. split; [lia|].
    split; [intro Hz; apply len_0_nil; lia|]. split; [reflexivity|]. split; [lia|]. left. lia.
  - discriminate.
  - discriminate.
Qed.

(* ------------------------------------------------------------------------------------------ *)
(* AsyncReader: invariant, one poll against the wire-format specification *)
Definition ar_wf (r : areader) : Prop :=
  match ar_state r with
  | ReadLen buf o => length buf = 4%nat /\ o <= 4
  | ReadVal o => o <= len (ar_buf r) /\ len (ar_buf r) <= ar_max r /\ len (ar_buf r) < 4294967296
  end.

(* a suspended future is only ever resumed in the reader state it was suspended in *)
Definition fut_ok (f : rfut) (r : areader) : Prop :=
  match f with
  | FStart => True
  | FAtLen => exists buf o, ar_state r = ReadLen buf o /\ o < 4
  | FAtVal => exists o, ar_state r = ReadVal o /\ o < len (ar_buf r)
  end.

Definition phase (r : areader) : nat :=
  match ar_state r with
  | ReadLen _ o => if o <? 4 then 4 else 3
  | ReadVal o => if o <? len (ar_buf r) then 2 else 1
  end.
Definition phi (r : areader) (s : asrc) : nat := length (a_sched s) + phase r + ne (a_data s).

Section Reader.
Variable V : Type.
Variable dec : bytes -> option V.

Notation osi := (outcome_of_sitem V dec).

Definition poll_post (r : areader) (s : asrc) (res : poll_out V) (r' : areader) (s' : asrc) : Prop :=
  ar_max r' = ar_max r /\ aok s' /\
  let all := state_bytes r ++ a_data s in
  match res with
  | Pend f =>
      ar_wf r' /\ fut_ok f r' /\ state_bytes r' ++ a_data s' = all /\
      (length (a_sched s') < length (a_sched s))%nat /\ nerr (a_sched s') = nerr (a_sched s)
  | Ready (OErr IoInner) =>
      ar_wf r' /\ state_bytes r' ++ a_data s' = all /\
      (length (a_sched s') < length (a_sched s))%nat /\ S (nerr (a_sched s')) = nerr (a_sched s)
  | Ready o =>
      o = osi (fst (spec_read (ar_max r) all)) /\ nerr (a_sched s') = nerr (a_sched s) /\
      (length (a_sched s') <= length (a_sched s))%nat /\
      match fst (spec_read (ar_max r) all) with
      | SFrame _ => ar_wf r' /\ state_bytes r' ++ a_data s' = snd (spec_read (ar_max r) all)
      | _ => True
      end
  end.

Lemma poll_post_transfer r s r1 s1 res r' s' :
  poll_post r1 s1 res r' s' ->
  ar_max r1 = ar_max r -> state_bytes r1 ++ a_data s1 = state_bytes r ++ a_data s ->
  (length (a_sched s1) <= length (a_sched s))%nat -> nerr (a_sched s1) = nerr (a_sched s) ->
  poll_post r s res r' s'.
Proof.
  unfold poll_post. intros [Hm [Hok H]] Em Ea El En. cbn zeta in *. rewrite Em, Ea, En in H. rewrite Em in Hm.
  split; [exact Hm|]. split; [exact Hok|].
  destruct res as [o|f].
  - destruct o as [v| |e| |]; try (destruct H as [A [B [C D]]]; repeat split; try assumption; lia).
    destruct e; try (destruct H as [A [B [C D]]]; repeat split; try assumption; lia).
  - destruct H as [A [B [C [D E]]]]. repeat split; try assumption; lia.
Qed.

Lemma osi_not_inner i : osi i <> OErr IoInner.
Proof. destruct i; cbn [outcome_of_sitem]; try discriminate. unfold decode_outcome. destruct (dec p); discriminate. Qed.

(* establishing the third clause of poll_post for a result that is not the inner error *)
Lemma poll_post_ready r s o r' s' :
  ar_max r' = ar_max r -> aok s' ->
  o = osi (fst (spec_read (ar_max r) (state_bytes r ++ a_data s))) ->
  nerr (a_sched s') = nerr (a_sched s) -> (length (a_sched s') <= length (a_sched s))%nat ->
  match fst (spec_read (ar_max r) (state_bytes r ++ a_data s)) with
  | SFrame _ => ar_wf r' /\ state_bytes r' ++ a_data s' = snd (spec_read (ar_max r) (state_bytes r ++ a_data s))
  | _ => True
  end ->
  poll_post r s (Ready o) r' s'.
Proof.
  intros Hm Hok Ho Hn Hl Hf. unfold poll_post. split; [exact Hm|]. split; [exact Hok|]. cbn zeta.
  pose proof (osi_not_inner (fst (spec_read (ar_max r) (state_bytes r ++ a_data s)))) as Hni. rewrite <- Ho in Hni.
  destruct o as [v| |e| |]; try (repeat split; assumption).
  destruct e; try (repeat split; assumption). contradiction Hni; reflexivity.
Qed.

Lemma spec_read_short max all :
  len all < 4 -> fst (spec_read max all) = if len all =? 0 then SEnd else SEof.
Proof.
  intro H. unfold spec_read. destruct (len all =? 0); [reflexivity|].
  destruct (N.ltb_spec (len all) 4); [reflexivity|lia].
Qed.

Lemma ar_loop_spec : forall fuel r s,
  ar_wf r -> aok s -> bytes_ok (state_bytes r ++ a_data s) = true -> (phi r s <= fuel)%nat ->
  exists res r' s', ar_loop V dec fuel r s = (res, r', s') /\ poll_post r s res r' s'.
Proof.
  induction fuel as [|f IH]; intros r s Hwf Hok Hby Hphi.
  { unfold phi, phase in Hphi. destruct (ar_state r) as [b o|o]; [destruct (o <? 4)|destruct (o <? len (ar_buf r))]; lia. }
  cbn [ar_loop]. unfold ar_wf in Hwf. unfold phi, phase in Hphi.
  destruct r as [abuf amax ast apeak]. cbn [ar_state ar_buf ar_max ar_peak] in *.
  destruct ast as [buf o|o].
  - (* ReadLen *)
    destruct Hwf as [Lb Ho].
    destruct (N.eqb_spec o 4) as [->|Ho4].
    + (* complete prefix *)
      assert (Hsb : state_bytes (mkareader abuf amax (ReadLen buf 4) apeak) = buf).
      { unfold state_bytes. cbn [ar_state]. apply firstn_all2. lia. }
      rewrite Hsb in Hby. pose proof Hby as Hby'. rewrite bytes_ok_app in Hby'. apply andb_prop in Hby' as [Hbb Hbd].
      assert (Hsr : forall rest, spec_read amax (buf ++ rest) =
                     if amax <? of_be buf then (SInvalidLen, rest)
                     else if len rest <? of_be buf then (SEof, [])
                     else let '(p, rest') := splitN rest (of_be buf) in (SFrame p, rest')).
      { intro rest. unfold spec_read. rewrite len_app. unfold len at 1 3. rewrite Lb.
        destruct (N.eqb_spec (N.of_nat 4 + len rest) 0); [lia|].
        destruct (N.ltb_spec (N.of_nat 4 + len rest) 4); [lia|].
        rewrite splitN_app_exact by (unfold len; lia). reflexivity. }
      destruct (N.ltb_spec amax (of_be buf)) as [Hbig|Hfit].
      * eexists _, _, _. split; [reflexivity|].
        apply poll_post_ready; cbn [ar_max]; try reflexivity; try assumption; try lia;
          rewrite Hsb, Hsr; destruct (N.ltb_spec amax (of_be buf)); try lia; cbn [fst]; [reflexivity|exact I].
      * set (n := of_be buf) in *.
        assert (Hn32 : n < 4294967296) by (apply of_be_4_lt; assumption).
        set (r1 := mkareader (zeros n) amax (ReadVal 0) (N.max apeak n)).
        assert (Hsb1 : state_bytes r1 = buf).
        { unfold state_bytes, r1. cbn [ar_state ar_buf N.to_nat firstn]. rewrite app_nil_r, len_zeros.
          unfold n. rewrite <- Lb at 1. apply be_of_be. exact Hbb. }
        destruct (IH r1 s) as [res [r' [s' [E P]]]].
        -- unfold ar_wf, r1. cbn [ar_state ar_buf ar_max]. rewrite len_zeros. lia.
        -- exact Hok.
        -- rewrite Hsb1. exact Hby.
        -- unfold phi, phase, r1. cbn [ar_state ar_buf]. destruct (4 <? 4) eqn:E4; [apply N.ltb_lt in E4; lia|].
           destruct (0 <? len (zeros n)); lia.
        -- exists res, r', s'. split; [exact E|].
           eapply poll_post_transfer; [exact P|reflexivity|now rewrite Hsb1, Hsb|lia|reflexivity].
    + (* partial prefix: poll the source *)
      assert (Ho' : o < 4) by lia.
      unfold len_arm. destruct (N.ltb_spec 4 o) as [|_]; [lia|].
      set (r0 := mkareader abuf amax (ReadLen buf o) apeak) in *.
      assert (Hsb : state_bytes r0 = firstn (N.to_nat o) buf) by reflexivity.
      assert (Lsb : len (firstn (N.to_nat o) buf) = o) by (rewrite len_firstn; unfold len; lia).
      destruct (asrc_poll s (4 - o)) as [[got| |] s1] eqn:Ep.
      * apply asrc_poll_data in Ep as [Hok1 [Ed [Hgl [Hgz [Hne [Hsl Hmeas]]]]]]; [|exact Hok|lia].
        destruct (N.eqb_spec (len got) 0) as [Hz|Hnz].
        -- (* end of stream *)
           assert (Hd : a_data s = []) by auto.
           eexists _, _, _. split; [reflexivity|].
           apply poll_post_ready; try reflexivity; try assumption.
           ++ rewrite Hsb, Hd, app_nil_r. cbn [ar_max r0]. rewrite spec_read_short by lia. rewrite Lsb.
              destruct (o =? 0); reflexivity.
           ++ rewrite Hsb, Hd, app_nil_r. cbn [ar_max r0]. rewrite spec_read_short by lia. destruct (len _ =? 0); exact I.
        -- assert (Hn8 : len got mod 256 = len got) by (apply N.mod_small; lia). rewrite Hn8.
           destruct (N.ltb_spec 255 (o + len got)) as [|_]; [lia|].
           unfold set_rstate. cbn [ar_buf ar_max ar_peak r0].
           set (r1 := mkareader abuf amax (ReadLen (write_at buf o got) (o + len got)) apeak).
           assert (Hsb1 : state_bytes r1 = firstn (N.to_nat o) buf ++ got).
           { unfold state_bytes, r1. cbn [ar_state]. rewrite to_nat_add_len. apply firstn_write_at. lia. }
           destruct (IH r1 s1) as [res [r' [s' [E P]]]].
           ++ unfold ar_wf, r1. cbn [ar_state]. split; [|lia]. rewrite write_at_length; [exact Lb|unfold len in *; lia].
           ++ exact Hok1.
           ++ rewrite Hsb1, <- app_assoc, <- Ed. rewrite Hsb in Hby. exact Hby.
           ++ unfold phi, phase, r1. cbn [ar_state]. destruct (N.ltb_spec o 4) as [_|]; [|lia].
              assert (Hne2 : (ne (a_data s1) <= ne (a_data s))%nat) by (rewrite Ed; apply ne_app_r).
              destruct (N.ltb_spec (o + len got) 4) as [Hlt|Hge]; [|lia].
              destruct Hmeas as [Hm|[Hm|[Hm1 Hm2]]]; [lia|lia|]. rewrite Hm1. rewrite (Hm2 Hnz) in Hphi. cbn [ne]. lia.
           ++ exists res, r', s'. split; [exact E|].
              eapply poll_post_transfer; [exact P|reflexivity| |exact Hsl|exact Hne].
              rewrite Hsb1, Hsb, <- app_assoc, <- Ed. reflexivity.
      * apply asrc_poll_pend in Ep as [Hok1 [Ed [Hsl Hne]]]; [|exact Hok].
        eexists _, _, _. split; [reflexivity|]. unfold poll_post. split; [reflexivity|]. split; [exact Hok1|].
        cbn zeta. split; [unfold ar_wf; cbn; auto|]. split; [exists buf, o; auto|]. split; [now rewrite Ed|]. split; [lia|exact Hne].
      * apply asrc_poll_err in Ep as [Hok1 [Ed [Hsl Hne]]]; [|exact Hok].
        eexists _, _, _. split; [reflexivity|]. unfold poll_post. split; [reflexivity|]. split; [exact Hok1|].
        cbn zeta. split; [unfold ar_wf; cbn; auto|]. split; [now rewrite Ed|]. split; [lia|exact Hne].
  - (* ReadVal *)
    destruct Hwf as [Ho [Hmax H32]].
    set (r0 := mkareader abuf amax (ReadVal o) apeak) in *.
    assert (Hsb : state_bytes r0 = be 4 (len abuf) ++ firstn (N.to_nat o) abuf) by reflexivity.
    destruct (N.leb_spec (len abuf) o) as [Hdone|Hmore].
    + (* the payload is complete: reset, then decode *)
      assert (Hfull : firstn (N.to_nat o) abuf = abuf) by (apply firstn_all2; unfold len in *; lia).
      eexists _, _, _. split; [reflexivity|].
      assert (Hsr : spec_read amax (state_bytes r0 ++ a_data s) = (SFrame abuf, a_data s)).
      { rewrite Hsb, Hfull. apply (spec_read_frame amax abuf (a_data s)); assumption. }
      apply poll_post_ready; cbn [ar_max r0 set_rstate]; try reflexivity; try assumption; try lia; rewrite Hsr; cbn [fst snd].
      * reflexivity.
      * split; [unfold ar_wf; cbn; split; [reflexivity|lia]|reflexivity].
    + unfold val_arm. cbn [ar_buf r0].
      destruct (asrc_poll s (len abuf - o)) as [[got| |] s1] eqn:Ep.
      * apply asrc_poll_data in Ep as [Hok1 [Ed [Hgl [Hgz [Hne [Hsl Hmeas]]]]]]; [|exact Hok|lia].
        destruct (N.eqb_spec (len got) 0) as [Hz|Hnz].
        -- assert (Hd : a_data s = []) by auto.
           eexists _, _, _. split; [reflexivity|].
           assert (Hsr : spec_read amax (state_bytes r0 ++ a_data s) = (SEof, [])).
           { rewrite Hsb, Hd, app_nil_r.
             assert (Hfr : be 4 (len abuf) ++ firstn (N.to_nat o) abuf = firstn (4 + N.to_nat o) (frame_of abuf)) by reflexivity.
             rewrite Hfr.
             apply spec_read_cut; try assumption. unfold frame_of. rewrite app_length, be_length. unfold len in *. lia. }
           apply poll_post_ready; cbn [ar_max r0]; try reflexivity; try assumption; rewrite Hsr; cbn [fst]; [reflexivity|exact I].
        -- unfold set_abuf, set_rstate. cbn [ar_buf ar_max ar_peak ar_state r0].
           destruct (N.leb_spec two64 (o + len got)) as [Hov|_]; [unfold two64 in Hov; lia|].
           set (r1 := mkareader (write_at abuf o got) amax (ReadVal (o + len got)) apeak).
           assert (Lw : length (write_at abuf o got) = length abuf) by (apply write_at_length; unfold len in *; lia).
           assert (Lw' : len (write_at abuf o got) = len abuf) by (unfold len; now rewrite Lw).
           assert (Hsb1 : state_bytes r1 = be 4 (len abuf) ++ firstn (N.to_nat o) abuf ++ got).
           { unfold state_bytes, r1. cbn [ar_state ar_buf]. rewrite Lw', to_nat_add_len.
             rewrite firstn_write_at by (unfold len in *; lia). reflexivity. }
           destruct (IH r1 s1) as [res [r' [s' [E P]]]].
           ++ unfold ar_wf, r1. cbn [ar_state ar_buf ar_max]. rewrite Lw'. lia.
           ++ exact Hok1.
           ++ rewrite Hsb1, <- !app_assoc, <- Ed. rewrite Hsb, <- app_assoc in Hby. exact Hby.
           ++ unfold phi, phase, r1. cbn [ar_state ar_buf]. rewrite Lw'. destruct (N.ltb_spec o (len abuf)) as [_|]; [|lia].
              assert (Hne2 : (ne (a_data s1) <= ne (a_data s))%nat) by (rewrite Ed; apply ne_app_r).
              destruct (N.ltb_spec (o + len got) (len abuf)) as [Hlt|Hge]; [|lia].
              destruct Hmeas as [Hm|[Hm|[Hm1 Hm2]]]; [lia|lia|]. rewrite Hm1. rewrite (Hm2 Hnz) in Hphi. cbn [ne]. lia.
           ++ exists res, r', s'. split; [exact E|].
              eapply poll_post_transfer; [exact P|reflexivity| |exact Hsl|exact Hne].
              rewrite Hsb1, Hsb, <- !app_assoc, <- Ed. reflexivity.
      * apply asrc_poll_pend in Ep as [Hok1 [Ed [Hsl Hne]]]; [|exact Hok].
        eexists _, _, _. split; [reflexivity|]. unfold poll_post. split; [reflexivity|]. split; [exact Hok1|].
        cbn zeta. split; [unfold ar_wf; cbn; auto|]. split; [exists o; auto|]. split; [now rewrite Ed|]. split; [lia|exact Hne].
      * apply asrc_poll_err in Ep as [Hok1 [Ed [Hsl Hne]]]; [|exact Hok].
        eexists _, _, _. split; [reflexivity|]. unfold poll_post. split; [reflexivity|]. split; [exact Hok1|].
        cbn zeta. split; [unfold ar_wf; cbn; auto|]. split; [now rewrite Ed|]. split; [lia|exact Hne].
Qed.


(* DESIGN.md C15, lemma resume_eq: polling a suspended future does what polling a fresh future does in the
   same reader state — the future carries nothing but its program point *)
Lemma resume_eq fuel f r s : fut_ok f r -> ar_poll V dec fuel f r s = ar_poll V dec fuel FStart r s.
Proof.
  destruct f; cbn [fut_ok ar_poll]; [reflexivity| |].
  - intros [buf [o [E Ho]]]. cbn [ar_loop]. rewrite E. destruct (N.eqb_spec o 4); [lia|reflexivity].
  - intros [o [E Ho]]. cbn [ar_loop]. rewrite E. destruct (N.leb_spec (len (ar_buf r)) o); [lia|reflexivity].
Qed.

Lemma phi_bound r s : (phi r s <= S (asrc_fuel s))%nat.
Proof.
  unfold phi, phase, asrc_fuel.
  destruct (ar_state r) as [b o|o]; [destruct (o <? 4)|destruct (o <? len (ar_buf r))]; destruct (a_data s); cbn [ne]; lia.
Qed.

Lemma ar_poll_spec f r s :
  ar_wf r -> aok s -> bytes_ok (state_bytes r ++ a_data s) = true -> fut_ok f r ->
  exists res r' s', ar_poll V dec (asrc_fuel s) f r s = (res, r', s') /\ poll_post r s res r' s'.
Proof.
  intros Hwf Hok Hby Hf. rewrite resume_eq by exact Hf. cbn [ar_poll].
  apply ar_loop_spec; try assumption. apply phi_bound.
Qed.

Lemma poll_post_ready_inv r s o r' s' :
  poll_post r s (Ready o) r' s' ->
  ar_max r' = ar_max r /\ aok s' /\
  ((o = OErr IoInner /\ ar_wf r' /\ state_bytes r' ++ a_data s' = state_bytes r ++ a_data s /\
    (length (a_sched s') < length (a_sched s))%nat /\ S (nerr (a_sched s')) = nerr (a_sched s))
   \/
   (o = osi (fst (spec_read (ar_max r) (state_bytes r ++ a_data s))) /\ nerr (a_sched s') = nerr (a_sched s) /\
    (length (a_sched s') <= length (a_sched s))%nat /\
    match fst (spec_read (ar_max r) (state_bytes r ++ a_data s)) with
    | SFrame _ => ar_wf r' /\ state_bytes r' ++ a_data s' = snd (spec_read (ar_max r) (state_bytes r ++ a_data s))
    | _ => True
    end)).
Proof.
  unfold poll_post. cbn zeta. intros [Hm [Hok H]]. split; [exact Hm|]. split; [exact Hok|].
  destruct o as [v| |e| |]; try (right; exact H). destruct e; try (right; exact H). left. tauto.
Qed.

(* One call of read under any caller script: the result, the reader and the source are as if nothing had
   been dropped. *)
Lemma ar_read_spec : forall fuel calls f r s,
  ar_wf r -> aok s -> bytes_ok (state_bytes r ++ a_data s) = true -> fut_ok f r ->
  (length (a_sched s) < fuel)%nat ->
  exists o calls' r' s', ar_read V dec fuel calls f r s = (o, calls', r', s') /\ poll_post r s (Ready o) r' s'.
Proof.
  induction fuel as [|n IH]; intros calls f r s Hwf Hok Hby Hf Hfu; [lia|].
  cbn [ar_read].
  destruct (ar_poll_spec f r s Hwf Hok Hby Hf) as [res [r1 [s1 [E P]]]]. rewrite E.
  destruct res as [o|f1].
  - exists o, calls, r1, s1. split; [reflexivity|exact P].
  - pose proof P as P'. destruct P' as [Hm [Hok1 [Hwf1 [Hf1 [Hall [Hsl Hne]]]]]]. cbn zeta in *.
    assert (Hby1 : bytes_ok (state_bytes r1 ++ a_data s1) = true) by (rewrite Hall; exact Hby).
    assert (K : forall c f2, fut_ok f2 r1 ->
              exists o calls' r' s', ar_read V dec n c f2 r1 s1 = (o, calls', r', s') /\ poll_post r s (Ready o) r' s').
    { intros c f2 Hf2. destruct (IH c f2 r1 s1 Hwf1 Hok1 Hby1 Hf2) as [o [c' [r' [s' [E' P']]]]]; [lia|].
      exists o, c', r', s'. split; [exact E'|].
      eapply poll_post_transfer; [exact P'|exact Hm|exact Hall|lia|exact Hne]. }
    destruct calls as [|[|] c].
    + apply K. exact Hf1.
    + apply K. exact Hf1.
    + apply K. exact I.
Qed.

Definition transient (o : outcome V) : bool := match o with OErr IoInner => true | _ => false end.

Lemma transient_osi i : transient (osi i) = false.
Proof. destruct i; cbn [outcome_of_sitem transient]; try reflexivity. unfold decode_outcome. destruct (dec p); reflexivity. Qed.

Lemma aterminal_osi i : aterminal V (osi i) = match i with SFrame _ => false | _ => true end.
Proof. destruct i; cbn [outcome_of_sitem aterminal]; try reflexivity. unfold decode_outcome. destruct (dec p); reflexivity. Qed.

Lemma spec_all_enough : forall f1 f2 max data,
  (length data < f1)%nat -> (length data < f2)%nat -> spec_all f1 max data = spec_all f2 max data.
Proof.
  induction f1 as [|f1 IH]; intros f2 max data H1 H2; [lia|]. destruct f2 as [|f2]; [lia|].
  cbn [spec_all]. destruct (spec_read max data) as [i rest] eqn:E. destruct i; try reflexivity.
  apply spec_read_shrinks in E. f_equal. apply IH; lia.
Qed.

Lemma spec_read_frame_inv max all p rest :
  spec_read max all = (SFrame p, rest) -> exists pre, all = pre ++ p ++ rest /\ length pre = 4%nat.
Proof.
  unfold spec_read. destruct (len all =? 0); [discriminate|].
  destruct (N.ltb_spec (len all) 4); [discriminate|].
  rewrite splitN_spec. remember (N.to_nat 4) as k eqn:Ek.
  destruct (max <? of_be (firstn k all)); [discriminate|].
  destruct (len (skipn k all) <? of_be (firstn k all)); [discriminate|].
  rewrite splitN_spec. remember (N.to_nat (of_be (firstn k all))) as j eqn:Ej. intros [= <- <-].
  exists (firstn k all). rewrite !firstn_skipn. split; [reflexivity|]. rewrite firstn_length. unfold len in *. lia.
Qed.

Lemma ar_run_spec : forall fuel calls r s,
  ar_wf r -> aok s -> bytes_ok (state_bytes r ++ a_data s) = true ->
  (length (a_sched s) + length (state_bytes r ++ a_data s) < fuel)%nat ->
  exists os r' s',
    ar_run V dec fuel calls r s = (os, r', s') /\
    filter (fun o => negb (transient o)) os = map osi (spec_stream (ar_max r) (state_bytes r ++ a_data s)) /\
    (length (filter transient os) + nerr (a_sched s') = nerr (a_sched s))%nat.
Proof.
  induction fuel as [|n IH]; intros calls r s Hwf Hok Hby Hfu; [lia|].
  cbn [ar_run]. unfold ar_read_call.
  destruct (ar_read_spec (length (a_sched s) + 2) calls FStart r s Hwf Hok Hby I) as [o [c1 [r1 [s1 [E P]]]]]; [lia|].
  rewrite E. apply poll_post_ready_inv in P as [Hm [Hok1 [[-> [Hwf1 [Hall [Hsl Hne]]]]|[Ho [Hne [Hsl Hfr]]]]]].
  - (* an inner error: reported, nothing lost *)
    cbn [aterminal].
    destruct (IH c1 r1 s1 Hwf1 Hok1) as [os [r' [s' [E' [F1 F2]]]]]; [rewrite Hall; exact Hby|rewrite Hall; lia|].
    rewrite E'. exists (OErr IoInner :: os), r', s'. split; [reflexivity|].
    cbn [filter transient negb]. rewrite F1, Hm, Hall. split; [reflexivity|]. cbn [length]. lia.
  - set (all := state_bytes r ++ a_data s) in *.
    destruct (spec_read (ar_max r) all) as [i rest] eqn:Es. cbn [fst snd] in *.
    rewrite Ho, aterminal_osi.
    assert (Hss : spec_stream (ar_max r) all = match i with SFrame p => SFrame p :: spec_all (length all) (ar_max r) rest | _ => [i] end).
    { unfold spec_stream. cbn [spec_all]. rewrite Es. destruct i; reflexivity. }
    destruct i as [p| | |].
    + destruct Hfr as [Hwf1 Hall]. pose proof (spec_read_shrinks _ _ _ _ Es) as Hsh.
      destruct (spec_read_frame_inv _ _ _ _ Es) as [pre [Eall Lpre]].
      destruct (IH c1 r1 s1 Hwf1 Hok1) as [os [r' [s' [E' [F1 F2]]]]].
      * rewrite Hall. rewrite Eall, !bytes_ok_app in Hby. apply andb_prop in Hby as [_ Hby]. apply andb_prop in Hby. tauto.
      * rewrite Hall. lia.
      * rewrite E'. exists (osi (SFrame p) :: os), r', s'. split; [reflexivity|].
        cbn [filter]. rewrite transient_osi. cbn [negb]. rewrite F1, Hss, Hm, Hall. cbn [map].
        split; [|lia]. f_equal. f_equal. apply spec_all_enough; lia.
    + exists [osi SEnd], r1, s1. split; [reflexivity|]. cbn [filter]. rewrite transient_osi, Hss. cbn. split; [reflexivity|lia].
    + exists [osi SEof], r1, s1. split; [reflexivity|]. cbn [filter]. rewrite transient_osi, Hss. cbn. split; [reflexivity|lia].
    + exists [osi SInvalidLen], r1, s1. split; [reflexivity|]. cbn [filter]. rewrite transient_osi, Hss. cbn. split; [reflexivity|lia].
Qed.

End Reader.

(* ------------------------------------------------------------------------------------------ *)
(* C15 *)
Lemma bytes_ok_stream ps : Forall (fun p => bytes_ok p = true) ps -> bytes_ok (stream_of ps) = true.
Proof.
  induction 1 as [|p ps Hp _ IH]; [reflexivity|].
  rewrite stream_of_cons. unfold frame_of. rewrite !bytes_ok_app, be_bytes_ok, Hp, IH. reflexivity.
Qed.

Lemma ar_wf_new max : ar_wf (areader_new max).
Proof. unfold ar_wf, areader_new. cbn. split; [reflexivity|lia]. Qed.

Section C15.
Variable V : Type.
Variable dec : bytes -> option V.

(* general form: any reader state reachable by the invariant, any byte stream, any source script
   (data pieces >= 1 byte, Pending, errors), any caller script (poll / drop-and-reissue) *)
Theorem aio_spec calls r s :
  ar_wf r -> aok s -> bytes_ok (state_bytes r ++ a_data s) = true ->
  exists os r' s',
    ar_stream V dec calls r s = (os, r', s') /\
    filter (fun o => negb (transient V o)) os
      = map (outcome_of_sitem V dec) (spec_stream (ar_max r) (state_bytes r ++ a_data s)) /\
    (length (filter (transient V) os) + nerr (a_sched s') = nerr (a_sched s))%nat.
Proof.
  intros Hwf Hok Hby. unfold ar_stream, ar_run_fuel. apply ar_run_spec; try assumption.
  rewrite app_length. lia.
Qed.

Theorem aio_safe max ps sched calls c :
  Forall (fits max) ps -> Forall (fun p => bytes_ok p = true) ps -> Forall atok_ok sched ->
  exists os r' s',
    ar_stream V dec calls (areader_new max) (mkasrc (stream_of ps) sched c) = (os, r', s') /\
    filter (fun o => negb (transient V o)) os = map (decode_outcome V dec) ps ++ [OEnd] /\
    (length (filter (transient V) os) + nerr (a_sched s') = nerr sched)%nat.
Proof.
  intros Hp Hb Hs.
  destruct (aio_spec calls (areader_new max) (mkasrc (stream_of ps) sched c)) as [os [r' [s' [E [F1 F2]]]]].
  - apply ar_wf_new.
  - exact Hs.
  - cbn [state_bytes areader_new ar_state rstate_new N.to_nat firstn app a_data]. apply bytes_ok_stream. exact Hb.
  - exists os, r', s'. split; [exact E|]. split; [|exact F2].
    rewrite F1. cbn [state_bytes areader_new ar_state rstate_new N.to_nat firstn app a_data ar_max].
    rewrite spec_stream_frames by exact Hp. apply map_outcome_frames.
Qed.

Theorem aio_truncated max ps p k sched calls c :
  Forall (fits max) ps -> fits max p -> (0 < k < length (frame_of p))%nat ->
  Forall (fun p => bytes_ok p = true) (p :: ps) -> Forall atok_ok sched ->
  exists os r' s',
    ar_stream V dec calls (areader_new max) (mkasrc (stream_of ps ++ firstn k (frame_of p)) sched c) = (os, r', s') /\
    filter (fun o => negb (transient V o)) os = map (decode_outcome V dec) ps ++ [OErr IoUnexpectedEof].
Proof.
  intros Hp Hq Hk Hb Hs. inversion Hb as [|? ? Hbp Hbps]; subst.
  destruct (aio_spec calls (areader_new max) (mkasrc (stream_of ps ++ firstn k (frame_of p)) sched c)) as [os [r' [s' [E [F1 F2]]]]].
  - apply ar_wf_new.
  - exact Hs.
  - cbn [state_bytes areader_new ar_state rstate_new N.to_nat firstn app a_data]. rewrite bytes_ok_app, bytes_ok_stream by exact Hbps. apply bytes_ok_firstn.
    unfold frame_of. rewrite bytes_ok_app, be_bytes_ok. exact Hbp.
  - exists os, r', s'. split; [exact E|].
    rewrite F1. cbn [state_bytes areader_new ar_state rstate_new N.to_nat firstn app a_data ar_max].
    rewrite spec_stream_cut by assumption. apply map_outcome_frames.
Qed.

Theorem aio_too_long max ps p rest sched calls c :
  Forall (fits max) ps -> max < len p -> len p < 4294967296 ->
  Forall (fun p => bytes_ok p = true) (p :: ps) -> bytes_ok rest = true -> Forall atok_ok sched ->
  exists os r' s',
    ar_stream V dec calls (areader_new max) (mkasrc (stream_of ps ++ frame_of p ++ rest) sched c) = (os, r', s') /\
    filter (fun o => negb (transient V o)) os = map (decode_outcome V dec) ps ++ [OErr IoInvalidLen].
Proof.
  intros Hp Hq1 Hq2 Hb Hr Hs. inversion Hb as [|? ? Hbp Hbps]; subst.
  destruct (aio_spec calls (areader_new max) (mkasrc (stream_of ps ++ frame_of p ++ rest) sched c)) as [os [r' [s' [E [F1 F2]]]]].
  - apply ar_wf_new.
  - exact Hs.
  - cbn [state_bytes areader_new ar_state rstate_new N.to_nat firstn app a_data]. rewrite bytes_ok_app, bytes_ok_stream by exact Hbps.
    unfold frame_of. rewrite !bytes_ok_app, be_bytes_ok, Hbp, Hr. reflexivity.
  - exists os, r', s'. split; [exact E|].
    rewrite F1. cbn [state_bytes areader_new ar_state rstate_new N.to_nat firstn app a_data ar_max].
    rewrite spec_stream_too_long by assumption. apply map_outcome_frames.
Qed.

End C15.

Example aio_safe_ex :
  let ps := [[65; 1]; []; [66; 1; 2]] in
  let sched := [AData 3; APend; AData 1; AErr; APend; AData 2; APend; APend; AData 1] in
  let calls := [CPoll; CDrop; CDrop; CPoll] in
  Forall (fits 16) ps /\ Forall (fun p => bytes_ok p = true) ps /\ Forall atok_ok sched /\
  fst (fst (aio_read_run 16 [[65; 1]; [66; 1; 2]] (stream_of ps) sched calls))
    = [OErr IoInner; OVal [65; 1]; OErr IoDecode; OVal [66; 1; 2]; OEnd].
Proof.
  cbn zeta. split; [|split; [|split]].
  - repeat constructor; vm_compute; congruence.
  - repeat constructor.
  - repeat constructor; vm_compute; congruence.
  - vm_compute. reflexivity.
Qed.

(* ------------------------------------------------------------------------------------------ *)
(* AsyncWriter *)
Lemma firstn_add_skipn {A} (l : list A) a b : firstn a l ++ firstn b (skipn a l) = firstn (a + b) l.
Proof.
  revert l. induction a as [|a IH]; intro l; [reflexivity|].
  destruct l as [|x l]; cbn [firstn skipn Nat.add app]; [now rewrite firstn_nil|].
  f_equal. apply IH.
Qed.

Lemma firstn_len_firstn {A} (l : list A) j : firstn (length (firstn j l)) l = firstn j l.
Proof.
  rewrite firstn_length. destruct (Nat.le_ge_cases j (length l)).
  - rewrite Nat.min_l by lia. reflexivity.
  - rewrite Nat.min_r by lia. rewrite firstn_all. symmetry. apply firstn_all2. lia.
Qed.

Fixpoint nzero (l : list ktok) : nat :=
  match l with
  | [] => O
  | KAccept j :: t => if j =? 0 then S (nzero t) else nzero t
  | _ :: t => nzero t
  end.

Lemma asink_poll_cases k offered r k1 :
  asink_poll k offered = (r, k1) -> 1 <= len offered ->
  match r with
  | PwPending => k_out k1 = k_out k /\ S (length (k_sched k1)) = length (k_sched k) /\ nzero (k_sched k1) = nzero (k_sched k)
  | PwErr => k_out k1 = k_out k /\ S (length (k_sched k1)) = length (k_sched k) /\ nzero (k_sched k1) = nzero (k_sched k)
  | PwOk n =>
      k_out k1 = k_out k ++ [firstn (N.to_nat n) offered] /\ n <= len offered /\
      (length (k_sched k1) <= length (k_sched k))%nat /\
      ((k_sched k = [] /\ k_sched k1 = [] /\ n = len offered) \/
       (S (length (k_sched k1)) = length (k_sched k) /\
        (n = 0 -> S (nzero (k_sched k1)) = nzero (k_sched k)) /\ (n <> 0 -> nzero (k_sched k1) = nzero (k_sched k))))
  end.
Proof.
  unfold asink_poll. destruct k as [out sched calls]. cbn [k_out k_sched k_calls].
  destruct sched as [|[j| |] t]; intros E Hoff.
  - injection E as <- <-. cbn [k_out k_sched]. rewrite length_len, firstn_all. repeat split; try lia. left. auto.
  - rewrite splitN_spec in E. injection E as <- <-. cbn [k_out k_sched length nzero].
    rewrite length_len, firstn_len_firstn. rewrite len_firstn.
    repeat split; try lia. right. split; [reflexivity|].
    destruct (N.eqb_spec j 0); split; intro; try lia.
  - injection E as <- <-. cbn [k_out k_sched length nzero]. auto.
  - injection E as <- <-. cbn [k_out k_sched length nzero]. auto.
Qed.

Definition need_s (w : awriter) (k : asink) (o : N) : nat :=
  length (k_sched k) + (if o <? len (aw_buf w) then 2 else 1).

Lemma sync_loop_spec : forall fuel w k o base,
  aw_state w = WriteFrom o -> o <= len (aw_buf w) -> len (aw_buf w) < two64 ->
  concat (k_out k) = base ++ firstn (N.to_nat o) (aw_buf w) ->
  (need_s w k o <= fuel)%nat ->
  exists res w' k', sync_loop fuel w k = (res, w', k') /\
    aw_buf w' = aw_buf w /\ aw_max w' = aw_max w /\ (length (k_sched k') <= length (k_sched k))%nat /\
    match res with
    | SyReady SOk =>
        aw_state w' = WNone /\ concat (k_out k') = base ++ aw_buf w /\ nzero (k_sched k') = nzero (k_sched k)
    | SyReady (SErr e) =>
        exists o', aw_state w' = WriteFrom o' /\ o <= o' /\ o' < len (aw_buf w) /\
          concat (k_out k') = base ++ firstn (N.to_nat o') (aw_buf w) /\
          (length (k_sched k') < length (k_sched k))%nat /\
          ((e = IoInner /\ nzero (k_sched k') = nzero (k_sched k)) \/
           (e = IoWriteZero /\ S (nzero (k_sched k')) = nzero (k_sched k)))
    | SyPend =>
        exists o', aw_state w' = WriteFrom o' /\ o <= o' /\ o' < len (aw_buf w) /\
          concat (k_out k') = base ++ firstn (N.to_nat o') (aw_buf w) /\
          (length (k_sched k') < length (k_sched k))%nat /\ nzero (k_sched k') = nzero (k_sched k)
    | SyReady SPanic | SyReady SFuel => False
    end.
Proof.
  induction fuel as [|f IH]; intros w k o base Hst Ho Hu Hout Hf.
  { unfold need_s in Hf. destruct (o <? len (aw_buf w)); lia. }
  cbn [sync_loop]. rewrite Hst. unfold need_s in Hf.
  destruct (N.leb_spec (len (aw_buf w)) o) as [Hdone|Hmore].
  - assert (o = len (aw_buf w)) by lia. subst o.
    eexists _, _, _. split; [reflexivity|]. cbn [set_wstate aw_buf aw_max aw_state]. repeat split; try lia.
    rewrite Hout. f_equal. apply firstn_all2. unfold len. lia.
  - destruct (N.ltb_spec o (len (aw_buf w))) as [_|]; [|lia].
    unfold write_arm.
    set (offered := skipn (N.to_nat o) (aw_buf w)).
    assert (Loff : len offered = len (aw_buf w) - o) by (unfold offered; apply len_skipn).
    destruct (asink_poll k offered) as [[n| |] k1] eqn:Ep; apply asink_poll_cases in Ep; try lia.
    + destruct Ep as [Eout [Hn [Hsl Hcase]]].
      destruct (N.eqb_spec n 0) as [Hz|Hnz].
      * (* accept 0: WriteZero *)
        destruct Hcase as [[_ [_ Hall]]|[Hsl2 [Hz1 _]]]; [lia|].
        eexists _, _, _. split; [reflexivity|]. repeat split; try lia.
        exists o. split; [exact Hst|]. split; [lia|]. split; [lia|]. split; [|split; [lia|]].
        -- rewrite Eout, concat_app, Hout. subst n. cbn [N.to_nat firstn concat app]. now rewrite !app_nil_r.
        -- right. split; [reflexivity|]. auto.
      * destruct (N.leb_spec two64 (o + n)) as [Hov|_].
        { exfalso. lia. }
        cbn [set_wstate].
        set (w1 := mkawriter (aw_buf w) (aw_max w) (WriteFrom (o + n))).
        destruct (IH w1 k1 (o + n) base) as [res [w' [k' [E [Hb [Hm [Hsl' P]]]]]]].
        -- reflexivity.
        -- cbn [aw_buf w1]. lia.
        -- cbn [aw_buf w1]. exact Hu.
        -- cbn [aw_buf w1]. rewrite Eout, concat_app, Hout. cbn [concat]. rewrite app_nil_r, <- app_assoc. f_equal.
           unfold offered. rewrite firstn_add_skipn. f_equal. lia.
        -- unfold need_s. cbn [aw_buf w1].
           destruct (N.ltb_spec (o + n) (len (aw_buf w))) as [Hlt|Hge].
           ++ destruct Hcase as [[_ [_ Hall]]|[Hsl2 _]]; lia.
           ++ lia.
        -- exists res, w', k'. split; [exact E|]. cbn [aw_buf aw_max w1] in *. repeat split; try assumption; try lia.
           assert (Hnz' : nzero (k_sched k1) = nzero (k_sched k)).
           { destruct Hcase as [[E1 [E2 _]]|[_ [_ Hk]]]; [now rewrite E1, E2|auto]. }
           destruct res as [[|e| |]|]; try exact P.
           ++ destruct P as [A [B C]]. repeat split; try assumption; try congruence.
           ++ destruct P as [o' [A [B [C [D [F G]]]]]]. exists o'.
              split; [exact A|]. split; [lia|]. split; [exact C|]. split; [exact D|]. split; [lia|].
              destruct G as [[G1 G2]|[G1 G2]]; [left|right]; split; try assumption; congruence.
           ++ destruct P as [o' [A [B [C [D [F G]]]]]]. exists o'.
              split; [exact A|]. split; [lia|]. split; [exact C|]. split; [exact D|]. split; [lia|congruence].
    + destruct Ep as [Eout [Hsl Hnz]].
      eexists _, _, _. split; [reflexivity|]. repeat split; try lia.
      exists o. repeat split; try lia; try assumption. now rewrite Eout.
    + destruct Ep as [Eout [Hsl Hnz]].
      eexists _, _, _. split; [reflexivity|]. repeat split; try lia.
      exists o. repeat split; try lia; try assumption; [now rewrite Eout|]. left. auto.
Qed.

(* C16_idle: sync on an idle writer returns Ok at once and does not touch the sink *)
Lemma sync_idle fuel w k : aw_state w = WNone -> sync_poll fuel SStart w k = (SyReady SOk, w, k).
Proof. intro H. cbn [sync_poll sync_loop]. now rewrite H. Qed.

(* a suspended sync future carries nothing but its program point *)
Lemma sync_resume_eq fuel w k o :
  aw_state w = WriteFrom o -> o < len (aw_buf w) -> sync_poll fuel SAtWrite w k = sync_poll fuel SStart w k.
Proof.
  intros H Ho. cbn [sync_poll sync_loop]. rewrite H.
  destruct (N.leb_spec (len (aw_buf w)) o); [lia|reflexivity].
Qed.

(* C16_zero: a sink that accepts 0 bytes of a non-empty offer produces WriteZero; offset and buffer stay *)
Lemma sync_zero fuel w k o t c out :
  aw_state w = WriteFrom o -> o < len (aw_buf w) -> k = mkasink out (KAccept 0 :: t) c ->
  sync_poll fuel SStart w k = (SyReady (SErr IoWriteZero), w, mkasink (out ++ [[]]) t (c + 1)).
Proof.
  intros H Ho ->. cbn [sync_poll sync_loop]. rewrite H.
  destruct (N.leb_spec (len (aw_buf w)) o); [lia|].
  unfold write_arm, asink_poll. cbn [k_sched k_out k_calls]. rewrite splitN_spec. cbn [N.to_nat firstn].
  change (len []) with 0. destruct (N.eqb_spec 0 0); [reflexivity|lia].
Qed.

Definition inflight (m : wmode) (w : awriter) (F : bytes) : Prop :=
  match m with
  | MWrite WfStart => False
  | _ => exists o, aw_state w = WriteFrom o /\ o < len F /\ aw_buf w = F
  end.

Definition ev_ok (F : bytes) (ev : wev) : Prop :=
  match ev with
  | EvW (WOk n) => n = len F - 4
  | EvW (WErr e) => e = IoInner \/ e = IoWriteZero
  | EvS SOk => True
  | EvS (SErr e) => e = IoInner \/ e = IoWriteZero
  | _ => False
  end.

Definition is_wz (ev : wev) : bool :=
  match ev with EvW (WErr IoWriteZero) => true | EvS (SErr IoWriteZero) => true | _ => false end.

Definition sess_post (F base : bytes) (w : awriter) (k : asink) (evs : list wev) (w' : awriter) (k' : asink) : Prop :=
  aw_state w' = WNone /\ aw_buf w' = F /\ aw_max w' = aw_max w /\ concat (k_out k') = base ++ F /\
  Forall (ev_ok F) evs /\ (length (k_sched k') <= length (k_sched k))%nat /\
  (length (filter is_wz evs) + nzero (k_sched k') = nzero (k_sched k))%nat.

(* the frame F is in the buffer and o < |F| bytes of it are in the sink: whatever the sink and the caller do
   from here (short writes, Pending, errors, accept-0, dropping the write or the sync future), the session
   ends idle with exactly F appended *)
Lemma session_inflight : forall fuel calls m e w k base F o,
  m <> MWrite WfStart ->
  aw_state w = WriteFrom o -> o < len F -> aw_buf w = F ->
  concat (k_out k) = base ++ firstn (N.to_nat o) F ->
  4 <= len F -> len F < two64 -> (length (k_sched k) < fuel)%nat ->
  exists evs c' w' k', aw_session fuel calls m e w k = (evs, c', w', k') /\ sess_post F base w k evs w' k'.
Proof.
  induction fuel as [|f IH]; intros calls m e w k base F o Hm Hst Ho Hb Hout H4 Hu Hfu; [lia|].
  assert (Hsl : exists res w1 k1, sync_loop (S (asink_fuel k)) w k = (res, w1, k1) /\
            aw_buf w1 = aw_buf w /\ aw_max w1 = aw_max w /\ (length (k_sched k1) <= length (k_sched k))%nat /\
            match res with
            | SyReady SOk => aw_state w1 = WNone /\ concat (k_out k1) = base ++ aw_buf w /\ nzero (k_sched k1) = nzero (k_sched k)
            | SyReady (SErr er) =>
                exists o', aw_state w1 = WriteFrom o' /\ o <= o' /\ o' < len (aw_buf w) /\
                  concat (k_out k1) = base ++ firstn (N.to_nat o') (aw_buf w) /\
                  (length (k_sched k1) < length (k_sched k))%nat /\
                  ((er = IoInner /\ nzero (k_sched k1) = nzero (k_sched k)) \/
                   (er = IoWriteZero /\ S (nzero (k_sched k1)) = nzero (k_sched k)))
            | SyPend =>
                exists o', aw_state w1 = WriteFrom o' /\ o <= o' /\ o' < len (aw_buf w) /\
                  concat (k_out k1) = base ++ firstn (N.to_nat o') (aw_buf w) /\
                  (length (k_sched k1) < length (k_sched k))%nat /\ nzero (k_sched k1) = nzero (k_sched k)
            | SyReady SPanic | SyReady SFuel => False
            end).
  { apply sync_loop_spec; rewrite ?Hb; try assumption; try lia.
    unfold need_s, asink_fuel. destruct (o <? len (aw_buf w)); lia. }
  destruct Hsl as [res [w1 [k1 [Esl [Hb1 [Hm1 [Hl1 P]]]]]]]. rewrite Hb in *.
  assert (Esp : forall fu, fu = SStart \/ fu = SAtWrite -> sync_poll (asink_fuel k) fu w k = (res, w1, k1)).
  { intros fu [->| ->]; [exact Esl|]. rewrite (sync_resume_eq _ w k o) by (rewrite ?Hb; assumption). exact Esl. }
  (* what happens after this poll, by its result *)
  assert (Kcont : forall c m2 o', m2 <> MWrite WfStart ->
            aw_state w1 = WriteFrom o' -> o' < len F -> concat (k_out k1) = base ++ firstn (N.to_nat o') F ->
            (length (k_sched k1) < length (k_sched k))%nat ->
            exists evs c' w' k', aw_session f c m2 e w1 k1 = (evs, c', w', k') /\ sess_post F base w1 k1 evs w' k').
  { intros c m2 o' Hm2 Hs2 Ho2 Hout2 Hlt. apply (IH c m2 e w1 k1 base F o'); try assumption. lia. }
  destruct m as [[|]|fu]; [contradiction Hm; reflexivity| |].
  - (* polling the write future *)
    cbn [aw_session aw_poll]. rewrite (Esp SAtWrite) by auto. unfold finish_write.
    destruct res as [[|er| |]|]; try contradiction.
    + destruct P as [A [B C]]. rewrite Hb1. destruct (N.ltb_spec (len F) 4); [lia|].
      eexists _, _, _, _. split; [reflexivity|]. unfold sess_post. repeat split; try assumption; try lia; try (repeat constructor; fail); try (cbn; lia).
    + destruct P as [o' [A [B [C [D [G H]]]]]].
      destruct (Kcont calls (MSync SStart) o') as [evs [c' [w' [k' [E' [S1 [S2 [S3 [S4 [S5 [S6 S7]]]]]]]]]]]; try assumption; [discriminate|].
      rewrite E'. eexists _, _, _, _. split; [reflexivity|]. unfold sess_post. repeat split; try assumption; try lia; try congruence.
      * constructor; [cbn; destruct H as [[-> _]|[-> _]]; auto|exact S5].
      * cbn [filter is_wz]. destruct H as [[-> Hz]|[-> Hz]]; cbn [length]; lia.
    + destruct P as [o' [A [B [C [D [G H]]]]]].
      assert (K2 : forall c m2, m2 <> MWrite WfStart ->
                exists evs c' w' k', aw_session f c m2 e w1 k1 = (evs, c', w', k') /\ sess_post F base w k evs w' k').
      { intros c m2 Hm2. destruct (Kcont c m2 o') as [evs [c' [w' [k' [E' [S1 [S2 [S3 [S4 [S5 [S6 S7]]]]]]]]]]]; try assumption.
        exists evs, c', w', k'. split; [exact E'|]. unfold sess_post. repeat split; try assumption; try lia; congruence. }
      destruct calls as [|[|] c]; apply K2; discriminate.
  - (* polling a sync future *)
    cbn [aw_session]. rewrite (Esp fu) by (destruct fu; auto).
    destruct res as [[|er| |]|]; try contradiction.
    + destruct P as [A [B C]].
      eexists _, _, _, _. split; [reflexivity|]. unfold sess_post. repeat split; try assumption; try lia; try (repeat constructor; fail); try (cbn; lia).
    + destruct P as [o' [A [B [C [D [G H]]]]]].
      destruct (Kcont calls (MSync SStart) o') as [evs [c' [w' [k' [E' [S1 [S2 [S3 [S4 [S5 [S6 S7]]]]]]]]]]]; try assumption; [discriminate|].
      rewrite E'. eexists _, _, _, _. split; [reflexivity|]. unfold sess_post. repeat split; try assumption; try lia; try congruence.
      * constructor; [cbn; destruct H as [[-> _]|[-> _]]; auto|exact S5].
      * cbn [filter is_wz]. destruct H as [[-> Hz]|[-> Hz]]; cbn [length]; lia.
    + destruct P as [o' [A [B [C [D [G H]]]]]].
      assert (K2 : forall c m2, m2 <> MWrite WfStart ->
                exists evs c' w' k', aw_session f c m2 e w1 k1 = (evs, c', w', k') /\ sess_post F base w k evs w' k').
      { intros c m2 Hm2. destruct (Kcont c m2 o') as [evs [c' [w' [k' [E' [S1 [S2 [S3 [S4 [S5 [S6 S7]]]]]]]]]]]; try assumption.
        exists evs, c', w', k'. split; [exact E'|]. unfold sess_post. repeat split; try assumption; try lia; congruence. }
      destruct calls as [|[|] c]; apply K2; discriminate.
Qed.

(* ------------------------------------------------------------------------------------------ *)
(* C16 *)
Definition frame_part (max : N) (e : enc_res) : bytes :=
  match e with EncOk p => if len p <=? max then frame_of p else [] | EncFail _ => [] end.

(* the only thing asked of a value: if it is accepted its length fits the u32 prefix.  Always true when
   max_len < 2^32, which AsyncWriter::set_max_len(u32) guarantees (enc_fits_u32 below). *)
Definition enc_fits (max : N) (e : enc_res) : Prop :=
  match e with EncOk p => len p <= max -> len p < 4294967296 | EncFail _ => True end.

Lemma enc_fits_u32 max es : max < 4294967296 -> Forall (enc_fits max) es.
Proof. intro H. apply Forall_forall. intros [p|part] _; cbn [enc_fits]; [lia|exact I]. Qed.

Definition evs_ok (max : N) (e : enc_res) (evs : list wev) : Prop :=
  match e with
  | EncOk p => if len p <=? max then Forall (ev_ok (frame_of p)) evs
               else evs = [EvW (WErr IoInvalidLen); EvS SOk]
  | EncFail _ => evs = [EvW (WErr IoEncode); EvS SOk]
  end.

(* C16_reject, in any writer state: an encoding failure or an over-long value returns the error from the
   first poll, makes no sink call and leaves the state enum as it was (the buffer is overwritten) *)
Lemma aw_poll_reject fuel e w k :
  frame_part (aw_max w) e = [] ->
  exists er b, aw_poll fuel WfStart e w k = (WReady (WErr er), mkawriter b (aw_max w) (aw_state w), k) /\
    er = match e with EncOk _ => IoInvalidLen | EncFail _ => IoEncode end.
Proof.
  intros Hp. cbn [aw_poll]. destruct e as [p|part].
  - cbn [frame_part] in Hp. destruct (N.leb_spec (len p) (aw_max w)) as [Hle|Hgt].
    + exfalso. unfold frame_of in Hp. apply (f_equal (@length N)) in Hp. rewrite app_length, be_length in Hp. cbn in Hp. lia.
    + rewrite build_frame_too_long by exact Hgt. eexists _, _. split; reflexivity.
  - cbn [build_frame]. eexists _, _. split; reflexivity.
Qed.

Lemma aw_poll_start_accept fuel p w k :
  len p <= aw_max w -> len p < 4294967296 ->
  aw_poll fuel WfStart (EncOk p) w k
    = aw_poll fuel WfInSync (EncOk p) (mkawriter (frame_of p) (aw_max w) (WriteFrom 0)) k.
Proof.
  intros Hm Hs. cbn [aw_poll]. rewrite build_frame_ok by assumption.
  rewrite (sync_resume_eq fuel _ k 0); [reflexivity|reflexivity|].
  cbn [aw_buf]. rewrite len_frame_of. lia.
Qed.

Definition call_post (e : enc_res) (w : awriter) (k : asink) (evs : list wev) (w' : awriter) (k' : asink) : Prop :=
  aw_state w' = WNone /\ aw_max w' = aw_max w /\
  concat (k_out k') = concat (k_out k) ++ frame_part (aw_max w) e /\
  evs_ok (aw_max w) e evs /\
  (frame_part (aw_max w) e = [] -> k' = k) /\
  (length (k_sched k') <= length (k_sched k))%nat /\
  (length (filter is_wz evs) + nzero (k_sched k') = nzero (k_sched k))%nat.

(* one value under the caller protocol, starting from an idle writer *)
Lemma aw_write_call_spec calls e w k :
  aw_state w = WNone -> enc_fits (aw_max w) e ->
  exists evs c' w' k', aw_write_call calls e w k = (evs, c', w', k') /\ call_post e w k evs w' k'.
Proof.
  intros Hst Hf. unfold aw_write_call.
  destruct (frame_part (aw_max w) e) as [|x F'] eqn:Efp.
  - (* refused *)
    destruct (aw_poll_reject (asink_fuel k) e w k Efp) as [er [b [Ep Eer]]].
    replace (2 * length (k_sched k) + 4)%nat with (S (S (2 * length (k_sched k) + 2))) by lia.
    cbn [aw_session]. rewrite Ep. cbn [aw_session]. rewrite Hst.
    rewrite sync_idle by reflexivity.
    eexists _, _, _, _. split; [reflexivity|]. unfold call_post. cbn [aw_state aw_max]. rewrite Efp, app_nil_r.
    repeat split; try lia.
    + unfold evs_ok. subst er. destruct e as [p|part]; [|reflexivity].
      cbn [frame_part] in Efp. destruct (len p <=? aw_max w); [|reflexivity].
      exfalso. unfold frame_of in Efp. apply (f_equal (@length N)) in Efp. rewrite app_length, be_length in Efp. cbn in Efp. lia.
    + subst er. destruct e; cbn; lia.
  - (* accepted: the frame is built in the buffer, the state is armed, then sync *)
    destruct e as [p|part]; [|discriminate]. cbn [frame_part enc_fits] in *.
    destruct (N.leb_spec (len p) (aw_max w)) as [Hle|]; [|discriminate]. specialize (Hf Hle).
    set (w1 := mkawriter (frame_of p) (aw_max w) (WriteFrom 0)).
    assert (E1 : forall f, aw_session (S f) calls (MWrite WfStart) (EncOk p) w k
                      = aw_session (S f) calls (MWrite WfInSync) (EncOk p) w1 k).
    { intro f. cbn [aw_session]. rewrite aw_poll_start_accept by assumption. reflexivity. }
    replace (2 * length (k_sched k) + 4)%nat with (S (2 * length (k_sched k) + 3)) by lia. rewrite E1.
    destruct (session_inflight (S (2 * length (k_sched k) + 3)) calls (MWrite WfInSync) (EncOk p) w1 k
                (concat (k_out k)) (frame_of p) 0) as [evs [c' [w' [k' [E [S1 [S2 [S3 [S4 [S5 [S6 S7]]]]]]]]]]].
    + discriminate.
    + reflexivity.
    + rewrite len_frame_of. lia.
    + reflexivity.
    + cbn [N.to_nat firstn]. now rewrite app_nil_r.
    + rewrite len_frame_of. lia.
    + rewrite len_frame_of. unfold two64. lia.
    + lia.
    + exists evs, c', w', k'. split; [exact E|]. unfold call_post, evs_ok. cbn [frame_part aw_max w1] in *.
      destruct (N.leb_spec (len p) (aw_max w)) as [_|]; [|lia].
      repeat split; try assumption.
      intro Hnil. rewrite Efp in Hnil. discriminate.
Qed.

Lemma aw_run_spec : forall es calls w k,
  aw_state w = WNone -> Forall (enc_fits (aw_max w)) es ->
  exists evss w' k',
    aw_run calls es w k = (evss, SyReady SOk, w', k') /\
    aw_state w' = WNone /\ aw_max w' = aw_max w /\
    concat (k_out k') = concat (k_out k) ++ concat (map (frame_part (aw_max w)) es) /\
    Forall2 (evs_ok (aw_max w)) es evss /\
    (length (filter is_wz (concat evss)) + nzero (k_sched k') = nzero (k_sched k))%nat.
Proof.
  induction es as [|e es IH]; intros calls w k Hst Hf.
  - cbn [aw_run]. rewrite sync_idle by exact Hst.
    eexists _, _, _. split; [reflexivity|]. cbn [map concat filter length]. rewrite app_nil_r.
    repeat split; try assumption; try lia. constructor.
  - inversion Hf as [|? ? Hfe Hfes]; subst. cbn [aw_run].
    destruct (aw_write_call_spec calls e w k Hst Hfe) as [evs [c1 [w1 [k1 [E1 [S1 [S2 [S3 [S4 [S5 [S6 S7]]]]]]]]]]].
    rewrite E1. rewrite <- S2 in Hfes.
    destruct (IH c1 w1 k1 S1 Hfes) as [evss [w' [k' [E2 [T1 [T2 [T3 [T4 T5]]]]]]]].
    rewrite E2. eexists _, _, _. split; [reflexivity|]. rewrite S2 in *.
    split; [exact T1|]. split; [exact T2|]. split.
    + rewrite T3, S3. cbn [map concat]. now rewrite app_assoc.
    + split; [constructor; assumption|]. cbn [concat]. rewrite filter_app, app_length. lia.
Qed.

(* C16_frames *)
Theorem aio_write_frames max es sched calls b0 c0 :
  Forall (enc_fits max) es ->
  exists evss w' k',
    aw_run calls es (mkawriter b0 max WNone) (mkasink [] sched c0) = (evss, SyReady SOk, w', k') /\
    aw_state w' = WNone /\
    concat (k_out k') = concat (map (frame_part max) es) /\
    Forall2 (evs_ok max) es evss /\
    (length (filter is_wz (concat evss)) + nzero (k_sched k') = nzero sched)%nat.
Proof.
  intro Hf. destruct (aw_run_spec es calls (mkawriter b0 max WNone) (mkasink [] sched c0) eq_refl Hf)
    as [evss [w' [k' [E [A [B [C [D F]]]]]]]].
  exists evss, w', k'. cbn in *. auto.
Qed.

(* the same with the only assumption the real API needs: max_len is a u32 *)
Corollary aio_write_frames_u32 max es sched calls b0 c0 :
  max < 4294967296 ->
  exists evss w' k',
    aw_run calls es (mkawriter b0 max WNone) (mkasink [] sched c0) = (evss, SyReady SOk, w', k') /\
    aw_state w' = WNone /\
    concat (k_out k') = concat (map (frame_part max) es) /\
    Forall2 (evs_ok max) es evss /\
    (length (filter is_wz (concat evss)) + nzero (k_sched k') = nzero sched)%nat.
Proof. intro H. apply aio_write_frames. apply enc_fits_u32. exact H. Qed.

Example aio_write_ex :
  let es := [EncOk [65; 1]; EncFail [170]; EncOk [66; 1; 2; 3]; EncOk []] in
  let sched := [KAccept 2; KPend; KAccept 1; KAccept 0; KErr; KPend; KAccept 3] in
  let calls := [CPoll; CDrop; CDrop; CPoll] in
  Forall (enc_fits 3) es /\
  (let '(evss, fin, w, k) := aio_write_run 3 es sched calls in
   concat (k_out k) = frame_of [65; 1] ++ frame_of [] /\ aw_state w = WNone /\ fin = SyReady SOk /\
   evss = [[EvW (WErr IoWriteZero); EvS (SErr IoInner); EvS SOk]; [EvW (WErr IoEncode); EvS SOk];
           [EvW (WErr IoInvalidLen); EvS SOk]; [EvW (WOk 0)]]).
Proof.
  cbn zeta. split.
  - repeat constructor; vm_compute; congruence.
  - vm_compute. repeat split; reflexivity.
Qed.

(* Outside the protocol of C16 (observation, see notes/io.md): a write that is refused while a cancelled
   write is still armed overwrites the buffer but leaves the state armed, so a later sync sends bytes of the
   refused value.  Here: value [65;1] is written, its future dropped after 2 of 6 bytes; a too-long value is
   refused; sync then sends bytes 2.. of the refused value's buffer. *)
Example aw_unsynced_reject_garbage :
  let w0 := mkawriter [] 2 WNone in
  let k0 := mkasink [] [KAccept 2; KPend] 0 in
  let '(_, w1, k1) := aw_poll 9 WfStart (EncOk [65; 1]) w0 k0 in            (* Pending; future dropped *)
  let '(r2, w2, k2) := aw_poll 9 WfStart (EncOk [67; 7; 8; 9]) w1 k1 in     (* refused: InvalidLen *)
  let '(r3, w3, k3) := sync_poll 9 SStart w2 k2 in
  r2 = WReady (WErr IoInvalidLen) /\ aw_state w2 = WriteFrom 2 /\
  r3 = SyReady SOk /\ concat (k_out k3) = [0; 0] ++ [0; 2; 67; 7; 8; 9].
Proof. vm_compute. repeat split; reflexivity. Qed.

(* Inside the protocol of C16 every write call starts on an idle writer (call_post / sess_post end with
   aw_state = WNone, and aw_run only issues the next write after the previous write or sync returned Ok).  A
   refused value therefore meets state None: it leaves the state None, makes no sink call, and any later sync is
   the idle sync — the situation of aw_unsynced_reject_garbage (refusal over an armed state) cannot arise. *)
Lemma frame_part_nil_fits max e : frame_part max e = [] -> enc_fits max e.
Proof.
  destruct e as [p|part]; cbn [frame_part enc_fits]; [|auto].
  destruct (N.leb_spec (len p) max) as [Hle|Hgt]; [|intros _ Hle; lia].
  intro H. exfalso. unfold frame_of in H. apply (f_equal (@length N)) in H. rewrite app_length, be_length in H. cbn in H. lia.
Qed.

Theorem aio_reject_in_protocol calls e w k :
  aw_state w = WNone -> frame_part (aw_max w) e = [] ->
  exists evs c' w',
    aw_write_call calls e w k = (evs, c', w', k) /\ aw_state w' = WNone /\
    evs = [EvW (WErr (match e with EncOk _ => IoInvalidLen | EncFail _ => IoEncode end)); EvS SOk] /\
    forall fuel, sync_poll fuel SStart w' k = (SyReady SOk, w', k).
Proof.
  intros Hst Hnil.
  destruct (aw_write_call_spec calls e w k Hst (frame_part_nil_fits _ _ Hnil))
    as [evs [c' [w' [k' [E [S1 [S2 [S3 [S4 [S5 _]]]]]]]]]].
  rewrite (S5 Hnil) in E. exists evs, c', w'. split; [exact E|]. split; [exact S1|]. split.
  - unfold evs_ok in S4. destruct e as [p|part]; [|exact S4]. cbn [frame_part] in Hnil.
    destruct (len p <=? aw_max w); [|exact S4].
    exfalso. unfold frame_of in Hnil. apply (f_equal (@length N)) in Hnil. rewrite app_length, be_length in Hnil. cbn in Hnil. lia.
  - intro fuel. apply sync_idle. exact S1.
Qed.

(* the scenario of aw_unsynced_reject_garbage, but inside the protocol (the dropped write is followed by sync
   before the next write): the sink holds the whole first frame and nothing of the refused value *)
Example aw_synced_reject_clean :
  let '(evss, fin, w, k) := aio_write_run 2 [EncOk [65; 1]; EncOk [67; 7; 8; 9]] [KAccept 2; KPend] [CDrop] in
  evss = [[EvS SOk]; [EvW (WErr IoInvalidLen); EvS SOk]] /\ fin = SyReady SOk /\ aw_state w = WNone /\
  concat (k_out k) = frame_of [65; 1].
Proof. vm_compute. repeat split; reflexivity. Qed.

(* C16 invariant at poll granularity: every poll of a sync future (fresh, or resumed in the state it was
   suspended in) keeps  sink = base ++ (the first o bytes of the buffered frame)  and only moves o forward;
   it reports Ok exactly when the whole frame is in the sink.  Dropping a future changes neither the writer
   nor the sink, so the invariant holds at every point of every schedule. *)
Lemma sync_poll_inv w k o base fu :
  aw_state w = WriteFrom o -> o <= len (aw_buf w) -> len (aw_buf w) < two64 ->
  (fu = SStart \/ (fu = SAtWrite /\ o < len (aw_buf w))) ->
  concat (k_out k) = base ++ firstn (N.to_nat o) (aw_buf w) ->
  exists res w' k', sync_poll (asink_fuel k) fu w k = (res, w', k') /\ aw_buf w' = aw_buf w /\
    ((aw_state w' = WNone /\ res = SyReady SOk /\ concat (k_out k') = base ++ aw_buf w) \/
     (exists o', aw_state w' = WriteFrom o' /\ o <= o' /\ o' < len (aw_buf w) /\
        concat (k_out k') = base ++ firstn (N.to_nat o') (aw_buf w) /\
        (res = SyPend \/ res = SyReady (SErr IoInner) \/ res = SyReady (SErr IoWriteZero)))).
Proof.
  intros Hst Ho Hu Hfu Hout.
  assert (E : sync_poll (asink_fuel k) fu w k = sync_loop (S (asink_fuel k)) w k).
  { destruct Hfu as [->|[-> Hlt]]; [reflexivity|]. now rewrite (sync_resume_eq _ w k o). }
  rewrite E.
  destruct (sync_loop_spec (S (asink_fuel k)) w k o base Hst Ho Hu Hout) as [res [w' [k' [El [Hb [Hm [Hl P]]]]]]].
  { unfold need_s, asink_fuel. destruct (o <? len (aw_buf w)); lia. }
  exists res, w', k'. split; [exact El|]. split; [exact Hb|].
  destruct res as [[|e| |]|]; try contradiction.
  - left. tauto.
  - right. destruct P as [o' [A [B [C [D [F G]]]]]]. exists o'. repeat split; try assumption.
    destruct G as [[-> _]|[-> _]]; auto.
  - right. destruct P as [o' [A [B [C [D [F G]]]]]]. exists o'. repeat split; try assumption. auto.
Qed.

(* ------------------------------------------------------------------------------------------ *)
(* AsyncReader, every source script and every caller script (no hypothesis at all): Vec::resize is only ever
   reached with an argument <= max_len and the buffer never grows beyond max_len. *)
Definition ar_bounded (r r' : areader) : Prop :=
  ar_max r' = ar_max r /\ ar_peak r' <= N.max (ar_peak r) (ar_max r) /\
  len (ar_buf r') <= N.max (len (ar_buf r)) (ar_max r).

Lemma ar_bounded_refl r : ar_bounded r r.
Proof. unfold ar_bounded. repeat split; lia. Qed.

Lemma ar_bounded_trans r1 r2 r3 : ar_bounded r1 r2 -> ar_bounded r2 r3 -> ar_bounded r1 r3.
Proof. unfold ar_bounded. intros [A [B C]] [D [E F]]. rewrite A in *. repeat split; try congruence; lia. Qed.

Lemma asrc_poll_len s want got s1 : asrc_poll s want = (PrData got, s1) -> len got <= want.
Proof.
  unfold asrc_poll. destruct (a_sched s) as [|[k| |] t]; try discriminate.
  - rewrite splitN_spec. intros [= <- _]. rewrite len_firstn. lia.
  - rewrite splitN_spec. intros [= <- _]. rewrite len_firstn. lia.
Qed.

Section Alloc.
Variable V : Type.
Variable dec : bytes -> option V.

Lemma ar_loop_alloc : forall fuel r s res r' s', ar_loop V dec fuel r s = (res, r', s') -> ar_bounded r r'.
Proof.
  induction fuel as [|f IH]; intros r s res r' s'; cbn [ar_loop].
  { intros [= _ <- _]. apply ar_bounded_refl. }
  destruct r as [abuf amax ast apeak]. cbn [ar_state ar_buf ar_max ar_peak].
  destruct ast as [buf o|o].
  - destruct (o =? 4).
    + destruct (amax <? of_be buf) eqn:Em.
      * intros [= _ <- _]. apply ar_bounded_refl.
      * intro E. apply IH in E. eapply ar_bounded_trans; [|exact E].
        apply N.ltb_ge in Em. unfold ar_bounded. cbn [ar_max ar_peak ar_buf]. rewrite len_zeros. repeat split; lia.
    + unfold len_arm. destruct (4 <? o); [intros [= _ <- _]; apply ar_bounded_refl|].
      destruct (asrc_poll s (4 - o)) as [[got| |] s1]; try (intros [= _ <- _]; apply ar_bounded_refl).
      destruct (len got =? 0); [intros [= _ <- _]; apply ar_bounded_refl|].
      destruct (255 <? o + len got mod 256).
      * intros [= _ <- _]. unfold ar_bounded. cbn. repeat split; lia.
      * intro E. apply IH in E. eapply ar_bounded_trans; [|exact E]. unfold ar_bounded. cbn. repeat split; lia.
  - destruct (len abuf <=? o) eqn:Eo.
    + intros [= _ <- _]. unfold ar_bounded. cbn. repeat split; lia.
    + unfold val_arm. cbn [ar_buf]. destruct (asrc_poll s (len abuf - o)) as [[got| |] s1] eqn:Ep;
        try (intros [= _ <- _]; apply ar_bounded_refl).
      apply asrc_poll_len in Ep. apply N.leb_gt in Eo.
      destruct (len got =? 0); [intros [= _ <- _]; apply ar_bounded_refl|].
      assert (Lw : len (write_at abuf o got) = len abuf).
      { unfold len. rewrite write_at_length; [reflexivity|unfold len in *; lia]. }
      destruct (two64 <=? o + len got).
      * intros [= _ <- _]. unfold ar_bounded. cbn. rewrite Lw. repeat split; lia.
      * intro E. apply IH in E. eapply ar_bounded_trans; [|exact E]. unfold ar_bounded. cbn. rewrite Lw. repeat split; lia.
Qed.

Lemma ar_poll_alloc fuel f r s res r' s' : ar_poll V dec fuel f r s = (res, r', s') -> ar_bounded r r'.
Proof.
  destruct f; cbn [ar_poll].
  - apply ar_loop_alloc.
  - destruct (ar_state r) as [buf o|o] eqn:Est; [|intros [= _ <- _]; apply ar_bounded_refl].
    destruct (o =? 4) eqn:E4; [intros [= _ <- _]; apply ar_bounded_refl|].
    intro E. apply (ar_loop_alloc (S fuel) r s res r' s'). cbn [ar_loop]. rewrite Est, E4. exact E.
  - destruct (ar_state r) as [buf o|o] eqn:Est; [intros [= _ <- _]; apply ar_bounded_refl|].
    destruct (len (ar_buf r) <=? o) eqn:E4; [intros [= _ <- _]; apply ar_bounded_refl|].
    intro E. apply (ar_loop_alloc (S fuel) r s res r' s'). cbn [ar_loop]. rewrite Est, E4. exact E.
Qed.

Lemma ar_read_alloc : forall fuel calls f r s o c' r' s',
  ar_read V dec fuel calls f r s = (o, c', r', s') -> ar_bounded r r'.
Proof.
  induction fuel as [|n IH]; intros calls f r s o c' r' s'; cbn [ar_read].
  { intros [= _ _ <- _]. apply ar_bounded_refl. }
  destruct (ar_poll V dec (asrc_fuel s) f r s) as [[res r1] s1] eqn:Ep. apply ar_poll_alloc in Ep.
  destruct res as [o1|f1].
  - intros [= _ _ <- _]. exact Ep.
  - destruct calls as [|[|] c]; intro E; apply IH in E; eapply ar_bounded_trans; eassumption.
Qed.

Theorem ar_run_alloc : forall fuel calls r s os r' s',
  ar_run V dec fuel calls r s = (os, r', s') -> ar_bounded r r'.
Proof.
  induction fuel as [|n IH]; intros calls r s os r' s'; cbn [ar_run].
  { intros [= _ <- _]. apply ar_bounded_refl. }
  unfold ar_read_call.
  destruct (ar_read V dec (length (a_sched s) + 2) calls FStart r s) as [[[o c1] r1] s1] eqn:Er.
  apply ar_read_alloc in Er. destruct (aterminal V o).
  - intros [= _ <- _]. exact Er.
  - destruct (ar_run V dec n c1 r1 s1) as [[os2 r2] s2] eqn:E2. apply IH in E2.
    intros [= _ <- _]. eapply ar_bounded_trans; eassumption.
Qed.

(* under the hypotheses of aio_spec no result is a panic or an exhausted fuel *)
Lemma no_panic_of_filter (os : list (outcome V)) items :
  filter (fun o => negb (transient V o)) os = map (outcome_of_sitem V dec) items ->
  Forall (fun o => o <> OPanic /\ o <> OFuel) os.
Proof.
  revert items. induction os as [|o os IH]; intros items H; [constructor|].
  cbn [filter] in H. destruct (transient V o) eqn:Et; cbn [negb] in H.
  - constructor; [|eapply IH; exact H]. destruct o as [v| |e| |]; try discriminate. split; discriminate.
  - destruct items as [|i items]; [discriminate|]. cbn [map] in H. injection H as Ho H.
    constructor; [|eapply IH; exact H]. subst o.
    destruct i; cbn [outcome_of_sitem]; try (split; discriminate).
    unfold decode_outcome. destruct (dec p); split; discriminate.
Qed.

End Alloc.
