(* Proofs/FrameIoTypes.v — C14 end to end with the real value codec: the section parameter `dec` of Model/FrameIo.v
   instantiated with the built-in Decode impls (decode_ty, as minicbor::decode calls them on a frame's payload) and the
   payloads with what the built-in Encode impls write (encode_ty); C01_roundtrip closes the loop. *)
From MC Require Import Bytes Monad Cbor Decoder Encoder Types TypesEnc TypesDec TypesFacts FrameIo FrameIoFacts.
From Coq Require Import Lia.
Local Open Scope N_scope.

(* Reader::read_with: minicbor::decode_with(&buffer) — decode one value from the start of the payload *)
Definition dec_of (c : cfg) (t : ty) (p : bytes) : option value :=
  match run (decode_auto c t) p with (Ok v, _) => Some v | _ => None end.

(* the payloads the writer produces for a list of values *)
Inductive payloads_of (t : ty) : list value -> list bytes -> Prop :=
| po_nil : payloads_of t [] []
| po_cons v cs vs ps : encode_ty t v = Some cs -> len (flat cs) < two64 -> payloads_of t vs ps ->
    payloads_of t (v :: vs) (flat cs :: ps).

Lemma dec_of_encoding c t v cs : ty_ok t = true -> rt_ok t = true -> encode_ty t v = Some cs -> len (flat cs) < two64 ->
  dec_of c t (flat cs) = Some v.
Proof.
  intros Ht Hr He Hl. unfold dec_of.
  pose proof (roundtrip_auto c t v cs [] Ht Hr He Hl) as R. rewrite app_nil_r in R. rewrite R. reflexivity.
Qed.

Lemma outcomes_of_values c t vs ps : ty_ok t = true -> rt_ok t = true -> payloads_of t vs ps ->
  map (decode_outcome value (dec_of c t)) ps = map OVal vs.
Proof.
  intros Ht Hr H. induction H as [|v cs vs ps He Hl _ IH]; [reflexivity|].
  cbn [map]. rewrite IH. unfold decode_outcome at 1. rewrite (dec_of_encoding c t v cs Ht Hr He Hl). reflexivity.
Qed.

(* every list of values of a built-in type, written frame by frame, under every fair fragmentation with Interrupted errors
   interleaved: the reader yields exactly the values, in order, then a clean end *)
Lemma fio_values_roundtrip : forall c t vs ps max sched buf0 peak calls,
  ty_ok t = true -> rt_ok t = true -> payloads_of t vs ps -> Forall (fits max) ps -> Forall tok_ok sched ->
  exists r' s',
    read_stream value (dec_of c t) (mkreader buf0 max peak) (mksrc (stream_of ps) sched calls) = (map OVal vs ++ [OEnd], r', s')
    /\ s_data s' = [].
Proof.
  intros c t vs ps max sched buf0 peak calls Ht Hr Hp Hf Hs.
  destruct (fio_roundtrip value (dec_of c t) max ps sched buf0 peak calls Hf Hs) as (r' & s' & E & D).
  exists r', s'. split; [|exact D]. rewrite E, (outcomes_of_values c t vs ps Ht Hr Hp). reflexivity.
Qed.

(* ---- the async pair (C15, C16) with the same instantiation ---- *)
From MC Require Import AsyncIo AsyncIoFacts.

Lemma aio_values_safe : forall c t vs ps max sched calls c0,
  ty_ok t = true -> rt_ok t = true -> payloads_of t vs ps ->
  Forall (fits max) ps -> Forall (fun p => bytes_ok p = true) ps -> Forall atok_ok sched ->
  exists os r' s',
    ar_stream value (dec_of c t) calls (areader_new max) (mkasrc (stream_of ps) sched c0) = (os, r', s') /\
    filter (fun o => negb (transient value o)) os = map OVal vs ++ [OEnd] /\
    (length (filter (transient value) os) + nerr (a_sched s') = nerr sched)%nat.
Proof.
  intros c t vs ps max sched calls c0 Ht Hr Hp Hf Hb Hs.
  destruct (aio_safe value (dec_of c t) max ps sched calls c0 Hf Hb Hs) as (os & r' & s' & E & F & N).
  exists os, r', s'. split; [exact E|]. split; [|exact N]. rewrite F, (outcomes_of_values c t vs ps Ht Hr Hp). reflexivity.
Qed.

(* the encode results the writer sees for a list of values of a built-in type *)
Definition enc_results (ps : list bytes) : list enc_res := map EncOk ps.

Lemma aio_values_frames : forall t vs ps max sched calls b0 c0,
  payloads_of t vs ps -> max < 4294967296 ->
  exists evss w' k',
    aw_run calls (enc_results ps) (mkawriter b0 max WNone) (mkasink [] sched c0) = (evss, SyReady SOk, w', k') /\
    aw_state w' = WNone /\
    concat (k_out k') = concat (map (frame_part max) (enc_results ps)).
Proof.
  intros t vs ps max sched calls b0 c0 _ Hm.
  destruct (aio_write_frames_u32 max (enc_results ps) sched calls b0 c0 Hm) as (evss & w' & k' & E & S & O & _).
  exists evss, w', k'. auto.
Qed.
