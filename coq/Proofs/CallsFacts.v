(* Proofs/CallsFacts.v — writing the calls of a tree yields the serialisation of that tree with every
   head in its shortest form (C03, balanced call sequences). *)
From MC Require Import Bytes BytesFacts Cbor Utf8 Acc Encoder Methods Calls EncoderFacts ItemFacts.
From Coq Require Import Lia.
Local Open Scope N_scope.

Section enc_induction.
  Variable P : enc -> Prop.
  Hypothesis HU : forall w n, P (EUInt w n). Hypothesis HN : forall w n, P (ENInt w n).
  Hypothesis HB : forall w b, P (EBytes w b). Hypothesis HBI : forall cs, P (EBytesI cs).
  Hypothesis HT : forall w b, P (EText w b). Hypothesis HTI : forall cs, P (ETextI cs).
  Hypothesis HA : forall w es, Forall P es -> P (EArray w es). Hypothesis HAI : forall es, Forall P es -> P (EArrayI es).
  Hypothesis HM : forall w es, Forall P es -> P (EMap w es). Hypothesis HMI : forall es, Forall P es -> P (EMapI es).
  Hypothesis HG : forall w t e, P e -> P (ETag w t e).
  Hypothesis HS : forall n, P (ESimple n).
  Hypothesis H16 : forall b, P (EF16 b). Hypothesis H32 : forall b, P (EF32 b). Hypothesis H64 : forall b, P (EF64 b).
  Fixpoint enc_ind_forall (e : enc) : P e :=
    let all := fix go (l : list enc) : Forall P l :=
      match l with [] => Forall_nil _ | x :: l' => Forall_cons _ (enc_ind_forall x) (go l') end in
    match e with
    | EUInt w n => HU w n | ENInt w n => HN w n | EBytes w b => HB w b | EBytesI cs => HBI cs
    | EText w b => HT w b | ETextI cs => HTI cs
    | EArray w es => HA w es (all es) | EArrayI es => HAI es (all es)
    | EMap w es => HM w es (all es) | EMapI es => HMI es (all es)
    | ETag w t e' => HG w t e' (enc_ind_forall e')
    | ESimple n => HS n | EF16 b => H16 b | EF32 b => H32 b | EF64 b => H64 b
    end.
End enc_induction.

Definition writes (cs : list call) (bs : bytes) : Prop := exists ch, run_calls cs = Some ch /\ flat ch = bs.

Lemma writes_nil : writes [] [].
Proof. exists []. split; reflexivity. Qed.

Lemma writes_app a b x y : writes a x -> writes b y -> writes (a ++ b) (x ++ y).
Proof.
  revert x. induction a as [|c a IH]; intros x (ch & H1 & H2) Hb.
  - cbn in H1. injection H1 as <-. cbn in H2. subst x. exact Hb.
  - cbn [run_calls] in H1. destruct (run_call c) as [c1|] eqn:Ec; [|discriminate].
    destruct (run_calls a) as [c2|] eqn:Ea; [|discriminate]. injection H1 as <-.
    rewrite flat_app in H2. subst x.
    destruct (IH (flat c2) ltac:(exists c2; split; [exact Ea|reflexivity]) Hb) as (ch' & G1 & G2).
    exists (c1 ++ ch'). split.
    + cbn [app run_calls]. now rewrite Ec, G1.
    + rewrite flat_app, G2. now rewrite app_assoc.
Qed.

Lemma writes_cons c cs ch x : run_call c = Some ch -> writes cs x -> writes (c :: cs) (flat ch ++ x).
Proof.
  intros Hc Hw. change (c :: cs) with ([c] ++ cs). apply writes_app; [|exact Hw].
  exists ch. split; [cbn [run_calls]; rewrite Hc; now rewrite app_nil_r|reflexivity].
Qed.

Lemma writes_flat_map es : Forall (fun e => writes (calls_of e) (ser e)) es ->
  writes (flat_map calls_of es) (flat_map ser es).
Proof. induction 1; cbn [flat_map]; [apply writes_nil|]. now apply writes_app. Qed.

(* trees an encoder can write: shortest heads everywhere (prefer e = e), text valid, values in range *)
Definition chunk_pref (c : chunk_t) : bool := width_eqb (fst c) (min_width (len (snd c))).
Fixpoint short (e : enc) : bool :=
  match e with
  | EUInt w n | ENInt w n => width_eqb w (min_width n)
  | EBytes w b | EText w b => width_eqb w (min_width (len b))
  | EBytesI cs | ETextI cs => forallb chunk_pref cs
  | EArray w es => width_eqb w (min_width (len es)) && forallb short es
  | EArrayI es | EMapI es => forallb short es
  | EMap w es => width_eqb w (min_width (len es / 2)) && forallb short es
  | ETag w t e' => width_eqb w (min_width t) && short e'
  | _ => true
  end.

Lemma width_eqb_eq a b : width_eqb a b = true -> a = b.
Proof. destruct a, b; cbn; intro; congruence. Qed.

Lemma fits_lt64 w n : fits w n = true -> n < 18446744073709551616.
Proof. destruct w; cbn [fits]; intro H; apply N.ltb_lt in H; lia. Qed.

Lemma head_call h : hmeth_ok h = true -> run_call (CHead h) = Some (run_hmeth h) /\ flat (run_hmeth h) = hmeth_head h.
Proof. intro H. cbn [run_call]. rewrite H. split; [reflexivity|now apply hmethods_preferred]. Qed.

Lemma meth_call m : arg_ok m = true -> simple_reserved m = false ->
  exists cs, run_call (CMeth m) = Some cs /\ flat cs = enc_pref (item_of m).
Proof.
  intros Hok Hs. cbn [run_call]. rewrite Hok.
  destruct (run_meth_some m) as (cs & E). rewrite E.
  exists cs. split; [reflexivity|]. now apply methods_preferred.
Qed.

Lemma chunks_write (mk : bytes -> meth) (mt : N) cs :
  (forall b, item_of (mk b) = (if mt =? 2 then IBytes b else IText b)) ->
  (forall b, simple_reserved (mk b) = false) ->
  Forall (fun c => arg_ok (mk (snd c)) = true /\ chunk_pref c = true) cs -> (mt = 2 \/ mt = 3) ->
  writes (map (fun c => CMeth (mk (snd c))) cs) (flat_map (ser_chunk mt) cs).
Proof.
  intros Hitem Hsimple H Hmt. induction H as [|c cs [Hok Hp] _ IH]; cbn [map flat_map]; [apply writes_nil|].
  destruct (meth_call (mk (snd c)) Hok (Hsimple _)) as (ch & E1 & E2).
  replace (ser_chunk mt c) with (flat ch); [now apply writes_cons|].
  rewrite E2, Hitem. unfold ser_chunk. apply width_eqb_eq in Hp. rewrite Hp.
  destruct Hmt as [-> | ->]; reflexivity.
Qed.

Theorem calls_write_tree e : wf e = true -> short e = true -> utf8_ok e = true ->
  writes (calls_of e) (ser e).
Proof.
  induction e using enc_ind_forall; cbn [wf short utf8_ok calls_of ser]; intros Hw Hs Hu;
    repeat match goal with H : _ && _ = true |- _ => apply andb_prop in H as [? ?] end.
  - (* uint *) apply width_eqb_eq in Hs. subst w.
    destruct (meth_call (MU64 n)) as (ch & E1 & E2); [cbn; apply N.ltb_lt; now apply fits_lt64 in Hw|reflexivity|].
    rewrite <- (app_nil_r (Cbor.head 0 (min_width n) n)). change (Cbor.head 0 (min_width n) n) with (enc_pref (item_of (MU64 n))).
    rewrite <- E2. apply writes_cons; [exact E1|apply writes_nil].
  - apply width_eqb_eq in Hs. subst w.
    destruct (meth_call (MInt true n)) as (ch & E1 & E2); [cbn; apply N.ltb_lt; now apply fits_lt64 in Hw|reflexivity|].
    rewrite <- (app_nil_r (Cbor.head 1 (min_width n) n)). change (Cbor.head 1 (min_width n) n) with (enc_pref (item_of (MInt true n))).
    rewrite <- E2. apply writes_cons; [exact E1|apply writes_nil].
  - apply width_eqb_eq in Hs. subst w.
    destruct (meth_call (MBytes b)) as (ch & E1 & E2); [cbn; rewrite H0; apply N.ltb_lt; now apply fits_lt64 in H|reflexivity|].
    rewrite <- (app_nil_r (_ ++ b)). change (Cbor.head 2 (min_width (len b)) (len b) ++ b) with (enc_pref (item_of (MBytes b))).
    rewrite <- E2. apply writes_cons; [exact E1|apply writes_nil].
  - (* chunked bytes *)
    change (95 :: flat_map (ser_chunk 2) cs ++ [255]) with (flat enc_begin_bytes ++ (flat_map (ser_chunk 2) cs ++ flat enc_end ++ [])).
    apply writes_cons; [reflexivity|]. apply writes_app.
    + apply (chunks_write MBytes 2); auto. rewrite forallb_forall in Hw, Hs. apply Forall_forall. intros c Hc.
      specialize (Hw c Hc). specialize (Hs c Hc). unfold wf_chunk in Hw. apply andb_prop in Hw as [Hf Hb].
      split; [cbn; rewrite Hb; apply N.ltb_lt; now apply fits_lt64 in Hf|exact Hs].
    + apply writes_cons; [reflexivity|apply writes_nil].
  - apply width_eqb_eq in Hs. subst w.
    destruct (meth_call (MStr b)) as (ch & E1 & E2); [cbn; rewrite H0, Hu; apply N.ltb_lt; now apply fits_lt64 in H|reflexivity|].
    rewrite <- (app_nil_r (_ ++ b)). change (Cbor.head 3 (min_width (len b)) (len b) ++ b) with (enc_pref (item_of (MStr b))).
    rewrite <- E2. apply writes_cons; [exact E1|apply writes_nil].
  - change (127 :: flat_map (ser_chunk 3) cs ++ [255]) with (flat enc_begin_str ++ (flat_map (ser_chunk 3) cs ++ flat enc_end ++ [])).
    apply writes_cons; [reflexivity|]. apply writes_app.
    + apply (chunks_write MStr 3); auto. rewrite forallb_forall in Hw, Hs, Hu. apply Forall_forall. intros c Hc.
      specialize (Hw c Hc). specialize (Hs c Hc). specialize (Hu c Hc). unfold wf_chunk in Hw. apply andb_prop in Hw as [Hf Hb].
      split; [cbn; rewrite Hb, Hu; apply N.ltb_lt; now apply fits_lt64 in Hf|exact Hs].
    + apply writes_cons; [reflexivity|apply writes_nil].
  - (* array *) match goal with H : width_eqb _ _ = true |- _ => apply width_eqb_eq in H; subst w end.
    destruct (head_call (HArray (len es))) as [E1 E2]; [cbn; apply N.ltb_lt; eapply fits_lt64; eassumption|].
    change (Cbor.head 4 (min_width (len es)) (len es)) with (hmeth_head (HArray (len es))). rewrite <- E2.
    apply writes_cons; [exact E1|]. apply writes_flat_map.
    rewrite forallb_forall in *. rewrite Forall_forall in *. intros x Hx. apply H; auto.
  - change (159 :: flat_map ser es ++ [255]) with (flat enc_begin_array ++ (flat_map ser es ++ flat enc_end ++ [])).
    apply writes_cons; [reflexivity|]. apply writes_app; [|apply writes_cons; [reflexivity|apply writes_nil]].
    apply writes_flat_map. rewrite forallb_forall in *. rewrite Forall_forall in *. intros x Hx. apply H; auto.
  - match goal with H : width_eqb _ _ = true |- _ => apply width_eqb_eq in H; subst w end.
    destruct (head_call (HMap (len es / 2))) as [E1 E2]; [cbn; apply N.ltb_lt; eapply fits_lt64; eassumption|].
    change (Cbor.head 5 (min_width (len es / 2)) (len es / 2)) with (hmeth_head (HMap (len es / 2))). rewrite <- E2.
    apply writes_cons; [exact E1|]. apply writes_flat_map.
    rewrite forallb_forall in *. rewrite Forall_forall in *. intros x Hx. apply H; auto.
  - change (191 :: flat_map ser es ++ [255]) with (flat enc_begin_map ++ (flat_map ser es ++ flat enc_end ++ [])).
    apply writes_cons; [reflexivity|]. apply writes_app; [|apply writes_cons; [reflexivity|apply writes_nil]].
    apply writes_flat_map. rewrite forallb_forall in *. rewrite Forall_forall in *. intros x Hx. apply H; auto.
  - (* tag *) match goal with H : width_eqb _ _ = true |- _ => apply width_eqb_eq in H; subst w end.
    destruct (head_call (HTag t)) as [E1 E2]; [cbn; apply N.ltb_lt; eapply fits_lt64; eassumption|].
    change (Cbor.head 6 (min_width t) t) with (hmeth_head (HTag t)). rewrite <- E2.
    apply writes_cons; [exact E1|]. apply IHe; assumption.
  - (* simple *)
    destruct (meth_call (MSimple n)) as (ch & E1 & E2).
    { cbn. apply orb_prop in Hw as [Hw|Hw]; [apply N.ltb_lt in Hw; apply N.ltb_lt; lia|].
      apply andb_prop in Hw as [_ Hw]. exact Hw. }
    { cbn. apply orb_prop in Hw as [Hw|Hw].
      - apply N.ltb_lt in Hw. destruct (N.leb_spec 24 n); [lia|reflexivity].
      - apply andb_prop in Hw as [Hw _]. apply N.leb_le in Hw. destruct (N.ltb_spec n 32); [lia|]. now rewrite andb_false_r. }
    match goal with |- writes _ ?rhs => replace rhs with (flat ch ++ []) by (rewrite app_nil_r, E2; reflexivity) end.
    apply writes_cons; [exact E1|apply writes_nil].
  - destruct (meth_call (MF16bits b)) as (ch & E1 & E2); [exact Hw|reflexivity|].
    rewrite <- (app_nil_r (249 :: _)). change (249 :: be 2 b) with (enc_pref (item_of (MF16bits b))).
    rewrite <- E2. apply writes_cons; [exact E1|apply writes_nil].
  - destruct (meth_call (MF32 b)) as (ch & E1 & E2); [exact Hw|reflexivity|].
    rewrite <- (app_nil_r (250 :: _)). change (250 :: be 4 b) with (enc_pref (item_of (MF32 b))).
    rewrite <- E2. apply writes_cons; [exact E1|apply writes_nil].
  - destruct (meth_call (MF64 b)) as (ch & E1 & E2); [exact Hw|reflexivity|].
    rewrite <- (app_nil_r (251 :: _)). change (251 :: be 8 b) with (enc_pref (item_of (MF64 b))).
    rewrite <- E2. apply writes_cons; [exact E1|apply writes_nil].
Qed.

(* a forest: any sequence of items *)
Theorem calls_write_forest es :
  Forall (fun e => wf e = true /\ short e = true /\ utf8_ok e = true) es ->
  writes (flat_map calls_of es) (flat_map ser es).
Proof.
  intro H. apply writes_flat_map. eapply Forall_impl; [|exact H]. intros e (A & B & C). now apply calls_write_tree.
Qed.
