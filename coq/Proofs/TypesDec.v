(* Proofs/TypesDec.v — the decoder side of the built-in impls: how each accessor reads back what the
   matching encoder method wrote; first byte / datatype() of an encoding; the two one-byte skips. *)
From MC Require Import Bytes BytesFacts Monad Cbor Utf8 Half Decoder Encoder Methods Types
  EncoderFacts DecoderFacts IntFacts TypesEnc.
From Coq Require Import Lia.
Local Open Scope N_scope.

Lemma st_eq {A} (v : A) a b r L : a = b -> (Ok v, mkdst a r L) = (Ok v, mkdst b r L).
Proof. now intros ->. Qed.

(* ---- heads read back ---- *)
Lemma dec_container_head mt w n r p L : fits w n = true -> p + len (Cbor.head mt w n) <= L ->
  dec_container (mt * 32) (mkdst p (Cbor.head mt w n ++ r) L)
  = (Ok (Some n), mkdst (p + len (Cbor.head mt w n)) r L).
Proof.
  intros Hf HL. rewrite len_ser_int in *. rewrite head_split. cbn [app].
  unfold dec_container. rewrite (bind_ok _ _ _ _ _ (read_cons _ _ _ _)).
  rewrite (major_ib _ _ _ Hf), N.eqb_refl. cbn [negb].
  rewrite (info_ib _ _ _ Hf). pose proof (ai_lt w n Hf) as Ha.
  destruct (N.eqb_spec (ai w n) 31); [lia|].
  rewrite (bind_ok _ _ _ _ _ (unsigned_args w n r (p + 1) L Hf ltac:(lia))).
  apply st_eq. lia.
Qed.

Lemma dec_array_phead n r p L : n < 18446744073709551616 -> p + len (phead 4 n) <= L ->
  dec_array (mkdst p (phead 4 n ++ r) L) = (Ok (Some n), mkdst (p + len (phead 4 n)) r L).
Proof. intros Hn HL. apply (dec_container_head 4); [now apply fits_min_width|exact HL]. Qed.

Lemma dec_map_phead n r p L : n < 18446744073709551616 -> p + len (phead 5 n) <= L ->
  dec_map (mkdst p (phead 5 n ++ r) L) = (Ok (Some n), mkdst (p + len (phead 5 n)) r L).
Proof. intros Hn HL. apply (dec_container_head 5); [now apply fits_min_width|exact HL]. Qed.

Lemma dec_tag_phead n r p L : n < 18446744073709551616 -> p + len (phead 6 n) <= L ->
  dec_tag (mkdst p (phead 6 n ++ r) L) = (Ok n, mkdst (p + len (phead 6 n)) r L).
Proof.
  intros Hn HL. pose proof (fits_min_width n Hn) as Hf. unfold phead in *.
  rewrite len_ser_int in *. rewrite head_split. cbn [app].
  unfold dec_tag. rewrite (bind_ok _ _ _ _ _ (read_cons _ _ _ _)).
  rewrite (major_ib _ _ _ Hf). change (6 * 32 =? 192) with true. cbn [negb].
  rewrite (info_ib _ _ _ Hf).
  rewrite (unsigned_args _ n r (p + 1) L Hf ltac:(lia)).
  apply st_eq. lia.
Qed.

Lemma dec_bytes_phead b r p L : len b < 18446744073709551616 -> p + len (phead 2 (len b) ++ b) <= L ->
  dec_bytes (mkdst p ((phead 2 (len b) ++ b) ++ r) L) = (Ok b, mkdst (p + len (phead 2 (len b) ++ b)) r L).
Proof.
  intros Hn HL. pose proof (fits_min_width _ Hn) as Hf. unfold phead in *.
  rewrite len_app, len_ser_int in *. rewrite head_split, <- app_assoc. cbn [app].
  unfold dec_bytes. rewrite (bind_ok _ _ _ _ _ (read_cons _ _ _ _)).
  rewrite (major_ib _ _ _ Hf). change (2 * 32 =? 64) with true. cbn [negb orb].
  rewrite (info_ib _ _ _ Hf). pose proof (ai_lt _ _ Hf) as Ha.
  destruct (N.eqb_spec (ai (min_width (len b)) (len b)) 31); [lia|].
  rewrite (bind_ok _ _ _ _ _ (unsigned_args _ (len b) (b ++ r) (p + 1) L Hf ltac:(lia))).
  rewrite read_slice_app by lia. apply st_eq. lia.
Qed.

Lemma dec_str_phead b r p L : len b < 18446744073709551616 -> utf8_valid b = true ->
  p + len (phead 3 (len b) ++ b) <= L ->
  dec_str (mkdst p ((phead 3 (len b) ++ b) ++ r) L) = (Ok b, mkdst (p + len (phead 3 (len b) ++ b)) r L).
Proof.
  intros Hn Hu HL. pose proof (fits_min_width _ Hn) as Hf. unfold phead in *.
  rewrite len_app, len_ser_int in *. rewrite head_split, <- app_assoc. cbn [app].
  unfold dec_str. rewrite (bind_ok _ _ _ _ _ (read_cons _ _ _ _)).
  rewrite (major_ib _ _ _ Hf). change (3 * 32 =? 96) with true. cbn [negb orb].
  rewrite (info_ib _ _ _ Hf). pose proof (ai_lt _ _ Hf) as Ha.
  destruct (N.eqb_spec (ai (min_width (len b)) (len b)) 31); [lia|].
  rewrite (bind_ok _ _ _ _ _ (unsigned_args _ (len b) (b ++ r) (p + 1) L Hf ltac:(lia))).
  rewrite (bind_ok _ _ _ _ _ (read_slice_app b r (p + 1 + len (args (min_width (len b)) (len b))) L ltac:(lia))).
  rewrite Hu. apply st_eq. lia.
Qed.

Lemma dec_uint_phead max n r p L : n <= max -> n < 18446744073709551616 -> p + len (phead 0 n) <= L ->
  dec_uint max (mkdst p (phead 0 n ++ r) L) = (Ok n, mkdst (p + len (phead 0 n)) r L).
Proof.
  intros Hm Hn HL. unfold phead in *. rewrite dec_uint_uint by (try apply fits_min_width; assumption).
  destruct (N.leb_spec n max); [reflexivity|lia].
Qed.

(* ---- CStr ---- *)
Lemma no_nul_app a b : no_nul (a ++ b) = no_nul a && no_nul b.
Proof. induction a as [|x a IH]; cbn [app no_nul]; [reflexivity|]. now rewrite IH, andb_assoc. Qed.

Lemma no_nul_rev b : no_nul (rev b) = no_nul b.
Proof.
  induction b as [|x b IH]; cbn [rev no_nul]; [reflexivity|].
  rewrite no_nul_app, IH. cbn [no_nul]. rewrite andb_true_r. apply andb_comm.
Qed.

Lemma cstr_of_nul b : no_nul b = true -> cstr_of (b ++ [0]) = Some b.
Proof.
  intro H. unfold cstr_of. rewrite rev_app_distr. cbn [rev app].
  change (0 =? 0) with true. rewrite no_nul_rev, H, rev_involutive. reflexivity.
Qed.

(* ---- the first byte of an encoding ---- *)
Definition nullable (t : ty) : bool := match t with TyOpt _ => true | _ => false end.

Inductive first_shape (bs : bytes) : Prop :=
| FSInt mt w n tl : mt <= 1 -> fits w n = true -> bs = Cbor.head mt w n ++ tl -> first_shape bs
| FSOther b tl : 64 <= b -> b <> 246 -> bs = b :: tl -> first_shape bs.

Lemma first_shape_app a b : first_shape a -> first_shape (a ++ b).
Proof.
  intros [mt w n tl Hm Hf ->|x tl Hx Hy ->].
  - rewrite <- app_assoc. now apply (FSInt _ mt w n (tl ++ b)).
  - now apply (FSOther _ x (tl ++ b)).
Qed.

Lemma first_shape_nonempty bs : first_shape bs -> 1 <= len bs.
Proof.
  intros [mt w n tl Hm Hf ->|x tl Hx Hy ->].
  - rewrite len_app, len_ser_int. lia.
  - rewrite len_cons. lia.
Qed.

Lemma type_len_first t x : exists a tl, flat (type_len t x) = (t + a) :: tl /\ a <= 27.
Proof.
  unfold type_len.
  destruct (N.leb_spec x 23).
  { exists (as_u8 x), []. split; [reflexivity|]. unfold as_u8. rewrite N.mod_small; lia. }
  destruct (N.leb_spec x 255); [exists 24; eexists; split; [reflexivity|lia]|].
  destruct (N.leb_spec x 65535); [exists 25; eexists; split; [reflexivity|lia]|].
  destruct (N.leb_spec x 4294967295); [exists 26; eexists; split; [reflexivity|lia]|].
  exists 27; eexists; split; [reflexivity|lia].
Qed.

Lemma type_len_shape t x : 64 <= t -> t <= 192 -> first_shape (flat (type_len t x)).
Proof.
  intros H1 H2. destruct (type_len_first t x) as (a & tl & -> & Ha).
  apply (FSOther _ (t + a) tl); [lia|lia|reflexivity].
Qed.

Lemma phead_int_shape mt n : mt <= 1 -> n < 18446744073709551616 -> first_shape (phead mt n).
Proof.
  intros Hm Hn. apply (FSInt _ mt (min_width n) n []); [exact Hm|now apply fits_min_width|].
  now rewrite app_nil_r.
Qed.

Lemma enc_uw_shape w n : n <= umax w -> first_shape (flat (enc_uw w n)).
Proof.
  intro H. rewrite enc_uw_head by assumption. apply phead_int_shape; [lia|]. pose proof (umax_lt w). lia.
Qed.

Lemma enc_iw_shape w z : zin w z = true -> first_shape (flat (enc_iw w z)).
Proof.
  intro H. rewrite enc_iw_head by assumption. apply zin_spec in H. pose proof (imax_lt w).
  destruct (Z.leb_spec 0 z); apply phead_int_shape; unfold neg_arg; lia.
Qed.

Lemma ocat_hd_shape h b cs : ocat (Some h) b = Some cs -> first_shape (flat h) -> first_shape (flat cs).
Proof.
  intros H Hs. apply ocat_some in H as (x & y & Hx & Hy & ->). inj_cs Hx.
  rewrite flat_app. now apply first_shape_app.
Qed.

Lemma enc_array_shape n : first_shape (flat (enc_array n)).
Proof. apply type_len_shape; unfold ARRAY; lia. Qed.
Lemma enc_map_shape n : first_shape (flat (enc_map n)).
Proof. apply type_len_shape; unfold MAP; lia. Qed.
Lemma enc_tag_shape n : first_shape (flat (enc_tag n)).
Proof. apply type_len_shape; unfold TAGGED; lia. Qed.
Lemma enc_bytes_shape b : first_shape (flat (enc_bytes b)).
Proof. unfold enc_bytes. rewrite flat_app. apply first_shape_app, type_len_shape; unfold BYTES; lia. Qed.
Lemma enc_str_shape b : first_shape (flat (enc_str b)).
Proof. unfold enc_str. rewrite flat_app. apply first_shape_app, type_len_shape; unfold TEXT; lia. Qed.

Lemma enc_array2_shape x : first_shape (flat (enc_array 2 ++ x)).
Proof. rewrite flat_app. apply first_shape_app, enc_array_shape. Qed.

Lemma enc_first t v cs : nullable t = false -> encode_ty t v = Some cs -> first_shape (flat cs).
Proof.
  intros Hn H. destruct t; try discriminate Hn; clear Hn.
  - destruct v; cbn [encode_ty] in H; try discriminate.
    destruct (N.leb_spec n (umax w)); [|discriminate]. inj_cs H. now apply enc_uw_shape.
  - destruct v; cbn [encode_ty] in H; try discriminate.
    destruct (zin w z) eqn:Hz; [|discriminate]. inj_cs H. now apply enc_iw_shape.
  - destruct v; cbn [encode_ty] in H; try discriminate.
    destruct (Z.leb_spec (-18446744073709551616) z); cbn [andb] in H; [|discriminate].
    destruct (Z.leb_spec z 18446744073709551615); [|discriminate]. inj_cs H.
    unfold enc_int. destruct (Z.ltb_spec z 0); cbn [negb].
    + rewrite enc_neg64_head by lia. apply phead_int_shape; lia.
    + rewrite enc_u64_head by lia. apply phead_int_shape; lia.
  - destruct v; cbn [encode_ty] in H; try discriminate. inj_cs H.
    destruct b; [apply (FSOther _ 245 [])|apply (FSOther _ 244 [])]; (lia || reflexivity).
  - destruct v; cbn [encode_ty] in H; try discriminate.
    destruct (is_scalar n) eqn:Hs; [|discriminate]. inj_cs H. apply is_scalar_lt in Hs.
    unfold enc_char. rewrite enc_u32_head by assumption. apply phead_int_shape; lia.
  - destruct v; cbn [encode_ty] in H; try discriminate.
    destruct (bits <? 4294967296); [|discriminate]. inj_cs H.
    apply (FSOther _ 250 (be 4 bits)); (lia || reflexivity).
  - destruct v; cbn [encode_ty] in H; try discriminate.
    destruct (bits <? 18446744073709551616); [|discriminate]. inj_cs H.
    apply (FSOther _ 251 (be 8 bits)); (lia || reflexivity).
  - destruct v; cbn [encode_ty] in H; try discriminate.
    destruct (N.leb_spec n (umax w)); cbn [andb] in H; [|discriminate].
    destruct (negb (n =? 0)); [|discriminate]. inj_cs H. now apply enc_uw_shape.
  - destruct v; cbn [encode_ty] in H; try discriminate.
    destruct (zin w z) eqn:Hz; cbn [andb] in H; [|discriminate].
    destruct (negb (z =? 0)%Z); [|discriminate]. inj_cs H. now apply enc_iw_shape.
  - destruct v; cbn [encode_ty] in H; try discriminate.
    destruct (bytes_ok b && utf8_valid b); [|discriminate]. inj_cs H. apply enc_str_shape.
  - destruct v; cbn [encode_ty] in H; try discriminate.
    destruct (bytes_ok b); [|discriminate]. inj_cs H. apply enc_bytes_shape.
  - destruct v; cbn [encode_ty] in H; try discriminate.
    destruct (bytes_ok b && (len b =? n)); [|discriminate]. inj_cs H. apply enc_bytes_shape.
  - destruct v; cbn [encode_ty] in H; try discriminate.
    destruct (bytes_ok b && no_nul b); [|discriminate]. inj_cs H. apply enc_bytes_shape.
  - destruct v; cbn [encode_ty] in H; try discriminate. inj_cs H. apply enc_array_shape.
  - destruct v; cbn [encode_ty] in H; try discriminate. eapply ocat_hd_shape; [exact H|apply enc_array_shape].
  - destruct v; cbn [encode_ty] in H; try discriminate.
    destruct (len l =? n); [|discriminate]. eapply ocat_hd_shape; [exact H|apply enc_array_shape].
  - destruct v; cbn [encode_ty] in H; try discriminate.
    destruct (N.even (len l)); [|discriminate]. eapply ocat_hd_shape; [exact H|apply enc_map_shape].
  - destruct v; cbn [encode_ty] in H; try discriminate. eapply ocat_hd_shape; [exact H|apply enc_array_shape].
  - destruct v; cbn [encode_ty] in H; try discriminate. eapply ocat_hd_shape; [exact H|apply enc_array_shape].
  - destruct v; cbn [encode_ty] in H; try discriminate.
    destruct (nth_error (map encode_ty vs) (N.to_nat idx)); [|discriminate].
    destruct (idx <? 4294967296); [|discriminate]. eapply ocat_hd_shape; [exact H|apply enc_array2_shape].
  - destruct v; cbn [encode_ty] in H; try discriminate.
    destruct (idx <? 2).
    + eapply ocat_hd_shape; [exact H|apply enc_array2_shape].
    + destruct (idx =? 2); [|discriminate]. destruct v; try discriminate. inj_cs H. apply enc_array2_shape.
  - destruct v; cbn [encode_ty] in H; try discriminate.
    destruct (n <? 18446744073709551616); [|discriminate]. inj_cs H. apply enc_tag_shape.
  - cbn [encode_ty] in H. destruct (n <? 18446744073709551616); [|discriminate].
    eapply ocat_hd_shape; [exact H|apply enc_tag_shape].
  - destruct v; cbn [encode_ty] in H; try discriminate.
    destruct l as [|[s| | | | | | | | |] [|[ns| | | | | | | | |] [|? ?]]]; try discriminate.
    destruct ((s <=? umax B64) && (ns <=? nanos_max)); [|discriminate]. inj_cs H. apply enc_array2_shape.
  - destruct v; cbn [encode_ty] in H; try discriminate. destruct v; try discriminate.
    destruct l as [|[s| | | | | | | | |] [|[ns| | | | | | | | |] [|? ?]]]; try discriminate.
    destruct ((idx =? 0) && (s <=? imax B64) && (ns <=? nanos_max)); [|discriminate].
    inj_cs H. apply enc_array2_shape.
Qed.

Lemma enc_nonempty t v cs : encode_ty t v = Some cs -> 1 <= len (flat cs).
Proof.
  revert v cs. induction t; intros v cs H;
    try (apply first_shape_nonempty; eapply enc_first; [|exact H]; reflexivity).
  destruct v; cbn [encode_ty] in H; try discriminate.
  - inj_cs H. change (len (flat enc_null)) with 1. lia.
  - eapply IHt; exact H.
Qed.

(* ---- datatype() on the first byte of an encoding is never Null unless the type is an Option ---- *)
Ltac tof_step :=
  match goal with
  | |- context [if ?c then _ else _] =>
    match c with
    | context [N.leb ?a ?b] => destruct (N.leb_spec a b)
    | context [N.eqb ?a ?b] => destruct (N.eqb_spec a b)
    end; cbn [andb orb]; cbv iota
  end.

Lemma type_of_ge64 b : 64 <= b -> b <> 246 -> exists ct, type_of b = ret ct /\ ctype_is_null ct = false.
Proof.
  intros H1 H2. unfold type_of.
  repeat (tof_step; try lia; try (eexists; split; [reflexivity|reflexivity])).
Qed.

Lemma datatype_ge64 b tl p L : 64 <= b -> b <> 246 ->
  exists ct, datatype (mkdst p (b :: tl) L) = (Ok ct, mkdst p (b :: tl) L) /\ ctype_is_null ct = false.
Proof.
  intros H1 H2. destruct (type_of_ge64 b H1 H2) as (ct & E & Hn). exists ct. split; [|exact Hn].
  unfold datatype. rewrite (bind_ok _ _ _ _ _ (current_cons _ _ _ _)), E. reflexivity.
Qed.

Lemma datatype_shape bs r p L : first_shape bs ->
  exists ct, datatype (mkdst p (bs ++ r) L) = (Ok ct, mkdst p (bs ++ r) L) /\ ctype_is_null ct = false.
Proof.
  intros [mt w n tl Hm Hf ->|x tl Hx Hy ->].
  - rewrite <- app_assoc. assert (Hmt: mt = 0 \/ mt = 1) by lia. destruct Hmt as [-> | ->].
    + exists (uint_type w). split; [now apply datatype_uint|]. destruct w; reflexivity.
    + exists (nint_type w n). split; [now apply datatype_nint|].
      destruct w; cbn [nint_type]; try reflexivity;
        match goal with |- context [if ?c then _ else _] => destruct c end; reflexivity.
  - cbn [app]. now apply datatype_ge64.
Qed.

(* ---- the two one-byte skips the built-in decoders perform ---- *)
Lemma skip_null c r p L : skip_auto c (mkdst p (246 :: r) L) = (Ok tt, mkdst (p + 1) r L).
Proof. unfold skip_auto, skip, fuel_of. cbn [drest length]. destruct (c_alloc c); reflexivity. Qed.

Lemma skip_empty_array c r p L : skip_auto c (mkdst p (128 :: r) L) = (Ok tt, mkdst (p + 1) r L).
Proof. unfold skip_auto, skip, fuel_of. cbn [drest length]. destruct (c_alloc c); reflexivity. Qed.

Lemma datatype_null r p L : datatype (mkdst p (246 :: r) L) = (Ok TNull, mkdst p (246 :: r) L).
Proof. reflexivity. Qed.
