(* Proofs/TypesFacts.v — C01 for the built-in impls: decode_ty reads back exactly what encode_ty wrote,
   for every descriptor and every value, at any position, followed by any suffix. *)
From MC Require Import Bytes BytesFacts Monad Cbor Utf8 Half Decoder Encoder Methods Types
  EncoderFacts DecoderFacts IntFacts TypesEnc TypesLen TypesDec.
From Coq Require Import Lia.
Local Open Scope N_scope.

(* No Option directly around a payload that can itself encode as null (Option<Option<T>>; transparent
   wrappers are erased in the universe, so Option<Box<Option<T>>> is the same descriptor). *)
Fixpoint rt_ok (t : ty) : bool :=
  match t with
  | TyOpt t' => negb (nullable t') && rt_ok t'
  | TySeq t' | TyArr _ t' | TyBound t' | TyTagged _ t' => rt_ok t'
  | TyMap k v => rt_ok k && rt_ok v
  | TyTuple ts | TyFields ts | TyEnum ts => forallb rt_ok ts
  | _ => true
  end.

Ltac lens :=
  unfold two64 in *;
  repeat rewrite ?flat_app, ?app_length, ?len_app, ?len_cons in *; cbn [length] in *; unfold len in *; lia.

(* ---- more accessor lemmas on preferred heads ---- *)
Lemma dec_sint_phead0 max n r p L : n <= max -> n < 18446744073709551616 -> p + len (phead 0 n) <= L ->
  dec_sint max (mkdst p (phead 0 n ++ r) L) = (Ok (Z.of_N n), mkdst (p + len (phead 0 n)) r L).
Proof.
  intros Hm Hn HL. unfold phead in *. rewrite dec_sint_uint by (try apply fits_min_width; assumption).
  destruct (N.leb_spec n max); [reflexivity|lia].
Qed.
Lemma dec_sint_phead1 max n r p L : n <= max -> n < 18446744073709551616 -> p + len (phead 1 n) <= L ->
  dec_sint max (mkdst p (phead 1 n ++ r) L) = (Ok (-1 - Z.of_N n)%Z, mkdst (p + len (phead 1 n)) r L).
Proof.
  intros Hm Hn HL. unfold phead in *. rewrite dec_sint_nint by (try apply fits_min_width; assumption).
  destruct (N.leb_spec n max); [reflexivity|lia].
Qed.
Lemma dec_int_phead0 n r p L : n < 18446744073709551616 -> p + len (phead 0 n) <= L ->
  dec_int (mkdst p (phead 0 n ++ r) L) = (Ok (false, n), mkdst (p + len (phead 0 n)) r L).
Proof. intros Hn HL. unfold phead in *. apply dec_int_uint; [now apply fits_min_width|assumption]. Qed.
Lemma dec_int_phead1 n r p L : n < 18446744073709551616 -> p + len (phead 1 n) <= L ->
  dec_int (mkdst p (phead 1 n ++ r) L) = (Ok (true, n), mkdst (p + len (phead 1 n)) r L).
Proof. intros Hn HL. unfold phead in *. apply dec_int_nint; [now apply fits_min_width|assumption]. Qed.

Lemma flat_enc_f32 b : flat (enc_f32 b) = 250 :: be 4 b.
Proof. unfold enc_f32, flat. cbn [concat app]. now rewrite app_nil_r. Qed.
Lemma flat_enc_f64 b : flat (enc_f64 b) = 251 :: be 8 b.
Proof. unfold enc_f64, flat. cbn [concat app]. now rewrite app_nil_r. Qed.

Lemma dec_array_2 r p L : dec_array (mkdst p (130 :: r) L) = (Ok (Some 2), mkdst (p + 1) r L).
Proof. reflexivity. Qed.
Lemma dec_u32_2 r p L : dec_u32 (mkdst p (2 :: r) L) = (Ok 2, mkdst (p + 1) r L).
Proof. reflexivity. Qed.
Lemma flat_enc_array_2 : flat (enc_array 2) = [130].
Proof. reflexivity. Qed.

(* ---- loops ---- *)
Lemma dec_n_0 d fl acc : dec_n d 0 fl acc = ret (rev acc).
Proof. destruct fl; reflexivity. Qed.
Lemma dec_n_S d n fl acc : n <> 0 -> dec_n d n (S fl) acc = (x <- d ;; dec_n d (N.pred n) fl (x :: acc)).
Proof. intro H. cbn [dec_n]. destruct (N.eqb_spec n 0); [contradiction|reflexivity]. Qed.
Lemma arr_n_0 d cap fl acc : arr_n d cap 0 fl acc = ret (rev acc).
Proof. destruct fl; reflexivity. Qed.
Lemma arr_n_S d cap n fl acc : n <> 0 ->
  arr_n d cap n (S fl) acc = (x <- d ;; if len acc <? cap then arr_n d cap (N.pred n) fl (x :: acc) else fail Message).
Proof. intro H. cbn [arr_n]. destruct (N.eqb_spec n 0); [contradiction|reflexivity]. Qed.
Lemma fields_n_0 c ds i fl slots : fields_n c ds i 0 fl slots = ret slots.
Proof. destruct fl; reflexivity. Qed.
Lemma fields_n_S c ds i n fl slots : n <> 0 ->
  fields_n c ds i n (S fl) slots = (slots' <- field_step c ds i slots ;; fields_n c ds (i + 1) (N.pred n) fl slots').
Proof. intro H. cbn [fields_n]. destruct (N.eqb_spec n 0); [contradiction|reflexivity]. Qed.

Fixpoint pairs (l : list value) : list value :=
  match l with k :: v :: r => VList [k; v] :: pairs r | _ => [] end.

Lemma flatten_pairs_pairs n : forall l, length l = (2 * n)%nat -> flatten_pairs (pairs l) = l.
Proof.
  induction n as [|n IH]; intros l Hl.
  - destruct l; [reflexivity|cbn [length] in Hl; lia].
  - destruct l as [|k [|v r]]; cbn [length] in Hl; try lia.
    cbn [pairs]. unfold flatten_pairs in *. cbn [flat_map app]. rewrite IH by lia. reflexivity.
Qed.

Lemma first_missing_some l i : first_missing (map Some l) i = None.
Proof. revert i. induction l as [|v l IH]; intro i; cbn [map first_missing]; [reflexivity|apply IH]. Qed.
Lemma unslot_some l : unslot (map Some l) = l.
Proof. induction l as [|v l IH]; cbn [map unslot]; [reflexivity|now rewrite IH]. Qed.

Lemma set_slot_mid (a : list (option value)) x b v :
  set_slot (a ++ x :: b) (len a) v = a ++ Some v :: b.
Proof.
  unfold set_slot, len. rewrite Nat2N.id.
  rewrite firstn_app, Nat.sub_diag, firstn_all. cbn [firstn]. rewrite app_nil_r. f_equal. f_equal.
  replace (S (length a)) with (length (a ++ [x])) by (rewrite app_length; cbn [length]; lia).
  replace (a ++ x :: b) with ((a ++ [x]) ++ b) by (rewrite <- app_assoc; reflexivity).
  rewrite skipn_app, Nat.sub_diag, skipn_all. reflexivity.
Qed.

Lemma nth_error_mid {A} (a : list A) x b : nth_error (a ++ x :: b) (length a) = Some x.
Proof. rewrite nth_error_app2 by lia. now rewrite Nat.sub_diag. Qed.

Lemma dec_pair_ok dk dv s k s1 v s2 : dk s = (Ok k, s1) -> dv s1 = (Ok v, s2) ->
  dec_pair dk dv s = (Ok (VList [k; v]), s2).
Proof. intros H1 H2. unfold dec_pair. rewrite (bind_ok _ _ _ _ _ H1), (bind_ok _ _ _ _ _ H2). reflexivity. Qed.

Section RT.
  Variable c : cfg.
  Variable fuel : nat.

  Definition good (d : M value) (f : value -> option (list chunk)) : Prop :=
    forall v cs rest p L, f v = Some cs -> p + len (flat cs) <= L -> len (flat cs) < two64 ->
      (length (flat cs ++ rest) < fuel)%nat ->
      d (mkdst p (flat cs ++ rest) L) = (Ok v, mkdst (p + len (flat cs)) rest L).

  Definition nonempty (f : value -> option (list chunk)) : Prop :=
    forall v cs, f v = Some cs -> 1 <= len (flat cs).

  Notation D := (fun t' : ty => decode_ty c t' fuel).

  Lemma enc_all_length f l cs : nonempty f -> enc_all f l = Some cs -> len l <= len (flat cs).
  Proof.
    intro Hne. revert cs. induction l as [|v l IH]; intros cs H; cbn [enc_all] in H.
    - inj_cs H. reflexivity.
    - apply ocat_some in H as (x & y & Hx & Hy & ->). apply Hne in Hx. apply IH in Hy. lens.
  Qed.

  Lemma enc_zip_length ts l cs : enc_zip (map encode_ty ts) l = Some cs ->
    len ts <= len (flat cs) /\ length l = length ts.
  Proof.
    revert l cs. induction ts as [|t ts IH]; intros l cs H; cbn [map enc_zip] in H.
    - destruct l; [|discriminate]. inj_cs H. split; reflexivity.
    - destruct l as [|v l]; [discriminate|].
      apply ocat_some in H as (x & y & Hx & Hy & ->). apply enc_nonempty in Hx. apply IH in Hy as [Hy1 Hy2].
      split; [lens|cbn [length]; lia].
  Qed.

  Lemma dec_n_all d f : good d f -> nonempty f -> forall l fl acc cs rest p L,
    enc_all f l = Some cs -> p + len (flat cs) <= L -> len (flat cs) < two64 ->
    (length (flat cs ++ rest) < fuel)%nat -> (length l <= fl)%nat ->
    dec_n d (len l) fl acc (mkdst p (flat cs ++ rest) L) = (Ok (rev acc ++ l), mkdst (p + len (flat cs)) rest L).
  Proof.
    intros Hg Hne. induction l as [|v l IH]; intros fl acc cs rest p L He HL HL64 Hfu Hfl; cbn [enc_all] in He.
    - inj_cs He. change (len []) with 0. rewrite dec_n_0. unfold ret. rewrite app_nil_r.
      apply st_eq. change (len (flat [])) with 0. lia.
    - apply ocat_some in He as (x & y & Hx & Hy & ->).
      destruct fl as [|fl]; [cbn [length] in Hfl; lia|].
      rewrite dec_n_S by (rewrite len_cons; lia).
      rewrite flat_app, <- app_assoc.
      rewrite (bind_ok _ _ _ _ _ (Hg v x (flat y ++ rest) p L Hx ltac:(lens) ltac:(lens) ltac:(lens))).
      replace (N.pred (len (v :: l))) with (len l) by (rewrite len_cons; lia).
      rewrite (IH fl (v :: acc) y rest (p + len (flat x)) L Hy ltac:(lens) ltac:(lens) ltac:(lens) ltac:(cbn [length] in Hfl; lia)).
      cbn [rev]. rewrite <- app_assoc. cbn [app]. apply st_eq. rewrite len_app. lia.
  Qed.

  Lemma arr_n_all d f cap : good d f -> nonempty f -> forall l fl acc cs rest p L,
    enc_all f l = Some cs -> p + len (flat cs) <= L -> len (flat cs) < two64 ->
    (length (flat cs ++ rest) < fuel)%nat -> (length l <= fl)%nat -> len acc + len l = cap ->
    arr_n d cap (len l) fl acc (mkdst p (flat cs ++ rest) L) = (Ok (rev acc ++ l), mkdst (p + len (flat cs)) rest L).
  Proof.
    intros Hg Hne. induction l as [|v l IH]; intros fl acc cs rest p L He HL HL64 Hfu Hfl Hcap; cbn [enc_all] in He.
    - inj_cs He. change (len []) with 0. rewrite arr_n_0. unfold ret. rewrite app_nil_r.
      apply st_eq. change (len (flat [])) with 0. lia.
    - apply ocat_some in He as (x & y & Hx & Hy & ->).
      destruct fl as [|fl]; [cbn [length] in Hfl; lia|].
      rewrite arr_n_S by (rewrite len_cons; lia).
      rewrite flat_app, <- app_assoc.
      rewrite (bind_ok _ _ _ _ _ (Hg v x (flat y ++ rest) p L Hx ltac:(lens) ltac:(lens) ltac:(lens))).
      rewrite len_cons in Hcap. destruct (N.ltb_spec (len acc) cap); [|lia].
      replace (N.pred (len (v :: l))) with (len l) by (rewrite len_cons; lia).
      rewrite (IH fl (v :: acc) y rest (p + len (flat x)) L Hy ltac:(lens) ltac:(lens) ltac:(lens)
                  ltac:(cbn [length] in Hfl; lia) ltac:(rewrite len_cons; lia)).
      cbn [rev]. rewrite <- app_assoc. cbn [app]. apply st_eq. rewrite len_app. lia.
  Qed.

  Lemma dec_n_alt dk dv fk fv : good dk fk -> good dv fv -> nonempty fk -> forall n l fl acc cs rest p L,
    length l = (2 * n)%nat -> enc_alt fk fv l = Some cs -> p + len (flat cs) <= L -> len (flat cs) < two64 ->
    (length (flat cs ++ rest) < fuel)%nat -> (n <= fl)%nat ->
    dec_n (dec_pair dk dv) (N.of_nat n) fl acc (mkdst p (flat cs ++ rest) L)
    = (Ok (rev acc ++ pairs l), mkdst (p + len (flat cs)) rest L).
  Proof.
    intros Hgk Hgv Hne. induction n as [|n IH]; intros l fl acc cs rest p L Hl He HL HL64 Hfu Hfl.
    - destruct l; [|cbn [length] in Hl; lia]. cbn [enc_alt] in He. inj_cs He.
      change (N.of_nat 0) with 0. rewrite dec_n_0. unfold ret. cbn [pairs]. rewrite app_nil_r.
      apply st_eq. change (len (flat [])) with 0. lia.
    - destruct l as [|k [|v l]]; cbn [length] in Hl; try lia. cbn [enc_alt] in He.
      apply ocat_some in He as (x & y & Hx & Hy & ->).
      apply ocat_some in Hy as (y1 & y2 & Hy1 & Hy2 & ->).
      destruct fl as [|fl]; [lia|].
      rewrite dec_n_S by lia.
      rewrite !flat_app, <- !app_assoc.
      rewrite (bind_ok _ _ _ _ _ (dec_pair_ok _ _ _ _ _ _ _
                (Hgk k x (flat y1 ++ flat y2 ++ rest) p L Hx ltac:(lens) ltac:(lens) ltac:(lens))
                (Hgv v y1 (flat y2 ++ rest) (p + len (flat x)) L Hy1 ltac:(lens) ltac:(lens) ltac:(lens)))).
      replace (N.pred (N.of_nat (S n))) with (N.of_nat n) by lia.
      rewrite (IH l fl (VList [k; v] :: acc) y2 rest (p + len (flat x) + len (flat y1)) L
                  ltac:(lia) Hy2 ltac:(lens) ltac:(lens) ltac:(lens) ltac:(lia)).
      cbn [rev pairs]. rewrite <- app_assoc. cbn [app]. apply st_eq. rewrite !len_app. lia.
  Qed.

  Lemma enc_alt_length fk fv l cs : nonempty fk -> enc_alt fk fv l = Some cs -> len l <= 2 * len (flat cs).
  Proof.
    intro Hne.
    assert (G: forall n l cs, (length l <= n)%nat -> enc_alt fk fv l = Some cs -> len l <= 2 * len (flat cs)).
    { induction n as [|n IH]; intros l' cs' Hn H.
      - destruct l'; [|cbn [length] in Hn; lia]. change (len []) with 0. lia.
      - destruct l' as [|k [|v r]]; cbn [enc_alt] in H.
        + change (len []) with 0. lia.
        + discriminate.
        + apply ocat_some in H as (x & y & Hx & Hy & ->).
          apply ocat_some in Hy as (y1 & y2 & Hy1 & Hy2 & ->).
          apply Hne in Hx. apply IH in Hy2; [|cbn [length] in Hn; lia]. lens. }
    apply (G (length l)). lia.
  Qed.

  Lemma dec_each_zip ts : Forall (fun t => good (D t) (encode_ty t)) ts -> forall l cs rest p L,
    enc_zip (map encode_ty ts) l = Some cs -> p + len (flat cs) <= L -> len (flat cs) < two64 ->
    (length (flat cs ++ rest) < fuel)%nat ->
    dec_each (map D ts) (mkdst p (flat cs ++ rest) L) = (Ok l, mkdst (p + len (flat cs)) rest L).
  Proof.
    induction 1 as [|t ts Ht Hts IH]; intros l cs rest p L He HL HL64 Hfu; cbn [map enc_zip] in He.
    - destruct l; [|discriminate]. inj_cs He. cbn [map dec_each]. unfold ret.
      apply st_eq. change (len (flat [])) with 0. lia.
    - destruct l as [|v l]; [discriminate|].
      apply ocat_some in He as (x & y & Hx & Hy & ->).
      cbn [map dec_each]. rewrite flat_app, <- app_assoc.
      rewrite (bind_ok _ _ _ _ _ (Ht v x (flat y ++ rest) p L Hx ltac:(lens) ltac:(lens) ltac:(lens))).
      rewrite (bind_ok _ _ _ _ _ (IH l y rest (p + len (flat x)) L Hy ltac:(lens) ltac:(lens) ltac:(lens))).
      unfold ret. apply st_eq. rewrite len_app. lia.
  Qed.

  Lemma fields_n_zip : forall post pre vpre l fl cs rest p L,
    length vpre = length pre -> Forall (fun t => good (D t) (encode_ty t)) post ->
    enc_zip (map encode_ty post) l = Some cs -> p + len (flat cs) <= L -> len (flat cs) < two64 ->
    (length (flat cs ++ rest) < fuel)%nat -> (length post <= fl)%nat ->
    fields_n c (map D (pre ++ post)) (len pre) (len post) fl
      (map Some vpre ++ map (fun _ => None) post) (mkdst p (flat cs ++ rest) L)
    = (Ok (map Some (vpre ++ l)), mkdst (p + len (flat cs)) rest L).
  Proof.
    induction post as [|t post IH]; intros pre vpre l fl cs rest p L Hlen Hall He HL HL64 Hfu Hfl;
      cbn [map enc_zip] in He.
    - destruct l; [|discriminate]. inj_cs He. change (len []) with 0. rewrite fields_n_0. unfold ret.
      cbn [map]. rewrite !app_nil_r. apply st_eq. change (len (flat [])) with 0. lia.
    - destruct l as [|v l]; [discriminate|].
      apply ocat_some in He as (x & y & Hx & Hy & ->).
      inversion Hall as [|t0 post0 Ht Hpost]; subst t0 post0.
      destruct fl as [|fl]; [cbn [length] in Hfl; lia|].
      rewrite fields_n_S by (rewrite len_cons; lia).
      rewrite flat_app, <- app_assoc.
      assert (Hstep: field_step c (map D (pre ++ t :: post)) (len pre)
                (map Some vpre ++ map (fun _ => None) (t :: post)) (mkdst p (flat x ++ flat y ++ rest) L)
              = (Ok (map Some (vpre ++ [v]) ++ map (fun _ => None) post),
                 mkdst (p + len (flat x)) (flat y ++ rest) L)).
      { unfold field_step.
        destruct (N.ltb_spec (len pre) (len (map D (pre ++ t :: post)))) as [_|Hge].
        2:{ unfold len in Hge. rewrite map_length, app_length in Hge. cbn [length] in Hge. lia. }
        unfold len at 1. rewrite Nat2N.id, map_app. cbn [map].
        replace (length pre) with (length (map D pre)) by apply map_length.
        rewrite nth_error_mid.
        rewrite (bind_ok _ _ _ _ _ (Ht v x (flat y ++ rest) p L Hx ltac:(lens) ltac:(lens) ltac:(lens))).
        unfold ret. f_equal. f_equal.
        replace (len pre) with (len (map Some vpre)) by (unfold len; rewrite map_length; lia).
        cbn [map]. rewrite set_slot_mid, map_app. cbn [map]. rewrite <- app_assoc. reflexivity. }
      rewrite (bind_ok _ _ _ _ _ Hstep).
      replace (N.pred (len (t :: post))) with (len post) by (rewrite len_cons; lia).
      replace (len pre + 1) with (len (pre ++ [t])) by (rewrite len_app; reflexivity).
      replace (pre ++ t :: post) with ((pre ++ [t]) ++ post) by (rewrite <- app_assoc; reflexivity).
      rewrite (IH (pre ++ [t]) (vpre ++ [v]) l fl y rest (p + len (flat x)) L
                  ltac:(rewrite !app_length; cbn [length]; lia) Hpost Hy ltac:(lens) ltac:(lens) ltac:(lens)
                  ltac:(cbn [length] in Hfl; lia)).
      rewrite <- app_assoc. cbn [app]. apply st_eq. rewrite len_app. lia.
  Qed.

  Lemma dec_fields_zip ts : len ts < two64 -> Forall (fun t => good (D t) (encode_ty t)) ts ->
    forall l y rest p L,
    enc_zip (map encode_ty ts) l = Some y ->
    p + len (flat (enc_array (len ts) ++ y)) <= L -> len (flat (enc_array (len ts) ++ y)) < two64 ->
    (length (flat (enc_array (len ts) ++ y) ++ rest) < fuel)%nat ->
    dec_fields c (map D ts) fuel (mkdst p (flat (enc_array (len ts) ++ y) ++ rest) L)
    = (Ok l, mkdst (p + len (flat (enc_array (len ts) ++ y))) rest L).
  Proof.
    intros Hts Hall l y rest p L Hy HL HL64 Hfu.
    unfold two64 in *. rewrite flat_app, enc_array_head in * by assumption.
    rewrite <- app_assoc. unfold dec_fields.
    rewrite (bind_ok _ _ _ _ _ (dec_array_phead (len ts) (flat y ++ rest) p L Hts ltac:(lens))).
    destruct (enc_zip_length _ _ _ Hy) as [Hl1 Hl2].
    rewrite map_map.
    rewrite (bind_ok _ _ _ _ _ (fields_n_zip ts [] [] l fuel y rest (p + len (phead 4 (len ts))) L
               eq_refl Hall Hy ltac:(lens) ltac:(lens) ltac:(lens) ltac:(lens))).
    cbn [app]. rewrite first_missing_some, unslot_some. unfold ret. apply st_eq. rewrite len_app. lia.
  Qed.
End RT.

(* ---- the round trip ---- *)
Section Roundtrip.
  Variable c : cfg.
  Variable fuel : nat.
  Notation D := (fun t' : ty => decode_ty c t' fuel).
  Notation good := (good fuel).

  Definition rt (t : ty) : Prop := ty_ok t = true -> rt_ok t = true -> good (D t) (encode_ty t).

  Lemma rt_forall ts : Forall rt ts -> forallb ty_ok ts = true -> forallb rt_ok ts = true ->
    Forall (fun t => good (D t) (encode_ty t)) ts.
  Proof.
    intros H H1 H2. rewrite Forall_forall in *. rewrite forallb_forall in H1, H2.
    intros t Ht. apply H; auto.
  Qed.

  Lemma good_TyU w : good (D (TyU w)) (encode_ty (TyU w)).
  Proof.
    intros v cs rest p L He HL HL64 Hfu.
    destruct v; cbn [encode_ty] in He; try discriminate.
    destruct (N.leb_spec n (umax w)) as [Hn|]; [|discriminate]. inj_cs He.
    rewrite enc_uw_head in * by assumption. cbn [decode_ty].
    apply fmap_ok. apply dec_uint_phead; [assumption|pose proof (umax_lt w); lia|assumption].
  Qed.

  Lemma nonempty_enc t : nonempty (encode_ty t).
  Proof. intros v cs. apply enc_nonempty. Qed.

  Lemma mk_duration_ok s ns st : s <= umax B64 -> ns <= nanos_max ->
    mk_duration [VNat s; VNat ns] st = (Ok (VList [VNat s; VNat ns]), st).
  Proof.
    unfold nanos_max. intros Hs Hns. cbn [mk_duration].
    rewrite N.div_small, N.mod_small by lia. rewrite N.add_0_r.
    destruct (N.leb_spec s (umax B64)); [reflexivity|lia].
  Qed.

  Lemma dec_duration_fields s ns rest p L :
    s <= umax B64 -> ns <= nanos_max ->
    p + len (flat (enc_array 2 ++ enc_u64 s ++ enc_u32 ns)) <= L ->
    len (flat (enc_array 2 ++ enc_u64 s ++ enc_u32 ns)) < two64 ->
    (length (flat (enc_array 2 ++ enc_u64 s ++ enc_u32 ns) ++ rest) < fuel)%nat ->
    dec_fields c [fmap VNat dec_u64; fmap VNat dec_u32] fuel
      (mkdst p (flat (enc_array 2 ++ enc_u64 s ++ enc_u32 ns) ++ rest) L)
    = (Ok [VNat s; VNat ns], mkdst (p + len (flat (enc_array 2 ++ enc_u64 s ++ enc_u32 ns))) rest L).
  Proof.
    unfold nanos_max. intros Hs Hns HL HL64 Hfu.
    assert (Hy: enc_zip (map encode_ty [TyU B64; TyU B32]) [VNat s; VNat ns] = Some (enc_u64 s ++ enc_u32 ns ++ [])).
    { cbn [map enc_zip encode_ty]. cbn [umax] in *.
      destruct (N.leb_spec s 18446744073709551615); [|lia].
      destruct (N.leb_spec ns 4294967295); [|lia]. reflexivity. }
    assert (Hall: Forall (fun t => good (D t) (encode_ty t)) [TyU B64; TyU B32]).
    { repeat constructor; apply good_TyU. }
    replace (enc_array 2 ++ enc_u64 s ++ enc_u32 ns)
      with (enc_array (len [TyU B64; TyU B32]) ++ enc_u64 s ++ enc_u32 ns ++ []) in *
      by (now rewrite app_nil_r).
    change [fmap VNat dec_u64; fmap VNat dec_u32] with (map D [TyU B64; TyU B32]).
    apply (dec_fields_zip c fuel [TyU B64; TyU B32] ltac:(reflexivity) Hall _ _ rest p L Hy HL HL64 Hfu).
  Qed.

  Theorem roundtrip_all : forall t, rt t.
  Proof.
    induction t as [w|w| | | | | |w|w| | |k| | |t IH|t IH|k t IH|tk tv IHk IHv|ts IH|ts IH|ts IH|t IH| |k t IH| |]
      using ty_ind'; unfold rt; intros Hok Hrt v cs rest p L He HL HL64 Hfu; unfold two64 in HL64.
    - (* TyU *) apply (good_TyU w v cs rest p L He HL); assumption.
    - (* TyI *) destruct v; cbn [encode_ty] in He; try discriminate.
      destruct (zin w z) eqn:Hz; [|discriminate]. inj_cs He.
      rewrite enc_iw_head in * by assumption. apply zin_spec in Hz. pose proof (imax_lt w) as Hm. cbn [decode_ty].
      destruct (Z.leb_spec 0 z).
      + erewrite fmap_ok by (apply dec_sint_phead0; [lia|lia|assumption]). now rewrite Z2N.id.
      + erewrite fmap_ok by (apply dec_sint_phead1; [unfold neg_arg; lia|unfold neg_arg; lia|assumption]).
        replace (-1 - Z.of_N (neg_arg z))%Z with z by (unfold neg_arg; lia). reflexivity.
    - (* TyInt *) destruct v; cbn [encode_ty] in He; try discriminate.
      destruct (Z.leb_spec (-18446744073709551616) z); cbn [andb] in He; [|discriminate].
      destruct (Z.leb_spec z 18446744073709551615); [|discriminate]. inj_cs He.
      cbn [decode_ty]. unfold enc_int in *. destruct (Z.ltb_spec z 0); cbn [negb] in *.
      + rewrite enc_neg64_head in * by lia.
        erewrite fmap_ok by (apply dec_int_phead1; [lia|assumption]). cbn [fst snd].
        replace (-1 - Z.of_N (Z.to_N (-1 - z)))%Z with z by lia. reflexivity.
      + rewrite enc_u64_head in * by lia.
        erewrite fmap_ok by (apply dec_int_phead0; [lia|assumption]). cbn [fst snd].
        now rewrite Z2N.id.
    - (* TyBool *) destruct v; cbn [encode_ty] in He; try discriminate. inj_cs He. destruct b; reflexivity.
    - (* TyChar *) destruct v; cbn [encode_ty] in He; try discriminate.
      destruct (is_scalar n) eqn:Hs; [|discriminate]. inj_cs He. pose proof (is_scalar_lt _ Hs) as Hlt.
      unfold enc_char in *. rewrite enc_u32_head in * by assumption. cbn [decode_ty].
      apply fmap_ok. unfold dec_char, dec_u32.
      rewrite (bind_ok _ _ _ _ _ (dec_uint_phead 4294967295 n rest p L ltac:(lia) ltac:(lia) HL)).
      now rewrite Hs.
    - (* TyF32 *) destruct v; cbn [encode_ty] in He; try discriminate.
      destruct (N.ltb_spec bits 4294967296) as [Hb|]; [|discriminate]. inj_cs He.
      rewrite flat_enc_f32 in *. rewrite len_cons, len_be in *. cbn [app decode_ty].
      apply fmap_ok. unfold dec_f32. rewrite (bind_ok _ _ _ _ _ (current_cons _ _ _ _)).
      change (250 =? 249) with false. rewrite andb_false_r. change (250 =? 250) with true. cbv iota.
      rewrite (bind_ok _ _ _ _ _ (read_cons _ _ _ _)).
      rewrite (read_be_app 4) by (cbn; lia). apply st_eq. lia.
    - (* TyF64 *) destruct v; cbn [encode_ty] in He; try discriminate.
      destruct (N.ltb_spec bits 18446744073709551616) as [Hb|]; [|discriminate]. inj_cs He.
      rewrite flat_enc_f64 in *. rewrite len_cons, len_be in *. cbn [app decode_ty].
      apply fmap_ok. unfold dec_f64. rewrite (bind_ok _ _ _ _ _ (current_cons _ _ _ _)).
      change (251 =? 249) with false. rewrite andb_false_r. change (251 =? 250) with false.
      change (251 =? 251) with true. cbv iota.
      rewrite (bind_ok _ _ _ _ _ (read_cons _ _ _ _)).
      rewrite (read_be_app 8) by (cbn; lia). apply st_eq. lia.
    - (* TyNZU *) destruct v; cbn [encode_ty] in He; try discriminate.
      destruct (N.leb_spec n (umax w)) as [Hn|]; cbn [andb] in He; [|discriminate].
      destruct (N.eqb_spec n 0) as [|Hnz]; cbn [negb] in He; [discriminate|]. inj_cs He.
      rewrite enc_uw_head in * by assumption. cbn [decode_ty]. pose proof (umax_lt w).
      rewrite (bind_ok _ _ _ _ _ (dec_uint_phead (umax w) n rest p L Hn ltac:(lia) HL)).
      destruct (N.eqb_spec n 0); [contradiction|reflexivity].
    - (* TyNZI *) destruct v; cbn [encode_ty] in He; try discriminate.
      destruct (zin w z) eqn:Hz; cbn [andb] in He; [|discriminate].
      destruct (Z.eqb_spec z 0) as [|Hnz]; cbn [negb] in He; [discriminate|]. inj_cs He.
      rewrite enc_iw_head in * by assumption. apply zin_spec in Hz. pose proof (imax_lt w) as Hm. cbn [decode_ty].
      destruct (Z.leb_spec 0 z).
      + rewrite (bind_ok _ _ _ _ _ (dec_sint_phead0 (imax w) (Z.to_N z) rest p L ltac:(lia) ltac:(lia) HL)).
        rewrite Z2N.id by assumption. destruct (Z.eqb_spec z 0); [contradiction|reflexivity].
      + rewrite (bind_ok _ _ _ _ _ (dec_sint_phead1 (imax w) (neg_arg z) rest p L
                   ltac:(unfold neg_arg; lia) ltac:(unfold neg_arg; lia) HL)).
        replace (-1 - Z.of_N (neg_arg z))%Z with z by (unfold neg_arg; lia).
        destruct (Z.eqb_spec z 0); [contradiction|reflexivity].
    - (* TyStr *) destruct v; cbn [encode_ty] in He; try discriminate.
      destruct (bytes_ok b); cbn [andb] in He; [|discriminate].
      destruct (utf8_valid b) eqn:Hu; [|discriminate]. inj_cs He.
      assert (Hb: len b < 18446744073709551616) by (rewrite len_enc_str in HL64; lia).
      rewrite enc_str_head in * by assumption. cbn [decode_ty]. apply fmap_ok. now apply dec_str_phead.
    - (* TyBytes *) destruct v; cbn [encode_ty] in He; try discriminate.
      destruct (bytes_ok b); [|discriminate]. inj_cs He.
      assert (Hb: len b < 18446744073709551616) by (rewrite len_enc_bytes in HL64; lia).
      rewrite enc_bytes_head in * by assumption. cbn [decode_ty]. apply fmap_ok. now apply dec_bytes_phead.
    - (* TyByteArr *) destruct v; cbn [encode_ty] in He; try discriminate.
      destruct (bytes_ok b); cbn [andb] in He; [|discriminate].
      destruct (N.eqb_spec (len b) k) as [Hk|]; [|discriminate]. inj_cs He.
      assert (Hb: len b < 18446744073709551616) by (rewrite len_enc_bytes in HL64; lia).
      rewrite enc_bytes_head in * by assumption. cbn [decode_ty].
      rewrite (bind_ok _ _ _ _ _ (dec_bytes_phead b rest p L Hb HL)).
      destruct (N.eqb_spec (len b) k); [reflexivity|contradiction].
    - (* TyCStr *) destruct v; cbn [encode_ty] in He; try discriminate.
      destruct (bytes_ok b); cbn [andb] in He; [|discriminate].
      destruct (no_nul b) eqn:Hnn; [|discriminate]. inj_cs He.
      assert (Hb: len (b ++ [0]) < 18446744073709551616) by (rewrite len_enc_bytes in HL64; lia).
      rewrite enc_bytes_head in * by assumption. cbn [decode_ty].
      rewrite (bind_ok _ _ _ _ _ (dec_bytes_phead (b ++ [0]) rest p L Hb HL)).
      now rewrite cstr_of_nul.
    - (* TyUnit *) destruct v; cbn [encode_ty] in He; try discriminate. inj_cs He. reflexivity.
    - (* TyOpt *) cbn [ty_ok rt_ok] in Hok, Hrt. apply andb_prop in Hrt as [Hnn Hrt].
      apply negb_true_iff in Hnn.
      destruct v; cbn [encode_ty] in He; try discriminate.
      + inj_cs He. cbn [decode_ty]. change (flat enc_null ++ rest) with (246 :: rest).
        rewrite (bind_ok _ _ _ _ _ (datatype_null _ _ _)). cbn [ctype_is_null].
        rewrite (bind_ok _ _ _ _ _ (skip_null _ _ _ _)). reflexivity.
      + destruct (datatype_shape (flat cs) rest p L (enc_first _ _ _ Hnn He)) as (ct & Ed & Hct).
        cbn [decode_ty]. rewrite (bind_ok _ _ _ _ _ Ed), Hct.
        apply fmap_ok. now apply IH.
    - (* TySeq *) cbn [ty_ok rt_ok] in Hok, Hrt.
      destruct v; cbn [encode_ty] in He; try discriminate.
      apply ocat_some in He as (x & y & Hx & Hy & ->). inj_cs Hx.
      pose proof (enc_all_length _ _ _ (nonempty_enc t) Hy) as Hlen.
      assert (Hl: len l < 18446744073709551616) by lens.
      rewrite flat_app, enc_array_head in * by assumption. rewrite <- app_assoc.
      cbn [decode_ty]. apply fmap_ok. unfold dec_seq.
      rewrite (bind_ok _ _ _ _ _ (dec_array_phead (len l) (flat y ++ rest) p L Hl ltac:(lens))).
      rewrite (dec_n_all fuel (D t) (encode_ty t) (IH Hok Hrt) (nonempty_enc t) l fuel [] y rest (p + len (phead 4 (len l))) L Hy
                 ltac:(lens) ltac:(lens) ltac:(lens) ltac:(lens)).
      cbn [rev app]. apply st_eq. rewrite len_app. lia.
    - (* TyArr *) cbn [ty_ok rt_ok] in Hok, Hrt.
      destruct v; cbn [encode_ty] in He; try discriminate.
      destruct (N.eqb_spec (len l) k) as [Hk|]; [|discriminate].
      apply ocat_some in He as (x & y & Hx & Hy & ->). inj_cs Hx.
      pose proof (enc_all_length _ _ _ (nonempty_enc t) Hy) as Hlen.
      assert (Hl: k < 18446744073709551616) by lens.
      rewrite flat_app, enc_array_head in * by assumption. rewrite <- app_assoc.
      cbn [decode_ty]. apply fmap_ok. unfold dec_arr.
      rewrite (bind_ok _ _ _ _ _ (dec_array_phead k (flat y ++ rest) p L Hl ltac:(lens))).
      rewrite <- Hk at 2.
      rewrite (bind_ok _ _ _ _ _ (arr_n_all fuel (D t) (encode_ty t) k (IH Hok Hrt) (nonempty_enc t) l fuel [] y rest (p + len (phead 4 k)) L Hy
                 ltac:(lens) ltac:(lens) ltac:(lens) ltac:(lens) ltac:(change (len (@nil value)) with 0; lia))).
      cbn [rev app]. destruct (N.eqb_spec (len l) k); [|contradiction].
      unfold ret. apply st_eq. rewrite len_app. lia.
    - (* TyMap *) cbn [ty_ok rt_ok] in Hok, Hrt.
      apply andb_prop in Hok as [Hok1 Hok2]. apply andb_prop in Hrt as [Hrt1 Hrt2].
      destruct v; cbn [encode_ty] in He; try discriminate.
      destruct (N.even (len l)) eqn:Hev; [|discriminate].
      apply ocat_some in He as (x & y & Hx & Hy & ->). inj_cs Hx.
      apply N.even_spec in Hev as [m Hm].
      assert (Hlen: length l = (2 * N.to_nat m)%nat) by (unfold len in Hm; lia).
      assert (Hdiv: len l / 2 = N.of_nat (N.to_nat m)).
      { rewrite Hm, N2Nat.id, N.mul_comm. apply N.div_mul. lia. }
      pose proof (enc_alt_length _ _ _ _ (nonempty_enc tk) Hy) as Hl2.
      rewrite Hdiv in *.
      assert (Hl: N.of_nat (N.to_nat m) < 18446744073709551616) by lens.
      rewrite flat_app, enc_map_head in * by assumption. rewrite <- app_assoc.
      cbn [decode_ty]. apply fmap_ok. unfold dec_map_seq.
      rewrite (bind_ok _ _ _ _ _ (dec_map_phead _ (flat y ++ rest) p L Hl ltac:(lens))).
      rewrite (bind_ok _ _ _ _ _ (dec_n_alt fuel (D tk) (D tv) (encode_ty tk) (encode_ty tv)
                 (IHk Hok1 Hrt1) (IHv Hok2 Hrt2) (nonempty_enc tk) (N.to_nat m) l fuel [] y rest (p + len (phead 5 (N.of_nat (N.to_nat m)))) L Hlen Hy
                 ltac:(lens) ltac:(lens) ltac:(lens) ltac:(lens))).
      cbn [rev app]. rewrite (flatten_pairs_pairs _ _ Hlen). unfold ret. apply st_eq. rewrite len_app. lia.
    - (* TyTuple *) cbn [ty_ok rt_ok] in Hok, Hrt. apply andb_prop in Hok as [Hn Hok]. apply N.leb_le in Hn.
      destruct v; cbn [encode_ty] in He; try discriminate.
      apply ocat_some in He as (x & y & Hx & Hy & ->). inj_cs Hx.
      assert (Hl: len ts < 18446744073709551616) by lia.
      rewrite flat_app, enc_array_head in * by assumption. rewrite <- app_assoc.
      cbn [decode_ty].
      rewrite (bind_ok _ _ _ _ _ (dec_array_phead (len ts) (flat y ++ rest) p L Hl ltac:(lens))).
      cbn [opt_eqb]. rewrite N.eqb_refl. apply fmap_ok.
      rewrite (dec_each_zip c fuel ts (rt_forall ts IH Hok Hrt) l y rest (p + len (phead 4 (len ts))) L Hy ltac:(lens) ltac:(lens) ltac:(lens)).
      apply st_eq. rewrite len_app. lia.
    - (* TyFields *) cbn [ty_ok rt_ok] in Hok, Hrt. apply andb_prop in Hok as [Hn Hok]. apply N.leb_le in Hn.
      destruct v; cbn [encode_ty] in He; try discriminate.
      apply ocat_some in He as (x & y & Hx & Hy & ->). inj_cs Hx.
      cbn [decode_ty]. apply fmap_ok.
      apply (dec_fields_zip c fuel ts ltac:(unfold two64; lia) (rt_forall ts IH Hok Hrt) l y rest p L Hy HL HL64 Hfu).
    - (* TyEnum *) cbn [ty_ok rt_ok] in Hok, Hrt. apply andb_prop in Hok as [Hn Hok].
      destruct v; cbn [encode_ty] in He; try discriminate.
      destruct (nth_error (map encode_ty ts) (N.to_nat idx)) as [f|] eqn:Hf; [|discriminate].
      destruct (N.ltb_spec idx 4294967296) as [Hi|]; [|discriminate].
      apply ocat_some in He as (x & y & Hx & Hy & ->). inj_cs Hx.
      apply nth_error_map_inv in Hf as (t' & Ht' & <-).
      pose proof (rt_forall ts IH Hok Hrt) as Hall. rewrite Forall_forall in Hall.
      specialize (Hall t' (nth_error_In _ _ Ht')).
      rewrite !flat_app, flat_enc_array_2, enc_u32_head in * by assumption.
      rewrite <- !app_assoc. cbn [app decode_ty]. unfold dec_enum.
      rewrite (bind_ok _ _ _ _ _ (dec_array_2 _ _ _)). cbv iota.
      unfold dec_u32.
      rewrite (bind_ok _ _ _ _ _ (dec_uint_phead 4294967295 idx (flat y ++ rest) (p + 1) L
                 ltac:(lia) ltac:(lia) ltac:(lens))).
      assert (Hlt : (idx <? len (map D ts)) = true).
      { apply N.ltb_lt. unfold len. rewrite map_length. pose proof (proj1 (nth_error_Some ts (N.to_nat idx)) ltac:(congruence)). lia. }
      rewrite Hlt.
      rewrite (map_nth_error D _ _ Ht').
      rewrite (bind_ok _ _ _ _ _ (Hall v y rest (p + 1 + len (phead 0 idx)) L Hy ltac:(lens) ltac:(lens) ltac:(lens))).
      unfold ret. apply st_eq. rewrite len_cons, len_app. lia.
    - (* TyBound *) cbn [ty_ok rt_ok] in Hok, Hrt.
      destruct v; cbn [encode_ty] in He; try discriminate.
      destruct (N.ltb_spec idx 2) as [Hi|Hi].
      + apply ocat_some in He as (x & y & Hx & Hy & ->). inj_cs Hx.
        rewrite !flat_app, flat_enc_array_2, enc_u32_head in * by lia.
        rewrite <- !app_assoc. cbn [app decode_ty].
        rewrite (bind_ok _ _ _ _ _ (dec_array_2 _ _ _)). cbn [opt_eqb]. change (2 =? 2) with true. cbv iota.
        unfold dec_u32.
        rewrite (bind_ok _ _ _ _ _ (dec_uint_phead 4294967295 idx (flat y ++ rest) (p + 1) L
                   ltac:(lia) ltac:(lia) ltac:(lens))).
        destruct (N.ltb_spec idx 2); [|lia].
        rewrite (bind_ok _ _ _ _ _ (IH Hok Hrt v y rest (p + 1 + len (phead 0 idx)) L Hy ltac:(lens) ltac:(lens) ltac:(lens))).
        unfold ret. apply st_eq. rewrite len_cons, len_app. lia.
      + destruct (N.eqb_spec idx 2) as [->|]; [|discriminate]. destruct v; try discriminate. inj_cs He.
        cbn [decode_ty]. change (flat (enc_array 2 ++ enc_u32 2 ++ enc_array 0)) with [130; 2; 128].
        cbn [app]. rewrite (bind_ok _ _ _ _ _ (dec_array_2 _ _ _)). cbn [opt_eqb].
        change (2 =? 2) with true. cbv iota.
        rewrite (bind_ok _ _ _ _ _ (dec_u32_2 _ _ _)).
        change (2 <? 2) with false. change (2 =? 2) with true. cbv iota.
        rewrite (bind_ok _ _ _ _ _ (skip_empty_array _ _ _ _)). unfold ret. apply st_eq.
        change (len [130; 2; 128]) with 3. lia.
    - (* TyTag *) destruct v; cbn [encode_ty] in He; try discriminate.
      destruct (N.ltb_spec n 18446744073709551616) as [Hn|]; [|discriminate]. inj_cs He.
      rewrite enc_tag_head in * by assumption. cbn [decode_ty]. apply fmap_ok. now apply dec_tag_phead.
    - (* TyTagged *) cbn [ty_ok rt_ok] in Hok, Hrt. cbn [encode_ty] in He.
      destruct (N.ltb_spec k 18446744073709551616) as [Hn|]; [|discriminate].
      apply ocat_some in He as (x & y & Hx & Hy & ->). inj_cs Hx.
      rewrite flat_app, enc_tag_head in * by assumption. rewrite <- app_assoc. cbn [decode_ty].
      rewrite (bind_ok _ _ _ _ _ (dec_tag_phead k (flat y ++ rest) p L Hn ltac:(lens))).
      rewrite N.eqb_refl.
      rewrite (IH Hok Hrt v y rest (p + len (phead 6 k)) L Hy ltac:(lens) ltac:(lens) ltac:(lens)).
      apply st_eq. rewrite len_app. lia.
    - (* TyDuration *) destruct v; cbn [encode_ty] in He; try discriminate.
      destruct l as [|[s| | | | | | | | |] [|[ns| | | | | | | | |] [|? ?]]]; try discriminate.
      destruct (N.leb_spec s (umax B64)) as [Hs|]; cbn [andb] in He; [|discriminate].
      destruct (N.leb_spec ns nanos_max) as [Hns|]; [|discriminate]. inj_cs He.
      cbn [decode_ty].
      rewrite (bind_ok _ _ _ _ _ (dec_duration_fields s ns rest p L Hs Hns HL HL64 Hfu)).
      now apply mk_duration_ok.
    - (* TySystemTime *) destruct v; cbn [encode_ty] in He; try discriminate. destruct v; try discriminate.
      destruct l as [|[s| | | | | | | | |] [|[ns| | | | | | | | |] [|? ?]]]; try discriminate.
      destruct (N.eqb_spec idx 0) as [->|]; cbn [andb] in He; [|discriminate].
      destruct (N.leb_spec s (imax B64)) as [Hs|]; cbn [andb] in He; [|discriminate].
      destruct (N.leb_spec ns nanos_max) as [Hns|]; [|discriminate]. inj_cs He.
      assert (Hs': s <= umax B64) by (cbn [imax umax] in *; lia).
      cbn [decode_ty].
      rewrite (bind_ok _ _ _ _ _ (dec_duration_fields s ns rest p L Hs' Hns HL HL64 Hfu)).
      rewrite (bind_ok _ _ _ _ _ (mk_duration_ok s ns _ Hs' Hns)).
      destruct (N.leb_spec s (imax B64)); [reflexivity|lia].
  Qed.
End Roundtrip.

Theorem roundtrip : forall c t v cs rest p L fuel,
  ty_ok t = true -> rt_ok t = true -> encode_ty t v = Some cs ->
  p + len (flat cs) <= L -> len (flat cs) < two64 -> (length (flat cs ++ rest) < fuel)%nat ->
  decode_ty c t fuel (mkdst p (flat cs ++ rest) L) = (Ok v, mkdst (p + len (flat cs)) rest L).
Proof. intros c t v cs rest p L fuel Hok Hrt. exact (roundtrip_all c fuel t Hok Hrt v cs rest p L). Qed.

(* with the fuel the extracted model runs with (decode_auto), from the start of a buffer that holds the
   encoding followed by anything *)
Theorem roundtrip_auto : forall c t v cs rest,
  ty_ok t = true -> rt_ok t = true -> encode_ty t v = Some cs -> len (flat cs) < two64 ->
  run (decode_auto c t) (flat cs ++ rest) = (Ok v, mkdst (len (flat cs)) rest (len (flat cs ++ rest))).
Proof.
  intros c t v cs rest Hok Hrt He HL. unfold run, start, decode_auto, fuel_of. cbn [drest].
  rewrite (roundtrip c t v cs rest 0 _ _ Hok Hrt He); [reflexivity| |exact HL|lia].
  rewrite len_app. lia.
Qed.

(* the lossy shape really is lossy: Some(None) comes back as None *)
Lemma opt_opt_lossy c t : exists v cs, encode_ty (TyOpt (TyOpt t)) v = Some cs /\
  run (decode_auto c (TyOpt (TyOpt t))) (flat cs) = (Ok VNone, mkdst 1 [] 1) /\ v <> VNone.
Proof.
  exists (VSome VNone), enc_null. split; [reflexivity|]. split; [|discriminate].
  unfold run, start, decode_auto, fuel_of. change (flat enc_null) with [246]. cbn [drest decode_ty].
  rewrite (bind_ok _ _ _ _ _ (datatype_null _ _ _)). cbn [ctype_is_null].
  rewrite (bind_ok _ _ _ _ _ (skip_null _ _ _ _)). reflexivity.
Qed.

(* ---- a nested instance meeting every hypothesis (used by the Examples in Props/C01.v, C07.v) ---- *)
Definition rt_example_ty : ty :=
  TyMap TyStr (TySeq (TyOpt (TyTuple
    [TyI B16; TyBound TyF32; TyBound TyInt; TyTagged 100000 TyBytes; TyFields [TyU B8; TyChar];
     TyEnum [TyUnit; TyCStr]; TySystemTime; TyArr 2 TyBool]))).

Definition rt_example_val : value :=
  VList [VBlob [104; 105];
         VList [VNone;
                VSome (VList [VInt (-300); VVar 1 (VFloat 1065353216); VVar 2 VUnit; VBlob [1; 2; 255];
                              VList [VNat 200; VNat 8364]; VVar 1 (VBlob [97; 98]);
                              VVar 0 (VList [VNat 1700000000; VNat 999999999]);
                              VList [VBool true; VBool false]])];
         VBlob []; VList []].
