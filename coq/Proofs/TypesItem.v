(* Proofs/TypesItem.v — C03 for the built-in Encode impls: encode_ty writes exactly the RFC 8949
   preferred definite-length serialisation (enc_pref) of the item its value denotes (Spec/Denote.v). *)
From MC Require Import Bytes BytesFacts Monad Cbor Item Utf8 Half Decoder Encoder Methods Types Denote
  EncoderFacts DecoderFacts TypesEnc TypesLen TypesDec TypesFacts.
From MC Require ItemFacts.
From Coq Require Import Lia.
Local Open Scope N_scope.

Definition is_item (f : value -> option (list chunk)) (g : value -> option item) : Prop :=
  forall v cs, f v = Some cs -> len (flat cs) < two64 ->
    exists i, g v = Some i /\ item_ok i = true /\ flat cs = enc_pref i.

Definition items_of (t : ty) : Prop := no_bare_tag t = true -> is_item (encode_ty t) (denote t).

Lemma lt64_intro n : n < 18446744073709551616 -> lt64 n = true.
Proof. intro H. now apply N.ltb_lt. Qed.

Lemma den_all_items f g l : is_item f g -> forall cs,
  enc_all f l = Some cs -> len (flat cs) < two64 ->
  exists is, den_all g l = Some is /\ forallb item_ok is = true /\ flat cs = flat_map enc_pref is /\ len is = len l.
Proof.
  intro Hfg. induction l as [|v l IH]; cbn [enc_all den_all]; intros cs H H64.
  - inj_cs H. exists []. repeat split; reflexivity.
  - apply ocat_some in H as (x & y & Hx & Hy & ->).
    destruct (Hfg v x Hx ltac:(lens)) as (i & Hi & Hok & Ei).
    destruct (IH y Hy ltac:(lens)) as (is & His & Hoks & Eis & Hl).
    exists (i :: is). rewrite Hi, His. cbn [forallb flat_map]. rewrite Hok, Hoks, flat_app, Ei, Eis, !len_cons, Hl.
    repeat split; reflexivity.
Qed.

Lemma den_alt_items fk fv gk gv l : is_item fk gk -> is_item fv gv -> forall cs,
  enc_alt fk fv l = Some cs -> len (flat cs) < two64 ->
  exists is, den_alt gk gv l = Some is /\ forallb item_ok is = true /\ flat cs = flat_map enc_pref is /\ len is = len l.
Proof.
  intros Hk Hv.
  assert (G: forall n l, (length l <= n)%nat -> forall cs, enc_alt fk fv l = Some cs -> len (flat cs) < two64 ->
    exists is, den_alt gk gv l = Some is /\ forallb item_ok is = true /\ flat cs = flat_map enc_pref is /\ len is = len l).
  { induction n as [|n IH]; intros l' Hn cs H H64.
    - destruct l'; [|cbn [length] in Hn; lia]. cbn [enc_alt] in H. inj_cs H. exists []. repeat split; reflexivity.
    - destruct l' as [|k [|v r]]; cbn [enc_alt den_alt] in *.
      + inj_cs H. exists []. repeat split; reflexivity.
      + discriminate.
      + apply ocat_some in H as (x & y & Hx & Hy & ->).
        apply ocat_some in Hy as (y1 & y2 & Hy1 & Hy2 & ->).
        destruct (Hk k x Hx ltac:(lens)) as (a & Ha & Hoka & Ea).
        destruct (Hv v y1 Hy1 ltac:(lens)) as (b & Hb & Hokb & Eb).
        destruct (IH r ltac:(cbn [length] in Hn; lia) y2 Hy2 ltac:(lens)) as (is & His & Hoks & Eis & Hl).
        exists (a :: b :: is). rewrite Ha, Hb, His. cbn [forallb flat_map].
        rewrite Hoka, Hokb, Hoks, !flat_app, Ea, Eb, Eis, !len_cons, Hl.
        repeat split; reflexivity. }
  apply (G (length l)). lia.
Qed.

Lemma den_zip_items ts : Forall items_of ts -> forallb no_bare_tag ts = true -> forall l cs,
  enc_zip (map encode_ty ts) l = Some cs -> len (flat cs) < two64 ->
  exists is, den_zip (map denote ts) l = Some is /\ forallb item_ok is = true /\ flat cs = flat_map enc_pref is
             /\ len is = len ts.
Proof.
  induction 1 as [|t ts Ht Hts IH]; cbn [forallb map enc_zip den_zip]; intros Hnb l cs H H64.
  - destruct l; [|discriminate]. inj_cs H. exists []. repeat split; reflexivity.
  - apply andb_prop in Hnb as [Hnb1 Hnb2]. destruct l as [|v l]; [discriminate|].
    apply ocat_some in H as (x & y & Hx & Hy & ->).
    destruct (Ht Hnb1 v x Hx ltac:(lens)) as (i & Hi & Hok & Ei).
    destruct (IH Hnb2 l y Hy ltac:(lens)) as (is & His & Hoks & Eis & Hl).
    exists (i :: is). rewrite Hi, His. cbn [forallb flat_map]. rewrite Hok, Hoks, flat_app, Ei, Eis, !len_cons, Hl.
    repeat split; reflexivity.
Qed.

Lemma phead_4_2 : phead 4 2 = [130].
Proof. reflexivity. Qed.

(* [variant, payload] *)
Lemma pair_is_item idx y p : idx < 4294967296 -> item_ok p = true -> flat y = enc_pref p ->
  item_ok (IArray [IUInt idx; p]) = true /\
  flat ((enc_array 2 ++ enc_u32 idx) ++ y) = enc_pref (IArray [IUInt idx; p]).
Proof.
  intros Hi Hok E. split.
  - cbn [item_ok forallb]. rewrite Hok, (lt64_intro idx) by lia. reflexivity.
  - rewrite !flat_app, flat_enc_array_2, enc_u32_head, E by assumption.
    cbn [enc_pref flat_map]. change (len [IUInt idx; p]) with 2. rewrite phead_4_2, app_nil_r, <- app_assoc. reflexivity.
Qed.

Lemma duration_is_item s ns : s <= umax B64 -> ns <= nanos_max ->
  item_ok (IArray [IUInt s; IUInt ns]) = true /\
  flat (enc_array 2 ++ enc_u64 s ++ enc_u32 ns) = enc_pref (IArray [IUInt s; IUInt ns]).
Proof.
  unfold nanos_max. cbn [umax]. intros Hs Hns. split.
  - cbn [item_ok forallb]. rewrite (lt64_intro s), (lt64_intro ns) by lia. reflexivity.
  - rewrite !flat_app, flat_enc_array_2, enc_u64_head, enc_u32_head by lia.
    cbn [enc_pref flat_map]. change (len [IUInt s; IUInt ns]) with 2. rewrite phead_4_2, app_nil_r. reflexivity.
Qed.

Lemma int_is_item z : (-18446744073709551616 <= z <= 18446744073709551615)%Z ->
  item_ok (int_item z) = true /\
  enc_pref (int_item z) = if (0 <=? z)%Z then phead 0 (Z.to_N z) else phead 1 (neg_arg z).
Proof.
  intro H. unfold int_item, neg_arg. destruct (Z.leb_spec 0 z); cbn [item_ok enc_pref];
    (split; [apply lt64_intro; lia|reflexivity]).
Qed.

Theorem encode_items : forall t, items_of t.
Proof.
  induction t as [w|w| | | | | |w|w| | |k| | |t IH|t IH|k t IH|tk tv IHk IHv|ts IH|ts IH|ts IH|t IH| |k t IH| |]
    using ty_ind'; unfold items_of, is_item; intros Hnb v cs He H64; unfold two64 in H64.
  - (* TyU *) destruct v; cbn [encode_ty] in He; try discriminate.
    destruct (N.leb_spec n (umax w)) as [Hn|]; [|discriminate]. inj_cs He. pose proof (umax_lt w).
    exists (IUInt n). cbn [denote item_ok enc_pref]. rewrite enc_uw_head by assumption.
    repeat split. apply lt64_intro. lia.
  - (* TyI *) destruct v; cbn [encode_ty] in He; try discriminate.
    destruct (zin w z) eqn:Hz; [|discriminate]. inj_cs He. rewrite enc_iw_head by assumption.
    apply zin_spec in Hz. pose proof (imax_lt w).
    destruct (int_is_item z ltac:(lia)) as [Hok E]. exists (int_item z). cbn [denote]. now rewrite E.
  - (* TyInt *) destruct v; cbn [encode_ty] in He; try discriminate.
    destruct (Z.leb_spec (-18446744073709551616) z); cbn [andb] in He; [|discriminate].
    destruct (Z.leb_spec z 18446744073709551615); [|discriminate]. inj_cs He.
    destruct (int_is_item z ltac:(lia)) as [Hok E]. exists (int_item z). cbn [denote]. rewrite E.
    repeat split; [assumption|]. unfold enc_int, neg_arg.
    destruct (Z.ltb_spec z 0); destruct (Z.leb_spec 0 z); try lia; cbn [negb].
    + apply enc_neg64_head. lia.
    + apply enc_u64_head. lia.
  - (* TyBool *) destruct v; cbn [encode_ty] in He; try discriminate. inj_cs He.
    exists (ISimple (if b then 21 else 20)). cbn [denote]. destruct b; repeat split; reflexivity.
  - (* TyChar *) destruct v; cbn [encode_ty] in He; try discriminate.
    destruct (is_scalar n) eqn:Hs; [|discriminate]. inj_cs He. pose proof (is_scalar_lt _ Hs) as Hlt.
    exists (IUInt n). cbn [denote item_ok enc_pref]. unfold enc_char. rewrite enc_u32_head by assumption.
    repeat split. apply lt64_intro. lia.
  - (* TyF32 *) destruct v; cbn [encode_ty] in He; try discriminate.
    destruct (bits <? 4294967296) eqn:Hb; [|discriminate]. inj_cs He.
    exists (IF32 bits). cbn [denote item_ok enc_pref]. rewrite flat_enc_f32. repeat split. exact Hb.
  - (* TyF64 *) destruct v; cbn [encode_ty] in He; try discriminate.
    destruct (bits <? 18446744073709551616) eqn:Hb; [|discriminate]. inj_cs He.
    exists (IF64 bits). cbn [denote item_ok enc_pref]. rewrite flat_enc_f64. repeat split. exact Hb.
  - (* TyNZU *) destruct v; cbn [encode_ty] in He; try discriminate.
    destruct (N.leb_spec n (umax w)) as [Hn|]; cbn [andb] in He; [|discriminate].
    destruct (negb (n =? 0)); [|discriminate]. inj_cs He. pose proof (umax_lt w).
    exists (IUInt n). cbn [denote item_ok enc_pref]. rewrite enc_uw_head by assumption.
    repeat split. apply lt64_intro. lia.
  - (* TyNZI *) destruct v; cbn [encode_ty] in He; try discriminate.
    destruct (zin w z) eqn:Hz; cbn [andb] in He; [|discriminate].
    destruct (negb (z =? 0)%Z); [|discriminate]. inj_cs He. rewrite enc_iw_head by assumption.
    apply zin_spec in Hz. pose proof (imax_lt w).
    destruct (int_is_item z ltac:(lia)) as [Hok E]. exists (int_item z). cbn [denote]. now rewrite E.
  - (* TyStr *) destruct v; cbn [encode_ty] in He; try discriminate.
    destruct (bytes_ok b) eqn:Hb; cbn [andb] in He; [|discriminate].
    destruct (utf8_valid b); [|discriminate]. inj_cs He.
    assert (Hl: len b < 18446744073709551616) by (rewrite len_enc_str in H64; lia).
    exists (IText b). cbn [denote item_ok enc_pref]. rewrite enc_str_head, Hb, (lt64_intro _ Hl) by assumption.
    repeat split.
  - (* TyBytes *) destruct v; cbn [encode_ty] in He; try discriminate.
    destruct (bytes_ok b) eqn:Hb; [|discriminate]. inj_cs He.
    assert (Hl: len b < 18446744073709551616) by (rewrite len_enc_bytes in H64; lia).
    exists (IBytes b). cbn [denote item_ok enc_pref]. rewrite enc_bytes_head, Hb, (lt64_intro _ Hl) by assumption.
    repeat split.
  - (* TyByteArr *) destruct v; cbn [encode_ty] in He; try discriminate.
    destruct (bytes_ok b) eqn:Hb; cbn [andb] in He; [|discriminate].
    destruct (len b =? k) eqn:Hk; [|discriminate]. inj_cs He.
    assert (Hl: len b < 18446744073709551616) by (rewrite len_enc_bytes in H64; lia).
    exists (IBytes b). cbn [denote item_ok enc_pref]. rewrite Hk, enc_bytes_head, Hb, (lt64_intro _ Hl) by assumption.
    repeat split.
  - (* TyCStr *) destruct v; cbn [encode_ty] in He; try discriminate.
    destruct (bytes_ok b) eqn:Hb; cbn [andb] in He; [|discriminate].
    destruct (no_nul b); [|discriminate]. inj_cs He.
    assert (Hl: len (b ++ [0]) < 18446744073709551616) by (rewrite len_enc_bytes in H64; lia).
    exists (IBytes (b ++ [0])). cbn [denote item_ok enc_pref]. rewrite enc_bytes_head, (lt64_intro _ Hl) by assumption.
    repeat split. unfold bytes_ok in *. rewrite forallb_app, Hb. reflexivity.
  - (* TyUnit *) destruct v; cbn [encode_ty] in He; try discriminate. inj_cs He.
    exists (IArray []). repeat split; reflexivity.
  - (* TyOpt *) cbn [no_bare_tag] in Hnb. destruct v; cbn [encode_ty] in He; try discriminate.
    + inj_cs He. exists (ISimple 22). repeat split; reflexivity.
    + cbn [denote]. now apply IH.
  - (* TySeq *) cbn [no_bare_tag] in Hnb. destruct v; cbn [encode_ty] in He; try discriminate.
    apply ocat_some in He as (x & y & Hx & Hy & ->). inj_cs Hx.
    pose proof (enc_all_length _ _ _ (nonempty_enc t) Hy) as Hlen.
    assert (Hl: len l < 18446744073709551616) by lens.
    destruct (den_all_items _ _ l (IH Hnb) y Hy ltac:(lens)) as (is & His & Hoks & Eis & Hli).
    exists (IArray is). cbn [denote]. rewrite His. cbn [option_map item_ok enc_pref].
    rewrite Hli, (lt64_intro _ Hl), Hoks, flat_app, enc_array_head, Eis by assumption. repeat split.
  - (* TyArr *) cbn [no_bare_tag] in Hnb. destruct v; cbn [encode_ty] in He; try discriminate.
    destruct (N.eqb_spec (len l) k) as [Hk|]; [|discriminate]. subst k.
    apply ocat_some in He as (x & y & Hx & Hy & ->). inj_cs Hx.
    pose proof (enc_all_length _ _ _ (nonempty_enc t) Hy) as Hlen.
    assert (Hl: len l < 18446744073709551616) by lens.
    destruct (den_all_items _ _ l (IH Hnb) y Hy ltac:(lens)) as (is & His & Hoks & Eis & Hli).
    exists (IArray is). cbn [denote]. rewrite N.eqb_refl, His. cbn [option_map item_ok enc_pref].
    rewrite Hli, (lt64_intro _ Hl), Hoks, flat_app, enc_array_head, Eis by assumption. repeat split.
  - (* TyMap *) cbn [no_bare_tag] in Hnb. apply andb_prop in Hnb as [Hnb1 Hnb2].
    destruct v; cbn [encode_ty] in He; try discriminate.
    destruct (N.even (len l)) eqn:Hev; [|discriminate].
    apply ocat_some in He as (x & y & Hx & Hy & ->). inj_cs Hx.
    pose proof (enc_alt_length _ _ _ _ (nonempty_enc tk) Hy) as Hl2.
    assert (Hl: len l / 2 < 18446744073709551616).
    { apply N.div_lt_upper_bound; [lia|]. lens. }
    destruct (den_alt_items _ _ _ _ l (IHk Hnb1) (IHv Hnb2) y Hy ltac:(lens)) as (is & His & Hoks & Eis & Hli).
    exists (IMap is). cbn [denote]. rewrite His. cbn [option_map item_ok enc_pref].
    rewrite Hli, Hev, (lt64_intro _ Hl), Hoks, flat_app, enc_map_head, Eis by assumption. repeat split.
  - (* TyTuple *) cbn [no_bare_tag] in Hnb. destruct v; cbn [encode_ty] in He; try discriminate.
    apply ocat_some in He as (x & y & Hx & Hy & ->). inj_cs Hx.
    destruct (enc_zip_length _ _ _ Hy) as [Hl1 Hl2].
    assert (Hl: len ts < 18446744073709551616) by lens.
    destruct (den_zip_items ts IH Hnb l y Hy ltac:(lens)) as (is & His & Hoks & Eis & Hli).
    exists (IArray is). cbn [denote]. rewrite His. cbn [option_map item_ok enc_pref].
    rewrite Hli, (lt64_intro _ Hl), Hoks, flat_app, enc_array_head, Eis by assumption. repeat split.
  - (* TyFields *) cbn [no_bare_tag] in Hnb. destruct v; cbn [encode_ty] in He; try discriminate.
    apply ocat_some in He as (x & y & Hx & Hy & ->). inj_cs Hx.
    destruct (enc_zip_length _ _ _ Hy) as [Hl1 Hl2].
    assert (Hl: len ts < 18446744073709551616) by lens.
    destruct (den_zip_items ts IH Hnb l y Hy ltac:(lens)) as (is & His & Hoks & Eis & Hli).
    exists (IArray is). cbn [denote]. rewrite His. cbn [option_map item_ok enc_pref].
    rewrite Hli, (lt64_intro _ Hl), Hoks, flat_app, enc_array_head, Eis by assumption. repeat split.
  - (* TyEnum *) cbn [no_bare_tag] in Hnb. destruct v; cbn [encode_ty] in He; try discriminate.
    destruct (nth_error (map encode_ty ts) (N.to_nat idx)) as [f|] eqn:Hf; [|discriminate].
    destruct (N.ltb_spec idx 4294967296) as [Hi|]; [|discriminate].
    apply ocat_some in He as (x & y & Hx & Hy & ->). inj_cs Hx.
    apply nth_error_map_inv in Hf as (t' & Ht' & <-).
    rewrite Forall_forall in IH. rewrite forallb_forall in Hnb.
    pose proof (nth_error_In _ _ Ht') as Hin.
    destruct (IH t' Hin (Hnb t' Hin) v y Hy ltac:(lens)) as (p & Hp & Hok & Ep).
    destruct (pair_is_item idx y p Hi Hok Ep) as [Hok2 E2].
    exists (IArray [IUInt idx; p]). cbn [denote]. rewrite (map_nth_error denote _ _ Ht'), Hp. cbn [pair_item].
    repeat split; assumption.
  - (* TyBound *) cbn [no_bare_tag] in Hnb. destruct v; cbn [encode_ty] in He; try discriminate. cbn [denote].
    destruct (N.ltb_spec idx 2) as [Hi|Hi].
    + apply ocat_some in He as (x & y & Hx & Hy & ->). inj_cs Hx.
      destruct (IH Hnb v y Hy ltac:(lens)) as (p & Hp & Hok & Ep).
      destruct (pair_is_item idx y p ltac:(lia) Hok Ep) as [Hok2 E2].
      exists (IArray [IUInt idx; p]). rewrite Hp. cbn [pair_item]. repeat split; assumption.
    + destruct (idx =? 2); [|discriminate]. destruct v; try discriminate. inj_cs He.
      exists (IArray [IUInt 2; IArray []]). repeat split; reflexivity.
  - (* TyTag *) discriminate Hnb.
  - (* TyTagged *) cbn [no_bare_tag] in Hnb. cbn [encode_ty] in He.
    destruct (N.ltb_spec k 18446744073709551616) as [Hn|]; [|discriminate].
    apply ocat_some in He as (x & y & Hx & Hy & ->). inj_cs Hx.
    destruct (IH Hnb v y Hy ltac:(lens)) as (p & Hp & Hok & Ep).
    exists (ITag k p). cbn [denote]. rewrite Hp. cbn [option_map item_ok enc_pref].
    rewrite (lt64_intro _ Hn), Hok, flat_app, enc_tag_head, Ep by assumption. repeat split.
  - (* TyDuration *) destruct v; cbn [encode_ty] in He; try discriminate.
    destruct l as [|[s| | | | | | | | |] [|[ns| | | | | | | | |] [|? ?]]]; try discriminate.
    destruct (N.leb_spec s (umax B64)) as [Hs|]; cbn [andb] in He; [|discriminate].
    destruct (N.leb_spec ns nanos_max) as [Hns|]; [|discriminate]. inj_cs He.
    destruct (duration_is_item s ns Hs Hns) as [Hok E].
    exists (IArray [IUInt s; IUInt ns]). cbn [denote]. repeat split; assumption.
  - (* TySystemTime *) destruct v; cbn [encode_ty] in He; try discriminate. destruct v; try discriminate.
    destruct l as [|[s| | | | | | | | |] [|[ns| | | | | | | | |] [|? ?]]]; try discriminate.
    destruct (N.eqb_spec idx 0) as [->|]; cbn [andb] in He; [|discriminate].
    destruct (N.leb_spec s (imax B64)) as [Hs|]; cbn [andb] in He; [|discriminate].
    destruct (N.leb_spec ns nanos_max) as [Hns|]; [|discriminate]. inj_cs He.
    destruct (duration_is_item s ns ltac:(cbn [imax umax] in *; lia) Hns) as [Hok E].
    exists (IArray [IUInt s; IUInt ns]). cbn [denote]. change (0 =? 0) with true. cbv iota. repeat split; assumption.
Qed.

Theorem types_preferred : forall t v cs,
  no_bare_tag t = true -> encode_ty t v = Some cs -> len (flat cs) < two64 ->
  exists i, denote t v = Some i /\ item_ok i = true /\ flat cs = enc_pref i.
Proof. intros t v cs Hnb. exact (encode_items t Hnb v cs). Qed.

Theorem types_wellformed : forall t v cs,
  no_bare_tag t = true -> encode_ty t v = Some cs -> len (flat cs) < two64 ->
  exists i e, denote t v = Some i /\ flat cs = ser e /\ wf e = true /\ pref e = true /\ val_of e = i.
Proof.
  intros t v cs Hnb He H64. destruct (types_preferred t v cs Hnb He H64) as (i & Hd & Hok & E).
  destruct (ItemFacts.enc_pref_is_item i Hok) as (e & Ee & Hwf & Hp & Hv).
  exists i, e. rewrite E. auto.
Qed.

(* a bare Tag is the one built-in impl that does not write a whole item: it writes a tag header *)
Theorem tag_is_header : forall n cs, encode_ty TyTag (VNat n) = Some cs -> flat cs = phead 6 n.
Proof.
  intros n cs H. cbn [encode_ty] in H. destruct (N.ltb_spec n 18446744073709551616); [|discriminate].
  inj_cs H. now apply enc_tag_head.
Qed.
