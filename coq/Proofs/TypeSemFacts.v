(* Proofs/TypeSemFacts.v — typed decoding (Model/Types.v decode_ty) agrees with the tree-level
   specification Spec/TypeSem.v on every well-formed encoding: leaves.
   The loops are in TypeSemLoops.v, the theorem in TypeSemAgree.v. *)
From MC Require Import Bytes BytesFacts Monad Cbor Utf8 Half Decoder Acc Accessors Types TypeSem
  DecoderFacts CborFacts IntFacts AccFacts AccAgreeFacts.
From Coq Require Import Lia.
Local Open Scope N_scope.

(* what it means for an outcome to meet a tsem expectation: q is the position after the item, r what follows *)
Definition sem_agrees {A} (res : result A * dst) (s : tsem A) (q : N) (r : bytes) (L : N) : Prop :=
  match s with
  | TsVal v => res = (Ok v, mkdst q r L)
  | TsErr => is_err res
  | TsAny => True
  end.

Lemma sem_agrees_pos {A} (res : result A * dst) s q q' r L : q = q' -> sem_agrees res s q r L -> sem_agrees res s q' r L.
Proof. now intros ->. Qed.

Lemma sem_agrees_fmap {A B} (g : A -> B) (m : M A) st s q r L :
  sem_agrees (m st) s q r L -> sem_agrees (fmap g m st) (ts_map g s) q r L.
Proof.
  destruct s as [a| |]; cbn [sem_agrees ts_map]; intro H; [now apply fmap_ok|now apply fmap_is_err|exact I].
Qed.

Lemma sem_agrees_bind {A B} (m : M A) (k : A -> M B) (g : A -> tsem B) st s q r L q' r' :
  sem_agrees (m st) s q r L ->
  (forall a, s = TsVal a -> sem_agrees (k a (mkdst q r L)) (g a) q' r' L) ->
  sem_agrees (bind m k st) (ts_bind s g) q' r' L.
Proof.
  destruct s as [a| |]; cbn [sem_agrees ts_bind]; intros H K.
  - rewrite (bind_ok _ _ _ _ _ H). now apply K.
  - now apply bind_is_err.
  - exact I.
Qed.

Lemma is_err_fail {A} e s : is_err (@fail A e s).
Proof. eexists _, _. reflexivity. Qed.

(* an item decoder meets a tree-level reading on every well-formed item, anywhere, whatever follows *)
Definition elem_ok (fuel : nat) (d : M value) (f : enc -> tsem value) : Prop :=
  forall e r p L, wf e = true -> p + len (ser e) <= L -> len (ser e) < 18446744073709551616 ->
    (length (ser e ++ r) < fuel)%nat ->
    sem_agrees (d (mkdst p (ser e ++ r) L)) (f e) (p + len (ser e)) r L.

(* ---- rejection on the first byte ---- *)
Ltac first_byte Hw :=
  let t := fresh "t" in let Et := fresh "Et" in let Hr := fresh "Hr" in
  destruct (ser_fb _ Hw) as [t Et]; pose proof (fb_range _ Hw) as Hr; rewrite Et;
  cbn [app fb_spec] in Hr |- *.

Lemma fits_lt64 w n : fits w n = true -> n < 18446744073709551616.
Proof. destruct w; cbn [fits]; intro H; apply N.ltb_lt in H; lia. Qed.

(* ---- integers ---- *)
Lemma uint_sem fuel max : max < 18446744073709551616 -> elem_ok fuel (fmap VNat (dec_uint max)) (ts_uint max).
Proof.
  intros Hm e r p L Hw HL _ _. unfold ts_uint, ts_int, int_value, in_range.
  destruct e; try (cbn [ts_map sem_agrees]; apply fmap_is_err; first_byte Hw; apply dec_uint_ge28; lia).
  - cbn [wf ser] in *. pose proof (dec_uint_uint max w n r p L Hw HL) as E.
    destruct (Z.leb_spec 0 (Z.of_N n)); [|lia]. cbn [andb].
    destruct (N.leb_spec n max).
    + destruct (Z.leb_spec (Z.of_N n) (Z.of_N max)); [|lia]. cbn [ts_map sem_agrees].
      rewrite N2Z.id. now apply fmap_ok.
    + destruct (Z.leb_spec (Z.of_N n) (Z.of_N max)); [lia|]. cbn [ts_map sem_agrees].
      apply fmap_is_err. eexists _, _. exact E.
  - destruct (Z.leb_spec 0 (-1 - Z.of_N n)); [lia|]. cbn [andb ts_map sem_agrees].
    apply fmap_is_err. first_byte Hw. apply dec_uint_ge28. lia.
Qed.

Lemma sint_sem fuel max : elem_ok fuel (fmap VInt (dec_sint max)) (ts_sint max).
Proof.
  intros e r p L Hw HL _ _. unfold ts_sint, ts_int, int_value, in_range.
  destruct e; try (cbn [ts_map sem_agrees]; apply fmap_is_err; first_byte Hw; apply dec_sint_ge60; lia).
  - cbn [wf ser] in *. pose proof (dec_sint_uint max w n r p L Hw HL) as E.
    destruct (Z.leb_spec (-1 - Z.of_N max) (Z.of_N n)); [|lia]. cbn [andb].
    destruct (N.leb_spec n max).
    + destruct (Z.leb_spec (Z.of_N n) (Z.of_N max)); [|lia]. cbn [ts_map sem_agrees]. now apply fmap_ok.
    + destruct (Z.leb_spec (Z.of_N n) (Z.of_N max)); [lia|]. cbn [ts_map sem_agrees].
      apply fmap_is_err. eexists _, _. exact E.
  - cbn [wf ser] in *. pose proof (dec_sint_nint max w n r p L Hw HL) as E.
    destruct (Z.leb_spec (-1 - Z.of_N n) (Z.of_N max)); [|lia]. rewrite andb_true_r.
    destruct (N.leb_spec n max).
    + destruct (Z.leb_spec (-1 - Z.of_N max) (-1 - Z.of_N n)); [|lia]. cbn [ts_map sem_agrees]. now apply fmap_ok.
    + destruct (Z.leb_spec (-1 - Z.of_N max) (-1 - Z.of_N n)); [lia|]. cbn [ts_map sem_agrees].
      apply fmap_is_err. eexists _, _. exact E.
Qed.

Lemma int_sem fuel :
  elem_ok fuel (fmap (fun p : bool * N => VInt (if fst p then (-1 - Z.of_N (snd p))%Z else Z.of_N (snd p))) dec_int)
          (fun e => ts_map VInt (ts_int (-18446744073709551616) 18446744073709551615 e)).
Proof.
  intros e r p L Hw HL _ _. unfold ts_int, int_value, in_range.
  destruct e; try (cbn [ts_map sem_agrees]; apply fmap_is_err; first_byte Hw; apply dec_int_ge60; lia).
  - cbn [wf ser] in *. pose proof (fits_lt64 _ _ Hw).
    destruct (Z.leb_spec (-18446744073709551616) (Z.of_N n)); [|lia].
    destruct (Z.leb_spec (Z.of_N n) 18446744073709551615); [|lia]. cbn [andb ts_map sem_agrees].
    erewrite fmap_ok by (now apply dec_int_uint). reflexivity.
  - cbn [wf ser] in *. pose proof (fits_lt64 _ _ Hw).
    destruct (Z.leb_spec (-18446744073709551616) (-1 - Z.of_N n)); [|lia].
    destruct (Z.leb_spec (-1 - Z.of_N n) 18446744073709551615); [|lia]. cbn [andb ts_map sem_agrees].
    erewrite fmap_ok by (now apply dec_int_nint). reflexivity.
Qed.

(* NonZero*: the integer, 0 refused *)
Lemma fmap_ok_inv {A B} (g : A -> B) (m : M A) s b s' : fmap g m s = (Ok b, s') -> exists a, m s = (Ok a, s') /\ b = g a.
Proof.
  unfold fmap, bind, ret. destruct (m s) as [[a| | |] s'']; intro H; try discriminate.
  injection H as <- <-. eauto.
Qed.
Lemma fmap_is_err_inv {A B} (g : A -> B) (m : M A) s : is_err (fmap g m s) -> is_err (m s).
Proof.
  unfold fmap, bind, ret. intros (x & s' & H). destruct (m s) as [[a| | |] s'']; try discriminate.
  eexists _, _. reflexivity.
Qed.

Lemma nzu_sem fuel max : max < 18446744073709551616 ->
  elem_ok fuel (n <- dec_uint max ;; if n =? 0 then fail Message else ret (VNat n)) (fun e => ts_nonzero (ts_uint max e)).
Proof.
  intros Hm e r p L Hw HL H64 Hf. pose proof (uint_sem fuel max Hm e r p L Hw HL H64 Hf) as H.
  destruct (ts_uint max e) as [v| |] eqn:E; cbn [sem_agrees ts_nonzero ts_bind] in *.
  - apply fmap_ok_inv in H as (n & H & ->). rewrite (bind_ok _ _ _ _ _ H).
    destruct (n =? 0); cbn [sem_agrees]; [apply is_err_fail|reflexivity].
  - apply bind_is_err. now apply fmap_is_err_inv in H.
  - exact I.
Qed.

Lemma nzi_sem fuel max :
  elem_ok fuel (z <- dec_sint max ;; if (z =? 0)%Z then fail Message else ret (VInt z)) (fun e => ts_nonzero (ts_sint max e)).
Proof.
  intros e r p L Hw HL H64 Hf. pose proof (sint_sem fuel max e r p L Hw HL H64 Hf) as H.
  destruct (ts_sint max e) as [v| |] eqn:E; cbn [sem_agrees ts_nonzero ts_bind] in *.
  - apply fmap_ok_inv in H as (n & H & ->). rewrite (bind_ok _ _ _ _ _ H).
    destruct (n =? 0)%Z; cbn [sem_agrees]; [apply is_err_fail|reflexivity].
  - apply bind_is_err. now apply fmap_is_err_inv in H.
  - exact I.
Qed.

(* ---- bool, char, floats ---- *)
Lemma bool_sem fuel alloc : elem_ok fuel (fmap VBool dec_bool) (sem_ty alloc TyBool).
Proof.
  intros e r p L Hw HL _ _. cbn [sem_ty].
  destruct e; try (cbn [sem_agrees]; apply fmap_is_err; first_byte Hw; apply dec_bool_rej; lia).
  cbn [wf ser] in *.
  destruct (N.eqb_spec n 20) as [->|N20]; [reflexivity|].
  destruct (N.eqb_spec n 21) as [->|N21]; [reflexivity|].
  cbn [sem_agrees]. apply fmap_is_err. destruct (N.ltb_spec n 24); cbn [app]; apply dec_bool_rej; lia.
Qed.

Lemma char_sem fuel alloc : elem_ok fuel (fmap VNat dec_char) (sem_ty alloc TyChar).
Proof.
  intros e r p L Hw HL _ _. cbn [sem_ty].
  destruct e; try (cbn [sem_agrees]; apply fmap_is_err; first_byte Hw; apply dec_char_rej; lia).
  cbn [wf ser] in *. pose proof (dec_uint_uint 4294967295 w n r p L Hw HL) as E.
  destruct (is_scalar n) eqn:Hs; cbn [sem_agrees].
  - apply fmap_ok. unfold dec_char, dec_u32.
    apply is_scalar_u32 in Hs as Hn. destruct (N.leb_spec n 4294967295); [|lia].
    rewrite (bind_ok _ _ _ _ _ E). now rewrite Hs.
  - apply fmap_is_err. unfold dec_char, dec_u32. destruct (n <=? 4294967295).
    + rewrite (bind_ok _ _ _ _ _ E). rewrite Hs. eexists _, _. reflexivity.
    + apply bind_is_err. eexists _, _. exact E.
Qed.

Lemma f32_sem fuel alloc c : elem_ok fuel (fmap VFloat (dec_f32 c)) (sem_ty alloc TyF32).
Proof.
  intros e r p L Hw HL _ _. cbn [sem_ty].
  destruct e; try exact I; try (cbn [sem_agrees]; apply fmap_is_err; first_byte Hw; apply dec_f32_rej; lia).
  cbn [wf ser sem_agrees] in *. apply N.ltb_lt in Hw. change (len (250 :: be 4 bits)) with 5 in *.
  apply fmap_ok. now apply dec_f32_ok.
Qed.

Lemma f64_sem fuel alloc c : elem_ok fuel (fmap VFloat (dec_f64 c)) (sem_ty alloc TyF64).
Proof.
  intros e r p L Hw HL _ _. cbn [sem_ty].
  destruct e; try exact I; try (cbn [sem_agrees]; apply fmap_is_err; first_byte Hw; apply dec_f64_rej; lia).
  cbn [wf ser sem_agrees] in *. apply N.ltb_lt in Hw. change (len (251 :: be 8 bits)) with 9 in *.
  apply fmap_ok. now apply dec_f64_ok.
Qed.

(* ---- strings ---- *)
Lemma str_sem fuel alloc : elem_ok fuel (fmap VBlob dec_str) (sem_ty alloc TyStr).
Proof.
  intros e r p L Hw HL _ _. cbn [sem_ty].
  destruct e; try (cbn [sem_agrees]; apply fmap_is_err; first_byte Hw; apply dec_str_rej; lia).
  cbn [wf ser] in *. apply andb_prop in Hw as [Hf _].
  pose proof (dec_str_spec w b r p L Hf HL) as E.
  destruct (utf8_valid b); cbn [sem_agrees]; [now apply fmap_ok|apply fmap_is_err; eexists _, _; exact E].
Qed.

Lemma bytes_sem fuel alloc : elem_ok fuel (fmap VBlob dec_bytes) (sem_ty alloc TyBytes).
Proof.
  intros e r p L Hw HL _ _. cbn [sem_ty].
  destruct e; try (cbn [sem_agrees]; apply fmap_is_err; first_byte Hw; apply dec_bytes_rej; lia).
  cbn [wf ser sem_agrees] in *. apply andb_prop in Hw as [Hf _]. apply fmap_ok. now apply dec_bytes_ok.
Qed.

Lemma bytearr_sem fuel alloc n :
  elem_ok fuel (b <- dec_bytes ;; if len b =? n then ret (VBlob b) else fail Message) (sem_ty alloc (TyByteArr n)).
Proof.
  intros e r p L Hw HL _ _. cbn [sem_ty].
  destruct e; try (cbn [sem_agrees]; apply bind_is_err; first_byte Hw; apply dec_bytes_rej; lia).
  cbn [wf ser] in *. apply andb_prop in Hw as [Hf _].
  rewrite (bind_ok _ _ _ _ _ (dec_bytes_ok w b r p L Hf HL)).
  destruct (len b =? n); cbn [sem_agrees]; [reflexivity|apply is_err_fail].
Qed.

Lemma no_nul_cons x r : no_nul (x :: r) = negb (x =? 0) && no_nul r.
Proof. reflexivity. Qed.

Lemma cstr_of_snoc (b : bytes) z : cstr_of (b ++ [z]) = if (z =? 0) && no_nul b then Some b else None.
Proof.
  unfold cstr_of. rewrite rev_app_distr. cbn [rev app].
  replace (no_nul (rev b)) with (no_nul b).
  - now rewrite rev_involutive.
  - induction b as [|x b IH]; [reflexivity|]. cbn [rev]. rewrite no_nul_cons.
    assert (G: forall a c, no_nul (a ++ c) = no_nul a && no_nul c).
    { induction a as [|y a IHa]; intro c0; cbn [app]; [reflexivity|]. rewrite !no_nul_cons, IHa. now rewrite andb_assoc. }
    rewrite G, <- IH. cbn [no_nul]. rewrite andb_true_r. apply andb_comm.
Qed.

Lemma strip_nul_spec b : strip_nul b = cstr_of b.
Proof.
  induction b as [|z r IH]; [reflexivity|].
  cbn [strip_nul]. destruct r as [|y r'].
  - change [z] with ([] ++ [z]). rewrite cstr_of_snoc. cbn [no_nul]. now rewrite andb_true_r.
  - rewrite IH. clear IH.
    destruct (@exists_last _ (y :: r') ltac:(discriminate)) as (m & l & E). rewrite E.
    change (z :: m ++ [l]) with ((z :: m) ++ [l]). rewrite !cstr_of_snoc, no_nul_cons.
    destruct (N.eqb_spec z 0); cbn [negb andb].
    + now rewrite andb_false_r.
    + destruct ((l =? 0) && no_nul m); reflexivity.
Qed.

Lemma cstr_sem fuel alloc :
  elem_ok fuel (b <- dec_bytes ;; match cstr_of b with Some x => ret (VBlob x) | None => fail Message end) (sem_ty alloc TyCStr).
Proof.
  intros e r p L Hw HL _ _. cbn [sem_ty].
  destruct e; try (cbn [sem_agrees]; apply bind_is_err; first_byte Hw; apply dec_bytes_rej; lia).
  cbn [wf ser] in *. apply andb_prop in Hw as [Hf _].
  rewrite (bind_ok _ _ _ _ _ (dec_bytes_ok w b r p L Hf HL)). rewrite strip_nul_spec.
  destruct (cstr_of b); cbn [sem_agrees]; [reflexivity|apply is_err_fail].
Qed.

(* ---- array / map / tag heads ---- *)
Lemma array_head_def w es r p L : wf (EArray w es) = true -> p + len (ser (EArray w es)) <= L ->
  dec_array (mkdst p (ser (EArray w es) ++ r) L)
  = (Ok (Some (len es)), mkdst (p + len (Cbor.head 4 w (len es))) (flat_map ser es ++ r) L).
Proof.
  cbn [wf ser]. intros Hw HL. apply andb_prop in Hw as [Hf _]. rewrite len_app in HL. rewrite <- app_assoc.
  apply (dec_container_def 4); [assumption|lia].
Qed.

Lemma array_head_indef es r p L :
  dec_array (mkdst p (ser (EArrayI es) ++ r) L) = (Ok None, mkdst (p + 1) (flat_map ser es ++ 255 :: r) L).
Proof. cbn [ser app]. rewrite <- app_assoc. reflexivity. Qed.

Lemma map_head_def w es r p L : wf (EMap w es) = true -> p + len (ser (EMap w es)) <= L ->
  dec_map (mkdst p (ser (EMap w es) ++ r) L)
  = (Ok (Some (len es / 2)), mkdst (p + len (Cbor.head 5 w (len es / 2))) (flat_map ser es ++ r) L).
Proof.
  cbn [wf ser]. intros Hw HL. apply andb_prop in Hw as [Hw _]. apply andb_prop in Hw as [_ Hf].
  rewrite len_app in HL. rewrite <- app_assoc. apply (dec_container_def 5); [assumption|lia].
Qed.

Lemma map_head_indef es r p L :
  dec_map (mkdst p (ser (EMapI es) ++ r) L) = (Ok None, mkdst (p + 1) (flat_map ser es ++ 255 :: r) L).
Proof. cbn [ser app]. rewrite <- app_assoc. reflexivity. Qed.

(* anything that is not an array is refused by array() *)
Lemma array_rej e r p L : wf e = true -> array_elems e = None -> is_err (dec_array (mkdst p (ser e ++ r) L)).
Proof.
  intros Hw Ha. destruct e; try discriminate Ha; first_byte Hw; (apply dec_container_rej; [reflexivity|lia]).
Qed.

Lemma map_rej e r p L : wf e = true -> map_elems e = None -> is_err (dec_map (mkdst p (ser e ++ r) L)).
Proof.
  intros Hw Ha. destruct e; try discriminate Ha; first_byte Hw; (apply dec_container_rej; [reflexivity|lia]).
Qed.

Lemma tag_rej e r p L : wf e = true -> (forall w n x, e <> ETag w n x) -> is_err (dec_tag (mkdst p (ser e ++ r) L)).
Proof.
  intros Hw Ha. destruct e; try (exfalso; eapply Ha; reflexivity); first_byte Hw; apply dec_tag_rej; lia.
Qed.

Lemma tag_head w n x r p L : wf (ETag w n x) = true -> p + len (ser (ETag w n x)) <= L ->
  dec_tag (mkdst p (ser (ETag w n x) ++ r) L) = (Ok n, mkdst (p + len (Cbor.head 6 w n)) (ser x ++ r) L).
Proof.
  cbn [wf ser]. intros Hw HL. apply andb_prop in Hw as [Hf _]. rewrite len_app in HL. rewrite <- app_assoc.
  apply dec_tag_ok; [assumption|lia].
Qed.

(* () / PhantomData *)
Lemma unit_sem fuel alloc :
  elem_ok fuel (r <- dec_array ;; if opt_eqb r 0 then ret VUnit else fail Message) (sem_ty alloc TyUnit).
Proof.
  intros e r p L Hw HL _ _. cbn [sem_ty].
  destruct e; try (cbn [sem_agrees]; apply bind_is_err; apply array_rej; [assumption|reflexivity]).
  - rewrite (bind_ok _ _ _ _ _ (array_head_def w es r p L Hw HL)). cbn [opt_eqb].
    destruct es as [|x es]; cbn [sem_agrees].
    + change (len []) with 0. cbn [flat_map app ser]. rewrite app_nil_r. reflexivity.
    + rewrite len_cons. destruct (N.eqb_spec (1 + len es) 0); [lia|]. apply is_err_fail.
  - rewrite (bind_ok _ _ _ _ _ (array_head_indef es r p L)). cbn [opt_eqb sem_agrees]. apply is_err_fail.
Qed.
