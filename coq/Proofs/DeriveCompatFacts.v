(* Proofs/DeriveCompatFacts.v — a reader version decoding what a writer version encoded (C10). *)
From MC Require Import Bytes BytesFacts Monad Cbor Utf8 Half Decoder Encoder EncoderFacts DecoderFacts IntFacts Types
  DeriveSchema DeriveEnc DeriveLen DeriveDec DeriveDoc DeriveKnown DeriveCompat DeriveFacts DeriveLenFacts DeriveDocFacts DeriveInvFacts DeriveDecFacts.
From Coq Require Import Lia Permutation.
Local Open Scope N_scope.

(* skip() consumes exactly b, whatever follows *)
Definition skippable (c : cfg) (b : bytes) : Prop :=
  forall r p L, L < two64 -> p + len b <= L -> skip_auto c (mkdst p (b ++ r) L) = (Ok tt, mkdst (p + len b) r L).

(* what a field action leaves in a slot: a decoded value, or — unknown variant handled — the slot as it was *)
Definition upd (q : pfield) (o : option value) : option value := match o with Some m => Some m | None => init_slot q end.

Lemma find_field_in l i : forall k0 k q, find_field l i k0 = Some (k, q) -> In q l /\ pf_idx q = i.
Proof.
  induction l as [|x r IH]; intros k0 k q; cbn [find_field]; [discriminate|].
  destruct (N.eqb_spec (pf_idx x) i); [intros [= <- <-]; split; [now left|assumption]|].
  intro H. apply IH in H as [H1 H2]. split; [now right|assumption].
Qed.

Section Body2.
Variable c : cfg.
Variable recE : nat -> value -> option (list chunk).     (* the writer's nested encoders *)
Variable recD : nat -> nat -> M value.                    (* the reader's nested decoders *)
Variable F : nat.
Variable sR : list pfield.                                (* the reader's sorted fields *)
Variable vsW : list value.                                (* the writer's values *)
Variable tgt : pfield -> option value.                    (* what each reader slot ends up holding once its position / key was met *)
Hypothesis HascR : asc pf_idx 0 sR.

Definition slots2 (done : pfield -> bool) : slots := map (fun q => if done q then tgt q else init_slot q) sR.

Lemma slots2_ext f g : (forall q, In q sR -> f q = g q) -> slots2 f = slots2 g.
Proof. intro H. apply map_ext_in. intros q Hq. now rewrite H. Qed.

(* the reader's view of one item written for index i: read by its field with that index, or skipped *)
Definition reads_item (i : N) (b : bytes) : Prop :=
  match find_field sR i 0 with
  | Some (_, q) => exists o, reads_f (field_action c recD (pf_fld q)) b o /\ tgt q = upd q o
  | None => skippable c b
  end.

Lemma step2 i b done : reads_item i b ->
  forall r p L, (length (b ++ r) < F)%nat -> L < two64 -> p + len b <= L ->
  step_at c recD sR F i (slots2 done) (mkdst p (b ++ r) L)
  = (Ok (slots2 (fun q => (pf_idx q =? i) || done q)), mkdst (p + len b) r L).
Proof.
  unfold reads_item, step_at. intros Hi r p L HF HL Hp. pose proof (asc_nodup pf_idx 0 sR HascR) as Hnd.
  destruct (find_field sR i 0) as [[k q]|] eqn:Ef.
  - destruct Hi as (o & Hrd & Ht).
    destruct (find_field_set (fun q0 => if done q0 then tgt q0 else init_slot q0) (tgt q) i sR 0%nat k q Hnd Ef) as (_ & Hqi & Hq & Hset).
    rewrite (bind_ok _ _ _ _ _ (Hrd F r p L HF HL Hp)). unfold ret. f_equal. f_equal. rewrite Nat.sub_0_r in Hset.
    assert (Hext : forall a, In a sR -> (if pf_idx a =? i then tgt q else if done a then tgt a else init_slot a)
                                       = (if (pf_idx a =? i) || done a then tgt a else init_slot a)).
    { intros a Ha. destruct (N.eqb_spec (pf_idx a) i) as [E|E]; cbn [orb]; [|reflexivity].
      assert (a = q) by (eapply nodup_key_eq; [exact Hnd| | |]; [assumption|assumption|lia]). now subst a. }
    destruct o as [m|]; cbn [upd] in Ht.
    + unfold slots2 at 1. rewrite <- Ht, Hset. now apply map_ext_in.
    + (* the slot stays as it was: it still holds its initial content, which is the target *)
      unfold slots2. apply map_ext_in. intros a Ha. destruct (N.eqb_spec (pf_idx a) i) as [E|E]; cbn [orb]; [|reflexivity].
      assert (a = q) by (eapply nodup_key_eq; [exact Hnd| | |]; [assumption|assumption|lia]). subst a.
      rewrite Ht. destruct (done q); reflexivity.
  - rewrite (bind_ok _ _ _ _ _ (Hi r p L HL Hp)). unfold ret. f_equal. f_equal. apply slots2_ext. intros a Ha.
    destruct (N.eqb_spec (pf_idx a) i) as [E|E]; cbn [orb]; [|reflexivity].
    exfalso. pose proof (find_field_none sR i 0%nat) as Hn. destruct (find_field_some sR i 0%nat a Ha E) as (k & q & Hq). congruence.
Qed.

Lemma loop_gap2 : forall k p n fuelL r pos L,
  (forall j, p <= j -> j < p + N.of_nat k -> reads_item j [246]) ->
  (k + length r < F)%nat -> L < two64 -> pos + N.of_nat k <= L ->
  loop_n (step_at c recD sR F) p (N.of_nat k + n) (k + fuelL) (slots2 (fun q => pf_idx q <? p)) (mkdst pos (flat (nulls (N.of_nat k)) ++ r) L)
  = loop_n (step_at c recD sR F) (p + N.of_nat k) n fuelL (slots2 (fun q => pf_idx q <? p + N.of_nat k)) (mkdst (pos + N.of_nat k) r L).
Proof.
  induction k as [|k IH]; intros p n fuelL r pos L Hgap HF HL Hp.
  - cbn [Nat.add N.of_nat]. change (flat (nulls 0)) with (@nil N). cbn [app]. now rewrite !N.add_0_r, N.add_0_l.
  - rewrite flat_nulls_S. cbn [app Nat.add]. rewrite loop_n_S by lia.
    assert (Elen : length (flat (nulls (N.of_nat k))) = k).
    { apply Nat2N.inj. fold (len (flat (nulls (N.of_nat k)))). now rewrite len_nulls. }
    assert (HF1 : (length ([246%N] ++ flat (nulls (N.of_nat k)) ++ r) < F)%nat) by (cbn [app length]; rewrite app_length, Elen; lia).
    assert (Hp1 : pos + len [246] <= L) by (change (len [246]) with 1; lia).
    change (246 :: flat (nulls (N.of_nat k)) ++ r) with ([246] ++ flat (nulls (N.of_nat k)) ++ r).
    rewrite (bind_ok _ _ _ _ _ (step2 p [246] _ (Hgap p (N.le_refl p) ltac:(lia)) _ pos L HF1 HL Hp1)).
    replace (N.pred (N.of_nat (S k) + n)) with (N.of_nat k + n) by lia.
    rewrite (slots2_ext _ (fun q => pf_idx q <? p + 1)).
    2:{ intros q _. destruct (N.eqb_spec (pf_idx q) p), (N.ltb_spec (pf_idx q) p), (N.ltb_spec (pf_idx q) (p + 1)); cbn [orb]; try reflexivity; lia. }
    change (len [246]) with 1.
    rewrite IH; [|intros j H1 H2; apply Hgap; lia|lia|assumption|lia].
    f_equal; [lia| |f_equal; lia]. apply slots2_ext. intros q _. f_equal. lia.
Qed.

Variable LW : list pfield.                                (* the writer's sorted fields *)

Lemma arr_loop2 i : forall l p cs,
  asc pf_idx p l -> (forall q, In q l -> In q LW) -> (forall q, In q LW -> p <= pf_idx q -> In q l) ->
  p <= i + 1 -> ((exists pf, In pf l /\ pf_idx pf = i) \/ i + 1 <= p) ->
  (forall pf z, In pf l -> pf_idx pf <= i -> enc_field_fn recE (pf_fld pf) (pf_val vsW pf) = Some z ->
     flat z <> [] /\ reads_item (pf_idx pf) (flat (enc_tag_opt (f_tag (pf_fld pf)) ++ z))) ->
  (forall j, j <= i -> (forall q, In q LW -> pf_idx q <> j) -> reads_item j [246]) ->
  arr_stmts recE l vsW p i = Some cs ->
  i + 1 - p <= len (flat cs) /\
  forall fuelL r pos L, (length (flat cs ++ r) < F)%nat -> (length (flat cs ++ r) < fuelL)%nat -> L < two64 -> pos + len (flat cs) <= L ->
    loop_n (step_at c recD sR F) p (i + 1 - p) fuelL (slots2 (fun q => pf_idx q <? p)) (mkdst pos (flat cs ++ r) L)
    = (Ok (slots2 (fun q => pf_idx q <? i + 1)), mkdst (pos + len (flat cs)) r L).
Proof.
  induction l as [|pf l' IH]; intros p cs Hasc Hsub Hsup Hp Hlast Hitem Hgapi; cbn [arr_stmts].
  - intros [= <-]. destruct Hlast as [(q & [] & _)|Hp']. assert (p = i + 1) by lia. subst p.
    split; [change (len (flat [])) with 0; lia|]. intros fuelL r pos L _ _ _ _. rewrite N.sub_diag, loop_n_0.
    cbn [flat concat app]. change (len []) with 0. now rewrite N.add_0_r.
  - intro HH. apply ocat_some in HH as (x & y & Hx & Hy & ->). cbn [asc] in Hasc. destruct Hasc as [Hpp Hasc].
    assert (Hsub' : forall q, In q l' -> In q LW) by (intros; apply Hsub; now right).
    assert (Hsup' : forall q, In q LW -> pf_idx pf + 1 <= pf_idx q -> In q l').
    { intros q Hq Hqi. destruct (Hsup q Hq ltac:(lia)) as [<-|Hin]; [lia|assumption]. }
    destruct (N.leb_spec (pf_idx pf) i) as [Hi|Hi].
    + apply ocat3_some in Hx as (z & Hz & ->).
      assert (Hlast' : (exists q, In q l' /\ pf_idx q = i) \/ i + 1 <= pf_idx pf + 1).
      { destruct Hlast as [(q & [<-|Hq] & Hqi)|Hp']; [right; lia|left; eauto|right; lia]. }
      assert (Hp1 : pf_idx pf + 1 <= i + 1) by lia.
      destruct (IH (pf_idx pf + 1) y Hasc Hsub' Hsup' Hp1 Hlast' (fun q w Hq => Hitem q w (or_intror Hq)) Hgapi Hy) as [Hley IHl].
      destruct (Hitem pf z (or_introl eq_refl) Hi Hz) as [Hne Hio].
      pose proof (nonempty_len _ Hne) as Hz1.
      split; [rewrite !len_flat_app, len_nulls; lia|].
      intros fuelL r pos L HF Hfl HL Hpos.
      set (k := N.to_nat (pf_idx pf - p)).
      assert (Ek : pf_idx pf - p = N.of_nat k) by (unfold k; lia).
      set (TZ := enc_tag_opt (f_tag (pf_fld pf)) ++ z) in *.
      assert (Ecs : flat (((nulls (pf_idx pf - p) ++ enc_tag_opt (f_tag (pf_fld pf))) ++ z) ++ y) = flat (nulls (N.of_nat k)) ++ flat TZ ++ flat y).
      { unfold TZ. rewrite Ek, !flat_app, <- !app_assoc. reflexivity. }
      rewrite Ecs in *. clear Ecs.
      assert (Elen : length (flat (nulls (N.of_nat k))) = k).
      { apply Nat2N.inj. fold (len (flat (nulls (N.of_nat k)))). now rewrite len_nulls. }
      assert (Elen' : len (flat (nulls (N.of_nat k))) = N.of_nat k) by apply len_nulls.
      rewrite <- !app_assoc in *. rewrite !len_app, Elen' in Hpos. rewrite !app_length, Elen in HF, Hfl.
      replace (i + 1 - p) with (N.of_nat k + (1 + (i + 1 - (pf_idx pf + 1)))) by lia.
      replace fuelL with (k + (fuelL - k))%nat by lia.
      rewrite loop_gap2; [| |rewrite !app_length; lia|assumption|lia].
      2:{ intros j H1 H2. apply Hgapi; [lia|]. intros q Hq E. assert (In q (pf :: l')) as [<-|Hql] by (apply Hsup; [assumption|lia]); [lia|].
          pose proof (asc_keys_ge pf_idx _ _ _ Hasc Hql). lia. }
      replace (p + N.of_nat k) with (pf_idx pf) by lia.
      destruct (fuelL - k)%nat as [|fuel'] eqn:Ef; [lia|].
      rewrite loop_n_S by lia.
      assert (HF1 : (length (flat TZ ++ flat y ++ r) < F)%nat) by (rewrite !app_length; lia).
      assert (Hp1' : pos + N.of_nat k + len (flat TZ) <= L) by lia.
      rewrite (bind_ok _ _ _ _ _ (step2 (pf_idx pf) (flat TZ) _ Hio (flat y ++ r) (pos + N.of_nat k) L HF1 HL Hp1')).
      replace (N.pred (1 + (i + 1 - (pf_idx pf + 1)))) with (i + 1 - (pf_idx pf + 1)) by lia.
      rewrite (slots2_ext _ (fun q => pf_idx q <? pf_idx pf + 1)).
      2:{ intros q _. destruct (N.eqb_spec (pf_idx q) (pf_idx pf)), (N.ltb_spec (pf_idx q) (pf_idx pf)), (N.ltb_spec (pf_idx q) (pf_idx pf + 1)); cbn [orb]; try reflexivity; lia. }
      assert (HTZ : (1 <= length (flat TZ))%nat).
      { unfold TZ. rewrite flat_app, app_length. destruct (flat z); [congruence|cbn [length]; lia]. }
      unfold TZ in *. clear TZ.
      rewrite IHl; [|rewrite !app_length; lia|rewrite !app_length; lia|assumption|lia].
      f_equal. f_equal. rewrite !len_app, Elen'. lia.
    + injection Hx as <-. cbn [app].
      assert (Hp' : p = i + 1).
      { destruct Hlast as [(q & [<-|Hq] & Hqi)|Hp']; [lia| |lia]. pose proof (asc_keys_ge pf_idx _ _ _ Hasc Hq). lia. }
      subst p. assert (Hi' : i < pf_idx pf + 1) by lia.
      assert (y = []) by (apply (arr_stmts_beyond recE vsW i l' (pf_idx pf + 1) y Hasc Hi' Hy)). subst y.
      split; [change (len (flat [])) with 0; lia|]. intros fuelL r pos L _ _ _ _. rewrite N.sub_diag, loop_n_0.
      cbn [flat concat app]. change (len []) with 0. now rewrite N.add_0_r.
Qed.

Definition wrote (l : list pfield) (q : pfield) : bool :=
  existsb (fun w => (pf_idx w =? pf_idx q) && negb (nilp vsW w)) l.

Lemma map_loop2 : forall l cs,
  (forall pf z, In pf l -> nilp vsW pf = false -> enc_field_fn recE (pf_fld pf) (pf_val vsW pf) = Some z ->
     pf_idx pf < 4294967296 /\ flat z <> [] /\ reads_item (pf_idx pf) (flat (enc_tag_opt (f_tag (pf_fld pf)) ++ z))) ->
  enc_map_stmts recE l vsW = Some cs ->
  cnt vsW l <= len (flat cs) /\
  forall j done fuelL r pos L, (length (flat cs ++ r) < F)%nat -> (length (flat cs ++ r) < fuelL)%nat -> L < two64 -> pos + len (flat cs) <= L ->
    loop_n (step_map c recD sR F) j (cnt vsW l) fuelL (slots2 done) (mkdst pos (flat cs ++ r) L)
    = (Ok (slots2 (fun q => done q || wrote l q)), mkdst (pos + len (flat cs)) r L).
Proof.
  induction l as [|pf l' IH]; intros cs Hitem; cbn [enc_map_stmts].
  - intros [= <-]. split; [apply N.le_refl|]. intros j done fuelL r pos L _ _ _ _. unfold cnt. cbn [filter]. change (len []) with 0. rewrite loop_n_0.
    cbn [flat concat app]. change (len []) with 0. rewrite N.add_0_r. f_equal. f_equal. apply slots2_ext. intros q _. cbn [wrote existsb]. now rewrite orb_false_r.
  - intro HH. apply ocat_some in HH as (x & y & Hx & Hy & ->).
    destruct (IH y (fun q w Hq => Hitem q w (or_intror Hq)) Hy) as [Hley IHl].
    unfold cnt in *. cbn [filter]. fold (nilp vsW pf) in Hx. destruct (nilp vsW pf) eqn:En; cbn [negb].
    + injection Hx as <-. cbn [app]. split; [assumption|].
      intros j done fuelL r pos L HF Hfl HL Hpos. rewrite IHl by assumption. f_equal. f_equal. apply slots2_ext. intros q _.
      unfold wrote. cbn [existsb]. rewrite En. cbn [negb]. now rewrite andb_false_r.
    + apply ocat3_some in Hx as (z & Hz & ->).
      destruct (Hitem pf z (or_introl eq_refl) En Hz) as (Hidx & Hne & Hio).
      pose proof (nonempty_len _ Hne) as Hz1.
      rewrite len_cons. split; [rewrite !len_flat_app; lia|].
      intros j done fuelL r pos L HF Hfl HL Hpos.
      set (TZ := enc_tag_opt (f_tag (pf_fld pf)) ++ z) in *.
      assert (Ecs : flat (((enc_u32 (pf_idx pf) ++ enc_tag_opt (f_tag (pf_fld pf))) ++ z) ++ y) = flat (enc_u32 (pf_idx pf)) ++ flat TZ ++ flat y).
      { unfold TZ. rewrite !flat_app, <- !app_assoc. reflexivity. }
      rewrite Ecs in *. clear Ecs. rewrite <- !app_assoc in *. rewrite !len_app in Hpos. rewrite !app_length in HF, Hfl.
      destruct fuelL as [|fuel']; [lia|]. rewrite loop_n_S by lia. unfold step_map at 1.
      assert (Hp1 : pos + len (flat (enc_u32 (pf_idx pf))) <= L) by lia.
      rewrite (bind_bind_ok _ _ _ _ _ _ (dec_u32_enc (pf_idx pf) (flat TZ ++ flat y ++ r) pos L Hidx Hp1)).
      assert (HF1 : (length (flat TZ ++ flat y ++ r) < F)%nat) by (rewrite !app_length; lia).
      assert (Hp2 : pos + len (flat (enc_u32 (pf_idx pf))) + len (flat TZ) <= L) by lia.
      rewrite (bind_ok _ _ _ _ _ (step2 (pf_idx pf) (flat TZ) done Hio (flat y ++ r) _ L HF1 HL Hp2)).
      match goal with |- context [N.pred (1 + ?a)] => replace (N.pred (1 + a)) with a by lia end.
      assert (HTZ : (1 <= length (flat TZ))%nat).
      { unfold TZ. rewrite flat_app, app_length. destruct (flat z); [congruence|cbn [length]; lia]. }
      unfold TZ in *. clear TZ.
      rewrite IHl; [|rewrite !app_length; lia|rewrite !app_length; lia|assumption|lia].
      f_equal; [|f_equal; rewrite !len_app; lia]. f_equal. apply slots2_ext. intros q _.
      unfold wrote. cbn [existsb]. rewrite En. cbn [negb]. rewrite andb_true_r, (N.eqb_sym (pf_idx pf) (pf_idx q)).
      destruct (pf_idx q =? pf_idx pf), (done q); reflexivity.
Qed.
End Body2.

(* ---- after the loop ---- *)
Fixpoint assemble_vals (fs : list field) (p : nat) (rv : pfield -> value) : list value :=
  match fs with
  | [] => []
  | f :: r => (if f_skip f then match default_fty (f_ty f) with Some dv => dv | None => VUnit end else rv (mkpf p f))
              :: assemble_vals r (S p) rv
  end.

Lemma assemble_vals_ok filled rv : forall fs' p0,
  (forall k f, nth_error fs' k = Some f -> f_skip f = false -> lookup_pos filled (p0 + k) = Some (rv (mkpf (p0 + k) f))) ->
  assemble fs' p0 filled = assemble_vals fs' p0 rv.
Proof.
  induction fs' as [|f fr IH]; intros p0 Hlk; cbn [assemble assemble_vals]; [reflexivity|]. f_equal.
  - destruct (f_skip f) eqn:Es; [reflexivity|]. specialize (Hlk 0%nat f eq_refl Es). rewrite Nat.add_0_r in Hlk. now rewrite Hlk.
  - apply IH. intros k g Hk Hs. specialize (Hlk (S k) g Hk Hs). replace (S p0 + k)%nat with (p0 + S k)%nat by lia. exact Hlk.
Qed.

Lemma resolve_gen (named : bool) fs (h : pfield -> option value) (rv : pfield -> value) s :
  (forall q, In q (sorted_fields fs) -> resolve_slot q (h q) = Datatypes.inl (rv q)) ->
  resolve named fs (sorted_fields fs) (map h (sorted_fields fs)) s = (Ok (assemble_vals fs 0 rv), s).
Proof.
  intro Hres. unfold resolve. rewrite combine_map_r.
  set (filled := map (fun q => (q, h q)) (sorted_fields fs)).
  assert (Hall : forall q sl, In (q, sl) filled -> exists v, resolve_slot q sl = Datatypes.inl v).
  { intros q sl Hin. unfold filled in Hin. apply in_map_iff in Hin as (q' & [= <- <-] & Hq). eexists. now apply Hres. }
  rewrite first_missing_none.
  2:{ destruct named; [exact Hall|]. intros q sl Hin. apply Hall. eapply Permutation_in; [apply sort_by_perm|exact Hin]. }
  unfold ret. f_equal. f_equal. apply assemble_vals_ok. intros k f Hk Hs. cbn [Nat.add].
  pose proof (in_sorted_nth fs k f Hk Hs) as Hin.
  change k with (pf_pos (mkpf k f)) at 1. unfold filled. rewrite (lookup_pos_in h _ _ (sorted_fields_pos_nodup fs) Hin).
  now rewrite (Hres _ Hin).
Qed.

(* has the reader met the position / key of its field q in what the writer wrote? *)
Definition met (e : encoding) (LW : list pfield) (vsW : list value) (q : pfield) : bool :=
  match e with
  | AsArray => match max_index LW vsW None with Some i => pf_idx q <=? i | None => false end
  | AsMap => existsb (fun w => (pf_idx w =? pf_idx q) && negb (nilp vsW w)) LW
  end.

Section Fields2.
Variable c : cfg.
Variable recE : nat -> value -> option (list chunk).
Variable recD : nat -> nat -> M value.

(* One struct / variant body: the writer's fields fsW with values vsW, read by the reader's fields fsR.
   tgt q is what the reader's field q makes of the item the writer put at its index (or of the gap null);
   rv q is the value the reader's field q ends up with. *)
Lemma dec_statements2 dW dR e fsW fsR vsW cs (tgt : pfield -> option value) :
  fields_ok dW fsW = true -> fields_ok dR fsR = true ->
  (forall pf z, In pf (sorted_fields fsW) -> enc_field_fn recE (pf_fld pf) (pf_val vsW pf) = Some z ->
     flat z <> [] /\ reads_item c recD (sorted_fields fsR) tgt (pf_idx pf) (flat (enc_tag_opt (f_tag (pf_fld pf)) ++ z))) ->
  (e = AsArray -> forall j, (forall q, In q (sorted_fields fsW) -> pf_idx q <> j) -> reads_item c recD (sorted_fields fsR) tgt j [246]) ->
  enc_fields recE e fsW vsW = Some cs ->
  reads_f (dec_statements c recD e (sorted_fields fsR)) (flat cs)
          (map (fun q => if met e (sorted_fields fsW) vsW q then tgt q else init_slot q) (sorted_fields fsR)).
Proof.
  unfold enc_fields. intros HokW HokR Hitem Hgap He.
  destruct (Nat.eqb (length vsW) (length fsW)) eqn:El; [|discriminate].
  set (LW := sorted_fields fsW) in *. set (sR := sorted_fields fsR) in *.
  pose proof (sorted_fields_asc dW fsW HokW) as HascW. fold LW in HascW.
  pose proof (sorted_fields_asc dR fsR HokR) as HascR. fold sR in HascR.
  assert (HidxW : forall pf, In pf LW -> pf_idx pf < 4294967296).
  { intros pf Hpf. apply in_sorted_fields in Hpf as [Hin Hs]. unfold fields_ok in HokW. apply andb_prop in HokW as [HokW _].
    rewrite forallb_forall in HokW. specialize (HokW _ Hin). unfold field_ok in HokW. rewrite Hs in HokW.
    apply andb_prop in HokW as [_ H1]. apply andb_prop in H1 as [H1 _]. apply andb_prop in H1 as [H1 _]. apply andb_prop in H1 as [H1 _].
    apply N.leb_le in H1. unfold idx_max, pf_idx in *. lia. }
  assert (Hinit : map init_slot sR = slots2 sR tgt (fun _ => false)) by reflexivity.
  destruct e.
  - unfold enc_as_array in He. unfold met. destruct (max_index LW vsW None) as [i|] eqn:Em.
    + apply ocat3_some in He as (y & Hy & ->). rewrite enc_array_stmts_eq in Hy.
      apply max_index_some in Em as [[_ ?]|(l1 & pf & l2 & Esf & Hpn & Hpi & Hl2)]; [discriminate|].
      assert (Hpf : In pf LW) by (rewrite Esf; apply in_or_app; right; now left).
      intros fuel r p L Hfu HL Hp. rewrite flat_app, <- app_assoc in *. rewrite len_app in Hp.
      destruct (arr_loop2 c recE recD fuel sR vsW tgt HascR LW i LW 0 y HascW (fun q Hq => Hq) (fun q Hq _ => Hq) ltac:(lia)
                  (or_introl (ex_intro _ pf (conj Hpf Hpi))) (fun q w Hq _ Hw => Hitem q w Hq Hw) (fun j _ Hj => Hgap eq_refl j Hj) Hy) as [Hle Hloop].
      rewrite N.sub_0_r in *.
      assert (Hi : i + 1 < two64) by lia.
      unfold dec_statements.
      assert (Hp0 : p + len (flat (enc_array (i + 1))) <= L) by lia.
      rewrite (bind_ok _ _ _ _ _ (dec_array_enc (i + 1) (flat y ++ r) p L Hi Hp0)). rewrite Hinit.
      rewrite (slots2_ext sR tgt (fun _ => false) (fun q => pf_idx q <? 0)) by (intros q _; symmetry; apply N.ltb_ge; lia).
      assert (Hlen : (length (flat y ++ r) <= length (flat (enc_array (i + 1)) ++ flat y ++ r))%nat) by (rewrite (app_length (flat (enc_array (i + 1)))); lia).
      assert (Hfu' : (length (flat y ++ r) < fuel)%nat) by lia.
      assert (Hp' : p + len (flat (enc_array (i + 1))) + len (flat y) <= L) by lia.
      rewrite (Hloop fuel r _ L Hfu' Hfu' HL Hp').
      replace (p + len (flat (enc_array (i + 1))) + len (flat y)) with (p + len (flat (enc_array (i + 1)) ++ flat y)) by (rewrite len_app; lia).
      f_equal. f_equal. unfold slots2. apply map_ext. intro q.
      replace (pf_idx q <? i + 1) with (pf_idx q <=? i); [reflexivity|].
      destruct (N.leb_spec (pf_idx q) i), (N.ltb_spec (pf_idx q) (i + 1)); try reflexivity; lia.
    + injection He as <-. intros fuel r p L Hfu HL Hp. change (flat (enc_array 0) ++ r) with (128 :: r).
      unfold dec_statements.
      assert (Hd : dec_array (mkdst p (128 :: r) L) = (Ok (Some 0), mkdst (p + 1) r L)) by reflexivity.
      rewrite (bind_ok _ _ _ _ _ Hd). rewrite loop_n_0. reflexivity.
  - unfold enc_as_map in He. apply ocat3_some in He as (y & Hy & ->).
    pose proof (max_fields_cnt vsW LW 0) as Hm. rewrite !N.add_0_l in Hm. rewrite Hm in *.
    intros fuel r p L Hfu HL Hp. rewrite flat_app, <- app_assoc in *. rewrite len_app in Hp.
    destruct (map_loop2 c recE recD fuel sR vsW tgt HascR LW y) as [Hle Hloop]; [|exact Hy|].
    { intros pf z Hpf _ Hz. destruct (Hitem pf z Hpf Hz) as [H1 H2]. auto. }
    assert (Hc : cnt vsW LW < two64) by lia.
    unfold dec_statements.
    assert (Hp0 : p + len (flat (enc_map (cnt vsW LW))) <= L) by lia.
    rewrite (bind_ok _ _ _ _ _ (dec_map_enc (cnt vsW LW) (flat y ++ r) p L Hc Hp0)). rewrite Hinit.
    assert (Hlen : (length (flat y ++ r) <= length (flat (enc_map (cnt vsW LW)) ++ flat y ++ r))%nat) by (rewrite (app_length (flat (enc_map (cnt vsW LW)))); lia).
    assert (Hfu' : (length (flat y ++ r) < fuel)%nat) by lia.
    assert (Hp' : p + len (flat (enc_map (cnt vsW LW))) + len (flat y) <= L) by lia.
    rewrite (Hloop 0 (fun _ => false) fuel r _ L Hfu' Hfu' HL Hp').
    replace (p + len (flat (enc_map (cnt vsW LW))) + len (flat y)) with (p + len (flat (enc_map (cnt vsW LW)) ++ flat y)) by (rewrite len_app; lia).
    reflexivity.
Qed.

Lemma dec_fields2 dW dR e sh fsW fsR vsW cs (tgt : pfield -> option value) (rv : pfield -> value) :
  fields_ok dW fsW = true -> fields_ok dR fsR = true ->
  (forall pf z, In pf (sorted_fields fsW) -> enc_field_fn recE (pf_fld pf) (pf_val vsW pf) = Some z ->
     flat z <> [] /\ reads_item c recD (sorted_fields fsR) tgt (pf_idx pf) (flat (enc_tag_opt (f_tag (pf_fld pf)) ++ z))) ->
  (e = AsArray -> forall j, (forall q, In q (sorted_fields fsW) -> pf_idx q <> j) -> reads_item c recD (sorted_fields fsR) tgt j [246]) ->
  (forall q, In q (sorted_fields fsR) ->
     resolve_slot q (if met e (sorted_fields fsW) vsW q then tgt q else init_slot q) = Datatypes.inl (rv q)) ->
  enc_fields recE e fsW vsW = Some cs ->
  reads_f (dec_body c recD e sh fsR) (flat cs) (VList (assemble_vals fsR 0 rv)).
Proof.
  intros HokW HokR Hitem Hgap Hres He fuel r p L Hfu HL Hp. unfold dec_body.
  rewrite (bind_ok _ _ _ _ _ (dec_statements2 dW dR e fsW fsR vsW cs tgt HokW HokR Hitem Hgap He fuel r p L Hfu HL Hp)).
  rewrite (bind_ok _ _ _ _ _ (resolve_gen (is_named sh) fsR (fun q => if met e (sorted_fields fsW) vsW q then tgt q else init_slot q) rv _ Hres)).
  reflexivity.
Qed.

(* a reader field that stays unresolved (a mandatory field the writer did not supply): MissingValue, after the body was read *)
Lemma dec_fields2_missing dW dR e sh fsW fsR vsW cs (tgt : pfield -> option value) q0 :
  fields_ok dW fsW = true -> fields_ok dR fsR = true ->
  (forall pf z, In pf (sorted_fields fsW) -> enc_field_fn recE (pf_fld pf) (pf_val vsW pf) = Some z ->
     flat z <> [] /\ reads_item c recD (sorted_fields fsR) tgt (pf_idx pf) (flat (enc_tag_opt (f_tag (pf_fld pf)) ++ z))) ->
  (e = AsArray -> forall j, (forall q, In q (sorted_fields fsW) -> pf_idx q <> j) -> reads_item c recD (sorted_fields fsR) tgt j [246]) ->
  In q0 (sorted_fields fsR) -> met e (sorted_fields fsW) vsW q0 = false -> f_synopt (pf_fld q0) = false -> nil_of (pf_fld q0) = None ->
  enc_fields recE e fsW vsW = Some cs ->
  forall fuel r p L, (length (flat cs ++ r) < fuel)%nat -> L < two64 -> p + len (flat cs) <= L ->
  exists i, dec_body c recD e sh fsR fuel (mkdst p (flat cs ++ r) L) = (Err (MissingValue i), mkdst (p + len (flat cs)) r L).
Proof.
  intros HokW HokR Hitem Hgap Hq0 Hmet Hsyn Hnil He fuel r p L Hfu HL Hp. unfold dec_body.
  rewrite (bind_ok _ _ _ _ _ (dec_statements2 dW dR e fsW fsR vsW cs tgt HokW HokR Hitem Hgap He fuel r p L Hfu HL Hp)).
  set (h := fun q => if met e (sorted_fields fsW) vsW q then tgt q else init_slot q).
  assert (Hslot : In (q0, None) (combine (sorted_fields fsR) (map h (sorted_fields fsR)))).
  { rewrite combine_map_r. apply in_map_iff. exists q0. split; [|assumption]. unfold h, init_slot. now rewrite Hmet, Hsyn. }
  destruct (first_missing_some (if is_named sh then combine (sorted_fields fsR) (map h (sorted_fields fsR))
                                else sort_by by_pos (combine (sorted_fields fsR) (map h (sorted_fields fsR)))) q0) as [i Hi].
  { destruct (is_named sh); [assumption|]. eapply Permutation_in; [symmetry; apply sort_by_perm|assumption]. }
  { assumption. }
  exists i. now rewrite (bind_err _ _ _ _ _ (resolve_missing _ _ _ _ _ _ Hi)).
Qed.
End Fields2.

(* ---- the documented-compatible edits of one struct / variant body ---- *)
Lemma max_index_bound l vs p : asc pf_idx p l ->
  match max_index l vs None with
  | Some i => forall w, In w l -> nilp vs w = false -> pf_idx w <= i
  | None => forall w, In w l -> nilp vs w = true
  end.
Proof.
  intro Hasc. destruct (max_index l vs None) as [i|] eqn:Em.
  - apply max_index_some in Em as [[_ ?]|(l1 & pf & l2 & -> & Hpn & Hpi & Hl2)]; [discriminate|].
    intros w Hw Hwn. apply in_app_or in Hw as [Hw|[<-|Hw]].
    + pose proof (asc_app_lt pf_idx p l1 pf l2 Hasc w Hw). lia.
    + lia.
    + rewrite forallb_forall in Hl2. specialize (Hl2 w Hw). congruence.
  - apply max_index_none in Em. rewrite forallb_forall in Em. exact Em.
Qed.

Section Compat.
Variable c : cfg.
Variable okty : ty -> Prop.
Hypothesis Hty : forall t, okty t -> forall v cs, encode_ty t v = Some cs ->
  flat cs <> [] /\ reads_f (decode_ty c t) (flat cs) v.
(* the definitions the fields refer to are the same in both versions (C09's contract for them) *)
Variable recE : nat -> value -> option (list chunk).
Variable recD : nat -> nat -> M value.
Variable recV : nat -> value -> value.
Variable ntr : nat -> bool.
Hypothesis Hrec : forall d v cs, recE d v = Some cs ->
  flat cs <> [] /\ (ntr d = true -> hd_class (flat cs) = true) /\ reads_f (recD d) (flat cs) (recV d v).

Lemma handler_of_nil d f nv : field_ok d f = true -> f_skip f = false -> nil_of f = Some nv -> has_handler f = true.
Proof.
  intros Hok Hs Hn. unfold field_ok in Hok. rewrite Hs in Hok.
  apply andb_prop in Hok as [_ Hok]. apply andb_prop in Hok as [Hok _]. apply andb_prop in Hok as [_ Hsyn].
  unfold nil_of in Hn. unfold has_handler. destruct (f_codec f) as [| |[|]]; try reflexivity;
    destruct (f_synopt f); try reflexivity; try discriminate. destruct (is_opt_fty (f_ty f)); [reflexivity|discriminate].
Qed.

(* an optional field reads a gap null: untagged, as its nil value; tagged, it accepts the bare null and leaves
   its slot alone (decode.rs: `if <optional> && Type::Null == d.datatype()? { d.skip()? }`) *)
Lemma nil_reads d f nv : field_ok d f = true -> f_skip f = false -> fty_all okty (f_ty f) -> nil_of f = Some nv ->
  reads_f (field_action c recD f) [246] (if has_tag f then None else Some nv).
Proof.
  intros Hok Hs Hall Hnil fuel r p L Hfu HL Hp. unfold field_action.
  rewrite (handler_of_nil d f nv Hok Hs Hnil), andb_true_r.
  destruct (has_tag f) eqn:Etag.
  { cbn [app]. rewrite (bind_ok _ _ _ _ _ (datatype_null _ _ _)). cbn [ctype_is_null].
    rewrite (bind_ok _ _ _ _ _ (skip_null _ _ _ _)). reflexivity. }
  assert (Htag : f_tag f = None) by (unfold has_tag in Etag; destruct (f_tag f); [discriminate|reflexivity]).
  rewrite Htag. cbn [dec_tag_check].
  unfold bind at 1. unfold ret at 1. unfold try_unknown.
  assert (G : dec_field_fn c recD f fuel (mkdst p ([246] ++ r) L) = (Ok nv, mkdst (p + len [246]) r L)); [|now rewrite G].
  unfold field_ok in Hok. rewrite Hs in Hok. apply andb_prop in Hok as [_ Hok]. apply andb_prop in Hok as [Hok Hc]. apply andb_prop in Hok as [_ Hsyn].
  unfold nil_of in Hnil. unfold dec_field_fn.
  assert (Gopt : forall t, okty (TyOpt t) -> decode_ty c (TyOpt t) fuel (mkdst p ([246] ++ r) L) = (Ok VNone, mkdst (p + len [246]) r L)).
  { intros t Ht. destruct (Hty (TyOpt t) Ht VNone enc_null eq_refl) as [_ Hrd]. apply (Hrd fuel r p L Hfu HL Hp). }
  assert (Gnull : forall g, dec_fty c recD (FOpt g) fuel (mkdst p ([246] ++ r) L) = (Ok VNone, mkdst (p + len [246]) r L)).
  { intro g. cbn [dec_fty app]. rewrite (bind_ok _ _ _ _ _ (datatype_null _ _ _)). cbn [ctype_is_null].
    rewrite (bind_ok _ _ _ _ _ (skip_null _ _ _ _)). reflexivity. }
  destruct (f_codec f) as [| |[|]].
  - destruct (f_ty f) as [[]| | |]; cbn in Hnil, Hall; try discriminate; injection Hnil as <-; first [now apply Gopt|apply Gnull].
  - destruct (f_synopt f); [|discriminate]. cbn in Hsyn. injection Hnil as <-.
    destruct (f_ty f) as [[]| | |]; cbn in Hall, Hsyn, Hc; try discriminate; first [now apply Gopt|apply Gnull].
  - injection Hnil as <-. unfold cust_decode. cbn [app]. rewrite (bind_ok _ _ _ _ _ (datatype_null _ _ _)). cbn [ctype_is_null].
    rewrite (bind_ok _ _ _ _ _ (skip_null _ _ _ _)). reflexivity.
  - destruct (f_synopt f); [|discriminate]. cbn in Hsyn. destruct (f_ty f) as [[]| | |]; discriminate.
Qed.

(* a nil value leaves its slot to nil(): the reader ends up with that same nil value *)
Lemma nil_slot d p f v : field_ok d f = true -> f_skip f = false -> fld_is_nil f v = true ->
  resolve_slot (mkpf p f) (init_slot (mkpf p f)) = Datatypes.inl v /\ field_value recV f v = v.
Proof.
  intros Hok Hs Hn. unfold field_ok in Hok. rewrite Hs in Hok.
  apply andb_prop in Hok as [_ Hok]. apply andb_prop in Hok as [Hok Hc]. apply andb_prop in Hok as [_ Hsyn].
  unfold fld_is_nil, trait_is_nil, cust_is_nil, is_none in Hn. unfold resolve_slot, init_slot, nil_of, field_value, is_opt_fty. cbn [pf_fld].
  destruct (f_codec f) as [| |[|]]; destruct (f_synopt f); destruct (f_ty f) as [[]| | |];
    cbn in Hsyn, Hc; try discriminate; destruct v; try discriminate; try (split; reflexivity);
    try (destruct w; discriminate); apply N.eqb_eq in Hn; subst; split; reflexivity.
Qed.

Lemma resolve_slot_erase p p' f g sl : eraseb f = eraseb g -> resolve_slot (mkpf p f) sl = match resolve_slot (mkpf p' g) sl with Datatypes.inl v => Datatypes.inl v | Datatypes.inr _ => Datatypes.inr (f_idx f) end.
Proof.
  intro E. apply eraseb_proj in E as (E1 & _ & E3 & E4 & E5). unfold resolve_slot, nil_of, pf_idx. cbn [pf_fld].
  rewrite E3, E4, E5. destruct sl; [reflexivity|]. destruct (f_codec g) as [| |[|]]; try destruct (is_opt_fty (f_ty g)); try destruct (f_synopt g); reflexivity.
Qed.

Lemma migrate_assemble fsW vsW : forall fsR p,
  migrate_fields recV fsW vsW fsR = assemble_vals fsR p (fun q => migrate_field recV fsW vsW (pf_fld q)).
Proof. induction fsR as [|f r IH]; intro p; cbn [migrate_fields map assemble_vals]; [reflexivity|]. f_equal. apply IH. Qed.

Theorem fields_compat_reads dW dR e sh fsW fsR vsW cs :
  fields_ok dW fsW = true -> fields_ok dR fsR = true ->
  fields_all okty fsR -> fields_rt ntr fsR = true ->
  body_compat fsW fsR ->
  (* what only the writer knows is skipped as one item (C06 through C08, discharged separately) *)
  (forall pf z, In pf (sorted_fields fsW) -> (forall q, In q (sorted_fields fsR) -> pf_idx q <> pf_idx pf) ->
     enc_field_fn recE (pf_fld pf) (pf_val vsW pf) = Some z ->
     flat z <> [] /\ skippable c (flat (enc_tag_opt (f_tag (pf_fld pf)) ++ z))) ->
  enc_fields recE e fsW vsW = Some cs ->
  reads_f (dec_body c recD e sh fsR) (flat cs) (VList (migrate_fields recV fsW vsW fsR)).
Proof.
  intros HokW HokR HallR HrtR [Hshared Hronly] Hsk He.
  pose proof He as He'. unfold enc_fields in He'. destruct (Nat.eqb (length vsW) (length fsW)) eqn:El; [|discriminate]. apply Nat.eqb_eq in El. clear He'.
  set (LW := sorted_fields fsW) in *. set (sR := sorted_fields fsR) in *. set (dl := decl fsW vsW).
  pose proof (sorted_fields_asc dW fsW HokW) as HascW. fold LW in HascW.
  pose proof (sorted_fields_asc dR fsR HokR) as HascR. fold sR in HascR.
  pose proof (decl_perm fsW vsW El) as Hperm. fold LW dl in Hperm.
  assert (Hnd : NoDup (map fkey dl)).
  { eapply Permutation_NoDup; [apply Permutation_map; symmetry; exact Hperm|]. rewrite map_map. apply (asc_nodup pf_idx 0 LW HascW). }
  assert (HsomeW : forall pf, In pf LW -> at_index dl (pf_idx pf) = Some (fv vsW pf)).
  { intros pf Hpf. apply (at_index_unique dl (fv vsW pf) Hnd). eapply Permutation_in; [symmetry; exact Hperm|]. now apply in_map. }
  assert (HnoneW : forall j, (forall pf, In pf LW -> pf_idx pf <> j) -> at_index dl j = None).
  { intros j Hj. apply at_index_none. intros x Hx E. eapply Permutation_in in Hx; [|exact Hperm].
    apply in_map_iff in Hx as (pf & <- & Hpf). apply (Hj pf Hpf). exact E. }
  assert (HfR : forall q, In q sR -> In (pf_fld q) fsR /\ field_ok dR (pf_fld q) = true /\ f_skip (pf_fld q) = false /\ fty_all okty (f_ty (pf_fld q)) /\ fty_rt ntr (f_ty (pf_fld q)) = true).
  { intros q Hq. apply in_sorted_fields in Hq as [Hin Hs]. unfold fields_ok in HokR. apply andb_prop in HokR as [H1 _].
    rewrite forallb_forall in H1. unfold fields_all in HallR. rewrite Forall_forall in HallR. unfold fields_rt in HrtR. rewrite forallb_forall in HrtR. auto 6. }
  assert (HfW : forall w, In w LW -> In (pf_fld w) fsW /\ field_ok dW (pf_fld w) = true /\ f_skip (pf_fld w) = false).
  { intros w Hw. apply in_sorted_fields in Hw as [Hin Hs]. unfold fields_ok in HokW. apply andb_prop in HokW as [H1 _].
    rewrite forallb_forall in H1. auto. }
  set (rvf := fun f : field => migrate_field recV fsW vsW f).
  set (tgt := fun q : pfield => match at_index dl (f_idx (pf_fld q)) with
                                | Some _ => Some (rvf (pf_fld q))
                                | None => if has_tag (pf_fld q) then init_slot q else Some (rvf (pf_fld q))
                                end).
  set (rv := fun q : pfield => rvf (pf_fld q)).
  assert (Hmig : VList (migrate_fields recV fsW vsW fsR) = VList (assemble_vals fsR 0 rv)) by (f_equal; apply migrate_assemble).
  rewrite Hmig. clear Hmig.
  apply (dec_fields2 c recE recD dW dR e sh fsW fsR vsW cs tgt rv HokW HokR); [| | |exact He]; fold LW sR.
  - (* what the writer wrote for one of its fields *)
    intros pf z Hpf Hz. destruct (HfW pf Hpf) as (HinW & HokWf & HsW). unfold reads_item.
    destruct (find_field sR (pf_idx pf) 0) as [[k q]|] eqn:Ef.
    + apply find_field_in in Ef as [Hq Hqi]. destruct (HfR q Hq) as (HinR & H1 & H2 & H3 & H4).
      assert (Eer : eraseb (pf_fld pf) = eraseb (pf_fld q)) by (apply Hshared; auto).
      rewrite (enc_field_erase recE _ _ _ Eer) in Hz.
      destruct (field_action_reads c okty Hty recE recD recV ntr Hrec dR (pf_fld q) (pf_val vsW pf) z H1 H2 H3 H4 Hz) as [Hne Hrd].
      split; [assumption|]. exists (Some (wval recV (pf_fld q) (pf_val vsW pf))). split.
      * destruct (eraseb_proj _ _ Eer) as (_ & -> & _). exact Hrd.
      * cbn [upd]. unfold tgt, rvf, migrate_field. fold dl. replace (f_idx (pf_fld q)) with (pf_idx pf) by (symmetry; exact Hqi).
        rewrite (HsomeW pf Hpf). reflexivity.
    + apply Hsk; [assumption| |assumption]. intros q Hq E. destruct (find_field_some sR (pf_idx pf) 0%nat q Hq E) as (k & q' & Hf'). congruence.
  - (* a gap null *)
    intros -> j Hj. unfold reads_item. destruct (find_field sR j 0) as [[k q]|] eqn:Ef.
    + apply find_field_in in Ef as [Hq Hqi]. destruct (HfR q Hq) as (HinR & H1 & H2 & H3 & H4).
      assert (Hnil : nil_of (pf_fld q) <> None).
      { apply (Hronly (pf_fld q) HinR H2). intros fW HfWin HfWs E. apply In_nth_error in HfWin as [kk Hkk].
        apply (Hj (mkpf kk fW) (in_sorted_nth fsW kk fW Hkk HfWs)). unfold pf_idx. cbn [pf_fld]. rewrite E. exact Hqi. }
      destruct (nil_of (pf_fld q)) as [nv|] eqn:En; [|congruence].
      exists (if has_tag (pf_fld q) then None else Some nv). split; [apply (nil_reads dR (pf_fld q) nv H1 H2 H3 En)|].
      unfold tgt, rvf, migrate_field, nil_or_unit. fold dl. rewrite HnoneW.
      2:{ intros w Hw E. apply (Hj w Hw). rewrite E. exact Hqi. }
      rewrite En. destruct (has_tag (pf_fld q)); reflexivity.
    + intros r p L HL Hp. change ([246] ++ r) with (246 :: r). now rewrite skip_null.
  - (* every slot resolves to the migrated value *)
    intros q Hq. unfold tgt, rv.
    destruct (HfR q Hq) as (HinR & H1 & H2 & H3 & H4). unfold rvf, migrate_field. fold dl.
    destruct (at_index dl (f_idx (pf_fld q))) as [[fW v]|] eqn:Eat.
    + destruct (met e LW vsW q) eqn:Em; [reflexivity|].
      (* a field both versions know, whose value the writer left out: it was nil *)
      apply at_index_in in Eat as [Hin Hidx]. eapply Permutation_in in Hin; [|exact Hperm].
      apply in_map_iff in Hin as (w & Ew & Hw). unfold fv in Ew. injection Ew as Ef Ev. subst fW v.
      destruct (HfW w Hw) as (HinW & HokWf & HsW).
      assert (Eer : eraseb (pf_fld w) = eraseb (pf_fld q)) by (apply Hshared; auto).
      assert (Hnilw : nilp vsW w = true).
      { unfold met in Em. destruct e.
        - pose proof (max_index_bound LW vsW 0 HascW) as Hb. destruct (max_index LW vsW None) as [i|]; [|now apply Hb].
          destruct (nilp vsW w) eqn:En; [reflexivity|]. specialize (Hb w Hw En). apply N.leb_gt in Em. unfold pf_idx in *. lia.
        - destruct (nilp vsW w) eqn:En; [reflexivity|]. exfalso.
          assert (existsb (fun w0 => (pf_idx w0 =? pf_idx q) && negb (nilp vsW w0)) LW = true); [|congruence].
          apply existsb_exists. exists w. split; [assumption|]. rewrite En. cbn [negb]. rewrite andb_true_r. apply N.eqb_eq. exact Hidx. }
      unfold nilp in Hnilw. rewrite (nil_erase _ _ _ Eer) in Hnilw.
      destruct (nil_slot dR (pf_pos q) (pf_fld q) (pf_val vsW w) H1 H2 Hnilw) as [Hr Hv].
      destruct q as [qp qf]. cbn [pf_pos pf_fld] in *. rewrite Hr, Hv. reflexivity.
    + (* a field only the reader knows: nil, whether its position was met (gap null) or not *)
      assert (Hnil : nil_of (pf_fld q) <> None).
      { apply (Hronly (pf_fld q) HinR H2). intros fW HfWin HfWs E. apply In_nth_error in HfWin as [kk Hkk].
        pose proof (HsomeW (mkpf kk fW) (in_sorted_nth fsW kk fW Hkk HfWs)) as Hsm. unfold pf_idx in Hsm. cbn [pf_fld] in Hsm. rewrite E in Hsm. congruence. }
      unfold nil_or_unit. destruct (nil_of (pf_fld q)) as [nv|] eqn:En; [|congruence].
      assert (Ginit : resolve_slot q (init_slot q) = Datatypes.inl nv); [|destruct (met e LW vsW q), (has_tag (pf_fld q)); try exact Ginit; unfold resolve_slot; reflexivity].
      unfold resolve_slot, init_slot. rewrite En.
      destruct (f_synopt (pf_fld q)) eqn:Es; [|reflexivity].
      unfold field_ok in H1. rewrite H2 in H1. apply andb_prop in H1 as [_ H1]. apply andb_prop in H1 as [H1 Hc]. apply andb_prop in H1 as [_ Hsyn].
      rewrite Es in Hsyn. cbn in Hsyn. unfold nil_of in En. rewrite Es in En.
      destruct (f_codec (pf_fld q)) as [| |[|]]; try (rewrite Hsyn in En); try (injection En as <-; reflexivity).
      destruct (f_ty (pf_fld q)) as [[]| | |]; cbn in Hc, Hsyn; discriminate.
Qed.

(* … and the same one level up: a struct definition in two versions (same encoding and tag; names, declaration
   order, n/b, named/tuple free) *)
Theorem struct_compat_reads dW dR e tag shW shR fsW fsR vsW cs :
  def_ok dW (DStruct e tag false shW fsW) = true -> def_ok dR (DStruct e tag false shR fsR) = true ->
  fields_all okty fsR -> fields_rt ntr fsR = true -> body_compat fsW fsR ->
  (forall pf z, In pf (sorted_fields fsW) -> (forall q, In q (sorted_fields fsR) -> pf_idx q <> pf_idx pf) ->
     enc_field_fn recE (pf_fld pf) (pf_val vsW pf) = Some z ->
     flat z <> [] /\ skippable c (flat (enc_tag_opt (f_tag (pf_fld pf)) ++ z))) ->
  enc_def recE (DStruct e tag false shW fsW) (VList vsW) = Some cs ->
  reads_f (dec_def c recD (DStruct e tag false shR fsR)) (flat cs) (VList (migrate_fields recV fsW vsW fsR)).
Proof.
  intros HokW HokR Hall Hrt Hcompat Hsk He. cbn [def_ok enc_def] in *.
  apply andb_prop in HokW as [HokW _]. apply andb_prop in HokW as [HokW _]. apply andb_prop in HokW as [_ HfW].
  apply andb_prop in HokR as [HokR _]. apply andb_prop in HokR as [HokR _]. apply andb_prop in HokR as [Htag HfR].
  apply ocat3_some in He as (y & Hy & ->).
  pose proof (fields_compat_reads dW dR (struct_encoding e) shR fsW fsR vsW y HfW HfR Hall Hrt Hcompat Hsk Hy) as Hrd.
  intros fuel r p L Hfu HL Hp. cbn [dec_def]. rewrite flat_app, <- app_assoc in *. rewrite len_app in Hp. rewrite app_length in Hfu.
  assert (Hp1 : p + len (flat (enc_tag_opt tag)) <= L) by lia.
  rewrite (bind_ok _ _ _ _ _ (dec_tag_check_enc tag (flat y ++ r) p L Htag Hp1)).
  rewrite Hrd; [|lia|assumption|lia]. f_equal. f_equal. rewrite len_app. lia.
Qed.
End Compat.

(* ---- guarantee 4: an unknown variant in an optional field becomes None, the siblings stay intact ---- *)
(* If the field's decode function fails with UnknownVariant — wherever it stopped — and the field's value b is
   skipped as one item, the field action succeeds without filling the slot and stops right after the value:
   the handler goes back to the first byte of the value before it skips (F9 repair), so this holds for index_only
   enums (b is the bare index) as for regular ones (b is [index, body]). *)
Lemma handler_skips c recD f n b :
  has_handler f = true -> tag_ok (f_tag f) = true -> skippable c b ->
  (forall fuel r p L, (length (b ++ r) < fuel)%nat -> L < two64 -> p + len b <= L ->
     exists s', dec_field_fn c recD f fuel (mkdst p (b ++ r) L) = (Err (UnknownVariant n), s')) ->
  reads_f (field_action c recD f) (flat (enc_tag_opt (f_tag f)) ++ b) None.
Proof.
  intros Hh Htag Hsk Hdec fuel r p L Hfu HL Hp. rewrite !len_app in Hp. rewrite !app_length in Hfu. rewrite <- app_assoc.
  assert (Hact : (dec_tag_check (f_tag f) ;;; try_unknown c (has_handler f) (dec_field_fn c recD f fuel))
                   (mkdst p (flat (enc_tag_opt (f_tag f)) ++ b ++ r) L)
                 = (Ok None, mkdst (p + len (flat (enc_tag_opt (f_tag f)) ++ b)) r L)).
  { assert (Hp1 : p + len (flat (enc_tag_opt (f_tag f))) <= L) by lia.
    rewrite (bind_ok _ _ _ _ _ (dec_tag_check_enc (f_tag f) _ p L Htag Hp1)).
    assert (Hfu1 : (length (b ++ r) < fuel)%nat) by (rewrite app_length; lia).
    assert (Hp2 : p + len (flat (enc_tag_opt (f_tag f))) + len b <= L) by lia.
    destruct (Hdec fuel r _ L Hfu1 HL Hp2) as [s' Hs']. unfold try_unknown. rewrite Hs', Hh.
    rewrite (bind_ok _ _ _ _ _ (Hsk r _ L HL Hp2)). unfold ret. f_equal. f_equal. rewrite len_app. lia. }
  unfold field_action. destruct (has_tag f && has_handler f) eqn:Eg; [|exact Hact].
  apply andb_prop in Eg as [Eg _]. unfold has_tag in Eg. destruct (f_tag f) as [t|] eqn:Et; [|discriminate].
  cbn [enc_tag_opt] in *.
  pose proof (hd_class_type_len TAGGED t (b ++ r) (or_intror (or_intror eq_refl))) as Hhd. fold (enc_tag t) in Hhd.
  destruct (flat (enc_tag t) ++ b ++ r) as [|x rest] eqn:Eb; [discriminate|].
  destruct (datatype_hd x rest p L Hhd) as (ty & Hd & Hn).
  rewrite (bind_ok _ _ _ _ _ Hd), Hn. exact Hact.
Qed.

(* an Option<enum> field: the enum's UnknownVariant error reaches the handler from where the enum decoder stopped *)
Lemma opt_ref_unknown c recD d f n b1 b2 :
  f_codec f = CoDefault -> f_ty f = FOpt (FRef d) -> hd_class (b1 ++ b2) = true ->
  (forall fuel r p L, (length ((b1 ++ b2) ++ r) < fuel)%nat -> L < two64 -> p + len (b1 ++ b2) <= L ->
     recD d fuel (mkdst p ((b1 ++ b2) ++ r) L) = (Err (UnknownVariant n), mkdst (p + len b1) (b2 ++ r) L)) ->
  forall fuel r p L, (length ((b1 ++ b2) ++ r) < fuel)%nat -> L < two64 -> p + len (b1 ++ b2) <= L ->
     dec_field_fn c recD f fuel (mkdst p ((b1 ++ b2) ++ r) L) = (Err (UnknownVariant n), mkdst (p + len b1) (b2 ++ r) L).
Proof.
  intros Hc Ht Hhd Hrec fuel r p L Hfu HL Hp. unfold dec_field_fn. rewrite Hc, Ht. cbn [dec_fty].
  destruct (b1 ++ b2) as [|x t] eqn:E; [discriminate|]. cbn [app].
  destruct (datatype_hd x (t ++ r) p L) as (ty & Hd & Hn); [destruct t; exact Hhd|].
  rewrite (bind_ok _ _ _ _ _ Hd), Hn. change (x :: t ++ r) with ((x :: t) ++ r).
  rewrite (fmap_err _ _ _ _ _ (Hrec fuel r p L Hfu HL Hp)). reflexivity.
Qed.

(* ---- the former witnesses of F9 and F10, now read as documented ---- *)
Definition f9_holder : def :=
  DStruct None None false DsNamed
    [mkfield 0 false None CoDefault false false (FTy (TyU B8)); mkfield 1 false None CoDefault true false (FOpt (FRef 0));
     mkfield 2 false None CoDefault false false (FTy (TyU B8))].
Definition f9_writer : schema := [DEnum None None true [mkvariant 0 None None DsUnit []; mkvariant 1 None None DsUnit []; mkvariant 7 None None DsUnit []]; f9_holder].
Definition f9_reader : schema := [DEnum None None true [mkvariant 0 None None DsUnit []; mkvariant 1 None None DsUnit []]; f9_holder].
Definition f9_value : value := VList [VNat 1; VSome (VVar 7 (VList [])); VNat 9].

Lemma f9_repaired : schema_ok f9_writer = true /\ schema_ok f9_reader = true /\
  option_map flat (gen_encode f9_writer 1 f9_value) = Some [131; 1; 7; 9] /\
  gen_decode cfg_full f9_reader 1 (start [131; 1; 7; 9]) = (Ok (VList [VNat 1; VNone; VNat 9]), mkdst 4 [] 4).
Proof. vm_compute. repeat split. Qed.

(* the same edit on a regular enum works as documented *)
Definition rg_writer : schema := [DEnum None None false [mkvariant 0 None None DsUnit []; mkvariant 7 None None DsNamed [mkfield 0 false None CoDefault false false (FTy (TyU B8))]]; f9_holder].
Definition rg_reader : schema := [DEnum None None false [mkvariant 0 None None DsUnit []]; f9_holder].
Lemma rg_example :
  option_map flat (gen_encode rg_writer 1 (VList [VNat 1; VSome (VVar 7 (VList [VNat 5])); VNat 9])) = Some [131; 1; 130; 7; 129; 5; 9] /\
  gen_decode cfg_full rg_reader 1 (start [131; 1; 130; 7; 129; 5; 9]) = (Ok (VList [VNat 1; VNone; VNat 9]), mkdst 7 [] 7).
Proof. vm_compute. repeat split. Qed.

Definition f10_writer : schema :=
  [DStruct None None false DsNamed [mkfield 0 false None CoDefault false false (FTy (TyU B8)); mkfield 2 false None CoDefault false false (FTy (TyU B8))]].
Definition f10_reader : schema :=
  [DStruct None None false DsNamed [mkfield 0 false None CoDefault false false (FTy (TyU B8)); mkfield 1 false (Some 9) CoDefault true false (FTy (TyOpt (TyU B8)));
                                    mkfield 2 false None CoDefault false false (FTy (TyU B8))]].
Lemma f10_repaired : schema_ok f10_writer = true /\ schema_ok f10_reader = true /\
  option_map flat (gen_encode f10_writer 0 (VList [VNat 1; VNat 3])) = Some [131; 1; 246; 3] /\
  gen_decode cfg_full f10_reader 0 (start [131; 1; 246; 3]) = (Ok (VList [VNat 1; VNone; VNat 3]), mkdst 4 [] 4).
Proof. vm_compute. repeat split. Qed.

(* C06 + C08 give the skippability that fields_compat_reads asks for: a (tagged) item whose bytes are the
   serialisation of a well-formed tree is skipped as one item *)
Lemma skippable_of_item c :
  (forall e r p L, wf e = true -> L < two64 -> p + len (ser e) <= L ->
     skip_auto c (mkdst p (ser e ++ r) L) = (Ok tt, mkdst (p + len (ser e)) r L)) ->
  forall t e cs, tag_ok t = true -> flat cs = ser (prefer e) -> wf (prefer e) = true ->
  skippable c (flat (enc_tag_opt t ++ cs)).
Proof.
  intros Hskip t e cs Ht Hcs Hwf r p L HL Hp.
  assert (E : flat (enc_tag_opt t ++ cs) = ser (prefer (t_tagged t e))).
  { rewrite flat_app, Hcs. symmetry. apply ser_prefer_tagged. exact Ht. }
  rewrite E in *. apply Hskip; [|assumption|assumption].
  change (wf (prefer (t_tagged t e))) with (wfp (t_tagged t e)). now apply wfp_tagged.
Qed.
