(* Proofs/DecoderFacts.v — how the decoder primitives behave on serialised heads.
   Foundation for C04, C05, C06, C11, C01: every accessor proof starts from
     Cbor.head mt w n = ib mt w n :: args w n        (head_split)
     major/info of the initial byte              (major_ib, info_ib)
     unsigned (ai w n) on args w n ++ r          (unsigned_args)            *)
From MC Require Import Bytes BytesFacts Monad Cbor Utf8 Half Decoder.
From Coq Require Import Lia.
Local Open Scope N_scope.

(* ---- the monad ---- *)
Lemma bind_ok {A B} (m : M A) (f : A -> M B) s a s' : m s = (Ok a, s') -> bind m f s = f a s'.
Proof. unfold bind. intros ->. reflexivity. Qed.
Lemma bind_err {A B} (m : M A) (f : A -> M B) s e s' : m s = (Err e, s') -> bind m f s = (Err e, s').
Proof. unfold bind. intros ->. reflexivity. Qed.
Lemma fmap_ok {A B} (g : A -> B) (m : M A) s a s' : m s = (Ok a, s') -> fmap g m s = (Ok (g a), s').
Proof. unfold fmap. intro H. rewrite (bind_ok _ _ _ _ _ H). reflexivity. Qed.
Lemma fmap_err {A B} (g : A -> B) (m : M A) s e s' : m s = (Err e, s') -> fmap g m s = (Err e, s').
Proof. unfold fmap. intro H. rewrite (bind_err _ _ _ _ _ H). reflexivity. Qed.

Definition is_err {A} (r : result A * dst) : Prop := exists e s, r = (Err e, s).

Lemma bind_is_err {A B} (m : M A) (f : A -> M B) s : is_err (m s) -> is_err (bind m f s).
Proof. intros (e & s' & H). exists e, s'. now apply bind_err. Qed.
Lemma fmap_is_err {A B} (g : A -> B) (m : M A) s : is_err (m s) -> is_err (fmap g m s).
Proof. intros (e & s' & H). exists e, s'. now apply fmap_err. Qed.

(* ---- primitives ---- *)
Lemma read_cons b r p L : read (mkdst p (b :: r) L) = (Ok b, mkdst (p + 1) r L).
Proof. reflexivity. Qed.
Lemma current_cons b r p L : current (mkdst p (b :: r) L) = (Ok b, mkdst p (b :: r) L).
Proof. reflexivity. Qed.
Lemma read_nil p L : read (mkdst p [] L) = (Err EndOfInput, mkdst p [] L).
Proof. reflexivity. Qed.
Lemma current_nil p L : current (mkdst p [] L) = (Err EndOfInput, mkdst p [] L).
Proof. reflexivity. Qed.

Lemma read_slice_app a r p L : p + len a <= L ->
  read_slice (len a) (mkdst p (a ++ r) L) = (Ok a, mkdst (p + len a) r L).
Proof.
  intro H. unfold read_slice. cbn [dlen dpos drest].
  destruct (N.ltb_spec L p); [lia|]. now rewrite take_app.
Qed.

Lemma read_slice_short n l p L : len l < n -> read_slice n (mkdst p l L) = (Err EndOfInput, mkdst p l L).
Proof.
  intro H. unfold read_slice. cbn [dlen dpos drest].
  destruct (L <? p); [reflexivity|]. now rewrite take_short.
Qed.

Lemma read_be_app k n r p L : p + N.of_nat k <= L -> n < 2 ^ (8 * N.of_nat k) ->
  read_be k (mkdst p (be k n ++ r) L) = (Ok n, mkdst (p + N.of_nat k) r L).
Proof.
  intros H Hn. unfold read_be. rewrite <- (len_be k n) at 1.
  erewrite fmap_ok by (apply read_slice_app; rewrite len_be; exact H).
  rewrite of_be_be_small, len_be by assumption. reflexivity.
Qed.

Lemma mismatch_is_err {A} b s : is_err (@mismatch A b s).
Proof.
  unfold mismatch, bind. destruct (type_of b s) as [[t|e| |] s'] eqn:E.
  - eexists _, _. reflexivity.
  - eexists _, _. reflexivity.
  - exfalso. revert E. unfold type_of.
    repeat match goal with |- context [if ?c then _ else _] => destruct c end;
    unfold ret, bind, peek; try discriminate;
    destruct (drest s) as [|? [|? ?]]; discriminate.
  - exfalso. revert E. unfold type_of.
    repeat match goal with |- context [if ?c then _ else _] => destruct c end;
    unfold ret, bind, peek; try discriminate;
    destruct (drest s) as [|? [|? ?]]; discriminate.
Qed.

(* ---- heads ---- *)
Definition ai (w : width) (n : N) : N :=
  match w with W0 => n | W1 => 24 | W2 => 25 | W4 => 26 | W8 => 27 end.
Definition args (w : width) (n : N) : bytes :=
  match w with W0 => [] | W1 => [n] | W2 => be 2 n | W4 => be 4 n | W8 => be 8 n end.
Definition ib (mt : N) (w : width) (n : N) : N := mt * 32 + ai w n.

Lemma head_split mt w n : Cbor.head mt w n = ib mt w n :: args w n.
Proof. destruct w; reflexivity. Qed.

Lemma ai_lt w n : fits w n = true -> ai w n < 28.
Proof. destruct w; cbn [fits ai]; intro H; try lia. apply N.ltb_lt in H. lia. Qed.

Lemma ai_w0 w n : fits w n = true -> (ai w n < 24 <-> w = W0).
Proof.
  destruct w; cbn [fits ai]; intro H; split; intro G; try reflexivity; try discriminate; try lia.
  apply N.ltb_lt in H. lia.
Qed.

Lemma major_ib mt w n : fits w n = true -> major (ib mt w n) = mt * 32.
Proof.
  intro H. apply ai_lt in H. unfold major, ib. set (a := ai w n) in *. clearbody a.
  replace ((mt * 32 + a) / 32) with mt; [reflexivity|].
  apply N.div_unique with a; lia.
Qed.

Lemma info_ib mt w n : fits w n = true -> info (ib mt w n) = ai w n.
Proof.
  intro H. apply ai_lt in H. unfold info, ib. set (a := ai w n) in *. clearbody a.
  symmetry. apply N.mod_unique with mt; lia.
Qed.

Lemma len_args w n : len (args w n) = match w with W0 => 0 | W1 => 1 | W2 => 2 | W4 => 4 | W8 => 8 end.
Proof. destruct w; cbn [args]; rewrite ?len_be; reflexivity. Qed.

Lemma len_head mt w n : len (Cbor.head mt w n) = match w with W0 => 1 | W1 => 2 | W2 => 3 | W4 => 5 | W8 => 9 end.
Proof. rewrite head_split, len_cons, len_args. destruct w; reflexivity. Qed.

(* Decoder::unsigned reads back the argument of a head *)
Lemma unsigned_args w n r p L : fits w n = true -> p + len (args w n) <= L ->
  unsigned (ai w n) (mkdst p (args w n ++ r) L) = (Ok n, mkdst (p + len (args w n)) r L).
Proof.
  intros Hf HL. rewrite len_args in *. unfold unsigned.
  destruct w; cbn [fits ai args] in *; apply N.ltb_lt in Hf.
  - destruct (N.leb_spec n 23); [|lia]. cbn [app]. unfold ret. now rewrite N.add_0_r.
  - cbn. reflexivity.
  - cbn [N.leb N.eqb]. change (25 <=? 23) with false. change (25 =? 24) with false. change (25 =? 25) with true. cbv iota.
    apply (read_be_app 2); [exact HL|exact Hf].
  - change (26 <=? 23) with false. change (26 =? 24) with false. change (26 =? 25) with false. change (26 =? 26) with true. cbv iota.
    apply (read_be_app 4); [exact HL|exact Hf].
  - change (27 <=? 23) with false. change (27 =? 24) with false. change (27 =? 25) with false. change (27 =? 26) with false.
    change (27 =? 27) with true. cbv iota.
    apply (read_be_app 8); [exact HL|exact Hf].
Qed.
