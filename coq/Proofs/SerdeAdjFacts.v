(* Proofs/SerdeAdjFacts.v — adjacently tagged enums on the bridge's own output: the tag entry is written first, so
   the derived visit_map reads the tag through deserialize_enum and then the content directly with the variant
   known (no buffering). *)
From MC Require Import Bytes BytesFacts Monad Cbor Utf8 Half Encoder Methods EncoderFacts Decoder DecoderFacts IntFacts
  Types Serde SerdeDoc SerdeCont SerdeAny SerdeFacts SerdeRtFacts SerdeAnyHeadFacts SerdeContentFacts SerdeBufFacts SerdeAnyRtFacts.
From Coq Require Import Lia.
Local Open Scope N_scope.

Lemma adj_next_tag c tag content ln k f : ln_rem ln (S k) -> str_ok tag = true ->
  reads (adj_next c tag content ln (S f)) (flat (enc_str tag)) (Some AdjTag, ln).
Proof.
  intros Hr Ht. cbn [adj_next]. rewrite <- (app_nil_r (flat (enc_str tag))).
  apply reads_bind with (Some tag).
  { apply (next_key_more dec_str ln k); [exact Hr|now apply reads_str|apply no_break_str; now apply str_ok_len]. }
  cbv iota beta. rewrite beq_refl. apply reads_ret.
Qed.

Lemma adj_next_content c tag content ln k f : ln_rem ln (S k) -> str_ok content = true -> beq content tag = false ->
  reads (adj_next c tag content ln (S f)) (flat (enc_str content)) (Some AdjContent, ln).
Proof.
  intros Hr Ht Hne. cbn [adj_next]. rewrite <- (app_nil_r (flat (enc_str content))).
  apply reads_bind with (Some content).
  { apply (next_key_more dec_str ln k); [exact Hr|now apply reads_str|apply no_break_str; now apply str_ok_len]. }
  cbv iota beta. rewrite Hne, beq_refl. apply reads_ret.
Qed.

Lemma adj_next_done c tag content f : reads (adj_next c tag content (Some 0) (S f)) [] (None, Some 0).
Proof.
  cbn [adj_next]. apply reads_bind_nil with None; [exact (next_key_done dec_str (Some 0) eq_refl)|apply reads_ret].
Qed.

Lemma reads_prelude_ident {A} (dvs : list (bytes * A)) name i a : str_ok name = true -> find_idx name dvs 0 = Some (i, a) ->
  reads (bind de_enum_prelude (fun _ => variant_ident dvs)) (flat (enc_str name)) (i, (name, a)).
Proof.
  intros Hn Hfi rest p L HL.
  pose proof (prelude_text name [] rest p L (str_ok_len _ Hn)) as Ep. rewrite app_nil_r in Ep.
  rewrite (bind_ok _ _ _ _ _ Ep). now apply variant_ident_gen.
Qed.

Definition adec (c : cfg) (fuel : nat) (p : bytes * (vkind * shape)) : bytes * (vkind * (shape * M sval)) :=
  let (n, ks) := p in let (k, s) := ks in (n, (k, (s, de_s c s fuel))).

Lemma map_fst_adec c fuel vs : map fst (map (adec c fuel) vs) = map fst vs.
Proof. induction vs as [|[n [k s]] r IH]; [reflexivity|]. cbn [map adec fst]. now rewrite IH. Qed.

Lemma find_adec c fuel vs i name k s : names_distinct (map fst vs) = true -> nth_error vs i = Some (name, (k, s)) ->
  find_idx name (map (adec c fuel) vs) 0 = Some (i, (k, (s, de_s c s fuel))).
Proof.
  intros Hnd Hn.
  rewrite (find_idx_at (map (adec c fuel) vs) ltac:(now rewrite map_fst_adec) i name (k, (s, de_s c s fuel)) 0); [reflexivity|].
  rewrite nth_error_map, Hn. reflexivity.
Qed.

Lemma conf_adj_inv tag content vs v : conf_any (ShAdjacent tag content vs) v = true ->
  exists n i name rest k s, v = SStruct n ((tag, SUnitVariant i name) :: rest) /\
    nth_error vs (N.to_nat i) = Some (name, (k, s)) /\
    ((k = KUnit /\ rest = [] /\ n = 1) \/ (k <> KUnit /\ exists p, rest = [(content, p)] /\ n = 2 /\ conf_any s p = true)).
Proof.
  intro H. destruct v; try discriminate H. destruct fs as [|[t x] rest]; [discriminate H|]. destruct x; try discriminate H.
  cbn [conf_any] in H. apply andb_prop in H as [Ht H]. apply beq_true in Ht. subst t.
  rewrite nth_error_map in H. destruct (nth_error vs (N.to_nat idx)) as [[n' [k s]]|] eqn:En; [|discriminate H].
  cbn [option_map] in H. apply andb_prop in H as [Hn H]. apply beq_true in Hn. subst n'.
  exists n, idx, name, rest, k, s. split; [reflexivity|split; [exact En|]].
  destruct k.
  - left. destruct rest; [|discriminate H]. apply N.eqb_eq in H. now repeat split.
  - right. split; [discriminate|]. destruct rest as [|[c' p] [|]]; try discriminate H.
    apply andb_prop in H as [H Hp]. apply andb_prop in H as [Hn2 Hc]. apply N.eqb_eq in Hn2. apply beq_true in Hc. subst c'.
    now exists p.
  - right. split; [discriminate|]. destruct rest as [|[c' p] [|]]; try discriminate H.
    apply andb_prop in H as [H Hp]. apply andb_prop in H as [Hn2 Hc]. apply N.eqb_eq in Hn2. apply beq_true in Hc. subst c'.
    now exists p.
  - right. split; [discriminate|]. destruct rest as [|[c' p] [|]]; try discriminate H.
    apply andb_prop in H as [H Hp]. apply andb_prop in H as [Hn2 Hc]. apply N.eqb_eq in Hn2. apply beq_true in Hc. subst c'.
    now exists p.
Qed.

Lemma datatype_map_head n tl p L : n < two64 ->
  datatype (mkdst p (flat (enc_map n) ++ tl) L) = (Ok TMap, mkdst p (flat (enc_map n) ++ tl) L).
Proof.
  intro Hn. rewrite (enc_map_flat n Hn). apply datatype_head; [exact Hn|]. intros b Hb. apply type_of_map. lia.
Qed.

Lemma rta_adjacent c fuel tag content vs : Forall (fun p => rt_any c fuel (snd (snd p))) vs ->
  rt_any c fuel (ShAdjacent tag content vs).
Proof.
  intros IH Hs Ho Hd v cs Hc Hfr Hok Hser Hf. cbn [shape_ok_any opt_in_opt untagged_disjoint] in *.
  apply andb_prop in Hs as [Hs Hsv]. apply andb_prop in Hs as [Hs Hlen]. apply andb_prop in Hs as [Hs Hnd].
  apply andb_prop in Hs as [Hs Hne]. apply andb_prop in Hs as [Htag Hcon]. apply N.ltb_lt in Hlen.
  apply negb_true_iff in Hne.
  assert (Hne': beq content tag = false).
  { destruct (beq content tag) eqn:E; [|reflexivity]. apply beq_true in E. subst content. now rewrite beq_refl in Hne. }
  pose proof (variants_facts c fuel vs shape_ok_any IH Hsv Ho Hd Hlen) as Hvar.
  destruct (conf_adj_inv tag content vs v Hc) as (n & i & name & rest & k & s & -> & En & Hcase).
  destruct (Hvar _ _ _ _ En) as (Hname & Hp & Hss & Hos & Hds & IHs & Hi).
  pose proof (find_adec c fuel vs (N.to_nat i) name k s Hnd En) as Efi.
  destruct fuel as [|f]; [cbn in Hf; lia|].
  cbn [de_s]. fold (adec c (S f)).
  change (map (fun p : bytes * (vkind * shape) => let (n0, ks) := p in let (k0, s0) := ks in (n0, (k0, (s0, de_s c s0 (S f))))) vs)
    with (map (adec c (S f)) vs).
  destruct Hcase as [(-> & -> & ->)|(Hk & p0 & -> & -> & Hcp)].
  - (* unit variant: { tag: name } *)
    cbn [ser_s fields_s] in Hser. apply ocat_some_l in Hser as (y & Hy & ->). apply ocat_some_l in Hy as (y1 & Hy & ->).
    apply ocat_some in Hy as (yn & ye & [= <-] & [= <-] & ->).
    rewrite !flat_app, app_nil_r.
    apply reads_bind with (Some 1); [now apply reads_map|].
    apply reads_bind with (Some AdjTag, Some 1); [now apply (adj_next_tag c tag content (Some 1) 0 f)|]. cbv iota.
    rewrite <- (app_nil_r (flat (enc_str name))).
    apply reads_bind with ((N.to_nat i, (name, (KUnit, (s, de_s c s (S f))))), Some 0).
    { apply (next_value_more _ (Some 1) 0); [reflexivity|now apply reads_prelude_ident]. }
    cbn [fst snd].
    apply reads_bind_nil with (None, Some 0); [apply adj_next_done|]. cbv iota.
    unfold adj_value. rewrite N2Nat.id. apply reads_ret.
  - (* { tag: name, content: payload } *)
    assert (Hfp: f12_free s p0 = true).
    { cbn [f12_free] in Hfr. rewrite nth_error_map, En in Hfr. exact Hfr. }
    cbn [sval_ok forallb fst snd] in Hok. apply andb_prop in Hok as [_ Hokl]. apply andb_prop in Hokl as [_ Hokl].
    apply andb_prop in Hokl as [Hokp _]. apply andb_prop in Hokp as [_ Hokp].
    cbn [ser_s fields_s] in Hser. apply ocat_some_l in Hser as (y & Hy & ->). apply ocat_some_l in Hy as (y1 & Hy & ->).
    apply ocat_some in Hy as (yn & ye & [= <-] & Hy & ->).
    apply ocat_some_l in Hy as (y2 & Hy & ->). apply ocat_some in Hy as (yp & yz & Hyp & [= <-] & ->).
    rewrite !flat_app, app_nil_r in *. rewrite !app_length in Hf.
    pose proof (IHs Hss Hos Hds p0 yp Hcp Hfp Hokp Hyp ltac:(lia)) as Hrp.
    apply reads_bind with (Some 2); [now apply reads_map|].
    apply reads_bind with (Some AdjTag, Some 2); [now apply (adj_next_tag c tag content (Some 2) 1 f)|]. cbv iota.
    apply reads_bind with ((N.to_nat i, (name, (k, (s, de_s c s (S f))))), Some 1).
    { apply (next_value_more _ (Some 2) 1); [reflexivity|now apply reads_prelude_ident]. }
    cbn [fst snd].
    apply reads_bind with (Some AdjContent, Some 1); [now apply (adj_next_content c tag content (Some 1) 0 f)|]. cbv iota.
    rewrite <- (app_nil_r (flat yp)).
    apply reads_bind with (p0, Some 0).
    { apply (next_value_more _ (Some 1) 0); [reflexivity|].
      destruct k; [contradiction|exact Hrp|exact Hrp|].
      (* a struct variant: deserialize_any dispatches a map to the struct visitor *)
      cbn [adj_direct]. destruct s; try discriminate Hp. destruct p0; try discriminate Hcp.
      cbn [conf_any] in Hcp. apply andb_prop in Hcp as [Hcp _]. apply andb_prop in Hcp as [_ Hn2]. apply N.ltb_lt in Hn2.
      cbn [ser_s] in Hyp. apply ocat_some_l in Hyp as (yf & Hyf & ->).
      intros rest p L HL. rewrite flat_app, <- app_assoc.
      rewrite (bind_ok _ _ _ _ _ (datatype_map_head n _ p L Hn2)). cbn [is_map_type].
      rewrite app_assoc, <- flat_app. now apply Hrp. }
    cbn [fst snd]. unfold adj_value.
    apply reads_bind_nil with (None, Some 0); [apply adj_next_done|]. cbv iota. cbn [fst].
    rewrite N2Nat.id. destruct k; [contradiction|apply reads_ret..].
Qed.
