(* Proofs/TokenFacts.v — C11, part 1: tokenising arbitrary bytes.  Every call of Tokenizer::next
   either ends the iteration or consumes at least one byte (plus the payload of a string token);
   an error drains the input.  Hence |tokens| <= |bytes|, at most one error and it is last, and the
   fuel S |bytes| never runs out. *)
From MC Require Import Bytes BytesFacts Monad Utf8 Half Decoder DecoderFacts AdvFacts Encoder Text Token Tokenizer.
From Coq Require Import Lia.
Local Open Scope N_scope.

Definition payload (t : token) : N := match t with TkBytes b | TkString b => len b | _ => 0 end.
Definition tokw (t : token) : N := 1 + payload t.

(* datatype() only looks *)
Lemma type_of_state n s r s' : type_of n s = (r, s') ->
  s' = s /\ ((exists t, r = Ok t) \/ r = Err EndOfInput).
Proof.
  unfold type_of.
  repeat match goal with |- context [if ?c then _ else _] => destruct c end;
    unfold ret, bind, peek;
    try (intros [= <- <-]; split; [reflexivity|left; eauto]);
    destruct (drest s) as [|? [|? ?]]; intros [= <- <-]; (split; [reflexivity|]); eauto.
Qed.

Lemma datatype_state s r s' : datatype s = (r, s') ->
  s' = s /\ ((exists t, r = Ok t /\ drest s <> []) \/ r = Err EndOfInput).
Proof.
  unfold datatype, bind, current. destruct (drest s) as [|b t] eqn:D.
  - intros [= <- <-]. split; [reflexivity|right; reflexivity].
  - intro E. apply type_of_state in E. destruct E as [-> [[t' ->]| ->]]; split; auto.
    left. exists t'. split; [reflexivity|]. discriminate.
Qed.

Definition tok_outcome (s : dst) (r : result token) (s' : dst) : Prop :=
  exists pre, drest s = pre ++ drest s' /\ dpos s' = dpos s + len pre /\ dlen s' = dlen s
              /\ ((exists t, r = Ok t /\ tokw t <= len pre) \/ (exists e, r = Err e)).

Lemma skip_byte_outcome s t : wfd s -> dlen s < two64 -> drest s <> [] ->
  forall r s', (skip_byte ;;; ret t) s = (r, s') -> payload t = 0 -> tok_outcome s r s'.
Proof.
  intros Hw HL Hne r s' E Hp. unfold bind, skip_byte, ret in E.
  destruct (drest s) as [|b tl0] eqn:D; [congruence|].
  unfold wfd in Hw. rewrite D, len_cons in Hw.
  destruct (N.ltb_spec (dpos s + 1) two64); [|lia].
  injection E as <- <-. exists [b]. cbn [drest dpos dlen tl app]. rewrite D.
  split; [reflexivity|]. split; [rewrite len_cons, len_nil; lia|]. split; [reflexivity|].
  left. exists t. split; [reflexivity|]. unfold tokw. change (len [b]) with 1. lia.
Qed.

Lemma adv_outcome (m : M token) s r s' : adv tokw m -> m s = (r, s') -> tok_outcome s r s'.
Proof. intros Ha E. exact (Ha _ _ _ E). Qed.

Lemma dec_token_outcome c s r s' : wfd s -> dlen s < two64 ->
  dec_token c s = (r, s') -> tok_outcome s r s'.
Proof.
  intros Hw HL E. unfold dec_token in E. unfold bind at 1 in E.
  destruct (datatype s) as [rt s0] eqn:D. apply datatype_state in D. destruct D as [-> [[t [-> Hne]]| ->]].
  2:{ injection E as <- <-. exists []. rewrite len_nil. cbn. repeat (split; [first [reflexivity|lia]|]). right. eauto. }
  destruct t;
    try (eapply skip_byte_outcome; [exact Hw|exact HL|exact Hne|exact E|reflexivity]);
    try (eapply adv_outcome; [|exact E]; unfold tokw;
         first [ eapply adv_fmap; [first [apply adv_dec_bool|apply adv_dec_uint|apply adv_dec_sint|apply adv_dec_int
                                         |apply adv_dec_f16|apply adv_dec_f32|apply adv_dec_f64|apply adv_dec_bytes|apply adv_dec_str
                                         |apply adv_dec_tag|apply adv_dec_simple]|];
                 intros; cbn [payload]; cbn beta; lia
               | eapply adv_bind; [apply adv_dec_container|]; intros [n|]; [apply adv_ret; cbn [payload]; lia|apply adv_fail]
               | apply adv_fail ]).
Qed.

(* an exhausted input: end of input, position unchanged *)
Lemma dec_token_nil c p L : dec_token c (mkdst p [] L) = (Err EndOfInput, mkdst p [] L).
Proof. reflexivity. Qed.

Lemma tok_next_drained c L : tok_next c (drained L) = (Ok None, drained L).
Proof. reflexivity. Qed.

(* what one call of Iterator::next does *)
Inductive next_spec (s : dst) : result (option titem) * dst -> Prop :=
| ns_end : next_spec s (Ok None, drained (dlen s))
| ns_tok t s' pre : drest s = pre ++ drest s' -> wfd s' -> dlen s' = dlen s -> tokw t <= len pre ->
    next_spec s (Ok (Some (IOk t)), s')
| ns_err e : drest s <> [] -> e <> EndOfInput -> next_spec s (Ok (Some (IErr e)), drained (dlen s)).

Lemma tok_next_spec c s : wfd s -> dlen s < two64 -> next_spec s (tok_next c s).
Proof.
  intros Hw HL. unfold tok_next, token_step. destruct (dec_token c s) as [r s'] eqn:E.
  pose proof (dec_token_outcome c s r s' Hw HL E) as (pre & P1 & P2 & P3 & [(t & -> & Ht)|(e & ->)]).
  - apply ns_tok with pre; auto. unfold wfd in *. rewrite P1, len_app in Hw. lia.
  - rewrite P3. destruct e; try (apply ns_err; [|discriminate]; intro D0;
      destruct s as [p rs L]; cbn [drest] in D0; subst rs; rewrite dec_token_nil in E; discriminate).
    apply ns_end.
Qed.

(* total weight of a token list: one per item plus string payloads *)
Definition itemw (i : titem) : N := match i with IOk t => tokw t | IErr _ => 1 end.
Definition weight (l : list titem) : N := fold_right (fun i a => itemw i + a) 0 l.

(* nothing follows an error item *)
Fixpoint err_last (l : list titem) : bool :=
  match l with
  | [] => true
  | IOk _ :: r => err_last r
  | IErr _ :: r => match r with [] => true | _ => false end
  end.

Lemma tokenise_from_total c fuel : forall s, wfd s -> dlen s < two64 -> (length (drest s) < fuel)%nat ->
  exists l, tokenise_from c fuel s = Ok l /\ weight l <= len (drest s) /\ err_last l = true.
Proof.
  induction fuel as [|fuel IH]; intros s Hw HL Hf; [lia|].
  cbn [tokenise_from]. destruct (tok_next_spec c s Hw HL) as [|t s' pre P1 P2 P3 P4|e Hne He].
  - exists []. cbn. split; [reflexivity|]. split; [lia|reflexivity].
  - assert (Hlen: (length (drest s') < fuel)%nat).
    { rewrite P1, app_length in Hf. unfold tokw in P4. unfold len in P4. lia. }
    destruct (IH s' P2 ltac:(lia) Hlen) as (l & -> & Wl & El).
    exists (IOk t :: l). split; [reflexivity|]. split; [|exact El].
    cbn [weight fold_right itemw]. fold (weight l). rewrite P1, len_app. lia.
  - destruct fuel as [|fuel]; [destruct (drest s); [congruence|cbn in Hf; lia]|].
    cbn [tokenise_from]. rewrite tok_next_drained.
    exists [IErr e]. split; [reflexivity|]. split; [|reflexivity].
    cbn. destruct (drest s); [congruence|]. rewrite len_cons. lia.
Qed.

Lemma weight_length l : N.of_nat (length l) <= weight l.
Proof.
  induction l as [|i l IH]; cbn [length weight fold_right]; [lia|]. fold (weight l).
  assert (1 <= itemw i) by (destruct i; unfold itemw, tokw; lia). lia.
Qed.

Lemma err_last_spec l : err_last l = true -> forall l1 e l2, l = l1 ++ IErr e :: l2 -> l2 = [].
Proof.
  induction l as [|i l IH]; intros H l1 e l2 E.
  - destruct l1; discriminate.
  - destruct l1 as [|x l1]; cbn [app] in E; injection E as -> ->.
    + cbn in H. destruct l2; [reflexivity|discriminate].
    + destruct x; cbn [err_last] in H.
      * eapply IH; eauto.
      * destruct l1; discriminate.
Qed.

(* C11_bound *)
Theorem tokenise_bound c bs : len bs < two64 ->
  exists l, tokenise c bs = Ok l
         /\ (length l <= length bs)%nat
         /\ weight l <= len bs
         /\ (forall l1 e l2, l = l1 ++ IErr e :: l2 -> l2 = []).
Proof.
  intro HL. unfold tokenise.
  destruct (tokenise_from_total c (S (length bs)) (start bs) (wfd_start bs) HL ltac:(cbn; lia)) as (l & E & W & EL).
  exists l. split; [exact E|]. cbn [start drest] in W. split; [|split; [exact W|now apply err_last_spec]].
  pose proof (weight_length l). unfold len in *. lia.
Qed.

(* ---- the numbers in tokens read from bytes (< 256 each) are in the range of their Rust types ---- *)
Definition zsmall (z : Z) : bool := ((-9223372036854775808 <=? z) && (z <=? 9223372036854775807))%Z.
Definition tok_small (t : token) : bool :=
  match t with
  | TkU8 n | TkU16 n | TkU32 n | TkU64 n | TkArray n | TkMap n | TkTag n => n <? two64
  | TkI8 z | TkI16 z | TkI32 z | TkI64 z => zsmall z
  | TkInt i => snd i <? two64
  | TkSimple n => n <? 256
  | _ => true
  end.

Lemma bytes_ok_app a b : bytes_ok (a ++ b) = bytes_ok a && bytes_ok b.
Proof. unfold bytes_ok. apply forallb_app. Qed.

Lemma of_be_lt a : bytes_ok a = true -> of_be a < 256 ^ len a.
Proof.
  induction a as [|x a IH] using rev_ind; intro H.
  - cbn. lia.
  - rewrite bytes_ok_app in H. apply andb_prop in H as [H1 H2]. specialize (IH H1).
    cbn [bytes_ok forallb byte_ok] in H2. rewrite andb_true_r in H2. apply N.ltb_lt in H2.
    rewrite of_be_app, len_app. change (len [x]) with 1. change (of_be [x]) with (0 * 256 + x).
    rewrite N.pow_add_r, N.pow_1_r. set (p := 256 ^ len a) in *. nia.
Qed.

Lemma adv_bytes_ok {A} (w : A -> N) m s r s' : adv w m -> m s = (r, s') ->
  bytes_ok (drest s) = true -> bytes_ok (drest s') = true.
Proof.
  intros Ha E H. destruct (Ha _ _ _ E) as (pre & P1 & _). rewrite P1, bytes_ok_app in H.
  now apply andb_prop in H as [_ H].
Qed.

Lemma read_small s b s' : bytes_ok (drest s) = true -> read s = (Ok b, s') -> b < 256.
Proof.
  unfold read. destruct (drest s) as [|x t]; intros H [= <- <-].
  cbn [bytes_ok forallb] in H. apply andb_prop in H as [H _]. now apply N.ltb_lt in H.
Qed.

Lemma read_be_small k s n s' : bytes_ok (drest s) = true -> (k <= 8)%nat ->
  read_be k s = (Ok n, s') -> n < two64.
Proof.
  intros H Hk. unfold read_be, fmap, bind, read_slice.
  destruct (dlen s <? dpos s); [discriminate|].
  destruct (take (drest s) (N.of_nat k)) as [[a t]|] eqn:T; [|discriminate].
  intros [= <- <-]. apply take_spec in T as [T1 T2]. rewrite T1, bytes_ok_app in H.
  apply andb_prop in H as [H _]. apply of_be_lt in H. rewrite T2 in H.
  eapply N.lt_le_trans; [exact H|]. change two64 with (256 ^ 8). apply N.pow_le_mono_r; lia.
Qed.

Lemma unsigned_small b s n s' : bytes_ok (drest s) = true -> unsigned b s = (Ok n, s') -> n < two64.
Proof.
  intro H. unfold unsigned.
  destruct (N.leb_spec b 23); [intros [= <- <-]; unfold two64; lia|].
  destruct (b =? 24); [intro E; apply read_small in E; [unfold two64; lia|exact H]|].
  destruct (b =? 25); [apply read_be_small; [exact H|lia]|].
  destruct (b =? 26); [apply read_be_small; [exact H|lia]|].
  destruct (b =? 27); [apply read_be_small; [exact H|lia]|].
  intro E. destruct (mismatch_is_err (A:=N) b s) as (e & s0 & E0). congruence.
Qed.

Lemma bind_ok_inv {A B} (m : M A) (f : A -> M B) s b s' : bind m f s = (Ok b, s') ->
  exists a s1, m s = (Ok a, s1) /\ f a s1 = (Ok b, s').
Proof. unfold bind. destruct (m s) as [[a| | |] s1]; intro E; try discriminate. eauto. Qed.

Lemma fmap_ok_inv {A B} (g : A -> B) (m : M A) s b s' : fmap g m s = (Ok b, s') ->
  exists a, m s = (Ok a, s') /\ b = g a.
Proof. intro E. apply bind_ok_inv in E as (a & s1 & E1 & E2). injection E2 as <- <-. eauto. Qed.

Lemma try_as_ok_inv max n s a s' : try_as max n s = (Ok a, s') -> a = n /\ n <= max.
Proof. unfold try_as. destruct (N.leb_spec n max); intros [= <- <-]; auto. Qed.

Lemma mismatch_not_ok {A} b s (a : A) s' : mismatch b s = (Ok a, s') -> False.
Proof. intro E. destruct (mismatch_is_err (A:=A) b s) as (e & s0 & E0). congruence. Qed.

Lemma dec_uint_le max s n s' : dec_uint max s = (Ok n, s') -> n <= max.
Proof.
  unfold dec_uint. intro E. apply bind_ok_inv in E as (b & s1 & _ & E).
  apply bind_ok_inv in E as (x & s2 & _ & E). now apply try_as_ok_inv in E as [-> H].
Qed.

Lemma dec_sint_range max s z s' : dec_sint max s = (Ok z, s') -> (-1 - Z.of_N max <= z <= Z.of_N max)%Z.
Proof.
  unfold dec_sint. intro E. apply bind_ok_inv in E as (b & s1 & _ & E).
  destruct (b <=? 27).
  - apply bind_ok_inv in E as (x & s2 & _ & E). apply bind_ok_inv in E as (y & s3 & E & E').
    apply try_as_ok_inv in E as [-> H]. injection E' as <- <-. lia.
  - destruct ((32 <=? b) && (b <=? 59)).
    + apply bind_ok_inv in E as (x & s2 & _ & E). apply bind_ok_inv in E as (y & s3 & E & E').
      apply try_as_ok_inv in E as [-> H]. unfold ret in E'.
      assert (Hz: z = (-1 - Z.of_N x)%Z) by congruence. subst z. lia.
    + now apply mismatch_not_ok in E.
Qed.

Lemma dec_token_small c s t s' : bytes_ok (drest s) = true -> dec_token c s = (Ok t, s') -> tok_small t = true.
Proof.
  intros H E. unfold dec_token in E. apply bind_ok_inv in E as (ty & s0 & D & E).
  apply datatype_state in D as [-> _].
  destruct ty; try (apply fmap_ok_inv in E as (a & E & ->)); cbn [tok_small]; try reflexivity;
    try (apply bind_ok_inv in E as (u & s1 & _ & E); injection E as <- <-; reflexivity).
  - apply dec_uint_le in E. apply N.ltb_lt. unfold two64. lia.
  - apply dec_uint_le in E. apply N.ltb_lt. unfold two64. lia.
  - apply dec_uint_le in E. apply N.ltb_lt. unfold two64. lia.
  - apply dec_uint_le in E. apply N.ltb_lt. unfold two64. lia.
  - apply dec_sint_range in E. unfold zsmall. apply andb_true_intro. split; apply Z.leb_le; lia.
  - apply dec_sint_range in E. unfold zsmall. apply andb_true_intro. split; apply Z.leb_le; lia.
  - apply dec_sint_range in E. unfold zsmall. apply andb_true_intro. split; apply Z.leb_le; lia.
  - apply dec_sint_range in E. unfold zsmall. apply andb_true_intro. split; apply Z.leb_le; lia.
  - (* Int *) unfold dec_int in E. apply bind_ok_inv in E as (b & s1 & R & E).
    assert (H1: bytes_ok (drest s1) = true) by (eapply adv_bytes_ok; [apply adv_read|exact R|exact H]).
    destruct (b <=? 27).
    + apply bind_ok_inv in E as (x & s2 & U & E). injection E as <- <-. cbn [snd]. apply N.ltb_lt. eapply unsigned_small; eauto.
    + destruct ((32 <=? b) && (b <=? 59)); [|now apply mismatch_not_ok in E].
      apply bind_ok_inv in E as (x & s2 & U & E). injection E as <- <-. cbn [snd]. apply N.ltb_lt. eapply unsigned_small; eauto.
  - (* Simple *) unfold dec_simple in E. apply bind_ok_inv in E as (b & s1 & R & E).
    assert (H1: bytes_ok (drest s1) = true) by (eapply adv_bytes_ok; [apply adv_read|exact R|exact H]).
    pose proof (read_small _ _ _ H R) as Hb.
    destruct ((224 <=? b) && (b <=? 243)); [injection E as <- <-; apply N.ltb_lt; lia|].
    destruct (b =? 248); [|now apply mismatch_not_ok in E].
    apply N.ltb_lt. eapply read_small; eauto.
  - (* Array *) apply bind_ok_inv in E as (o & s1 & C & E). destruct o as [n|]; [|discriminate]. injection E as <- <-.
    cbn [tok_small]. unfold dec_array, dec_container in C. apply bind_ok_inv in C as (b & s2 & R & C).
    assert (H1: bytes_ok (drest s2) = true) by (eapply adv_bytes_ok; [apply adv_read|exact R|exact H]).
    destruct (negb (major b =? 128)); [now apply mismatch_not_ok in C|]. destruct (info b =? 31); [discriminate|].
    apply bind_ok_inv in C as (x & s3 & U & C). injection C as <- <-. apply N.ltb_lt. eapply unsigned_small; eauto.
  - (* Map *) apply bind_ok_inv in E as (o & s1 & C & E). destruct o as [n|]; [|discriminate]. injection E as <- <-.
    cbn [tok_small]. unfold dec_map, dec_container in C. apply bind_ok_inv in C as (b & s2 & R & C).
    assert (H1: bytes_ok (drest s2) = true) by (eapply adv_bytes_ok; [apply adv_read|exact R|exact H]).
    destruct (negb (major b =? 160)); [now apply mismatch_not_ok in C|]. destruct (info b =? 31); [discriminate|].
    apply bind_ok_inv in C as (x & s3 & U & C). injection C as <- <-. apply N.ltb_lt. eapply unsigned_small; eauto.
  - (* Tag *) unfold dec_tag in E. apply bind_ok_inv in E as (b & s1 & R & E).
    assert (H1: bytes_ok (drest s1) = true) by (eapply adv_bytes_ok; [apply adv_read|exact R|exact H]).
    destruct (negb (major b =? 192)); [now apply mismatch_not_ok in E|].
    apply N.ltb_lt. eapply unsigned_small; eauto.
  - discriminate.
Qed.

Definition item_small (i : titem) : bool := match i with IOk t => tok_small t | IErr _ => true end.

Lemma tok_next_ok_inv c s t s' : tok_next c s = (Ok (Some (IOk t)), s') -> dec_token c s = (Ok t, s').
Proof.
  unfold tok_next, token_step. destruct (dec_token c s) as [[a|e| |] s1]; try discriminate.
  - intros [= <- <-]. reflexivity.
  - destruct e; discriminate.
Qed.

Lemma tokenise_small c fuel : forall s l, wfd s -> dlen s < two64 -> bytes_ok (drest s) = true ->
  tokenise_from c fuel s = Ok l -> forallb item_small l = true.
Proof.
  induction fuel as [|fuel IH]; intros s l Hw HL Hb E; [discriminate|].
  cbn [tokenise_from] in E. pose proof (tok_next_spec c s Hw HL) as S0.
  destruct (tok_next c s) as [r s'] eqn:T. inversion S0 as [|t s1 pre P1 P2 P3 P4|e Hne He]; subst.
  - injection E as <-. reflexivity.
  - destruct (tokenise_from c fuel s') as [l'| | |] eqn:E'; try discriminate. injection E as <-.
    cbn [forallb item_small]. apply tok_next_ok_inv in T.
    rewrite (dec_token_small c s t s' Hb T). cbn [andb]. apply (IH s'); auto; [lia|].
    rewrite P1, bytes_ok_app in Hb. now apply andb_prop in Hb as [_ Hb].
  - destruct (tokenise_from c fuel (drained (dlen s))) as [l'| | |] eqn:E'; try discriminate. injection E as <-.
    destruct fuel as [|fuel']; [discriminate|]. cbn [tokenise_from] in E'. rewrite tok_next_drained in E'.
    injection E' as <-. reflexivity.
Qed.
