(* Proofs/RenderFacts.v — C19, part 2: on the tokens of a well-formed item the stack machine writes
   exactly the documented notation (Spec/Diag.v render): a simulation of the recursive renderer by the
   control stack.  `runs L k o`: the list machine started on tokens L with stack k finishes with output o. *)
From MC Require Import Bytes BytesFacts Monad Cbor Utf8 Half Decoder AdvFacts Text TextFacts Token Tokenizer Toks Diag
  TokenFacts MachFacts DisplayFacts RetokFacts.
From Coq Require Import Lia.
Local Open Scope nat_scope.

(* more fuel does not change a finished run *)
Lemma emit_done_inv p r o : emit p r = DDone o -> exists o', r = DDone o' /\ o = p ++ o'.
Proof. destruct r; cbn; intro H; try discriminate. injection H as <-. eauto. Qed.

Lemma lm_mono_le : forall f L k o, lm f L k = DDone o -> forall g, f <= g -> lm g L k = DDone o.
Proof.
  induction f as [|f IH0]; intros L k o H g Hle; [discriminate|].
  destruct g as [|g]; [lia|].
  assert (IH: forall L k o, lm f L k = DDone o -> lm g L k = DDone o) by (intros; eapply IH0; eauto; lia).
  clear IH0 Hle.
  revert H. destruct k as [|e k].
  - lm_step. destruct L as [|x r]; cbn [hd_error]; auto.
  - assert (EM: forall p L' k' o', emit p (lm f L' k') = DDone o' -> emit p (lm g L' k') = DDone o').
    { intros p L' k' o' H. apply emit_done_inv in H as (o2 & H & ->). apply IH in H. rewrite H. reflexivity. }
    destruct e as [| |oo|oo| | |s|s]; lm_step.
    + destruct L as [|[t|e] r]; cbn [hd_error tl]; auto.
      destruct t; auto; lm_step; destruct (is_break (hd_error r)); lm_step; auto.
    + apply IH.
    + destruct oo as [n|].
      * destruct (N.eqb n 0); [apply EM|]. destruct (N.eqb n 1); apply IH.
      * destruct L as [|[t|e] r]; cbn [hd_error tl]; auto. destruct t; auto; lm_step; auto.
    + destruct oo as [n|].
      * destruct (N.eqb n 0); [apply EM|]. destruct (N.eqb n 1); apply IH.
      * destruct L as [|[t|e] r]; cbn [hd_error tl]; auto. destruct t; auto; lm_step; auto.
    + destruct L as [|[t|e] r]; cbn [hd_error tl]; auto. destruct t; auto; lm_step; auto.
    + destruct L as [|[t|e] r]; cbn [hd_error tl]; auto. destruct t; auto; lm_step; auto.
    + apply EM.
    + destruct L as [|[t|e] r]; cbn [hd_error tl]; auto. destruct t; auto.
Qed.

Definition runs (L : list titem) (k : list elt) (o : list piece) : Prop := exists f, lm f L k = DDone o.

Lemma runs_det L k o1 o2 : runs L k o1 -> runs L k o2 -> o1 = o2.
Proof.
  intros [f1 H1] [f2 H2]. pose proof (lm_mono_le _ _ _ _ H1 (f1 + f2) ltac:(lia)) as H1'. pose proof (lm_mono_le _ _ _ _ H2 (f1 + f2) ltac:(lia)) as H2'. congruence.
Qed.

Lemma runs_end : runs [] [] [].
Proof. exists 1. reflexivity. Qed.

(* one machine step, backwards *)
Ltac step H := destruct H as [f H]; exists (S f); unfold lm in *; cbn [mach with_it lpeek lnext hd_error tl is_break]; rewrite ?H; try reflexivity.

Lemma run_outer x L o : runs (x :: L) [EN] o -> runs (x :: L) [] o.
Proof. intro H. step H. Qed.

Lemma run_S s L k o : runs L k o -> runs L (ES s :: k) ([PLit s] ++ o).
Proof. intro H. step H. Qed.

Lemma run_X_nil s k o : runs [] k o -> runs [] (EX s :: k) o.
Proof. intro H. step H. Qed.

Lemma run_X_break s L k o : runs (IOk TkBreak :: L) k o -> runs (IOk TkBreak :: L) (EX s :: k) o.
Proof. intro H. step H. Qed.

Lemma run_X_tok s t L k o : t <> TkBreak -> runs (IOk t :: L) k o -> runs (IOk t :: L) (EX s :: k) ([PLit s] ++ o).
Proof. intros Ht H. step H. destruct t; try reflexivity. congruence. Qed.

Lemma run_T L k o : runs L (EN :: ES [41%N] :: k) o -> runs L (ET :: k) o.
Proof. intro H. step H. Qed.

Lemma run_A0 L k o : runs L k o -> runs L (EA (Some 0%N) :: k) ([PLit [93%N]] ++ o).
Proof. intro H. step H. Qed.
Lemma run_M0 L k o : runs L k o -> runs L (EM (Some 0%N) :: k) ([PLit [125%N]] ++ o).
Proof. intro H. step H. Qed.

Lemma run_A1 L k o : runs L (EN :: EA (Some 0%N) :: k) o -> runs L (EA (Some 1%N) :: k) o.
Proof. intro H. step H. Qed.
Lemma run_M1 L k o : runs L (EN :: ES l_colon :: EN :: EM (Some 0%N) :: k) o -> runs L (EM (Some 1%N) :: k) o.
Proof. intro H. step H. Qed.

Lemma run_An n L k o : (2 <= n)%N -> runs L (EN :: ES l_comma :: EA (Some (n - 1)%N) :: k) o -> runs L (EA (Some n) :: k) o.
Proof.
  intros Hn H. step H. destruct (N.eqb_spec n 0); [lia|]. destruct (N.eqb_spec n 1); [lia|]. reflexivity.
Qed.
Lemma run_Mn n L k o : (2 <= n)%N -> runs L (EN :: ES l_colon :: EN :: ES l_comma :: EM (Some (n - 1)%N) :: k) o -> runs L (EM (Some n) :: k) o.
Proof.
  intros Hn H. step H. destruct (N.eqb_spec n 0); [lia|]. destruct (N.eqb_spec n 1); [lia|]. reflexivity.
Qed.

(* ---- the EN step on each kind of token ---- *)
Definition scalar (t : token) : bool :=
  match t with
  | TkArray _ | TkMap _ | TkTag _ | TkBeginBytes | TkBeginString | TkBeginArray | TkBeginMap => false
  | _ => true
  end.

Lemma run_N_scalar t L k o : scalar t = true -> runs L k o -> runs (IOk t :: L) (EN :: k) (tok_text t ++ o).
Proof. intros Hs H. step H. destruct t; try discriminate; reflexivity. Qed.
Lemma run_N_array n L k o : runs L (EA (Some n) :: k) o -> runs (IOk (TkArray n) :: L) (EN :: k) ([PLit [91%N]] ++ o).
Proof. intro H. step H. Qed.
Lemma run_N_map n L k o : runs L (EM (Some n) :: k) o -> runs (IOk (TkMap n) :: L) (EN :: k) ([PLit [123%N]] ++ o).
Proof. intro H. step H. Qed.
Lemma run_N_barray L k o : runs L (EA None :: k) o -> runs (IOk TkBeginArray :: L) (EN :: k) ([PLit [91%N;95%N;32%N]] ++ o).
Proof. intro H. step H. Qed.
Lemma run_N_bmap L k o : runs L (EM None :: k) o -> runs (IOk TkBeginMap :: L) (EN :: k) ([PLit [123%N;95%N;32%N]] ++ o).
Proof. intro H. step H. Qed.
Lemma run_N_tag n L k o : runs L (ET :: k) o -> runs (IOk (TkTag n) :: L) (EN :: k) ([PLit (dec_n n ++ [40%N])] ++ o).
Proof. intro H. step H. Qed.
Lemma run_N_bbytes_empty L k o : runs L k o -> runs (IOk TkBeginBytes :: IOk TkBreak :: L) (EN :: k) ([PLit [39%N;39%N;95%N]] ++ o).
Proof. intro H. step H. Qed.
Lemma run_N_btext_empty L k o : runs L k o -> runs (IOk TkBeginString :: IOk TkBreak :: L) (EN :: k) ([PLit [34%N;34%N;95%N]] ++ o).
Proof. intro H. step H. Qed.
Lemma run_N_bbytes t L k o : t <> TkBreak -> runs (IOk t :: L) (EB :: k) o ->
  runs (IOk TkBeginBytes :: IOk t :: L) (EN :: k) ([PLit [40%N;95%N;32%N]] ++ o).
Proof. intros Ht H. step H. destruct t; try reflexivity. congruence. Qed.
Lemma run_N_btext t L k o : t <> TkBreak -> runs (IOk t :: L) (ED :: k) o ->
  runs (IOk TkBeginString :: IOk t :: L) (EN :: k) ([PLit [40%N;95%N;32%N]] ++ o).
Proof. intros Ht H. step H. destruct t; try reflexivity. congruence. Qed.

(* ---- blocks: token lists that behave like one item ---- *)
Definition starts_ok (ts : list token) : Prop := exists t ts', ts = t :: ts' /\ t <> TkBreak.
Definition block (b : list token * list piece) : Prop :=
  starts_ok (fst b) /\
  forall rest k o, runs rest k o -> runs (map IOk (fst b) ++ rest) (EN :: k) (snd b ++ o).

Lemma block_scalar t : scalar t = true -> t <> TkBreak -> block ([t], tok_text t).
Proof.
  intros Hs Hb. split; [exists t, []; auto|]. intros rest k o H. cbn [fst snd map app]. now apply run_N_scalar.
Qed.

Definition jn (rs : list (list piece)) : list piece := join d_comma rs.

Lemma join_cons2 {A} (sep : list A) x y r : join sep (x :: y :: r) = x ++ sep ++ join sep (y :: r).
Proof. reflexivity. Qed.

(* an indefinite container: element E re-pushes itself until Break *)
Section Indef.
  Variable E : elt.
  Variable closer : bytes.
  Hypothesis HE_break : forall L k o, runs L k o -> runs (IOk TkBreak :: L) (E :: k) ([PLit closer] ++ o).
  Hypothesis HE_more : forall t L k o, t <> TkBreak ->
    runs (IOk t :: L) (EN :: EX l_comma :: E :: k) o -> runs (IOk t :: L) (E :: k) o.

  Lemma loop_indef bl : Forall block bl -> forall rest k o, runs rest k o ->
    runs (map IOk (flat_map fst bl) ++ IOk TkBreak :: rest) (E :: k) (jn (map snd bl) ++ [PLit closer] ++ o).
  Proof.
    induction 1 as [|[ts r] bl [(t & ts' & Ets & Ht) Hb] Hbl IH]; intros rest k o H; cbn [flat_map map app fst snd] in *.
    - now apply HE_break.
    - subst ts. rewrite map_app, <- app_assoc. cbn [map app]. apply HE_more; [exact Ht|].
      specialize (IH rest k o H).
      change (IOk t :: map IOk ts' ++ ?x) with (map IOk (t :: ts') ++ x).
      destruct bl as [|[ts2 r2] bl2].
      + cbn [flat_map map app jn join] in *. rewrite <- ?app_assoc. apply Hb. now apply run_X_break.
      + assert (S2: starts_ok ts2) by (inversion Hbl as [|? ? [S0 _] _]; exact S0).
        destruct S2 as (t2 & ts2' & -> & Ht2).
        cbn [map snd] in *. unfold jn in *. rewrite join_cons2, <- !app_assoc. apply Hb.
        cbn [flat_map fst map app] in *. rewrite map_app, <- app_assoc in IH. cbn [map app] in IH.
        rewrite map_app, <- app_assoc. cbn [map app].
        exact (run_X_tok l_comma t2 _ _ _ Ht2 IH).
  Qed.
End Indef.

Lemma HA_break L k o : runs L k o -> runs (IOk TkBreak :: L) (EA None :: k) ([PLit [93%N]] ++ o).
Proof. intro H. step H. Qed.
Lemma HA_more t L k o : t <> TkBreak -> runs (IOk t :: L) (EN :: EX l_comma :: EA None :: k) o -> runs (IOk t :: L) (EA None :: k) o.
Proof. intros Ht H. step H. destruct t; try reflexivity. congruence. Qed.
Lemma HB_break L k o : runs L k o -> runs (IOk TkBreak :: L) (EB :: k) ([PLit [41%N]] ++ o).
Proof. intro H. step H. Qed.
Lemma HB_more t L k o : t <> TkBreak -> runs (IOk t :: L) (EN :: EX l_comma :: EB :: k) o -> runs (IOk t :: L) (EB :: k) o.
Proof. intros Ht H. step H. destruct t; try reflexivity. congruence. Qed.
Lemma HD_break L k o : runs L k o -> runs (IOk TkBreak :: L) (ED :: k) ([PLit [41%N]] ++ o).
Proof. intro H. step H. Qed.
Lemma HD_more t L k o : t <> TkBreak -> runs (IOk t :: L) (EN :: EX l_comma :: ED :: k) o -> runs (IOk t :: L) (ED :: k) o.
Proof. intros Ht H. step H. destruct t; try reflexivity. congruence. Qed.

(* a definite array with |bl| elements *)
Lemma loop_def bl : Forall block bl -> forall rest k o, runs rest k o ->
  runs (map IOk (flat_map fst bl) ++ rest) (EA (Some (len bl)) :: k) (jn (map snd bl) ++ [PLit [93%N]] ++ o).
Proof.
  induction 1 as [|[ts r] bl [_ Hb] Hbl IH]; intros rest k o H; cbn [flat_map map app fst snd] in *.
  - now apply run_A0.
  - specialize (IH rest k o H). rewrite map_app, <- app_assoc.
    destruct bl as [|b2 bl2].
    + change (len [(ts, r)]) with 1%N. apply run_A1. cbn [flat_map map app jn join] in *. rewrite <- ?app_assoc. apply Hb. exact IH.
    + apply run_An; [rewrite !len_cons; lia|].
      replace (len ((ts, r) :: b2 :: bl2) - 1)%N with (len (b2 :: bl2)) by (rewrite (len_cons (ts, r)); lia).
      cbn [map snd]. unfold jn in *. rewrite join_cons2, <- !app_assoc. apply Hb. apply (run_S l_comma). exact IH.
Qed.

(* ---- maps: key/value pairs of blocks ---- *)
Definition blk := (list token * list piece)%type.
Definition ptoks (p : blk * blk) : list token := fst (fst p) ++ fst (snd p).
Definition prend (p : blk * blk) : list piece := snd (fst p) ++ d_colon ++ snd (snd p).
Definition pblock (p : blk * blk) : Prop := block (fst p) /\ block (snd p).

Lemma pblock_run p : pblock p -> forall rest k o, runs rest k o ->
  runs (map IOk (ptoks p) ++ rest) (EN :: ES l_colon :: EN :: k) (prend p ++ o).
Proof.
  intros [[_ Hk] [_ Hv]] rest k o H. unfold ptoks, prend. rewrite map_app, <- !app_assoc.
  apply Hk. apply (run_S l_colon). apply Hv. exact H.
Qed.

Lemma pblock_starts p : pblock p -> starts_ok (ptoks p).
Proof.
  intros [[(t & ts' & E & Ht) _] _]. unfold ptoks. rewrite E. exists t, (ts' ++ fst (snd p)). split; [reflexivity|exact Ht].
Qed.

Lemma loop_mdef prs : Forall pblock prs -> forall rest k o, runs rest k o ->
  runs (map IOk (flat_map ptoks prs) ++ rest) (EM (Some (len prs)) :: k) (jn (map prend prs) ++ [PLit [125%N]] ++ o).
Proof.
  induction 1 as [|p prs Hp Hprs IH]; intros rest k o H; cbn [flat_map map app] in *.
  - now apply run_M0.
  - specialize (IH rest k o H). rewrite map_app, <- app_assoc.
    destruct prs as [|p2 prs2].
    + change (len [p]) with 1%N. apply run_M1. cbn [flat_map map app jn join] in *. rewrite <- ?app_assoc.
      apply pblock_run; [exact Hp|]. exact IH.
    + apply run_Mn; [rewrite !len_cons; lia|].
      replace (len (p :: p2 :: prs2) - 1)%N with (len (p2 :: prs2)) by (rewrite (len_cons p); lia).
      unfold jn in *. cbn [map] in *. rewrite join_cons2, <- !app_assoc. apply pblock_run; [exact Hp|]. apply (run_S l_comma). exact IH.
Qed.

Lemma loop_mdef' prs n : n = len prs -> Forall pblock prs -> forall rest k o, runs rest k o ->
  runs (map IOk (flat_map ptoks prs) ++ rest) (EM (Some n) :: k) (jn (map prend prs) ++ [PLit [125%N]] ++ o).
Proof. intros ->. apply loop_mdef. Qed.

Lemma HM_break L k o : runs L k o -> runs (IOk TkBreak :: L) (EM None :: k) ([PLit [125%N]] ++ o).
Proof. intro H. step H. Qed.
Lemma HM_more t L k o : t <> TkBreak ->
  runs (IOk t :: L) (EN :: ES l_colon :: EN :: EX l_comma :: EM None :: k) o -> runs (IOk t :: L) (EM None :: k) o.
Proof. intros Ht H. step H. destruct t; try reflexivity. congruence. Qed.

Lemma loop_mindef prs : Forall pblock prs -> forall rest k o, runs rest k o ->
  runs (map IOk (flat_map ptoks prs) ++ IOk TkBreak :: rest) (EM None :: k) (jn (map prend prs) ++ [PLit [125%N]] ++ o).
Proof.
  induction 1 as [|p prs Hp Hprs IH]; intros rest k o H; cbn [flat_map map app] in *.
  - now apply HM_break.
  - specialize (IH rest k o H). rewrite map_app, <- app_assoc.
    destruct (pblock_starts p Hp) as (t & ts' & Ep & Ht). rewrite Ep at 1. cbn [map app]. apply HM_more; [exact Ht|].
    change (IOk t :: map IOk ts' ++ ?x) with (map IOk (t :: ts') ++ x). rewrite <- Ep.
    destruct prs as [|p2 prs2].
    + cbn [flat_map map app jn join] in *. rewrite <- ?app_assoc. apply pblock_run; [exact Hp|]. now apply run_X_break.
    + assert (S2: starts_ok (ptoks p2)) by (inversion Hprs; now apply pblock_starts).
      destruct S2 as (t2 & ts2' & E2 & Ht2).
      unfold jn in *. cbn [map] in *. rewrite join_cons2, <- !app_assoc. apply pblock_run; [exact Hp|].
      cbn [flat_map] in *. rewrite E2 in *. cbn [map app] in *.
      exact (run_X_tok l_comma t2 _ _ _ Ht2 IH).
Qed.

(* ---- pairing up an even-length list ---- *)
Fixpoint pair_up {A} (l : list A) : list (A * A) :=
  match l with a :: b :: r => (a, b) :: pair_up r | _ => [] end.

Lemma list_ind2 {A} (P : list A -> Prop) :
  P [] -> (forall a, P [a]) -> (forall a b l, P l -> P (a :: b :: l)) -> forall l, P l.
Proof.
  intros H0 H1 H2. fix IH 1. intros [|a [|b l]]; [exact H0|apply H1|apply H2, IH].
Qed.

Lemma even_len_cons2 {A} (a b : A) l : N.even (len (a :: b :: l)) = N.even (len l).
Proof. rewrite !len_cons. replace (1 + (1 + len l))%N with (2 + len l)%N by lia. rewrite N.even_add. change (N.even 2) with true. now destruct (N.even (len l)). Qed.

Lemma pair_up_len {A} (l : list A) : N.even (len l) = true -> (len l / 2)%N = len (pair_up l).
Proof.
  induction l as [| a | a b l IH] using list_ind2; intro H; cbn [pair_up]; [reflexivity|discriminate|].
  rewrite even_len_cons2 in H. rewrite !len_cons, <- (IH H).
  replace (1 + (1 + len l))%N with (len l + 1 * 2)%N by lia. rewrite N.div_add by lia. lia.
Qed.

Lemma pair_up_flat {A B} (f : A -> list B) l : N.even (len l) = true ->
  flat_map f l = flat_map (fun p => f (fst p) ++ f (snd p)) (pair_up l).
Proof.
  induction l as [| a | a b l IH] using list_ind2; intro H; cbn [pair_up flat_map fst snd]; [reflexivity|discriminate|].
  rewrite even_len_cons2 in H. rewrite <- (IH H), <- app_assoc. reflexivity.
Qed.

Lemma pair_up_pairs {A B} (g : A -> list B) colon l : N.even (len l) = true ->
  pairs colon (map g l) = map (fun p => g (fst p) ++ colon ++ g (snd p)) (pair_up l).
Proof.
  induction l as [| a | a b l IH] using list_ind2; intro H; cbn [pair_up map pairs fst snd]; [reflexivity|discriminate|].
  rewrite even_len_cons2 in H. now rewrite <- (IH H).
Qed.

Lemma pair_up_Forall {A} (P : A -> Prop) l : Forall P l -> Forall (fun p => P (fst p) /\ P (snd p)) (pair_up l).
Proof.
  induction l as [| a | a b l IH] using list_ind2; intro H; cbn [pair_up]; [constructor|constructor|].
  inversion H as [|? ? Ha H1]; subst. inversion H1 as [|? ? Hb H2]; subst. constructor; [split; assumption|now apply IH].
Qed.

(* ---- render32 equations ---- *)
Lemma map_join {A B} (f : A -> B) sep xs : map f (join sep xs) = join (map f sep) (map (map f) xs).
Proof.
  induction xs as [|x [|y r] IH]; cbn [join map]; [reflexivity|reflexivity|].
  rewrite !map_app. cbn [join map] in IH. now rewrite IH.
Qed.

Lemma map_pairs {A B} (f : A -> B) colon xs : map (map f) (pairs colon xs) = pairs (map f colon) (map (map f) xs).
Proof.
  induction xs as [| a | a b l IH] using list_ind2; cbn [pairs map]; [reflexivity|reflexivity|].
  now rewrite !map_app, IH.
Qed.

Lemma hex_spaced_join b : hex_spaced b = join [32%N] (map hex2 b).
Proof.
  induction b as [|x [|y r] IH]; [reflexivity|reflexivity|].
  rewrite hex_spaced_cons, IH. reflexivity.
Qed.

Lemma r32_array w es : render32 (EArray w es) = [PLit [91%N]] ++ jn (map render32 es) ++ [PLit [93%N]].
Proof. unfold render32. cbn [render]. rewrite !map_app, map_join, map_map. reflexivity. Qed.
Lemma r32_arrayI es : render32 (EArrayI es) = [PLit [91%N;95%N;32%N]] ++ jn (map render32 es) ++ [PLit [93%N]].
Proof. unfold render32. cbn [render]. rewrite !map_app, map_join, map_map. reflexivity. Qed.
Lemma r32_map w es : render32 (EMap w es) = [PLit [123%N]] ++ jn (pairs d_colon (map render32 es)) ++ [PLit [125%N]].
Proof. unfold render32. cbn [render]. rewrite !map_app, map_join, map_pairs, map_map. reflexivity. Qed.
Lemma r32_mapI es : render32 (EMapI es) = [PLit [123%N;95%N;32%N]] ++ jn (pairs d_colon (map render32 es)) ++ [PLit [125%N]].
Proof. unfold render32. cbn [render]. rewrite !map_app, map_join, map_pairs, map_map. reflexivity. Qed.
Lemma r32_tag w t e : render32 (ETag w t e) = [PLit (dec_n t ++ [40%N])] ++ render32 e ++ [PLit [41%N]].
Proof. unfold render32. cbn [render]. rewrite !map_app. reflexivity. Qed.

Lemma r32_chunks (f : bytes -> list piece) (cs : list chunk_t) : (forall b, map widen16 (f b) = f b) ->
  map widen16 (join d_comma (map (fun c => f (snd c)) cs)) = jn (map (fun c => f (snd c)) cs).
Proof.
  intro Hf. rewrite map_join, map_map. unfold jn. f_equal. apply map_ext. intro c. apply Hf.
Qed.

Lemma tok_text_uint w n : tok_text (uint_tok w n) = [PLit (dec_n n)].
Proof. destruct w; reflexivity. Qed.
Lemma tok_text_nint w n : tok_text (nint_tok w n) = [PLit (dec_z (-1 - Z.of_N n))].
Proof. destruct w; cbn [nint_tok]; repeat match goal with |- context [if ?c then _ else _] => destruct c end; reflexivity. Qed.
Lemma tok_text_simple n : tok_text (simple_tok n) = d_simple n.
Proof.
  unfold simple_tok, d_simple.
  destruct (N.eqb n 20); [reflexivity|]. destruct (N.eqb n 21); [reflexivity|].
  destruct (N.eqb n 22); [reflexivity|]. destruct (N.eqb n 23); reflexivity.
Qed.
Lemma tok_text_bytes b : tok_text (TkBytes b) = d_bytes b.
Proof. cbn [tok_text]. unfold d_bytes, lit. now rewrite hex_spaced_join. Qed.

Lemma scalar_uint w n : scalar (uint_tok w n) = true /\ uint_tok w n <> TkBreak.
Proof. destruct w; split; try reflexivity; discriminate. Qed.
Lemma scalar_nint w n : scalar (nint_tok w n) = true /\ nint_tok w n <> TkBreak.
Proof. destruct w; cbn [nint_tok]; repeat match goal with |- context [if ?c then _ else _] => destruct c end; split; try reflexivity; discriminate. Qed.
Lemma scalar_simple n : scalar (simple_tok n) = true /\ simple_tok n <> TkBreak.
Proof.
  unfold simple_tok. repeat match goal with |- context [if ?c then _ else _] => destruct c end; split; try reflexivity; discriminate.
Qed.

Lemma block_eq ts r r' : block (ts, r) -> r = r' -> block (ts, r').
Proof. now intros H <-. Qed.

Lemma widen_lit s : map widen16 [PLit s] = [PLit s].
Proof. reflexivity. Qed.

(* the per-item simulation: the tokens of e behave as one block that writes render32 e *)
Lemma item_block : forall e, wf e = true -> block (toks e, render32 e).
Proof.
  induction e as [w n|w n|w b|cs|w b|cs|w es IH|es IH|w es IH|es IH|w t e IH|n|b|b|b] using enc_ind';
    cbn [wf]; intro Hw; cbn [toks].
  - eapply block_eq; [apply block_scalar; apply scalar_uint|]. now rewrite tok_text_uint.
  - eapply block_eq; [apply block_scalar; apply scalar_nint|]. now rewrite tok_text_nint.
  - eapply block_eq; [apply block_scalar; [reflexivity|discriminate]|]. now rewrite tok_text_bytes.
  - (* indefinite bytes *)
    split; [exists TkBeginBytes, (map (fun c => TkBytes (snd c)) cs ++ [TkBreak]); split; [reflexivity|discriminate]|].
    intros rest k o H. cbn [fst snd]. unfold render32. cbn [render].
    destruct cs as [|c cs].
    + cbn [map app]. now apply run_N_bbytes_empty.
    + set (bl := map (fun c => ([TkBytes (snd c)], d_bytes (snd c))) (c :: cs)).
      assert (Hbl: Forall block bl).
      { apply Forall_forall. intros x Hx. apply in_map_iff in Hx as (c0 & <- & _).
        eapply block_eq; [apply block_scalar; [reflexivity|discriminate]|]. apply tok_text_bytes. }
      pose proof (loop_indef EB [41%N] HB_break HB_more bl Hbl rest k o H) as R.
      assert (E1: flat_map fst bl = map (fun c => TkBytes (snd c)) (c :: cs)).
      { unfold bl. rewrite flat_map_concat_map, map_map. cbn [fst]. clear. induction (c :: cs) as [|x l IHl]; cbn; [reflexivity|]. now rewrite IHl. }
      assert (E2: map snd bl = map (fun c => d_bytes (snd c)) (c :: cs)) by (unfold bl; now rewrite map_map).
      rewrite E1, E2 in R. rewrite !map_app, (r32_chunks d_bytes) by reflexivity. cbn [map app] in *.
      rewrite <- !app_assoc. apply run_N_bbytes; [discriminate|]. rewrite map_app, <- app_assoc. cbn [map app]. exact R.
  - eapply block_eq; [apply block_scalar; [reflexivity|discriminate]|]. reflexivity.
  - (* indefinite text *)
    split; [exists TkBeginString, (map (fun c => TkString (snd c)) cs ++ [TkBreak]); split; [reflexivity|discriminate]|].
    intros rest k o H. cbn [fst snd]. unfold render32. cbn [render].
    destruct cs as [|c cs].
    + cbn [map app]. now apply run_N_btext_empty.
    + set (bl := map (fun c => ([TkString (snd c)], d_text (snd c))) (c :: cs)).
      assert (Hbl: Forall block bl).
      { apply Forall_forall. intros x Hx. apply in_map_iff in Hx as (c0 & <- & _).
        eapply block_eq; [apply block_scalar; [reflexivity|discriminate]|]. reflexivity. }
      pose proof (loop_indef ED [41%N] HD_break HD_more bl Hbl rest k o H) as R.
      assert (E1: flat_map fst bl = map (fun c => TkString (snd c)) (c :: cs)).
      { unfold bl. rewrite flat_map_concat_map, map_map. cbn [fst]. clear. induction (c :: cs) as [|x l IHl]; cbn; [reflexivity|]. now rewrite IHl. }
      assert (E2: map snd bl = map (fun c => d_text (snd c)) (c :: cs)) by (unfold bl; now rewrite map_map).
      rewrite E1, E2 in R. rewrite !map_app, (r32_chunks d_text) by reflexivity. cbn [map app] in *.
      rewrite <- !app_assoc. apply run_N_btext; [discriminate|]. rewrite map_app, <- app_assoc. cbn [map app]. exact R.
  - (* definite array *)
    apply andb_prop in Hw as [_ Hw]. rewrite forallb_forall in Hw. rewrite Forall_forall in IH.
    split; [exists (TkArray (len es)), (flat_map toks es); split; [reflexivity|discriminate]|].
    intros rest k o H. cbn [fst snd]. rewrite r32_array.
    set (bl := map (fun e => (toks e, render32 e)) es).
    assert (Hbl: Forall block bl).
    { apply Forall_forall. intros x Hx. apply in_map_iff in Hx as (e0 & <- & Hin). apply IH; auto. }
    pose proof (loop_def bl Hbl rest k o H) as R.
    assert (E1: flat_map fst bl = flat_map toks es) by (unfold bl; rewrite !flat_map_concat_map, map_map; reflexivity).
    assert (E2: map snd bl = map render32 es) by (unfold bl; now rewrite map_map).
    assert (E3: len bl = len es) by (unfold bl; apply len_map).
    rewrite E1, E2, E3 in R. cbn [map app]. rewrite <- !app_assoc. apply run_N_array. exact R.
  - (* indefinite array *)
    rewrite forallb_forall in Hw. rewrite Forall_forall in IH.
    split; [exists TkBeginArray, (flat_map toks es ++ [TkBreak]); split; [reflexivity|discriminate]|].
    intros rest k o H. cbn [fst snd]. rewrite r32_arrayI.
    set (bl := map (fun e => (toks e, render32 e)) es).
    assert (Hbl: Forall block bl).
    { apply Forall_forall. intros x Hx. apply in_map_iff in Hx as (e0 & <- & Hin). apply IH; auto. }
    pose proof (loop_indef (EA None) [93%N] HA_break HA_more bl Hbl rest k o H) as R.
    assert (E1: flat_map fst bl = flat_map toks es) by (unfold bl; rewrite !flat_map_concat_map, map_map; reflexivity).
    assert (E2: map snd bl = map render32 es) by (unfold bl; now rewrite map_map).
    rewrite E1, E2 in R. cbn [map app]. rewrite <- !app_assoc. apply run_N_barray.
    rewrite map_app, <- app_assoc. cbn [map app]. exact R.
  - (* definite map *)
    apply andb_prop in Hw as [Hw0 Hw]. apply andb_prop in Hw0 as [Hev _].
    rewrite forallb_forall in Hw. rewrite Forall_forall in IH.
    split; [exists (TkMap (len es / 2)), (flat_map toks es); split; [reflexivity|discriminate]|].
    intros rest k o H. cbn [fst snd]. rewrite r32_map.
    set (prs := map (fun p => ((toks (fst p), render32 (fst p)), (toks (snd p), render32 (snd p)))) (pair_up es)).
    assert (Hprs: Forall pblock prs).
    { assert (F: Forall (fun e => block (toks e, render32 e)) es) by (apply Forall_forall; intros; apply IH; auto).
      apply pair_up_Forall in F. unfold prs. apply Forall_forall. intros x Hx. apply in_map_iff in Hx as (p0 & <- & Hin).
      rewrite Forall_forall in F. exact (F _ Hin). }
    assert (E3: (len es / 2)%N = len prs) by (unfold prs; rewrite len_map; now apply pair_up_len).
    pose proof (loop_mdef' prs _ E3 Hprs rest k o H) as R.
    assert (E1: flat_map ptoks prs = flat_map toks es).
    { rewrite (pair_up_flat toks es Hev). unfold prs. rewrite !flat_map_concat_map, map_map. reflexivity. }
    assert (E2: map prend prs = pairs d_colon (map render32 es)).
    { rewrite (pair_up_pairs render32 d_colon es Hev). unfold prs. rewrite map_map. reflexivity. }
    rewrite E1, E2 in R. cbn [map app]. rewrite <- !app_assoc. apply run_N_map. exact R.
  - (* indefinite map *)
    apply andb_prop in Hw as [Hev Hw].
    rewrite forallb_forall in Hw. rewrite Forall_forall in IH.
    split; [exists TkBeginMap, (flat_map toks es ++ [TkBreak]); split; [reflexivity|discriminate]|].
    intros rest k o H. cbn [fst snd]. rewrite r32_mapI.
    set (prs := map (fun p => ((toks (fst p), render32 (fst p)), (toks (snd p), render32 (snd p)))) (pair_up es)).
    assert (Hprs: Forall pblock prs).
    { assert (F: Forall (fun e => block (toks e, render32 e)) es) by (apply Forall_forall; intros; apply IH; auto).
      apply pair_up_Forall in F. unfold prs. apply Forall_forall. intros x Hx. apply in_map_iff in Hx as (p0 & <- & Hin).
      rewrite Forall_forall in F. exact (F _ Hin). }
    pose proof (loop_mindef prs Hprs rest k o H) as R.
    assert (E1: flat_map ptoks prs = flat_map toks es).
    { rewrite (pair_up_flat toks es Hev). unfold prs. rewrite !flat_map_concat_map, map_map. reflexivity. }
    assert (E2: map prend prs = pairs d_colon (map render32 es)).
    { rewrite (pair_up_pairs render32 d_colon es Hev). unfold prs. rewrite map_map. reflexivity. }
    rewrite E1, E2 in R. cbn [map app]. rewrite <- !app_assoc. apply run_N_bmap.
    rewrite map_app, <- app_assoc. cbn [map app]. exact R.
  - (* tag *)
    apply andb_prop in Hw as [_ Hw]. destruct (IH Hw) as [_ Hb]. cbn [fst snd] in Hb.
    split; [exists (TkTag t), (toks e); split; [reflexivity|discriminate]|].
    intros rest k o H. cbn [fst snd map app]. rewrite r32_tag, <- !app_assoc.
    apply run_N_tag, run_T. apply Hb. now apply (run_S [41%N]).
  - eapply block_eq; [apply block_scalar; apply scalar_simple|]. rewrite tok_text_simple.
    unfold render32. cbn [render]. unfold d_simple. repeat match goal with |- context [if ?c then _ else _] => destruct c end; reflexivity.
  - eapply block_eq; [apply block_scalar; [reflexivity|discriminate]|]. reflexivity.
  - eapply block_eq; [apply block_scalar; [reflexivity|discriminate]|]. reflexivity.
  - eapply block_eq; [apply block_scalar; [reflexivity|discriminate]|]. reflexivity.
Qed.

(* C19_render *)
Theorem display_render c e : wf e = true -> utf8_ok e = true -> (len (ser e) < two64)%N ->
  display c (ser e) = DDone (render32 e).
Proof.
  intros Hw Hu HL. destruct (display_total c (ser e) HL) as (out & E). rewrite E. f_equal.
  unfold display in E. destruct (display_list c (fuel_lin (ser e)) (ser e) HL) as (L & T & D). rewrite D in E.
  assert (T': tokenise c (ser e) = Ok (map IOk (toks e))).
  { pose proof (retokenise_tokens c [e] ltac:(constructor; [split; assumption|constructor])) as R.
    cbn [flat_map] in R. rewrite !app_nil_r in R. now apply R. }
  rewrite T in T'. injection T' as ->.
  destruct (item_block e Hw) as [(t & ts' & Et & _) Hb]. cbn [fst snd] in *.
  pose proof (Hb [] [] [] runs_end) as R. rewrite !app_nil_r in R.
  rewrite Et in *. cbn [map] in *. apply run_outer in R.
  eapply runs_det; [|exact R]. eexists. exact E.
Qed.
