(* Proofs/AccPrefixFacts.v — every strict prefix of a well-formed item, read through the accessor that
   matches the item, fails with the end-of-input class (C04, last sentence). *)
From MC Require Import Bytes BytesFacts Monad Cbor Utf8 Half Decoder Acc Accessors DecoderFacts IntFacts AccFacts AccAgreeFacts.
From Coq Require Import Lia.
Local Open Scope N_scope.

(* ---- strict prefixes ---- *)
Definition sprefix (l m : bytes) : Prop := exists x y, m = l ++ x :: y.

Lemma sprefix_firstn k m : (k < length m)%nat -> sprefix (firstn k m) m.
Proof.
  intro H. destruct (skipn k m) as [|x y] eqn:E.
  - exfalso. pose proof (skipn_length k m) as G. rewrite E in G. cbn [length] in G. lia.
  - exists x, y. rewrite <- E. symmetry. apply firstn_skipn.
Qed.

Lemma sprefix_firstn_app k a b : N.of_nat k < len a -> sprefix (firstn k (a ++ b)) a.
Proof.
  intro H. unfold len in H. rewrite firstn_app. replace (k - length a)%nat with 0%nat by lia.
  cbn [firstn]. rewrite app_nil_r. apply sprefix_firstn. lia.
Qed.

Lemma sprefix_nil_r l : ~ sprefix l [].
Proof. intros (x & y & E). destruct l; discriminate. Qed.

Lemma sprefix_cons_inv l x m : sprefix l (x :: m) -> l = [] \/ exists l', l = x :: l' /\ sprefix l' m.
Proof.
  intros (a & y & E). destruct l as [|b l]; [now left|]. right. cbn [app] in E. injection E as -> ->.
  exists l. split; [reflexivity|]. now exists a, y.
Qed.

Lemma sprefix_app_inv a : forall l b, sprefix l (a ++ b) -> sprefix l a \/ exists l', l = a ++ l' /\ sprefix l' b.
Proof.
  induction a as [|x a IH]; intros l b H.
  - right. exists l. split; [reflexivity|exact H].
  - cbn [app] in H. apply sprefix_cons_inv in H as [->|(l' & -> & H)].
    + left. exists x, a. reflexivity.
    + apply IH in H as [(y & z & E)|(l'' & -> & H)].
      * left. exists y, z. cbn [app]. now rewrite E.
      * right. exists l''. split; [reflexivity|exact H].
Qed.

Lemma sprefix_len l m : sprefix l m -> len l < len m.
Proof. intros (x & y & ->). rewrite len_app, len_cons. lia. Qed.

Lemma sprefix_one l x : sprefix l [x] -> l = [].
Proof. intro H. apply sprefix_cons_inv in H as [->|(l' & _ & H)]; [reflexivity|]. now apply sprefix_nil_r in H. Qed.

Lemma sprefix_head l mt w n pl : sprefix l (Cbor.head mt w n ++ pl) ->
  l = [] \/ (exists l1, l = ib mt w n :: l1 /\ sprefix l1 (args w n))
         \/ (exists l2, l = Cbor.head mt w n ++ l2 /\ sprefix l2 pl).
Proof.
  intro H. apply sprefix_app_inv in H as [H|H]; [|now right; right].
  rewrite head_split in H. apply sprefix_cons_inv in H as [->|(l1 & -> & H)]; [now left|].
  right; left. now exists l1.
Qed.

Lemma sprefix_head_only l mt w n : sprefix l (Cbor.head mt w n) ->
  l = [] \/ (exists l1, l = ib mt w n :: l1 /\ sprefix l1 (args w n)).
Proof.
  intro H. rewrite head_split in H. apply sprefix_cons_inv in H as [->|(l1 & -> & H)]; [now left|].
  right. now exists l1.
Qed.

(* ---- the end-of-input outcome ---- *)
Definition eoi {A} (res : result A * dst) : Prop := exists q, res = (Err EndOfInput, q).

Lemma bind_eoi {A B} (m : M A) (f : A -> M B) s : eoi (m s) -> eoi (bind m f s).
Proof. intros (q & H). exists q. now apply bind_err. Qed.
Lemma fmap_eoi {A B} (g : A -> B) (m : M A) s : eoi (m s) -> eoi (fmap g m s).
Proof. intros (q & H). exists q. now apply fmap_err. Qed.

Lemma read_slice_short_eoi n l p L : len l < n -> eoi (read_slice n (mkdst p l L)).
Proof. intro H. eexists. now apply read_slice_short. Qed.

Lemma read_be_short k l p L : len l < N.of_nat k -> eoi (read_be k (mkdst p l L)).
Proof. intro H. unfold read_be. now apply fmap_eoi, read_slice_short_eoi. Qed.

Lemma unsigned_short w n l p L : sprefix l (args w n) -> eoi (unsigned (ai w n) (mkdst p l L)).
Proof.
  intro H. pose proof (sprefix_len _ _ H) as Hl. rewrite len_args in Hl.
  destruct w; cbn [ai args] in *.
  - lia.
  - assert (l = []) by (apply len0_nil; lia). subst. eexists. reflexivity.
  - change (unsigned 25) with (read_be 2). apply read_be_short. exact Hl.
  - change (unsigned 26) with (read_be 4). apply read_be_short. exact Hl.
  - change (unsigned 27) with (read_be 8). apply read_be_short. exact Hl.
Qed.

Ltac after_read := rewrite (bind_ok _ _ _ _ _ (read_cons _ _ _ _)); cbv beta.

(* ---- integers ---- *)
Lemma dec_uint_short max w n l p L : fits w n = true -> sprefix l (Cbor.head 0 w n) -> eoi (dec_uint max (mkdst p l L)).
Proof.
  intros Hf H. apply sprefix_head_only in H as [->|(l1 & -> & H)]; [eexists; reflexivity|].
  rewrite ib0. unfold dec_uint. after_read. apply bind_eoi. now apply unsigned_short.
Qed.

Lemma dec_sint_short0 max w n l p L : fits w n = true -> sprefix l (Cbor.head 0 w n) -> eoi (dec_sint max (mkdst p l L)).
Proof.
  intros Hf H. apply sprefix_head_only in H as [->|(l1 & -> & H)]; [eexists; reflexivity|].
  rewrite ib0. unfold dec_sint. after_read. pose proof (ai_lt w n Hf).
  destruct (N.leb_spec (ai w n) 27); [|lia]. apply bind_eoi. now apply unsigned_short.
Qed.

Lemma dec_sint_short1 max w n l p L : fits w n = true -> sprefix l (Cbor.head 1 w n) -> eoi (dec_sint max (mkdst p l L)).
Proof.
  intros Hf H. apply sprefix_head_only in H as [->|(l1 & -> & H)]; [eexists; reflexivity|].
  unfold dec_sint. after_read. pose proof (ai_lt w n Hf). unfold ib.
  destruct (N.leb_spec (1 * 32 + ai w n) 27); [lia|].
  destruct (N.leb_spec 32 (1 * 32 + ai w n)); [|lia].
  destruct (N.leb_spec (1 * 32 + ai w n) 59); [|lia]. cbn [andb].
  replace (1 * 32 + ai w n - 32) with (ai w n) by lia. apply bind_eoi. now apply unsigned_short.
Qed.

Lemma dec_int_short0 w n l p L : fits w n = true -> sprefix l (Cbor.head 0 w n) -> eoi (dec_int (mkdst p l L)).
Proof.
  intros Hf H. apply sprefix_head_only in H as [->|(l1 & -> & H)]; [eexists; reflexivity|].
  rewrite ib0. unfold dec_int. after_read. pose proof (ai_lt w n Hf).
  destruct (N.leb_spec (ai w n) 27); [|lia]. apply bind_eoi. now apply unsigned_short.
Qed.

Lemma dec_int_short1 w n l p L : fits w n = true -> sprefix l (Cbor.head 1 w n) -> eoi (dec_int (mkdst p l L)).
Proof.
  intros Hf H. apply sprefix_head_only in H as [->|(l1 & -> & H)]; [eexists; reflexivity|].
  unfold dec_int. after_read. pose proof (ai_lt w n Hf). unfold ib.
  destruct (N.leb_spec (1 * 32 + ai w n) 27); [lia|].
  destruct (N.leb_spec 32 (1 * 32 + ai w n)); [|lia].
  destruct (N.leb_spec (1 * 32 + ai w n) 59); [|lia]. cbn [andb].
  replace (1 * 32 + ai w n - 32) with (ai w n) by lia. apply bind_eoi. now apply unsigned_short.
Qed.

Lemma dec_char_short w n l p L : fits w n = true -> sprefix l (Cbor.head 0 w n) -> eoi (dec_char (mkdst p l L)).
Proof. intros Hf H. unfold dec_char, dec_u32. apply bind_eoi. now apply dec_uint_short with w n. Qed.

(* ---- definite strings ---- *)
Lemma dec_bytes_short w b l p L : fits w (len b) = true -> p + len l <= L ->
  sprefix l (Cbor.head 2 w (len b) ++ b) -> eoi (dec_bytes (mkdst p l L)).
Proof.
  intros Hf HL H. pose proof (ai_lt w _ Hf) as Hai.
  apply sprefix_head in H as [->|[(l1 & -> & H)|(l2 & -> & H)]].
  - eexists; reflexivity.
  - unfold dec_bytes. after_read. rewrite major_ib, info_ib by assumption. change (2 * 32 =? 64) with true.
    destruct (N.eqb_spec (ai w (len b)) 31); [lia|]. cbn [negb orb]. apply bind_eoi. now apply unsigned_short.
  - rewrite len_app in HL.
    destruct (read_head 2 w (len b) l2 p L Hf ltac:(lia)) as (E & Hmaj & Hinf & _ & Hu).
    rewrite E. unfold dec_bytes. after_read. rewrite Hmaj, Hinf. change (2 * 32 =? 64) with true.
    destruct (N.eqb_spec (ai w (len b)) 31); [lia|]. cbn [negb orb].
    rewrite (bind_ok _ _ _ _ _ Hu). apply read_slice_short_eoi. now apply sprefix_len.
Qed.

Lemma dec_str_short w b l p L : fits w (len b) = true -> p + len l <= L ->
  sprefix l (Cbor.head 3 w (len b) ++ b) -> eoi (dec_str (mkdst p l L)).
Proof.
  intros Hf HL H. pose proof (ai_lt w _ Hf) as Hai.
  apply sprefix_head in H as [->|[(l1 & -> & H)|(l2 & -> & H)]].
  - eexists; reflexivity.
  - unfold dec_str. after_read. rewrite major_ib, info_ib by assumption. change (3 * 32 =? 96) with true.
    destruct (N.eqb_spec (ai w (len b)) 31); [lia|]. cbn [negb orb]. apply bind_eoi. now apply unsigned_short.
  - rewrite len_app in HL.
    destruct (read_head 3 w (len b) l2 p L Hf ltac:(lia)) as (E & Hmaj & Hinf & _ & Hu).
    rewrite E. unfold dec_str. after_read. rewrite Hmaj, Hinf. change (3 * 32 =? 96) with true.
    destruct (N.eqb_spec (ai w (len b)) 31); [lia|]. cbn [negb orb].
    rewrite (bind_ok _ _ _ _ _ Hu). apply bind_eoi, read_slice_short_eoi. now apply sprefix_len.
Qed.

Lemma dec_bytes_iter_short f w b l p L : fits w (len b) = true -> p + len l <= L ->
  sprefix l (Cbor.head 2 w (len b) ++ b) -> eoi (dec_bytes_iter f (mkdst p l L)).
Proof.
  intros Hf HL H. pose proof (ai_lt w _ Hf) as Hai.
  apply sprefix_head in H as [->|[(l1 & -> & H)|(l2 & -> & H)]].
  - eexists; reflexivity.
  - unfold dec_bytes_iter. after_read. rewrite major_ib, info_ib by assumption. change (2 * 32 =? 64) with true.
    cbn [negb]. destruct (N.eqb_spec (ai w (len b)) 31); [lia|]. apply bind_eoi. now apply unsigned_short.
  - rewrite len_app in HL.
    destruct (read_head 2 w (len b) l2 p L Hf ltac:(lia)) as (E & Hmaj & Hinf & _ & Hu).
    rewrite E. unfold dec_bytes_iter. after_read. rewrite Hmaj, Hinf. change (2 * 32 =? 64) with true.
    cbn [negb]. destruct (N.eqb_spec (ai w (len b)) 31); [lia|].
    rewrite (bind_ok _ _ _ _ _ Hu). apply sprefix_len in H.
    destruct (N.eqb_spec (len b) 0); [lia|]. now apply bind_eoi, read_slice_short_eoi.
Qed.

Lemma dec_str_iter_short f w b l p L : fits w (len b) = true -> p + len l <= L ->
  sprefix l (Cbor.head 3 w (len b) ++ b) -> eoi (dec_str_iter f (mkdst p l L)).
Proof.
  intros Hf HL H. pose proof (ai_lt w _ Hf) as Hai.
  apply sprefix_head in H as [->|[(l1 & -> & H)|(l2 & -> & H)]].
  - eexists; reflexivity.
  - unfold dec_str_iter. after_read. rewrite major_ib, info_ib by assumption. change (3 * 32 =? 96) with true.
    cbn [negb]. destruct (N.eqb_spec (ai w (len b)) 31); [lia|]. apply bind_eoi. now apply unsigned_short.
  - rewrite len_app in HL.
    destruct (read_head 3 w (len b) l2 p L Hf ltac:(lia)) as (E & Hmaj & Hinf & _ & Hu).
    rewrite E. unfold dec_str_iter. after_read. rewrite Hmaj, Hinf. change (3 * 32 =? 96) with true.
    cbn [negb]. destruct (N.eqb_spec (ai w (len b)) 31); [lia|].
    rewrite (bind_ok _ _ _ _ _ Hu). apply sprefix_len in H.
    destruct (N.eqb_spec (len b) 0); [lia|]. now apply bind_eoi, read_slice_short_eoi.
Qed.

(* ---- headers ---- *)
Lemma dec_container_short mt w n l p L : fits w n = true ->
  sprefix l (Cbor.head mt w n) -> eoi (dec_container (mt * 32) (mkdst p l L)).
Proof.
  intros Hf H. pose proof (ai_lt w _ Hf) as Hai.
  apply sprefix_head_only in H as [->|(l1 & -> & H)]; [eexists; reflexivity|].
  unfold dec_container. after_read. rewrite major_ib, info_ib, N.eqb_refl by assumption. cbn [negb].
  destruct (N.eqb_spec (ai w n) 31); [lia|]. apply bind_eoi. now apply unsigned_short.
Qed.

Lemma dec_tag_short w n l p L : fits w n = true ->
  sprefix l (Cbor.head 6 w n) -> eoi (dec_tag (mkdst p l L)).
Proof.
  intros Hf H.
  apply sprefix_head_only in H as [->|(l1 & -> & H)]; [eexists; reflexivity|].
  unfold dec_tag. after_read. rewrite major_ib, info_ib by assumption. change (6 * 32 =? 192) with true.
  cbn [negb]. now apply unsigned_short.
Qed.

(* ---- floats ---- *)
Lemma dec_f32_short c b l p L : sprefix l (250 :: be 4 b) -> eoi (dec_f32 c (mkdst p l L)).
Proof.
  intro H. apply sprefix_cons_inv in H as [->|(l1 & -> & H)]; [eexists; reflexivity|].
  unfold dec_f32. rewrite (bind_ok _ _ _ _ _ (current_cons _ _ _ _)). cbv beta.
  change (250 =? 249) with false. rewrite andb_false_r. change (250 =? 250) with true. cbv iota.
  after_read. apply read_be_short. apply sprefix_len in H. now rewrite len_be in H.
Qed.

Lemma dec_f64_short c b l p L : sprefix l (251 :: be 8 b) -> eoi (dec_f64 c (mkdst p l L)).
Proof.
  intro H. apply sprefix_cons_inv in H as [->|(l1 & -> & H)]; [eexists; reflexivity|].
  unfold dec_f64. rewrite (bind_ok _ _ _ _ _ (current_cons _ _ _ _)). cbv beta.
  change (251 =? 249) with false. rewrite andb_false_r. change (251 =? 250) with false.
  change (251 =? 251) with true. cbv iota.
  after_read. apply read_be_short. apply sprefix_len in H. now rewrite len_be in H.
Qed.

(* ---- the chunk loop on a truncated indefinite string ---- *)
Definition one_short (one : M bytes) (mt : N) : Prop :=
  forall c l p L, wf_chunk c = true -> p + len l <= L -> sprefix l (ser_chunk mt c) -> eoi (one (mkdst p l L)).

Lemma chunks_short one mt good : mt <= 6 -> one_ok one mt good -> one_short one mt ->
  forall cs fuel acc l p L, forallb wf_chunk cs = true -> forallb good cs = true ->
    (length l < fuel)%nat -> p + len l <= L -> sprefix l (flat_map (ser_chunk mt) cs ++ [255]) ->
    eoi (chunks_until_break one fuel acc (mkdst p l L)).
Proof.
  intros Hm Hone Hshort. induction cs as [|c cs IH]; intros fuel acc l p L Hw Hg Hf HL H;
    (destruct fuel as [|fuel]; [lia|]); cbn [chunks_until_break].
  - cbn [flat_map app] in H. apply sprefix_one in H as ->. apply bind_eoi. eexists; reflexivity.
  - cbn [forallb] in Hw, Hg. apply andb_prop in Hw as [Hwc Hw]. apply andb_prop in Hg as [Hgc Hg].
    cbn [flat_map] in H. rewrite <- app_assoc in H.
    destruct (ser_chunk_first mt c) as [t Et].
    apply sprefix_app_inv in H as [H|(l' & -> & H)].
    + destruct l as [|b l]; [apply bind_eoi; eexists; reflexivity|].
      assert (Eb: b = ib mt (fst c) (len (snd c))).
      { destruct H as (x & y & E). rewrite Et in E. cbn [app] in E. now injection E. }
      rewrite (bind_ok _ _ _ _ _ (current_cons _ _ _ _)). cbv beta.
      destruct (N.eqb_spec b 255) as [E|_]; [subst b; now apply chunk_ib_not_break in E|].
      apply bind_eoi. now apply Hshort with c.
    + rewrite (bind_ok _ _ _ _ _ (current_first _ _ _ _ _ _ Et)). cbv beta.
      destruct (N.eqb_spec (ib mt (fst c) (len (snd c))) 255) as [E|_]; [now apply chunk_ib_not_break in E|].
      rewrite len_app in HL.
      rewrite (bind_ok _ _ _ _ _ (Hone c l' p L Hwc Hgc ltac:(lia))).
      pose proof (f_equal (@length _) Et) as Hlen. cbn [length] in Hlen. rewrite app_length in Hf.
      apply IH; try assumption; lia.
Qed.

Lemma bytes_one_short : one_short dec_bytes 2.
Proof.
  intros c l p L Hc HL H. unfold wf_chunk in Hc. apply andb_prop in Hc as [Hf _].
  unfold ser_chunk in H. now apply dec_bytes_short with (fst c) (snd c).
Qed.

Lemma str_one_short : one_short dec_str 3.
Proof.
  intros c l p L Hc HL H. unfold wf_chunk in Hc. apply andb_prop in Hc as [Hf _].
  unfold ser_chunk in H. now apply dec_str_short with (fst c) (snd c).
Qed.

Lemma dec_bytes_iter_indef_short cs l p L : forallb wf_chunk cs = true -> p + len l <= L ->
  sprefix l (ser (EBytesI cs)) -> eoi (dec_bytes_iter (fuel_of (mkdst p l L)) (mkdst p l L)).
Proof.
  intros Hw HL H. cbn [ser] in H. apply sprefix_cons_inv in H as [->|(l' & -> & H)]; [eexists; reflexivity|].
  unfold fuel_of. cbn [drest length]. rewrite len_cons in HL.
  unfold dec_bytes_iter. after_read.
  change (negb (major 95 =? 64)) with false. change (info 95 =? 31) with true. cbv iota.
  apply (chunks_short dec_bytes 2 always ltac:(lia) bytes_one_ok bytes_one_short cs); try assumption; try lia.
  apply forallb_always.
Qed.

Lemma dec_str_iter_indef_short cs l p L : forallb wf_chunk cs = true -> forallb chunk_utf8 cs = true ->
  p + len l <= L ->
  sprefix l (ser (ETextI cs)) -> eoi (dec_str_iter (fuel_of (mkdst p l L)) (mkdst p l L)).
Proof.
  intros Hw Hg HL H. cbn [ser] in H. apply sprefix_cons_inv in H as [->|(l' & -> & H)]; [eexists; reflexivity|].
  unfold fuel_of. cbn [drest length]. rewrite len_cons in HL.
  unfold dec_str_iter. after_read.
  change (negb (major 127 =? 96)) with false. change (info 127 =? 31) with true. cbv iota.
  apply (chunks_short dec_str 3 chunk_utf8 ltac:(lia) str_one_ok str_one_short cs); try assumption; lia.
Qed.

(* ---- the theorem ---- *)
Lemma run_acc_nil c a p L : acc_in_scope a = true -> a <> AF16 -> eoi (run_acc c a (mkdst p [] L)).
Proof. intros Ha Hn. destruct a; try discriminate; try congruence; eexists; reflexivity. Qed.

Ltac split_wf :=
  repeat match goal with H : _ && _ = true |- _ => apply andb_prop in H; destruct H end.

Ltac get_n Hs :=
  repeat match type of Hs with (if ?c then _ else _) = _ => destruct c eqn:?; try discriminate Hs end;
  injection Hs as _ <-.

Ltac nil_prefix Hk :=
  match goal with |- context [firstn ?k ?m] =>
    let Hl := fresh "Hl" in
    assert (Hl: firstn k m = []) by (destruct k; [reflexivity|lia]);
    rewrite Hl; apply run_acc_nil; [reflexivity|discriminate]
  end.

Theorem prefix_eoi c a e v n k :
  acc_in_scope a = true -> wf e = true -> spec_acc a e = XOk v n -> N.of_nat k < n ->
  eoi (run_acc c a (start (firstn k (ser e)))).
Proof.
  intros Ha Hw Hs Hk. unfold start.
  assert (HL: forall l : bytes, 0 + len l <= len l) by (intro; lia).
  destruct a; try discriminate Ha; destruct e; cbn [spec_acc] in Hs; unfold int_acc, int_value in Hs;
    try discriminate Hs; get_n Hs; cbn [wf] in Hw; split_wf; cbn [ser] in *;
    try (match type of Hk with _ < len ?m =>
           match goal with |- context [firstn k m] =>
             assert (Hp: sprefix (firstn k m) m) by (apply sprefix_firstn; unfold len in Hk |- *; lia);
             clear Hk; set (l0 := firstn k m) in *; clearbody l0
           end end).
  all: try (cbn [run_acc]; apply fmap_eoi;
            first [ eapply dec_uint_short; eassumption
                  | eapply dec_sint_short0; eassumption
                  | eapply dec_sint_short1; eassumption
                  | eapply dec_int_short0; eassumption
                  | eapply dec_int_short1; eassumption
                  | eapply dec_char_short; eassumption
                  | eapply dec_bytes_short; [eassumption|apply HL|eassumption]
                  | eapply dec_str_short; [eassumption|apply HL|eassumption] ]; fail).
  all: try (nil_prefix Hk; fail).
  all: try (exfalso; unfold in_range in *;
            match goal with H : (_ && _)%bool = true |- _ => apply andb_prop in H as [H _]; apply Z.leb_le in H; lia end).
  (* ASimple *)
  - cbn [run_acc]. apply fmap_eoi. match type of Hp with context [if ?c then _ else _] => destruct c end.
    + apply sprefix_one in Hp as ->. eexists; reflexivity.
    + apply sprefix_cons_inv in Hp as [->|(l' & -> & Hp)]; [eexists; reflexivity|].
      apply sprefix_one in Hp as ->. eexists; reflexivity.
  (* AF32, AF64 *)
  - cbn [run_acc]. apply fmap_eoi. apply dec_f32_short with bits. apply sprefix_firstn.
    cbn [length]. rewrite be_length. lia.
  - cbn [run_acc]. apply fmap_eoi. apply dec_f64_short with bits. apply sprefix_firstn.
    cbn [length]. rewrite be_length. lia.
  (* ABytesIter *)
  - cbn [run_acc]. apply fmap_eoi. eapply dec_bytes_iter_short; [eassumption|apply HL|eassumption].
  - cbn [run_acc]. apply fmap_eoi. apply (dec_bytes_iter_indef_short cs); [assumption|apply HL|exact Hp].
  (* AStrIter *)
  - cbn [run_acc]. apply fmap_eoi. eapply dec_str_iter_short; [eassumption|apply HL|eassumption].
  - cbn [run_acc]. apply fmap_eoi. apply (dec_str_iter_indef_short cs); [assumption|assumption|apply HL|exact Hp].
  (* AArray *)
  - cbn [run_acc]. apply fmap_eoi. rewrite (head_len_eq 4 w (len es)) in Hk.
    apply (dec_container_short 4 w (len es)); [assumption|]. now apply sprefix_firstn_app.
  (* AMap *)
  - cbn [run_acc]. apply fmap_eoi. rewrite (head_len_eq 5 w (len es / 2)) in Hk.
    apply (dec_container_short 5 w (len es / 2)); [assumption|]. now apply sprefix_firstn_app.
  (* ATag *)
  - cbn [run_acc]. apply fmap_eoi. rewrite (head_len_eq 6 w t) in Hk.
    apply (dec_tag_short w t); [assumption|]. now apply sprefix_firstn_app.
Qed.
