(* Proofs/RetokFacts.v — C11, part 3: tokenising the serialisation of a well-formed item yields the
   spec-side token walk of the item (per-item lemma, by induction over encoding trees); re-encoding
   those tokens yields the preferred-width serialisation; each token carries the value of its head. *)
From MC Require Import Bytes BytesFacts Monad Cbor Utf8 Half Decoder DecoderFacts IntFacts AdvFacts Encoder EncoderFacts Methods
  Text Token Tokenizer Toks TokenFacts HeadFacts Sweep16.
From Coq Require Import Lia.
Local Open Scope N_scope.

(* ---- induction over encoding trees (children under Forall) ---- *)
Section EncInd.
  Variable P : enc -> Prop.
  Hypothesis HUInt : forall w n, P (EUInt w n).
  Hypothesis HNInt : forall w n, P (ENInt w n).
  Hypothesis HBytes : forall w b, P (EBytes w b).
  Hypothesis HBytesI : forall cs, P (EBytesI cs).
  Hypothesis HText : forall w b, P (EText w b).
  Hypothesis HTextI : forall cs, P (ETextI cs).
  Hypothesis HArray : forall w es, Forall P es -> P (EArray w es).
  Hypothesis HArrayI : forall es, Forall P es -> P (EArrayI es).
  Hypothesis HMap : forall w es, Forall P es -> P (EMap w es).
  Hypothesis HMapI : forall es, Forall P es -> P (EMapI es).
  Hypothesis HTag : forall w t e, P e -> P (ETag w t e).
  Hypothesis HSimple : forall n, P (ESimple n).
  Hypothesis HF16 : forall b, P (EF16 b).
  Hypothesis HF32 : forall b, P (EF32 b).
  Hypothesis HF64 : forall b, P (EF64 b).
  Fixpoint enc_ind' (e : enc) : P e :=
    let go := fix go (l : list enc) : Forall P l :=
      match l with [] => Forall_nil _ | x :: l' => Forall_cons _ (enc_ind' x) (go l') end in
    match e with
    | EUInt w n => HUInt w n | ENInt w n => HNInt w n
    | EBytes w b => HBytes w b | EBytesI cs => HBytesI cs
    | EText w b => HText w b | ETextI cs => HTextI cs
    | EArray w es => HArray w es (go es) | EArrayI es => HArrayI es (go es)
    | EMap w es => HMap w es (go es) | EMapI es => HMapI es (go es)
    | ETag w t e => HTag w t e (enc_ind' e)
    | ESimple n => HSimple n
    | EF16 b => HF16 b | EF32 b => HF32 b | EF64 b => HF64 b
    end.
End EncInd.

(* ---- running Decode for Token repeatedly ---- *)
Fixpoint steps (c : cfg) (s : dst) (ts : list token) (s' : dst) : Prop :=
  match ts with
  | [] => s = s'
  | t :: r => exists s1, dec_token c s = (Ok t, s1) /\ steps c s1 r s'
  end.

Lemma steps_app c s a s1 b s2 : steps c s a s1 -> steps c s1 b s2 -> steps c s (a ++ b) s2.
Proof.
  revert s. induction a as [|t a IH]; intros s H1 H2; cbn [steps app] in *.
  - subst. exact H2.
  - destruct H1 as (s0 & E & H1). exists s0. split; [exact E|]. now apply IH.
Qed.

Lemma steps_one c s t s' : dec_token c s = (Ok t, s') -> steps c s [t] s'.
Proof. intro E. exists s'. split; [exact E|reflexivity]. Qed.

(* item e at position p followed by r *)
Definition good (c : cfg) (e : enc) : Prop := forall p r L, p + len (ser e) <= L -> L < two64 ->
  steps c (mkdst p (ser e ++ r) L) (toks e) (mkdst (p + len (ser e)) r L).

Lemma good_list c es : Forall (good c) es -> forall p r L, p + len (flat_map ser es) <= L -> L < two64 ->
  steps c (mkdst p (flat_map ser es ++ r) L) (flat_map toks es) (mkdst (p + len (flat_map ser es)) r L).
Proof.
  induction 1 as [|e es He _ IH]; intros p r L HL HL2; cbn [flat_map steps app] in *.
  - rewrite len_nil, N.add_0_r. reflexivity.
  - rewrite len_app in *. rewrite <- app_assoc. eapply steps_app.
    + apply He; lia.
    + replace (p + (len (ser e) + len (flat_map ser es))) with (p + len (ser e) + len (flat_map ser es)) by lia.
      apply IH; lia.
Qed.

(* definite chunks of an indefinite string *)
Lemma steps_seq {A} (f : A -> bytes) (g : A -> token) c xs :
  (forall x, In x xs -> forall p r L, p + len (f x) <= L -> L < two64 ->
     dec_token c (mkdst p (f x ++ r) L) = (Ok (g x), mkdst (p + len (f x)) r L)) ->
  forall p r L, p + len (flat_map f xs) <= L -> L < two64 ->
  steps c (mkdst p (flat_map f xs ++ r) L) (map g xs) (mkdst (p + len (flat_map f xs)) r L).
Proof.
  induction xs as [|x xs IH]; intros H p r L HL HL2; cbn [flat_map map steps app] in *.
  - rewrite len_nil, N.add_0_r. reflexivity.
  - rewrite len_app in *. rewrite <- app_assoc. exists (mkdst (p + len (f x)) (flat_map f xs ++ r) L). split.
    + apply H; [now left|lia|exact HL2].
    + replace (p + (len (f x) + len (flat_map f xs))) with (p + len (f x) + len (flat_map f xs)) by lia.
      apply IH; [intros y Hy; apply H; now right|lia|exact HL2].
Qed.

Lemma good_bchunks c cs : forallb wf_chunk cs = true -> forall p r L,
  p + len (flat_map (ser_chunk 2) cs) <= L -> L < two64 ->
  steps c (mkdst p (flat_map (ser_chunk 2) cs ++ r) L) (map (fun k => TkBytes (snd k)) cs)
          (mkdst (p + len (flat_map (ser_chunk 2) cs)) r L).
Proof.
  intro Hw. apply steps_seq. intros [w b] Hin p r L HL HL2.
  rewrite forallb_forall in Hw. specialize (Hw _ Hin). unfold wf_chunk in Hw. cbn [fst snd] in Hw.
  apply andb_prop in Hw as [Hf _]. unfold ser_chunk in *. cbn [fst snd] in *. now apply tok_bytes.
Qed.

Lemma good_tchunks c cs : forallb wf_chunk cs = true -> forallb (fun k => utf8_valid (snd k)) cs = true -> forall p r L,
  p + len (flat_map (ser_chunk 3) cs) <= L -> L < two64 ->
  steps c (mkdst p (flat_map (ser_chunk 3) cs ++ r) L) (map (fun k => TkString (snd k)) cs)
          (mkdst (p + len (flat_map (ser_chunk 3) cs)) r L).
Proof.
  intros Hw Hu. apply steps_seq. intros [w b] Hin p r L HL HL2.
  rewrite forallb_forall in Hw, Hu. specialize (Hw _ Hin). specialize (Hu _ Hin). unfold wf_chunk in Hw. cbn [fst snd] in Hw, Hu.
  apply andb_prop in Hw as [Hf _]. unfold ser_chunk in *. cbn [fst snd] in *. now apply tok_text'.
Qed.

Lemma Forall_good c es :
  Forall (fun e => wf e = true -> utf8_ok e = true -> good c e) es ->
  forallb wf es = true -> forallb utf8_ok es = true -> Forall (good c) es.
Proof.
  induction 1 as [|e es He _ IH]; cbn [forallb]; intros H1 H2; constructor;
    apply andb_prop in H1 as [? ?]; apply andb_prop in H2 as [? ?]; auto.
Qed.

Ltac lens := repeat (first [progress rewrite len_app in * | progress rewrite len_cons in * | progress rewrite len_nil in * | progress rewrite len_be in *]).

Lemma steps_eq c s ts s1 s2 : steps c s ts s1 -> s1 = s2 -> steps c s ts s2.
Proof. intros H <-. exact H. Qed.

Lemma mk_eq p p' r L : p = p' -> mkdst p r L = mkdst p' r L.
Proof. now intros ->. Qed.

(* the per-item lemma *)
Lemma toks_good c : forall e, wf e = true -> utf8_ok e = true -> good c e.
Proof.
  induction e as [w n|w n|w b|cs|w b|cs|w es IH|es IH|w es IH|es IH|w t e IH|n|b|b|b] using enc_ind';
    cbn [wf utf8_ok]; intros Hw Hu p r L HL HL2; cbn [ser toks] in *.
  - apply steps_one. now apply tok_uint.
  - apply steps_one. now apply tok_nint.
  - apply andb_prop in Hw as [Hf _]. apply steps_one. now apply tok_bytes.
  - cbn [app]. lens.
    exists (mkdst (p + 1) ((flat_map (ser_chunk 2) cs ++ [255]) ++ r) L). split; [apply tok_begin_bytes; lia|].
    rewrite <- app_assoc. cbn [app].
    eapply steps_app; [apply good_bchunks; [exact Hw|lia|exact HL2]|].
    eapply steps_eq; [apply steps_one, tok_break; lia|]. apply mk_eq. lia.
  - apply andb_prop in Hw as [Hf _]. apply steps_one. now apply tok_text'.
  - cbn [app]. lens.
    exists (mkdst (p + 1) ((flat_map (ser_chunk 3) cs ++ [255]) ++ r) L). split; [apply tok_begin_text; lia|].
    rewrite <- app_assoc. cbn [app].
    eapply steps_app; [apply good_tchunks; [exact Hw|exact Hu|lia|exact HL2]|].
    eapply steps_eq; [apply steps_one, tok_break; lia|]. apply mk_eq. lia.
  - apply andb_prop in Hw as [Hf Hw]. lens. rewrite <- app_assoc.
    exists (mkdst (p + len (Cbor.head 4 w (len es))) (flat_map ser es ++ r) L). split; [apply tok_array; [exact Hf|lia]|].
    eapply steps_eq; [apply good_list; [now apply Forall_good|lia|exact HL2]|]. apply mk_eq. lia.
  - cbn [app]. lens.
    exists (mkdst (p + 1) ((flat_map ser es ++ [255]) ++ r) L). split; [apply tok_begin_array; lia|].
    rewrite <- app_assoc. cbn [app].
    eapply steps_app; [apply good_list; [now apply Forall_good|lia|exact HL2]|].
    eapply steps_eq; [apply steps_one, tok_break; lia|]. apply mk_eq. lia.
  - apply andb_prop in Hw as [Hw0 Hw]. apply andb_prop in Hw0 as [_ Hf]. lens. rewrite <- app_assoc.
    exists (mkdst (p + len (Cbor.head 5 w (len es / 2))) (flat_map ser es ++ r) L). split; [apply tok_map; [exact Hf|lia]|].
    eapply steps_eq; [apply good_list; [now apply Forall_good|lia|exact HL2]|]. apply mk_eq. lia.
  - apply andb_prop in Hw as [_ Hw]. cbn [app]. lens.
    exists (mkdst (p + 1) ((flat_map ser es ++ [255]) ++ r) L). split; [apply tok_begin_map; lia|].
    rewrite <- app_assoc. cbn [app].
    eapply steps_app; [apply good_list; [now apply Forall_good|lia|exact HL2]|].
    eapply steps_eq; [apply steps_one, tok_break; lia|]. apply mk_eq. lia.
  - apply andb_prop in Hw as [Hf Hw]. lens. rewrite <- app_assoc.
    exists (mkdst (p + len (Cbor.head 6 w t)) (ser e ++ r) L). split; [apply tok_tag; [exact Hf|lia]|].
    eapply steps_eq; [apply IH; [exact Hw|exact Hu|lia|exact HL2]|]. apply mk_eq. lia.
  - apply steps_one. apply tok_simple; assumption.
  - apply N.ltb_lt in Hw. cbn [app]. lens. apply steps_one.
    rewrite tok_f16 by (try assumption; lia). first [reflexivity | f_equal; apply mk_eq; lia].
  - apply N.ltb_lt in Hw. cbn [app]. lens. apply steps_one.
    rewrite tok_f32 by (try assumption; lia). first [reflexivity | f_equal; apply mk_eq; lia].
  - apply N.ltb_lt in Hw. cbn [app]. lens. apply steps_one.
    rewrite tok_f64 by (try assumption; lia). first [reflexivity | f_equal; apply mk_eq; lia].
Qed.

(* ---- from `steps` to the iterator ---- *)
Lemma tok_next_of_dec c s t s1 : dec_token c s = (Ok t, s1) -> tok_next c s = (Ok (Some (IOk t)), s1).
Proof. intro E. unfold tok_next, token_step. now rewrite E. Qed.

Lemma tokenise_steps c ts : forall s s', steps c s ts s' -> forall fuel,
  tokenise_from c (length ts + fuel) s =
  match tokenise_from c fuel s' with Ok l => Ok (map IOk ts ++ l) | r => r end.
Proof.
  induction ts as [|t ts IH]; intros s s' H fuel; cbn [steps] in H.
  - subst. cbn [length map app plus]. destruct (tokenise_from c fuel s'); reflexivity.
  - destruct H as (s1 & E & H). cbn [length plus tokenise_from]. rewrite (tok_next_of_dec _ _ _ _ E).
    rewrite (IH _ _ H). destruct (tokenise_from c fuel s'); reflexivity.
Qed.

Lemma tokenise_from_mono c f : forall s l k, tokenise_from c f s = Ok l -> tokenise_from c (f + k) s = Ok l.
Proof.
  induction f as [|f IH]; intros s l k E; [discriminate|].
  cbn [plus tokenise_from] in *. destruct (tok_next c s) as [[[i|]|e| |] s1]; try discriminate; [|exact E].
  destruct (tokenise_from c f s1) as [l'| | |] eqn:E1; try discriminate.
  rewrite (IH _ _ k E1). exact E.
Qed.

Lemma steps_tokenise c bs ts : len bs < two64 ->
  steps c (start bs) ts (mkdst (len bs) [] (len bs)) -> tokenise c bs = Ok (map IOk ts).
Proof.
  intros HL H. destruct (tokenise_bound c bs HL) as (l & E & _). rewrite E. f_equal.
  pose proof (tokenise_steps c ts _ _ H 1) as E1. cbn [tokenise_from] in E1.
  change (tok_next c (mkdst (len bs) [] (len bs))) with (tok_next c (drained (len bs))) in E1.
  rewrite tok_next_drained, app_nil_r in E1.
  unfold tokenise in E.
  apply (tokenise_from_mono _ _ _ _ (length ts + 1)%nat) in E.
  apply (tokenise_from_mono _ _ _ _ (S (length bs))) in E1.
  replace (S (length bs) + (length ts + 1))%nat with (length ts + 1 + S (length bs))%nat in E by lia.
  congruence.
Qed.

(* ---- re-encoding ---- *)
Definition encs (ts : list token) (bs : bytes) : Prop := exists cs, enc_tokens ts = Some cs /\ flat cs = bs.

Lemma encs_nil : encs [] [].
Proof. exists []. split; reflexivity. Qed.

Lemma encs_cons t ts c bs : enc_token t = Some c -> encs ts bs -> encs (t :: ts) (flat c ++ bs).
Proof.
  intros E (cs & E1 & <-). exists (c ++ cs). cbn [enc_tokens]. rewrite E, E1. split; [reflexivity|apply flat_app].
Qed.

Lemma encs_app a b x y : encs a x -> encs b y -> encs (a ++ b) (x ++ y).
Proof.
  revert x. induction a as [|t a IH]; intros x (cs & E & <-) Hb; cbn [app enc_tokens] in *.
  - injection E as <-. exact Hb.
  - destruct (enc_token t) as [c|] eqn:Et; [|discriminate]. destruct (enc_tokens a) as [ca|] eqn:Ea; [|discriminate].
    injection E as <-. rewrite flat_app, <- app_assoc. apply encs_cons; [exact Et|]. apply IH; [|exact Hb]. exists ca. auto.
Qed.

Lemma encs_cons2 t ts x y : encs [t] x -> encs ts y -> encs (t :: ts) (x ++ y).
Proof. intros H1 H2. exact (encs_app [t] ts x y H1 H2). Qed.

Lemma encs_lead (b : N) t ts y : encs [t] [b] -> encs ts y -> encs (t :: ts) (b :: y).
Proof. intros H1 H2. exact (encs_app [t] ts [b] y H1 H2). Qed.

Lemma encs_one t c bs : enc_token t = Some c -> flat c = bs -> encs [t] bs.
Proof. intros E <-. rewrite <- (app_nil_r (flat c)). apply encs_cons; [exact E|apply encs_nil]. Qed.

Lemma fits_lt64 w n : fits w n = true -> n < 18446744073709551616.
Proof. destruct w; cbn [fits]; intro H; apply N.ltb_lt in H; lia. Qed.

(* the half patterns that survive f16 -> f32 -> f16 are exactly the non-signalling ones
   (exhaustive over the 2^16 patterns: Sweep16.forall16, whose enumeration is binary, not unary) *)
Lemma snan16_exact b : b < 65536 -> (f32_to_f16 (f16_to_f32 b) =? b) = negb (snan16 b).
Proof.
  intro H. apply Bool.eqb_prop. revert b H.
  apply (forall16 (fun b => Bool.eqb (f32_to_f16 (f16_to_f32 b) =? b) (negb (snan16 b)))).
  vm_compute. reflexivity.
Qed.

Lemma f16_roundtrip b : b < 65536 -> snan16 b = false -> f32_to_f16 (f16_to_f32 b) = b.
Proof. intros H S. pose proof (snan16_exact b H) as E. rewrite S in E. now apply N.eqb_eq in E. Qed.

Lemma phead_ser mt n : phead mt n = Cbor.head mt (min_width n) n.
Proof. reflexivity. Qed.

Lemma encs_uint w n : fits w n = true -> encs [uint_tok w n] (phead 0 n).
Proof.
  intro Hf. destruct w; cbn [fits uint_tok] in *; apply N.ltb_lt in Hf; eapply encs_one; try reflexivity; cbn [enc_token].
  - apply enc_u8_head. lia.
  - now apply enc_u8_head.
  - now apply enc_u16_head.
  - now apply enc_u32_head.
  - now apply enc_u64_head.
Qed.

Lemma enc_pref_neg n : enc_pref (z_item (-1 - Z.of_N n)) = phead 1 n.
Proof. rewrite z_item_neg by lia. unfold neg_arg. f_equal. lia. Qed.

Lemma encs_nint w n : fits w n = true -> encs [nint_tok w n] (phead 1 n).
Proof.
  intro Hf. destruct w; cbn [fits nint_tok] in *; apply N.ltb_lt in Hf;
    repeat match goal with |- context [if (?a <? ?b) then _ else _] => destruct (N.ltb_spec a b) end;
    eapply encs_one; try reflexivity; cbn [enc_token fst snd];
    try (rewrite <- enc_pref_neg;
         first [apply enc_i8_ok | apply enc_i16_ok | apply enc_i32_ok | apply enc_i64_ok];
         unfold zrange; apply andb_true_intro; split; apply Z.leb_le; lia).
  unfold enc_int. cbn [negb]. now apply enc_neg64_head.
Qed.

Lemma encs_bytes w b : fits w (len b) = true -> encs [TkBytes b] (phead 2 (len b) ++ b).
Proof.
  intro Hf. eapply encs_one; [reflexivity|]. unfold enc_bytes. rewrite flat_app. change BYTES with (2 * 32).
  rewrite type_len_head by (eapply fits_lt64; eauto). cbn [flat concat]. now rewrite app_nil_r.
Qed.

Lemma encs_text w b : fits w (len b) = true -> encs [TkString b] (phead 3 (len b) ++ b).
Proof.
  intro Hf. eapply encs_one; [reflexivity|]. unfold enc_str. rewrite flat_app. change TEXT with (3 * 32).
  rewrite type_len_head by (eapply fits_lt64; eauto). cbn [flat concat]. now rewrite app_nil_r.
Qed.

Lemma encs_bchunks cs : forallb wf_chunk cs = true ->
  encs (map (fun k => TkBytes (snd k)) cs) (flat_map (ser_chunk 2) (map prefer_chunk cs)).
Proof.
  induction cs as [|[w b] cs IH]; cbn [forallb map flat_map]; intro H; [apply encs_nil|].
  apply andb_prop in H as [Hc H]. unfold wf_chunk in Hc. cbn [fst snd] in Hc. apply andb_prop in Hc as [Hf _].
  apply encs_cons2; [|now apply IH]. unfold ser_chunk, prefer_chunk. cbn [fst snd]. rewrite <- phead_ser. eapply encs_bytes; eauto.
Qed.

Lemma encs_tchunks cs : forallb wf_chunk cs = true ->
  encs (map (fun k => TkString (snd k)) cs) (flat_map (ser_chunk 3) (map prefer_chunk cs)).
Proof.
  induction cs as [|[w b] cs IH]; cbn [forallb map flat_map]; intro H; [apply encs_nil|].
  apply andb_prop in H as [Hc H]. unfold wf_chunk in Hc. cbn [fst snd] in Hc. apply andb_prop in Hc as [Hf _].
  apply encs_cons2; [|now apply IH]. unfold ser_chunk, prefer_chunk. cbn [fst snd]. rewrite <- phead_ser. eapply encs_text; eauto.
Qed.

Lemma encs_head (mt : N) tk n : n < 18446744073709551616 ->
  enc_token tk = Some (type_len (mt * 32) n) -> encs [tk] (phead mt n).
Proof. intros Hn E. eapply encs_one; [exact E|]. now apply type_len_head. Qed.

Lemma encs_list es : Forall (fun e => wf e = true -> no_snan16 e = true -> encs (toks e) (ser (prefer e))) es ->
  forallb wf es = true -> forallb no_snan16 es = true ->
  encs (flat_map toks es) (flat_map ser (map prefer es)).
Proof.
  induction 1 as [|e es He _ IH]; cbn [forallb flat_map map]; intros H1 H2; [apply encs_nil|].
  apply andb_prop in H1 as [? ?]. apply andb_prop in H2 as [? ?]. apply encs_app; auto.
Qed.

Lemma len_map {A B} (f : A -> B) l : len (map f l) = len l.
Proof. unfold len. now rewrite map_length. Qed.

Lemma encs_simple n : wf (ESimple n) = true -> encs [simple_tok n] (ser (ESimple n)).
Proof.
  cbn [wf ser]. intro Hw. unfold simple_tok.
  destruct (N.eqb_spec n 20) as [->|]; [eapply encs_one; reflexivity|].
  destruct (N.eqb_spec n 21) as [->|]; [eapply encs_one; reflexivity|].
  destruct (N.eqb_spec n 22) as [->|]; [eapply encs_one; reflexivity|].
  destruct (N.eqb_spec n 23) as [->|]; [eapply encs_one; reflexivity|].
  destruct (N.ltb_spec n 24).
  - eapply encs_one; [cbn [enc_token]; unfold enc_simple; destruct (N.leb_spec n 23); [reflexivity|lia]|]. reflexivity.
  - cbn [orb] in Hw. apply andb_prop in Hw as [H1 H2]. apply N.leb_le in H1.
    eapply encs_one; [cbn [enc_token]; unfold enc_simple; destruct (N.leb_spec n 23); [lia|reflexivity]|].
    reflexivity.
Qed.

(* re-encoding the tokens of an item gives its preferred-width form *)
Lemma encs_item : forall e, wf e = true -> no_snan16 e = true -> encs (toks e) (ser (prefer e)).
Proof.
  induction e as [w n|w n|w b|cs|w b|cs|w es IH|es IH|w es IH|es IH|w t e IH|n|b|b|b] using enc_ind';
    cbn [wf no_snan16]; intros Hw Hs; cbn [toks prefer ser].
  - rewrite <- phead_ser. now apply encs_uint.
  - rewrite <- phead_ser. now apply encs_nint.
  - apply andb_prop in Hw as [Hf _]. rewrite <- phead_ser. eapply encs_bytes; eauto.
  - apply encs_lead; [eapply encs_one; reflexivity|]. apply encs_app; [now apply encs_bchunks|eapply encs_one; reflexivity].
  - apply andb_prop in Hw as [Hf _]. rewrite <- phead_ser. eapply encs_text; eauto.
  - apply encs_lead; [eapply encs_one; reflexivity|]. apply encs_app; [now apply encs_tchunks|eapply encs_one; reflexivity].
  - apply andb_prop in Hw as [Hf Hw]. rewrite len_map, <- phead_ser.
    apply encs_cons2; [|now apply encs_list]. apply (encs_head 4); [eapply fits_lt64; eauto|reflexivity].
  - apply encs_lead; [eapply encs_one; reflexivity|]. apply encs_app; [now apply encs_list|eapply encs_one; reflexivity].
  - apply andb_prop in Hw as [Hw0 Hw]. apply andb_prop in Hw0 as [_ Hf]. rewrite len_map, <- phead_ser.
    apply encs_cons2; [|now apply encs_list]. apply (encs_head 5); [eapply fits_lt64; eauto|reflexivity].
  - apply andb_prop in Hw as [_ Hw].
    apply encs_lead; [eapply encs_one; reflexivity|]. apply encs_app; [now apply encs_list|eapply encs_one; reflexivity].
  - apply andb_prop in Hw as [Hf Hw]. rewrite <- phead_ser.
    apply encs_cons2; [|now apply IH]. apply (encs_head 6); [eapply fits_lt64; eauto|reflexivity].
  - now apply encs_simple.
  - apply N.ltb_lt in Hw. apply Bool.negb_true_iff in Hs. eapply encs_one; [reflexivity|].
    rewrite f16_roundtrip by assumption. reflexivity.
  - eapply encs_one; reflexivity.
  - eapply encs_one; reflexivity.
Qed.

(* ---- values ---- *)
Lemma map_flat_map {A B C} (f : B -> C) (g : A -> list B) l :
  map f (flat_map g l) = flat_map (fun x => map f (g x)) l.
Proof. induction l as [|x l IH]; cbn [flat_map map]; [reflexivity|]. now rewrite map_app, IH. Qed.

Lemma flat_map_Forall_ext {A B} (f g : A -> list B) l : Forall (fun x => f x = g x) l -> flat_map f l = flat_map g l.
Proof. induction 1 as [|x l Hx _ IH]; cbn [flat_map]; [reflexivity|]. now rewrite Hx, IH. Qed.

Lemma tok_val_uint w n : tok_val (uint_tok w n) = TVInt (Z.of_N n).
Proof. destruct w; reflexivity. Qed.
Lemma tok_val_nint w n : tok_val (nint_tok w n) = TVInt (-1 - Z.of_N n).
Proof.
  destruct w; cbn [nint_tok];
    repeat match goal with |- context [if ?c then _ else _] => destruct c end; reflexivity.
Qed.
Lemma tok_val_simple n : tok_val (simple_tok n) = VSimple' n.
Proof.
  unfold simple_tok.
  destruct (N.eqb_spec n 20) as [->|]; [reflexivity|]. destruct (N.eqb_spec n 21) as [->|]; [reflexivity|].
  destruct (N.eqb_spec n 22) as [->|]; [reflexivity|]. destruct (N.eqb_spec n 23) as [->|]; reflexivity.
Qed.

Lemma toks_vals : forall e, map tok_val (toks e) = head_vals e.
Proof.
  induction e as [w n|w n|w b|cs|w b|cs|w es IH|es IH|w es IH|es IH|w t e IH|n|b|b|b] using enc_ind';
    cbn [toks head_vals map]; rewrite ?map_app, ?map_map, ?map_flat_map; cbn [map tok_val];
    rewrite ?tok_val_uint, ?tok_val_nint, ?tok_val_simple; try reflexivity;
    try (f_equal; try f_equal; now apply flat_map_Forall_ext).
  - f_equal. now apply flat_map_Forall_ext.
  - f_equal. now apply flat_map_Forall_ext.
  - now rewrite IH.
Qed.

(* ---- C11_retokenise / C11_values ---- *)
Lemma retokenise_tokens c es :
  Forall (fun e => wf e = true /\ utf8_ok e = true) es -> len (flat_map ser es) < two64 ->
  tokenise c (flat_map ser es) = Ok (map IOk (flat_map toks es)).
Proof.
  intros H HL. apply steps_tokenise; [exact HL|].
  assert (G: Forall (good c) es).
  { eapply Forall_impl; [|exact H]. intros e [H1 H2]. now apply toks_good. }
  pose proof (good_list c es G 0 [] (len (flat_map ser es)) ltac:(lia) HL) as S.
  rewrite app_nil_r, N.add_0_l in S. exact S.
Qed.

Theorem retokenise c es :
  Forall (fun e => wf e = true /\ utf8_ok e = true /\ no_snan16 e = true) es -> len (flat_map ser es) < two64 ->
  exists cs, tokenise c (flat_map ser es) = Ok (map IOk (flat_map toks es))
          /\ enc_tokens (flat_map toks es) = Some cs
          /\ flat cs = flat_map ser (map prefer es).
Proof.
  intros H HL.
  assert (E: encs (flat_map toks es) (flat_map ser (map prefer es))).
  { clear HL. induction H as [|e es (H1 & H2 & H3) _ IH]; cbn [flat_map map]; [apply encs_nil|].
    apply encs_app; [now apply encs_item|exact IH]. }
  destruct E as (cs & E1 & E2). exists cs. split; [|split; assumption].
  apply retokenise_tokens; [|exact HL]. eapply Forall_impl; [|exact H]. intros e (H1 & H2 & _). auto.
Qed.

Theorem retokenise_identity c es :
  Forall (fun e => wf e = true /\ utf8_ok e = true /\ no_snan16 e = true /\ prefer e = e) es ->
  len (flat_map ser es) < two64 ->
  exists cs, tokenise c (flat_map ser es) = Ok (map IOk (flat_map toks es))
          /\ enc_tokens (flat_map toks es) = Some cs
          /\ flat cs = flat_map ser es.
Proof.
  intros H HL. destruct (retokenise c es) as (cs & E1 & E2 & E3); [|exact HL|].
  { eapply Forall_impl; [|exact H]. intros e (H1 & H2 & H3 & _). auto. }
  exists cs. split; [exact E1|split; [exact E2|]]. rewrite E3. f_equal.
  clear -H. induction H as [|e es (_ & _ & _ & He) _ IH]; cbn [map]; [reflexivity|]. now rewrite He, IH.
Qed.

Theorem retokenise_values c es :
  Forall (fun e => wf e = true /\ utf8_ok e = true) es -> len (flat_map ser es) < two64 ->
  exists ts, tokenise c (flat_map ser es) = Ok (map IOk ts) /\ map tok_val ts = flat_map head_vals es.
Proof.
  intros H HL. exists (flat_map toks es). split; [now apply retokenise_tokens|].
  rewrite map_flat_map. apply flat_map_Forall_ext. apply Forall_forall. intros e _. apply toks_vals.
Qed.
