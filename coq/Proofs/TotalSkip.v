(* Proofs/TotalSkip.v — C02, part 2: both skip variants are safe (no panic, fuel suffices, strict progress),
   the allocation bound of the alloc variant's stack, and the accessor dispatcher run_acc. *)
From MC Require Import Bytes BytesFacts Monad Cbor Utf8 Half Decoder DecoderFacts Acc Accessors TotalPrims.
From Coq Require Import Lia.
Local Open Scope N_scope.

(* ---------------------------------------------------------------- one iteration *)
Lemma safe_skip_step F fuel c : (F <= fuel)%nat -> safe true F (skip_step fuel c).
Proof.
  intro HF. pose proof (safe_dec_bytes_iter F fuel HF). pose proof (safe_dec_str_iter F fuel HF).
  unfold skip_step. apply safe_bind_ws; [apply safe_current|]. intro b.
  split_ifs; try apply safe_mismatch; safe_strict.
Qed.

Lemma safe_skipn_step F fuel c : (F <= fuel)%nat -> safe true F (skipn_step fuel c).
Proof.
  intro HF. pose proof (safe_dec_bytes_iter F fuel HF). pose proof (safe_dec_str_iter F fuel HF).
  unfold skipn_step. apply safe_bind_ws; [apply safe_current|]. intro b.
  split_ifs; try apply safe_mismatch; safe_strict.
Qed.

(* ---------------------------------------------------------------- the loops *)
(* every iteration consumes at least one byte; a loop that is entered at all is strict *)
Lemma good_skip_loop fuel : forall c s, (rem s < fuel)%nat -> good (skip_running c) (skip_loop fuel c) s.
Proof.
  induction fuel as [|fuel IH]; intros c s Hs; [lia|].
  cbn [skip_loop]. destruct (skip_running c).
  - apply (good_bind true false); [refine (safe_skip_step (S fuel) (S fuel) c _ s Hs); lia|].
    intros r s1 _ _ R. specialize (R eq_refl). destruct r as [c1|].
    + apply good_false with (skip_running c1). apply IH. lia.
    + apply good_ret.
  - apply good_ret.
Qed.

Lemma good_skipn_loop fuel : forall c s, (rem s < fuel)%nat ->
  good (negb ((nnr c =? 0) && (nir c =? 0))) (skipn_loop fuel c) s.
Proof.
  induction fuel as [|fuel IH]; intros c s Hs; [lia|].
  cbn [skipn_loop]. destruct (negb ((nnr c =? 0) && (nir c =? 0))).
  - apply (good_bind true false); [refine (safe_skipn_step (S fuel) (S fuel) c _ s Hs); lia|].
    intros c1 s1 _ _ R. specialize (R eq_refl).
    eapply good_false. apply IH. lia.
  - apply good_ret.
Qed.

Lemma safe_skip_alloc F fuel : (F <= fuel)%nat -> safe true F (skip_alloc fuel).
Proof. intros HF s Hs. unfold skip_alloc. apply (good_skip_loop fuel (mksk 1 0 [])). lia. Qed.

Lemma safe_skip_noalloc F fuel : (F <= fuel)%nat -> safe true F (skip_noalloc fuel).
Proof. intros HF s Hs. unfold skip_noalloc. apply (good_skipn_loop fuel (mkskn 1 0)). lia. Qed.

Lemma safe_skip F c fuel : (F <= fuel)%nat -> safe true F (skip c fuel).
Proof. intro HF. unfold skip. destruct (c_alloc c); [now apply safe_skip_alloc|now apply safe_skip_noalloc]. Qed.

Lemma safe_skip_auto F c : safe true F (skip_auto c).
Proof. unfold skip_auto. apply (safe_auto true (skip c)). intro fuel. now apply safe_skip. Qed.
Global Hint Resolve safe_skip_auto : safe.

(* ---------------------------------------------------------------- run_acc *)
Lemma safe_run_acc F c a : safe true F (run_acc c a).
Proof.
  destruct a; cbn [run_acc]; try solve [apply safe_fmap; eauto with safe].
  - destruct (c_half c); [apply safe_fmap; eauto with safe|apply safe_fail].
  - apply (safe_auto true (fun fuel => fmap VChunks (dec_bytes_iter fuel))).
    intro fuel. apply safe_fmap, safe_dec_bytes_iter. lia.
  - apply (safe_auto true (fun fuel => fmap VChunks (dec_str_iter fuel))).
    intro fuel. apply safe_fmap, safe_dec_str_iter. lia.
Qed.

(* ---------------------------------------------------------------- the skip stack (allocation bound) *)
Definition ensures_bind {A B} (m : M A) (f : A -> M B) (Q : B -> Prop) :
  (forall a, ensures (f a) Q) -> ensures (bind m f) Q.
Proof.
  intros H s b s'. unfold bind. destruct (m s) as [[a|e| |] s1]; try discriminate. apply H.
Qed.
Lemma ensures_ret {A} (a : A) (Q : A -> Prop) : Q a -> ensures (ret a) Q.
Proof. intros H s b s' [= <- _]. exact H. Qed.
Lemma ensures_fail {A} e (Q : A -> Prop) : ensures (fail e) Q.
Proof. intros s b s'. discriminate. Qed.
Lemma ensures_mismatch {A} n (Q : A -> Prop) : ensures (mismatch n) Q.
Proof. intros s b s' E. destruct (mismatch_is_err (A:=A) n s) as (e & s1 & E1). congruence. Qed.

(* potential: what the Vec holds, plus what the `for _ in 0..irounds` loop would push, plus the
   Some(nrounds-1) frame pushed with them *)
Definition skip_pot (c : skst) : N := len (stk c) + ir c + (if 2 <=? nr c then 1 else 0).

Lemma len_pop_zeros st : len (pop_zeros st) <= len st.
Proof.
  induction st as [|[n|] r IH]; cbn [pop_zeros]; try lia.
  destruct (n =? 0); [rewrite len_cons; lia|lia].
Qed.

Lemma pot_after c c' : skip_after c = Some c' -> skip_pot c' <= skip_pot c.
Proof.
  unfold skip_after, counting, skip_pot.
  destruct (N.eqb_spec (nr c) 0) as [E1|E1]; [destruct (N.eqb_spec (ir c) 0) as [E2|E2]|]; cbn [andb negb].
  - pose proof (len_pop_zeros (stk c)) as HL.
    destruct (pop_zeros (stk c)) as [|[n|] r]; [discriminate| |]; intros [= <-]; cbn [stk ir nr];
      rewrite !len_cons in *; change (2 <=? 0) with false; cbv iota; lia.
  - intros [= <-]. cbn [stk ir nr].
    destruct (N.leb_spec 2 (nr c - 1)); destruct (N.leb_spec 2 (nr c)); lia.
  - intros [= <-]. cbn [stk ir nr].
    destruct (N.leb_spec 2 (nr c - 1)); destruct (N.leb_spec 2 (nr c)); lia.
Qed.

Lemma pot_definite c n : skip_pot (skip_definite c n) <= skip_pot c + 1.
Proof.
  unfold skip_definite, skip_pot. destruct (n =? 0); [lia|].
  destruct (counting c); cbn [stk ir nr].
  - destruct (2 <=? sat_add (nr c) n); destruct (2 <=? nr c); lia.
  - rewrite len_cons. change (2 <=? 0) with false. cbv iota. destruct (2 <=? nr c); lia.
Qed.

Lemma len_repeat {A} (x : A) k : len (repeat x k) = N.of_nat k.
Proof. unfold len. now rewrite repeat_length. Qed.

Lemma pot_indefinite c : skip_pot (skip_indefinite c) <= skip_pot c + 1.
Proof.
  unfold skip_indefinite, skip_pot. destruct (negb (counting c)); cbn [stk ir nr].
  - rewrite len_cons. change (2 <=? 0) with false. cbv iota. destruct (2 <=? nr c); lia.
  - destruct (N.ltb_spec (nr c) 2) as [H|H]; cbn [stk ir nr].
    + unfold sat_add. destruct (2 <=? nr c); lia.
    + rewrite !len_cons, len_app, len_repeat, N2Nat.id. change (2 <=? 0) with false. cbv iota.
      destruct (N.leb_spec 2 (nr c)); lia.
Qed.

Lemma pot_break c : skip_pot (skip_break c) <= skip_pot c.
Proof.
  unfold skip_break, skip_pot. destruct (counting c); cbn [stk ir nr]; [lia|].
  destruct (stk c) as [|[n|] r] eqn:E; rewrite ?E; cbn [stk ir nr]; try lia.
  rewrite len_cons. change (2 <=? 0) with false. cbv iota. lia.
Qed.

(* one iteration raises the potential by at most one … *)
Lemma skip_step_pot fuel c : ensures (skip_step fuel c) (fun y => forall c', y = Some c' -> skip_pot c' <= skip_pot c + 1).
Proof.
  unfold skip_step. apply ensures_bind. intro b.
  split_ifs; try apply ensures_mismatch; repeat (apply ensures_bind; intro); apply ensures_ret; intros c' E;
    try (apply pot_after in E);
    try (injection E as <-); try lia.
  - destruct a as [n|]; [pose proof (pot_definite c n)|pose proof (pot_indefinite c)]; lia.
  - destruct a as [n|]; [pose proof (pot_definite c (sat_mul n 2))|pose proof (pot_indefinite c)]; lia.
  - pose proof (pot_break c). lia.
Qed.

(* … and consumes at least one byte: potential + remaining input never grows *)
Lemma skip_step_inv fuel c s c' s' : (rem s < fuel)%nat ->
  skip_step fuel c s = (Ok (Some c'), s') ->
  skip_pot c' + len (drest s') <= skip_pot c + len (drest s).
Proof.
  intros Hs E. pose proof (skip_step_pot fuel c s _ _ E c' eq_refl) as HP.
  destruct (safe_skip_step fuel fuel c (le_n _) s Hs _ _ E) as (_ & _ & _ & HS).
  specialize (HS eq_refl _ eq_refl). unfold rem, len in *. lia.
Qed.

(* the loop heads the while loop passes through *)
Inductive skip_reach : nat -> skst -> dst -> nat -> skst -> dst -> Prop :=
| reach_refl fuel c s : skip_reach fuel c s fuel c s
| reach_step fuel c s c1 s1 fuel2 c2 s2 :
    skip_running c = true -> skip_step (S fuel) c s = (Ok (Some c1), s1) ->
    skip_reach fuel c1 s1 fuel2 c2 s2 -> skip_reach (S fuel) c s fuel2 c2 s2.

(* … really are the loop's intermediate configurations: the loop continues from them *)
Lemma skip_reach_loop fuel c s fuel2 c2 s2 :
  skip_reach fuel c s fuel2 c2 s2 -> skip_loop fuel c s = skip_loop fuel2 c2 s2.
Proof.
  induction 1 as [|fuel c s c1 s1 fuel2 c2 s2 Hr Hst _ IH]; [reflexivity|].
  cbn [skip_loop]. rewrite Hr. unfold bind at 1. rewrite Hst. exact IH.
Qed.

Lemma skip_reach_inv fuel c s fuel2 c2 s2 :
  skip_reach fuel c s fuel2 c2 s2 -> (rem s < fuel)%nat ->
  (rem s2 < fuel2)%nat /\ (rem s2 + (fuel - fuel2) <= rem s)%nat /\
  skip_pot c2 + len (drest s2) <= skip_pot c + len (drest s).
Proof.
  induction 1 as [|fuel c s c1 s1 fuel2 c2 s2 Hr Hst _ IH]; intro Hs; [split; [exact Hs|split; lia]|].
  pose proof (skip_step_inv _ _ _ _ _ Hs Hst) as H1.
  destruct (safe_skip_step (S fuel) (S fuel) c (le_n _) s Hs _ _ Hst) as (_ & _ & _ & HS).
  specialize (HS eq_refl _ eq_refl).
  destruct IH as (I1 & I2 & I3); [lia|]. split; [exact I1|]. split; lia.
Qed.

(* at every loop head of skip (alloc): stack length + irounds <= bytes consumed so far *)
Lemma skip_stack_bound fuel s fuel2 c2 s2 :
  (rem s < fuel)%nat -> skip_reach fuel (mksk 1 0 []) s fuel2 c2 s2 ->
  len (stk c2) + ir c2 + len (drest s2) <= len (drest s).
Proof.
  intros Hs H. destruct (skip_reach_inv _ _ _ _ _ _ H Hs) as (_ & _ & HI).
  unfold skip_pot in HI. cbn [stk ir nr] in HI. change (len (@nil frame)) with 0 in HI.
  change (2 <=? 1) with false in HI. cbv iota in HI. destruct (2 <=? nr c2); lia.
Qed.

(* the number of iterations performed so far (= fuel used) is at most the number of bytes consumed *)
Lemma skip_steps_bound fuel c s fuel2 c2 s2 :
  (rem s < fuel)%nat -> skip_reach fuel c s fuel2 c2 s2 -> (rem s2 + (fuel - fuel2) <= rem s)%nat.
Proof. intros Hs H. now destruct (skip_reach_inv _ _ _ _ _ _ H Hs) as (_ & HI & _). Qed.
