(* Proofs/BytesFacts.v — facts about be / of_be / take / len. *)
From MC Require Import Bytes.
From Coq Require Import Lia.
Local Open Scope N_scope.

Lemma len_app {A} (a b : list A) : len (a ++ b) = len a + len b.
Proof. unfold len. rewrite app_length. lia. Qed.

Lemma len_cons {A} (x : A) l : len (x :: l) = 1 + len l.
Proof. unfold len. cbn [length]. lia. Qed.

Lemma len_nil {A} : len (@nil A) = 0.
Proof. reflexivity. Qed.

Lemma be_length k n : length (be k n) = k.
Proof. induction k; cbn [be length]; congruence. Qed.

Lemma len_be k n : len (be k n) = N.of_nat k.
Proof. unfold len. now rewrite be_length. Qed.

Lemma be_bytes_ok k n : bytes_ok (be k n) = true.
Proof.
  induction k; cbn [be bytes_ok forallb]; [reflexivity|].
  fold (bytes_ok (be k n)). rewrite IHk, andb_true_r. unfold byte_ok.
  apply N.ltb_lt, N.mod_lt. lia.
Qed.

Lemma of_be_app a b : of_be (a ++ b) = of_be a * 256 ^ len b + of_be b.
Proof.
  unfold of_be. rewrite fold_left_app.
  generalize (fold_left (fun x y => x * 256 + y) a 0). revert b.
  induction b as [|x b IH] using rev_ind; intro acc.
  - cbn. change (len []) with 0. rewrite N.pow_0_r. lia.
  - rewrite !fold_left_app. cbn [fold_left]. rewrite IH, len_app.
    change (len [x]) with 1. rewrite N.pow_add_r, N.pow_1_r.
    assert (E: forall l, fold_left (fun a0 b0 => a0 * 256 + b0) l 0 = of_be l) by reflexivity.
    rewrite !E. clear E.
    replace (fold_left (fun x0 y : N => x0 * 256 + y) b 0) with (of_be b) by reflexivity. lia.
Qed.

Lemma of_be_be k n : of_be (be k n) = n mod 2 ^ (8 * N.of_nat k).
Proof.
  induction k as [|k IH].
  - cbn. rewrite N.mod_1_r. reflexivity.
  - cbn [be]. change ((n / 2 ^ (8 * N.of_nat k)) mod 256 :: be k n) with ([(n / 2 ^ (8 * N.of_nat k)) mod 256] ++ be k n).
    rewrite of_be_app, IH, len_be. cbn [of_be fold_left].
    replace (8 * N.of_nat (S k)) with (8 * N.of_nat k + 8) by lia.
    set (p := 2 ^ (8 * N.of_nat k)).
    assert (Hp: 0 < p) by (apply N.neq_0_lt_0, N.pow_nonzero; lia).
    replace (256 ^ N.of_nat k) with p.
    2:{ unfold p. change 256 with (2 ^ 8). rewrite <- N.pow_mul_r. reflexivity. }
    rewrite N.pow_add_r. fold p. change (2 ^ 8) with 256.
    rewrite N.mod_mul_r by lia.
    ring.
Qed.

Lemma of_be_be_small k n : n < 2 ^ (8 * N.of_nat k) -> of_be (be k n) = n.
Proof. intro H. rewrite of_be_be. now apply N.mod_small. Qed.

Lemma be_mod k n : be k (n mod 2 ^ (8 * N.of_nat k)) = be k n.
Proof.
  assert (G: forall j, (j <= k)%nat -> be j (n mod 2 ^ (8 * N.of_nat k)) = be j n).
  { induction j as [|j IH]; intro Hj; cbn [be]; [reflexivity|]. rewrite IH by lia. f_equal.
    replace (8 * N.of_nat k) with (8 * N.of_nat j + (8 * N.of_nat k - 8 * N.of_nat j)) by lia.
    rewrite N.pow_add_r.
    set (a := 2 ^ (8 * N.of_nat j)). set (b := 2 ^ (8 * N.of_nat k - 8 * N.of_nat j)).
    assert (Ha: a <> 0) by (apply N.pow_nonzero; lia).
    assert (Hb: b <> 0) by (apply N.pow_nonzero; lia).
    rewrite N.mod_mul_r by assumption.
    rewrite (N.mul_comm a ((n / a) mod b)), N.div_add by assumption.
    rewrite (N.div_small (n mod a) a) by (apply N.mod_lt; assumption). rewrite N.add_0_l.
    assert (Hd: exists c, b = 256 * c).
    { unfold b. exists (2 ^ (8 * N.of_nat k - 8 * N.of_nat j - 8)).
      change 256 with (2 ^ 8). rewrite <- N.pow_add_r. f_equal. lia. }
    destruct Hd as [c Hc]. rewrite Hc.
    assert (Hc0: c <> 0) by (intro; subst c; lia).
    rewrite N.mod_mul_r by lia.
    rewrite (N.mul_comm 256 _), N.mod_add by lia. apply N.mod_mod. lia. }
  apply G. lia.
Qed.

Lemma take_0 {A} (l : list A) : take l 0 = Some ([], l).
Proof. destruct l; reflexivity. Qed.

Lemma take_app {A} (a b : list A) : take (a ++ b) (len a) = Some (a, b).
Proof.
  induction a as [|x a IH]; cbn [app take].
  - apply take_0.
  - rewrite len_cons. destruct (N.eqb_spec (1 + len a) 0); [lia|].
    replace (N.pred (1 + len a)) with (len a) by lia. rewrite IH. reflexivity.
Qed.

Lemma take_spec {A} (l : list A) n a r : take l n = Some (a, r) -> l = a ++ r /\ len a = n.
Proof.
  revert n a r. induction l as [|x l IH]; intros n a r; cbn [take].
  - destruct (N.eqb_spec n 0); [|discriminate]. intros [= <- <-]. split; [reflexivity|]. subst; reflexivity.
  - destruct (N.eqb_spec n 0).
    + intros [= <- <-]. subst. split; reflexivity.
    + destruct (take l (N.pred n)) as [[a' r']|] eqn:E; [|discriminate].
      intros [= <- <-]. apply IH in E as [-> E2]. split; [reflexivity|]. rewrite len_cons. lia.
Qed.

Lemma take_none {A} (l : list A) n : take l n = None -> len l < n.
Proof.
  revert n. induction l as [|x l IH]; intros n; cbn [take].
  - destruct (N.eqb_spec n 0); [discriminate|]. intros _. change (len []) with 0. lia.
  - destruct (N.eqb_spec n 0); [discriminate|].
    destruct (take l (N.pred n)) as [[a' r']|] eqn:E; [discriminate|].
    intros _. apply IH in E. rewrite len_cons. lia.
Qed.

Lemma take_short {A} (l : list A) n : len l < n -> take l n = None.
Proof.
  intro H. destruct (take l n) as [[a r]|] eqn:E; [|reflexivity].
  apply take_spec in E as [-> E]. rewrite len_app in H. lia.
Qed.
