(* Proofs/SerdeAnyRtFacts.v — the round trip of C17 for every shape, the ones that go through deserialize_any and
   serde's Content buffer included (internally / adjacently tagged, untagged, flattened, ShAny): de_s on the
   serialisation of a value outside the F12 class returns the value and stops right after the item. *)
From MC Require Import Bytes BytesFacts Monad Cbor Utf8 Half Encoder Methods EncoderFacts Decoder DecoderFacts IntFacts
  Types Serde SerdeDoc SerdeCont SerdeAny SerdeFacts SerdeRtFacts SerdeAnyHeadFacts SerdeContentFacts SerdeBufFacts.
From Coq Require Import Lia.
Local Open Scope N_scope.

Definition rt_any (c : cfg) (fuel : nat) (sh : shape) : Prop :=
  shape_ok_any sh = true -> opt_in_opt sh = false -> untagged_disjoint sh = true ->
  forall v cs, conf_any sh v = true -> f12_free sh v = true -> sval_ok v = true ->
  ser_s c v = Some cs -> (length (flat cs) < fuel)%nat ->
  reads (de_s c sh fuel) (flat cs) v.

(* a value that is not written as null *)
Lemma doc_not_null_cont x : sval_ok x = true -> cont_of x <> CNone -> prefer (serde_doc_tree x) <> ESimple 22.
Proof.
  induction x using sval_ind'; intros Hok Hn; try rewrite doc_struct; try rewrite doc_struct_variant;
    cbn [serde_doc_tree prefer cont_of sval_ok] in *; try discriminate; try congruence; try (now apply IHx).
  - destruct b; discriminate.
  - unfold doc_int. destruct (0 <=? z)%Z; discriminate.
  - destruct n; discriminate.
  - destruct n; discriminate.
Qed.

(* ---- leaves ---- *)
Lemma rta_leaf c fuel sh :
  match sh with
  | ShBool | ShI _ | ShU _ | ShF32 | ShF64 | ShChar | ShStr _ | ShDisplayStr | ShBytes _ | ShUnit | ShUnitStruct
  | ShAny | ShIgnored => True
  | _ => False end -> rt_any c fuel sh.
Proof.
  intros Hl _ _ _ v cs Hc _ Hok Hs Hf.
  destruct sh; try contradiction;
    [destruct v; try discriminate Hc; cbn [conf_any] in Hc; cbn [ser_s] in Hs; cbn [de_s] ..
    |idtac|destruct v; discriminate Hc].
  - injection Hs as <-. apply reads_fmap, reads_bool.
  - apply andb_prop in Hc as [Hw Hz]. apply iw_eqb_true in Hw. subst w0. injection Hs as <-. now apply reads_fmap, reads_iw.
  - apply andb_prop in Hc as [Hw Hz]. apply iw_eqb_true in Hw. subst w0. injection Hs as <-.
    apply reads_fmap, reads_uw. now apply N.leb_le.
  - injection Hs as <-. apply reads_fmap, reads_f32. now apply N.ltb_lt.
  - injection Hs as <-. apply reads_fmap, reads_f64. now apply N.ltb_lt.
  - injection Hs as <-. now apply reads_fmap, reads_char.
  - injection Hs as <-. now apply reads_fmap, reads_str.
  - destruct (c_alloc c); [|discriminate]. injection Hs as <-. now apply reads_fmap, reads_str.
  - injection Hs as <-. apply andb_prop in Hc as [Hb Hl']. apply reads_fmap, reads_bytes; [exact Hb|now apply N.ltb_lt].
  - injection Hs as <-. rewrite <- (app_nil_r (flat (enc_array 0))). apply reads_bind with tt; [apply reads_unit|apply reads_ret].
  - injection Hs as <-. rewrite <- (app_nil_r (flat (enc_array 0))). apply reads_bind with tt; [apply reads_unit|apply reads_ret].
  - (* ShAny: the keep-everything visitor *)
    cbn [de_s]. assert (Hcan: any_canon v = true) by (destruct v; exact Hc).
    rewrite <- (canon_fix v Hcan) at 1. apply reads_fmap. now apply de_content_rt.
Qed.

Lemma rta_option c fuel s : rt_any c fuel s -> rt_any c fuel (ShOption s).
Proof.
  intros IH Hs Ho Hd v cs Hc Hfr Hok Hser Hf. cbn [shape_ok_any opt_in_opt untagged_disjoint] in *.
  apply orb_false_elim in Ho as [Hn Ho]. cbn [de_s]. unfold de_option.
  destruct v; try discriminate Hc; cbn [conf_any f12_free ser_s sval_ok] in *.
  - injection Hser as <-. intros rest p L HL. change (flat enc_null) with [246]. cbn [app].
    rewrite (bind_ok _ _ _ _ _ (datatype_null rest p L)). cbn [ctype_is_null].
    rewrite (bind_ok _ _ _ _ _ (skip_null c rest p L)). reflexivity.
  - pose proof (IH Hs Ho Hd v cs Hc Hfr Hok Hser Hf) as Hr.
    intros rest p L HL.
    pose proof (ser_s_repr c v cs Hok Hser) as Er. pose proof (doc_wf v Hok) as Hw.
    destruct (datatype_ser _ rest p L Hw (doc_not_null_cont v Hok (conf_not_null s v Hs Hn Hc))) as (t & Et & Hnn).
    rewrite Er. rewrite (bind_ok _ _ _ _ _ Et). rewrite Hnn. rewrite <- Er.
    now rewrite (fmap_ok _ _ _ _ _ (Hr rest p L HL)).
Qed.

Lemma rta_newtype c fuel s : rt_any c fuel s -> rt_any c fuel (ShNewtypeStruct s).
Proof.
  intros IH Hs Ho Hd v cs Hc Hfr Hok Hser Hf. cbn [shape_ok_any opt_in_opt untagged_disjoint de_s] in *.
  destruct v; try discriminate Hc; cbn [conf_any f12_free ser_s sval_ok] in *.
  apply reads_fmap. now apply IH.
Qed.

Lemma elems_rta c fuel s : rt_any c fuel s -> shape_ok_any s = true -> opt_in_opt s = false -> untagged_disjoint s = true ->
  forall l css, forallb (conf_any s) l = true -> forallb (f12_free s) l = true -> forallb sval_ok l = true ->
  Forall2 (fun x y => ser_s c x = Some y) l css -> (length (flat (concat css)) < fuel)%nat ->
  Forall2 (fun x bs => reads (de_s c s fuel) bs x /\ no_break bs) l (map flat css).
Proof.
  intros IH Hs Ho Hd l css Hc Hfr Hok H. induction H as [|x y l css Hx _ IHl]; intro Hf; [constructor|].
  cbn [forallb] in *. apply andb_prop in Hc as [Hcx Hcl]. apply andb_prop in Hfr as [Hfx Hfl].
  apply andb_prop in Hok as [Hokx Hokl].
  cbn [concat] in Hf. rewrite flat_app, app_length in Hf. cbn [map]. constructor.
  - split; [apply (IH Hs Ho Hd x y Hcx Hfx Hokx Hx); lia|now apply (no_break_ser c x y)].
  - apply IHl; try assumption. lia.
Qed.

Lemma rta_seq c fuel k s : rt_any c fuel s -> rt_any c fuel (ShSeq k s).
Proof.
  intros IH Hs Ho Hd v cs Hc Hfr Hok Hser Hf. cbn [shape_ok_any opt_in_opt untagged_disjoint de_s] in *.
  destruct v; try discriminate Hc; cbn [conf_any f12_free] in *.
  apply andb_prop in Hc as [Hc Hcl]. apply andb_prop in Hc as [Hn Hlen]. apply N.ltb_lt in Hlen.
  unfold de_seq_of. destruct n as [n|].
  - apply andb_prop in Hn as [Hk Hn]. apply N.eqb_eq in Hn. subst k n.
    cbn [sval_ok] in Hok. apply andb_prop in Hok as [_ Hokl].
    cbn [ser_s] in Hser. apply ocat_some_l in Hser as (y & Hy & ->).
    destruct (all_s_split c l y Hy) as (css & Hf2 & ->).
    rewrite flat_app, app_length in Hf.
    pose proof (elems_rta c fuel s IH Hs Ho Hd l css Hcl Hfr Hokl Hf2 ltac:(lia)) as Hr.
    rewrite flat_app, flat_concat.
    apply (reads_fmap (fun l0 => SSeq (Some (len l0)) l0) _ _ l).
    apply reads_bind with (Some (len l)); [now apply reads_array|].
    pose proof (seq_collect_rt _ l (map flat css) Hr (Some (len l)) fuel [] (len_nat l)) as G.
    cbn [trailer rev app] in G. rewrite app_nil_r in G. apply G.
    pose proof (count_le_bytes _ _ _ Hr). rewrite flat_concat in Hf. lia.
  - apply negb_true_iff in Hn. subst k. cbn [sval_ok] in Hok.
    cbn [ser_s] in Hser. apply ocat_some_l in Hser as (y0 & Hy & ->).
    apply ocat_some in Hy as (y & z & Hy & [= <-] & ->).
    destruct (all_s_split c l y Hy) as (css & Hf2 & ->).
    rewrite !flat_app, !app_length in Hf.
    pose proof (elems_rta c fuel s IH Hs Ho Hd l css Hcl Hfr Hok Hf2 ltac:(lia)) as Hr.
    rewrite !flat_app, flat_concat.
    apply (reads_fmap (fun l0 => SSeq None l0) _ _ l).
    apply reads_bind with None; [apply reads_begin_array|].
    pose proof (seq_collect_rt _ l (map flat css) Hr None fuel [] I) as G.
    cbn [trailer rev app] in G. apply G.
    pose proof (count_le_bytes _ _ _ Hr). rewrite flat_concat in Hf. lia.
Qed.

Lemma tuple_rta c fuel ss : Forall (rt_any c fuel) ss -> forallb shape_ok_any ss = true ->
  existsb opt_in_opt ss = false -> forallb untagged_disjoint ss = true ->
  forall l css, zip_b conf_any ss l = true -> zip_b f12_free ss l = true -> forallb sval_ok l = true ->
  Forall2 (fun x y => ser_s c x = Some y) l css -> (length (flat (concat css)) < fuel)%nat ->
  Reads3 (map (fun s => de_s c s fuel) ss) l (map flat css) /\ length l = length ss.
Proof.
  induction 1 as [|s ss IHs _ IH]; intros Hs Ho Hd l css Hc Hfr Hok H Hf.
  - destruct l; [|discriminate]. inversion H; subst. split; constructor.
  - destruct l as [|x l]; [discriminate|]. cbn [zip_b forallb existsb] in *.
    apply andb_prop in Hc as [Hcx Hcl]. apply andb_prop in Hfr as [Hfx Hfl]. apply andb_prop in Hok as [Hokx Hokl].
    inversion H as [|? y ? css' Hx Hl]; subst.
    apply andb_prop in Hs as [Hs1 Hs2]. apply andb_prop in Hd as [Hd1 Hd2]. apply orb_false_elim in Ho as [Ho1 Ho2].
    cbn [concat] in Hf. rewrite flat_app, app_length in Hf.
    pose proof (IHs Hs1 Ho1 Hd1 x y Hcx Hfx Hokx Hx ltac:(lia)) as Hr.
    destruct (IH Hs2 Ho2 Hd2 l css' Hcl Hfl Hokl Hl ltac:(lia)) as (Hrl & Hlen).
    split; [|cbn [length]; now rewrite Hlen].
    cbn [map]. constructor; [exact Hr|now apply (no_break_ser c x y)|exact Hrl].
Qed.

Lemma tuple_of_rta c fuel ss : Forall (rt_any c fuel) ss -> forallb shape_ok_any ss = true ->
  existsb opt_in_opt ss = false -> forallb untagged_disjoint ss = true -> len ss < two64 ->
  forall l y, zip_b conf_any ss l = true -> zip_b f12_free ss l = true -> forallb sval_ok l = true ->
  all_s (ser_s c) l = Some y -> (length (flat (enc_array (len ss) ++ y)) < fuel)%nat ->
  reads (de_tuple_of (map (fun s => de_s c s fuel) ss)) (flat (enc_array (len ss) ++ y)) l /\ len l = len ss.
Proof.
  intros IH Hs Ho Hd Hlen l y Hc Hfr Hok Hy Hf.
  destruct (all_s_split c l y Hy) as (css & Hf2 & ->).
  rewrite flat_app, app_length in Hf.
  destruct (tuple_rta c fuel ss IH Hs Ho Hd l css Hc Hfr Hok Hf2 ltac:(lia)) as (Hr & Hl).
  split; [|unfold len; now rewrite Hl].
  rewrite flat_app, flat_concat. unfold de_tuple_of.
  apply reads_bind with (Some (len ss)); [now apply reads_array|].
  rewrite len_map. cbn [opt_eqb]. rewrite N.eqb_refl.
  apply (tuple_collect_rt _ l (map flat css) Hr (Some (len ss))). cbn [ln_rem]. unfold len. now rewrite Hl.
Qed.

Lemma rta_tuple c fuel ss : Forall (rt_any c fuel) ss -> rt_any c fuel (ShTuple ss).
Proof.
  intros IH Hs Ho Hd v cs Hc Hfr Hok Hser Hf. cbn [shape_ok_any opt_in_opt untagged_disjoint de_s] in *.
  apply andb_prop in Hs as [Hlen Hs]. apply N.ltb_lt in Hlen.
  destruct v; try discriminate Hc; cbn [conf_any f12_free sval_ok] in *.
  apply andb_prop in Hc as [Hc Hcl]. apply andb_prop in Hc as [Hn Hn2]. apply N.eqb_eq in Hn. subst n.
  apply andb_prop in Hok as [_ Hokl].
  cbn [ser_s] in Hser. apply ocat_some_l in Hser as (y & Hy & ->).
  destruct (tuple_of_rta c fuel ss IH Hs Ho Hd Hlen l y Hcl Hfr Hokl Hy Hf) as (Hr & Hl).
  rewrite <- Hl at 2. apply (reads_fmap (fun l0 => STuple (len l0) l0) _ _ l). exact Hr.
Qed.

Lemma rta_tuple_struct c fuel ss : Forall (rt_any c fuel) ss -> rt_any c fuel (ShTupleStruct ss).
Proof.
  intros IH Hs Ho Hd v cs Hc Hfr Hok Hser Hf. cbn [shape_ok_any opt_in_opt untagged_disjoint de_s] in *.
  apply andb_prop in Hs as [Hlen Hs]. apply N.ltb_lt in Hlen.
  destruct v; try discriminate Hc; cbn [conf_any f12_free sval_ok] in *.
  apply andb_prop in Hc as [Hc Hcl]. apply andb_prop in Hc as [Hn Hn2]. apply N.eqb_eq in Hn. subst n.
  apply andb_prop in Hok as [_ Hokl].
  cbn [ser_s] in Hser. apply ocat_some_l in Hser as (y & Hy & ->).
  destruct (tuple_of_rta c fuel ss IH Hs Ho Hd Hlen l y Hcl Hfr Hokl Hy Hf) as (Hr & Hl).
  rewrite <- Hl at 2. apply (reads_fmap (fun l0 => STupleStruct (len l0) l0) _ _ l). exact Hr.
Qed.

Lemma kv_rta c fuel k v : rt_any c fuel k -> rt_any c fuel v ->
  shape_ok_any k = true -> shape_ok_any v = true -> opt_in_opt k = false -> opt_in_opt v = false ->
  untagged_disjoint k = true -> untagged_disjoint v = true ->
  forall m l css, (length l <= m)%nat -> alt_b (conf_any k) (conf_any v) l = true ->
  alt_b (f12_free k) (f12_free v) l = true -> forallb sval_ok l = true ->
  Forall2 (fun x y => ser_s c x = Some y) l css -> (length (flat (concat css)) < fuel)%nat ->
  ReadsKV (de_s c k fuel) (de_s c v fuel) l (map flat css).
Proof.
  intros IHk IHv Hsk Hsv Hok Hov Hdk Hdv. induction m as [|m IHm]; intros l css Hm Hc Hfr Hokl H Hf.
  - destruct l; [|cbn in Hm; lia]. inversion H; subst. constructor.
  - destruct l as [|a [|b l]]; [inversion H; subst; constructor|discriminate|].
    cbn [alt_b forallb] in *. apply andb_prop in Hc as [Hc Hcl]. apply andb_prop in Hc as [Hca Hcb].
    apply andb_prop in Hfr as [Hfr Hfl]. apply andb_prop in Hfr as [Hfa Hfb].
    apply andb_prop in Hokl as [Hoa Hokl]. apply andb_prop in Hokl as [Hob Hokl].
    inversion H as [|? ya ? css1 Ha H1]; subst. inversion H1 as [|? yb ? css2 Hb H2]; subst.
    cbn [concat] in Hf. rewrite !flat_app, !app_length in Hf.
    cbn [map]. constructor.
    + apply (IHk Hsk Hok Hdk a ya Hca Hfa Hoa Ha). lia.
    + now apply (no_break_ser c a ya).
    + apply (IHv Hsv Hov Hdv b yb Hcb Hfb Hob Hb). lia.
    + now apply (no_break_ser c b yb).
    + apply IHm; try assumption; [cbn in Hm; lia|lia].
Qed.

Lemma rta_map c fuel b k v : rt_any c fuel k -> rt_any c fuel v -> rt_any c fuel (ShMap b k v).
Proof.
  intros IHk IHv Hs Ho Hd x cs Hc Hfr Hok Hser Hf. cbn [shape_ok_any opt_in_opt untagged_disjoint de_s] in *.
  apply andb_prop in Hs as [Hsk Hsv]. apply orb_false_elim in Ho as [Hok' Hov]. apply andb_prop in Hd as [Hdk Hdv].
  destruct x; try discriminate Hc; cbn [conf_any f12_free] in *.
  apply andb_prop in Hc as [Hc Hcl]. apply andb_prop in Hc as [Hn Hlen].
  destruct (alt_even _ _ _ Hcl) as [Hev Hdiv].
  unfold de_map_of. destruct n as [n|].
  - apply andb_prop in Hn as [Hb Hn]. apply N.eqb_eq in Hn. subst b n.
    cbn [sval_ok] in Hok. apply andb_prop in Hok as [_ Hokl].
    cbn [ser_s] in Hser. apply ocat_some_l in Hser as (y & Hy & ->).
    destruct (all_s_split c kvs y Hy) as (css & Hf2 & ->).
    rewrite flat_app, app_length in Hf.
    pose proof (kv_rta c fuel k v IHk IHv Hsk Hsv Hok' Hov Hdk Hdv (length kvs) kvs css (le_n _) Hcl Hfr Hokl Hf2 ltac:(lia)) as Hr.
    rewrite flat_app, flat_concat.
    apply (reads_fmap (fun l0 => SMap (Some (len l0 / 2)) l0) _ _ kvs).
    apply N.ltb_lt in Hlen.
    apply reads_bind with (Some (len kvs / 2)); [now apply reads_map|].
    pose proof (map_collect_rt _ _ kvs (map flat css) Hr (Some (len kvs / 2)) fuel [] (eq_sym Hdiv)) as G.
    cbn [trailer rev app] in G. rewrite app_nil_r in G. apply G.
    pose proof (kv_count_le _ _ _ _ Hr) as Hcnt. rewrite flat_concat in Hf. lia.
  - apply negb_true_iff in Hn. subst b.
    cbn [sval_ok] in Hok. apply andb_prop in Hok as [_ Hokl].
    cbn [ser_s] in Hser. apply ocat_some_l in Hser as (y0 & Hy & ->).
    apply ocat_some in Hy as (y & z & Hy & [= <-] & ->).
    destruct (all_s_split c kvs y Hy) as (css & Hf2 & ->).
    rewrite !flat_app, !app_length in Hf.
    pose proof (kv_rta c fuel k v IHk IHv Hsk Hsv Hok' Hov Hdk Hdv (length kvs) kvs css (le_n _) Hcl Hfr Hokl Hf2 ltac:(lia)) as Hr.
    rewrite !flat_app, flat_concat.
    apply (reads_fmap (fun l0 => SMap None l0) _ _ kvs).
    apply reads_bind with None; [apply reads_begin_map|].
    pose proof (map_collect_rt _ _ kvs (map flat css) Hr None fuel [] I) as G.
    cbn [trailer rev app] in G. apply G.
    pose proof (kv_count_le _ _ _ _ Hr) as Hcnt. rewrite flat_concat in Hf. lia.
Qed.

(* ---- structs ---- *)
Lemma struct_loop_rta c fuel fs : names_distinct (map fst fs) = true ->
  forall suf pre pv, fs = pre ++ suf -> length pv = length pre ->
  Forall (fun p => rt_any c fuel (snd p)) suf ->
  forallb (fun p : bytes * shape => let (n, s) := p in str_ok n && shape_ok_any s) suf = true ->
  existsb (fun p : bytes * shape => let (_, s) := p in opt_in_opt s) suf = false ->
  forallb (fun p : bytes * shape => let (_, s) := p in untagged_disjoint s) suf = true ->
  forall vsuf y lf, zip_b (field_b conf_any) suf vsuf = true ->
  zip_b (fun (p : bytes * shape) (q : bytes * sval) => f12_free (snd p) (snd q)) suf vsuf = true ->
  forallb (fun p => name_ok (fst p) && sval_ok (snd p)) vsuf = true ->
  fields_s (ser_s c) vsuf = Some y ->
  (length (flat y) < fuel)%nat -> (length (flat y) < lf)%nat ->
  reads (struct_loop c (map (fdec c fuel) fs) (Some (len suf)) lf (map Some pv ++ map (fun _ => None) suf)) (flat y)
        (map Some (pv ++ map snd vsuf))
  /\ map fst vsuf = map fst suf.
Proof.
  intros Hnd suf. induction suf as [|[n s] suf IH]; intros pre pv Efs Hpv HIH Hs Ho Hd vsuf y lf Hc Hfr Hok Hy Hf Hlf.
  - destruct vsuf; [|discriminate]. injection Hy as <-. split; [|reflexivity].
    destruct lf as [|f]; [cbn in Hlf; lia|]. cbn [struct_loop map app]. rewrite !app_nil_r.
    change (flat []) with (@nil N).
    apply reads_bind_nil with None; [exact (next_key_done dec_str (Some (len (@nil (bytes * shape)))) eq_refl)|apply reads_ret].
  - destruct vsuf as [|[n' x] vsuf]; [discriminate|].
    cbn [zip_b] in Hc, Hfr. apply andb_prop in Hc as [Hc Hcl]. unfold field_b in Hc. cbn [fst snd] in Hc, Hfr.
    apply andb_prop in Hc as [Hn Hcx]. apply beq_true in Hn. subst n'. apply andb_prop in Hfr as [Hfx Hfl].
    cbn [forallb fst snd] in Hok. apply andb_prop in Hok as [Hokx Hokl]. apply andb_prop in Hokx as [_ Hokx].
    pose proof (Forall_inv HIH) as IHs. pose proof (Forall_inv_tail HIH) as HIH'. cbn [snd] in IHs.
    cbn [forallb existsb] in Hs, Ho, Hd. apply andb_prop in Hs as [Hs1 Hs2]. apply andb_prop in Hd as [Hd1 Hd2].
    apply andb_prop in Hs1 as [Hname Hs1]. apply orb_false_elim in Ho as [Ho1 Ho2].
    cbn [fields_s] in Hy. apply ocat_some_l in Hy as (y1 & Hy & ->). apply ocat_some in Hy as (yx & yr & Hx & Hr & ->).
    rewrite !flat_app, !app_length in Hf, Hlf.
    pose proof (str_ok_len n Hname) as Hnl. pose proof (no_break_str n Hnl) as Hnb.
    pose proof (no_break_cons_nonempty _ Hnb) as Hne.
    pose proof (IHs Hs1 Ho1 Hd1 x yx Hcx Hfx Hokx Hx ltac:(lia)) as Hrx.
    destruct lf as [|f]; [lia|].
    destruct (IH (pre ++ [(n, s)]) (pv ++ [x]) ltac:(now rewrite <- app_assoc) ltac:(rewrite !app_length; cbn; lia)
                 HIH' Hs2 Ho2 Hd2 vsuf yr f Hcl Hfl Hokl Hr ltac:(lia) ltac:(lia)) as (Hrr & Hnames).
    split; [|cbn [map fst]; now rewrite Hnames].
    rewrite !flat_app. cbn [struct_loop].
    apply reads_bind with (Some n).
    { apply (next_key_more dec_str (Some (len ((n, s) :: suf))) (length suf)); [cbn [ln_rem length]; reflexivity|now apply reads_str|exact Hnb]. }
    cbv iota beta.
    assert (Efind: find_idx n (map (fdec c fuel) fs) 0 = Some (length pre, de_s c s fuel)).
    { rewrite (find_idx_at (map (fdec c fuel) fs) ltac:(now rewrite map_fst_fdec) (length pre) n (de_s c s fuel) 0); [reflexivity|].
      rewrite Efs, map_app. cbn [map fdec]. rewrite <- (map_length (fdec c fuel) pre). apply nth_error_mid. }
    rewrite Efind.
    assert (Enth: nth_error (map Some pv ++ map (fun _ => None) ((n, s) :: suf)) (length pre) = Some None).
    { cbn [map]. rewrite <- Hpv, <- (map_length Some pv). apply nth_error_mid. }
    rewrite Enth.
    apply reads_bind with (x, Some (len ((n, s) :: suf) - 1)).
    { apply (next_value_more (de_s c s fuel) (Some (len ((n, s) :: suf))) (length suf)); [reflexivity|exact Hrx]. }
    cbn [fst snd map].
    replace (len ((n, s) :: suf) - 1) with (len suf) by (rewrite len_cons; lia).
    rewrite <- Hpv, <- (map_length Some pv), set_nth_app.
    replace (map Some pv ++ Some x :: map (fun _ => None) suf) with (map Some (pv ++ [x]) ++ map (fun _ : bytes * shape => @None sval) suf)
      by (rewrite map_app, <- app_assoc; reflexivity).
    replace (pv ++ x :: map snd vsuf) with ((pv ++ [x]) ++ map snd vsuf) by (now rewrite <- app_assoc).
    exact Hrr.
Qed.

Lemma rta_struct c fuel fs : Forall (fun p => rt_any c fuel (snd p)) fs -> rt_any c fuel (ShStruct fs).
Proof.
  intros IH Hs Ho Hd v cs Hc Hfr Hok Hser Hf. cbn [shape_ok_any opt_in_opt untagged_disjoint de_s] in *.
  apply andb_prop in Hs as [Hnd Hs].
  destruct v; try discriminate Hc; cbn [conf_any f12_free sval_ok] in *.
  apply andb_prop in Hc as [Hc Hcl]. apply andb_prop in Hc as [Hn Hn2]. apply N.eqb_eq in Hn. subst n.
  apply andb_prop in Hok as [_ Hokl].
  cbn [ser_s] in Hser. apply ocat_some_l in Hser as (y & Hy & ->).
  rewrite flat_app, app_length in Hf.
  destruct (struct_loop_rta c fuel fs Hnd fs [] [] eq_refl eq_refl IH Hs Ho Hd fs0 y fuel Hcl Hfr Hokl Hy ltac:(lia) ltac:(lia))
    as (Hr & Hnames).
  assert (Hlen: len fs0 = len fs).
  { unfold len. f_equal. rewrite <- (map_length fst fs0), Hnames. apply map_length. }
  rewrite flat_app. apply N.ltb_lt in Hn2.
  apply reads_bind with (Some (len fs)); [now apply reads_map|].
  unfold struct_visit. rewrite de_struct_eq.
  rewrite <- (app_nil_r (flat y)). cbn [app] in Hr.
  apply reads_bind with (map Some (map snd fs0)); [exact Hr|].
  rewrite (fill_missing_all fs fs0 Hnames), Hlen. apply reads_ret.
Qed.

(* ---- externally tagged enums ---- *)
Definition vconfa (p : bytes * (vkind * shape)) : bytes * (vkind * (sval -> bool)) :=
  let (n, ks) := p in let (k, s) := ks in (n, (k, conf_any s)).

Lemma nth_error_vconfa vs i name k f : nth_error (map vconfa vs) i = Some (name, (k, f)) ->
  exists s, nth_error vs i = Some (name, (k, s)) /\ f = conf_any s.
Proof.
  rewrite nth_error_map. destruct (nth_error vs i) as [[n [k' s]]|]; [|discriminate].
  cbn [option_map vconfa]. intros [= -> -> <-]. now exists s.
Qed.

Lemma variants_facts c fuel vs (f : shape -> bool) :
  Forall (fun p => rt_any c fuel (snd (snd p))) vs ->
  forallb (fun p : bytes * (vkind * shape) => let (n, ks) := p in let (k, s) := ks in str_ok n && payload_ok k s && shape_ok_any s) vs = true ->
  existsb (fun p : bytes * (vkind * shape) => let (_, ks) := p in let (_, s) := ks in opt_in_opt s) vs = false ->
  forallb (fun p : bytes * (vkind * shape) => let (_, ks) := p in let (_, s) := ks in untagged_disjoint s) vs = true ->
  len vs < 4294967296 ->
  forall i name k s, nth_error vs (N.to_nat i) = Some (name, (k, s)) ->
  str_ok name = true /\ payload_ok k s = true /\ shape_ok_any s = true /\ opt_in_opt s = false /\ untagged_disjoint s = true
  /\ rt_any c fuel s /\ (i <? 4294967296) = true.
Proof.
  intros IH Hsv Ho Hd Hlen i name k s Hn. pose proof (nth_error_In _ _ Hn) as Hin.
  pose proof (proj1 (forallb_forall _ _) Hsv _ Hin) as H1. cbn beta iota in H1.
  apply andb_prop in H1 as [H1 H1c]. apply andb_prop in H1 as [H1a H1b].
  pose proof (proj1 (forallb_forall _ _) Hd _ Hin) as H2. cbn beta iota in H2.
  pose proof (proj1 (Forall_forall _ _) IH _ Hin) as H3. cbn [snd] in H3.
  assert (H4: opt_in_opt s = false).
  { destruct (opt_in_opt s) eqn:E; [|reflexivity]. exfalso.
    assert (existsb (fun p : bytes * (vkind * shape) => let (_, ks) := p in let (_, s0) := ks in opt_in_opt s0) vs = true)
      by (apply existsb_exists; exists (name, (k, s)); split; [exact Hin|exact E]). congruence. }
  repeat split; try assumption.
  apply N.ltb_lt. pose proof (nth_error_lt_len _ _ _ Hn). lia.
Qed.

Lemma conf_enum_eqa vs :
  map (fun p : bytes * (vkind * shape) => let (n, ks) := p in let (k, s) := ks in (n, (k, conf_any s))) vs = map vconfa vs.
Proof. reflexivity. Qed.

Lemma free_at vs i name k s : nth_error vs (N.to_nat i) = Some (name, (k, s)) ->
  nth_error (map (fun p : bytes * (vkind * shape) => f12_free (snd (snd p))) vs) (N.to_nat i) = Some (f12_free s).
Proof. intro H. rewrite nth_error_map, H. reflexivity. Qed.

Lemma rta_enum c fuel vs : Forall (fun p => rt_any c fuel (snd (snd p))) vs -> rt_any c fuel (ShEnum vs).
Proof.
  intros IH Hs Ho Hd v cs Hc Hfr Hok Hser Hf. cbn [shape_ok_any opt_in_opt untagged_disjoint] in *.
  apply andb_prop in Hs as [Hs Hsv]. apply andb_prop in Hs as [Hnd Hlen]. apply N.ltb_lt in Hlen.
  pose proof (variants_facts c fuel vs shape_ok_any IH Hsv Ho Hd Hlen) as Hvar.
  cbn [de_s]. rewrite de_enum_eq.
  destruct v; try discriminate Hc; cbn [conf_any f12_free sval_ok] in *; try rewrite conf_enum_eqa in Hc.
  - (* unit variant *)
    destruct (variant_at vs idx name KUnit) as [s|] eqn:Ev; [|discriminate]. apply variant_at_some in Ev.
    destruct (Hvar _ _ _ _ Ev) as (Hn & _ & _ & _ & _ & _ & Hi).
    cbn [ser_s] in Hser. injection Hser as <-.
    intros rest p L HL.
    pose proof (prelude_text name [] rest p L (str_ok_len _ Hn)) as Ep. rewrite app_nil_r in Ep.
    rewrite (bind_ok _ _ _ _ _ Ep).
    rewrite (bind_ok _ _ _ _ _ (variant_ident_rt c fuel vs (N.to_nat idx) name KUnit s Hnd Hn Ev rest p L HL)).
    cbn [fst snd]. now rewrite N2Nat.id.
  - (* newtype variant *)
    destruct (variant_at (map vconfa vs) idx name KNewtype) as [f|] eqn:Ev; [|discriminate]. apply variant_at_some in Ev.
    apply nth_error_vconfa in Ev as (s & Ev & ->).
    destruct (Hvar _ _ _ _ Ev) as (Hn & _ & Hss & Hos & Hds & IHs & Hi).
    rewrite (free_at _ _ _ _ _ Ev) in Hfr.
    apply andb_prop in Hok as [_ Hokv].
    cbn [ser_s] in Hser. apply ocat_some_l in Hser as (y & Hy & ->).
    rewrite !flat_app, !app_length in Hf.
    pose proof (IHs Hss Hos Hds v y Hc Hfr Hokv Hy ltac:(lia)) as Hr.
    rewrite !flat_app, <- app_assoc.
    apply reads_bind with tt; [apply prelude_map1|].
    apply reads_bind with (N.to_nat idx, (name, (KNewtype, de_s c s fuel))); [now apply variant_ident_rt|].
    cbn [fst snd]. rewrite N2Nat.id.
    apply (reads_fmap (fun x => wrap_variant KNewtype idx name x) _ _ v). exact Hr.
  - (* tuple variant *)
    destruct (variant_at (map vconfa vs) idx name KTuple) as [f|] eqn:Ev; [|discriminate]. apply variant_at_some in Ev.
    apply nth_error_vconfa in Ev as (s & Ev & ->).
    destruct (Hvar _ _ _ _ Ev) as (Hn & Hp & Hss & Hos & Hds & IHs & Hi).
    rewrite (free_at _ _ _ _ _ Ev) in Hfr.
    assert (Hokp: sval_ok (STuple n l) = true).
    { cbn [sval_ok]. apply andb_prop in Hok as [Hok H3]. apply andb_prop in Hok as [Hok H2]. apply andb_prop in Hok as [_ H1].
      now rewrite H1, H2, H3. }
    cbn [ser_s] in Hser. apply ocat_some_l in Hser as (y & Hy & ->).
    assert (Hpay: ser_s c (STuple n l) = Some (enc_array n ++ y)) by (cbn [ser_s]; now rewrite Hy).
    rewrite !flat_app, !app_length in Hf.
    pose proof (IHs Hss Hos Hds (STuple n l) _ Hc Hfr Hokp Hpay ltac:(rewrite flat_app, app_length; lia)) as Hr.
    rewrite !flat_app. rewrite <- !app_assoc.
    apply reads_bind with tt; [apply prelude_map1|].
    apply reads_bind with (N.to_nat idx, (name, (KTuple, de_s c s fuel))); [now apply variant_ident_rt|].
    cbn [fst snd]. rewrite N2Nat.id. rewrite <- flat_app.
    apply (reads_fmap (fun x => wrap_variant KTuple idx name x) _ _ (STuple n l)). exact Hr.
  - (* struct variant *)
    destruct (variant_at (map vconfa vs) idx name KStruct) as [f|] eqn:Ev; [|discriminate]. apply variant_at_some in Ev.
    apply nth_error_vconfa in Ev as (s & Ev & ->).
    destruct (Hvar _ _ _ _ Ev) as (Hn & Hp & Hss & Hos & Hds & IHs & Hi).
    rewrite (free_at _ _ _ _ _ Ev) in Hfr.
    assert (Hokp: sval_ok (SStruct n fs) = true).
    { cbn [sval_ok]. apply andb_prop in Hok as [Hok H3]. apply andb_prop in Hok as [Hok H2]. apply andb_prop in Hok as [_ H1].
      now rewrite H1, H2, H3. }
    cbn [ser_s] in Hser. apply ocat_some_l in Hser as (y & Hy & ->).
    assert (Hpay: ser_s c (SStruct n fs) = Some (enc_map n ++ y)) by (cbn [ser_s]; now rewrite Hy).
    rewrite !flat_app, !app_length in Hf.
    pose proof (IHs Hss Hos Hds (SStruct n fs) _ Hc Hfr Hokp Hpay ltac:(rewrite flat_app, app_length; lia)) as Hr.
    rewrite !flat_app. rewrite <- !app_assoc.
    apply reads_bind with tt; [apply prelude_map1|].
    apply reads_bind with (N.to_nat idx, (name, (KStruct, de_s c s fuel))); [now apply variant_ident_rt|].
    cbn [fst snd]. rewrite N2Nat.id. rewrite <- flat_app.
    apply (reads_fmap (fun x => wrap_variant KStruct idx name x) _ _ (SStruct n fs)). exact Hr.
Qed.

(* ---- untagged enums: buffer everything, then the first variant that deserialises ---- *)
Lemma rta_untagged c fuel vs : rt_any c fuel (ShUntagged vs).
Proof.
  intros Hs Ho Hd v cs Hc Hfr Hok Hser Hf. cbn [de_s].
  assert (Hb: buf_conf false (ShUntagged vs) v = true).
  { cbn [conf_any f12_free buf_conf] in *.
    destruct (unt_first_split v true conf_any (buf_conf false) vs ltac:(destruct v; exact Hfr) ltac:(destruct v; exact Hc))
      as (pre & k & s & post & -> & Hk & Hcs & Hbs).
    clear Hc Hs Ho Hd.
    assert (G: forall pre', unt_first v true conf_any (buf_conf false) (pre' ++ (k, s) :: post) = true ->
               unt_first v false conf_any (buf_conf false) (pre' ++ (k, s) :: post) = true).
    { induction pre' as [|[k' s'] pre' IHp]; cbn [app unt_first]; intro H.
      - destruct k; try contradiction; now rewrite Hcs in *.
      - destruct k'; try (destruct (conf_any s' v); [exact H|now apply IHp]).
        destruct (is_unit_val v); [discriminate H|now apply IHp]. }
    destruct v; cbn [buf_conf f12_free] in *; apply G; exact Hfr. }
  rewrite <- (app_nil_r (flat cs)).
  apply reads_bind with (cont_of v); [now apply de_content_rt|].
  rewrite (fc_rt (ShUntagged vs) false v Hs Ho Hd Hb). apply reads_ret.
Qed.

(* ================================================================== internally tagged enums *)
(* entries that deserialize_any reads at every sufficient fuel *)
Inductive RKVF (c : cfg) : list content -> list bytes -> Prop :=
| RKVF_nil : RKVF c [] []
| RKVF_cons k v bk bv xs bss :
    (forall f, (length bk < f)%nat -> reads (de_content c f) bk k) -> no_break bk ->
    (forall f, (length bv < f)%nat -> reads (de_content c f) bv v) -> no_break bv ->
    RKVF c xs bss -> RKVF c (k :: v :: xs) (bk :: bv :: bss).

Lemma RKVF_fields c fs : forallb (fun p => name_ok (fst p) && sval_ok (snd p)) fs = true ->
  forall y, fields_s (ser_s c) fs = Some y -> RKVF c (cfields fs) (fbytes c fs).
Proof.
  induction fs as [|[k x] r IH]; intros Hok y Hy; [constructor|].
  cbn [forallb fst snd] in Hok. apply andb_prop in Hok as [Hok Hokr]. apply andb_prop in Hok as [Hk Hokx].
  cbn [fields_s] in Hy. apply ocat_some_l in Hy as (y1 & Hy & ->). apply ocat_some in Hy as (yx & yr & Hsx & Hr & ->).
  cbn [cfields fbytes]. rewrite Hsx. constructor.
  - intros f Hf. apply dc_scalar; [lia|]. intro f0. now apply any_str.
  - apply no_break_str. now apply name_ok_len.
  - intros f Hf. now apply (de_content_rt c x f yx).
  - now apply (no_break_ser c x yx).
  - now apply (IH Hokr yr).
Qed.

Lemma RKVF_elems c : forall m l css, (length l <= m)%nat -> forallb sval_ok l = true -> Nat.even (length l) = true ->
  Forall2 (fun x y => ser_s c x = Some y) l css -> RKVF c (map cont_of l) (map flat css).
Proof.
  induction m as [|m IH]; intros l css Hm Hok He H.
  - destruct l; [|cbn in Hm; lia]. inversion H; subst. constructor.
  - inversion H as [|a ya l1 css1 Ha H1]; subst; [constructor|].
    inversion H1 as [|b yb l2 css2 Hb H2]; subst; [discriminate He|].
    cbn [forallb] in Hok. apply andb_prop in Hok as [Hoa Hok]. apply andb_prop in Hok as [Hob Hok].
    cbn [map]. constructor.
    + intros f Hf. now apply (de_content_rt c a f ya).
    + now apply (no_break_ser c a ya).
    + intros f Hf. now apply (de_content_rt c b f yb).
    + now apply (no_break_ser c b yb).
    + apply IH; [cbn in Hm; lia|exact Hok|exact He|exact H2].
Qed.

Lemma RKVF_len c xs bss : RKVF c xs bss -> (length xs <= length (concat bss))%nat /\ Nat.even (length xs) = true.
Proof.
  induction 1 as [|k v bk bv xs bss _ Hnb _ Hnb2 _ [IH1 IH2]]; [split; [cbn; lia|reflexivity]|].
  cbn [length concat]. rewrite !app_length. apply no_break_cons_nonempty in Hnb, Hnb2. split; [lia|exact IH2].
Qed.

Lemma div2_SS n : (S (S n) / 2 = S (n / 2))%nat.
Proof.
  change (S (S n)) with (2 + n)%nat. rewrite (Nat.add_comm 2).
  replace (n + 2)%nat with (n + 1 * 2)%nat by lia. rewrite Nat.div_add by lia. lia.
Qed.

Lemma tagged_loop_rt {A} c tag (vs : list (bytes * A)) t xs bss : RKVF c xs bss ->
  (forall k, In k (alt_keys xs) -> is_tag_key tag k = false) ->
  forall ln lf acc, ln_rem ln (length xs / 2) -> (length (concat bss) < lf)%nat ->
  reads (tagged_loop c tag vs ln lf (Some t) acc) (concat bss ++ trailer ln) (Some t, rev acc ++ xs).
Proof.
  induction 1 as [|k v bk bv xs bss Hk Hnk Hv Hnv _ IH]; intros Hkeys ln lf acc Hr Hf.
  - destruct lf as [|f]; [cbn in Hf; lia|]. cbn [tagged_loop concat app].
    rewrite <- (app_nil_r (trailer ln)). apply reads_bind with None; [now apply next_key_done|].
    rewrite app_nil_r. apply reads_ret.
  - destruct lf as [|f]; [cbn in Hf; lia|]. cbn [tagged_loop concat length] in *. rewrite <- !app_assoc.
    rewrite !app_length in Hf. rewrite div2_SS in Hr. pose proof (no_break_cons_nonempty _ Hnk) as Hne.
    apply reads_bind with (Some k).
    { apply (next_key_more (de_content c (S f)) ln (length xs / 2)); [exact Hr|apply Hk; lia|exact Hnk]. }
    cbv iota beta. rewrite (Hkeys k ltac:(now left)).
    apply reads_bind with (v, ln_dec ln).
    { apply (next_value_more (de_content c (S f)) ln (length xs / 2)); [exact Hr|apply Hv; lia]. }
    cbn [fst snd]. rewrite <- (trailer_dec ln).
    replace (rev acc ++ k :: v :: xs) with (rev (v :: k :: acc) ++ xs) by (cbn [rev]; now rewrite <- !app_assoc).
    apply IH; [intros k0 Hk0; apply Hkeys; now right|now apply ln_rem_dec|lia].
Qed.

Lemma variant_ident_gen {A} (vs : list (bytes * A)) name i a : str_ok name = true -> find_idx name vs 0 = Some (i, a) ->
  reads (variant_ident vs) (flat (enc_str name)) (i, (name, a)).
Proof.
  intros Hn Hfi. unfold variant_ident. rewrite <- (app_nil_r (flat (enc_str name))).
  apply reads_bind with name; [now apply reads_str|]. rewrite Hfi. apply reads_ret.
Qed.

Lemma tagged_first {A} c tag (vs : list (bytes * A)) name i a xs bss ln lf : RKVF c xs bss ->
  (forall k, In k (alt_keys xs) -> is_tag_key tag k = false) ->
  str_ok tag = true -> str_ok name = true -> find_idx name vs 0 = Some (i, a) ->
  ln_rem ln (S (length xs / 2)) ->
  (length (flat (enc_str tag) ++ flat (enc_str name) ++ concat bss) < lf)%nat ->
  reads (tagged_loop c tag vs ln lf None []) (flat (enc_str tag) ++ flat (enc_str name) ++ concat bss ++ trailer ln)
        (Some (i, (name, a)), xs).
Proof.
  intros HR Hkeys Htag Hname Hfi Hr Hf. destruct lf as [|f]; [cbn in Hf; lia|]. cbn [tagged_loop].
  rewrite !app_length in Hf.
  pose proof (no_break_str tag (str_ok_len _ Htag)) as Hnb. pose proof (no_break_cons_nonempty _ Hnb) as Hne.
  apply reads_bind with (Some (CStr false tag)).
  { apply (next_key_more (de_content c (S f)) ln (length xs / 2)); [exact Hr| |exact Hnb].
    apply dc_scalar; [lia|]. intro f0. now apply any_str. }
  cbv iota beta. cbn [is_tag_key]. rewrite beq_refl.
  apply reads_bind with ((i, (name, a)), ln_dec ln).
  { apply (next_value_more (variant_ident vs) ln (length xs / 2)); [exact Hr|now apply variant_ident_gen]. }
  cbn [fst snd]. rewrite <- (trailer_dec ln).
  apply (tagged_loop_rt c tag vs (i, (name, a)) xs bss HR Hkeys (ln_dec ln) f []); [now apply ln_rem_dec|lia].
Qed.

Lemma alt_keys_map {A B} (g : A -> B) l : alt_keys (map g l) = map g (alt_keys l).
Proof.
  assert (G: forall m l, (length l <= m)%nat -> alt_keys (map g l) = map g (alt_keys l)).
  { induction m as [|m IH]; intros l0 Hm.
    - destruct l0; [reflexivity|cbn in Hm; lia].
    - destruct l0 as [|a [|b r]]; [reflexivity|reflexivity|]. cbn [map alt_keys]. rewrite IH; [reflexivity|cbn in Hm; lia]. }
  now apply (G (length l)).
Qed.

Lemma alt_keys_cfields fs : alt_keys (cfields fs) = map (fun p : bytes * sval => CStr false (fst p)) fs.
Proof. induction fs as [|[k x] r IH]; [reflexivity|]. cbn [cfields alt_keys map fst]. now rewrite IH. Qed.

(* the three written forms of an internally tagged value *)
Lemma int_untag_inv tag v name body : int_untag tag v = Some (name, body) ->
  (exists n fs, v = SStruct n ((tag, SStr name) :: fs) /\ 1 <= n /\ body = SStruct (n - 1) fs) \/
  (exists n kvs, v = SMap (Some n) (SStr tag :: SStr name :: kvs) /\ 1 <= n /\ body = SMap (Some (n - 1)) kvs) \/
  (exists kvs, v = SMap None (SStr tag :: SStr name :: kvs) /\ body = SMap None kvs).
Proof.
  unfold int_untag. intro H.
  repeat match type of H with context [match ?x with _ => _ end] => is_var x; destruct x; try discriminate H end.
  - destruct (beq b tag && (1 <=? n)) eqn:E; [|discriminate H]. injection H as <- <-.
    apply andb_prop in E as [E1 E2]. apply beq_true in E1. subst b. apply N.leb_le in E2.
    right. left. now exists n, kvs.
  - destruct (beq b tag) eqn:E; [|discriminate H]. injection H as <- <-. apply beq_true in E. subst b.
    right. right. now exists kvs.
  - destruct (beq b tag && (1 <=? n)) eqn:E; [|discriminate H]. injection H as <- <-.
    apply andb_prop in E as [E1 E2]. apply beq_true in E1. subst b. apply N.leb_le in E2.
    left. now exists n, fs.
Qed.

Lemma int_forms c tag v name body cs : int_untag tag v = Some (name, body) -> sval_ok v = true -> ser_s c v = Some cs ->
  exists hd ln xs bss,
    flat cs = hd ++ flat (enc_str tag) ++ flat (enc_str name) ++ concat bss ++ trailer ln
    /\ (forall f, reads (any_head c f) hd (EvMap ln)) /\ (1 <= length hd)%nat
    /\ RKVF c xs bss /\ ln_rem ln (S (length xs / 2)) /\ cont_of body = CMap xs
    /\ name_ok tag = true /\ name_ok name = true
    /\ (no_tag_key tag body = true -> forall k, In k (alt_keys xs) -> is_tag_key tag k = false).
Proof.
  intros Hu Hok Hs.
  assert (Hcommon: forall n' kvs, sval_ok (SMap n' (SStr tag :: SStr name :: kvs)) = true ->
            name_ok tag = true /\ name_ok name = true /\ forallb sval_ok kvs = true /\ Nat.even (length kvs) = true).
  { intros n' kvs H. assert (H': N.even (len (SStr tag :: SStr name :: kvs)) && forallb sval_ok (SStr tag :: SStr name :: kvs) = true).
    { destruct n'; cbn [sval_ok] in H; [|exact H]. apply andb_prop in H as [H H3]. apply andb_prop in H as [H _].
      apply andb_prop in H as [H1 _]. now rewrite H1, H3. }
    apply andb_prop in H' as [He Hl]. cbn [forallb sval_ok] in Hl. apply andb_prop in Hl as [Hb Hl]. apply andb_prop in Hl as [Hb0 Hl].
    repeat split; try assumption. apply even_nat_N in He. exact He. }
  assert (Hkeys: forall n' kvs, no_tag_key tag (SMap n' kvs) = true ->
                 forall k, In k (alt_keys (map cont_of kvs)) -> is_tag_key tag k = false).
  { cbn [no_tag_key]. intros n' kvs Hnt k Hk. rewrite alt_keys_map in Hk. apply in_map_iff in Hk as (k' & <- & Hk').
    apply negb_true_iff. now apply (proj1 (forallb_forall _ _) Hnt). }
  destruct (int_untag_inv tag v name body Hu) as [(n & fs & -> & Hn1 & ->)|[(n & kvs & -> & Hn1 & ->)|(kvs & -> & ->)]].
  - (* struct *)
    cbn [sval_ok forallb fst snd] in Hok. apply andb_prop in Hok as [Hok Hokl]. apply andb_prop in Hok as [Hn Hn2].
    apply andb_prop in Hokl as [Hh Hokl]. apply andb_prop in Hh as [Htag Hname].
    apply N.eqb_eq in Hn. apply N.ltb_lt in Hn2.
    cbn [ser_s fields_s] in Hs. apply ocat_some_l in Hs as (y & Hy & ->).
    apply ocat_some_l in Hy as (y1 & Hy & ->). apply ocat_some_l in Hy as (yr & Hy & ->).
    exists (flat (enc_map n)), (Some n), (cfields fs), (fbytes c fs).
    rewrite !flat_app, (fields_bytes c fs yr Hy). cbn [trailer]. rewrite app_nil_r.
    refine (conj _ (conj _ (conj _ (conj _ (conj _ (conj _ (conj _ (conj _ _)))))))); try assumption; try reflexivity; try exact I.
    + intro f. now apply any_map.
    + now apply len_enc_map_pos.
    + now apply (RKVF_fields c fs Hokl yr).
    + cbn [ln_rem]. rewrite length_cfields, Hn, len_cons. rewrite Nat.mul_comm, Nat.div_mul by lia. unfold len. lia.
    + cbn [no_tag_key]. intros Hnt k Hk. rewrite alt_keys_cfields in Hk. apply in_map_iff in Hk as (p & <- & Hp).
      cbn [is_tag_key]. apply negb_true_iff. now apply (proj1 (forallb_forall _ _) Hnt).
  - (* map of known length *)
    destruct (Hcommon _ _ Hok) as (Hb & Hb0 & Hokl & Hev).
    cbn [sval_ok] in Hok. apply andb_prop in Hok as [Hok _]. apply andb_prop in Hok as [Hok Hn2]. apply andb_prop in Hok as [_ Hn].
    apply N.eqb_eq in Hn. apply N.ltb_lt in Hn2.
    cbn [ser_s all_s] in Hs. apply ocat_some_l in Hs as (y & Hy & ->).
    apply ocat_some_l in Hy as (y1 & Hy & ->). apply ocat_some_l in Hy as (yr & Hy & ->).
    destruct (all_s_split c kvs yr Hy) as (css & H2 & ->).
    exists (flat (enc_map n)), (Some n), (map cont_of kvs), (map flat css).
    rewrite !flat_app, flat_concat. cbn [trailer]. rewrite app_nil_r.
    refine (conj _ (conj _ (conj _ (conj _ (conj _ (conj _ (conj _ (conj _ _)))))))); try assumption; try reflexivity; try exact I.
    + intro f. now apply any_map.
    + now apply len_enc_map_pos.
    + apply (RKVF_elems c (length kvs) kvs css (le_n _) Hokl Hev H2).
    + cbn [ln_rem]. rewrite map_length, Hn. rewrite !len_cons.
      replace (1 + (1 + len kvs)) with (len kvs + 1 * 2) by lia. rewrite N.div_add by lia.
      rewrite <- div2_nat_N. lia.
    + now apply Hkeys.
  - (* map of unknown length *)
    destruct (Hcommon _ _ Hok) as (Hb & Hb0 & Hokl & Hev).
    cbn [ser_s all_s] in Hs. apply ocat_some_l in Hs as (y0 & Hy & ->).
    apply ocat_some in Hy as (y & z & Hy & [= <-] & ->).
    apply ocat_some_l in Hy as (y1 & Hy & ->). apply ocat_some_l in Hy as (yr & Hy & ->).
    destruct (all_s_split c kvs yr Hy) as (css & H2 & ->).
    exists (flat enc_begin_map), None, (map cont_of kvs), (map flat css).
    rewrite !flat_app, flat_concat. rewrite <- !app_assoc.
    refine (conj _ (conj _ (conj _ (conj _ (conj _ (conj _ (conj _ (conj _ _)))))))); try assumption; try reflexivity; try exact I.
    + intro f. apply any_begin_map.
    + apply (RKVF_elems c (length kvs) kvs css (le_n _) Hokl Hev H2).
    + now apply Hkeys.
Qed.


Lemma find_idx_map {A B} (g : A -> B) name (vs : list (bytes * (vkind * A))) k0 :
  find_idx name (map (fun p : bytes * (vkind * A) => let (n, ks) := p in let (k, s) := ks in (n, (k, g s))) vs) k0
  = option_map (fun r : nat * (vkind * A) => (fst r, (fst (snd r), g (snd (snd r))))) (find_idx name vs k0).
Proof.
  revert k0. induction vs as [|[n [k s]] r IH]; intro k0; [reflexivity|]. cbn [map find_idx].
  destruct (list_eq_dec N.eq_dec name n); [reflexivity|apply IH].
Qed.

Lemma find_idx_in {A} name (vs : list (bytes * A)) k0 i a : find_idx name vs k0 = Some (i, a) -> In (name, a) vs.
Proof.
  revert k0. induction vs as [|[n x] r IH]; intros k0 H; [discriminate H|]. cbn [find_idx] in H.
  destruct (list_eq_dec N.eq_dec name n) as [->|_]; [injection H as _ <-; now left|right; now apply (IH (S k0))].
Qed.

Lemma conf_internal_eq tag vs v : conf_any (ShInternal tag vs) v =
  match int_split tag (map (fun p : bytes * (vkind * shape) =>
                              let (n, ks) := p in let (k, s) := ks in (n, (k, (s, conf_any s)))) vs) v with
  | Some (_, (_, (k, ((s, f), body)))) =>
      match k with
      | KUnit => is_empty_struct body
      | KTuple => false
      | KNewtype | KStruct => no_tag_key tag body && match int_payload s body with Some x => f x | None => false end
      end
  | None => false
  end.
Proof. destruct v; reflexivity. Qed.

Lemma free_internal_eq tag vs v : f12_free (ShInternal tag vs) v =
  match int_split tag vs v with
  | Some (_, (_, (k, (s, body)))) =>
      match k with
      | KUnit => true
      | _ => match s with
             | ShUnit | ShUnitStruct => true
             | _ => match int_payload s body with Some x => buf_conf true s x | None => true end
             end
      end
  | None => true
  end.
Proof. destruct v; reflexivity. Qed.

Lemma splice_untag tag v name body : int_untag tag v = Some (name, body) ->
  (forall x, x = body \/ (x = SNewtypeStruct body /\ exists n fs, body = SStruct n fs) -> tag_splice tag name x = Some v)
  /\ (forall m, body = SMap (Some m) [] -> m = 0 -> v = SMap (Some 1) [SStr tag; SStr name])
  /\ (is_empty_struct body = true -> v = SStruct 1 [(tag, SStr name)]).
Proof.
  intro Hu. destruct (int_untag_inv tag v name body Hu) as [(n & fs & -> & Hn1 & ->)|[(n & kvs & -> & Hn1 & ->)|(kvs & -> & ->)]].
  - split; [|split].
    + intros x [->|[-> _]]; cbn [tag_splice]; now replace (n - 1 + 1) with n by lia.
    + intros m H. discriminate H.
    + cbn [is_empty_struct]. destruct fs; [|discriminate]. intro H. apply N.eqb_eq in H. now replace n with 1 by lia.
  - split; [|split].
    + intros x [->|[-> (n' & fs & H)]]; [|discriminate H]. cbn [tag_splice]. now replace (n - 1 + 1) with n by lia.
    + intros m [= Hm <-] H0. now replace n with 1 by lia.
    + discriminate.
  - split; [|split].
    + intros x [->|[-> (n' & fs & H)]]; [|discriminate H]. reflexivity.
    + intros m H. discriminate H.
    + discriminate.
Qed.

Definition is_unit_shape (s : shape) : bool := match s with ShUnit | ShUnitStruct => true | _ => false end.

Definition is_unitish (x : sval) : bool := match x with SUnit | SUnitStruct => true | _ => false end.

Lemma int_payload_inv s body x : int_payload s body = Some x ->
  (is_unit_shape s = true /\ (exists m, body = SMap (Some m) [] /\ m = 0) /\ fc true s (CMap []) = Some x
     /\ is_unitish x = true)
  \/ (is_unit_shape s = false /\ (x = body \/ (x = SNewtypeStruct body /\ exists n fs, body = SStruct n fs))
      /\ cont_of x = cont_of body /\ exists l, cont_of body = CMap l).
Proof.
  unfold int_payload. intro H.
  destruct s; try (right; destruct body; try discriminate H; injection H as <-;
                   (split; [reflexivity|split; [now left|split; [reflexivity|try rewrite cont_struct; eexists; reflexivity]]])).
  - left. destruct body; try discriminate H. destruct n as [m|]; [|discriminate H]. destruct kvs; [|discriminate H].
    destruct (N.eqb_spec m 0); [|discriminate H]. injection H as <-.
    split; [reflexivity|split; [now exists m|split; reflexivity]].
  - left. destruct body; try discriminate H. destruct n as [m|]; [|discriminate H]. destruct kvs; [|discriminate H].
    destruct (N.eqb_spec m 0); [|discriminate H]. injection H as <-.
    split; [reflexivity|split; [now exists m|split; reflexivity]].
  - right. destruct body; try discriminate H. injection H as <-.
    split; [reflexivity|split; [right; split; [reflexivity|now exists n, fs]|split; [reflexivity|rewrite cont_struct; eexists; reflexivity]]].
Qed.

Lemma rta_internal c fuel tag vs : rt_any c fuel (ShInternal tag vs).
Proof.
  intros Hs Ho Hd v cs Hc Hfr Hok Hser Hf. cbn [shape_ok_any opt_in_opt untagged_disjoint] in *.
  rewrite conf_internal_eq in Hc. rewrite free_internal_eq in Hfr. unfold int_split in Hc, Hfr.
  destruct (int_untag tag v) as [[name body]|] eqn:Eu; [|discriminate Hc].
  rewrite find_idx_map in Hc. destruct (find_idx name vs 0) as [[i [k s]]|] eqn:Efi; [|discriminate Hc].
  cbn [option_map fst snd] in Hc.
  apply andb_prop in Hs as [Hs Hsv]. apply andb_prop in Hs as [Hs _]. apply andb_prop in Hs as [Htag Hnd].
  pose proof (find_idx_in name vs 0 i (k, s) Efi) as Hin.
  pose proof (proj1 (forallb_forall _ _) Hsv _ Hin) as H1. cbn beta iota in H1.
  apply andb_prop in H1 as [H1 Hss]. apply andb_prop in H1 as [Hname Hp].
  pose proof (proj1 (forallb_forall _ _) Hd _ Hin) as Hds. cbn beta iota in Hds.
  assert (Hos: opt_in_opt s = false).
  { destruct (opt_in_opt s) eqn:E; [|reflexivity]. exfalso.
    assert (existsb (fun p : bytes * (vkind * shape) => let (_, ks) := p in let (_, s0) := ks in opt_in_opt s0) vs = true)
      by (apply existsb_exists; exists (name, (k, s)); split; [exact Hin|exact E]). congruence. }
  destruct (int_forms c tag v name body cs Eu Hok Hser) as (hd & ln & xs & bss & Ecs & Hhd & Hhl & HR & Hln & Ebody & _ & _ & Hkeys).
  destruct (splice_untag tag v name body Eu) as (Hsp & Hspu & Hspe).
  assert (Hfin: internal_finish tag i name k s (CMap xs) = Some v /\
                (forall k0, In k0 (alt_keys xs) -> is_tag_key tag k0 = false)).
  { destruct k; cbn [internal_finish].
    - (* unit variant: the bare tag map *)
      rewrite (Hspe Hc). split; [reflexivity|].
      destruct body; try discriminate Hc. destruct fs; [|discriminate Hc]. rewrite cont_struct in Ebody.
      injection Ebody as <-. intros k0 [].
    - apply andb_prop in Hc as [Hnt Hc]. split; [|now apply Hkeys].
      destruct (int_payload s body) as [x|] eqn:Ep; [|discriminate Hc].
      destruct (int_payload_inv s body x Ep) as [(Hu & (m & Hb & Hm) & Hfc & Hux)|(Hu & Hx & Ecx & _)].
      + rewrite Hb in Ebody. cbn [cont_of map] in Ebody. injection Ebody as <-. rewrite Hfc.
        rewrite (Hspu m Hb Hm). destruct x; try discriminate Hux; reflexivity.
      + assert (Hbx: buf_conf true s x = true) by (destruct s; try discriminate Hu; exact Hfr).
        rewrite <- Ebody, <- Ecx. rewrite (fc_rt s true x Hss Hos Hds Hbx). now apply Hsp.
    - discriminate Hc.
    - apply andb_prop in Hc as [Hnt Hc]. split; [|now apply Hkeys].
      destruct (int_payload s body) as [x|] eqn:Ep; [|discriminate Hc].
      destruct (int_payload_inv s body x Ep) as [(Hu & _)|(Hu & Hx & Ecx & _)].
      + destruct s; try discriminate Hp; discriminate Hu.
      + assert (Hbx: buf_conf true s x = true) by (destruct s; try discriminate Hu; exact Hfr).
        rewrite <- Ebody, <- Ecx. rewrite (fc_rt s true x Hss Hos Hds Hbx). now apply Hsp. }
  destruct Hfin as [Hfin Hk2].
  rewrite Ecs in *. rewrite !app_length in Hf. cbn [de_s].
  apply reads_bind with (EvMap ln); [apply Hhd|]. cbv iota.
  rewrite <- (app_nil_r (flat (enc_str tag) ++ flat (enc_str name) ++ concat bss ++ trailer ln)).
  apply reads_bind with (Some (i, (name, (k, s))), xs).
  { apply tagged_first; try assumption. rewrite !app_length. lia. }
  cbv iota. cbn [fst snd]. rewrite Hfin. apply reads_ret.
Qed.
