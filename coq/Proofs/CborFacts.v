(* Proofs/CborFacts.v — facts about the specification side (Spec/Cbor.v), full grammar:
     enc_ind'             induction principle for enc with Forall hypotheses for the containers
     ser_nonempty, ser_first_not_break, len_ser_pos, len_flat_ge, size_le_ser
     read_arg_args, dispatch_head        the reference parser on a serialised head
     parse_ser            the reference parser inverts ser on well-formed trees (any fuel >= size)
     parse_ser_auto       ... with the fuel that one_item / items use                        *)
From MC Require Import Bytes BytesFacts Cbor DecoderFacts.
From Coq Require Import Lia.
Local Open Scope N_scope.

(* ---- induction principle ---- *)
Section enc_induction.
  Variable P : enc -> Prop.
  Hypothesis HUInt : forall w n, P (EUInt w n).
  Hypothesis HNInt : forall w n, P (ENInt w n).
  Hypothesis HBytes : forall w b, P (EBytes w b).
  Hypothesis HBytesI : forall cs, P (EBytesI cs).
  Hypothesis HText : forall w b, P (EText w b).
  Hypothesis HTextI : forall cs, P (ETextI cs).
  Hypothesis HArray : forall w es, Forall P es -> P (EArray w es).
  Hypothesis HArrayI : forall es, Forall P es -> P (EArrayI es).
  Hypothesis HMap : forall w es, Forall P es -> P (EMap w es).
  Hypothesis HMapI : forall es, Forall P es -> P (EMapI es).
  Hypothesis HTag : forall w t e, P e -> P (ETag w t e).
  Hypothesis HSimple : forall n, P (ESimple n).
  Hypothesis HF16 : forall b, P (EF16 b).
  Hypothesis HF32 : forall b, P (EF32 b).
  Hypothesis HF64 : forall b, P (EF64 b).

  Fixpoint enc_ind' (e : enc) : P e :=
    match e with
    | EUInt w n => HUInt w n
    | ENInt w n => HNInt w n
    | EBytes w b => HBytes w b
    | EBytesI cs => HBytesI cs
    | EText w b => HText w b
    | ETextI cs => HTextI cs
    | EArray w es => HArray w es
        ((fix go l : Forall P l :=
            match l with [] => Forall_nil _ | x :: l' => Forall_cons _ (enc_ind' x) (go l') end) es)
    | EArrayI es => HArrayI es
        ((fix go l : Forall P l :=
            match l with [] => Forall_nil _ | x :: l' => Forall_cons _ (enc_ind' x) (go l') end) es)
    | EMap w es => HMap w es
        ((fix go l : Forall P l :=
            match l with [] => Forall_nil _ | x :: l' => Forall_cons _ (enc_ind' x) (go l') end) es)
    | EMapI es => HMapI es
        ((fix go l : Forall P l :=
            match l with [] => Forall_nil _ | x :: l' => Forall_cons _ (enc_ind' x) (go l') end) es)
    | ETag w t e => HTag w t e (enc_ind' e)
    | ESimple n => HSimple n
    | EF16 b => HF16 b
    | EF32 b => HF32 b
    | EF64 b => HF64 b
    end.
End enc_induction.

(* ---- small arithmetic / tactics ---- *)
Lemma div32 mt a : a < 32 -> (mt * 32 + a) / 32 = mt.
Proof. intro H. symmetry. apply N.div_unique with a; lia. Qed.

Lemma mod32 mt a : a < 32 -> (mt * 32 + a) mod 32 = a.
Proof. intro H. symmetry. apply N.mod_unique with mt; lia. Qed.

Lemma even_half n : N.even n = true -> 2 * (n / 2) = n.
Proof.
  intro H. apply N.even_spec in H. destruct H as [m Hm]. subst n.
  rewrite (N.mul_comm 2 m), N.div_mul by lia. lia.
Qed.

(* decide the boolean tests that the parser performs on closed numerals
   (never vm_compute a comparison with a variable in it: the normal form is exponential) *)
Ltac is_pos p := match p with xH => idtac | xO ?q => is_pos q | xI ?q => is_pos q end.
Ltac is_num a := match a with N0 => idtac | Npos ?p => is_pos p end.
Ltac nums :=
  repeat match goal with
  | |- context [N.eqb ?a ?b] =>
      is_num a; is_num b; let v := eval vm_compute in (N.eqb a b) in change (N.eqb a b) with v
  | |- context [N.ltb ?a ?b] =>
      is_num a; is_num b; let v := eval vm_compute in (N.ltb a b) in change (N.ltb a b) with v
  | |- context [N.leb ?a ?b] =>
      is_num a; is_num b; let v := eval vm_compute in (N.leb a b) in change (N.leb a b) with v
  end; cbv iota.

(* ---- shape of serialisations ---- *)
Lemma ser_nonempty : forall e, exists b t, ser e = b :: t.
Proof.
  destruct e; cbn [ser]; rewrite ?head_split; cbn [app]; try (do 2 eexists; reflexivity).
  destruct (n <? 24); do 2 eexists; reflexivity.
Qed.

Lemma ib_not_break mt w n : mt < 8 -> fits w n = true -> ib mt w n <> 255.
Proof. intros Hm Hf. apply ai_lt in Hf. unfold ib. lia. Qed.

Lemma ser_first_not_break : forall e, wf e = true -> exists b t, ser e = b :: t /\ b <> 255.
Proof.
  destruct e; cbn [ser wf]; intro H; rewrite ?head_split; cbn [app].
  - do 2 eexists; split; [reflexivity|]. apply ib_not_break; [lia|exact H].
  - do 2 eexists; split; [reflexivity|]. apply ib_not_break; [lia|exact H].
  - apply andb_prop in H. destruct H as [H _].
    do 2 eexists; split; [reflexivity|]. apply ib_not_break; [lia|exact H].
  - do 2 eexists; split; [reflexivity|lia].
  - apply andb_prop in H. destruct H as [H _].
    do 2 eexists; split; [reflexivity|]. apply ib_not_break; [lia|exact H].
  - do 2 eexists; split; [reflexivity|lia].
  - apply andb_prop in H. destruct H as [H _].
    do 2 eexists; split; [reflexivity|]. apply ib_not_break; [lia|exact H].
  - do 2 eexists; split; [reflexivity|lia].
  - apply andb_prop in H. destruct H as [H _]. apply andb_prop in H. destruct H as [_ H].
    do 2 eexists; split; [reflexivity|]. apply ib_not_break; [lia|exact H].
  - do 2 eexists; split; [reflexivity|lia].
  - apply andb_prop in H. destruct H as [H _].
    do 2 eexists; split; [reflexivity|]. apply ib_not_break; [lia|exact H].
  - destruct (N.ltb_spec n 24); do 2 eexists; (split; [reflexivity|lia]).
  - do 2 eexists; split; [reflexivity|lia].
  - do 2 eexists; split; [reflexivity|lia].
  - do 2 eexists; split; [reflexivity|lia].
Qed.

Lemma length_ser_pos : forall e, (1 <= length (ser e))%nat.
Proof. intro e. destruct (ser_nonempty e) as (b & t & E). rewrite E. cbn [length]. lia. Qed.

Lemma len_ser_pos : forall e, 1 <= len (ser e).
Proof. intro e. unfold len. pose proof (length_ser_pos e). lia. Qed.

Lemma length_flat_ge : forall es, (length es <= length (flat_map ser es))%nat.
Proof.
  induction es as [|e es IH]; cbn [length flat_map]; [lia|].
  rewrite app_length. pose proof (length_ser_pos e). lia.
Qed.

Lemma len_flat_ge : forall es, len es <= len (flat_map ser es).
Proof. intro es. unfold len. pose proof (length_flat_ge es). lia. Qed.

Lemma length_head_pos mt w n : (1 <= length (Cbor.head mt w n))%nat.
Proof. rewrite head_split. cbn [length]. lia. Qed.

Lemma length_flat_chunks_ge mt : forall cs, (length cs <= length (flat_map (ser_chunk mt) cs))%nat.
Proof.
  induction cs as [|c cs IH]; cbn [length flat_map]; [lia|].
  unfold ser_chunk at 1. rewrite !app_length. pose proof (length_head_pos mt (fst c) (len (snd c))). lia.
Qed.

Lemma fuel_chunks mt cs (r : bytes) : (length cs < S (length (flat_map (ser_chunk mt) cs ++ r)))%nat.
Proof. rewrite app_length. pose proof (length_flat_chunks_ge mt cs). lia. Qed.

Lemma fuel_brk es (r : bytes) : (length es < S (length (flat_map ser es ++ r)))%nat.
Proof. rewrite app_length. pose proof (length_flat_ge es). lia. Qed.

Lemma fuel_n es (r : bytes) : (length es <= length (flat_map ser es ++ r))%nat.
Proof. rewrite app_length. pose proof (length_flat_ge es). lia. Qed.

Lemma sum_size_le es : Forall (fun e => (size e <= length (ser e))%nat) es ->
  (fold_right (fun e a => size e + a)%nat 0%nat es <= length (flat_map ser es))%nat.
Proof.
  induction 1 as [|e es He _ IH]; cbn [fold_right flat_map length]; [lia|].
  rewrite app_length. lia.
Qed.

Lemma size_le_ser : forall e, (size e <= length (ser e))%nat.
Proof.
  induction e as [w n|w n|w b|cs|w b|cs|w es IH|es IH|w es IH|es IH|w t e IH|n|b|b|b] using enc_ind';
  try (cbn [size]; apply length_ser_pos).
  - cbn [size ser]. rewrite app_length. apply sum_size_le in IH.
    pose proof (length_head_pos 4 w (len es)). lia.
  - cbn [size ser length]. rewrite app_length. apply sum_size_le in IH. lia.
  - cbn [size ser]. rewrite app_length. apply sum_size_le in IH.
    pose proof (length_head_pos 5 w (len es / 2)). lia.
  - cbn [size ser length]. rewrite app_length. apply sum_size_le in IH. lia.
  - cbn [size ser]. rewrite app_length. pose proof (length_head_pos 6 w t). lia.
Qed.

(* ---- the reference parser on a serialised head ---- *)
Lemma take_be k n r : take (be k n ++ r) (N.of_nat k) = Some (be k n, r).
Proof. rewrite <- (len_be k n). apply take_app. Qed.
Lemma take_be2 n r : take (be 2 n ++ r) 2 = Some (be 2 n, r).
Proof. exact (take_be 2 n r). Qed.
Lemma take_be4 n r : take (be 4 n ++ r) 4 = Some (be 4 n, r).
Proof. exact (take_be 4 n r). Qed.
Lemma take_be8 n r : take (be 8 n ++ r) 8 = Some (be 8 n, r).
Proof. exact (take_be 8 n r). Qed.
Lemma take_one {A} (x : A) r : take (x :: r) 1 = Some ([x], r).
Proof. exact (take_app [x] r). Qed.

Lemma of_be_one n : of_be [n] = n.
Proof. unfold of_be. cbn [fold_left]. lia. Qed.
Lemma of_be_be2 n : n < 65536 -> of_be (be 2 n) = n.
Proof. intro H. apply of_be_be_small. exact H. Qed.
Lemma of_be_be4 n : n < 4294967296 -> of_be (be 4 n) = n.
Proof. intro H. apply of_be_be_small. exact H. Qed.
Lemma of_be_be8 n : n < 18446744073709551616 -> of_be (be 8 n) = n.
Proof. intro H. apply of_be_be_small. exact H. Qed.

Lemma read_arg_args w n r : fits w n = true -> read_arg (ai w n) (args w n ++ r) = Some (w, n, r).
Proof.
  intro Hf. unfold read_arg. destruct w; cbn [fits ai args] in *; apply N.ltb_lt in Hf.
  - destruct (N.ltb_spec n 24); [reflexivity|lia].
  - nums. cbn [app]. rewrite take_one, of_be_one. reflexivity.
  - nums. rewrite take_be2, of_be_be2 by exact Hf. reflexivity.
  - nums. rewrite take_be4, of_be_be4 by exact Hf. reflexivity.
  - nums. rewrite take_be8, of_be_be8 by exact Hf. reflexivity.
Qed.

(* what dispatch does once a definite head of major type mt <> 7 has been read *)
Definition dispatch_body (p : parser) (mt : N) (w : width) (n : N) (r1 : bytes) : option (enc * bytes) :=
  if mt =? 0 then Some (EUInt w n, r1)
  else if mt =? 1 then Some (ENInt w n, r1)
  else if mt =? 2 then match take r1 n with Some (c, r2) => Some (EBytes w c, r2) | None => None end
  else if mt =? 3 then match take r1 n with Some (c, r2) => Some (EText w c, r2) | None => None end
  else if mt =? 4 then match parse_n p n (length r1) r1 [] with Some (es, r2) => Some (EArray w es, r2) | None => None end
  else if mt =? 5 then
    if n <? 9223372036854775808 then
      match parse_n p (2 * n) (length r1) r1 [] with Some (es, r2) => Some (EMap w es, r2) | None => None end
    else None
  else match p r1 with Some (e, r2) => Some (ETag w n e, r2) | None => None end.

Lemma dispatch_head p mt w n r : mt < 7 -> fits w n = true ->
  dispatch p (Cbor.head mt w n ++ r) = dispatch_body p mt w n r.
Proof.
  intros Hm Hf. rewrite head_split. cbn [app]. unfold dispatch, ib. cbv zeta.
  pose proof (ai_lt _ _ Hf) as Ha.
  rewrite div32, mod32 by lia.
  destruct (N.eqb_spec (ai w n) 31); [lia|].
  destruct (N.eqb_spec mt 7); [lia|].
  rewrite read_arg_args by exact Hf. reflexivity.
Qed.

(* ---- sequences ---- *)
Definition good (p : parser) (e : enc) : Prop := forall r, p (ser e ++ r) = Some (e, r).

Lemma parse_n_ok p es : Forall (good p) es -> forall fuel r acc, (length es <= fuel)%nat ->
  parse_n p (len es) fuel (flat_map ser es ++ r) acc = Some (rev acc ++ es, r).
Proof.
  induction 1 as [|e es He _ IH]; intros fuel r acc Hk.
  - rewrite len_nil. destruct fuel; cbn [parse_n flat_map app]; nums; rewrite app_nil_r; reflexivity.
  - cbn [length] in Hk. destruct fuel as [|fuel]; [lia|].
    cbn [parse_n flat_map]. rewrite len_cons.
    destruct (N.eqb_spec (1 + len es) 0); [lia|].
    replace (N.pred (1 + len es)) with (len es) by lia.
    rewrite <- app_assoc, He, IH by lia. cbn [rev]. rewrite <- app_assoc. reflexivity.
Qed.

Lemma parse_brk_ok p es : Forall (good p) es -> Forall (fun e => wf e = true) es ->
  forall fuel r acc, (length es < fuel)%nat ->
  parse_brk p fuel (flat_map ser es ++ 255 :: r) acc = Some (rev acc ++ es, r).
Proof.
  induction 1 as [|e es He _ IH]; intros Hw fuel r acc Hk; (destruct fuel as [|fuel]; [cbn [length] in Hk; lia|]);
  cbn [length] in Hk; cbn [parse_brk flat_map app].
  - cbn [starts tl]. nums. rewrite app_nil_r. reflexivity.
  - inversion Hw as [|? ? We Ws]; subst.
    destruct (ser_first_not_break e We) as (b & t & E & Hb).
    rewrite <- app_assoc.
    assert (S0: starts 255 (ser e ++ flat_map ser es ++ 255 :: r) = false).
    { rewrite E. cbn [app starts]. apply N.eqb_neq. exact Hb. }
    rewrite S0, He, IH by (auto; lia). cbn [rev]. rewrite <- app_assoc. reflexivity.
Qed.

Lemma parse_chunks_ok mt cs : mt < 8 -> Forall (fun c => fits (fst c) (len (snd c)) = true) cs ->
  forall fuel r acc, (length cs < fuel)%nat ->
  parse_chunks mt fuel (flat_map (ser_chunk mt) cs ++ 255 :: r) acc = Some (rev acc ++ cs, r).
Proof.
  intro Hm. induction 1 as [|[w c] cs Hc _ IH]; intros fuel r acc Hk; (destruct fuel as [|fuel]; [cbn [length] in Hk; lia|]);
  cbn [length] in Hk; cbn [parse_chunks flat_map app].
  - nums. rewrite app_nil_r. reflexivity.
  - cbn [fst snd] in Hc. unfold ser_chunk at 1. cbn [fst snd].
    rewrite head_split. rewrite <- !app_assoc. cbn [app].
    pose proof (ai_lt _ _ Hc) as Ha.
    destruct (N.eqb_spec (ib mt w (len c)) 255) as [E|_]; [unfold ib in E; lia|].
    unfold ib. rewrite div32, mod32 by lia. rewrite N.eqb_refl. cbn [negb].
    rewrite read_arg_args by exact Hc. rewrite take_app.
    rewrite IH by lia. cbn [rev]. rewrite <- app_assoc. reflexivity.
Qed.

Lemma wf_chunks_fits cs : forallb wf_chunk cs = true -> Forall (fun c => fits (fst c) (len (snd c)) = true) cs.
Proof.
  intro H. rewrite forallb_forall in H. apply Forall_forall. intros c Hc.
  apply H in Hc. unfold wf_chunk in Hc. apply andb_prop in Hc. tauto.
Qed.

(* ---- the main theorem ---- *)
Definition parse_ser_at (e : enc) : Prop :=
  wf e = true -> len (ser e) < 18446744073709551616 ->
  forall fuel, (size e <= fuel)%nat -> good (parse fuel) e.

Lemma children_good es : Forall parse_ser_at es -> forall fuel,
  forallb wf es = true -> len (flat_map ser es) < 18446744073709551616 ->
  (fold_right (fun e a => size e + a)%nat 0%nat es <= fuel)%nat ->
  Forall (good (parse fuel)) es.
Proof.
  induction 1 as [|e es He _ IH]; intros fuel Hw Hl Hf; constructor;
  cbn [forallb flat_map fold_right] in *; apply andb_prop in Hw; destruct Hw as [W1 W2];
  rewrite len_app in Hl.
  - apply He; [exact W1|lia|lia].
  - apply IH; [exact W2|lia|lia].
Qed.

Lemma children_wf es : forallb wf es = true -> Forall (fun e => wf e = true) es.
Proof. intro H. rewrite forallb_forall in H. apply Forall_forall. exact H. Qed.

Lemma parse_ser_main : forall e, parse_ser_at e.
Proof.
  induction e as [w n|w n|w b|cs|w b|cs|w es IH|es IH|w es IH|es IH|w t e IH|n|b|b|b] using enc_ind';
  unfold parse_ser_at; intros Hw Hl fuel Hf r;
  (destruct fuel as [|fuel]; [cbn [size] in Hf; lia|]); cbn [parse ser wf size] in *.
  - (* EUInt *)
    rewrite dispatch_head by (lia || exact Hw). unfold dispatch_body. nums. reflexivity.
  - (* ENInt *)
    rewrite dispatch_head by (lia || exact Hw). unfold dispatch_body. nums. reflexivity.
  - (* EBytes *)
    apply andb_prop in Hw. destruct Hw as [Hw1 _].
    rewrite <- app_assoc, dispatch_head by (lia || exact Hw1). unfold dispatch_body. nums.
    rewrite take_app. reflexivity.
  - (* EBytesI *)
    cbn [app]. unfold dispatch. cbv zeta.
    change (95 / 32) with 2. change (95 mod 32) with 31. nums.
    rewrite <- app_assoc. cbn [app].
    rewrite parse_chunks_ok; [reflexivity|lia|apply wf_chunks_fits; exact Hw|].
    apply fuel_chunks.
  - (* EText *)
    apply andb_prop in Hw. destruct Hw as [Hw1 _].
    rewrite <- app_assoc, dispatch_head by (lia || exact Hw1). unfold dispatch_body. nums.
    rewrite take_app. reflexivity.
  - (* ETextI *)
    cbn [app]. unfold dispatch. cbv zeta.
    change (127 / 32) with 3. change (127 mod 32) with 31. nums.
    rewrite <- app_assoc. cbn [app].
    rewrite parse_chunks_ok; [reflexivity|lia|apply wf_chunks_fits; exact Hw|].
    apply fuel_chunks.
  - (* EArray *)
    apply andb_prop in Hw. destruct Hw as [Hw1 Hw2].
    rewrite len_app in Hl.
    rewrite <- app_assoc, dispatch_head by (lia || exact Hw1). unfold dispatch_body. nums.
    rewrite parse_n_ok; [reflexivity| |].
    + apply children_good; [exact IH|exact Hw2|lia|lia].
    + apply fuel_n.
  - (* EArrayI *)
    cbn [app]. unfold dispatch. cbv zeta.
    change (159 / 32) with 4. change (159 mod 32) with 31. nums.
    rewrite <- app_assoc. cbn [app].
    rewrite len_cons, len_app in Hl.
    rewrite parse_brk_ok; [reflexivity| | |].
    + apply children_good; [exact IH|exact Hw|lia|lia].
    + apply children_wf. exact Hw.
    + apply fuel_brk.
  - (* EMap *)
    apply andb_prop in Hw. destruct Hw as [Hw1 Hw2].
    apply andb_prop in Hw1. destruct Hw1 as [Hev Hw1].
    rewrite len_app in Hl.
    pose proof (even_half _ Hev) as Hh.
    pose proof (len_flat_ge es) as Hge.
    rewrite <- app_assoc, dispatch_head by (lia || exact Hw1). unfold dispatch_body. nums.
    rewrite Hh.
    destruct (N.ltb_spec (len es / 2) 9223372036854775808) as [_|Hbig].
    2:{ exfalso. set (d := len es / 2) in *. clearbody d. lia. }
    rewrite parse_n_ok; [reflexivity| |].
    + apply children_good; [exact IH|exact Hw2|lia|lia].
    + apply fuel_n.
  - (* EMapI *)
    apply andb_prop in Hw. destruct Hw as [Hev Hw].
    cbn [app]. unfold dispatch. cbv zeta.
    change (191 / 32) with 5. change (191 mod 32) with 31. nums.
    rewrite <- app_assoc. cbn [app].
    rewrite len_cons, len_app in Hl.
    rewrite parse_brk_ok; [cbn [rev app]; rewrite Hev; reflexivity| | |].
    + apply children_good; [exact IH|exact Hw|lia|lia].
    + apply children_wf. exact Hw.
    + apply fuel_brk.
  - (* ETag *)
    apply andb_prop in Hw. destruct Hw as [Hw1 Hw2].
    rewrite len_app in Hl.
    rewrite <- app_assoc, dispatch_head by (lia || exact Hw1). unfold dispatch_body. nums.
    rewrite IH; [reflexivity|exact Hw2|lia|lia].
  - (* ESimple *)
    unfold dispatch. destruct (N.ltb_spec n 24) as [Hn|Hn]; cbn [app]; cbv zeta.
    + replace (224 + n) with (7 * 32 + n) by lia. rewrite div32, mod32 by lia.
      destruct (N.eqb_spec n 31); [lia|]. nums.
      destruct (N.ltb_spec n 24); [reflexivity|lia].
    + change (248 / 32) with 7. change (248 mod 32) with 24. nums.
      cbn [orb] in Hw. apply andb_prop in Hw. destruct Hw as [Hw _]. rewrite Hw. reflexivity.
  - (* EF16 *)
    apply N.ltb_lt in Hw. cbn [app]. unfold dispatch. cbv zeta.
    change (249 / 32) with 7. change (249 mod 32) with 25. nums.
    rewrite take_be2, of_be_be2 by exact Hw. reflexivity.
  - (* EF32 *)
    apply N.ltb_lt in Hw. cbn [app]. unfold dispatch. cbv zeta.
    change (250 / 32) with 7. change (250 mod 32) with 26. nums.
    rewrite take_be4, of_be_be4 by exact Hw. reflexivity.
  - (* EF64 *)
    apply N.ltb_lt in Hw. cbn [app]. unfold dispatch. cbv zeta.
    change (251 / 32) with 7. change (251 mod 32) with 27. nums.
    rewrite take_be8, of_be_be8 by exact Hw. reflexivity.
Qed.

Theorem parse_ser : forall e, wf e = true -> len (ser e) < 18446744073709551616 ->
  forall fuel, (size e <= fuel)%nat -> forall r, parse fuel (ser e ++ r) = Some (e, r).
Proof. intros e Hw Hl fuel Hf r. exact (parse_ser_main e Hw Hl fuel Hf r). Qed.

Corollary parse_ser_auto : forall e r, wf e = true -> len (ser e) < 18446744073709551616 ->
  parse (S (length (ser e ++ r))) (ser e ++ r) = Some (e, r).
Proof.
  intros e r Hw Hl. apply parse_ser; [exact Hw|exact Hl|].
  rewrite app_length. pose proof (size_le_ser e). lia.
Qed.

(* the hypotheses are satisfiable by a tree that uses every kind of node *)
Definition parse_ser_example : enc :=
  EMap W1 [EUInt W0 1;
           EArrayI [EBytesI [(W0, [1; 2]); (W1, [])]; ESimple 32; ESimple 20; ENInt W8 500];
           EText W2 [104; 105];
           ETag W4 55799 (EMapI [ETextI [(W0, [97])]; EArray W0 [EF16 15360; EF32 0; EF64 1]])].

Example parse_ser_example_ok :
  wf parse_ser_example = true /\
  len (ser parse_ser_example) < 18446744073709551616 /\
  parse (size parse_ser_example) (ser parse_ser_example ++ [7]) = Some (parse_ser_example, [7]).
Proof. repeat split; vm_compute; reflexivity. Qed.

Print Assumptions parse_ser.
Print Assumptions parse_ser_auto.
Print Assumptions size_le_ser.
