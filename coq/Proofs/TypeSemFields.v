(* Proofs/TypeSemFields.v — tuples (dec_each), decode_fields! (dec_fields: both loops, missing fields, skipped
   surplus elements), [index, payload] enums and Bound against Spec/TypeSem.v. *)
From MC Require Import Bytes BytesFacts Monad Cbor Utf8 Half Decoder Acc Accessors Types TypeSem
  DecoderFacts CborFacts IntFacts AccFacts AccAgreeFacts TypesEnc TypesDec TypesFacts SkipFacts TypeSemFacts TypeSemLoops.
From Coq Require Import Lia.
Local Open Scope N_scope.

(* the slots decode_fields! holds when the loop ends *)
Fixpoint exp_slots (alloc : bool) (fs : list (enc -> tsem value)) (es : list enc) : tsem (list (option value)) :=
  match es with
  | [] => TsVal (map (fun _ => None) fs)
  | e :: es' => match fs with
                | [] => if skippable alloc e then exp_slots alloc [] es' else TsAny
                | f :: fs' => ts_bind (f e) (fun v => ts_map (cons (Some v)) (exp_slots alloc fs' es'))
                end
  end.

Lemma exp_slots_nil alloc es : exp_slots alloc [] es = TsVal [] \/ exp_slots alloc [] es = TsAny.
Proof. induction es as [|e es IH]; cbn [exp_slots map]; [now left|]. destruct (skippable alloc e); [exact IH|now right]. Qed.

Definition slots_rel (i : N) (x : tsem (list (option value))) (y : tsem (list value)) : Prop :=
  match x, y with
  | TsVal sl, TsVal l => first_missing sl i = None /\ unslot sl = l
  | TsVal sl, TsErr => exists j, first_missing sl i = Some j
  | TsErr, TsErr => True
  | TsAny, TsAny => True
  | _, _ => False
  end.

Lemma slots_rel_fields alloc : forall es fs i, slots_rel i (exp_slots alloc fs es) (ts_fields alloc fs es).
Proof.
  induction es as [|e es IH]; intros fs i.
  - destruct fs as [|f fs]; cbn [exp_slots ts_fields ts_skip_all map slots_rel first_missing unslot]; [split; reflexivity|eauto].
  - destruct fs as [|f fs]; cbn [exp_slots ts_fields ts_skip_all].
    + destruct (skippable alloc e); [|exact I]. apply (IH [] i).
    + destruct (f e) as [v| |]; cbn [ts_bind slots_rel]; try exact I.
      specialize (IH fs (i + 1)).
      destruct (exp_slots alloc fs es) as [sl| |], (ts_fields alloc fs es) as [l| |];
        cbn [ts_map slots_rel first_missing unslot] in *; try assumption; try contradiction.
      destruct IH as [H1 H2]. split; [assumption|now rewrite H2].
Qed.

Lemma spec_type_not_break e : ctype_is_break (spec_type e) = false.
Proof.
  destruct e; cbn [spec_type]; try reflexivity.
  - destruct w; reflexivity.
  - destruct w; cbn [nint_type]; try reflexivity; match goal with |- context [if ?c then _ else _] => destruct c end; reflexivity.
  - repeat match goal with |- context [if ?c then _ else _] => destruct c end; reflexivity.
Qed.

Lemma map_const_len {A B C} (x : C) (a : list A) (b : list B) : length a = length b -> map (fun _ => x) a = map (fun _ => x) b.
Proof. revert b. induction a as [|y a IH]; intros [|z b] H; cbn [length map] in *; try lia; [reflexivity|]. f_equal. apply IH. lia. Qed.

Lemma Forall2_length' {A B} (R : A -> B -> Prop) a b : Forall2 R a b -> length a = length b.
Proof. induction 1; cbn [length]; lia. Qed.

Section Fields.
  Variable c : cfg.
  Variable fuel : nat.
  Notation alloc := (c_alloc c).

  (* ---- tuples ---- *)
  Lemma dec_each_sem : forall ds fs, Forall2 (elem_ok fuel) ds fs -> forall es r p L,
    length es = length ds -> forallb wf es = true -> p + len (flat_map ser es) <= L ->
    len (flat_map ser es) < 18446744073709551616 -> (length (flat_map ser es ++ r) < fuel)%nat ->
    sem_agrees (dec_each ds (mkdst p (flat_map ser es ++ r) L)) (ts_zip fs es) (p + len (flat_map ser es)) r L.
  Proof.
    induction 1 as [|d f ds fs Hd Hds IH]; intros es r p L Hlen Hw HL H64 Hfu.
    - destruct es; [|discriminate Hlen]. cbn [dec_each flat_map app ts_zip sem_agrees]. unfold ret.
      apply ok_pos. rewrite len_nil. lia.
    - destruct es as [|e es]; [discriminate Hlen|]. cbn [length] in Hlen. cbn [forallb] in Hw.
      apply andb_prop in Hw as [Hwe Hws]. cbn [dec_each flat_map ts_zip] in *. rewrite <- app_assoc.
      apply sem_agrees_bind with (q := p + len (ser e)) (r := flat_map ser es ++ r).
      + apply Hd; [assumption|lens'..].
      + intros a _.
        match goal with |- sem_agrees (bind ?m _ _) _ _ _ _ => change (bind m (fun xs => ret (a :: xs))) with (fmap (cons a) m) end.
        apply sem_agrees_fmap. eapply sem_agrees_pos; [|apply IH; [lia|assumption|lens'..]]. lens'.
  Qed.

  Lemma tuple_sem ds fs : Forall2 (elem_ok fuel) ds fs ->
    elem_ok fuel (r <- dec_array ;; if opt_eqb r (len ds) then fmap VList (dec_each ds) else fail Message)
      (fun e => match def_array_elems e with
                | Some es => if len es =? len ds then ts_map VList (ts_zip fs es) else TsErr
                | None => TsErr
                end).
  Proof.
    intros Hds e r p L Hw HL H64 Hfu.
    destruct e; try (cbn [def_array_elems sem_agrees]; apply bind_is_err; apply array_rej; [assumption|reflexivity]).
    - cbn [def_array_elems]. rewrite (bind_ok _ _ _ _ _ (array_head_def w es r p L Hw HL)). cbn [opt_eqb wf ser] in *.
      apply andb_prop in Hw as [_ Hws]. rewrite len_app in *. rewrite <- app_assoc in Hfu.
      destruct (N.eqb_spec (len es) (len ds)) as [El|_]; [|apply is_err_fail].
      apply sem_agrees_fmap. eapply sem_agrees_pos; [|apply dec_each_sem; [assumption|unfold len in El; lia|assumption|try lens'..]]. lia.
    - cbn [def_array_elems]. rewrite (bind_ok _ _ _ _ _ (array_head_indef es r p L)). cbn [opt_eqb sem_agrees]. apply is_err_fail.
  Qed.

  (* ---- decode_fields! ---- *)
  Lemma field_step_skip ds i slots e r p L : len ds <= i -> wf e = true -> skippable alloc e = true ->
    len (ser e) < 18446744073709551616 -> p + len (ser e) <= L ->
    field_step c ds i slots (mkdst p (ser e ++ r) L) = (Ok slots, mkdst (p + len (ser e)) r L).
  Proof.
    intros Hi Hw Hs H64 HL. unfold field_step. destruct (N.ltb_spec i (len ds)); [lia|].
    now rewrite (bind_ok _ _ _ _ _ (skip_item c e r p L Hw Hs H64 HL)).
  Qed.

  Lemma field_step_at dpre d0 dpost vpre f e r p L : length vpre = length dpre -> elem_ok fuel d0 f ->
    wf e = true -> p + len (ser e) <= L -> len (ser e) < 18446744073709551616 -> (length (ser e ++ r) < fuel)%nat ->
    sem_agrees (field_step c (dpre ++ d0 :: dpost) (len dpre) (map Some vpre ++ None :: map (fun _ => None) dpost)
                  (mkdst p (ser e ++ r) L))
               (ts_map (fun v => map Some (vpre ++ [v]) ++ map (fun _ => None) dpost) (f e)) (p + len (ser e)) r L.
  Proof.
    intros Hlen Hd Hw HL H64 Hfu. unfold field_step.
    destruct (N.ltb_spec (len dpre) (len (dpre ++ d0 :: dpost))) as [_|Hge].
    2:{ rewrite len_app, len_cons in Hge. lia. }
    unfold len at 1. rewrite Nat2N.id, nth_error_mid.
    match goal with |- sem_agrees (bind ?m ?k _) _ _ _ _ =>
      change (bind m k) with (fmap (fun x => set_slot (map Some vpre ++ None :: map (fun _ => None) dpost) (len dpre) x) m) end.
    eapply sem_agrees_eq; [|apply sem_agrees_fmap; now apply Hd].
    apply ts_map_ext. intro v.
    replace (len dpre) with (len (map Some vpre)) by (unfold len; rewrite map_length; lia).
    rewrite set_slot_mid, map_app. cbn [map]. now rewrite <- app_assoc.
  Qed.

  Lemma fields_n_surplus ds : forall es i fl slots r p L,
    len ds <= i -> forallb wf es = true -> p + len (flat_map ser es) <= L ->
    len (flat_map ser es) < 18446744073709551616 -> (length es <= fl)%nat ->
    sem_agrees (fields_n c ds i (len es) fl slots (mkdst p (flat_map ser es ++ r) L))
               (ts_map (fun _ => slots) (exp_slots alloc [] es)) (p + len (flat_map ser es)) r L.
  Proof.
    induction es as [|e es IH]; intros i fl slots r p L Hi Hw HL H64 Hfl.
    - change (len (@nil enc)) with 0. rewrite fields_n_0. cbn [exp_slots map ts_map flat_map app sem_agrees].
      unfold ret. apply ok_pos. rewrite len_nil. lia.
    - cbn [forallb] in Hw. apply andb_prop in Hw as [Hwe Hws].
      destruct fl as [|fl]; [cbn [length] in Hfl; lia|].
      rewrite fields_n_S by (rewrite len_cons; lia). cbn [flat_map exp_slots] in *. rewrite <- app_assoc.
      destruct (skippable alloc e) eqn:Hs; [|exact I].
      rewrite (bind_ok _ _ _ _ _ (field_step_skip ds i slots e _ p L Hi Hwe Hs ltac:(lens') ltac:(lens'))).
      replace (N.pred (len (e :: es))) with (len es) by (rewrite len_cons; lia).
      eapply sem_agrees_pos; [|apply IH; [lia|assumption|lens'..]]. lens'.
  Qed.

  Lemma fields_n_sem : forall dpost fpost, Forall2 (elem_ok fuel) dpost fpost -> forall dpre vpre es fl r p L,
    length vpre = length dpre -> forallb wf es = true -> p + len (flat_map ser es) <= L ->
    len (flat_map ser es) < 18446744073709551616 -> (length (flat_map ser es ++ r) < fuel)%nat -> (length es <= fl)%nat ->
    sem_agrees (fields_n c (dpre ++ dpost) (len dpre) (len es) fl (map Some vpre ++ map (fun _ => None) dpost)
                  (mkdst p (flat_map ser es ++ r) L))
               (ts_map (fun sl => map Some vpre ++ sl) (exp_slots alloc fpost es)) (p + len (flat_map ser es)) r L.
  Proof.
    induction 1 as [|d0 f0 dpost fpost Hd0 Hrest IH]; intros dpre vpre es fl r p L Hlen Hw HL H64 Hfu Hfl.
    - pose proof (fields_n_surplus (dpre ++ []) es (len dpre) fl (map Some vpre ++ map (fun _ : M value => @None value) []) r p L
                    ltac:(rewrite app_nil_r; lia) Hw HL H64 Hfl) as G.
      destruct (exp_slots_nil alloc es) as [E|E]; rewrite E in *; cbn [ts_map sem_agrees map] in *; [exact G|exact I].
    - destruct es as [|e es].
      + change (len (@nil enc)) with 0. rewrite fields_n_0. cbn [exp_slots ts_map flat_map app sem_agrees].
        unfold ret. rewrite (map_const_len None (d0 :: dpost) (f0 :: fpost)) by (cbn [length]; f_equal; eapply Forall2_length'; eassumption).
        apply ok_pos. rewrite len_nil. lia.
      + cbn [forallb] in Hw. apply andb_prop in Hw as [Hwe Hws].
        destruct fl as [|fl]; [cbn [length] in Hfl; lia|].
        rewrite fields_n_S by (rewrite len_cons; lia). cbn [flat_map exp_slots map] in *. rewrite <- app_assoc.
        rewrite ts_map_bind.
        pose proof (field_step_at dpre d0 dpost vpre f0 e (flat_map ser es ++ r) p L Hlen Hd0 Hwe ltac:(lens') ltac:(lens') ltac:(lens')) as S.
        destruct (f0 e) as [v| |]; cbn [ts_map ts_bind sem_agrees] in *; [|now apply bind_is_err|exact I].
        rewrite (bind_ok _ _ _ _ _ S).
        replace (N.pred (len (e :: es))) with (len es) by (rewrite len_cons; lia).
        replace (len dpre + 1) with (len (dpre ++ [d0])) by (rewrite len_app; reflexivity).
        replace (dpre ++ d0 :: dpost) with ((dpre ++ [d0]) ++ dpost) by (rewrite <- app_assoc; reflexivity).
        eapply sem_agrees_eq; [|eapply sem_agrees_pos; [|apply (IH (dpre ++ [d0]) (vpre ++ [v]) es fl r (p + len (ser e)) L);
          [rewrite !app_length; cbn [length]; lia|assumption|lens'..]]].
        * rewrite ts_map_map. apply ts_map_ext. intro sl. rewrite map_app. cbn [map]. rewrite <- app_assoc. reflexivity.
        * lens'.
  Qed.

  Lemma datatype_break r p L : datatype (mkdst p (255 :: r) L) = (Ok TBreak, mkdst p (255 :: r) L).
  Proof. reflexivity. Qed.

  Lemma fields_ub_surplus ds : forall es i fl slots r p L,
    len ds <= i -> forallb wf es = true -> p + len (flat_map ser es) + 1 <= L ->
    len (flat_map ser es) < 18446744073709551616 -> (length es < fl)%nat ->
    sem_agrees (fields_until_break c ds i fl slots (mkdst p (flat_map ser es ++ 255 :: r) L))
               (ts_map (fun _ => slots) (exp_slots alloc [] es)) (p + len (flat_map ser es) + 1) r L.
  Proof.
    induction es as [|e es IH]; intros i fl slots r p L Hi Hw HL H64 Hfl;
      (destruct fl as [|fl]; [cbn [length] in Hfl; lia|]); cbn [fields_until_break].
    - cbn [exp_slots map ts_map flat_map app sem_agrees].
      rewrite (bind_ok _ _ _ _ _ (datatype_break r p L)). cbn [ctype_is_break].
      rewrite (bind_ok _ _ _ _ _ (skip_break c r p L)). unfold ret. apply ok_pos. rewrite len_nil. lia.
    - cbn [forallb] in Hw. apply andb_prop in Hw as [Hwe Hws].
      cbn [flat_map exp_slots] in *. rewrite <- app_assoc.
      rewrite (bind_ok _ _ _ _ _ (datatype_spec e _ p L Hwe)). rewrite spec_type_not_break.
      destruct (skippable alloc e) eqn:Hs; [|exact I].
      rewrite (bind_ok _ _ _ _ _ (field_step_skip ds i slots e _ p L Hi Hwe Hs ltac:(lens') ltac:(lens'))).
      eapply sem_agrees_pos; [|apply IH; [lia|assumption|lens'..]]. lens'.
  Qed.

  Lemma fields_ub_sem : forall dpost fpost, Forall2 (elem_ok fuel) dpost fpost -> forall dpre vpre es fl r p L,
    length vpre = length dpre -> forallb wf es = true -> p + len (flat_map ser es) + 1 <= L ->
    len (flat_map ser es) < 18446744073709551616 -> (length (flat_map ser es ++ 255%N :: r) < fuel)%nat -> (length es < fl)%nat ->
    sem_agrees (fields_until_break c (dpre ++ dpost) (len dpre) fl (map Some vpre ++ map (fun _ => None) dpost)
                  (mkdst p (flat_map ser es ++ 255 :: r) L))
               (ts_map (fun sl => map Some vpre ++ sl) (exp_slots alloc fpost es)) (p + len (flat_map ser es) + 1) r L.
  Proof.
    induction 1 as [|d0 f0 dpost fpost Hd0 Hrest IH]; intros dpre vpre es fl r p L Hlen Hw HL H64 Hfu Hfl.
    - pose proof (fields_ub_surplus (dpre ++ []) es (len dpre) fl (map Some vpre ++ map (fun _ : M value => @None value) []) r p L
                    ltac:(rewrite app_nil_r; lia) Hw HL H64 Hfl) as G.
      destruct (exp_slots_nil alloc es) as [E|E]; rewrite E in *; cbn [ts_map sem_agrees map] in *; [exact G|exact I].
    - destruct fl as [|fl]; [lia|]. cbn [fields_until_break]. destruct es as [|e es].
      + cbn [exp_slots ts_map flat_map app sem_agrees].
        rewrite (bind_ok _ _ _ _ _ (datatype_break r p L)). cbn [ctype_is_break].
        rewrite (bind_ok _ _ _ _ _ (skip_break c r p L)).
        unfold ret. rewrite (map_const_len None (d0 :: dpost) (f0 :: fpost)) by (cbn [length]; f_equal; eapply Forall2_length'; eassumption).
        apply ok_pos. rewrite len_nil. lia.
      + cbn [forallb] in Hw. apply andb_prop in Hw as [Hwe Hws].
        cbn [flat_map exp_slots map] in *. rewrite <- app_assoc.
        rewrite (bind_ok _ _ _ _ _ (datatype_spec e _ p L Hwe)). rewrite spec_type_not_break.
        rewrite ts_map_bind.
        pose proof (field_step_at dpre d0 dpost vpre f0 e (flat_map ser es ++ 255 :: r) p L Hlen Hd0 Hwe ltac:(lens') ltac:(lens') ltac:(lens')) as S.
        destruct (f0 e) as [v| |]; cbn [ts_map ts_bind sem_agrees] in *; [|now apply bind_is_err|exact I].
        rewrite (bind_ok _ _ _ _ _ S).
        replace (len dpre + 1) with (len (dpre ++ [d0])) by (rewrite len_app; reflexivity).
        replace (dpre ++ d0 :: dpost) with ((dpre ++ [d0]) ++ dpost) by (rewrite <- app_assoc; reflexivity).
        eapply sem_agrees_eq; [|eapply sem_agrees_pos; [|apply (IH (dpre ++ [d0]) (vpre ++ [v]) es fl r (p + len (ser e)) L);
          [rewrite !app_length; cbn [length]; lia|assumption|lens'..]]].
        * rewrite ts_map_map. apply ts_map_ext. intro sl. rewrite map_app. cbn [map]. rewrite <- app_assoc. reflexivity.
        * lens'.
  Qed.

  (* the check after the loop *)
  Lemma fields_final (x : tsem (list (option value))) (y : tsem (list value)) (m : M (list (option value))) s0 q r L :
    slots_rel 0 x y -> sem_agrees (m s0) x q r L ->
    sem_agrees (bind m (fun slots => match first_missing slots 0 with
                                     | Some i => fail (MissingValue i)
                                     | None => ret (unslot slots)
                                     end) s0) y q r L.
  Proof.
    destruct x as [sl| |], y as [l| |]; cbn [slots_rel sem_agrees]; intros R H; try contradiction; try exact I.
    - rewrite (bind_ok _ _ _ _ _ H). destruct R as [R1 R2]. rewrite R1, R2. reflexivity.
    - rewrite (bind_ok _ _ _ _ _ H). destruct R as [j R]. rewrite R. apply is_err_fail.
    - now apply bind_is_err.
  Qed.

  Lemma dec_fields_sem ds fs : Forall2 (elem_ok fuel) ds fs -> forall e r p L,
    wf e = true -> p + len (ser e) <= L -> len (ser e) < 18446744073709551616 -> (length (ser e ++ r) < fuel)%nat ->
    sem_agrees (dec_fields c ds fuel (mkdst p (ser e ++ r) L)) (ts_fields_of alloc fs e) (p + len (ser e)) r L.
  Proof.
    intros Hds e r p L Hw HL H64 Hfu. unfold ts_fields_of.
    destruct (array_elems e) as [es|] eqn:Ea.
    2:{ cbn [sem_agrees]. apply bind_is_err. now apply array_rej. }
    unfold dec_fields.
    destruct e; try discriminate Ea; injection Ea as ->.
    - rewrite (bind_ok _ _ _ _ _ (array_head_def w es r p L Hw HL)). cbn [wf ser] in *.
      apply andb_prop in Hw as [_ Hws]. rewrite len_app in *. rewrite <- app_assoc in Hfu.
      assert (F1: (length (flat_map ser es ++ r) < fuel)%nat) by (rewrite app_length in Hfu; lia).
      pose proof (fuel_items fuel es r Hws F1) as F2.
      pose proof (fields_n_sem ds fs Hds [] [] es fuel r (p + len (Cbor.head 4 w (len es))) L eq_refl Hws
                    ltac:(lia) ltac:(lia) F1 ltac:(lia)) as G.
      cbn [app map len length] in G. change (N.of_nat 0) with 0 in G. rewrite ts_map_id in G.
      eapply sem_agrees_pos; [|apply (fields_final _ _ _ _ _ _ _ (slots_rel_fields alloc es fs 0) G)].
      lia.
    - rewrite (bind_ok _ _ _ _ _ (array_head_indef es r p L)). cbn [wf ser] in *.
      rewrite len_indef in *. cbn [app] in Hfu. rewrite <- app_assoc in Hfu. cbn [app length] in Hfu.
      assert (F1: (length (flat_map ser es ++ 255%N :: r) < fuel)%nat) by lia.
      assert (F2: (length es < fuel)%nat) by (pose proof (length_flat_ge es); rewrite app_length in F1; lia).
      pose proof (fields_ub_sem ds fs Hds [] [] es fuel r (p + 1) L eq_refl Hw ltac:(lia) ltac:(lia) F1 F2) as G.
      cbn [app map len length] in G. change (N.of_nat 0) with 0 in G. rewrite ts_map_id in G.
      eapply sem_agrees_pos; [|apply (fields_final _ _ _ _ _ _ _ (slots_rel_fields alloc es fs 0) G)].
      lia.
  Qed.
End Fields.
