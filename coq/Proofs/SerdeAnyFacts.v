(* Proofs/SerdeAnyFacts.v — finding F12 on the model: concrete shapes and values whose serialisation does not
   read back, because serde buffers them through deserialize_any and the bridge reports a unit as a sequence
   and a char as an integer.  Each witness is a closed computation (vm_compute).
   Names are ASCII: [97] = "a", [117] = "u", [116] = "t", … *)
From MC Require Import Bytes Monad Cbor Encoder Decoder Types Serde SerdeDoc.
Local Open Scope N_scope.

Definition rt_result (sh : shape) (v : sval) : option (result sval * N * N) :=
  match ser_s cfg_full v with
  | Some cs => let r := run (de_auto cfg_full sh) (flat cs) in Some (fst r, dpos (snd r), len (flat cs))
  | None => None
  end.

(* #[serde(untagged)] enum E { B(u8), A }: E::A is written as 80 and is rejected *)
Definition w_untagged_unit : shape := ShUntagged [(KNewtype, ShU B8); (KUnit, ShUnit)].
Lemma untagged_unit_refuted :
  opt_in_opt w_untagged_unit = false /\ opaque_under_any w_untagged_unit = true /\
  option_map flat (ser_s cfg_full SUnit) = Some [128] /\
  rt_result w_untagged_unit SUnit = Some (Err Message, 1, 1).
Proof. vm_compute. auto. Qed.

(* … and with a sequence variant next to it, it reads back as a different value: the empty sequence *)
Definition w_untagged_unit_seq : shape := ShUntagged [(KNewtype, ShSeq true (ShI B16)); (KUnit, ShUnit)].
Lemma untagged_unit_other_value :
  opaque_under_any w_untagged_unit_seq = true /\
  rt_result w_untagged_unit_seq SUnit = Some (Ok (SSeq (Some 0) []), 1, 1).
Proof. vm_compute. auto. Qed.

(* struct S { a: u8, #[serde(flatten)] i: I }  struct I { u: () } *)
Definition w_flat_unit : shape := ShFlat [([97], (false, ShU B8)); ([105], (true, ShStruct [([117], ShUnit)]))].
Lemma flatten_unit_refuted :
  opt_in_opt w_flat_unit = false /\ opaque_under_any w_flat_unit = true /\
  let v := SMap None [SStr [97]; SU B8 1; SStr [117]; SUnit] in
  option_map flat (ser_s cfg_full v) = Some [191; 97; 97; 1; 97; 117; 128; 255] /\
  rt_result w_flat_unit v = Some (Err Message, 8, 8).
Proof. vm_compute. auto. Qed.

(* #[serde(untagged)] enum E { C(char), S(String) }: E::C('a') is written as 18 61 and is rejected *)
Definition w_untagged_char : shape := ShUntagged [(KNewtype, ShChar); (KNewtype, ShStr false)].
Lemma untagged_char_refuted :
  opt_in_opt w_untagged_char = false /\ opaque_under_any w_untagged_char = true /\
  option_map flat (ser_s cfg_full (SChar 97)) = Some [24; 97] /\
  rt_result w_untagged_char (SChar 97) = Some (Err Message, 2, 2).
Proof. vm_compute. auto. Qed.

(* #[serde(tag = "t")] enum E { V { c: char } } *)
Definition w_internal_char : shape := ShInternal [116] [([86], (KStruct, ShStruct [([99], ShChar)]))].
Lemma internal_char_refuted :
  opaque_under_any w_internal_char = true /\
  let v := SStruct 2 [([116], SStr [86]); ([99], SChar 97)] in
  rt_result w_internal_char v = Some (Err Message, 9, 9).
Proof. vm_compute. auto. Qed.

(* a unit struct is lost through ContentRefDeserializer (untagged) … *)
Definition w_untagged_unit_struct : shape := ShUntagged [(KNewtype, ShUnitStruct); (KNewtype, ShU B8)].
Lemma untagged_unit_struct_refuted :
  opaque_under_any w_untagged_unit_struct = true /\
  rt_result w_untagged_unit_struct SUnitStruct = Some (Err Message, 1, 1).
Proof. vm_compute. auto. Qed.

(* … but not through ContentDeserializer (contents of an internally tagged variant), and an internally tagged
   newtype variant of () is written as the bare tag map and reads back: the class is delimited exactly *)
Definition w_internal_unit_struct : shape :=
  ShInternal [116] [([86], (KStruct, ShStruct [([107], ShUnitStruct)])); ([85], (KNewtype, ShUnit))].
Lemma internal_unit_struct_reads_back :
  opaque_under_any w_internal_unit_struct = false /\
  (let v := SStruct 2 [([116], SStr [86]); ([107], SUnitStruct)] in rt_result w_internal_unit_struct v = Some (Ok v, 8, 8)) /\
  (let v := SMap (Some 1) [SStr [116]; SStr [85]] in rt_result w_internal_unit_struct v = Some (Ok v, 5, 5)).
Proof. vm_compute. auto. Qed.

(* the documented exception: Option directly inside Option *)
Lemma opt_in_opt_refuted :
  opt_in_opt (ShOption (ShOption (ShU B8))) = true /\
  conforms (ShOption (ShOption (ShU B8))) (SSome SNone) = true /\
  rt_result (ShOption (ShOption (ShU B8))) (SSome SNone) = Some (Ok SNone, 1, 1).
Proof. vm_compute. auto. Qed.
