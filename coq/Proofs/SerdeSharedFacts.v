(* Proofs/SerdeSharedFacts.v — C18, encoder side: on the shared data model the bridge makes exactly the Encoder
   calls the native Encode impls make (the same chunks, hence the same bytes). *)
From MC Require Import Bytes BytesFacts Monad Cbor Utf8 Encoder Decoder Types Serde SerdeDoc SerdeFacts.
From Coq Require Import Lia.
Local Open Scope N_scope.

Section TyInd.
  Variable P : ty -> Prop.
  Hypothesis Hleaf : forall t, (match t with
                                | TyOpt _ | TySeq _ | TyArr _ _ | TyMap _ _ | TyTuple _ | TyFields _ | TyEnum _
                                | TyBound _ | TyTagged _ _ => False
                                | _ => True end) -> P t.
  Hypothesis Hopt : forall t, P t -> P (TyOpt t).
  Hypothesis Hseq : forall t, P t -> P (TySeq t).
  Hypothesis Harr : forall n t, P t -> P (TyArr n t).
  Hypothesis Hmap : forall k v, P k -> P v -> P (TyMap k v).
  Hypothesis Htup : forall ts, Forall P ts -> P (TyTuple ts).
  Hypothesis Hfields : forall ts, Forall P ts -> P (TyFields ts).
  Hypothesis Henum : forall ts, Forall P ts -> P (TyEnum ts).
  Hypothesis Hbound : forall t, P t -> P (TyBound t).
  Hypothesis Htagged : forall n t, P t -> P (TyTagged n t).

  Fixpoint ty_sind (t : ty) : P t :=
    let list_ind := fix go (l : list ty) : Forall P l :=
      match l with [] => Forall_nil _ | x :: r => Forall_cons _ (ty_sind x) (go r) end in
    match t with
    | TyOpt t' => Hopt t' (ty_sind t')
    | TySeq t' => Hseq t' (ty_sind t')
    | TyArr n t' => Harr n t' (ty_sind t')
    | TyMap k v => Hmap k v (ty_sind k) (ty_sind v)
    | TyTuple ts => Htup ts (list_ind ts)
    | TyFields ts => Hfields ts (list_ind ts)
    | TyEnum ts => Henum ts (list_ind ts)
    | TyBound t' => Hbound t' (ty_sind t')
    | TyTagged n t' => Htagged n t' (ty_sind t')
    | TyU w => Hleaf (TyU w) I | TyI w => Hleaf (TyI w) I | TyInt => Hleaf TyInt I | TyBool => Hleaf TyBool I
    | TyChar => Hleaf TyChar I | TyF32 => Hleaf TyF32 I | TyF64 => Hleaf TyF64 I
    | TyNZU w => Hleaf (TyNZU w) I | TyNZI w => Hleaf (TyNZI w) I | TyStr => Hleaf TyStr I
    | TyBytes => Hleaf TyBytes I | TyByteArr n => Hleaf (TyByteArr n) I | TyCStr => Hleaf TyCStr I
    | TyUnit => Hleaf TyUnit I | TyTag => Hleaf TyTag I | TyDuration => Hleaf TyDuration I
    | TySystemTime => Hleaf TySystemTime I
    end.
End TyInd.

Definition same_calls (c : cfg) (t : ty) : Prop :=
  forall v cs, shared t = true -> encode_ty t v = Some cs -> ser_s c (embed t v) = Some cs.

Lemma enc_all_same c t : same_calls c t -> shared t = true -> forall l y,
  enc_all (encode_ty t) l = Some y -> all_s (ser_s c) (map (embed t) l) = Some y.
Proof.
  intros IH Hs. induction l as [|x r IHl]; intros y H.
  - exact H.
  - cbn [enc_all] in H. apply ocat_some in H as (a & b & Ha & Hb & ->).
    cbn [map all_s]. rewrite (IH x a Hs Ha), (IHl b Hb). reflexivity.
Qed.

Lemma enc_alt_same c k v : same_calls c k -> same_calls c v -> shared k = true -> shared v = true ->
  forall m l, (length l <= m)%nat -> forall y,
  enc_alt (encode_ty k) (encode_ty v) l = Some y -> all_s (ser_s c) (emb_alt (embed k) (embed v) l) = Some y.
Proof.
  intros IHk IHv Hk Hv. induction m as [|m IHm]; intros l Hl y H.
  - destruct l; [exact H|cbn in Hl; lia].
  - destruct l as [|a [|b r]]; [exact H|discriminate|].
    cbn [enc_alt] in H. apply ocat_some in H as (ya & yr & Ha & H & ->).
    apply ocat_some in H as (yb & yr' & Hb & Hr & ->).
    cbn [emb_alt all_s]. rewrite (IHk a ya Hk Ha), (IHv b yb Hv Hb).
    rewrite (IHm r ltac:(cbn in Hl; lia) yr' Hr). reflexivity.
Qed.

Lemma enc_zip_same c ts : Forall (same_calls c) ts -> forallb shared ts = true -> forall l y,
  enc_zip (map encode_ty ts) l = Some y -> all_s (ser_s c) (emb_zip (map embed ts) l) = Some y.
Proof.
  induction 1 as [|t r Ht Hr IH]; intros Hs l y H.
  - destruct l; [exact H|discriminate].
  - cbn [forallb] in Hs. apply andb_prop in Hs as [Hst Hsr].
    destruct l as [|x l]; [discriminate|].
    cbn [map enc_zip] in H. apply ocat_some in H as (a & b & Ha & Hb & ->).
    cbn [map emb_zip all_s]. rewrite (Ht x a Hst Ha), (IH Hsr l b Hb). reflexivity.
Qed.

Theorem same_chunks c t : same_calls c t.
Proof.
  induction t using ty_sind; intros v cs Hs He.
  - (* leaves *)
    destruct t; try contradiction; try discriminate Hs; cbn [encode_ty] in He; destruct v; try discriminate He;
      cbn [embed ser_s].
    + destruct (n <=? umax w); [exact He|discriminate].
    + destruct (zin w z); [exact He|discriminate].
    + exact He.
    + destruct (is_scalar n); [exact He|discriminate].
    + destruct (bits <? 4294967296); [exact He|discriminate].
    + destruct (bits <? 18446744073709551616); [exact He|discriminate].
    + destruct (bytes_ok b && utf8_valid b); [exact He|discriminate].
    + exact He.
  - (* option *)
    cbn [shared] in Hs. destruct v; cbn [encode_ty] in He; try discriminate He; cbn [embed ser_s].
    + exact He.
    + now apply IHt.
  - (* seq *)
    cbn [shared] in Hs. destruct v; cbn [encode_ty] in He; try discriminate He.
    apply ocat_some_l in He as (y & He & ->). cbn [embed ser_s].
    now rewrite (enc_all_same c t IHt Hs l y He).
  - (* array *)
    cbn [shared] in Hs. apply andb_prop in Hs as [_ Hs]. destruct v; cbn [encode_ty] in He; try discriminate He.
    destruct (len l =? n); [|discriminate]. apply ocat_some_l in He as (y & He & ->). cbn [embed ser_s].
    now rewrite (enc_all_same c t IHt Hs l y He).
  - (* map *)
    cbn [shared] in Hs. apply andb_prop in Hs as [Hk Hv]. destruct v; cbn [encode_ty] in He; try discriminate He.
    destruct (N.even (len l)); [|discriminate]. apply ocat_some_l in He as (y & He & ->). cbn [embed ser_s].
    now rewrite (enc_alt_same c t1 t2 IHt1 IHt2 Hk Hv (length l) l (le_n _) y He).
  - (* tuple *)
    cbn [shared] in Hs. apply andb_prop in Hs as [_ Hs]. destruct v; cbn [encode_ty] in He; try discriminate He.
    apply ocat_some_l in He as (y & He & ->). cbn [embed ser_s].
    now rewrite (enc_zip_same c ts H Hs l y He).
  - discriminate Hs.
  - discriminate Hs.
  - discriminate Hs.
  - discriminate Hs.
Qed.

Theorem same_bytes c t v cs : shared t = true -> encode_ty t v = Some cs ->
  exists cs', ser_s c (embed t v) = Some cs' /\ flat cs' = flat cs.
Proof. intros Hs He. exists cs. split; [now apply same_chunks|reflexivity]. Qed.
