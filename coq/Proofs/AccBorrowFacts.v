(* Proofs/AccBorrowFacts.v — corollaries of the agreement theorem (C04): exact consumption, borrowed
   payloads are contiguous slices of the input inside the item, chunks concatenate to the data-model
   value.  The model returns values, not pointers: "borrowed" is stated as a decomposition of the
   input around the returned bytes; the harness checks the real pointer ranges at run time. *)
From MC Require Import Bytes BytesFacts Monad Cbor Utf8 Half Decoder Acc Accessors DecoderFacts IntFacts
  AccFacts AccAgreeFacts AccPrefixFacts.
From Coq Require Import Lia.
Local Open Scope N_scope.

(* ---- how many bytes a matching accessor consumes ---- *)
Definition consumed (a : acc) (e : enc) : N :=
  if whole_item a then len (ser e)
  else match e with
       | EArray w _ | EMap w _ | ETag w _ _ => head_len w
       | _ => 1                                         (* 9f / bf *)
       end.

Lemma spec_consumed a e v k : acc_in_scope a = true -> spec_acc a e = XOk v k -> k = consumed a e.
Proof.
  intros Ha Hs.
  destruct a; try discriminate Ha; destruct e; cbn [spec_acc] in Hs; unfold int_acc, int_value in Hs;
    try discriminate Hs;
    repeat match type of Hs with (if ?c then _ else _) = _ => destruct c eqn:?; try discriminate Hs end;
    injection Hs as _ <-; try reflexivity; b2p; subst; try reflexivity;
    unfold consumed; cbn [whole_item ser]; rewrite len_cons, len_be; reflexivity.
Qed.

Lemma consumed_le a e : wf e = true -> consumed a e <= len (ser e).
Proof.
  intro Hw. unfold consumed. destruct (whole_item a); [lia|].
  destruct e; cbn [ser]; rewrite ?len_cons, ?len_app, ?len_head; unfold head_len;
    try (destruct w; lia); try lia.
  destruct (n <? 24); rewrite len_cons; lia.
Qed.

Theorem position_exact c a e r p L v k :
  acc_in_scope a = true -> wf e = true -> p + len (ser e) <= L -> spec_acc a e = XOk v k ->
  run_acc c a (mkdst p (ser e ++ r) L) = (Ok v, mkdst (p + k) (dropN (ser e ++ r) k) L)
  /\ k = consumed a e /\ k <= len (ser e).
Proof.
  intros Ha Hw HL Hs. pose proof (accessors_agree c a e r p L Ha Hw HL) as G. rewrite Hs in G.
  split; [exact G|]. split; [now apply spec_consumed with v|].
  rewrite (spec_consumed a e v k Ha Hs). now apply consumed_le.
Qed.

Theorem position_whole c a e r p L v k :
  acc_in_scope a = true -> whole_item a = true -> wf e = true -> p + len (ser e) <= L ->
  spec_acc a e = XOk v k ->
  run_acc c a (mkdst p (ser e ++ r) L) = (Ok v, mkdst (p + len (ser e)) r L).
Proof.
  intros Ha Hwh Hw HL Hs. destruct (position_exact c a e r p L v k Ha Hw HL Hs) as (G & Hk & _).
  unfold consumed in Hk. rewrite Hwh in Hk. subst k. now rewrite dropN_app in G.
Qed.

Theorem position_start c a e r v k :
  acc_in_scope a = true -> wf e = true -> spec_acc a e = XOk v k ->
  run (run_acc c a) (ser e ++ r)
  = (Ok v, mkdst k (dropN (ser e ++ r) k) (len (ser e ++ r))) /\ k = consumed a e.
Proof.
  intros Ha Hw Hs. unfold run, start.
  destruct (position_exact c a e r 0 (len (ser e ++ r)) v k Ha Hw ltac:(rewrite len_app; lia) Hs) as (G & Hk & _).
  split; [|exact Hk]. rewrite G. apply ok_pos. lia.
Qed.

(* an in-scope accessor never returns Ok where the specification says error *)
Lemma ok_not_err {A} (res : result A * dst) v s : res = (Ok v, s) -> ~ is_err res.
Proof. intros -> (e & s' & H). discriminate. Qed.

(* ---- borrowed payloads ---- *)
Theorem borrow_def c a e r p L d s' :
  a = ABytes \/ a = AStr -> wf e = true -> p + len (ser e) <= L ->
  run_acc c a (mkdst p (ser e ++ r) L) = (Ok (VBytes d), s') ->
  exists w pre, (e = EBytes w d \/ e = EText w d)
    /\ ser e ++ r = pre ++ d ++ r /\ len pre = head_len w /\ len pre + len d = len (ser e)
    /\ s' = mkdst (p + len (ser e)) r L.
Proof.
  intros [-> | ->] Hw HL Hrun.
  - pose proof (accessors_agree c ABytes e r p L eq_refl Hw HL) as G.
    destruct e; cbn [spec_acc agrees_at] in G; try (now apply (ok_not_err _ _ _ Hrun) in G).
    rewrite dropN_app, Hrun in G. injection G as -> ->.
    exists w, (Cbor.head 2 w (len b)). cbn [ser]. rewrite <- app_assoc, len_app, (head_len_eq 2 w (len b)). auto.
  - pose proof (accessors_agree c AStr e r p L eq_refl Hw HL) as G.
    destruct e; cbn [spec_acc agrees_at] in G; try (now apply (ok_not_err _ _ _ Hrun) in G).
    destruct (utf8_valid b); cbn [agrees_at] in G; [|now apply (ok_not_err _ _ _ Hrun) in G].
    rewrite dropN_app, Hrun in G. injection G as -> ->.
    exists w, (Cbor.head 3 w (len b)). cbn [ser]. rewrite <- app_assoc, len_app, (head_len_eq 3 w (len b)). auto.
Qed.

(* the chunks ds lie in m one after the other, each preceded by at least one byte (its head) *)
Inductive slices : list bytes -> bytes -> Prop :=
| sl_nil g : slices [] g
| sl_cons g d ds m : 1 <= len g -> slices ds m -> slices (d :: ds) (g ++ d ++ m).

Lemma slices_cons x ds m : slices ds m -> slices ds (x :: m).
Proof.
  intro H. destruct H as [g|g d ds m Hg H]; [constructor|].
  change (x :: g ++ d ++ m) with ((x :: g) ++ d ++ m). constructor; [rewrite len_cons; lia|exact H].
Qed.

Lemma slices_in ds m d : slices ds m -> In d ds ->
  exists pre post, m = pre ++ d ++ post /\ 1 <= len pre.
Proof.
  induction 1 as [g|g d' ds m Hg H IH]; intro Hin; [destruct Hin|].
  destruct Hin as [->|Hin].
  - exists g, m. auto.
  - destruct (IH Hin) as (pre & post & -> & Hp). exists (g ++ d' ++ pre), post.
    rewrite <- !app_assoc. split; [reflexivity|]. rewrite len_app. lia.
Qed.

Lemma slices_def mt w b : slices (nonempty [b]) (Cbor.head mt w (len b) ++ b).
Proof.
  rewrite nonempty_one. destruct (len b =? 0); [constructor|].
  replace (Cbor.head mt w (len b) ++ b) with (Cbor.head mt w (len b) ++ b ++ []) by now rewrite app_nil_r.
  constructor; [|constructor]. rewrite len_head. destruct w; lia.
Qed.

Lemma slices_chunks mt cs : slices (map snd cs) (flat_map (ser_chunk mt) cs ++ [255]).
Proof.
  induction cs as [|c cs IH]; [constructor|]. cbn [map flat_map]. unfold ser_chunk at 1.
  rewrite <- !app_assoc. constructor; [|exact IH]. rewrite len_head. destruct (fst c); lia.
Qed.

Theorem borrow_iter c a e r p L ds s' :
  a = ABytesIter \/ a = AStrIter -> wf e = true -> p + len (ser e) <= L ->
  run_acc c a (mkdst p (ser e ++ r) L) = (Ok (VChunks ds), s') ->
  slices ds (ser e) /\ s' = mkdst (p + len (ser e)) r L.
Proof.
  intros [-> | ->] Hw HL Hrun.
  - pose proof (accessors_agree c ABytesIter e r p L eq_refl Hw HL) as G.
    destruct e; cbn [spec_acc agrees_at] in G; try (now apply (ok_not_err _ _ _ Hrun) in G);
      rewrite dropN_app, Hrun in G; injection G as -> ->; (split; [|reflexivity]); cbn [ser].
    + apply slices_def.
    + apply slices_cons, slices_chunks.
  - pose proof (accessors_agree c AStrIter e r p L eq_refl Hw HL) as G.
    destruct e; cbn [spec_acc agrees_at] in G; try (now apply (ok_not_err _ _ _ Hrun) in G);
      match type of G with context [if ?c then _ else _] => destruct c end; cbn [agrees_at] in G;
      try (now apply (ok_not_err _ _ _ Hrun) in G);
      rewrite dropN_app, Hrun in G; injection G as -> ->; (split; [|reflexivity]); cbn [ser].
    + apply slices_def.
    + apply slices_cons, slices_chunks.
Qed.

(* every returned chunk is a contiguous slice of the input, after at least one byte of the item
   (the head) and ending inside the item *)
Corollary borrow_iter_each c a e r p L ds s' d :
  a = ABytesIter \/ a = AStrIter -> wf e = true -> p + len (ser e) <= L ->
  run_acc c a (mkdst p (ser e ++ r) L) = (Ok (VChunks ds), s') -> In d ds ->
  exists pre post, ser e ++ r = pre ++ d ++ post /\ 1 <= len pre /\ len (pre ++ d) <= len (ser e).
Proof.
  intros Ha Hw HL Hrun Hin. destruct (borrow_iter c a e r p L ds s' Ha Hw HL Hrun) as [Hs _].
  destruct (slices_in ds (ser e) d Hs Hin) as (pre & post & E & Hp).
  exists pre, (post ++ r). rewrite E, <- !app_assoc. split; [reflexivity|]. split; [exact Hp|].
  rewrite !len_app. lia.
Qed.

(* ---- chunks concatenate to the value the data model assigns ---- *)
Lemma concat_nonempty b : concat (nonempty [b]) = b.
Proof.
  rewrite nonempty_one. destruct (N.eqb_spec (len b) 0) as [E|_]; cbn [concat].
  - symmetry. now apply len0_nil.
  - apply app_nil_r.
Qed.

Lemma xok_inj v1 k1 v2 k2 : XOk v1 k1 = XOk v2 k2 -> v1 = v2.
Proof. now intros [= -> _]. Qed.
Lemma vchunks_inj l1 l2 : VChunks l1 = VChunks l2 -> l1 = l2.
Proof. now intros [= ->]. Qed.

Theorem chunks_concat a e l k :
  spec_acc a e = XOk (VChunks l) k ->
  (a = ABytesIter -> val_of e = IBytes (concat l)) /\ (a = AStrIter -> val_of e = IText (concat l)).
Proof.
  intro Hs. split; intros ->; destruct e; cbn [spec_acc] in Hs; try discriminate Hs;
    repeat match type of Hs with (if ?c then _ else _) = _ => destruct c; try discriminate Hs end;
    apply xok_inj, vchunks_inj in Hs; subst l; cbn [val_of];
    rewrite ?concat_nonempty, ?flat_map_concat_map; reflexivity.
Qed.

(* ---- the requested shapes ---- *)
Corollary borrow_def_slice c a e r p L d s' :
  a = ABytes \/ a = AStr -> wf e = true -> p + len (ser e) <= L ->
  run_acc c a (mkdst p (ser e ++ r) L) = (Ok (VBytes d), s') ->
  exists w pre post, (e = EBytes w d \/ e = EText w d)
    /\ ser e ++ r = pre ++ d ++ post /\ head_len w <= len pre /\ len (pre ++ d) <= len (ser e).
Proof.
  intros Ha Hw HL Hrun. destruct (borrow_def c a e r p L d s' Ha Hw HL Hrun) as (w & pre & He & E & Hp & Hl & _).
  exists w, pre, r. rewrite len_app. repeat split; try assumption; lia.
Qed.

Theorem accessors_agree_whole c a e r p L :
  acc_in_scope a = true -> whole_item a = true -> wf e = true -> p + len (ser e) <= L ->
  agrees (run_acc c a (mkdst p (ser e ++ r) L)) (spec_acc a e) p r L.
Proof.
  intros Ha Hwh Hw HL. apply agrees_of_at with (ser e); [now apply accessors_agree|].
  intros v k Hs. rewrite (spec_consumed a e v k Ha Hs). unfold consumed. now rewrite Hwh.
Qed.

(* ---- text is accepted iff every chunk is valid UTF-8 ---- *)
Definition text_chunks (e : enc) : list bytes :=
  match e with EText _ b => [b] | ETextI cs => map snd cs | _ => [] end.
Definition is_text (e : enc) : bool := match e with EText _ _ | ETextI _ => true | _ => false end.

Lemma forallb_map {A B} (f : B -> bool) (g : A -> B) l : forallb f (map g l) = forallb (fun x => f (g x)) l.
Proof. induction l as [|x l IH]; [reflexivity|]. cbn [map forallb]. now rewrite IH. Qed.

Theorem utf8_iff c e r p L : wf e = true -> is_text e = true -> p + len (ser e) <= L ->
  (exists v s, run_acc c AStrIter (mkdst p (ser e ++ r) L) = (Ok v, s))
  <-> forallb utf8_valid (text_chunks e) = true.
Proof.
  intros Hw Ht HL. pose proof (accessors_agree c AStrIter e r p L eq_refl Hw HL) as G.
  destruct e; try discriminate Ht; cbn [spec_acc text_chunks] in *; rewrite ?forallb_map;
    cbn [forallb]; rewrite ?andb_true_r;
    match type of G with context [if ?c then _ else _] => destruct c end; cbn [agrees_at] in G.
  - split; [reflexivity|]. intros _. eexists _, _. exact G.
  - split; [|discriminate]. intros (v & s & E). now apply (ok_not_err _ _ _ E) in G.
  - split; [reflexivity|]. intros _. eexists _, _. exact G.
  - split; [|discriminate]. intros (v & s & E). now apply (ok_not_err _ _ _ E) in G.
Qed.

Theorem utf8_str c w b r p L : wf (EText w b) = true -> p + len (ser (EText w b)) <= L ->
  (exists v s, run_acc c AStr (mkdst p (ser (EText w b) ++ r) L) = (Ok v, s)) <-> utf8_valid b = true.
Proof.
  intros Hw HL. pose proof (accessors_agree c AStr (EText w b) r p L eq_refl Hw HL) as G.
  cbn [spec_acc] in G. destruct (utf8_valid b); cbn [agrees_at] in G.
  - split; [reflexivity|]. intros _. eexists _, _. exact G.
  - split; [|discriminate]. intros (v & s & E). now apply (ok_not_err _ _ _ E) in G.
Qed.

(* ---- instances for the examples of Props/C04.v ---- *)
Definition ex_text : enc := ETextI [(W0, [104; 105]); (W1, [206; 187]); (W0, [])].      (* "hi" "\xce\xbb" "" *)
Definition ex_nested : enc :=
  EArray W1 [EUInt W0 1; EArrayI [ex_text; ETag W0 2 (EBytes W2 [1; 2])]; EMapI [ESimple 22; EF32 1065353216]].
