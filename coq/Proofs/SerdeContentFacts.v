(* Proofs/SerdeContentFacts.v — deserialize_any driven by serde's ContentVisitor (de_content) reads the
   serialisation of any call tree v (arguments in range, true lengths) as the Content tree cont_of v and stops
   right after the item: what the buffers of internally tagged / untagged / flattened types hold. *)
From MC Require Import Bytes BytesFacts Monad Cbor Utf8 Half Encoder Methods EncoderFacts Decoder DecoderFacts IntFacts
  Types Serde SerdeDoc SerdeCont SerdeFacts SerdeRtFacts SerdeAnyHeadFacts.
From Coq Require Import Lia.
Local Open Scope N_scope.

Fixpoint cfields (fs : list (bytes * sval)) : list content :=
  match fs with [] => [] | (k, x) :: r => CStr false k :: cont_of x :: cfields r end.

Lemma cfields_fix fs :
  (fix go (fs : list (bytes * sval)) : list content :=
     match fs with [] => [] | (k, x) :: r => CStr false k :: cont_of x :: go r end) fs = cfields fs.
Proof. induction fs as [|[k x] r IH]; [reflexivity|]. cbn [cfields]. now rewrite <- IH. Qed.

Lemma cont_struct n fs : cont_of (SStruct n fs) = CMap (cfields fs).
Proof. cbn [cont_of]. now rewrite cfields_fix. Qed.
Lemma cont_struct_variant i nm n fs : cont_of (SStructVariant i nm n fs) = CMap [CStr false nm; CMap (cfields fs)].
Proof. cbn [cont_of]. now rewrite cfields_fix. Qed.

Definition dc_ok (c : cfg) (v : sval) : Prop :=
  forall fuel cs, sval_ok v = true -> ser_s c v = Some cs -> (length (flat cs) < fuel)%nat ->
  reads (de_content c fuel) (flat cs) (cont_of v).

Lemma dc_scalar c fuel bs x : (0 < fuel)%nat -> (forall f, reads (any_head c f) bs (EvScalar x)) ->
  reads (de_content c fuel) bs x.
Proof.
  intros Hf H. destruct fuel as [|f]; [lia|]. cbn [de_content].
  rewrite <- (app_nil_r bs). apply reads_bind with (EvScalar x); [apply H|apply reads_ret].
Qed.

Lemma dc_elems c f l : Forall (dc_ok c) l -> forall css, forallb sval_ok l = true ->
  Forall2 (fun x y => ser_s c x = Some y) l css -> (length (flat (concat css)) < f)%nat ->
  Forall2 (fun x bs => reads (de_content c f) bs x /\ no_break bs) (map cont_of l) (map flat css).
Proof.
  induction 1 as [|x l Hx _ IH]; intros css Hok H2 Hf; inversion H2 as [|? y ? css' Hy Hl]; subst; [constructor|].
  cbn [forallb] in Hok. apply andb_prop in Hok as [Hokx Hokl].
  cbn [concat] in Hf. rewrite flat_app, app_length in Hf. cbn [map]. constructor.
  - split; [apply Hx; [exact Hokx|exact Hy|lia]|now apply (no_break_ser c x y)].
  - apply IH; [exact Hokl|exact Hl|lia].
Qed.

(* an array header followed by the elements, at any fuel above the length *)
Lemma dc_array c fuel ln hd l css : Forall (dc_ok c) l -> forallb sval_ok l = true ->
  Forall2 (fun x y => ser_s c x = Some y) l css ->
  (forall f, reads (any_head c f) hd (EvSeq ln)) -> ln_rem ln (length l) ->
  (length (hd ++ flat (concat css) ++ trailer ln) < fuel)%nat -> (1 <= length hd)%nat ->
  reads (de_content c fuel) (hd ++ flat (concat css) ++ trailer ln) (CSeq (map cont_of l)).
Proof.
  intros IH Hok H2 Hhd Hln Hf Hh. destruct fuel as [|f]; [lia|]. cbn [de_content].
  rewrite !app_length in Hf.
  apply reads_bind with (EvSeq ln); [apply Hhd|]. cbv iota.
  apply (reads_fmap CSeq _ _ (map cont_of l)).
  pose proof (dc_elems c f l IH css Hok H2 ltac:(lia)) as He.
  pose proof (seq_collect_rt _ _ _ He ln f [] ltac:(now rewrite map_length)) as G.
  cbn [rev app] in G. rewrite flat_concat. apply G.
  pose proof (count_le_bytes _ _ _ He) as Hc. rewrite map_length in *. rewrite flat_concat in Hf. lia.
Qed.

Lemma kv_of_elems c f l css :
  Forall2 (fun x bs => reads (de_content c f) bs x /\ no_break bs) l css -> Nat.even (length l) = true ->
  ReadsKV (de_content c f) (de_content c f) l css.
Proof.
  intro H. assert (G: forall m l css, (length l <= m)%nat ->
    Forall2 (fun x bs => reads (de_content c f) bs x /\ no_break bs) l css -> Nat.even (length l) = true ->
    ReadsKV (de_content c f) (de_content c f) l css).
  { induction m as [|m IHm]; intros l0 css0 Hm H0 He.
    - destruct l0; [|cbn in Hm; lia]. inversion H0; subst. constructor.
    - inversion H0 as [|a ba l1 css1 [Ha Hna] H1]; subst; [constructor|].
      inversion H1 as [|b bb l2 css2 [Hb Hnb] H2']; subst; [discriminate He|].
      constructor; try assumption. apply IHm; [cbn in Hm; lia|exact H2'|exact He]. }
  now apply (G (length l)).
Qed.

Lemma even_nat_N {A} (l : list A) : N.even (len l) = true -> Nat.even (length l) = true.
Proof.
  unfold len. intro H. rewrite <- (Nat2N.id (length l)). set (n := N.of_nat (length l)) in *. clearbody n.
  destruct (N.even n) eqn:E; [|discriminate]. apply N.even_spec in E as [k ->].
  rewrite N2Nat.inj_mul. change (N.to_nat 2) with 2%nat. apply Nat.even_spec. now exists (N.to_nat k).
Qed.

Lemma div2_nat_N {A} (l : list A) : N.of_nat (length l / 2) = len l / 2.
Proof.
  unfold len. set (n := length l). clearbody n.
  rewrite <- (Nat2N.id (n / 2)). f_equal. rewrite <- (Nat2N.id n) at 1.
  change 2%nat with (N.to_nat 2). rewrite <- N2Nat.inj_div. now rewrite !Nat2N.id, N2Nat.id.
Qed.

(* a map header followed by alternating keys and values *)
Lemma dc_map_gen c fuel ln hd xs bss :
  (forall f, (length (concat bss) < f)%nat -> ReadsKV (de_content c f) (de_content c f) xs bss) ->
  (forall f, reads (any_head c f) hd (EvMap ln)) -> ln_rem ln (length xs / 2) ->
  (length (hd ++ concat bss ++ trailer ln) < fuel)%nat -> (1 <= length hd)%nat ->
  reads (de_content c fuel) (hd ++ concat bss ++ trailer ln) (CMap xs).
Proof.
  intros Hkv Hhd Hln Hf Hh. destruct fuel as [|f]; [lia|]. cbn [de_content].
  rewrite !app_length in Hf.
  apply reads_bind with (EvMap ln); [apply Hhd|]. cbv iota.
  apply (reads_fmap CMap _ _ xs).
  pose proof (Hkv f ltac:(lia)) as He.
  pose proof (map_collect_rt _ _ _ _ He ln f [] Hln) as G.
  cbn [rev app] in G. apply G.
  pose proof (kv_count_le _ _ _ _ He) as Hc. lia.
Qed.

Lemma dc_map c fuel ln hd l css : Forall (dc_ok c) l -> forallb sval_ok l = true -> N.even (len l) = true ->
  Forall2 (fun x y => ser_s c x = Some y) l css ->
  (forall f, reads (any_head c f) hd (EvMap ln)) -> ln_rem ln (length l / 2) ->
  (length (hd ++ flat (concat css) ++ trailer ln) < fuel)%nat -> (1 <= length hd)%nat ->
  reads (de_content c fuel) (hd ++ flat (concat css) ++ trailer ln) (CMap (map cont_of l)).
Proof.
  intros IH Hok Hev H2 Hhd Hln Hf Hh. rewrite flat_concat in *.
  apply dc_map_gen; try assumption; [|now rewrite map_length].
  intros f Hlf. apply kv_of_elems; [|rewrite map_length; now apply even_nat_N].
  apply dc_elems; try assumption. now rewrite flat_concat.
Qed.

(* the entries of a struct: name, value, … *)
Fixpoint fbytes (c : cfg) (fs : list (bytes * sval)) : list bytes :=
  match fs with
  | [] => []
  | (k, x) :: r => flat (enc_str k) :: (match ser_s c x with Some y => flat y | None => [] end) :: fbytes c r
  end.

Lemma fields_bytes c fs y : fields_s (ser_s c) fs = Some y -> flat y = concat (fbytes c fs).
Proof.
  revert y. induction fs as [|[k x] r IH]; intros y H.
  - injection H as <-. reflexivity.
  - cbn [fields_s] in H. apply ocat_some_l in H as (y1 & H & ->). apply ocat_some in H as (yx & yr & Hx & Hr & ->).
    cbn [fbytes concat]. rewrite Hx, !flat_app, (IH yr Hr). reflexivity.
Qed.

Lemma dc_fields c f fs : Forall (fun p => dc_ok c (snd p)) fs ->
  forallb (fun p => name_ok (fst p) && sval_ok (snd p)) fs = true ->
  forall y, fields_s (ser_s c) fs = Some y -> (length (flat y) < f)%nat ->
  ReadsKV (de_content c f) (de_content c f) (cfields fs) (fbytes c fs).
Proof.
  induction 1 as [|[k x] r Hx _ IH]; intros Hok y Hy Hf; [constructor|].
  cbn [forallb fst snd] in Hok. apply andb_prop in Hok as [Hok Hokr]. apply andb_prop in Hok as [Hk Hokx].
  cbn [fields_s] in Hy. apply ocat_some_l in Hy as (y1 & Hy & ->). apply ocat_some in Hy as (yx & yr & Hsx & Hr & ->).
  rewrite !flat_app, !app_length in Hf. cbn [cfields fbytes]. rewrite Hsx. cbn [snd] in Hx.
  constructor.
  - apply dc_scalar; [lia|]. intro f0. now apply any_str.
  - apply no_break_str. now apply name_ok_len.
  - apply Hx; [exact Hokx|exact Hsx|lia].
  - now apply (no_break_ser c x yx).
  - apply (IH Hokr yr Hr). lia.
Qed.

Lemma length_cfields fs : length (cfields fs) = (2 * length fs)%nat.
Proof. induction fs as [|[k x] r IH]; [reflexivity|]. cbn [cfields length]. rewrite IH. lia. Qed.

Lemma dc_struct_body c fuel n fs y : Forall (fun p => dc_ok c (snd p)) fs ->
  (n =? len fs) && (n <? two64) && forallb (fun p => name_ok (fst p) && sval_ok (snd p)) fs = true ->
  fields_s (ser_s c) fs = Some y -> (length (flat (enc_map n ++ y)) < fuel)%nat ->
  reads (de_content c fuel) (flat (enc_map n ++ y)) (CMap (cfields fs)).
Proof.
  intros IH Hok Hy Hf. apply andb_prop in Hok as [Hok Hokf]. apply andb_prop in Hok as [Hn Hn2].
  apply N.eqb_eq in Hn. apply N.ltb_lt in Hn2. subst n.
  rewrite flat_app in *. rewrite (fields_bytes c fs y Hy) in *.
  pose proof (dc_map_gen c fuel (Some (len fs)) (flat (enc_map (len fs))) (cfields fs) (fbytes c fs)) as G.
  cbn [trailer] in G. rewrite app_nil_r in G. apply G.
  - intros f Hlf. apply (dc_fields c f fs IH Hokf y Hy). now rewrite (fields_bytes c fs y Hy).
  - intro f. now apply any_map.
  - cbn [ln_rem]. rewrite length_cfields. unfold len. f_equal.
    rewrite Nat.mul_comm, Nat.div_mul by lia. reflexivity.
  - exact Hf.
  - rewrite (enc_map_flat _ Hn2), phead_split. cbn. lia.
Qed.

Lemma len_enc_array_pos n : n < two64 -> (1 <= length (flat (enc_array n)))%nat.
Proof. intro H. rewrite (enc_array_flat _ H), phead_split. cbn. lia. Qed.
Lemma len_enc_map_pos n : n < two64 -> (1 <= length (flat (enc_map n)))%nat.
Proof. intro H. rewrite (enc_map_flat _ H), phead_split. cbn. lia. Qed.

Lemma dc_array_def c fuel n l y : Forall (dc_ok c) l ->
  (n =? len l) && (n <? two64) && forallb sval_ok l = true ->
  all_s (ser_s c) l = Some y -> (length (flat (enc_array n ++ y)) < fuel)%nat ->
  reads (de_content c fuel) (flat (enc_array n ++ y)) (CSeq (map cont_of l)).
Proof.
  intros IH Hok Hy Hf. apply andb_prop in Hok as [Hok Hokl]. apply andb_prop in Hok as [Hn Hn2].
  apply N.eqb_eq in Hn. apply N.ltb_lt in Hn2. subst n.
  destruct (all_s_split c l y Hy) as (css & H2 & ->). rewrite flat_app in *.
  pose proof (dc_array c fuel (Some (len l)) (flat (enc_array (len l))) l css IH Hokl H2) as G.
  cbn [trailer] in G. rewrite app_nil_r in G. apply G.
  - intro f. now apply any_array.
  - reflexivity.
  - exact Hf.
  - now apply len_enc_array_pos.
Qed.

(* a one-entry map {name: payload} (newtype / tuple / struct variants) *)
Lemma dc_variant c fuel name bs x : name_ok name = true ->
  (forall f, (length bs < f)%nat -> reads (de_content c f) bs x) -> no_break bs ->
  (length (flat (enc_map 1 ++ enc_str name) ++ bs) < fuel)%nat ->
  reads (de_content c fuel) (flat (enc_map 1 ++ enc_str name) ++ bs) (CMap [CStr false name; x]).
Proof.
  intros Hn Hx Hnb Hf. rewrite flat_app, <- app_assoc in *.
  pose proof (dc_map_gen c fuel (Some 1) (flat (enc_map 1)) [CStr false name; x] [flat (enc_str name); bs]) as G.
  cbn [trailer concat] in G. rewrite !app_nil_r in G. apply G.
  - intros f Hlf. rewrite app_length in Hlf. constructor.
    + apply dc_scalar; [lia|]. intro f0. now apply any_str.
    + apply no_break_str. now apply name_ok_len.
    + apply Hx. lia.
    + exact Hnb.
    + constructor.
  - intro f. now apply any_map.
  - reflexivity.
  - exact Hf.
  - now apply len_enc_map_pos.
Qed.

Lemma no_break_array n y : n < two64 -> no_break (flat (enc_array n ++ y)).
Proof.
  intro H. rewrite flat_app, (enc_array_flat _ H), phead_split. cbn [app]. eexists _, _. split; [reflexivity|].
  pose proof (ai_lt _ _ (fits_mw _ H)). unfold ib. lia.
Qed.
Lemma no_break_map n y : n < two64 -> no_break (flat (enc_map n ++ y)).
Proof.
  intro H. rewrite flat_app, (enc_map_flat _ H), phead_split. cbn [app]. eexists _, _. split; [reflexivity|].
  pose proof (ai_lt _ _ (fits_mw _ H)). unfold ib. lia.
Qed.

Theorem de_content_rt c v : dc_ok c v.
Proof.
  induction v using sval_ind'; intros fuel cs Hok Hs Hf; cbn [sval_ok] in Hok; cbn [ser_s] in Hs.
  - injection Hs as <-. apply dc_scalar; [lia|]. intro f. apply any_bool.
  - injection Hs as <-. apply dc_scalar; [lia|]. intro f. now apply any_int.
  - injection Hs as <-. apply dc_scalar; [lia|]. intro f. apply N.leb_le in Hok.
    rewrite (enc_uw_head w n Hok). apply any_uint. pose proof (umax_lt w). lia.
  - injection Hs as <-. apply dc_scalar; [lia|]. intro f. apply any_f32. now apply N.ltb_lt.
  - injection Hs as <-. apply dc_scalar; [lia|]. intro f. apply any_f64. now apply N.ltb_lt.
  - injection Hs as <-. apply dc_scalar; [lia|]. intro f. pose proof (is_scalar_lt c0 Hok) as Hc.
    unfold enc_char. rewrite (enc_u32_head c0 Hc). apply any_uint. rewrite two64_eq. lia.
  - injection Hs as <-. apply dc_scalar; [lia|]. intro f. now apply any_str.
  - destruct (c_alloc c); [|discriminate]. injection Hs as <-. apply dc_scalar; [lia|]. intro f. now apply any_str.
  - injection Hs as <-. apply andb_prop in Hok as [Hb Hl]. apply N.ltb_lt in Hl.
    apply dc_scalar; [lia|]. intro f. now apply any_bytes.
  - injection Hs as <-. apply dc_scalar; [lia|]. intro f. apply any_null.
  - now apply IHv.
  - injection Hs as <-. rewrite <- (app_nil_r (enc_array 0)).
    apply (dc_array_def c fuel 0 [] []); [constructor|reflexivity|reflexivity|now rewrite app_nil_r].
  - injection Hs as <-. rewrite <- (app_nil_r (enc_array 0)).
    apply (dc_array_def c fuel 0 [] []); [constructor|reflexivity|reflexivity|now rewrite app_nil_r].
  - injection Hs as <-. apply andb_prop in Hok as [Hn _]. apply dc_scalar; [lia|]. intro f. now apply any_str.
  - now apply IHv.
  - (* newtype variant *)
    apply andb_prop in Hok as [Hok Hokv]. apply andb_prop in Hok as [Hn _].
    apply ocat_some_l in Hs as (y & Hy & ->). rewrite flat_app in *. cbn [cont_of].
    apply dc_variant; [exact Hn| |now apply (no_break_ser c v y)|exact Hf].
    intros f Hlf. now apply IHv.
  - (* seq *)
    destruct n as [n|].
    + apply ocat_some_l in Hs as (y & Hy & ->). cbn [cont_of]. now apply dc_array_def.
    + apply ocat_some_l in Hs as (y0 & Hy & ->). apply ocat_some in Hy as (y & z & Hy & [= <-] & ->).
      destruct (all_s_split c l y Hy) as (css & H2 & ->). cbn [cont_of]. rewrite !flat_app in *.
      apply (dc_array c fuel None (flat enc_begin_array) l css H Hok H2); [intro f; apply any_begin_array|exact I|exact Hf|cbn; lia].
  - apply ocat_some_l in Hs as (y & Hy & ->). cbn [cont_of]. now apply dc_array_def.
  - apply ocat_some_l in Hs as (y & Hy & ->). cbn [cont_of]. now apply dc_array_def.
  - (* tuple variant *)
    apply andb_prop in Hok as [Hok Hokl]. apply andb_prop in Hok as [Hok Hn2]. apply andb_prop in Hok as [Hok Hn1].
    apply andb_prop in Hok as [Hnm _].
    apply ocat_some_l in Hs as (y & Hy & ->). cbn [cont_of].
    replace (flat ((enc_map 1 ++ enc_str nm ++ enc_array n) ++ y)) with (flat (enc_map 1 ++ enc_str nm) ++ flat (enc_array n ++ y)) in *
      by (rewrite !flat_app, <- !app_assoc; reflexivity).
    apply dc_variant; [exact Hnm| |apply no_break_array; now apply N.ltb_lt|exact Hf].
    intros f Hlf. apply dc_array_def; [exact H|now rewrite Hn1, Hn2, Hokl|exact Hy|exact Hlf].
  - (* map *)
    destruct n as [n|].
    + apply andb_prop in Hok as [Hok Hokl]. apply andb_prop in Hok as [Hok Hn2]. apply andb_prop in Hok as [Hev Hn].
      apply N.eqb_eq in Hn. apply N.ltb_lt in Hn2. subst n.
      apply ocat_some_l in Hs as (y & Hy & ->). destruct (all_s_split c l y Hy) as (css & H2 & ->).
      cbn [cont_of]. rewrite flat_app in *.
      pose proof (dc_map c fuel (Some (len l / 2)) (flat (enc_map (len l / 2))) l css H Hokl Hev H2) as G.
      cbn [trailer] in G. rewrite app_nil_r in G. apply G.
      * intro f. now apply any_map.
      * cbn [ln_rem]. symmetry. apply div2_nat_N.
      * exact Hf.
      * now apply len_enc_map_pos.
    + apply andb_prop in Hok as [Hev Hokl].
      apply ocat_some_l in Hs as (y0 & Hy & ->). apply ocat_some in Hy as (y & z & Hy & [= <-] & ->).
      destruct (all_s_split c l y Hy) as (css & H2 & ->). cbn [cont_of]. rewrite !flat_app in *.
      apply (dc_map c fuel None (flat enc_begin_map) l css H Hokl Hev H2); [intro f; apply any_begin_map|exact I|exact Hf|cbn; lia].
  - (* struct *)
    apply ocat_some_l in Hs as (y & Hy & ->). rewrite cont_struct. now apply dc_struct_body.
  - (* struct variant *)
    apply andb_prop in Hok as [Hok Hokl]. apply andb_prop in Hok as [Hok Hn2]. apply andb_prop in Hok as [Hok Hn1].
    apply andb_prop in Hok as [Hnm _].
    apply ocat_some_l in Hs as (y & Hy & ->). rewrite cont_struct_variant.
    replace (flat ((enc_map 1 ++ enc_str nm ++ enc_map n) ++ y)) with (flat (enc_map 1 ++ enc_str nm) ++ flat (enc_map n ++ y)) in *
      by (rewrite !flat_app, <- !app_assoc; reflexivity).
    apply dc_variant; [exact Hnm| |apply no_break_map; now apply N.ltb_lt|exact Hf].
    intros f Hlf. apply dc_struct_body; [exact H|now rewrite Hn1, Hn2, Hokl|exact Hy|exact Hlf].
Qed.
