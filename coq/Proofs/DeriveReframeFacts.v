(* Proofs/DeriveReframeFacts.v — the derived decoder reads every re-framing (Model/DeriveReframe.v) of a derived
   encoding back: indefinite body containers at every derive level, heads of any fitting width (C09). *)
From MC Require Import Bytes BytesFacts Monad Cbor Utf8 Half Decoder Encoder EncoderFacts DecoderFacts IntFacts HeadFacts Types
  DeriveSchema DeriveEnc DeriveLen DeriveDec DeriveDoc DeriveKnown DeriveFacts DeriveLenFacts DeriveDocFacts DeriveDecFacts
  DeriveReframe TypeSem TypeSemLoops TypeSemFields TypeSemAgree TypeSemRound AccFacts TypesItem DeriveClosed.
From Coq Require Import Lia Permutation.
Local Open Scope N_scope.

(* ---- the choice monad ---- *)
Lemma rf_bind_some {A B} (m : RF A) (f : A -> RF B) ch b ch2 :
  rf_bind m f ch = Some (b, ch2) -> exists a ch1, m ch = Some (a, ch1) /\ f a ch1 = Some (b, ch2).
Proof. unfold rf_bind. destruct (m ch) as [[a ch1]|]; [eauto|discriminate]. Qed.

Lemma rf_ret_some {A} (a : A) ch b ch' : rf_ret a ch = Some (b, ch') -> b = a /\ ch' = ch.
Proof. unfold rf_ret. intros [= <- <-]. auto. Qed.

Lemma rf_cat_some a b ch x ch' : rf_cat a b ch = Some (x, ch') ->
  exists x1 ch1 x2, a ch = Some (x1, ch1) /\ b ch1 = Some (x2, ch') /\ x = x1 ++ x2.
Proof.
  unfold rf_cat. intro H. apply rf_bind_some in H as (x1 & ch1 & H1 & H). apply rf_bind_some in H as (x2 & ch2 & H2 & H).
  apply rf_ret_some in H as [-> ->]. eauto 7.
Qed.

Lemma rf_head_some mt n ch b ch' : rf_head mt n ch = Some (b, ch') -> exists k, b = Cbor.head mt (rf_pick_width n k) n.
Proof. unfold rf_head. intro H. apply rf_bind_some in H as (k & ch1 & _ & H). apply rf_ret_some in H as [-> _]. eauto. Qed.

Lemma rf_body_some mt items ch b ch' : rf_body mt items ch = Some (b, ch') ->
  exists k ch1 its, items ch1 = Some (its, ch') /\ b = rf_frame mt k its.
Proof.
  unfold rf_body. intro H. apply rf_bind_some in H as (k & ch1 & _ & H). apply rf_bind_some in H as (its & ch2 & H2 & H).
  apply rf_ret_some in H as [-> ->]. eauto.
Qed.

Lemma rf_lift_some {A} (o : option A) ch a ch' : rf_lift o ch = Some (a, ch') -> o = Some a.
Proof. unfold rf_lift. destruct o; [intros [= <- _]; reflexivity|discriminate]. Qed.

(* ---- widths ---- *)
Lemma fits_pick_width n k : n < two64 -> fits (rf_pick_width n k) n = true.
Proof. intro H. unfold rf_pick_width. destruct (fits (rf_width_code k) n) eqn:E; [exact E|now apply fits_min_width]. Qed.

Lemma head_nonempty mt w n : Cbor.head mt w n <> [].
Proof. rewrite head_split. discriminate. Qed.

(* ---- heads of any fitting width under the accessors the generated code calls ---- *)
Lemma dec_tag_head w n r p L : fits w n = true -> p + len (Cbor.head 6 w n) <= L ->
  dec_tag (mkdst p (Cbor.head 6 w n ++ r) L) = (Ok n, mkdst (p + len (Cbor.head 6 w n)) r L).
Proof.
  intros Hf HL. rewrite len_ser_int in *. rewrite head_split. cbn [app]. unfold dec_tag.
  rewrite (bind_ok _ _ _ _ _ (read_cons _ _ _ _)). change 0xc0 with (6 * 32). rewrite major_ib, info_ib by assumption.
  rewrite N.eqb_refl. cbn [negb].
  assert (HL' : p + 1 + len (args w n) <= L) by lia.
  rewrite (unsigned_args w n r (p + 1) L Hf HL').
  replace (p + 1 + len (args w n)) with (p + (1 + len (args w n))) by lia. reflexivity.
Qed.

Lemma dec_u32_head w n r p L : fits w n = true -> n < 4294967296 -> p + len (Cbor.head 0 w n) <= L ->
  dec_u32 (mkdst p (Cbor.head 0 w n ++ r) L) = (Ok n, mkdst (p + len (Cbor.head 0 w n)) r L).
Proof.
  intros Hf Hn HL. unfold dec_u32. rewrite dec_uint_uint by assumption.
  destruct (N.leb_spec n 4294967295); [reflexivity|lia].
Qed.

Lemma dec_container_indef mt r p L : mt = 4 \/ mt = 5 ->
  dec_container (mt * 32) (mkdst p ((mt * 32 + 31) :: r) L) = (Ok None, mkdst (p + 1) r L).
Proof. intros [->| ->]; reflexivity. Qed.

Lemma rf_tag_opt_some t ch b ch' : rf_tag_opt t ch = Some (b, ch') ->
  match t with Some n => exists k, b = Cbor.head 6 (rf_pick_width n k) n | None => b = [] end.
Proof. destruct t as [n|]; cbn [rf_tag_opt]; [apply rf_head_some|]. intro H. now apply rf_ret_some in H as [-> _]. Qed.

Lemma tag_ok_lt n : tag_ok (Some n) = true -> n < two64.
Proof. cbn [tag_ok]. intro H. apply N.leb_le in H. unfold two64, u64_max in *. lia. Qed.

Lemma dec_tag_check_rf t tb ch ch' r p L : tag_ok t = true -> rf_tag_opt t ch = Some (tb, ch') -> p + len tb <= L ->
  dec_tag_check t (mkdst p (tb ++ r) L) = (Ok tt, mkdst (p + len tb) r L).
Proof.
  intros Ht H HL. apply rf_tag_opt_some in H. destruct t as [n|]; cbn [dec_tag_check].
  - destruct H as [k ->]. pose proof (fits_pick_width n k (tag_ok_lt n Ht)) as Hf.
    rewrite (bind_ok _ _ _ _ _ (dec_tag_head _ n r p L Hf HL)). now rewrite N.eqb_refl.
  - subst tb. cbn [app]. change (len []) with 0. unfold ret. now rewrite N.add_0_r.
Qed.

(* ---- what datatype() says about the first item of a byte string ---- *)
Definition dt_not (P : ctype -> bool) (b : bytes) : Prop :=
  forall r p L, L < two64 -> p + len b <= L ->
    exists ty, datatype (mkdst p (b ++ r) L) = (Ok ty, mkdst p (b ++ r) L) /\ P ty = false.
Definition nobrk : bytes -> Prop := dt_not ctype_is_break.
Definition nonnull : bytes -> Prop := dt_not ctype_is_null.

Lemma dt_not_app P a b : dt_not P a -> dt_not P (a ++ b).
Proof.
  intros H r p L HL Hp. rewrite <- app_assoc. apply H; [assumption|]. rewrite len_app in Hp. lia.
Qed.

Lemma dt_not_head P mt w n : fits w n = true -> mt = 0 \/ (2 <= mt <= 6) -> (forall t, P t = true -> t = TNull \/ t = TBreak) -> dt_not P (Cbor.head mt w n).
Proof.
  intros Hf Hmt HP r p L _ _. destruct Hmt as [->|Hmt].
  - eexists. split; [apply datatype_uint; assumption|]. destruct (P (uint_type w)) eqn:E; [|reflexivity].
    destruct (HP _ E) as [E'|E']; destruct w; discriminate.
  - eexists. split; [apply datatype_head; assumption|]. destruct (P (mt_type mt)) eqn:E; [|reflexivity].
    destruct (HP _ E) as [E'|E']; unfold mt_type in E'; repeat match type of E' with (if ?a then _ else _) = _ => destruct a end; discriminate.
Qed.

Lemma is_break_cases t : ctype_is_break t = true -> t = TNull \/ t = TBreak.
Proof. destruct t; try discriminate; auto. Qed.
Lemma is_null_cases t : ctype_is_null t = true -> t = TNull \/ t = TBreak.
Proof. destruct t; try discriminate; auto. Qed.

Lemma nobrk_head mt w n : fits w n = true -> mt = 0 \/ (2 <= mt <= 6) -> nobrk (Cbor.head mt w n).
Proof. intros. apply dt_not_head; auto using is_break_cases. Qed.
Lemma nonnull_head mt w n : fits w n = true -> mt = 0 \/ (2 <= mt <= 6) -> nonnull (Cbor.head mt w n).
Proof. intros. apply dt_not_head; auto using is_null_cases. Qed.

Lemma nobrk_null : nobrk [246].
Proof. intros r p L _ _. exists TNull. split; reflexivity. Qed.

Lemma nobrk_indef mt its : mt = 4 \/ mt = 5 -> nobrk ((mt * 32 + 31) :: its).
Proof. intros [->| ->] r p L _ _; eexists; split; reflexivity. Qed.
Lemma nonnull_indef mt its : mt = 4 \/ mt = 5 -> nonnull ((mt * 32 + 31) :: its).
Proof. intros [->| ->] r p L _ _; eexists; split; reflexivity. Qed.

(* a tag (or none) in front of something *)
Lemma dt_not_tagged P t tb ch ch' z : tag_ok t = true -> rf_tag_opt t ch = Some (tb, ch') ->
  (forall x, P x = true -> x = TNull \/ x = TBreak) -> dt_not P z -> dt_not P (tb ++ z).
Proof.
  intros Ht H HP Hz. apply rf_tag_opt_some in H. destruct t as [n|].
  - destruct H as [k ->]. apply dt_not_app. apply dt_not_head; [apply fits_pick_width, tag_ok_lt, Ht|right; lia|assumption].
  - subst tb. exact Hz.
Qed.

(* ---- the two loops of the generated code over a list of items ---- *)
Section Loops.
Variable c : cfg.
Context {St : Type}.
Variable F : nat.
Variable step : N -> St -> M St.

Definition seg_ok (i : N) (st : St) (b : bytes) (st1 : St) : Prop :=
  b <> [] /\ nobrk b /\
  forall r p L, (length (b ++ r) < F)%nat -> L < two64 -> p + len b <= L ->
    step i st (mkdst p (b ++ r) L) = (Ok st1, mkdst (p + len b) r L).

Fixpoint run_segs (i : N) (segs : list bytes) (st st' : St) : Prop :=
  match segs with
  | [] => st = st'
  | b :: rest => exists st1, seg_ok i st b st1 /\ run_segs (i + 1) rest st1 st'
  end.

Lemma run_segs_app : forall a i b st st1 st2,
  run_segs i a st st1 -> run_segs (i + len a) b st1 st2 -> run_segs i (a ++ b) st st2.
Proof.
  induction a as [|x a IH]; intros i b st st1 st2 H1 H2; cbn [app run_segs] in *.
  - subst st1. change (len []) with 0 in H2. now rewrite N.add_0_r in H2.
  - destruct H1 as (s1 & Hx & Ha). exists s1. split; [assumption|]. apply (IH (i + 1) b s1 st1 st2 Ha).
    rewrite len_cons in H2. replace (i + 1 + len a) with (i + (1 + len a)) by lia. exact H2.
Qed.

Lemma len_concat_cons (b : bytes) rest : len (concat (b :: rest)) = len b + len (concat rest).
Proof. cbn [concat]. now rewrite len_app. Qed.

Lemma loop_n_segs : forall segs i st st', run_segs i segs st st' -> forall fuel r p L,
  (length (concat segs ++ r) < F)%nat -> (length (concat segs ++ r) < fuel)%nat -> L < two64 -> p + len (concat segs) <= L ->
  loop_n step i (len segs) fuel st (mkdst p (concat segs ++ r) L) = (Ok st', mkdst (p + len (concat segs)) r L).
Proof.
  induction segs as [|b rest IH]; intros i st st' Hrun fuel r p L HF Hfu HL Hp; cbn [run_segs] in Hrun.
  - subst st'. change (len []) with 0. rewrite loop_n_0. cbn [concat app]. change (len []) with 0. now rewrite N.add_0_r.
  - destruct Hrun as (s1 & (Hne & _ & Hstep) & Hrest). rewrite len_concat_cons in Hp. cbn [concat] in *. rewrite <- app_assoc in *.
    destruct fuel as [|fuel]; [lia|]. rewrite len_cons. rewrite loop_n_S by lia.
    rewrite (bind_ok _ _ _ _ _ (Hstep (concat rest ++ r) p L HF HL ltac:(lia))).
    replace (N.pred (1 + len rest)) with (len rest) by lia.
    assert (Hlen : (length (concat rest ++ r) < length (b ++ concat rest ++ r))%nat).
    { rewrite (app_length b). destruct b; [congruence|cbn [length]; lia]. }
    rewrite (IH _ _ _ Hrest); [|lia|lia|assumption|lia].
    f_equal. f_equal. rewrite len_app. lia.
Qed.

Lemma loop_brk_segs : forall segs i st st', run_segs i segs st st' -> forall fuel r p L,
  (length (concat segs ++ 255%N :: r) < F)%nat -> (length (concat segs ++ 255%N :: r) < fuel)%nat -> L < two64 ->
  p + len (concat segs) + 1 <= L ->
  loop_brk c step i fuel st (mkdst p (concat segs ++ 255 :: r) L) = (Ok st', mkdst (p + len (concat segs) + 1) r L).
Proof.
  induction segs as [|b rest IH]; intros i st st' Hrun fuel r p L HF Hfu HL Hp; cbn [run_segs] in Hrun.
  - subst st'. cbn [concat app] in *. destruct fuel as [|fuel]; [cbn [length] in Hfu; lia|]. cbn [loop_brk].
    assert (Hd : datatype (mkdst p (255 :: r) L) = (Ok TBreak, mkdst p (255 :: r) L)) by reflexivity.
    rewrite (bind_ok _ _ _ _ _ Hd). cbn [ctype_is_break].
    rewrite (bind_ok _ _ _ _ _ (skip_break c r p L)). change (len []) with 0. unfold ret. now rewrite N.add_0_r.
  - destruct Hrun as (s1 & (Hne & Hnb & Hstep) & Hrest). rewrite len_concat_cons in Hp. cbn [concat] in *. rewrite <- app_assoc in *.
    destruct fuel as [|fuel]; [lia|]. cbn [loop_brk].
    destruct (Hnb (concat rest ++ 255 :: r) p L HL ltac:(lia)) as (ty & Hd & Hty).
    rewrite (bind_ok _ _ _ _ _ Hd), Hty.
    rewrite (bind_ok _ _ _ _ _ (Hstep (concat rest ++ 255 :: r) p L HF HL ltac:(lia))).
    assert (Hlen : (length (concat rest ++ 255%N :: r) < length (b ++ concat rest ++ 255%N :: r))%nat).
    { rewrite (app_length b). destruct b; [congruence|cbn [length]; lia]. }
    rewrite (IH _ _ _ Hrest); [|lia|lia|assumption|lia].
    f_equal. f_equal. rewrite len_app. lia.
Qed.
End Loops.

(* ---- the decoders of the generated code on re-framed input ---- *)
Section RfOk.
Variable c : cfg.
Variable okty : ty -> Prop.
Variable leaf : ty -> value -> RF bytes.
Hypothesis Hleaf : forall t, okty t -> forall v ch b ch', leaf t v ch = Some (b, ch') ->
  b <> [] /\ nobrk b /\ reads_f (decode_ty c t) b v.

Variable recE : nat -> value -> RF bytes.
Variable recD : nat -> nat -> M value.
Variable recV : nat -> value -> value.
Variable ntr : nat -> bool.
Hypothesis Hrec : forall d v ch b ch', recE d v ch = Some (b, ch') ->
  b <> [] /\ nobrk b /\ (ntr d = true -> nonnull b) /\ reads_f (recD d) b (recV d v).

(* ---- sequences ---- *)
Lemma dec_n_rf (f : value -> RF bytes) (d : M value) (g : value -> value) (F : nat) : forall l ch its ch',
  rf_all f l ch = Some (its, ch') ->
  (forall v ch0 b ch1, In v l -> f v ch0 = Some (b, ch1) -> b <> [] /\
     forall r p L, (length (b ++ r) < F)%nat -> L < two64 -> p + len b <= L ->
       d (mkdst p (b ++ r) L) = (Ok (g v), mkdst (p + len b) r L)) ->
  len l <= len (concat its) /\
  forall acc fuel r p L, (length (concat its ++ r) < F)%nat -> (length (concat its ++ r) < fuel)%nat -> L < two64 -> p + len (concat its) <= L ->
    dec_n d (len l) fuel acc (mkdst p (concat its ++ r) L) = (Ok (rev acc ++ map g l), mkdst (p + len (concat its)) r L).
Proof.
  induction l as [|v l' IH]; intros ch its ch' He Hel; cbn [rf_all] in He.
  - apply rf_ret_some in He as [-> _]. split; [apply N.le_refl|]. intros acc fuel r p L _ _ _ _. cbn [len map concat app]. unfold dec_n.
    destruct fuel; cbn; unfold ret; rewrite app_nil_r, N.add_0_r; reflexivity.
  - apply rf_bind_some in He as (x & ch1 & Hx & He). apply rf_bind_some in He as (y & ch2 & Hy & He). apply rf_ret_some in He as [-> ->].
    destruct (Hel v ch x ch1 (or_introl eq_refl) Hx) as [Hne Hrd].
    destruct (IH ch1 y ch2 Hy (fun v' c0 b' c1 Hv => Hel v' c0 b' c1 (or_intror Hv))) as [Hle IHr].
    pose proof (nonempty_len _ Hne) as H1.
    split; [rewrite len_cons, len_concat_cons; lia|].
    intros acc fuel r p L HF Hfuel HL Hp. rewrite len_concat_cons in Hp. cbn [concat] in *. rewrite <- app_assoc in *.
    destruct fuel as [|fuel]; [lia|]. cbn [dec_n]. rewrite len_cons.
    destruct (N.eqb_spec (1 + len l') 0); [lia|].
    rewrite (bind_ok _ _ _ _ _ (Hrd (concat y ++ r) p L HF HL ltac:(lia))).
    replace (N.pred (1 + len l')) with (len l') by lia.
    assert (Hlen : (length (concat y ++ r) < length (x ++ concat y ++ r))%nat).
    { rewrite (app_length x). destruct x; [congruence|cbn; lia]. }
    rewrite IHr; [|lia|lia|assumption|lia].
    f_equal; [f_equal; cbn [rev map]; now rewrite <- app_assoc|f_equal; rewrite len_app; lia].
Qed.

Lemma enc_array_head n : n < two64 -> flat (enc_array n) = Cbor.head 4 (min_width n) n.
Proof. apply flat_enc_array. Qed.

Lemma rf_fty_reads f : forall v ch b ch', fty_all okty f -> fty_rt ntr f = true -> rf_fty leaf recE f v ch = Some (b, ch') ->
  b <> [] /\ nobrk b /\ (hdok ntr f = true -> nonnull b) /\ reads_f (dec_fty c recD f) b (dflt_fty recV f v).
Proof.
  induction f as [t|d|f' IH|f' IH]; intros v ch b ch' Hall Hrt He.
  - cbn in He, Hall. destruct (Hleaf t Hall v ch b ch' He) as (H1 & H2 & H3). split; [assumption|]. split; [assumption|]. split; [discriminate|].
    replace (dflt_fty recV (FTy t) v) with v by (destruct v; reflexivity). exact H3.
  - cbn in He. destruct (Hrec d v ch b ch' He) as (H1 & H2 & H3 & H4). repeat split; assumption.
  - apply fty_rt_hdok in Hrt as [Hhd Hrt']. destruct v; cbn in He; try discriminate.
    + apply rf_ret_some in He as [-> _]. split; [discriminate|]. split; [apply nobrk_null|]. split; [discriminate|].
      intros fuel r p L _ _ _. cbn [dec_fty dflt_fty]. change ([246] ++ r) with (246 :: r).
      rewrite (bind_ok _ _ _ _ _ (datatype_null _ _ _)). cbn [ctype_is_null].
      rewrite (bind_ok _ _ _ _ _ (skip_null _ _ _ _)). reflexivity.
    + destruct (IH v ch b ch' Hall Hrt' He) as (H1 & H2 & H3 & H4). split; [assumption|]. split; [assumption|]. split; [discriminate|].
      intros fuel r p L Hf HL Hp. cbn [dec_fty dflt_fty]. specialize (H3 Hhd).
      destruct (H3 r p L HL Hp) as (ty & Hd & Hn).
      rewrite (bind_ok _ _ _ _ _ Hd), Hn.
      erewrite fmap_ok; [reflexivity|]. apply H4; assumption.
  - cbn [fty_rt] in Hrt. destruct v; cbn in He; try discriminate.
    apply rf_bind_some in He as (y & ch1 & Hy & He). apply rf_ret_some in He as [-> ->].
    destruct (dec_n_rf (rf_fty leaf recE f') (dec_fty c recD f' 0) (dflt_fty recV f') 0 l ch y ch1 Hy) as [Hle _].
    { intros v c0 cv c1 Hv Hcv. destruct (IH v c0 cv c1 Hall Hrt Hcv) as (H1 & _). split; [assumption|]. intros; lia. }
    assert (Hhead : forall L, len (flat (enc_array (len l)) ++ concat y) <= L -> L < two64 -> flat (enc_array (len l)) = Cbor.head 4 (min_width (len l)) (len l) /\ len l < two64).
    { intros L H1 H2. rewrite len_app in H1. assert (len l < two64) by lia. split; [now apply flat_enc_array|assumption]. }
    split; [unfold enc_array, type_len; repeat match goal with |- context [if ?a then _ else _] => destruct a end; discriminate|].
    split; [|split].
    + intros r p L HL Hp. destruct (Hhead L ltac:(lia) HL) as [E Hl]. rewrite E in *.
      apply (dt_not_app _ _ _ (nobrk_head 4 _ _ (fits_min_width _ Hl) ltac:(right; lia))); assumption.
    + intros _ r p L HL Hp. destruct (Hhead L ltac:(lia) HL) as [E Hl]. rewrite E in *.
      apply (dt_not_app _ _ _ (nonnull_head 4 _ _ (fits_min_width _ Hl) ltac:(right; lia))); assumption.
    + intros fuel r p L Hf HL Hp. cbn [dec_fty dflt_fty]. rewrite <- app_assoc in *. rewrite len_app in Hp.
      assert (Hl : len l < two64) by lia.
      unfold dec_seq. erewrite fmap_ok; [reflexivity|].
      rewrite (bind_ok _ _ _ _ _ (dec_array_enc (len l) (concat y ++ r) p L Hl ltac:(lia))).
      destruct (dec_n_rf (rf_fty leaf recE f') (dec_fty c recD f' fuel) (dflt_fty recV f') fuel l ch y ch1 Hy) as [_ Hrd].
      { intros v c0 cv c1 Hv Hcv. destruct (IH v c0 cv c1 Hall Hrt Hcv) as (H1 & _ & _ & H4). split; [assumption|].
        intros r' p' L' Hf' HL' Hp'. apply H4; assumption. }
      assert (Hlen : (length (concat y ++ r) <= length (flat (enc_array (len l)) ++ concat y ++ r))%nat) by (rewrite (app_length (flat (enc_array (len l)))); lia).
      rewrite Hrd; [|lia|lia|assumption|lia]. cbn [rev app]. f_equal. f_equal. rewrite len_app. lia.
Qed.

(* ---- one field ---- *)
Lemma nobrk_cust v z : cust_encode v = Some z -> nobrk (flat z).
Proof.
  destruct v; cbn; try discriminate. destruct (N.leb_spec n u64_max); [|discriminate]. intros [= <-].
  destruct (N.eqb_spec n 0) as [->|Hn]; [apply nobrk_null|].
  assert (Hn64 : n < two64) by (unfold two64, u64_max in *; lia).
  rewrite flat_enc_u64 by assumption. apply nobrk_head; [now apply fits_min_width|now left].
Qed.

Lemma rf_field_fn_reads d f v ch z ch' : field_ok d f = true -> f_skip f = false -> fty_all okty (f_ty f) -> fty_rt ntr (f_ty f) = true ->
  rf_field_fn leaf recE f v ch = Some (z, ch') -> z <> [] /\ nobrk z /\ reads_f (dec_field_fn c recD f) z (wval recV f v).
Proof.
  unfold rf_field_fn, dec_field_fn, wval, field_ok. intros Hok Hs Hall Hrt He. rewrite Hs in Hok.
  destruct (f_codec f) eqn:Ec.
  - destruct (rf_fty_reads (f_ty f) v ch z ch' Hall Hrt He) as (H1 & H2 & _ & H4). auto.
  - apply andb_prop in Hok as [_ Hok]. apply andb_prop in Hok as [_ Hok].
    destruct (f_ty f); try discriminate. cbn in *. now apply (Hleaf t Hall v ch z ch').
  - apply rf_lift_some in He. destruct (cust_encode v) as [z0|] eqn:Ez; [|discriminate]. injection He as <-.
    destruct (cust_reads c v z0 Ez) as [H1 H2]. split; [assumption|]. split; [now apply (nobrk_cust v)|assumption].
Qed.

Lemma field_tag_ok d f : field_ok d f = true -> f_skip f = false -> tag_ok (f_tag f) = true.
Proof.
  unfold field_ok. intros Hok Hs. rewrite Hs in Hok. apply andb_prop in Hok as [_ Hok]. apply andb_prop in Hok as [Hok _].
  apply andb_prop in Hok as [Hok _]. apply andb_prop in Hok as [_ Hok]. exact Hok.
Qed.

Lemma rf_field_action_reads d f v ch tb ch1 z ch2 : field_ok d f = true -> f_skip f = false -> fty_all okty (f_ty f) -> fty_rt ntr (f_ty f) = true ->
  rf_tag_opt (f_tag f) ch = Some (tb, ch1) -> rf_field_fn leaf recE f v ch1 = Some (z, ch2) ->
  tb ++ z <> [] /\ nobrk (tb ++ z) /\ reads_f (field_action c recD f) (tb ++ z) (Some (wval recV f v)).
Proof.
  intros Hok Hs Hall Hrt Ht He. destruct (rf_field_fn_reads d f v ch1 z ch2 Hok Hs Hall Hrt He) as (Hne & Hnb & Hrd).
  pose proof (field_tag_ok d f Hok Hs) as Htag.
  split; [intro E; apply app_eq_nil in E as [_ E]; contradiction|].
  split; [apply (dt_not_tagged _ _ _ _ _ _ Htag Ht is_break_cases Hnb)|].
  intros fuel r p L Hf HL Hp. rewrite <- app_assoc in *. rewrite len_app in Hp.
  assert (Hact : (dec_tag_check (f_tag f) ;;; try_unknown c (has_handler f) (dec_field_fn c recD f fuel))
                   (mkdst p (tb ++ z ++ r) L)
                 = (Ok (Some (wval recV f v)), mkdst (p + len (tb ++ z)) r L)).
  { assert (Hp1 : p + len tb <= L) by lia.
    rewrite (bind_ok _ _ _ _ _ (dec_tag_check_rf (f_tag f) tb ch ch1 (z ++ r) p L Htag Ht Hp1)).
    unfold try_unknown. rewrite Hrd; [|rewrite app_length in Hf; lia|assumption|lia].
    rewrite len_app, N.add_assoc. reflexivity. }
  unfold field_action. destruct (has_tag f && has_handler f) eqn:Eg; [|exact Hact].
  (* a tagged optional field: what was written starts with the tag head, not with null *)
  apply andb_prop in Eg as [Eg _]. unfold has_tag in Eg. destruct (f_tag f) as [t|] eqn:Et; [|discriminate].
  apply rf_tag_opt_some in Ht as [k ->].
  destruct (nonnull_head 6 (rf_pick_width t k) t (fits_pick_width t k (tag_ok_lt t Htag)) ltac:(right; lia) (z ++ r) p L HL ltac:(lia)) as (ty & Hd & Hn).
  rewrite (bind_ok _ _ _ _ _ Hd), Hn. exact Hact.
Qed.

(* ---- one struct / variant body ---- *)
Section Body.
Variable d0 : nat.
Variable sf : list pfield.
Variable vs : list value.
Variable F : nat.                       (* the fuel the field decoders run with *)
Hypothesis Hasc_sf : asc pf_idx 0 sf.
Hypothesis Hfields : forall pf, In pf sf ->
  field_ok d0 (pf_fld pf) = true /\ f_skip (pf_fld pf) = false /\ fty_all okty (f_ty (pf_fld pf)) /\ fty_rt ntr (f_ty (pf_fld pf)) = true.

Local Notation so := (slots_of recV sf vs).

Lemma step_field_seg pf ch tb ch1 z ch2 done : In pf sf ->
  rf_tag_opt (f_tag (pf_fld pf)) ch = Some (tb, ch1) -> rf_field_fn leaf recE (pf_fld pf) (pf_val vs pf) ch1 = Some (z, ch2) ->
  seg_ok F (step_at c recD sf F) (pf_idx pf) (so done) (tb ++ z) (so (fun q => (pf_idx q =? pf_idx pf) || done q)).
Proof.
  intros Hin Ht He. destruct (Hfields pf Hin) as (H1 & H2 & H3 & H4).
  destruct (rf_field_action_reads d0 (pf_fld pf) (pf_val vs pf) ch tb ch1 z ch2 H1 H2 H3 H4 Ht He) as (Hne & Hnb & Hrd).
  split; [assumption|]. split; [assumption|]. intros r p L HF HL Hp.
  pose proof (asc_nodup pf_idx 0 sf Hasc_sf) as Hnd.
  destruct (find_field_some sf (pf_idx pf) 0%nat pf Hin eq_refl) as (k & q & Hfind).
  unfold step_at. rewrite Hfind.
  destruct (find_field_set (fun pf0 => if done pf0 then Some (wv recV vs pf0) else init_slot pf0) (Some (wv recV vs pf)) (pf_idx pf) sf 0%nat k q Hnd Hfind) as (_ & Hqi & Hq & Hset).
  assert (q = pf) by (eapply nodup_key_eq; eassumption). subst q.
  rewrite (bind_ok _ _ _ _ _ (Hrd F r p L HF HL Hp)). unfold ret. f_equal. f_equal.
  rewrite Nat.sub_0_r in Hset. unfold slots_of, wv in *. cbn beta. rewrite Hset. apply map_ext_in. intros a Ha.
  destruct (N.eqb_spec (pf_idx a) (pf_idx pf)) as [E|E]; cbn [orb]; [|reflexivity].
  assert (a = pf) by (eapply nodup_key_eq; eassumption). now subst a.
Qed.

Lemma field_idx_u32 pf : In pf sf -> pf_idx pf < 4294967296.
Proof.
  intro Hin. destruct (Hfields pf Hin) as (F1 & F2 & _). unfold field_ok in F1. rewrite F2 in F1.
  apply andb_prop in F1 as [_ F1]. apply andb_prop in F1 as [F1 _].
  apply andb_prop in F1 as [F1 _]. apply andb_prop in F1 as [F1 _]. apply N.leb_le in F1. unfold idx_max, pf_idx in *. lia.
Qed.

Lemma step_map_seg pf j ch kb ch0 tb ch1 z ch2 done : In pf sf ->
  rf_head 0 (pf_idx pf) ch = Some (kb, ch0) ->
  rf_tag_opt (f_tag (pf_fld pf)) ch0 = Some (tb, ch1) -> rf_field_fn leaf recE (pf_fld pf) (pf_val vs pf) ch1 = Some (z, ch2) ->
  seg_ok F (step_map c recD sf F) j (so done) (kb ++ tb ++ z) (so (fun q => (pf_idx q =? pf_idx pf) || done q)).
Proof.
  intros Hin Hk Ht He. destruct (step_field_seg pf ch0 tb ch1 z ch2 done Hin Ht He) as (Hne & _ & Hst).
  pose proof (field_idx_u32 pf Hin) as Hidx. apply rf_head_some in Hk as [k ->].
  assert (Hfit : fits (rf_pick_width (pf_idx pf) k) (pf_idx pf) = true) by (apply fits_pick_width; unfold two64; lia).
  split; [intro E; apply app_eq_nil in E as [E _]; now apply head_nonempty in E|].
  split; [apply dt_not_app, nobrk_head; [assumption|now left]|].
  intros r p L HF HL Hp. rewrite <- app_assoc in *. rewrite !len_app in Hp. unfold step_map.
  assert (Hp1 : p + len (Cbor.head 0 (rf_pick_width (pf_idx pf) k) (pf_idx pf)) <= L) by lia.
  rewrite (bind_ok _ _ _ _ _ (dec_u32_head _ _ ((tb ++ z) ++ r) p L Hfit Hidx Hp1)).
  rewrite Hst; [|rewrite app_length in HF; lia|assumption|rewrite len_app; lia].
  f_equal. f_equal. rewrite !len_app. lia.
Qed.

Lemma gap_seg j sl : (forall q, In q sf -> pf_idx q <> j) -> seg_ok F (step_at c recD sf F) j sl [246] sl.
Proof.
  intro H. split; [discriminate|]. split; [apply nobrk_null|]. intros r p L _ _ _. change ([246] ++ r) with (246 :: r).
  change (len [246]) with 1. now apply step_at_gap.
Qed.

Lemma gap_segs : forall k p sl, (forall j, p <= j -> j < p + N.of_nat k -> forall q, In q sf -> pf_idx q <> j) ->
  run_segs F (step_at c recD sf F) p (repeat [246] k) sl sl.
Proof.
  induction k as [|k IH]; intros p sl Hgap; cbn [repeat run_segs]; [reflexivity|].
  exists sl. split; [apply gap_seg, (Hgap p); lia|]. apply IH. intros j H1 H2. apply Hgap; lia.
Qed.

Lemma len_repeat {A} (x : A) k : len (repeat x k) = N.of_nat k.
Proof. unfold len. now rewrite repeat_length. Qed.

Lemma arr_items_segs i : forall l p ch its ch',
  asc pf_idx p l -> (forall q, In q l -> In q sf) -> (forall q, In q sf -> p <= pf_idx q -> In q l) ->
  p <= i + 1 -> ((exists pf, In pf l /\ pf_idx pf = i) \/ i + 1 <= p) ->
  rf_arr_items leaf recE l vs p i ch = Some (its, ch') ->
  run_segs F (step_at c recD sf F) p its (so (fun q => pf_idx q <? p)) (so (fun q => pf_idx q <? i + 1)).
Proof.
  induction l as [|pf l' IH]; intros p ch its ch' Hasc Hsub Hsup Hp Hlast; cbn [rf_arr_items].
  - intro H. apply rf_ret_some in H as [-> _]. destruct Hlast as [(q & [] & _)|Hp']. assert (p = i + 1) by lia. subst p. reflexivity.
  - cbn [asc] in Hasc. destruct Hasc as [Hpp Hasc].
    assert (Hsub' : forall q, In q l' -> In q sf) by (intros; apply Hsub; now right).
    assert (Hsup' : forall q, In q sf -> pf_idx pf + 1 <= pf_idx q -> In q l').
    { intros q Hq Hqi. destruct (Hsup q Hq ltac:(lia)) as [<-|Hin]; [lia|assumption]. }
    destruct (N.leb_spec (pf_idx pf) i) as [Hi|Hi].
    + intro H. apply rf_bind_some in H as (tb & ch1 & Ht & H). apply rf_bind_some in H as (z & ch2 & Hz & H).
      apply rf_bind_some in H as (rest & ch3 & Hrest & H). apply rf_ret_some in H as [-> ->].
      assert (Hlast' : (exists q, In q l' /\ pf_idx q = i) \/ i + 1 <= pf_idx pf + 1).
      { destruct Hlast as [(q & [<-|Hq] & Hqi)|Hp']; [right; lia|left; eauto|right; lia]. }
      assert (Hp1 : pf_idx pf + 1 <= i + 1) by lia.
      pose proof (IH (pf_idx pf + 1) ch2 rest ch3 Hasc Hsub' Hsup' Hp1 Hlast' Hrest) as IHl.
      assert (Hpf : In pf sf) by (apply Hsub; now left).
      set (k := N.to_nat (pf_idx pf - p)).
      assert (Ek : p + N.of_nat k = pf_idx pf) by (unfold k; lia).
      eapply run_segs_app.
      * apply gap_segs. intros j H1 H2 q Hq E. assert (In q (pf :: l')) as [<-|Hql] by (apply Hsup; [assumption|lia]); [lia|].
        pose proof (asc_keys_ge pf_idx _ _ _ Hasc Hql). lia.
      * rewrite len_repeat, Ek. cbn [run_segs]. eexists. split; [apply (step_field_seg pf ch tb ch1 z ch2 _ Hpf Ht Hz)|].
        rewrite (slots_of_ext _ _ _ _ (fun q => pf_idx q <? pf_idx pf + 1)); [exact IHl|].
        intros q Hq.
        assert (Hge : p <= pf_idx q -> pf_idx pf <= pf_idx q).
        { intro Hpq. destruct (Hsup q Hq Hpq) as [<-|Hql]; [lia|]. pose proof (asc_keys_ge pf_idx _ _ _ Hasc Hql). lia. }
        destruct (N.eqb_spec (pf_idx q) (pf_idx pf)), (N.ltb_spec (pf_idx q) p), (N.ltb_spec (pf_idx q) (pf_idx pf + 1)); cbn [orb]; try reflexivity; lia.
    + intro H. apply rf_ret_some in H as [-> _].
      assert (Hp' : p = i + 1).
      { destruct Hlast as [(q & [<-|Hq] & Hqi)|Hp']; [lia| |lia]. pose proof (asc_keys_ge pf_idx _ _ _ Hasc Hq). lia. }
      subst p. reflexivity.
Qed.

Lemma map_items_segs : forall l p j done ch its ch',
  asc pf_idx p l -> (forall q, In q l -> In q sf) -> (forall q, In q sf -> p <= pf_idx q -> In q l) ->
  rf_map_items leaf recE l vs ch = Some (its, ch') ->
  run_segs F (step_map c recD sf F) j its (so done) (so (fun q => done q || ((p <=? pf_idx q) && negb (nilp vs q)))).
Proof.
  induction l as [|pf l' IH]; intros p j done ch its ch' Hasc Hsub Hsup; cbn [rf_map_items].
  - intro H. apply rf_ret_some in H as [-> _]. cbn [run_segs]. apply slots_of_ext. intros q Hq.
    destruct (N.leb_spec p (pf_idx q)); [destruct (Hsup q Hq H)|]. now rewrite orb_false_r.
  - cbn [asc] in Hasc. destruct Hasc as [Hpp Hasc].
    assert (Hsub' : forall q, In q l' -> In q sf) by (intros; apply Hsub; now right).
    assert (Hsup' : forall q, In q sf -> pf_idx pf + 1 <= pf_idx q -> In q l').
    { intros q Hq Hqi. destruct (Hsup q Hq ltac:(lia)) as [<-|Hin]; [lia|assumption]. }
    assert (Hpf : In pf sf) by (apply Hsub; now left).
    assert (Hrange : forall q, In q sf -> p <= pf_idx q -> pf_idx q < pf_idx pf + 1 -> q = pf).
    { intros q Hq H1 H2. destruct (Hsup q Hq H1) as [<-|Hql]; [reflexivity|]. pose proof (asc_keys_ge pf_idx _ _ _ Hasc Hql). lia. }
    fold (nilp vs pf). destruct (nilp vs pf) eqn:En.
    + intro H. pose proof (IH (pf_idx pf + 1) j done ch its ch' Hasc Hsub' Hsup' H) as IHl.
      rewrite (slots_of_ext recV sf vs (fun q => done q || ((p <=? pf_idx q) && negb (nilp vs q))) (fun q => done q || ((pf_idx pf + 1 <=? pf_idx q) && negb (nilp vs q)))); [exact IHl|].
      intros q Hq. destruct (N.leb_spec (pf_idx pf + 1) (pf_idx q)), (N.leb_spec p (pf_idx q)); cbn [andb]; try reflexivity; try lia.
      rewrite (Hrange q Hq) by lia. now rewrite En.
    + intro H. apply rf_bind_some in H as (kb & ch0 & Hk & H). apply rf_bind_some in H as (tb & ch1 & Ht & H).
      apply rf_bind_some in H as (z & ch2 & Hz & H). apply rf_bind_some in H as (rest & ch3 & Hrest & H). apply rf_ret_some in H as [-> ->].
      cbn [run_segs]. eexists. split; [apply (step_map_seg pf j ch kb ch0 tb ch1 z ch2 done Hpf Hk Ht Hz)|].
      pose proof (IH (pf_idx pf + 1) (j + 1) (fun q => (pf_idx q =? pf_idx pf) || done q) ch2 rest ch3 Hasc Hsub' Hsup' Hrest) as IHl.
      rewrite (slots_of_ext recV sf vs (fun q => done q || ((p <=? pf_idx q) && negb (nilp vs q))) (fun q => ((pf_idx q =? pf_idx pf) || done q) || ((pf_idx pf + 1 <=? pf_idx q) && negb (nilp vs q)))); [exact IHl|].
      intros q Hq. destruct (N.eqb_spec (pf_idx q) (pf_idx pf)) as [E|E]; cbn [orb].
      * assert (q = pf) by (eapply nodup_key_eq; [apply (asc_nodup pf_idx 0 sf Hasc_sf)| | |]; assumption). subst q.
        rewrite En. cbn [negb]. destruct (N.leb_spec p (pf_idx pf)); [|lia]. now rewrite !orb_true_r.
      * f_equal. destruct (N.leb_spec (pf_idx pf + 1) (pf_idx q)), (N.leb_spec p (pf_idx q)); cbn [andb]; try reflexivity; try lia.
        exfalso. apply E. now rewrite (Hrange q Hq) by lia.
Qed.
End Body.

(* ---- a framed body ---- *)
Lemma run_segs_len {St} F (step : N -> St -> M St) : forall segs i st st', run_segs F step i segs st st' -> len segs <= len (concat segs).
Proof.
  induction segs as [|b rest IH]; intros i st st' H; cbn [run_segs] in H; [apply N.le_refl|].
  destruct H as (s1 & (Hne & _) & Hr). rewrite len_cons, len_concat_cons. pose proof (nonempty_len _ Hne). specialize (IH _ _ _ Hr). lia.
Qed.

Lemma frame_nonempty mt k its : rf_frame mt k its <> [].
Proof.
  unfold rf_frame. destruct (5 <=? k); [discriminate|]. intro E. apply app_eq_nil in E as [E _]. now apply head_nonempty in E.
Qed.

Lemma frame_dt P mt k its : mt = 4 \/ mt = 5 -> (forall x, P x = true -> x = TNull \/ x = TBreak) -> len its <= len (concat its) ->
  dt_not P (rf_frame mt k its).
Proof.
  intros Hmt HP Hle. unfold rf_frame. destruct (5 <=? k).
  - destruct Hmt as [->| ->]; intros r p L _ _; eexists; (split; [reflexivity|]);
    match goal with |- P ?t = false => destruct (P t) eqn:E; [destruct (HP _ E); discriminate|reflexivity] end.
  - intros r p L HL Hp. assert (Hn : len its < two64) by (rewrite len_app in Hp; lia).
    apply (dt_not_app P _ _ (dt_not_head P mt _ _ (fits_pick_width _ k Hn) ltac:(right; lia) HP)); assumption.
Qed.

Definition body_step (e : encoding) (sf : list pfield) (F : nat) : N -> slots -> M slots :=
  match e with AsArray => step_at c recD sf F | AsMap => step_map c recD sf F end.

Lemma dec_statements_frame e sf k its st' fuel r p L :
  run_segs fuel (body_step e sf fuel) 0 its (map init_slot sf) st' ->
  (length (rf_frame (rf_body_mt e) k its ++ r) < fuel)%nat -> L < two64 -> p + len (rf_frame (rf_body_mt e) k its) <= L ->
  dec_statements c recD e sf fuel (mkdst p (rf_frame (rf_body_mt e) k its ++ r) L)
  = (Ok st', mkdst (p + len (rf_frame (rf_body_mt e) k its)) r L).
Proof.
  intros Hrun Hfu HL Hp. pose proof (run_segs_len _ _ _ _ _ _ Hrun) as Hle.
  assert (Hmt : rf_body_mt e = 4 \/ rf_body_mt e = 5) by (destruct e; [now left|now right]).
  assert (Hdec : forall s, (r0 <- (match e with AsArray => dec_array | AsMap => dec_map end) ;;
                  match r0 with
                  | Some n => loop_n (body_step e sf fuel) 0 n fuel (map init_slot sf)
                  | None => loop_brk c (body_step e sf fuel) 0 fuel (map init_slot sf)
                  end) s = dec_statements c recD e sf fuel s) by (intro s; destruct e; reflexivity).
  rewrite <- Hdec. clear Hdec.
  assert (Hcont : (match e with AsArray => dec_array | AsMap => dec_map end) = dec_container (rf_body_mt e * 32)) by (destruct e; reflexivity).
  rewrite Hcont. clear Hcont. set (mt := rf_body_mt e) in *. clearbody mt.
  unfold rf_frame in *. destruct (5 <=? k).
  - cbn [app] in *. rewrite <- app_assoc in *. cbn [app] in *.
    rewrite (bind_ok _ _ _ _ _ (dec_container_indef mt _ p L Hmt)).
    rewrite len_cons, len_app in Hp. change (len [255]) with 1 in Hp. cbn [length] in Hfu.
    rewrite (loop_brk_segs c fuel _ its 0 _ _ Hrun fuel r (p + 1) L); [|lia|lia|assumption|lia].
    f_equal. f_equal. rewrite len_cons, len_app. change (len [255]) with 1. lia.
  - rewrite <- app_assoc in *. rewrite len_app in Hp. rewrite app_length in Hfu.
    assert (Hn : len its < two64) by lia.
    rewrite (bind_ok _ _ _ _ _ (dec_container_head mt _ _ (concat its ++ r) p L Hmt (fits_pick_width _ k Hn) ltac:(lia))).
    rewrite (loop_n_segs fuel _ its 0 _ _ Hrun fuel r _ L); [|lia|lia|assumption|lia].
    f_equal. f_equal. rewrite len_app. lia.
Qed.

Lemma rf_framed_reads d0 e sh fs vs k its done :
  (forall pf, In pf (sorted_fields fs) ->
     field_ok d0 (pf_fld pf) = true /\ f_skip (pf_fld pf) = false /\ fty_all okty (f_ty (pf_fld pf)) /\ fty_rt ntr (f_ty (pf_fld pf)) = true) ->
  length vs = length fs ->
  (forall F, run_segs F (body_step e (sorted_fields fs) F) 0 its (map init_slot (sorted_fields fs)) (slots_of recV (sorted_fields fs) vs done)) ->
  (forall q, In q (sorted_fields fs) -> done q = false -> nilp vs q = true) ->
  rf_frame (rf_body_mt e) k its <> [] /\ nobrk (rf_frame (rf_body_mt e) k its) /\ nonnull (rf_frame (rf_body_mt e) k its) /\
  reads_f (dec_body c recD e sh fs) (rf_frame (rf_body_mt e) k its) (VList (dflt_fields recV fs vs)).
Proof.
  intros Hf El Hrun Hdone.
  assert (Hmt : rf_body_mt e = 4 \/ rf_body_mt e = 5) by (destruct e; [now left|now right]).
  pose proof (run_segs_len _ _ _ _ _ _ (Hrun 0%nat)) as Hle.
  split; [apply frame_nonempty|]. split; [apply frame_dt; auto using is_break_cases|]. split; [apply frame_dt; auto using is_null_cases|].
  intros fuel r p L Hfu HL Hp. unfold dec_body.
  rewrite (bind_ok _ _ _ _ _ (dec_statements_frame e _ k its _ fuel r p L (Hrun fuel) Hfu HL Hp)).
  rewrite (bind_ok _ _ _ _ _ (resolve_ok okty recV ntr d0 (is_named sh) fs vs done _ Hf El Hdone)). reflexivity.
Qed.

Lemma rf_fields_reads d0 e sh fs vs ch b ch' : fields_ok d0 fs = true -> fields_all okty fs -> fields_rt ntr fs = true ->
  rf_fields leaf recE e fs vs ch = Some (b, ch') ->
  b <> [] /\ nobrk b /\ nonnull b /\ reads_f (dec_body c recD e sh fs) b (VList (dflt_fields recV fs vs)).
Proof.
  unfold rf_fields. intros Hok Hall Hrt He.
  destruct (Nat.eqb (length vs) (length fs)) eqn:El; [|discriminate]. apply Nat.eqb_eq in El.
  set (sf := sorted_fields fs) in *.
  pose proof (sorted_fields_asc d0 fs Hok) as Hasc. fold sf in Hasc.
  assert (Hf : forall pf, In pf sf -> field_ok d0 (pf_fld pf) = true /\ f_skip (pf_fld pf) = false /\ fty_all okty (f_ty (pf_fld pf)) /\ fty_rt ntr (f_ty (pf_fld pf)) = true).
  { intros pf Hpf. apply in_sorted_fields in Hpf as [Hin Hs]. unfold fields_ok in Hok. apply andb_prop in Hok as [Hok _].
    rewrite forallb_forall in Hok. unfold fields_all in Hall. rewrite Forall_forall in Hall. unfold fields_rt in Hrt. rewrite forallb_forall in Hrt. auto. }
  assert (Hinit : map init_slot sf = slots_of recV sf vs (fun _ => false)) by reflexivity.
  destruct e.
  - unfold rf_as_array in He. destruct (max_index sf vs None) as [i|] eqn:Em.
    + apply rf_body_some in He as (k & ch1 & its & Hits & ->).
      apply max_index_some in Em as [[_ ?]|(l1 & pf & l2 & Esf & Hpn & Hpi & Hl2)]; [discriminate|].
      assert (Hpf : In pf sf) by (rewrite Esf; apply in_or_app; right; now left).
      apply (rf_framed_reads d0 AsArray sh fs vs k its (fun q => pf_idx q <? i + 1) Hf El).
      * intro F. fold sf. rewrite Hinit.
        rewrite (slots_of_ext recV sf vs (fun _ => false) (fun q => pf_idx q <? 0)) by (intros q _; symmetry; apply N.ltb_ge; lia).
        apply (arr_items_segs d0 sf vs F Hasc Hf i sf 0 ch1 its ch' Hasc (fun q Hq => Hq) (fun q Hq _ => Hq) ltac:(lia) (or_introl (ex_intro _ pf (conj Hpf Hpi))) Hits).
      * fold sf. intros q Hq Hd. apply N.ltb_ge in Hd. destruct (nilp vs q) eqn:Eq; [reflexivity|]. exfalso.
        rewrite Esf in Hq. apply in_app_or in Hq as [Hq|[<-|Hq]].
        -- rewrite Esf in Hasc. pose proof (asc_app_lt pf_idx 0 l1 pf l2 Hasc q Hq). lia.
        -- lia.
        -- rewrite forallb_forall in Hl2. specialize (Hl2 q Hq). congruence.
    + apply rf_body_some in He as (k & ch1 & its & Hits & ->). apply rf_ret_some in Hits as [-> _]. apply max_index_none in Em.
      apply (rf_framed_reads d0 AsArray sh fs vs k [] (fun _ => false) Hf El).
      * intro F. fold sf. rewrite Hinit. reflexivity.
      * fold sf. intros q Hq _. rewrite forallb_forall in Em. now apply Em.
  - unfold rf_as_map in He. apply rf_body_some in He as (k & ch1 & its & Hits & ->).
    apply (rf_framed_reads d0 AsMap sh fs vs k its (fun q => false || ((0 <=? pf_idx q) && negb (nilp vs q))) Hf El).
    + intro F. fold sf. rewrite Hinit.
      apply (map_items_segs d0 sf vs F Hasc Hf sf 0 0 (fun _ => false) ch1 its ch' Hasc (fun q Hq => Hq) (fun q Hq _ => Hq) Hits).
    + fold sf. intros q Hq Hd. cbn [orb] in Hd. destruct (N.leb_spec 0 (pf_idx q)); [|lia]. cbn [andb] in Hd. now apply negb_false_iff in Hd.
Qed.

(* ---- a whole definition ---- *)
Lemma skip_empty_frame mt k r p L : mt = 4 \/ mt = 5 -> p + len (rf_frame mt k []) <= L ->
  skip_auto c (mkdst p (rf_frame mt k [] ++ r) L) = (Ok tt, mkdst (p + len (rf_frame mt k [])) r L).
Proof.
  intros Hmt Hp. unfold rf_frame in *. destruct (5 <=? k).
  - destruct Hmt as [->| ->].
    + apply (skip_item c (EArrayI []) r p L); [reflexivity|destruct (c_alloc c); reflexivity|reflexivity|exact Hp].
    + apply (skip_item c (EMapI []) r p L); [reflexivity|destruct (c_alloc c); reflexivity|reflexivity|exact Hp].
  - assert (Hf : fits (rf_pick_width (len (@nil bytes)) k) 0 = true) by (apply fits_pick_width; reflexivity).
    assert (H64 : forall mt, len (Cbor.head mt (rf_pick_width (len (@nil bytes)) k) (len (@nil bytes)) ++ concat []) < 18446744073709551616).
    { intro m. rewrite len_app, len_ser_int. destruct (rf_pick_width (len (@nil bytes)) k); vm_compute; reflexivity. }
    destruct Hmt as [->| ->].
    + apply (skip_item c (EArray (rf_pick_width (len (@nil bytes)) k) []) r p L);
        [cbn [wf forallb]; rewrite andb_true_r; exact Hf|destruct (c_alloc c); reflexivity|apply H64|exact Hp].
    + apply (skip_item c (EMap (rf_pick_width (len (@nil bytes)) k) []) r p L);
        [cbn [wf forallb]; rewrite andb_true_r; exact Hf|destruct (c_alloc c); reflexivity|apply H64|exact Hp].
Qed.

Lemma dec_array_head w n r p L : fits w n = true -> p + len (Cbor.head 4 w n) <= L ->
  dec_array (mkdst p (Cbor.head 4 w n ++ r) L) = (Ok (Some n), mkdst (p + len (Cbor.head 4 w n)) r L).
Proof. intros Hf Hp. unfold dec_array. change 0x80 with (4 * 32). apply dec_container_head; [now left|assumption|assumption]. Qed.

Lemma rf_def_reads d df v ch b ch' : def_ok d df = true -> def_all okty df -> def_rt_local ntr df = true ->
  rf_def leaf recE df v ch = Some (b, ch') ->
  b <> [] /\ nobrk b /\ (def_ntr df = true -> nonnull b) /\ reads_f (dec_def c recD df) b (dflt_def recV df v).
Proof.
  destruct df as [e tag tr sh fs|e tag io vars]; intros Hok Hall Hrt He.
  - destruct v as [| | | | | | | |vs|]; try discriminate. cbn [rf_def dec_def dflt_def def_ok def_all def_rt_local def_ntr] in *.
    apply andb_prop in Hok as [Hok Htr]. apply andb_prop in Hok as [Hok _]. apply andb_prop in Hok as [Htag Hfs].
    destruct tr.
    + destruct tag; [discriminate|]. destruct fs as [|f [|? ?]]; try discriminate.
      unfold sorted_fields, active in *. cbn [with_pos filter pf_fld] in *. rewrite Htr in *. cbn [sort_by insert_by] in *.
      destruct vs as [|x [|? ?]]; try discriminate. apply negb_true_iff in Htr.
      unfold fields_ok in Hfs. apply andb_prop in Hfs as [Hfs _]. cbn [forallb] in Hfs. apply andb_prop in Hfs as [Hf _].
      unfold fields_all in Hall. apply Forall_inv in Hall. unfold fields_rt in Hrt. cbn [forallb] in Hrt. apply andb_prop in Hrt as [Hrt _].
      cbn [pf_fld] in He. change (pf_val [x] (mkpf 0 f)) with x in He.
      destruct (rf_field_fn_reads d f x ch b ch' Hf Htr Hall Hrt He) as (Hne & Hnb & Hrd). split; [assumption|]. split; [assumption|]. split; [discriminate|].
      intros fuel r p L Hfu HL Hp. cbn [dec_def]. unfold sorted_fields, active. cbn [with_pos filter pf_fld]. rewrite Htr.
      cbn [negb sort_by insert_by pf_fld]. rewrite (bind_ok _ _ _ _ _ (Hrd fuel r p L Hfu HL Hp)).
      cbn [dflt_fields]. rewrite Htr. reflexivity.
    + apply rf_cat_some in He as (tb & ch1 & y & Ht & Hy & ->).
      destruct (rf_fields_reads d (struct_encoding e) sh fs vs ch1 y ch' Hfs Hall Hrt Hy) as (Hne & Hnb & Hnn & Hrd).
      split; [intro E; apply app_eq_nil in E as [_ E]; contradiction|].
      split; [apply (dt_not_tagged _ _ _ _ _ _ Htag Ht is_break_cases Hnb)|].
      split; [intros _; apply (dt_not_tagged _ _ _ _ _ _ Htag Ht is_null_cases Hnn)|].
      intros fuel r p L Hfu HL Hp. cbn [dec_def]. rewrite <- app_assoc in *. rewrite len_app in Hp. rewrite app_length in Hfu.
      assert (Hp1 : p + len tb <= L) by lia.
      rewrite (bind_ok _ _ _ _ _ (dec_tag_check_rf tag tb ch ch1 (y ++ r) p L Htag Ht Hp1)).
      rewrite Hrd; [|lia|assumption|lia]. f_equal. f_equal. rewrite len_app. lia.
  - destruct v as [| | | | | | | | |i [| | | | | | | |vs|]]; try discriminate. cbn [rf_def dec_def dflt_def def_ok def_all def_rt_local def_ntr] in *.
    destruct (find_variant vars i) as [va|] eqn:Ef; [|discriminate].
    pose proof (find_variant_in _ _ _ Ef) as [Hin Hi].
    apply andb_prop in Hok as [Hok _]. apply andb_prop in Hok as [Hok Hvs]. apply andb_prop in Hok as [Htag Hio].
    rewrite forallb_forall in Hvs. specialize (Hvs va Hin).
    rewrite Forall_forall in Hall. specialize (Hall va Hin).
    rewrite forallb_forall in Hrt. specialize (Hrt va Hin).
    unfold variant_ok in Hvs. apply andb_prop in Hvs as [Hvs Hsh]. apply andb_prop in Hvs as [Hvs Hfs]. apply andb_prop in Hvs as [Hvi Hvt].
    apply N.leb_le in Hvi. rewrite Hi in Hvi. assert (Hi32 : i < 4294967296) by (unfold idx_max in Hvi; lia).
    assert (Hi64 : i < two64) by (unfold two64; lia).
    apply rf_cat_some in He as (tb & ch1 & y & Ht & Hy & ->).
    assert (Goal1 : y <> [] /\ nobrk y /\ nonnull y /\
       reads_f (fun fuel => (if io then ret tt else r <- dec_array ;; match r with Some n => if n =? 2 then ret tt else fail Message | None => fail Message end) ;;;
                  j <- dec_u32 ;;
                  match find_variant vars j with
                  | None => fail (UnknownVariant j)
                  | Some va0 =>
                      if is_unit (v_shape va0) then
                        if io then ret (VVar j (VList []))
                        else dec_tag_check (v_tag va0) ;;; skip_auto c ;;; ret (VVar j (VList []))
                      else dec_tag_check (v_tag va0) ;;; v0 <- dec_body c recD (variant_encoding e va0) (v_shape va0) (v_fields va0) fuel ;; ret (VVar j v0)
                  end) y (VVar i (VList (dflt_fields recV (v_fields va) vs)))).
    { assert (H2 : 2 < two64) by reflexivity.
      destruct (is_unit (v_shape va)) eqn:Eu.
      - destruct vs; [|discriminate]. destruct (v_fields va) eqn:Evf; [|discriminate]. destruct io.
        + apply rf_head_some in Hy as [k ->]. pose proof (fits_pick_width i k Hi64) as Hfi.
          split; [apply head_nonempty|]. split; [apply nobrk_head; [assumption|now left]|]. split; [apply nonnull_head; [assumption|now left]|].
          intros fuel r p L Hfu HL Hp. cbv iota. unfold bind at 1. unfold ret at 1.
          rewrite (bind_ok _ _ _ _ _ (dec_u32_head _ i r p L Hfi Hi32 Hp)). rewrite Ef, Eu. reflexivity.
        + apply rf_cat_some in Hy as (h2 & c2 & y2 & Hh2 & Hy & ->). apply rf_cat_some in Hy as (hi & c3 & y3 & Hhi & Hy & ->).
          apply rf_cat_some in Hy as (vt & c4 & fr & Hvtb & Hy & ->). apply rf_body_some in Hy as (k & c5 & its & Hits & ->).
          apply rf_ret_some in Hits as [-> _].
          apply rf_head_some in Hh2 as [k2 ->]. apply rf_head_some in Hhi as [ki ->].
          pose proof (fits_pick_width 2 k2 H2) as Hf2. pose proof (fits_pick_width i ki Hi64) as Hfi.
          split; [intro E; apply app_eq_nil in E as [E _]; now apply head_nonempty in E|].
          split; [apply dt_not_app, nobrk_head; [assumption|right; lia]|]. split; [apply dt_not_app, nonnull_head; [assumption|right; lia]|].
          intros fuel r p L Hfu HL Hp. rewrite <- !app_assoc in *. rewrite !len_app in Hp.
          set (mt := rf_body_mt (variant_encoding e va)) in *.
          assert (Hmt : mt = 4 \/ mt = 5) by (unfold mt; destruct (variant_encoding e va); [now left|now right]).
          assert (Hp1 : p + len (Cbor.head 4 (rf_pick_width 2 k2) 2) <= L) by lia.
          rewrite (bind_bind_ok _ _ _ _ _ _ (dec_array_head _ 2 _ p L Hf2 Hp1)). cbv beta iota. change (2 =? 2) with true. cbv iota.
          unfold bind at 1. cbn [ret].
          assert (Hp2 : p + len (Cbor.head 4 (rf_pick_width 2 k2) 2) + len (Cbor.head 0 (rf_pick_width i ki) i) <= L) by lia.
          rewrite (bind_ok _ _ _ _ _ (dec_u32_head _ i _ _ L Hfi Hi32 Hp2)). rewrite Ef, Eu.
          assert (Hp3 : p + len (Cbor.head 4 (rf_pick_width 2 k2) 2) + len (Cbor.head 0 (rf_pick_width i ki) i) + len vt <= L) by lia.
          rewrite (bind_ok _ _ _ _ _ (dec_tag_check_rf (v_tag va) vt c3 c4 _ _ L Hvt Hvtb Hp3)).
          assert (Hp4 : p + len (Cbor.head 4 (rf_pick_width 2 k2) 2) + len (Cbor.head 0 (rf_pick_width i ki) i) + len vt + len (rf_frame mt k []) <= L) by lia.
          rewrite (bind_ok _ _ _ _ _ (skip_empty_frame mt k r _ L Hmt Hp4)).
          unfold ret. f_equal. f_equal. rewrite !len_app. lia.
      - destruct io; [discriminate|].
        apply rf_cat_some in Hy as (h2 & c2 & y2 & Hh2 & Hy & ->). apply rf_cat_some in Hy as (hi & c3 & y3 & Hhi & Hy & ->).
        apply rf_cat_some in Hy as (vt & c4 & z & Hvtb & Hz & ->).
        apply rf_head_some in Hh2 as [k2 ->]. apply rf_head_some in Hhi as [ki ->].
        pose proof (fits_pick_width 2 k2 H2) as Hf2. pose proof (fits_pick_width i ki Hi64) as Hfi.
        destruct (rf_fields_reads d (variant_encoding e va) (v_shape va) (v_fields va) vs c4 z ch' Hfs Hall Hrt Hz) as (Hne & _ & _ & Hrd).
        split; [intro E; apply app_eq_nil in E as [E _]; now apply head_nonempty in E|].
        split; [apply dt_not_app, nobrk_head; [assumption|right; lia]|]. split; [apply dt_not_app, nonnull_head; [assumption|right; lia]|].
        intros fuel r p L Hfu HL Hp. rewrite <- !app_assoc in *. rewrite !len_app in Hp. rewrite !app_length in Hfu.
        assert (Hp1 : p + len (Cbor.head 4 (rf_pick_width 2 k2) 2) <= L) by lia.
        rewrite (bind_bind_ok _ _ _ _ _ _ (dec_array_head _ 2 _ p L Hf2 Hp1)). cbv beta iota. change (2 =? 2) with true. cbv iota.
        unfold bind at 1. cbn [ret].
        assert (Hp2 : p + len (Cbor.head 4 (rf_pick_width 2 k2) 2) + len (Cbor.head 0 (rf_pick_width i ki) i) <= L) by lia.
        rewrite (bind_ok _ _ _ _ _ (dec_u32_head _ i _ _ L Hfi Hi32 Hp2)). rewrite Ef, Eu.
        assert (Hp3 : p + len (Cbor.head 4 (rf_pick_width 2 k2) 2) + len (Cbor.head 0 (rf_pick_width i ki) i) + len vt <= L) by lia.
        rewrite (bind_ok _ _ _ _ _ (dec_tag_check_rf (v_tag va) vt c3 c4 _ _ L Hvt Hvtb Hp3)).
        assert (Hfu' : (length (z ++ r) < fuel)%nat) by (rewrite app_length; lia).
        assert (Hp4 : p + len (Cbor.head 4 (rf_pick_width 2 k2) 2) + len (Cbor.head 0 (rf_pick_width i ki) i) + len vt + len z <= L) by lia.
        rewrite (bind_ok _ _ _ _ _ (Hrd fuel r _ L Hfu' HL Hp4)).
        unfold ret. f_equal. f_equal. rewrite !len_app. lia. }
    destruct Goal1 as (Hne & Hnb & Hnn & Hrd).
    split; [intro E; apply app_eq_nil in E as [_ E]; contradiction|].
    split; [apply (dt_not_tagged _ _ _ _ _ _ Htag Ht is_break_cases Hnb)|].
    split; [intros _; apply (dt_not_tagged _ _ _ _ _ _ Htag Ht is_null_cases Hnn)|].
    intros fuel r p L Hfu HL Hp. cbn [dec_def]. rewrite <- app_assoc in *. rewrite len_app in Hp. rewrite app_length in Hfu.
    assert (Hp1 : p + len tb <= L) by lia.
    rewrite (bind_ok _ _ _ _ _ (dec_tag_check_rf tag tb ch ch1 (y ++ r) p L Htag Ht Hp1)).
    assert (Hfu' : (length (y ++ r) < fuel)%nat) by lia.
    assert (Hp2 : p + len tb + len y <= L) by lia.
    refine (eq_trans (Hrd fuel r _ L Hfu' HL Hp2) _). f_equal. f_equal. rewrite len_app. lia.
Qed.
End RfOk.

Section RfTop.
Variable c : cfg.
Variable okty : ty -> Prop.
Variable leaf : ty -> value -> RF bytes.
Hypothesis Hleaf : forall t, okty t -> forall v ch b ch', leaf t v ch = Some (b, ch') ->
  b <> [] /\ nobrk b /\ reads_f (decode_ty c t) b v.

Lemma gen_reframe_f_reads Sc : schema_ok Sc = true -> schema_all okty Sc -> schema_rt Sc = true ->
  forall k d v ch b ch', gen_reframe_f leaf k Sc d v ch = Some (b, ch') ->
  b <> [] /\ nobrk b /\ (non_transparent Sc d = true -> nonnull b) /\
  reads_f (gen_decode_f k c Sc d) b (default_skipped_f k Sc d v).
Proof.
  intros Hok Hall Hrt. induction k as [|k IH]; intros d v ch b ch'; cbn [gen_reframe_f gen_decode_f default_skipped_f]; [discriminate|].
  unfold non_transparent. destruct (nth_error Sc d) as [df|] eqn:En; [|discriminate]. intro He.
  assert (Hrt' : def_rt_local (non_transparent Sc) df = true).
  { unfold schema_rt in Hrt. rewrite forallb_forall in Hrt. specialize (Hrt df (nth_error_In _ _ En)). exact Hrt. }
  destruct (rf_def_reads c okty leaf Hleaf
              (fun d' v' => if Nat.ltb d' d then gen_reframe_f leaf k Sc d' v' else rf_fail)
              (fun d' fl => if Nat.ltb d' d then gen_decode_f k c Sc d' fl else out_of_fuel)
              (fun d' v' => if Nat.ltb d' d then default_skipped_f k Sc d' v' else v')
              (non_transparent Sc)) with (d := d) (df := df) (v := v) (ch := ch) (b := b) (ch' := ch') as (H1 & H2 & H3 & H4).
  - intros d' v' ch0 b0 ch1. destruct (Nat.ltb d' d); [apply IH|discriminate].
  - eapply schema_ok_nth; eassumption.
  - eapply schema_all_nth; eassumption.
  - exact Hrt'.
  - exact He.
  - split; [assumption|]. split; [assumption|]. split; [|exact H4]. intro Hn. apply H3. destruct df; exact Hn.
Qed.

(* C09 on re-framed input: whatever framing the choice list selects, the derived decoder returns the value (skipped
   fields defaulted) and stops exactly at the end of the re-framed encoding. *)
Theorem gen_reframe_roundtrip Sc d v ch bs ch' rest : schema_ok Sc = true -> schema_all okty Sc -> schema_rt Sc = true ->
  gen_reframe_f leaf (S d) Sc d v ch = Some (bs, ch') -> len (bs ++ rest) < two64 ->
  gen_decode c Sc d (start (bs ++ rest)) =
    (Ok (default_skipped Sc d v), mkdst (len bs) rest (len (bs ++ rest))).
Proof.
  intros Hok Hall Hrt He Hb. destruct (gen_reframe_f_reads Sc Hok Hall Hrt (S d) d v ch bs ch' He) as (_ & _ & _ & Hrd).
  unfold gen_decode, start, fuel_of. cbn [drest].
  rewrite Hrd; [reflexivity|lia|assumption|rewrite len_app; lia].
Qed.
End RfTop.

(* ---- the leaves as the encoder writes them (C01_roundtrip, C03_types, C04_datatype) ---- *)
Lemma rf_leaf_enc_reads c t : leaf_ok t -> forall v ch b ch', rf_leaf_enc t v ch = Some (b, ch') ->
  b <> [] /\ nobrk b /\ reads_f (decode_ty c t) b v.
Proof.
  intros Hl v ch b ch' H. unfold rf_leaf_enc in H. apply rf_lift_some in H.
  destruct (encode_ty t v) as [cs|] eqn:He; [|discriminate]. injection H as <-.
  destruct (leaf_reads c t Hl v cs He) as [Hne Hrd]. split; [assumption|]. split; [|assumption].
  destruct Hl as (_ & _ & Hnb). intros r p L HL Hp.
  assert (Hb : len (flat cs) < two64) by lia.
  destruct (types_wellformed t v cs Hnb He Hb) as (i & e & _ & E & Hwf & _). rewrite E.
  exists (spec_type e). split; [now apply datatype_spec|apply spec_type_not_break].
Qed.

Theorem reframe_roundtrip_closed Sc : schema_ok Sc = true -> schema_all leaf_ok Sc ->
  forall c d v cs bs rest, schema_rt Sc = true -> gen_encode Sc d v = Some cs -> reframe Sc d v bs -> len (bs ++ rest) < two64 ->
  gen_decode c Sc d (start (bs ++ rest)) =
    (Ok (default_skipped Sc d v), mkdst (len bs) rest (len (bs ++ rest))).
Proof.
  intros Hok Hall c d v cs bs rest Hrt _ [ch Hre] Hb. unfold reframe_with in Hre.
  destruct (gen_reframe_f rf_leaf_enc (S d) Sc d v ch) as [[b ch']|] eqn:E; [|discriminate]. injection Hre as ->.
  exact (gen_reframe_roundtrip c leaf_ok rf_leaf_enc (rf_leaf_enc_reads c) Sc d v ch bs ch' rest Hok Hall Hrt E Hb).
Qed.

(* ---- the empty choice list selects the encoder's own bytes ---- *)
Lemma pick_width_0 n : rf_pick_width n 0 = min_width n.
Proof. unfold rf_pick_width. change (rf_width_code 0) with W0. unfold min_width. cbn [fits]. destruct (n <? 24); reflexivity. Qed.

Lemma rf_head_nil mt n : rf_head mt n [] = Some (Cbor.head mt (min_width n) n, []).
Proof. unfold rf_head, rf_bind, rf_choice, rf_ret. now rewrite pick_width_0. Qed.

Lemma rf_tag_opt_nil t : tag_ok t = true -> rf_tag_opt t [] = Some (flat (enc_tag_opt t), []).
Proof.
  destruct t as [n|]; cbn [rf_tag_opt enc_tag_opt]; [|reflexivity]. intro H.
  rewrite rf_head_nil, flat_enc_tag by (now apply tag_ok_lt). reflexivity.
Qed.

Lemma rf_frame_0 mt its : rf_frame mt 0 its = Cbor.head mt (min_width (len its)) (len its) ++ concat its.
Proof. unfold rf_frame. change (5 <=? 0) with false. cbv iota. now rewrite pick_width_0. Qed.

Lemma rf_body_nil mt items its : items [] = Some (its, []) -> rf_body mt items [] = Some (rf_frame mt 0 its, []).
Proof. intro H. unfold rf_body, rf_bind, rf_choice. rewrite H. reflexivity. Qed.

Lemma rf_cat_nil a b x y : a [] = Some (x, []) -> b [] = Some (y, []) -> rf_cat a b [] = Some (x ++ y, []).
Proof. intros Ha Hb. unfold rf_cat, rf_bind. rewrite Ha, Hb. reflexivity. Qed.

Lemma concat_repeat_null k : concat (repeat [246] k) = flat (nulls (N.of_nat k)).
Proof.
  unfold nulls. rewrite Nat2N.id. induction k as [|k IH]; [reflexivity|].
  cbn [repeat concat]. rewrite IH. unfold flat. rewrite concat_app. reflexivity.
Qed.

Lemma asc_len_bound M : forall l p, asc pf_idx p l -> (forall q, In q l -> pf_idx q <= M) -> len l + p <= M + 1 \/ l = [].
Proof.
  induction l as [|x r IH]; intros p Hasc HM; [now right|]. left. cbn [asc] in Hasc. destruct Hasc as [H1 H2].
  rewrite len_cons. destruct (IH (pf_idx x + 1) H2 (fun q Hq => HM q (or_intror Hq))) as [H| ->].
  - lia.
  - change (len []) with 0. pose proof (HM x (or_introl eq_refl)). lia.
Qed.

Lemma asc_len_le M l p : asc pf_idx p l -> (forall q, In q l -> pf_idx q <= M) -> len l <= M + 1.
Proof. intros Ha HM. destruct (asc_len_bound M l p Ha HM) as [H| ->]; [lia|change (len []) with 0; lia]. Qed.

Lemma cnt_le vs l : cnt vs l <= len l.
Proof.
  unfold cnt. induction l as [|x r IH]; cbn [filter]; [apply N.le_refl|]. destruct (negb (nilp vs x)); rewrite ?len_cons; lia.
Qed.

Section Nil.
Variable recE : nat -> value -> option (list chunk).
Variable recR : nat -> value -> RF bytes.
Hypothesis Hrec : forall d v cs, recE d v = Some cs -> recR d v [] = Some (flat cs, []).

Lemma rf_all_nil (f : value -> option (list chunk)) (g : value -> RF bytes) : forall l cs, enc_all f l = Some cs ->
  (forall v cv, In v l -> f v = Some cv -> g v [] = Some (flat cv, [])) ->
  exists its, rf_all g l [] = Some (its, []) /\ concat its = flat cs.
Proof.
  induction l as [|v l IH]; intros cs He Hg; cbn [enc_all rf_all] in *.
  - injection He as <-. exists []. split; reflexivity.
  - apply ocat_some in He as (x & y & Hx & Hy & ->).
    destruct (IH y Hy (fun v' cv Hv => Hg v' cv (or_intror Hv))) as (its & Hi & Ec).
    exists (flat x :: its). unfold rf_bind. rewrite (Hg v x (or_introl eq_refl) Hx), Hi. split; [reflexivity|].
    cbn [concat]. now rewrite Ec, flat_app.
Qed.

Lemma rf_fty_nil f : forall v cs, enc_fty recE f v = Some cs -> rf_fty rf_leaf_enc recR f v [] = Some (flat cs, []).
Proof.
  induction f as [t|d|f' IH|f' IH]; intros v cs He.
  - cbn in *. unfold rf_leaf_enc, rf_lift. now rewrite He.
  - cbn in *. now apply Hrec.
  - destruct v; cbn in He; try discriminate; cbn [rf_fty].
    + injection He as <-. reflexivity.
    + now apply IH.
  - destruct v; cbn in He; try discriminate; cbn [rf_fty]. apply ocat3_some in He as (y & Hy & ->).
    destruct (rf_all_nil (enc_fty recE f') (rf_fty rf_leaf_enc recR f') l y Hy (fun v cv _ H => IH v cv H)) as (its & Hi & Ec).
    unfold rf_bind. rewrite Hi. unfold rf_ret. now rewrite Ec, flat_app.
Qed.

Lemma rf_field_fn_nil f v cs : enc_field_fn recE f v = Some cs -> rf_field_fn rf_leaf_enc recR f v [] = Some (flat cs, []).
Proof.
  unfold enc_field_fn, rf_field_fn. destruct (f_codec f); try apply rf_fty_nil.
  intro H. unfold rf_lift. now rewrite H.
Qed.

Section BodyNil.
Variable d0 : nat.
Variable vs : list value.
Variable sf : list pfield.
Hypothesis Hf : forall pf, In pf sf -> field_ok d0 (pf_fld pf) = true /\ f_skip (pf_fld pf) = false.

Lemma arr_items_nil i : forall l p cs, (forall q, In q l -> In q sf) -> asc pf_idx p l -> p <= i + 1 ->
  ((exists pf, In pf l /\ pf_idx pf = i) \/ i + 1 <= p) ->
  arr_stmts recE l vs p i = Some cs ->
  exists its, rf_arr_items rf_leaf_enc recR l vs p i [] = Some (its, []) /\ concat its = flat cs /\ len its = i + 1 - p.
Proof.
  induction l as [|pf l' IH]; intros p cs Hsub Hasc Hp Hlast; cbn [arr_stmts rf_arr_items].
  - intros [= <-]. exists []. destruct Hlast as [(q & [] & _)|Hp']. repeat split. change (len []) with 0. lia.
  - cbn [asc] in Hasc. destruct Hasc as [Hpp Hasc]. intro H. apply ocat_some in H as (x & y & Hx & Hy & ->).
    destruct (N.leb_spec (pf_idx pf) i) as [Hi|Hi].
    + apply ocat3_some in Hx as (z & Hz & ->).
      assert (Hlast' : (exists q, In q l' /\ pf_idx q = i) \/ i + 1 <= pf_idx pf + 1).
      { destruct Hlast as [(q & [<-|Hq] & Hqi)|Hp']; [right; lia|left; eauto|right; lia]. }
      destruct (IH (pf_idx pf + 1) y (fun q Hq => Hsub q (or_intror Hq)) Hasc ltac:(lia) Hlast' Hy) as (rest & Hr & Ec & El).
      destruct (Hf pf (Hsub pf (or_introl eq_refl))) as [F1 F2].
      eexists. unfold rf_bind. rewrite (rf_tag_opt_nil _ (field_tag_ok d0 _ F1 F2)), (rf_field_fn_nil _ _ _ Hz), Hr. unfold rf_ret.
      split; [reflexivity|]. split.
      * rewrite concat_app. cbn [concat]. rewrite concat_repeat_null, Ec, N2Nat.id, !flat_app, <- !app_assoc. reflexivity.
      * rewrite len_app, len_repeat, len_cons, El. lia.
    + injection Hx as <-. cbn [app].
      assert (Hp' : p = i + 1).
      { destruct Hlast as [(q & [<-|Hq] & Hqi)|Hp']; [lia| |lia]. pose proof (asc_keys_ge pf_idx _ _ _ Hasc Hq). lia. }
      subst p. assert (Hi' : i < pf_idx pf + 1) by lia.
      assert (y = []) by (apply (arr_stmts_beyond recE vs i l' (pf_idx pf + 1) y Hasc Hi' Hy)). subst y.
      exists []. repeat split. change (len []) with 0. lia.
Qed.

Lemma map_items_nil : forall l cs, (forall q, In q l -> In q sf) -> enc_map_stmts recE l vs = Some cs ->
  exists its, rf_map_items rf_leaf_enc recR l vs [] = Some (its, []) /\ concat its = flat cs /\ len its = cnt vs l /\ len its <= len (flat cs).
Proof.
  induction l as [|pf l' IH]; intros cs Hsub; cbn [enc_map_stmts rf_map_items].
  - intros [= <-]. exists []. repeat split. apply N.le_refl.
  - intro H. apply ocat_some in H as (x & y & Hx & Hy & ->).
    destruct (IH y (fun q Hq => Hsub q (or_intror Hq)) Hy) as (rest & Hr & Ec & El & Hle).
    unfold cnt in *. cbn [filter]. fold (nilp vs pf) in *. destruct (nilp vs pf) eqn:En; cbn [negb].
    + injection Hx as <-. exists rest. cbn [app]. repeat split; assumption.
    + apply ocat3_some in Hx as (z & Hz & ->).
      destruct (Hf pf (Hsub pf (or_introl eq_refl))) as [F1 F2].
      assert (Hidx : pf_idx pf < 4294967296).
      { unfold field_ok in F1. rewrite F2 in F1. apply andb_prop in F1 as [_ F1]. apply andb_prop in F1 as [F1 _].
        apply andb_prop in F1 as [F1 _]. apply andb_prop in F1 as [F1 _]. apply N.leb_le in F1. unfold idx_max, pf_idx in *. lia. }
      eexists. unfold rf_bind. rewrite rf_head_nil, (rf_tag_opt_nil _ (field_tag_ok d0 _ F1 F2)), (rf_field_fn_nil _ _ _ Hz), Hr. unfold rf_ret.
      split; [reflexivity|]. split; [|split].
      * cbn [concat]. rewrite Ec, !flat_app, <- !app_assoc, flat_enc_u32 by assumption. reflexivity.
      * rewrite !len_cons, El. reflexivity.
      * rewrite len_cons, !len_flat_app, len_enc_u32. assert (1 <= len_u32 (pf_idx pf)) by (unfold len_u32; repeat match goal with |- context [if ?a then _ else _] => destruct a end; lia). lia.
Qed.
End BodyNil.

Lemma rf_fields_nil d0 e fs vs cs : fields_ok d0 fs = true -> enc_fields recE e fs vs = Some cs ->
  rf_fields rf_leaf_enc recR e fs vs [] = Some (flat cs, []).
Proof.
  unfold enc_fields, rf_fields. intros Hok He. destruct (Nat.eqb (length vs) (length fs)); [|discriminate].
  set (sf := sorted_fields fs) in *.
  pose proof (sorted_fields_asc d0 fs Hok) as Hasc. fold sf in Hasc.
  assert (Hf : forall pf, In pf sf -> field_ok d0 (pf_fld pf) = true /\ f_skip (pf_fld pf) = false).
  { intros pf Hpf. apply in_sorted_fields in Hpf as [Hin Hs]. unfold fields_ok in Hok. apply andb_prop in Hok as [Hok _].
    rewrite forallb_forall in Hok. auto. }
  destruct e.
  - unfold enc_as_array, rf_as_array in *. destruct (max_index sf vs None) as [i|] eqn:Em.
    + apply ocat3_some in He as (y & Hy & ->). rewrite enc_array_stmts_eq in Hy.
      apply max_index_some in Em as [[_ ?]|(l1 & pf & l2 & Esf & Hpn & Hpi & Hl2)]; [discriminate|].
      assert (Hpf : In pf sf) by (rewrite Esf; apply in_or_app; right; now left).
      destruct (arr_items_nil d0 vs sf Hf i sf 0 y (fun q Hq => Hq) Hasc ltac:(lia) (or_introl (ex_intro _ pf (conj Hpf Hpi))) Hy) as (its & Hi & Ec & El).
      rewrite (rf_body_nil 4 _ its Hi), rf_frame_0, El, N.sub_0_r, Ec, flat_app.
      rewrite flat_enc_array; [reflexivity|].
      destruct (Hf pf Hpf) as [F1 F2]. unfold field_ok in F1. rewrite F2 in F1. apply andb_prop in F1 as [_ F1]. apply andb_prop in F1 as [F1 _].
      apply andb_prop in F1 as [F1 _]. apply andb_prop in F1 as [F1 _]. apply N.leb_le in F1. unfold idx_max, pf_idx, two64 in *. lia.
    + injection He as <-. rewrite (rf_body_nil 4 _ [] eq_refl). reflexivity.
  - unfold enc_as_map, rf_as_map in *. apply ocat3_some in He as (y & Hy & ->).
    pose proof (max_fields_cnt vs sf 0) as Hm. rewrite !N.add_0_l in Hm. rewrite Hm in *.
    destruct (map_items_nil d0 vs sf Hf sf y (fun q Hq => Hq) Hy) as (its & Hi & Ec & El & Hle).
    rewrite (rf_body_nil 5 _ its Hi), rf_frame_0, El, Ec, flat_app.
    rewrite flat_enc_map; [reflexivity|].
    assert (Hidx : forall q, In q sf -> pf_idx q <= idx_max).
    { intros q Hq. destruct (Hf q Hq) as [F1 F2]. unfold field_ok in F1. rewrite F2 in F1. apply andb_prop in F1 as [_ F1]. apply andb_prop in F1 as [F1 _].
      apply andb_prop in F1 as [F1 _]. apply andb_prop in F1 as [F1 _]. now apply N.leb_le in F1. }
    pose proof (cnt_le vs sf) as Hc. pose proof (asc_len_le idx_max sf 0 Hasc Hidx) as Hlen. unfold idx_max, two64 in *. lia.
Qed.

Lemma rf_def_nil d df v cs : def_ok d df = true -> enc_def recE df v = Some cs -> rf_def rf_leaf_enc recR df v [] = Some (flat cs, []).
Proof.
  destruct df as [e tag tr sh fs|e tag io vars]; intros Hok He.
  - destruct v as [| | | | | | | |vs|]; try discriminate. cbn [enc_def rf_def def_ok] in *.
    apply andb_prop in Hok as [Hok Htr]. apply andb_prop in Hok as [Hok _]. apply andb_prop in Hok as [Htag Hfs].
    destruct tr.
    + destruct (sorted_fields fs) as [|pf [|? ?]]; try discriminate. destruct vs as [|x [|? ?]]; try discriminate.
      now apply rf_field_fn_nil.
    + apply ocat3_some in He as (y & Hy & ->). rewrite flat_app.
      apply rf_cat_nil; [now apply rf_tag_opt_nil|]. now apply (rf_fields_nil d).
  - destruct v as [| | | | | | | | |i [| | | | | | | |vs|]]; try discriminate. cbn [enc_def rf_def def_ok] in *.
    destruct (find_variant vars i) as [va|] eqn:Ef; [|discriminate].
    pose proof (find_variant_in _ _ _ Ef) as [Hin Hi].
    apply andb_prop in Hok as [Hok _]. apply andb_prop in Hok as [Hok Hvs]. apply andb_prop in Hok as [Htag Hio].
    rewrite forallb_forall in Hvs. specialize (Hvs va Hin).
    unfold variant_ok in Hvs. apply andb_prop in Hvs as [Hvs Hsh]. apply andb_prop in Hvs as [Hvs Hfs]. apply andb_prop in Hvs as [Hvi Hvt].
    apply N.leb_le in Hvi. rewrite Hi in Hvi. assert (Hi32 : i < 4294967296) by (unfold idx_max in Hvi; lia).
    apply ocat3_some in He as (y & Hy & ->). rewrite flat_app.
    apply rf_cat_nil; [now apply rf_tag_opt_nil|].
    assert (H2 : rf_head 4 2 [] = Some (flat (enc_array 2), [])) by reflexivity.
    assert (Hidx : rf_head 0 i [] = Some (flat (enc_u32 i), [])) by (rewrite rf_head_nil, flat_enc_u32 by assumption; reflexivity).
    destruct (is_unit (v_shape va)).
    + destruct vs; [|discriminate]. destruct io.
      * injection Hy as <-. exact Hidx.
      * apply (f_equal (fun o => match o with Some x => x | None => [] end)) in Hy. cbv beta iota in Hy. subst y. rewrite !flat_app.
        apply rf_cat_nil; [exact H2|]. apply rf_cat_nil; [exact Hidx|]. apply rf_cat_nil; [now apply rf_tag_opt_nil|].
        destruct (variant_encoding e va); reflexivity.
    + destruct io; [discriminate|]. apply ocat3_some in Hy as (z & Hz & ->). rewrite !flat_app, <- !app_assoc.
      apply rf_cat_nil; [exact H2|]. apply rf_cat_nil; [exact Hidx|]. apply rf_cat_nil; [now apply rf_tag_opt_nil|].
      now apply (rf_fields_nil d).
Qed.
End Nil.

Lemma gen_reframe_f_nil Sc : schema_ok Sc = true -> forall k d v cs, gen_encode_f k Sc d v = Some cs ->
  gen_reframe_f rf_leaf_enc k Sc d v [] = Some (flat cs, []).
Proof.
  intro Hok. induction k as [|k IH]; intros d v cs; cbn [gen_encode_f gen_reframe_f]; [discriminate|].
  destruct (nth_error Sc d) as [df|] eqn:En; [|discriminate]. intro He.
  apply (rf_def_nil (fun d' v' => if Nat.ltb d' d then gen_encode_f k Sc d' v' else None)
                    (fun d' v' => if Nat.ltb d' d then gen_reframe_f rf_leaf_enc k Sc d' v' else rf_fail)) with (d := d).
  - intros d' v' cs'. destruct (Nat.ltb d' d); [apply IH|discriminate].
  - eapply schema_ok_nth; eassumption.
  - exact He.
Qed.

(* the encoder's own bytes are a re-framing: the one the empty choice list selects *)
Theorem reframe_nil Sc d v cs : schema_ok Sc = true -> gen_encode Sc d v = Some cs -> reframe_with [] Sc d v = Some (flat cs).
Proof. intros Hok He. unfold reframe_with. now rewrite (gen_reframe_f_nil Sc Hok (S d) d v cs He). Qed.

Corollary reframe_refl Sc d v cs : schema_ok Sc = true -> gen_encode Sc d v = Some cs -> reframe Sc d v (flat cs).
Proof. intros Hok He. exists []. now apply reframe_nil. Qed.

Lemma reframe_canonical Sc d v cs : schema_ok Sc = true -> gen_encode Sc d v = Some cs ->
  reframe_with [] Sc d v = Some (flat cs) /\ reframe Sc d v (flat cs).
Proof. intros H1 H2. split; [exact (reframe_nil Sc d v cs H1 H2)|exact (reframe_refl Sc d v cs H1 H2)]. Qed.

(* ---- re-framed leaves: any well-formed item the specification of the built-in types reads as v (C04_types_lenient) ---- *)
Lemma rf_leaf_item_reads c t v b : leaf_ok t -> rf_leaf_item (c_alloc c) t v b ->
  b <> [] /\ nobrk b /\ reads_f (decode_ty c t) b v.
Proof.
  intros Hl [(cs & He & ->)|(e & -> & Hwf & Hs)].
  - apply (rf_leaf_enc_reads c t Hl v [] (flat cs) []). unfold rf_leaf_enc, rf_lift. now rewrite He.
  - destruct Hl as (_ & _ & Hnb). rewrite whole_no_bare in Hnb.
    split; [destruct (CborFacts.ser_nonempty e) as (x & r & ->); discriminate|].
    split; [intros r p L _ _; exists (spec_type e); split; [now apply datatype_spec|apply spec_type_not_break]|].
    intros fuel r p L Hfu HL Hp.
    assert (H64 : len (ser e) < 18446744073709551616) by (unfold two64 in HL; lia).
    pose proof (types_agree_whole c t e r p L fuel Hnb Hwf Hp H64 Hfu) as Hag. rewrite Hs in Hag. exact Hag.
Qed.

Theorem reframe_leaves_roundtrip Sc : schema_ok Sc = true -> schema_all leaf_ok Sc ->
  forall c d v bs rest, schema_rt Sc = true -> reframe_leaves (c_alloc c) Sc d v bs -> len (bs ++ rest) < two64 ->
  gen_decode c Sc d (start (bs ++ rest)) =
    (Ok (default_skipped Sc d v), mkdst (len bs) rest (len (bs ++ rest))).
Proof.
  intros Hok Hall c d v bs rest Hrt (leaf & ch & ch' & Hw & Hre) Hb.
  apply (gen_reframe_roundtrip c leaf_ok leaf) with (ch := ch) (ch' := ch'); try assumption.
  intros t Ht v0 ch0 b ch1 Hl. apply (rf_leaf_item_reads c t v0 b Ht). exact (Hw t v0 ch0 b ch1 Hl).
Qed.

(* it contains `reframe` (leaves as written) *)
Lemma rf_leaf_enc_writer alloc : rf_leaf_writer alloc rf_leaf_enc.
Proof.
  intros t v ch b ch' H. left. unfold rf_leaf_enc in H. apply rf_lift_some in H.
  destruct (encode_ty t v) as [cs|]; [|discriminate]. injection H as <-. eauto.
Qed.

Lemma reframe_in_leaves alloc Sc d v bs : reframe Sc d v bs -> reframe_leaves alloc Sc d v bs.
Proof.
  intros [ch H]. unfold reframe_with in H. destruct (gen_reframe_f rf_leaf_enc (S d) Sc d v ch) as [[b ch']|] eqn:E; [|discriminate].
  injection H as ->. exists rf_leaf_enc, ch, ch'. split; [apply rf_leaf_enc_writer|exact E].
Qed.

(* with feature alloc the encoder's own leaf is itself an item the specification reads as v (C04_types_roundtrip_consistent):
   the first alternative of rf_leaf_item is then an instance of the second *)
Lemma rf_leaf_enc_is_item t v cs : leaf_ok t -> encode_ty t v = Some cs -> len (flat cs) < two64 ->
  exists e, flat cs = ser e /\ wf e = true /\ spec_ty_lenient_at true t e = TXOk v (len (ser e)).
Proof.
  intros (Hok & Hrt & Hnb) He Hb. destruct (types_wellformed t v cs Hnb He Hb) as (i & e & _ & E & Hwf & _).
  exists e. split; [assumption|]. split; [assumption|].
  assert (Hw : whole_ty t = true) by (now rewrite <- whole_no_bare).
  assert (H64 : len (ser e) < 18446744073709551616) by (rewrite <- E; exact Hb).
  destruct (types_roundtrip_spec t v cs e Hok Hrt Hw He E Hwf H64) as [Hh Hs].
  unfold spec_ty, spec_ty_at in Hs. now rewrite Hh in Hs.
Qed.

(* the wide-integer leaf writer is one *)
Lemma rf_leaf_wide_writer alloc : rf_leaf_writer alloc rf_leaf_wide.
Proof.
  intros t v ch b ch' H.
  destruct t; try (apply (rf_leaf_enc_writer alloc _ v ch b ch'); exact H).
  destruct v; try (apply (rf_leaf_enc_writer alloc _ _ ch b ch'); exact H).
  cbn [rf_leaf_wide] in H. destruct (N.leb_spec n (umax w)) as [Hn|Hn]; [|discriminate].
  apply rf_head_some in H as [k ->]. right. exists (EUInt (rf_pick_width n k) n).
  assert (H64 : n < two64) by (unfold two64; destruct w; cbn [umax] in Hn; lia).
  split; [reflexivity|]. split; [cbn [wf]; now apply fits_pick_width|].
  unfold spec_ty_lenient_at. cbn [sem_ty consumed_ty]. unfold ts_uint, ts_int. cbn [Acc.int_value]. unfold Acc.in_range.
  destruct (Z.leb_spec 0 (Z.of_N n)); [|lia]. destruct (Z.leb_spec (Z.of_N n) (Z.of_N (umax w))); [|lia].
  cbn [andb ts_map]. now rewrite N2Z.id.
Qed.
