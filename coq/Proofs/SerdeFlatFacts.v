(* Proofs/SerdeFlatFacts.v — structs with #[serde(flatten)] fields on the bridge's own output: the derived
   visit_map's key loop (known, non-flattened fields are read directly, everything else is buffered through
   deserialize_any), then FlatMapDeserializer: FlatStructAccess claims the entries of each flattened struct
   (re-read through ContentDeserializer), FlatMapAccess gives a flattened map every unclaimed entry (re-read
   through ContentRefDeserializer); and the round trip assembled over every constructor of shape. *)
From MC Require Import Bytes BytesFacts Monad Cbor Utf8 Half Encoder Methods EncoderFacts Decoder DecoderFacts IntFacts
  Types Serde SerdeDoc SerdeCont SerdeAny SerdeFacts SerdeRtFacts SerdeAnyHeadFacts SerdeContentFacts SerdeBufFacts SerdeAnyRtFacts
  SerdeAdjFacts.
From Coq Require Import Lia.
Local Open Scope N_scope.

(* ---- names ---- *)
Fixpoint dnames (l : list (bytes * (bool * shape))) : list bytes :=
  match l with
  | [] => []
  | (n, (false, _)) :: r => n :: dnames r
  | _ :: r => dnames r
  end.

Lemma dnames_flat l x : In x (dnames l) -> In x (flat_names l).
Proof.
  induction l as [|[n [[|] s]] r IH]; cbn [dnames flat_names]; intro H; [contradiction| |].
  - destruct s; try (now apply IH). apply in_or_app. right. now apply IH.
  - destruct H as [->|H]; [now left|right; now apply IH].
Qed.

Lemma flat_names_app a b : flat_names (a ++ b) = flat_names a ++ flat_names b.
Proof.
  induction a as [|[n [[|] s]] r IH]; [reflexivity| |].
  - cbn [app flat_names]. destruct s; try exact IH. now rewrite IH, app_assoc.
  - cbn [app flat_names]. now rewrite IH.
Qed.

Lemma dnames_app a b : dnames (a ++ b) = dnames a ++ dnames b.
Proof.
  induction a as [|[n [[|] s]] r IH]; [reflexivity|exact IH|]. cbn [app dnames]. now rewrite IH.
Qed.

Lemma existsb_beq_true n l : In n l -> existsb (beq n) l = true.
Proof. intro H. apply existsb_exists. exists n. split; [exact H|apply beq_refl]. Qed.

Lemma nd_app a b : names_distinct (a ++ b) = true ->
  names_distinct a = true /\ names_distinct b = true /\ (forall x, In x a -> In x b -> False).
Proof.
  induction a as [|n a IH]; intro H; [repeat split; [exact H|intros x []]|].
  cbn [app names_distinct] in H. apply andb_prop in H as [H1 H2]. apply negb_true_iff in H1.
  rewrite existsb_app in H1. apply orb_false_elim in H1 as [H1a H1b].
  destruct (IH H2) as (Ha & Hb & Hd). repeat split.
  - cbn [names_distinct]. now rewrite H1a, Ha.
  - exact Hb.
  - intros x [->|Hx] Hxb; [|now apply (Hd x)]. now rewrite (existsb_beq_true x b Hxb) in H1b.
Qed.

Lemma existsb_beq_notin n l : ~ In n l -> existsb (beq n) l = false.
Proof.
  intro H. destruct (existsb (beq n) l) eqn:E; [|reflexivity]. exfalso. apply H.
  apply existsb_exists in E as (x & Hx & Ex). apply beq_true in Ex. now subst.
Qed.

(* ---- the key loop: lookups ---- *)
Definition fldec (c : cfg) (fuel : nat) (p : bytes * (bool * shape)) : bytes * (bool * M sval) :=
  let (n, q) := p in let (fl, s) := q in (n, (fl, de_s c s fuel)).

Lemma find_direct_none c fuel name fs : ~ In name (dnames fs) -> forall k, find_direct name (map (fldec c fuel) fs) k = None.
Proof.
  induction fs as [|[n [[|] s]] r IH]; intros H k; [reflexivity| |]; cbn [map fldec find_direct negb andb].
  - apply IH. exact H.
  - cbn [dnames] in H. destruct (beq name n) eqn:E.
    + exfalso. apply H. left. symmetry. now apply beq_true.
    + apply IH. intro Hin. apply H. now right.
Qed.

Lemma find_direct_at c fuel pre n s suf : ~ In n (dnames pre) -> forall k,
  find_direct n (map (fldec c fuel) (pre ++ (n, (false, s)) :: suf)) k = Some ((k + length pre)%nat, de_s c s fuel).
Proof.
  induction pre as [|[m [[|] t]] r IH]; intros H k; cbn [app map fldec find_direct negb andb length].
  - rewrite beq_refl. now rewrite Nat.add_0_r.
  - rewrite (IH H (S k)). do 2 f_equal. lia.
  - cbn [dnames] in H. destruct (beq n m) eqn:E.
    + exfalso. apply H. left. symmetry. now apply beq_true.
    + rewrite (IH ltac:(intro Hin; apply H; now right) (S k)). do 2 f_equal. lia.
Qed.

(* ---- the key loop: one entry ---- *)
Lemma fl_step_direct c ds name i d x bv tl slots acc f r :
  str_ok name = true -> find_direct name ds 0 = Some (i, d) -> nth_error slots i = Some None -> reads d bv x ->
  reads (flat_loop c ds None f (set_nth slots i (Some x)) acc) tl r ->
  reads (flat_loop c ds None (S f) slots acc) (flat (enc_str name) ++ bv ++ tl) r.
Proof.
  intros Hn Hfi Hnth Hd Hk. cbn [flat_loop].
  apply reads_bind with (Some name).
  { apply (next_key_more dec_str None 0); [exact I|now apply reads_str|apply no_break_str; now apply str_ok_len]. }
  cbv iota beta. rewrite Hfi, Hnth.
  apply reads_bind with (x, None); [apply (next_value_more d None 0); [exact I|exact Hd]|].
  cbn [fst snd]. exact Hk.
Qed.

Lemma fl_step_buf c ds name cx bv tl slots acc f r :
  str_ok name = true -> find_direct name ds 0 = None -> reads (de_content c (S f)) bv cx ->
  reads (flat_loop c ds None f slots ((CStr false name, cx) :: acc)) tl r ->
  reads (flat_loop c ds None (S f) slots acc) (flat (enc_str name) ++ bv ++ tl) r.
Proof.
  intros Hn Hfi Hd Hk. cbn [flat_loop].
  apply reads_bind with (Some name).
  { apply (next_key_more dec_str None 0); [exact I|now apply reads_str|apply no_break_str; now apply str_ok_len]. }
  cbv iota beta. rewrite Hfi.
  apply reads_bind with (cx, None); [apply (next_value_more _ None 0); [exact I|exact Hd]|].
  cbn [fst snd]. exact Hk.
Qed.

Lemma fl_done c ds slots acc f : reads (flat_loop c ds None (S f) slots acc) [255] (slots, rev acc).
Proof.
  cbn [flat_loop]. rewrite <- (app_nil_r [255]).
  apply reads_bind with None; [exact (next_key_done dec_str None I)|apply reads_ret].
Qed.

(* ---- keys that are written as text ---- *)
Lemma key_text_ser c k : forall b y, key_text k = Some b -> sval_ok k = true -> ser_s c k = Some y ->
  flat y = flat (enc_str b) /\ str_ok b = true /\ cont_of k = CStr false b.
Proof.
  unfold key_text. induction k using sval_ind'; intros b0 y Hk Hok Hs; cbn [cont_of] in Hk; try discriminate Hk;
    cbn [sval_ok ser_s cont_of] in *.
  - unfold cont_int in Hk. destruct (0 <=? z)%Z; discriminate Hk.
  - injection Hk as <-. injection Hs as <-. now repeat split.
  - injection Hk as <-. destruct (c_alloc c); [|discriminate Hs]. injection Hs as <-. now repeat split.
  - now apply IHk.
  - injection Hk as <-. injection Hs as <-. apply andb_prop in Hok as [Hok _]. now repeat split.
  - now apply IHk.
Qed.

(* ---- buffered entries: keys and values alternating ---- *)
Fixpoint cpairs (l : list sval) : list (content * content) :=
  match l with k :: v :: r => (cont_of k, cont_of v) :: cpairs r | _ => [] end.

Lemma fl_buf_entries c ds : forall m mine css, (length mine <= m)%nat -> Nat.even (length mine) = true ->
  forallb sval_ok mine = true -> Forall2 (fun x y => ser_s c x = Some y) mine css ->
  (forall key, In key (alt_keys mine) -> exists b, key_text key = Some b /\ find_direct b ds 0 = None) ->
  forall slots acc tl r,
  (forall lf', (length tl < lf')%nat -> reads (flat_loop c ds None lf' slots (rev (cpairs mine) ++ acc)) tl r) ->
  forall lf, (length (flat (concat css) ++ tl) < lf)%nat ->
  reads (flat_loop c ds None lf slots acc) (flat (concat css) ++ tl) r.
Proof.
  induction m as [|m IH]; intros mine css Hm He Hok H2 Hkeys slots acc tl r Hk lf Hf.
  - destruct mine; [|cbn in Hm; lia]. inversion H2; subst. cbn [concat flat app cpairs rev] in *. now apply Hk.
  - inversion H2 as [|k yk l1 css1 Hsk H1]; subst; [cbn [concat flat app cpairs rev] in *; now apply Hk|].
    inversion H1 as [|v yv l2 css2 Hsv H2']; subst; [discriminate He|].
    cbn [forallb] in Hok. apply andb_prop in Hok as [Hokk Hok]. apply andb_prop in Hok as [Hokv Hok].
    destruct (Hkeys k ltac:(now left)) as (b & Hkt & Hfi).
    destruct (key_text_ser c k b yk Hkt Hokk Hsk) as (Eb & Hb & Ec).
    cbn [concat] in *. rewrite !flat_app, <- !app_assoc in *. rewrite Eb in *. rewrite !app_length in Hf.
    pose proof (no_break_cons_nonempty _ (no_break_str b (str_ok_len b Hb))) as Hne.
    pose proof (no_break_cons_nonempty _ (no_break_ser c v yv Hokv Hsv)) as Hnv.
    destruct lf as [|f]; [lia|].
    apply fl_step_buf with (cx := cont_of v); [exact Hb|exact Hfi|apply (de_content_rt c v (S f) yv Hokv Hsv); lia|].
    apply (IH l2 css2); try assumption.
    + cbn in Hm. lia.
    + intros key Hin. apply Hkeys. now right.
    + intros lf' Hlf'. cbn [cpairs rev] in Hk. rewrite Ec in Hk. rewrite <- app_assoc in Hk. now apply Hk.
    + rewrite app_length. lia.
Qed.

(* ---- the written entries of a flattened struct ---- *)
Definition sentries (vs : list (bytes * sval)) : list sval := flat_map (fun p : bytes * sval => [SStr (fst p); snd p]) vs.

Lemma ent_b_split f ifs : forall es es', ent_b f ifs es = Some es' ->
  exists vs, es = sentries vs ++ es' /\
    Forall2 (fun (p : bytes * shape) (q : bytes * sval) => fst p = fst q /\ f (snd p) (snd q) = true) ifs vs.
Proof.
  induction ifs as [|[n s] r IH]; intros es es' H; cbn [ent_b] in H.
  - injection H as <-. exists []. split; [reflexivity|constructor].
  - destruct es as [|k l]; [discriminate H|]. destruct k; try discriminate H. destruct l as [|x es0]; [discriminate H|].
    destruct (beq n b && f s x) eqn:E; [|discriminate H]. apply andb_prop in E as [E1 E2]. apply beq_true in E1. subst b.
    destruct (IH _ _ H) as (vs & -> & H2). exists ((n, x) :: vs). split; [reflexivity|].
    constructor; [split; [reflexivity|exact E2]|exact H2].
Qed.

Lemma ent_b_det f g ifs : forall es e1 e2, ent_b f ifs es = Some e1 -> ent_b g ifs es = Some e2 -> e1 = e2.
Proof.
  induction ifs as [|[n s] r IH]; intros es e1 e2 H1 H2; cbn [ent_b] in *; [congruence|].
  destruct es as [|k l]; [discriminate H1|]. destruct k; try discriminate H1. destruct l as [|x es0]; [discriminate H1|].
  destruct (beq n b && f s x); [|discriminate H1]. destruct (beq n b && g s x); [|discriminate H2]. now apply (IH es0).
Qed.

Lemma length_sentries vs : length (sentries vs) = (2 * length vs)%nat.
Proof. unfold sentries. induction vs as [|p r IH]; [reflexivity|]. cbn [flat_map app length]. rewrite IH. lia. Qed.

Lemma firstn_skipn_exact {A} (a b : list A) n : length a = n -> firstn n (a ++ b) = a /\ skipn n (a ++ b) = b.
Proof.
  revert n. induction a as [|x a IH]; intros n H; subst n; [split; reflexivity|].
  cbn [length app firstn skipn]. destruct (IH (length a) eq_refl) as [H1 H2]. now rewrite H1, H2.
Qed.

Lemma cpairs_sentries_app vs b : cpairs (sentries vs ++ b) = cpairs (sentries vs) ++ cpairs b.
Proof. unfold sentries. induction vs as [|p r IH]; [reflexivity|]. cbn [flat_map app cpairs]. now rewrite IH. Qed.

Lemma alt_keys_sentries vs : alt_keys (sentries vs) = map (fun p : bytes * sval => SStr (fst p)) vs.
Proof. unfold sentries. induction vs as [|p r IH]; [reflexivity|]. cbn [flat_map app alt_keys map]. now rewrite IH. Qed.

Lemma map_cont_sentries vs : map cont_of (sentries vs) = cfields vs.
Proof. unfold sentries. induction vs as [|[k x] r IH]; [reflexivity|]. cbn [flat_map app map cfields cont_of fst snd]. now rewrite IH. Qed.

Lemma Forall2_fst {B C} (R : B -> C -> Prop) (l : list (bytes * B)) (m : list (bytes * C)) :
  Forall2 (fun p q => fst p = fst q /\ R (snd p) (snd q)) l m -> map fst l = map fst m.
Proof. induction 1 as [|p q l m [H _] _ IH]; [reflexivity|]. cbn [map]. now rewrite H, IH. Qed.

(* ---- what the key loop leaves: the slots of the direct fields and the buffered entries ---- *)
Fixpoint fslots (l : list (bytes * (bool * shape))) (es : list sval) : list (option sval) :=
  match l with
  | [] => []
  | (_, (false, _)) :: r => match es with _ :: x :: es' => Some x :: fslots r es' | _ => None :: fslots r [] end
  | (_, (true, s)) :: r =>
      None :: match s with
              | ShStruct ifs => fslots r (skipn (2 * length ifs) es)
              | ShMap _ _ _ => fslots r []
              | _ => fslots r es
              end
  end.

Fixpoint fbuf (l : list (bytes * (bool * shape))) (es : list sval) : list sval :=
  match l with
  | [] => []
  | (_, (false, _)) :: r => match es with _ :: _ :: es' => fbuf r es' | _ => [] end
  | (_, (true, s)) :: r =>
      match s with
      | ShStruct ifs => firstn (2 * length ifs) es ++ fbuf r (skipn (2 * length ifs) es)
      | ShMap _ _ _ => es
      | _ => fbuf r es
      end
  end.

Lemma fcg_direct names f n s r es :
  flat_conf_go names f ((n, (false, s)) :: r) es =
  match es with SStr n' :: x :: es' => beq n n' && f s x && flat_conf_go names f r es' | _ => false end.
Proof. reflexivity. Qed.
Lemma fcg_flat names f n s r es :
  flat_conf_go names f ((n, (true, s)) :: r) es =
  match s with
  | ShStruct ifs => match ent_b f ifs es with Some es' => flat_conf_go names f r es' | None => false end
  | ShMap _ k x => is_nil r && alt_b (f k) (f x) es && flat_keys_ok names es
  | ShUnit => flat_conf_go names f r es
  | _ => false
  end.
Proof. reflexivity. Qed.
Lemma ffg_direct ff fb n s r es :
  flat_free_go ff fb ((n, (false, s)) :: r) es =
  match es with _ :: x :: es' => ff s x && flat_free_go ff fb r es' | _ => true end.
Proof. reflexivity. Qed.
Lemma ffg_flat ff fb n s r es :
  flat_free_go ff fb ((n, (true, s)) :: r) es =
  match s with
  | ShStruct ifs => match ent_b (fb true) ifs es with Some es' => flat_free_go ff fb r es' | None => false end
  | ShMap _ k x => alt_b (fb false k) (fb false x) es
  | ShUnit => flat_free_go ff fb r es
  | _ => true
  end.
Proof. reflexivity. Qed.

Definition fshapes_ok (l : list (bytes * (bool * shape))) : Prop :=
  forallb (fun p : bytes * (bool * shape) => let (_, q) := p in let (_, s) := q in shape_ok_any s) l = true /\
  existsb (fun p : bytes * (bool * shape) => let (_, q) := p in let (_, s) := q in opt_in_opt s) l = false /\
  forallb (fun p : bytes * (bool * shape) => let (_, q) := p in let (_, s) := q in untagged_disjoint s) l = true.

Lemma fshapes_ok_cons n fl s r : fshapes_ok ((n, (fl, s)) :: r) ->
  (shape_ok_any s = true /\ opt_in_opt s = false /\ untagged_disjoint s = true) /\ fshapes_ok r.
Proof.
  intros (H1 & H2 & H3). cbn [forallb existsb] in *. apply andb_prop in H1 as [H1a H1b].
  apply orb_false_elim in H2 as [H2a H2b]. apply andb_prop in H3 as [H3a H3b]. now repeat split.
Qed.

Lemma Forall2_cons_inv {A B} (R : A -> B -> Prop) a l m : Forall2 R (a :: l) m ->
  exists b m', m = b :: m' /\ R a b /\ Forall2 R l m'.
Proof. intro H. inversion H; subst. eauto. Qed.

Lemma nth_error_at {A} (pre : list A) x suf k : length pre = k -> nth_error (pre ++ x :: suf) k = Some x.
Proof. intros <-. apply nth_error_mid. Qed.
Lemma set_nth_at {A} (pre : list A) x y suf k : length pre = k -> set_nth (pre ++ x :: suf) k y = pre ++ y :: suf.
Proof. intros <-. apply set_nth_app. Qed.

Lemma flat_loop_fields c fuel fs : names_distinct (flat_names fs) = true -> forallb str_ok (flat_names fs) = true ->
  forall suf pre, fs = pre ++ suf ->
  Forall (fun p => rt_any c fuel (snd (snd p))) suf -> fshapes_ok suf ->
  forall es css, flat_conf_go (flat_names fs) conf_any suf es = true ->
  flat_free_go f12_free buf_conf suf es = true -> forallb sval_ok es = true ->
  Forall2 (fun x y => ser_s c x = Some y) es css -> (length (flat (concat css)) < fuel)%nat ->
  forall slots_pre acc tl r, length slots_pre = length pre ->
  (forall lf', (length tl < lf')%nat ->
     reads (flat_loop c (map (fldec c fuel) fs) None lf' (slots_pre ++ fslots suf es) (rev (cpairs (fbuf suf es)) ++ acc)) tl r) ->
  forall lf, (length (flat (concat css) ++ tl) < lf)%nat ->
  reads (flat_loop c (map (fldec c fuel) fs) None lf (slots_pre ++ map (fun _ => None) suf) acc) (flat (concat css) ++ tl) r.
Proof.
  intros Hnd Hstr suf. induction suf as [|[n [[|] s]] suf IH];
    intros pre Efs HIH Hsh es css Hc Hfr Hok H2 Hf slots_pre acc tl r Hlen Hk lf Hlf.
  - (* no field left *)
    destruct es; [|discriminate Hc]. inversion H2; subst. cbn [concat flat app map fslots fbuf cpairs rev] in *. now apply Hk.
  - (* a flattened field *)
    destruct (fshapes_ok_cons _ _ _ _ Hsh) as ((Hss & Hos & Hds) & Hsh').
    pose proof (Forall_inv_tail HIH) as HIH'.
    assert (Efs': fs = (pre ++ [(n, (true, s))]) ++ suf) by (now rewrite <- app_assoc).
    assert (Hlen': length (slots_pre ++ [@None sval]) = length (pre ++ [(n, (true, s))])) by (rewrite !app_length; cbn; lia).
    assert (Eslots: slots_pre ++ map (fun _ => None) ((n, (true, s)) :: suf)
                    = (slots_pre ++ [None]) ++ map (fun _ : bytes * (bool * shape) => @None sval) suf)
      by (cbn [map]; now rewrite <- app_assoc).
    rewrite fcg_flat in Hc. rewrite ffg_flat in Hfr. rewrite Eslots.
    assert (Hnames: flat_names fs = flat_names pre ++ flat_names ((n, (true, s)) :: suf)) by (now rewrite Efs, flat_names_app).
    assert (Hdn: dnames fs = dnames pre ++ dnames suf) by (rewrite Efs, dnames_app; reflexivity).
    destruct s; try discriminate Hc.
    + (* a flattened (): contributes no entry *)
      apply (IH (pre ++ [(n, (true, ShUnit))]) Efs' HIH' Hsh' es css Hc Hfr Hok H2 Hf (slots_pre ++ [None]) acc tl r Hlen'); [|exact Hlf].
      intros lf' Hlf'. specialize (Hk lf' Hlf'). cbn [fslots fbuf] in Hk. now rewrite <- app_assoc.
    + (* a flattened map: every remaining entry is buffered *)
      apply andb_prop in Hc as [Hc Hkeys]. apply andb_prop in Hc as [Hnil Hca].
      destruct suf; [|discriminate Hnil]. cbn [map] in *. rewrite app_nil_r.
      destruct (alt_even _ _ _ Hca) as [Hev _]. apply even_nat_N in Hev.
      apply (fl_buf_entries c _ (length es) es css (le_n _) Hev Hok H2); [|intros lf' Hlf'; apply (Hk lf' Hlf')|exact Hlf].
      intros key Hin. unfold flat_keys_ok in Hkeys. pose proof (proj1 (forallb_forall _ _) Hkeys key Hin) as Hkk. cbn beta in Hkk.
      destruct (key_text key) as [b|]; [|discriminate Hkk]. exists b. split; [reflexivity|].
      apply find_direct_none. intro Hd. apply dnames_flat in Hd. apply negb_true_iff in Hkk.
      now rewrite (existsb_beq_true b _ Hd) in Hkk.
    + (* a flattened struct: its entries are buffered *)
      destruct (ent_b conf_any fs0 es) as [e1|] eqn:E1; [|discriminate Hc].
      destruct (ent_b (buf_conf true) fs0 es) as [e2|] eqn:E2; [|discriminate Hfr].
      pose proof (ent_b_det _ _ _ _ _ _ E1 E2) as <-.
      destruct (ent_b_split _ _ _ _ E1) as (vs & -> & Hvs).
      pose proof (Forall2_fst (fun s x => conf_any s x = true) _ _ Hvs) as Hfst.
      assert (Hlv: length (sentries vs) = (2 * length fs0)%nat).
      { rewrite length_sentries. f_equal. rewrite <- (map_length fst vs), <- Hfst. apply map_length. }
      destruct (firstn_skipn_exact (sentries vs) e1 _ Hlv) as [Efn Esk].
      apply Forall2_app_inv_l in H2 as (c1 & c2 & H21 & H22 & ->).
      rewrite forallb_app in Hok. apply andb_prop in Hok as [Hok1 Hok2].
      rewrite concat_app, flat_app, app_length in Hf. rewrite concat_app, flat_app, <- (app_assoc (flat (concat c1))) in Hlf.
      rewrite concat_app, flat_app, <- (app_assoc (flat (concat c1))).
      apply (fl_buf_entries c _ (length (sentries vs)) (sentries vs) c1 (le_n _)); try assumption.
      * rewrite Hlv. apply Nat.even_spec. now exists (length fs0).
      * intros key Hin. rewrite alt_keys_sentries in Hin. apply in_map_iff in Hin as (p & <- & Hp).
        exists (fst p). split; [reflexivity|]. apply find_direct_none. rewrite Hdn. intro Hd.
        assert (Hm: In (fst p) (map fst fs0)) by (rewrite Hfst; now apply in_map).
        rewrite Hnames in Hnd. destruct (nd_app _ _ Hnd) as (_ & Hnd2 & Hdis). cbn [flat_names] in Hnd2, Hdis.
        destruct (nd_app _ _ Hnd2) as (_ & _ & Hdis2).
        apply in_app_or in Hd as [Hd|Hd]; apply dnames_flat in Hd.
        -- apply (Hdis (fst p) Hd). apply in_or_app. now left.
        -- now apply (Hdis2 (fst p) Hm).
      * intros lf' Hlf'.
        apply (IH (pre ++ [(n, (true, ShStruct fs0))]) Efs' HIH' Hsh' e1 c2 Hc Hfr Hok2 H22 ltac:(lia)
                  (slots_pre ++ [None]) (rev (cpairs (sentries vs)) ++ acc) tl r Hlen'); [|exact Hlf'].
        intros lf'' Hlf''. specialize (Hk lf'' Hlf''). cbn [fslots fbuf] in Hk. rewrite Efn, Esk in Hk.
        rewrite cpairs_sentries_app, rev_app_distr in Hk. rewrite <- !app_assoc in *. exact Hk.
  - (* a field that is read directly *)
    destruct (fshapes_ok_cons _ _ _ _ Hsh) as ((Hss & Hos & Hds) & Hsh').
    pose proof (Forall_inv HIH) as IHs. cbn [snd] in IHs. pose proof (Forall_inv_tail HIH) as HIH'.
    rewrite fcg_direct in Hc. rewrite ffg_direct in Hfr.
    destruct es as [|k0 l0]; [discriminate Hc|]. destruct k0; try discriminate Hc. destruct l0 as [|x es']; [discriminate Hc|].
    apply andb_prop in Hc as [Hc Hcr]. apply andb_prop in Hc as [Hn Hcx]. apply beq_true in Hn. subst b.
    apply andb_prop in Hfr as [Hfx Hfr]. cbn [forallb] in Hok. apply andb_prop in Hok as [_ Hok]. apply andb_prop in Hok as [Hokx Hok].
    destruct (Forall2_cons_inv _ _ _ _ H2) as (yk & css1 & -> & Hsk & H21).
    destruct (Forall2_cons_inv _ _ _ _ H21) as (yx & css' & -> & Hsx & H22).
    cbn [ser_s] in Hsk. injection Hsk as <-.
    cbn [concat] in *. rewrite !flat_app, <- !app_assoc in *. rewrite !app_length in Hf, Hlf.
    assert (Hin: In n (flat_names fs)) by (rewrite Efs, flat_names_app; apply in_or_app; right; now left).
    pose proof (proj1 (forallb_forall _ _) Hstr n Hin) as Hname.
    pose proof (no_break_cons_nonempty _ (no_break_str n (str_ok_len n Hname))) as Hne.
    pose proof (no_break_cons_nonempty _ (no_break_ser c x yx Hokx Hsx)) as Hnx.
    destruct lf as [|f]; [lia|].
    assert (Hnp: ~ In n (dnames pre)).
    { intro Hd. apply dnames_flat in Hd. rewrite Efs, flat_names_app in Hnd. destruct (nd_app _ _ Hnd) as (_ & _ & Hdis).
      apply (Hdis n Hd). now left. }
    apply fl_step_direct with (i := length pre) (d := de_s c s fuel) (x := x).
    + exact Hname.
    + rewrite Efs. apply (find_direct_at c fuel pre n s suf Hnp 0).
    + cbn [map]. now apply nth_error_at.
    + apply (IHs Hss Hos Hds x yx Hcx Hfx Hokx Hsx). lia.
    + cbn [map]. rewrite (set_nth_at slots_pre None (Some x) _ (length pre) Hlen).
      replace (slots_pre ++ Some x :: map (fun _ => None) suf)
        with ((slots_pre ++ [Some x]) ++ map (fun _ : bytes * (bool * shape) => @None sval) suf) by (now rewrite <- app_assoc).
      apply (IH (pre ++ [(n, (false, s))]) ltac:(now rewrite <- app_assoc) HIH' Hsh' es' css' Hcr Hfr Hok H22 ltac:(lia)
                (slots_pre ++ [Some x]) acc tl r ltac:(rewrite !app_length; cbn; lia)); [|rewrite !app_length in *; lia].
      intros lf' Hlf'. specialize (Hk lf' Hlf'). cbn [fslots fbuf] in Hk. now rewrite <- app_assoc.
Qed.

(* ================================================================== FlatMapDeserializer *)
Lemma flat_take_in names vs col : (forall p, In p vs -> In (fst p) names) ->
  flat_take names (cpairs (sentries vs) ++ col) = (cfields vs ++ fst (flat_take names col), snd (flat_take names col)).
Proof.
  unfold sentries. induction vs as [|[n x] vs IH]; intro H.
  - cbn [flat_map cpairs app cfields]. now destruct (flat_take names col).
  - cbn [flat_map app cpairs cont_of flat_take cfields fst snd].
    rewrite (IH ltac:(intros p Hp; apply H; now right)). cbn [content_name].
    rewrite (existsb_beq_true n names (H (n, x) ltac:(now left))). reflexivity.
Qed.

Lemma flat_take_out names col :
  (forall k v, In (k, v) col -> exists b, content_name k = Some b /\ ~ In b names) -> flat_take names col = ([], col).
Proof.
  induction col as [|[k v] col IH]; intro H; [reflexivity|]. cbn [flat_take].
  rewrite (IH ltac:(intros k0 v0 Hin; apply (H k0 v0); now right)).
  destruct (H k v ltac:(now left)) as (b & -> & Hb). now rewrite (existsb_beq_notin b names Hb).
Qed.

Lemma In_cpairs k v : forall m l, (length l <= m)%nat -> In (k, v) (cpairs l) -> exists key, In key (alt_keys l) /\ k = cont_of key.
Proof.
  induction m as [|m IH]; intros l Hm Hin.
  - destruct l; [contradiction|cbn in Hm; lia].
  - destruct l as [|a [|b r]]; try contradiction. cbn [cpairs alt_keys] in *. destruct Hin as [[= <- <-]|Hin].
    + exists a. split; [now left|reflexivity].
    + destruct (IH r ltac:(cbn in Hm; lia) Hin) as (key & Hk & ->). exists key. split; [now right|reflexivity].
Qed.

Lemma key_text_name key b : key_text key = Some b -> content_name (cont_of key) = Some b.
Proof. unfold key_text. destruct (cont_of key); try discriminate. now intros [= ->]. Qed.

(* the keys still in the buffer belong to later flattened structs or to the flattened map *)
Lemma fbuf_keys names suf : forall es, flat_conf_go names conf_any suf es = true ->
  forall k v, In (k, v) (cpairs (fbuf suf es)) -> exists b, content_name k = Some b /\ (In b (flat_names suf) \/ ~ In b names).
Proof.
  induction suf as [|[n [[|] s]] suf IH]; intros es Hc k v Hin.
  - contradiction.
  - rewrite fcg_flat in Hc. destruct s; try discriminate Hc; cbn [fbuf flat_names] in *.
    + exact (IH es Hc k v Hin).
    + apply andb_prop in Hc as [_ Hkeys]. destruct (In_cpairs k v (length es) es (le_n _) Hin) as (key & Hk & ->).
      unfold flat_keys_ok in Hkeys. pose proof (proj1 (forallb_forall _ _) Hkeys key Hk) as Hkk. cbn beta in Hkk.
      destruct (key_text key) as [b|] eqn:Ek; [|discriminate Hkk]. exists b. split; [now apply key_text_name|]. right.
      intro Hb. apply negb_true_iff in Hkk. now rewrite (existsb_beq_true b _ Hb) in Hkk.
    + destruct (ent_b conf_any fs es) as [e1|] eqn:E1; [|discriminate Hc].
      destruct (ent_b_split _ _ _ _ E1) as (vs & -> & Hvs).
      pose proof (Forall2_fst (fun s x => conf_any s x = true) _ _ Hvs) as Hfst.
      assert (Hlv: length (sentries vs) = (2 * length fs)%nat).
      { rewrite length_sentries. f_equal. rewrite <- (map_length fst vs), <- Hfst. apply map_length. }
      destruct (firstn_skipn_exact (sentries vs) e1 _ Hlv) as [Efn Esk]. rewrite Efn, Esk in Hin.
      rewrite cpairs_sentries_app in Hin. apply in_app_or in Hin as [Hin|Hin].
      * destruct (In_cpairs k v _ _ (le_n _) Hin) as (key & Hk & ->). rewrite alt_keys_sentries in Hk.
        apply in_map_iff in Hk as (p & <- & Hp). exists (fst p). split; [reflexivity|]. left. apply in_or_app. left.
        rewrite Hfst. now apply in_map.
      * destruct (IH e1 Hc k v Hin) as (b & Hb & [Hb2|Hb2]); exists b; (split; [exact Hb|]); [left; apply in_or_app; now right|now right].
  - rewrite fcg_direct in Hc. destruct es as [|k0 l0]; [discriminate Hc|]. destruct k0; try discriminate Hc.
    destruct l0 as [|x es']; [discriminate Hc|]. apply andb_prop in Hc as [_ Hcr]. cbn [fbuf flat_names] in *.
    destruct (IH es' Hcr k v Hin) as (b0 & Hb & [Hb2|Hb2]); exists b0; (split; [exact Hb|]); [left; now right|now right].
Qed.

Lemma unpair_cpairs : forall m l, (length l <= m)%nat -> Nat.even (length l) = true -> unpair (cpairs l) = map cont_of l.
Proof.
  induction m as [|m IH]; intros l Hm He.
  - destruct l; [reflexivity|cbn in Hm; lia].
  - destruct l as [|a [|b r]]; [reflexivity|discriminate He|]. cbn [cpairs unpair map]. rewrite IH; [reflexivity|cbn in Hm; lia|exact He].
Qed.

Lemma fc_fields2 ifs vs :
  Forall2 (fun (p : bytes * shape) (q : bytes * sval) => fst p = fst q /\ buf_conf true (snd p) (snd q) = true) ifs vs ->
  forallb (fun p : bytes * shape => let (n, s) := p in str_ok n && shape_ok_any s) ifs = true ->
  existsb (fun p : bytes * shape => let (_, s) := p in opt_in_opt s) ifs = false ->
  forallb (fun p : bytes * shape => let (_, s) := p in untagged_disjoint s) ifs = true ->
  Forall2 (fun (p : bytes * shape) (q : bytes * sval) => fst p = fst q /\ fc true (snd p) (cont_of (snd q)) = Some (snd q)) ifs vs.
Proof.
  induction 1 as [|[n s] [n' x] ifs vs [Hn Hb] _ IH]; intros Hs Ho Hd; [constructor|].
  cbn [forallb existsb fst snd] in *. apply andb_prop in Hs as [Hs1 Hs2]. apply andb_prop in Hs1 as [_ Hs1].
  apply orb_false_elim in Ho as [Ho1 Ho2]. apply andb_prop in Hd as [Hd1 Hd2].
  constructor; [split; [exact Hn|now apply fc_rt]|now apply IH].
Qed.

Lemma flat_finish_rt fs : names_distinct (flat_names fs) = true ->
  forall suf pre, fs = pre ++ suf -> fshapes_ok suf ->
  forall es, flat_conf_go (flat_names fs) conf_any suf es = true -> flat_free_go f12_free buf_conf suf es = true ->
  flat_finish suf (fslots suf es) (cpairs (fbuf suf es)) = Some es.
Proof.
  intros Hnd suf. induction suf as [|[n [[|] s]] suf IH]; intros pre Efs Hsh es Hc Hfr.
  - destruct es; [reflexivity|discriminate Hc].
  - destruct (fshapes_ok_cons _ _ _ _ Hsh) as ((Hss & Hos & Hds) & Hsh').
    assert (Efs': fs = (pre ++ [(n, (true, s))]) ++ suf) by (now rewrite <- app_assoc).
    pose proof Hc as Hc0. rewrite fcg_flat in Hc. rewrite ffg_flat in Hfr.
    destruct s; try discriminate Hc.
    + cbn [flat_finish fslots fbuf]. now apply (IH _ Efs' Hsh').
    + (* a flattened map takes every entry that is left *)
      apply andb_prop in Hc as [Hc _]. apply andb_prop in Hc as [Hnil Hca]. destruct suf; [|discriminate Hnil].
      cbn [shape_ok_any opt_in_opt untagged_disjoint] in Hss, Hos, Hds.
      apply andb_prop in Hss as [Hsk Hsv]. apply orb_false_elim in Hos as [Hok Hov]. apply andb_prop in Hds as [Hdk Hdv].
      destruct (alt_even _ _ _ Hca) as [Hev _]. apply even_nat_N in Hev.
      cbn [flat_finish fslots fbuf]. rewrite (unpair_cpairs (length es) es (le_n _) Hev).
      rewrite (oalt_ok (fun y => buf_conf false s1 y = true) (fun y => buf_conf false s2 y = true) (fc false s1) (fc false s2)
                 ltac:(intros y Hy; now apply fc_rt) ltac:(intros y Hy; now apply fc_rt) (length es) es (le_n _)
                 (alt_b_prop _ _ (length es) es (le_n _) Hfr)).
      now rewrite app_nil_r.
    + (* a flattened struct claims its entries *)
      destruct (ent_b conf_any fs0 es) as [e1|] eqn:E1; [|discriminate Hc].
      destruct (ent_b (buf_conf true) fs0 es) as [e2|] eqn:E2; [|discriminate Hfr].
      pose proof (ent_b_det _ _ _ _ _ _ E1 E2) as <-.
      destruct (ent_b_split _ _ _ _ E2) as (vs & -> & Hvs).
      pose proof (Forall2_fst (fun s x => buf_conf true s x = true) _ _ Hvs) as Hfst.
      assert (Hlv: length (sentries vs) = (2 * length fs0)%nat).
      { rewrite length_sentries. f_equal. rewrite <- (map_length fst vs), <- Hfst. apply map_length. }
      destruct (firstn_skipn_exact (sentries vs) e1 _ Hlv) as [Efn Esk].
      cbn [shape_ok_any opt_in_opt untagged_disjoint] in Hss, Hos, Hds. apply andb_prop in Hss as [Hndi Hssi].
      cbn [flat_finish fslots fbuf]. rewrite Efn, Esk, cpairs_sentries_app.
      rewrite (flat_take_in (map fst fs0) vs (cpairs (fbuf suf e1))) by (intros p Hp; rewrite Hfst; now apply in_map).
      assert (Hnames: flat_names fs = flat_names pre ++ (map fst fs0 ++ flat_names suf)) by (now rewrite Efs, flat_names_app).
      rewrite (flat_take_out (map fst fs0) (cpairs (fbuf suf e1))).
      * cbn [fst snd]. rewrite app_nil_r.
        change (map (fun p : bytes * shape => (fst p, fc true (snd p))) fs0) with (map (cdec true) fs0).
        rewrite (cstruct_map_rt true fs0 vs Hndi (fc_fields2 fs0 vs Hvs Hssi Hos Hds)).
        rewrite (IH _ Efs' Hsh' e1 Hc Hfr). reflexivity.
      * intros k v Hin. destruct (fbuf_keys _ suf e1 Hc k v Hin) as (b & Hb & Hb2). exists b. split; [exact Hb|].
        intro Hm. rewrite Hnames in Hnd. destruct (nd_app _ _ Hnd) as (_ & Hnd2 & _).
        destruct (nd_app _ _ Hnd2) as (_ & _ & Hdis). destruct Hb2 as [Hb2|Hb2]; [now apply (Hdis b)|].
        apply Hb2. rewrite Hnames. apply in_or_app. right. apply in_or_app. now left.
  - destruct (fshapes_ok_cons _ _ _ _ Hsh) as (_ & Hsh').
    rewrite fcg_direct in Hc. rewrite ffg_direct in Hfr.
    destruct es as [|k0 l0]; [discriminate Hc|]. destruct k0; try discriminate Hc. destruct l0 as [|x es']; [discriminate Hc|].
    apply andb_prop in Hc as [Hc Hcr]. apply andb_prop in Hc as [Hn _]. apply beq_true in Hn. subst b.
    apply andb_prop in Hfr as [_ Hfr].
    cbn [flat_finish fslots fbuf].
    now rewrite (IH (pre ++ [(n, (false, s))]) ltac:(now rewrite <- app_assoc) Hsh' es' Hcr Hfr).
Qed.

(* ================================================================== the round trip of a flattened struct *)
Lemma conf_flat_inv fs v : conf_any (ShFlat fs) v = true ->
  exists es, v = SMap None es /\ flat_conf_go (flat_names fs) conf_any fs es = true.
Proof. intro H. destruct v; try discriminate H. destruct n; [discriminate H|]. now exists kvs. Qed.

Lemma rta_flat c fuel fs : Forall (fun p => rt_any c fuel (snd (snd p))) fs -> rt_any c fuel (ShFlat fs).
Proof.
  intros IH Hs Ho Hd v cs Hc Hfr Hok Hser Hf. cbn [shape_ok_any opt_in_opt untagged_disjoint] in *.
  apply andb_prop in Hs as [Hs Hsf]. apply andb_prop in Hs as [Hs _]. apply andb_prop in Hs as [Hnd Hstr].
  destruct (conf_flat_inv fs v Hc) as (es & -> & Hce). cbn [f12_free sval_ok] in Hfr, Hok.
  apply andb_prop in Hok as [_ Hokl].
  cbn [ser_s] in Hser. apply ocat_some_l in Hser as (y0 & Hy & ->). apply ocat_some in Hy as (y & z & Hy & [= <-] & ->).
  destruct (all_s_split c es y Hy) as (css & H2 & ->).
  rewrite !flat_app, !app_length in Hf. rewrite !flat_app.
  cbn [de_s].
  change (map (fun p : bytes * (bool * shape) => let (n, fs') := p in let (fl, s) := fs' in (n, (fl, de_s c s fuel))) fs)
    with (map (fldec c fuel) fs).
  apply reads_bind with None; [apply reads_begin_map|].
  rewrite <- (app_nil_r (flat (concat css) ++ flat enc_end)).
  apply reads_bind with (fslots fs es, cpairs (fbuf fs es)).
  - change (map (fun _ : bytes * (bool * shape) => @None sval) fs) with ([] ++ map (fun _ : bytes * (bool * shape) => @None sval) fs).
    apply (flat_loop_fields c fuel fs Hnd Hstr fs [] eq_refl IH (conj Hsf (conj Ho Hd)) es css Hce Hfr Hokl H2 ltac:(lia)
             [] [] (flat enc_end) _ eq_refl).
    + intros lf' Hlf'. destruct lf' as [|f]; [cbn in Hlf'; lia|].
      cbn [app]. rewrite app_nil_r. rewrite <- (rev_involutive (cpairs (fbuf fs es))) at 2. apply fl_done.
    + rewrite app_length. lia.
  - cbn [fst snd]. rewrite (flat_finish_rt fs Hnd fs [] eq_refl (conj Hsf (conj Ho Hd)) es Hce Hfr). apply reads_ret.
Qed.

(* ================================================================== every shape *)
Theorem de_s_roundtrip_all c fuel sh : rt_any c fuel sh.
Proof.
  induction sh using shape_ind_all.
  - now apply rta_leaf.
  - now apply rta_option.
  - now apply rta_newtype.
  - now apply rta_seq.
  - now apply rta_tuple.
  - now apply rta_tuple_struct.
  - now apply rta_map.
  - now apply rta_struct.
  - now apply rta_enum.
  - apply rta_internal.
  - now apply rta_adjacent.
  - apply rta_untagged.
  - now apply rta_flat.
Qed.

Theorem roundtrip_all_at c sh v cs fuel rest p L :
  shape_ok_any sh = true -> opt_in_opt sh = false -> untagged_disjoint sh = true ->
  conf_any sh v = true -> f12_free sh v = true -> sval_ok v = true ->
  ser_s c v = Some cs -> (length (flat cs) < fuel)%nat -> p + len (flat cs) <= L ->
  de_s c sh fuel (mkdst p (flat cs ++ rest) L) = (Ok v, mkdst (p + len (flat cs)) rest L).
Proof.
  intros Hs Ho Hd Hc Hfr Hok Hser Hf HL.
  exact (de_s_roundtrip_all c fuel sh Hs Ho Hd v cs Hc Hfr Hok Hser Hf rest p L HL).
Qed.

Theorem roundtrip_all_auto c sh v cs rest :
  shape_ok_any sh = true -> opt_in_opt sh = false -> untagged_disjoint sh = true ->
  conf_any sh v = true -> f12_free sh v = true -> sval_ok v = true -> ser_s c v = Some cs ->
  run (de_auto c sh) (flat cs ++ rest) = (Ok v, mkdst (len (flat cs)) rest (len (flat cs ++ rest))).
Proof.
  intros Hs Ho Hd Hc Hfr Hok Hser. unfold run, de_auto, start, fuel_of. cbn [drest].
  rewrite (roundtrip_all_at c sh v cs _ rest 0 (len (flat cs ++ rest)) Hs Ho Hd Hc Hfr Hok Hser).
  - reflexivity.
  - rewrite app_length. lia.
  - rewrite len_app. lia.
Qed.
