(* Proofs/MethodsWf.v — what an Encoder method writes is exactly one well-formed item denoting its argument. *)
From MC Require Import Bytes BytesFacts Cbor CborFacts Item Encoder Methods Utf8 EncoderFacts ItemFacts.
From Coq Require Import Lia.
Local Open Scope N_scope.

Lemma item_ok_of_meth m : arg_ok m = true -> simple_reserved m = false -> item_ok (item_of m) = true.
Proof.
  destruct m; cbn [arg_ok item_of item_ok simple_reserved]; intros Hok Hs; unfold lt64; try assumption; try reflexivity.
  - apply N.ltb_lt in Hok. apply N.ltb_lt. lia.
  - apply N.ltb_lt in Hok. apply N.ltb_lt. lia.
  - apply N.ltb_lt in Hok. apply N.ltb_lt. lia.
  - unfold zrange in Hok. apply andb_prop in Hok as [H1 H2]. apply Z.leb_le in H1, H2.
    unfold z_item. destruct (Z.leb_spec 0 x); cbn [item_ok]; unfold lt64; apply N.ltb_lt; lia.
  - unfold zrange in Hok. apply andb_prop in Hok as [H1 H2]. apply Z.leb_le in H1, H2.
    unfold z_item. destruct (Z.leb_spec 0 x); cbn [item_ok]; unfold lt64; apply N.ltb_lt; lia.
  - unfold zrange in Hok. apply andb_prop in Hok as [H1 H2]. apply Z.leb_le in H1, H2.
    unfold z_item. destruct (Z.leb_spec 0 x); cbn [item_ok]; unfold lt64; apply N.ltb_lt; lia.
  - unfold zrange in Hok. apply andb_prop in Hok as [H1 H2]. apply Z.leb_le in H1, H2.
    unfold z_item. destruct (Z.leb_spec 0 x); cbn [item_ok]; unfold lt64; apply N.ltb_lt; lia.
  - destruct neg; cbn [item_ok]; exact Hok.
  - apply N.ltb_lt in Hok.
    destruct (N.ltb_spec x 24); [reflexivity|]. destruct (N.leb_spec 24 x); [|lia].
    destruct (N.ltb_spec x 32); [discriminate|]. destruct (N.leb_spec 32 x); [|lia].
    destruct (N.ltb_spec x 256); [reflexivity|lia].
  - destruct b; reflexivity.
  - apply is_scalar_lt in Hok. apply N.ltb_lt. lia.
  - apply andb_prop in Hok as [H1 H2]. unfold lt64. now rewrite H1, H2.
  - apply andb_prop in Hok as [H1 H2]. apply andb_prop in H1 as [H0 H1]. unfold lt64. now rewrite H0, H2.
Qed.

Theorem methods_wellformed m cs : arg_ok m = true -> simple_reserved m = false -> run_meth m = Some cs ->
  exists e, flat cs = ser e /\ wf e = true /\ pref e = true /\ val_of e = item_of m.
Proof.
  intros Hok Hs Hrun. rewrite (methods_preferred m cs Hok Hs Hrun).
  apply enc_pref_is_item. now apply item_ok_of_meth.
Qed.

(* No call is refused, and the class excluded above is exactly the set of calls whose value has no well-formed
   encoding at all (Spec/Item.v item_ok: simple values 24..=31 do not exist in RFC 8949). *)
Theorem methods_refuse m : arg_ok m = true ->
  run_meth m <> None /\ (simple_reserved m = true <-> item_ok (item_of m) = false).
Proof.
  intro Hok. split.
  - destruct (run_meth_some m) as (cs & E). rewrite E. discriminate.
  - split.
    + destruct m; cbn [simple_reserved]; try discriminate. intro H. cbn [item_of item_ok].
      apply andb_prop in H as [H1 H2]. apply N.leb_le in H1. apply N.ltb_lt in H2.
      destruct (N.ltb_spec x 24); [lia|]. destruct (N.leb_spec 32 x); [lia|]. reflexivity.
    + intro H. destruct (simple_reserved m) eqn:E; [reflexivity|].
      rewrite (item_ok_of_meth m Hok E) in H. discriminate.
Qed.

(* F2b: the two bytes written for simple(24..=31) are not the serialisation of any well-formed item *)
Lemma f8_reserved_not_wf x e : 24 <= x <= 31 -> wf e = true -> ser e <> [248; x].
Proof.
  intros Hx Hw Hs.
  assert (HL: len (ser e) < 18446744073709551616) by (rewrite Hs; cbv; reflexivity).
  pose proof (parse_ser_auto e [] Hw HL) as P. rewrite app_nil_r, Hs in P.
  assert (x = 24 \/ x = 25 \/ x = 26 \/ x = 27 \/ x = 28 \/ x = 29 \/ x = 30 \/ x = 31) as C by lia.
  destruct C as [->|[->|[->|[->|[->|[->|[->| ->]]]]]]]; vm_compute in P; discriminate.
Qed.

Theorem simple_reserved_refuted :
  exists x, 24 <= x <= 31 /\ arg_ok (MSimple x) = true /\ simple_reserved (MSimple x) = true /\
    option_map flat (run_meth (MSimple x)) = Some [248; x] /\ one_item [248; x] = None.
Proof. exists 24. vm_compute. repeat split; try reflexivity; discriminate. Qed.

Theorem simple_reserved_not_wf : forall x, 24 <= x <= 31 ->
  option_map flat (run_meth (MSimple x)) = Some [248; x] /\
  forall e, wf e = true -> ser e <> [248; x].
Proof.
  intros x Hx. split.
  - rewrite simple_reserved_bytes by lia. reflexivity.
  - intros e Hw. now apply f8_reserved_not_wf.
Qed.

