(* Proofs/MethodsWf.v — what an Encoder method writes is exactly one well-formed item denoting its argument. *)
From MC Require Import Bytes BytesFacts Cbor Item Encoder Methods Utf8 EncoderFacts ItemFacts.
From Coq Require Import Lia.
Local Open Scope N_scope.

Lemma item_ok_of_meth m cs : arg_ok m = true -> run_meth m = Some cs -> item_ok (item_of m) = true.
Proof.
  destruct m; cbn [arg_ok run_meth item_of item_ok]; intros Hok Hrun; unfold lt64; try assumption; try reflexivity.
  - apply N.ltb_lt in Hok. apply N.ltb_lt. lia.
  - apply N.ltb_lt in Hok. apply N.ltb_lt. lia.
  - apply N.ltb_lt in Hok. apply N.ltb_lt. lia.
  - unfold zrange in Hok. apply andb_prop in Hok as [H1 H2]. apply Z.leb_le in H1, H2.
    unfold z_item. destruct (Z.leb_spec 0 x); cbn [item_ok]; unfold lt64; apply N.ltb_lt; lia.
  - unfold zrange in Hok. apply andb_prop in Hok as [H1 H2]. apply Z.leb_le in H1, H2.
    unfold z_item. destruct (Z.leb_spec 0 x); cbn [item_ok]; unfold lt64; apply N.ltb_lt; lia.
  - unfold zrange in Hok. apply andb_prop in Hok as [H1 H2]. apply Z.leb_le in H1, H2.
    unfold z_item. destruct (Z.leb_spec 0 x); cbn [item_ok]; unfold lt64; apply N.ltb_lt; lia.
  - unfold zrange in Hok. apply andb_prop in Hok as [H1 H2]. apply Z.leb_le in H1, H2.
    unfold z_item. destruct (Z.leb_spec 0 x); cbn [item_ok]; unfold lt64; apply N.ltb_lt; lia.
  - destruct neg; cbn [item_ok]; exact Hok.
  - apply N.ltb_lt in Hok. unfold enc_simple in Hrun.
    destruct (N.leb_spec x 23).
    + destruct (N.ltb_spec x 24); [reflexivity|lia].
    + destruct (N.leb_spec x 31); [discriminate|].
      destruct (N.ltb_spec x 24); [lia|]. destruct (N.leb_spec 32 x); [|lia]. destruct (N.ltb_spec x 256); [reflexivity|lia].
  - destruct b; reflexivity.
  - apply is_scalar_lt in Hok. apply N.ltb_lt. lia.
  - apply andb_prop in Hok as [H1 H2]. unfold lt64. now rewrite H1, H2.
  - apply andb_prop in Hok as [H1 H2]. apply andb_prop in H1 as [H0 H1]. unfold lt64. now rewrite H0, H2.
Qed.

Theorem methods_wellformed m cs : arg_ok m = true -> run_meth m = Some cs ->
  exists e, flat cs = ser e /\ wf e = true /\ pref e = true /\ val_of e = item_of m.
Proof.
  intros Hok Hrun. rewrite (methods_preferred m cs Hok Hrun).
  apply enc_pref_is_item. eapply item_ok_of_meth; eassumption.
Qed.
