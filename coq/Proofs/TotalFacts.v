(* Proofs/TotalFacts.v — C02, part 4: the theorems over the operation universe (Model/Ops.v): no panic,
   fuel never exhausted, position in bounds, state invariant preserved; push bounds for collections;
   Size::head / Size::tail. *)
From MC Require Import Bytes BytesFacts Monad Cbor Utf8 Half Decoder DecoderFacts Acc Accessors Encoder Types Ops
  TotalPrims TotalSkip TotalTypes.
From Coq Require Import Lia.
Local Open Scope N_scope.

(* ---------------------------------------------------------------- projections of `safe` *)
Lemma good_run {A} b (m : M A) s : good b m s ->
  adv s (snd (m s)) /\ fst (m s) <> Panic /\ fst (m s) <> OutOfFuel /\
  (b = true -> forall a, fst (m s) = Ok a -> (rem (snd (m s)) < rem s)%nat).
Proof. intro H. destruct (m s) as [r s'] eqn:E. exact (H r s' E). Qed.

Lemma safe_all_good {A} b (m : M A) : (forall F, safe b F m) -> forall s, good b m s.
Proof. intros H s. apply (H (S (rem s))). lia. Qed.

(* ---------------------------------------------------------------- single operations *)
Definition is_setpos (o : dop) : bool := match o with OSetPos _ => true | _ => false end.

Lemma good_run_op c inp o s : is_setpos o = false -> good false (run_op c inp o) s.
Proof.
  destruct o; cbn [run_op is_setpos]; intro Hn; try discriminate.
  - apply safe_all_good. intro F. apply safe_fmap, safe_weaken, safe_run_acc.
  - intros r s' [= <- <-].
    assert (G : good false (fmap RV (run_acc c a)) s).
    { apply safe_all_good. intro F. apply safe_fmap, safe_weaken, safe_run_acc. }
    destruct (good_run _ _ _ G) as (_ & P & O & _).
    split4; try assumption; [apply adv_refl|discriminate].
  - apply safe_all_good. intro F. apply safe_fmap, safe_weaken, safe_decode_auto.
  - apply safe_all_good. intro F. apply safe_fmap, safe_datatype.
  - intros r s' [= <- <-]. split4; try discriminate. apply adv_refl.
Qed.

Lemma run_op_setpos c inp p s : run_op c inp (OSetPos p) s = (Ok RU, at_pos inp p).
Proof. reflexivity. Qed.

Lemma run_op_no_panic c inp o s : fst (run_op c inp o s) <> Panic.
Proof.
  destruct (is_setpos o) eqn:E.
  - destruct o; discriminate.
  - apply (good_run _ _ _ (good_run_op c inp o s E)).
Qed.

Lemma run_op_no_oof c inp o s : fst (run_op c inp o s) <> OutOfFuel.
Proof.
  destruct (is_setpos o) eqn:E.
  - destruct o; discriminate.
  - apply (good_run _ _ _ (good_run_op c inp o s E)).
Qed.

Lemma run_op_adv c inp o s : is_setpos o = false -> adv s (snd (run_op c inp o s)).
Proof. intro E. apply (good_run _ _ _ (good_run_op c inp o s E)). Qed.

(* the state invariant is preserved by every operation *)
Lemma run_op_st_ok c inp o s : st_ok s -> st_ok (snd (run_op c inp o s)).
Proof.
  intro H. destruct (is_setpos o) eqn:E.
  - destruct o; try discriminate. cbn [run_op snd]. apply st_ok_at_pos.
  - apply adv_st_ok with s; [exact H|now apply run_op_adv].
Qed.

(* position: never back, never beyond max(position before, end of input); buffer length unchanged *)
Lemma run_op_position c inp o s : st_ok s -> is_setpos o = false ->
  dlen (snd (run_op c inp o s)) = dlen s /\
  dpos s <= dpos (snd (run_op c inp o s)) <= N.max (dpos s) (dlen s).
Proof.
  intros H E. pose proof (run_op_adv c inp o s E) as A. split; [now apply adv_dlen|now apply adv_pos].
Qed.

Lemma run_op_probe c inp a s : snd (run_op c inp (OProbe a) s) = s.
Proof. reflexivity. Qed.

(* ---------------------------------------------------------------- sequences of operations *)
Lemma run_ops_no_panic c inp os : forall s, Forall (fun r => fst r <> Panic) (run_ops c inp os s).
Proof.
  induction os as [|o os IH]; intro s; cbn [run_ops]; constructor; [|apply IH].
  cbn [fst]. apply run_op_no_panic.
Qed.

Lemma run_ops_no_oof c inp os : forall s, Forall (fun r => fst r <> OutOfFuel) (run_ops c inp os s).
Proof.
  induction os as [|o os IH]; intro s; cbn [run_ops]; constructor; [|apply IH].
  cbn [fst]. apply run_op_no_oof.
Qed.

(* every reported position is inside the input, provided the caller's own set_position arguments are *)
Definition setpos_within (L : N) (o : dop) : Prop := match o with OSetPos p => p <= L | _ => True end.

Lemma run_ops_position c inp os : forall s, st_ok s -> dlen s = len inp -> dpos s <= len inp ->
  Forall (setpos_within (len inp)) os ->
  Forall (fun r => snd r <= len inp) (run_ops c inp os s).
Proof.
  induction os as [|o os IH]; intros s H HL HP HS; cbn [run_ops]; [constructor|].
  inversion HS as [|o' os' Ho Hos]; subst.
  assert (G : st_ok (snd (run_op c inp o s)) /\ dlen (snd (run_op c inp o s)) = len inp /\
              dpos (snd (run_op c inp o s)) <= len inp).
  { split; [now apply run_op_st_ok|]. destruct (is_setpos o) eqn:E.
    - destruct o; try discriminate. cbn [run_op snd at_pos dlen dpos]. split; [reflexivity|exact Ho].
    - destruct (run_op_position c inp o s H E) as [D P]. split; [congruence|lia]. }
  destruct G as (G1 & G2 & G3). constructor; [exact G3|]. now apply IH.
Qed.

(* ---------------------------------------------------------------- push bounds *)
Lemma safe_rem {A} b F (m : M A) s r s' : safe b F m -> (rem s < F)%nat -> m s = (r, s') -> (rem s' <= rem s)%nat.
Proof. intros H Hs E. destruct (H s Hs r s' E) as (A1 & _). now apply adv_rem. Qed.

Lemma safe_rem_strict {A} F (m : M A) s a s' : safe true F m -> (rem s < F)%nat -> m s = (Ok a, s') -> (rem s' < rem s)%nat.
Proof. intros H Hs E. destruct (H s Hs _ s' E) as (_ & _ & _ & S1). now apply (S1 eq_refl a). Qed.

Lemma fmap_ok_inv {A B} (g : A -> B) (m : M A) s b s' :
  fmap g m s = (Ok b, s') -> exists a, m s = (Ok a, s') /\ b = g a.
Proof.
  unfold fmap, bind, ret. destruct (m s) as [[a|e| |] s1]; try discriminate.
  intros [= <- <-]. now exists a.
Qed.

Lemma bind_ok_inv {A B} (m : M A) (f : A -> M B) s b s' :
  bind m f s = (Ok b, s') -> exists a s1, m s = (Ok a, s1) /\ f a s1 = (Ok b, s').
Proof.
  unfold bind. destruct (m s) as [[a|e| |] s1]; try discriminate. intro E. now exists a, s1.
Qed.

Lemma current_state s r s' : current s = (r, s') -> s' = s.
Proof. unfold current. destruct (drest s); now intros [= _ <-]. Qed.

Section Count.
  Variables (d : M value) (F : nat) (wt : value -> nat).
  (* an element of weight w costs at least w bytes *)
  Hypothesis Hd : forall s x s', (rem s < F)%nat -> d s = (Ok x, s') -> (wt x + rem s' <= rem s)%nat.

  Definition wsum (l : list value) : nat := fold_right (fun x a => (wt x + a)%nat) 0%nat l.

  Lemma wsum_app a b : wsum (a ++ b) = (wsum a + wsum b)%nat.
  Proof. induction a as [|x a IH]; cbn [app wsum fold_right]; [reflexivity|]. fold (wsum (a ++ b)) (wsum a). lia. Qed.

  Lemma wsum_rev l : wsum (rev l) = wsum l.
  Proof.
    induction l as [|x l IH]; [reflexivity|]. cbn [rev]. rewrite wsum_app, IH. cbn [wsum fold_right]. fold (wsum l). lia.
  Qed.

  Lemma break_tail (acc : list value) s l s' :
    (read ;;; ret (rev acc)) s = (Ok l, s') -> l = rev acc /\ (rem s' <= rem s)%nat.
  Proof.
    intro E. apply bind_ok_inv in E as (b & s1 & E1 & E2). injection E2 as <- <-.
    split; [reflexivity|]. apply (safe_rem true (S (rem s)) read s (Ok b) s1); [apply safe_read|lia|exact E1].
  Qed.

  Lemma count_dec_n : forall fuel n acc s l s', (rem s < F)%nat ->
    dec_n d n fuel acc s = (Ok l, s') -> (wsum l + rem s' <= wsum acc + rem s)%nat.
  Proof.
    induction fuel as [|fuel IH]; intros n acc s l s' HF; cbn [dec_n]; destruct (n =? 0);
      try (intros [= <- <-]; rewrite wsum_rev; lia); try discriminate.
    intro E. apply bind_ok_inv in E as (x & s1 & E1 & E2).
    apply Hd in E1; [|exact HF]. apply IH in E2; [|lia]. cbn [wsum fold_right] in E2. fold (wsum acc) in E2. lia.
  Qed.

  Lemma count_dec_until_break : forall fuel acc s l s', (rem s < F)%nat ->
    dec_until_break d fuel acc s = (Ok l, s') -> (wsum l + rem s' <= wsum acc + rem s)%nat.
  Proof.
    induction fuel as [|fuel IH]; intros acc s l s' HF; cbn [dec_until_break]; [discriminate|].
    intro E. apply bind_ok_inv in E as (b & s0 & E0 & E). apply current_state in E0 as ->.
    destruct (b =? 255).
    - apply break_tail in E as [-> R]. rewrite wsum_rev. lia.
    - apply bind_ok_inv in E as (x & s1 & E1 & E2).
      apply Hd in E1; [|exact HF]. apply IH in E2; [|lia]. cbn [wsum fold_right] in E2. fold (wsum acc) in E2. lia.
  Qed.

  Lemma count_arr_n cap : forall fuel n acc s l s', (rem s < F)%nat ->
    arr_n d cap n fuel acc s = (Ok l, s') -> (wsum l + rem s' <= wsum acc + rem s)%nat.
  Proof.
    induction fuel as [|fuel IH]; intros n acc s l s' HF; cbn [arr_n]; destruct (n =? 0);
      try (intros [= <- <-]; rewrite wsum_rev; lia); try discriminate.
    intro E. apply bind_ok_inv in E as (x & s1 & E1 & E2).
    apply Hd in E1; [|exact HF]. destruct (len acc <? cap); [|discriminate].
    apply IH in E2; [|lia]. cbn [wsum fold_right] in E2. fold (wsum acc) in E2. lia.
  Qed.

  Lemma count_arr_until_break cap : forall fuel acc s l s', (rem s < F)%nat ->
    arr_until_break d cap fuel acc s = (Ok l, s') -> (wsum l + rem s' <= wsum acc + rem s)%nat.
  Proof.
    induction fuel as [|fuel IH]; intros acc s l s' HF; cbn [arr_until_break]; [discriminate|].
    intro E. apply bind_ok_inv in E as (b & s0 & E0 & E). apply current_state in E0 as ->.
    destruct (b =? 255).
    - apply break_tail in E as [-> R]. rewrite wsum_rev. lia.
    - apply bind_ok_inv in E as (x & s1 & E1 & E2).
      apply Hd in E1; [|exact HF]. destruct (len acc <? cap); [|discriminate].
      apply IH in E2; [|lia]. cbn [wsum fold_right] in E2. fold (wsum acc) in E2. lia.
  Qed.
End Count.

Lemma wsum_one l : wsum (fun _ => 1%nat) l = length l.
Proof. induction l as [|x l IH]; [reflexivity|]. cbn [wsum fold_right length]. fold (wsum (fun _ => 1%nat) l). lia. Qed.

Definition pair_wt (x : value) : nat := length (match x with VList kv => kv | y => [y] end).

Lemma wsum_pairs l : wsum pair_wt l = length (flatten_pairs l).
Proof.
  unfold flatten_pairs. induction l as [|x l IH]; [reflexivity|].
  cbn [wsum fold_right flat_map]. fold (wsum pair_wt l). rewrite app_length, IH. reflexivity.
Qed.

(* in nat, against the remaining input *)
Lemma pushes_seq_rem c t fuel s l s' : (rem s < fuel)%nat ->
  decode_ty c (TySeq t) fuel s = (Ok (VList l), s') -> (length l + 1 + rem s' <= rem s)%nat.
Proof.
  intros Hs E. cbn [decode_ty] in E. apply fmap_ok_inv in E as (l0 & E & [= ->]).
  unfold dec_seq in E. apply bind_ok_inv in E as (r & s1 & E1 & E2).
  apply (safe_rem_strict fuel) in E1; [|apply safe_dec_array|exact Hs].
  assert (Hd : forall s x s', (rem s < fuel)%nat -> decode_ty c t fuel s = (Ok x, s') -> (1 + rem s' <= rem s)%nat).
  { intros s2 x s3 H2 E3. apply (safe_rem_strict fuel) in E3; [lia|apply safe_decode_ty|exact H2]. }
  destruct r as [n|].
  - apply (count_dec_n _ fuel (fun _ => 1%nat) Hd) in E2; [|lia]. rewrite wsum_one in E2. cbn in E2. lia.
  - apply (count_dec_until_break _ fuel (fun _ => 1%nat) Hd) in E2; [|lia]. rewrite wsum_one in E2. cbn in E2. lia.
Qed.

Lemma pushes_arr_rem c n t fuel s l s' : (rem s < fuel)%nat ->
  decode_ty c (TyArr n t) fuel s = (Ok (VList l), s') -> (length l + 1 + rem s' <= rem s)%nat.
Proof.
  intros Hs E. cbn [decode_ty] in E. apply fmap_ok_inv in E as (l0 & E & [= ->]).
  unfold dec_arr in E. apply bind_ok_inv in E as (r & s1 & E1 & E2).
  apply (safe_rem_strict fuel) in E1; [|apply safe_dec_array|exact Hs].
  apply bind_ok_inv in E2 as (l1 & s2 & E2 & E3).
  assert (l1 = l0 /\ s2 = s').
  { destruct (len l1 =? n); [|discriminate]. now injection E3 as <- <-. }
  destruct H as [-> ->]. clear E3.
  assert (Hd : forall s x s', (rem s < fuel)%nat -> decode_ty c t fuel s = (Ok x, s') -> (1 + rem s' <= rem s)%nat).
  { intros s2 x s3 H2 E3. apply (safe_rem_strict fuel) in E3; [lia|apply safe_decode_ty|exact H2]. }
  destruct r as [k|].
  - apply (count_arr_n _ fuel (fun _ => 1%nat) Hd) in E2; [|lia]. rewrite wsum_one in E2. cbn in E2. lia.
  - apply (count_arr_until_break _ fuel (fun _ => 1%nat) Hd) in E2; [|lia]. rewrite wsum_one in E2. cbn in E2. lia.
Qed.

Lemma pushes_map_rem c tk tv fuel s l s' : (rem s < fuel)%nat ->
  decode_ty c (TyMap tk tv) fuel s = (Ok (VList l), s') -> (length l + 1 + rem s' <= rem s)%nat.
Proof.
  intros Hs E. cbn [decode_ty] in E. apply fmap_ok_inv in E as (l0 & E & [= ->]).
  unfold dec_map_seq in E. apply bind_ok_inv in E as (r & s1 & E1 & E2).
  apply (safe_rem_strict fuel) in E1; [|apply safe_dec_map|exact Hs].
  apply bind_ok_inv in E2 as (l1 & s2 & E2 & [= <- <-]).
  assert (Hd : forall s x s', (rem s < fuel)%nat ->
               dec_pair (decode_ty c tk fuel) (decode_ty c tv fuel) s = (Ok x, s') -> (pair_wt x + rem s' <= rem s)%nat).
  { intros s3 x s4 H3 E3. unfold dec_pair in E3.
    apply bind_ok_inv in E3 as (k & s5 & E5 & E3). apply bind_ok_inv in E3 as (v & s6 & E6 & [= <- <-]).
    apply (safe_rem_strict fuel) in E5; [|apply safe_decode_ty|exact H3].
    apply (safe_rem_strict fuel) in E6; [|apply safe_decode_ty|lia]. cbn [pair_wt length]. lia. }
  destruct r as [k|].
  - apply (count_dec_n _ fuel pair_wt Hd) in E2; [|lia]. rewrite wsum_pairs in E2. cbn in E2. lia.
  - apply (count_dec_until_break _ fuel pair_wt Hd) in E2; [|lia]. rewrite wsum_pairs in E2. cbn in E2. lia.
Qed.

(* in N, against the position: elements pushed + 1 (the header) <= bytes consumed *)
Lemma rem_to_pos c t fuel s v s' (k : nat) : st_ok s -> (rem s < fuel)%nat ->
  decode_ty c t fuel s = (Ok v, s') -> (k + 1 + rem s' <= rem s)%nat ->
  N.of_nat k + 1 <= dpos s' - dpos s.
Proof.
  intros H Hs E R.
  destruct (safe_decode_ty c t fuel s Hs _ _ E) as (A1 & _).
  assert (Hp : dpos s <= dlen s).
  { unfold st_ok, len in H. unfold rem in R. lia. }
  pose proof (adv_consumed s s' H Hp A1). lia.
Qed.

Lemma pushes_seq c t fuel s l s' : st_ok s -> (rem s < fuel)%nat ->
  decode_ty c (TySeq t) fuel s = (Ok (VList l), s') -> len l + 1 <= dpos s' - dpos s.
Proof. intros H Hs E. eapply rem_to_pos; eauto. now apply pushes_seq_rem in E. Qed.

Lemma pushes_arr c n t fuel s l s' : st_ok s -> (rem s < fuel)%nat ->
  decode_ty c (TyArr n t) fuel s = (Ok (VList l), s') -> len l + 1 <= dpos s' - dpos s.
Proof. intros H Hs E. eapply rem_to_pos; eauto. now apply pushes_arr_rem in E. Qed.

Lemma pushes_map c tk tv fuel s l s' : st_ok s -> (rem s < fuel)%nat ->
  decode_ty c (TyMap tk tv) fuel s = (Ok (VList l), s') -> len l + 1 <= dpos s' - dpos s.
Proof. intros H Hs E. eapply rem_to_pos; eauto. now apply pushes_map_rem in E. Qed.

(* ---------------------------------------------------------------- progress, as a statement on positions *)
Lemma decode_ty_progress c t fuel s v s' : st_ok s -> (rem s < fuel)%nat ->
  decode_ty c t fuel s = (Ok v, s') -> dpos s + 1 <= dpos s' <= dlen s.
Proof.
  intros H Hs E. destruct (safe_decode_ty c t fuel s Hs _ _ E) as (A1 & _ & _ & S1).
  specialize (S1 eq_refl v eq_refl).
  assert (Hp : dpos s <= dlen s) by (unfold st_ok, len in H; unfold rem in S1; lia).
  pose proof (adv_consumed s s' H Hp A1). pose proof (adv_pos s s' H A1). lia.
Qed.

(* ---------------------------------------------------------------- Size *)
Lemma size_tail_total hd : size_tail hd <> Panic /\ size_tail hd <> OutOfFuel.
Proof.
  destruct hd as [|b r]; cbn [size_tail]; [split; discriminate|].
  assert (G : forall n, fst (unsigned n (start r)) <> Panic /\ fst (unsigned n (start r)) <> OutOfFuel).
  { intro n. pose proof (safe_all_good false (unsigned n) (fun F => safe_unsigned F n) (start r)) as G.
    destruct (good_run _ _ _ G) as (_ & P & O & _). now split. }
  split_ifs; try (split; discriminate);
    destruct (G (info b)) as [P O]; destruct (unsigned (info b) (start r)) as [[n|e| |] s1];
    cbn [fst] in *; split; congruence.
Qed.

Lemma size_head_range b n : size_head b = Some n -> 1 <= n <= 9.
Proof.
  unfold size_head. split_ifs; intros [= <-]; lia.
Qed.

(* ---------------------------------------------------------------- the remaining input is a suffix of the input *)
(* "never reads outside the input": all reads go through drest, and drest is inp[pos..] *)
Definition st_in (inp : bytes) (s : dst) : Prop := dlen s = len inp /\ drest s = dropN inp (dpos s).

Lemma dropN_nil {A} n : dropN (@nil A) n = [].
Proof. cbn [dropN]. now destruct (n =? 0). Qed.

Lemma dropN_app_len {A} (pre r : list A) : dropN (pre ++ r) (len pre) = r.
Proof.
  induction pre as [|x pre IH]; cbn [app].
  - change (len (@nil A)) with 0. destruct r; reflexivity.
  - cbn [dropN]. rewrite len_cons. destruct (N.eqb_spec (1 + len pre) 0); [lia|].
    replace (N.pred (1 + len pre)) with (len pre) by lia. exact IH.
Qed.

Lemma dropN_add {A} (l : list A) : forall a b, dropN l (a + b) = dropN (dropN l a) b.
Proof.
  induction l as [|x l IH]; intros a b.
  - now rewrite !dropN_nil.
  - cbn [dropN]. destruct (N.eqb_spec a 0) as [->|Ha].
    + rewrite N.add_0_l. reflexivity.
    + destruct (N.eqb_spec (a + b) 0); [lia|].
      replace (N.pred (a + b)) with (N.pred a + b) by lia. apply IH.
Qed.

Lemma st_in_start inp : st_in inp (start inp).
Proof. split; [reflexivity|]. cbn [start drest dpos]. destruct inp; reflexivity. Qed.

Lemma st_in_at_pos inp p : st_in inp (at_pos inp p).
Proof. split; reflexivity. Qed.

Lemma st_in_ok inp s : st_in inp s -> st_ok s.
Proof. intros [L R]. unfold st_ok. rewrite R, L. apply len_dropN. Qed.

Lemma st_in_adv inp s s' : st_in inp s -> adv s s' -> st_in inp s'.
Proof.
  intros [L R] [L' (pre & R' & P')]. split; [congruence|].
  rewrite P', dropN_add, <- R, R'. symmetry. apply dropN_app_len.
Qed.

Lemma run_op_st_in c inp o s : st_in inp s -> st_in inp (snd (run_op c inp o s)).
Proof.
  intro H. destruct (is_setpos o) eqn:E.
  - destruct o; try discriminate. cbn [run_op snd]. apply st_in_at_pos.
  - apply st_in_adv with s; [exact H|now apply run_op_adv].
Qed.

(* any safe computation preserves both invariants *)
Lemma good_st_ok {A} b (m : M A) s : good b m s -> st_ok s -> st_ok (snd (m s)).
Proof. intros G H. apply adv_st_ok with s; [exact H|]. apply (good_run _ _ _ G). Qed.

(* ---------------------------------------------------------------- fuel: any amount above the remaining length suffices *)
Lemma decode_ty_fuel c t fuel s : (rem s < fuel)%nat ->
  fst (decode_ty c t fuel s) <> OutOfFuel /\ fst (decode_ty c t fuel s) <> Panic.
Proof. intro Hs. pose proof (good_run _ _ _ (safe_decode_ty c t fuel s Hs)) as (_ & P & O & _). now split. Qed.

Lemma skip_fuel c fuel s : (rem s < fuel)%nat ->
  fst (skip c fuel s) <> OutOfFuel /\ fst (skip c fuel s) <> Panic.
Proof. intro Hs. pose proof (good_run _ _ _ (safe_skip fuel c fuel (le_n _) s Hs)) as (_ & P & O & _). now split. Qed.

Lemma bytes_iter_fuel fuel s : (rem s < fuel)%nat ->
  fst (dec_bytes_iter fuel s) <> OutOfFuel /\ fst (dec_bytes_iter fuel s) <> Panic.
Proof. intro Hs. pose proof (good_run _ _ _ (safe_dec_bytes_iter fuel fuel (le_n _) s Hs)) as (_ & P & O & _). now split. Qed.

Lemma str_iter_fuel fuel s : (rem s < fuel)%nat ->
  fst (dec_str_iter fuel s) <> OutOfFuel /\ fst (dec_str_iter fuel s) <> Panic.
Proof. intro Hs. pose proof (good_run _ _ _ (safe_dec_str_iter fuel fuel (le_n _) s Hs)) as (_ & P & O & _). now split. Qed.

Lemma fuel_suffices c fuel s : (rem s < fuel)%nat ->
  (forall t, fst (decode_ty c t fuel s) <> OutOfFuel) /\
  fst (skip c fuel s) <> OutOfFuel /\
  fst (dec_bytes_iter fuel s) <> OutOfFuel /\
  fst (dec_str_iter fuel s) <> OutOfFuel.
Proof.
  intro Hs. split; [intro t; now apply decode_ty_fuel|]. split; [now apply skip_fuel|].
  split; [now apply bytes_iter_fuel|now apply str_iter_fuel].
Qed.

(* ---------------------------------------------------------------- progress *)
Lemma decode_ty_consumes c t fuel s v s' : (rem s < fuel)%nat ->
  decode_ty c t fuel s = (Ok v, s') -> (rem s' < rem s)%nat.
Proof. intros Hs E. exact (safe_rem_strict fuel _ s v s' (safe_decode_ty c t fuel) Hs E). Qed.

Lemma run_acc_consumes c a s v s' : run_acc c a s = (Ok v, s') -> (rem s' < rem s)%nat.
Proof. intro E. apply (safe_rem_strict (S (rem s)) _ s v s' (safe_run_acc _ c a)); [lia|exact E]. Qed.

Lemma decode_ty_st_ok c t fuel s : (rem s < fuel)%nat -> st_ok s -> st_ok (snd (decode_ty c t fuel s)).
Proof. intros Hs H. apply (good_st_ok true); [now apply safe_decode_ty|exact H]. Qed.

Lemma skip_alloc_reach_loop fuel s fuel2 c2 s2 :
  skip_reach fuel (mksk 1 0 []) s fuel2 c2 s2 -> skip_alloc fuel s = skip_loop fuel2 c2 s2.
Proof. apply skip_reach_loop. Qed.
