(* Proofs/DisplayFacts.v — C19, part 1: the display machine terminates within a linear number of loop
   iterations (fuel), never panics, and its output is linearly bounded. Reasoning on the list machine lm
   (Proofs/MachFacts.v). *)
From MC Require Import Bytes BytesFacts Monad Decoder AdvFacts Text TextFacts Token Tokenizer TokenFacts MachFacts.
From Coq Require Import Lia.
Local Open Scope nat_scope.

Ltac lm_step := unfold lm; cbn [mach with_it lpeek lnext hd_error tl]; fold lm.

(* ---- fuel ---- *)
(* loop iterations an element can cause without a token being consumed *)
Definition psi (e : elt) : nat := match e with EN => 0 | _ => 1 end.
Definition Psi (k : list elt) : nat := fold_right (fun e a => psi e + a) 0 k.
(* reserve for the next expansion step; spent while an EN is on top *)
Definition rsv (E : nat) (k : list elt) : nat := match k with EN :: _ => 0 | _ => E end.

Definition is_done (r : dres) : Prop := exists o, r = DDone o.

Lemma emit_done p r : is_done r -> is_done (emit p r).
Proof. intros [o ->]. eexists. reflexivity. Qed.

Lemma rsv_le E k : rsv E k <= E.
Proof. destruct k as [|[] ?]; cbn; lia. Qed.

Lemma lm_fuel : forall fuel L k, Psi k + rsv 3 k + 5 * length L + 1 <= fuel -> is_done (lm fuel L k).
Proof.
  induction fuel as [|fuel IH]; intros L k H; [lia|].
  destruct k as [|e k].
  - lm_step. destruct L as [|x r]; [eexists; reflexivity|]. cbn [hd_error]. apply IH. cbn in *. lia.
  - pose proof (rsv_le 3 k) as Hr.
    destruct e as [| |o|o| | |s|s]; cbn [Psi fold_right psi rsv] in H; fold (Psi k) in H.
    + lm_step. destruct L as [|[t|e] r]; cbn [hd_error tl length] in *; try (eexists; reflexivity).
      destruct t; try (apply emit_done; apply IH; cbn [Psi fold_right psi rsv length]; fold (Psi k); lia).
      * lm_step. destruct (is_break (hd_error r)) eqn:B.
        -- lm_step. apply emit_done, IH. destruct r; cbn [tl length] in *; lia.
        -- apply emit_done, IH. cbn [Psi fold_right psi rsv length]; fold (Psi k); lia.
      * lm_step. destruct (is_break (hd_error r)) eqn:B.
        -- lm_step. apply emit_done, IH. destruct r; cbn [tl length] in *; lia.
        -- apply emit_done, IH. cbn [Psi fold_right psi rsv length]; fold (Psi k); lia.
    + lm_step. apply IH. cbn [Psi fold_right psi rsv]. fold (Psi k). lia.
    + lm_step. destruct o as [n|].
      * destruct (N.eqb n 0); [apply emit_done, IH; lia|].
        destruct (N.eqb n 1); apply IH; cbn [Psi fold_right psi rsv]; fold (Psi k); lia.
      * destruct L as [|[t|e] r]; cbn [hd_error]; try (eexists; reflexivity);
          [|apply IH; cbn [Psi fold_right psi rsv]; fold (Psi k); lia].
        destruct t; try (apply IH; cbn [Psi fold_right psi rsv]; fold (Psi k); lia).
        lm_step. apply emit_done, IH. cbn [length] in *. lia.
    + lm_step. destruct o as [n|].
      * destruct (N.eqb n 0); [apply emit_done, IH; lia|].
        destruct (N.eqb n 1); apply IH; cbn [Psi fold_right psi rsv]; fold (Psi k); lia.
      * destruct L as [|[t|e] r]; cbn [hd_error]; try (eexists; reflexivity);
          [|apply IH; cbn [Psi fold_right psi rsv]; fold (Psi k); lia].
        destruct t; try (apply IH; cbn [Psi fold_right psi rsv]; fold (Psi k); lia).
        lm_step. apply emit_done, IH. cbn [length] in *. lia.
    + lm_step. destruct L as [|[t|e] r]; cbn [hd_error]; try (eexists; reflexivity);
        [|apply IH; cbn [Psi fold_right psi rsv]; fold (Psi k); lia].
      destruct t; try (apply IH; cbn [Psi fold_right psi rsv]; fold (Psi k); lia).
      lm_step. apply emit_done, IH. cbn [length] in *. lia.
    + lm_step. destruct L as [|[t|e] r]; cbn [hd_error]; try (eexists; reflexivity);
        [|apply IH; cbn [Psi fold_right psi rsv]; fold (Psi k); lia].
      destruct t; try (apply IH; cbn [Psi fold_right psi rsv]; fold (Psi k); lia).
      lm_step. apply emit_done, IH. cbn [length] in *. lia.
    + lm_step. apply emit_done, IH. lia.
    + lm_step. destruct L as [|[t|e] r]; cbn [hd_error]; try (eexists; reflexivity); [apply IH; lia|].
      destruct t; cbv iota; fold lm; first [apply IH; lia | apply emit_done, IH; lia].
Qed.

Lemma lm_fuel_lin L n : length L <= n -> is_done (lm (8 * n + 8) L []).
Proof. intro H. apply lm_fuel. cbn [Psi fold_right rsv]. lia. Qed.

(* C19_total *)
Theorem display_total c bs : (len bs < two64)%N -> exists out, display c bs = DDone out.
Proof.
  intro HL. unfold display. destruct (display_list c (fuel_lin bs) bs HL) as (L & E & ->).
  destruct (tokenise_bound c bs HL) as (L' & E' & Hlen & _). rewrite E in E'. injection E' as <-.
  apply lm_fuel_lin. exact Hlen.
Qed.

(* ---- output size ---- *)
Section Size.
  Variables fl el : nat.     (* length of a float text, length of an error text: parameters *)

  Definition piece_len (p : piece) : nat :=
    match p with PLit b => length b | PFloat _ _ => fl | PErr _ => el end.
  Definition plen (ps : list piece) : nat := fold_right (fun p a => piece_len p + a) 0 ps.

  Lemma plen_app a b : plen (a ++ b) = plen a + plen b.
  Proof. induction a as [|p a IH]; cbn [app plen fold_right]; [reflexivity|]. fold (plen (a ++ b)) (plen a). lia. Qed.

  (* what the EN step writes for token t (the two-token forms ''_ and ""_ have the same length as "(_ ") *)
  Definition ntext (t : token) : list piece :=
    match t with
    | TkArray _ => [PLit [91%N]] | TkMap _ => [PLit [123%N]]
    | TkBeginArray | TkBeginMap | TkBeginBytes | TkBeginString => [PLit [40%N;95%N;32%N]]
    | TkTag n => [PLit (dec_n n ++ [40%N])]
    | t => tok_text t
    end.
  Definition iw (x : titem) : nat := match x with IOk t => plen (ntext t) + 5 | IErr _ => 0 end.
  Definition Wt (L : list titem) : nat := fold_right (fun x a => iw x + a) 0 L.
  Definition phi (e : elt) : nat := match e with ES s | EX s => length s | EN => 0 | _ => 1 end.
  Definition Phi (k : list elt) : nat := fold_right (fun e a => phi e + a) 0 k.

  Lemma plen_lit b : plen [PLit b] = length b.
  Proof. cbn. lia. Qed.

  Lemma emit_inv p r out : emit p r = DDone out -> exists o, r = DDone o /\ out = p ++ o.
  Proof. destruct r; cbn; intro H; try discriminate. injection H as <-. eauto. Qed.

  Ltac fin IH H :=
    first [ apply emit_inv in H; destruct H as (?o & H & ->); apply IH in H; rewrite plen_app
          | apply IH in H ];
    cbn [Phi fold_right phi rsv Wt iw ntext] in *; rewrite ?plen_lit in *; cbn [length] in *;
    change (length l_comma) with 2 in *; change (length l_colon) with 2 in *;
    repeat match goal with |- context [fold_right (fun e a => phi e + a) 0 ?k] => fold (Phi k) end;
    repeat match goal with H0 : context [fold_right (fun e a => phi e + a) 0 ?k] |- _ => fold (Phi k) in H0 end;
    repeat match goal with |- context [fold_right (fun x a => iw x + a) 0 ?k] => fold (Wt k) end;
    repeat match goal with H0 : context [fold_right (fun x a => iw x + a) 0 ?k] |- _ => fold (Wt k) in H0 end;
    try lia.

  Lemma lm_out : forall fuel L k out, lm fuel L k = DDone out ->
    plen out <= Phi k + rsv 4 k + Wt L + 38 + el.
  Proof.
    induction fuel as [|fuel IH]; intros L k out H; [discriminate|].
    destruct k as [|e k].
    - revert H. lm_step. destruct L as [|x r]; cbn [hd_error]; intro H.
      + injection H as <-. cbn. lia.
      + fin IH H.
    - pose proof (rsv_le 4 k) as Hr.
      destruct e as [| |o|o| | |s|s]; revert H; lm_step.
      + destruct L as [|[t|e] r]; cbn [hd_error tl]; intro H.
        * injection H as <-. cbn. lia.
        * destruct t; try (fin IH H; fail).
          -- revert H. lm_step. destruct r as [|[[]|] r']; cbn [hd_error tl is_break]; lm_step; intro H; fin IH H.
          -- revert H. lm_step. destruct r as [|[[]|] r']; cbn [hd_error tl is_break]; lm_step; intro H; fin IH H.
        * injection H as <-. cbn. lia.
      + intro H. fin IH H.
      + destruct o as [n|].
        * destruct (N.eqb n 0); [|destruct (N.eqb n 1)]; intro H; fin IH H.
        * destruct L as [|[t|e] r]; cbn [hd_error tl]; intro H.
          -- injection H as <-. cbn. lia.
          -- destruct t; try (fin IH H; fail); revert H; lm_step; intro H; fin IH H.
          -- fin IH H.
      + destruct o as [n|].
        * destruct (N.eqb n 0); [|destruct (N.eqb n 1)]; intro H; fin IH H.
        * destruct L as [|[t|e] r]; cbn [hd_error tl]; intro H.
          -- injection H as <-. cbn. lia.
          -- destruct t; try (fin IH H; fail); revert H; lm_step; intro H; fin IH H.
          -- fin IH H.
      + destruct L as [|[t|e] r]; cbn [hd_error tl]; intro H.
        * injection H as <-. cbn. lia.
        * destruct t; try (fin IH H; fail); revert H; lm_step; intro H; fin IH H.
        * fin IH H.
      + destruct L as [|[t|e] r]; cbn [hd_error tl]; intro H.
        * injection H as <-. cbn. lia.
        * destruct t; try (fin IH H; fail); revert H; lm_step; intro H; fin IH H.
        * fin IH H.
      + intro H. fin IH H.
      + destruct L as [|[t|e] r]; cbn [hd_error tl]; intro H.
        * fin IH H.
        * destruct t; cbv iota in H; fold lm in H; fin IH H.
        * injection H as <-. cbn. lia.
  Qed.

  Definition pay (t : token) : nat := match t with TkBytes b | TkString b => length b | _ => 0 end.

  Lemma ntext_len t : tok_small t = true -> plen (ntext t) <= fl + 21 + 3 * pay t.
  Proof.
    destruct t; cbn [tok_small ntext tok_text pay]; intro H;
      rewrite ?plen_lit; cbn [plen fold_right piece_len]; rewrite ?app_length; cbn [length];
      try (apply N.ltb_lt in H);
      try (match goal with H0 : (?x < two64)%N |- _ => pose proof (dec_n_len64 x H0) end); try lia.
    - destruct b; cbn; lia.
    - unfold zsmall in H. apply andb_prop in H as [H1 H2]. apply Z.leb_le in H1, H2. pose proof (dec_z_len z ltac:(lia)). lia.
    - unfold zsmall in H. apply andb_prop in H as [H1 H2]. apply Z.leb_le in H1, H2. pose proof (dec_z_len z ltac:(lia)). lia.
    - unfold zsmall in H. apply andb_prop in H as [H1 H2]. apply Z.leb_le in H1, H2. pose proof (dec_z_len z ltac:(lia)). lia.
    - unfold zsmall in H. apply andb_prop in H as [H1 H2]. apply Z.leb_le in H1, H2. pose proof (dec_z_len z ltac:(lia)). lia.
    - assert (Hz: (- 18446744073709551616 <= int_val i < 18446744073709551616)%Z).
      { unfold int_val. unfold two64 in H. destruct (fst i); lia. }
      pose proof (dec_z_len _ Hz). lia.
    - pose proof (hex_spaced_len b). lia.
    - rewrite app_length. cbn [length]. lia.
    - match goal with H0 : (?x < 256)%N |- _ => pose proof (dec_n_len8 x H0) end. change (length s_simple) with 7. lia.
    - cbn. lia.
    - cbn. lia.
  Qed.

  Lemma Wt_weight L : forallb item_small L = true -> Wt L <= (fl + 26) * N.to_nat (weight L).
  Proof.
    induction L as [|x L IH]; intro H; [cbn; lia|].
    cbn [forallb] in H. apply andb_prop in H as [H1 H2]. specialize (IH H2).
    cbn [Wt fold_right weight]. fold (Wt L) (weight L).
    assert (Hx: iw x <= (fl + 26) * N.to_nat (itemw x)).
    { destruct x as [t|e]; cbn [iw itemw item_small] in *; [|lia].
      pose proof (ntext_len t H1) as Hn.
      assert (N.to_nat (tokw t) = 1 + pay t) as ->.
      { unfold tokw, payload, pay. destruct t; try reflexivity; unfold len; lia. }
      nia. }
    rewrite Nnat.N2Nat.inj_add. nia.
  Qed.
End Size.

(* C19_bound: A = fl + 26, B = el + 42 *)
Theorem display_bound fl el c bs : (len bs < two64)%N -> bytes_ok bs = true ->
  exists out, display c bs = DDone out /\ plen fl el out <= (fl + 26) * length bs + (el + 42).
Proof.
  intros HL Hb. destruct (display_total c bs HL) as (out & E). exists out. split; [exact E|].
  unfold display in E. destruct (display_list c (fuel_lin bs) bs HL) as (L & T & D). rewrite D in E.
  apply (lm_out fl el) in E. cbn [Phi fold_right rsv] in E.
  destruct (tokenise_bound c bs HL) as (L' & T' & _ & W & _). rewrite T in T'. injection T' as <-.
  assert (S: forallb item_small L = true).
  { unfold tokenise in T. eapply tokenise_small; [apply wfd_start|exact HL|exact Hb|exact T]. }
  pose proof (Wt_weight fl el L S) as HW.
  assert (N.to_nat (weight L) <= length bs) by (unfold len in W; lia).
  nia.
Qed.

