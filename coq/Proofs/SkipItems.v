(* Proofs/SkipItems.v — one iteration of Decoder::skip's loop on each kind of token of a serialised item
   (C06): which arm of the match is taken, what it consumes, and that it reports end of input on every
   strict prefix of the token.  The loop-level simulation is in SkipSim.v. *)
From MC Require Import Bytes BytesFacts Monad Cbor Utf8 Half Decoder Acc Accessors DecoderFacts IntFacts.
From Coq Require Import Lia.
Local Open Scope N_scope.

(* ---- small list facts ---- *)
Lemma app_split {A} (a b w : list A) x t : a ++ b = w ++ x :: t ->
  (exists t', a = w ++ x :: t' /\ t = t' ++ b) \/ (exists w', w = a ++ w' /\ b = w' ++ x :: t).
Proof.
  revert w. induction a as [|y a IH]; intros w H; cbn [app] in H.
  - right. exists w. split; [reflexivity|exact H].
  - destruct w as [|z w]; cbn [app] in H.
    + injection H as -> <-. left. exists a. split; reflexivity.
    + injection H as -> H. destruct (IH _ H) as [(t' & -> & ->)|(w' & -> & ->)].
      * left. exists t'. split; reflexivity.
      * right. exists w'. split; reflexivity.
Qed.

Lemma len_lt_of_split {A} (l a : list A) x t : l = a ++ x :: t -> len a < len l.
Proof. intros ->. rewrite len_app, len_cons. lia. Qed.

Definition eoi {A} (r : result A * dst) : Prop := exists q, r = (Err EndOfInput, q).

Lemma bind_eoi {A B} (m : M A) (f : A -> M B) s : eoi (m s) -> eoi (bind m f s).
Proof. intros (q & H). exists q. now apply bind_err. Qed.
Lemma fmap_eoi {A B} (g : A -> B) (m : M A) s : eoi (m s) -> eoi (fmap g m s).
Proof. intros (q & H). exists q. now apply fmap_err. Qed.

(* ---- heads ---- *)
Lemma len_head1 mt w n : len (Cbor.head mt w n) = 1 + len (args w n).
Proof. rewrite head_split, len_cons. reflexivity. Qed.

Lemma head_app mt w n r : Cbor.head mt w n ++ r = ib mt w n :: (args w n ++ r).
Proof. rewrite head_split. reflexivity. Qed.

Lemma ib_range mt w n : fits w n = true -> mt * 32 <= ib mt w n <= mt * 32 + 27.
Proof. intro H. apply ai_lt in H. unfold ib. lia. Qed.

Lemma unsigned_args_short w n a x t p L : fits w n = true -> args w n = a ++ x :: t ->
  eoi (unsigned (ai w n) (mkdst p a L)).
Proof.
  intros Hf E. pose proof (len_lt_of_split _ _ _ _ E) as Hl. rewrite len_args in Hl.
  unfold unsigned. destruct w; cbn [fits ai args] in *.
  - destruct a; discriminate.
  - destruct a as [|? [|? ?]]; try discriminate. eexists. reflexivity.
  - change (25 <=? 23) with false. change (25 =? 24) with false. change (25 =? 25) with true. cbv iota.
    apply fmap_eoi. eexists. apply read_slice_short. exact Hl.
  - change (26 <=? 23) with false. change (26 =? 24) with false. change (26 =? 25) with false. change (26 =? 26) with true. cbv iota.
    apply fmap_eoi. eexists. apply read_slice_short. exact Hl.
  - change (27 <=? 23) with false. change (27 =? 24) with false. change (27 =? 25) with false. change (27 =? 26) with false.
    change (27 =? 27) with true. cbv iota.
    apply fmap_eoi. eexists. apply read_slice_short. exact Hl.
Qed.

(* read the initial byte, then its argument: tags and major type 7 in skip; also the core of array/map/tag *)
Definition read_head : M N := b <- read ;; unsigned (info b).

Lemma read_head_ok mt w n r p L : fits w n = true -> p + len (Cbor.head mt w n) <= L ->
  read_head (mkdst p (Cbor.head mt w n ++ r) L) = (Ok n, mkdst (p + len (Cbor.head mt w n)) r L).
Proof.
  intros Hf HL. rewrite len_head1 in *. rewrite head_split. cbn [app]. unfold read_head.
  rewrite (bind_ok _ _ _ _ _ (read_cons _ _ _ _)). rewrite info_ib by exact Hf.
  rewrite (unsigned_args w n r (p + 1) L Hf ltac:(lia)).
  replace (p + 1 + len (args w n)) with (p + (1 + len (args w n))) by lia. reflexivity.
Qed.

Lemma read_head_short mt w n a x t p L : fits w n = true -> Cbor.head mt w n = a ++ x :: t ->
  eoi (read_head (mkdst p a L)).
Proof.
  intros Hf E. rewrite head_split in E. unfold read_head. destruct a as [|b a].
  - eexists. reflexivity.
  - cbn [app] in E. injection E as <- E. rewrite (bind_ok _ _ _ _ _ (read_cons _ _ _ _)).
    rewrite info_ib by exact Hf. eapply unsigned_args_short; eassumption.
Qed.

(* ---- which arm of the match (decoder.rs:500-575) a first byte selects ---- *)
Section arms.
  Variables (fuel : nat) (c : skst) (b : N) (t : bytes) (p L : N).
  Let s := mkdst p (b :: t) L.

  Ltac arm := unfold skip_step; rewrite (bind_ok _ _ _ _ _ (current_cons _ _ _ _));
    repeat match goal with
    | |- context [if (?x <=? ?y) && (?u <=? ?v) then _ else _] =>
        destruct (N.leb_spec x y); destruct (N.leb_spec u v); cbn [andb]; try lia
    | |- context [if ?x <=? ?y then _ else _] => destruct (N.leb_spec x y); try lia
    | |- context [if ?x =? ?y then _ else _] => destruct (N.eqb_spec x y); try lia
    end; try reflexivity.

  Lemma arm_uint : b <= 27 -> skip_step fuel c s = (dec_u64 ;;; ret (skip_after c)) s.
  Proof. intro H. subst s. arm. Qed.
  Lemma arm_nint : 32 <= b <= 59 -> skip_step fuel c s = (dec_int ;;; ret (skip_after c)) s.
  Proof. intro H. subst s. arm. Qed.
  Lemma arm_bytes : 64 <= b <= 95 -> skip_step fuel c s = (dec_bytes_iter fuel ;;; ret (skip_after c)) s.
  Proof. intro H. subst s. arm. Qed.
  Lemma arm_text : 96 <= b <= 127 -> skip_step fuel c s = (dec_str_iter fuel ;;; ret (skip_after c)) s.
  Proof. intro H. subst s. arm. Qed.
  Lemma arm_array : 128 <= b <= 159 -> skip_step fuel c s =
    (r <- dec_array ;; ret (skip_after (match r with Some n => skip_definite c n | None => skip_indefinite c end))) s.
  Proof. intro H. subst s. arm. Qed.
  Lemma arm_map : 160 <= b <= 191 -> skip_step fuel c s =
    (r <- dec_map ;; ret (skip_after (match r with Some n => skip_definite c (sat_mul n 2) | None => skip_indefinite c end))) s.
  Proof. intro H. subst s. arm. Qed.
  Lemma arm_tag : 192 <= b <= 219 -> skip_step fuel c s = (read_head ;;; ret (Some c)) s.
  Proof. intro H. subst s. arm. Qed.
  Lemma arm_simple : 224 <= b <= 251 -> skip_step fuel c s = (read_head ;;; ret (skip_after c)) s.
  Proof. intro H. subst s. arm. Qed.
  Lemma arm_break : b = 255 -> skip_step fuel c s = (read ;;; ret (skip_after (skip_break c))) s.
  Proof. intro H. subst s. arm. Qed.
End arms.

Lemma step_nil fuel c p L : skip_step fuel c (mkdst p [] L) = (Err EndOfInput, mkdst p [] L).
Proof. reflexivity. Qed.

Lemma fits_u64 w n : fits w n = true -> n <= 18446744073709551615.
Proof. destruct w; cbn [fits]; intro H; apply N.ltb_lt in H; lia. Qed.

Lemma ai_ne31 w n : fits w n = true -> (ai w n =? 31) = false.
Proof. intro H. apply ai_lt in H. apply N.eqb_neq. lia. Qed.

(* what one loop iteration does on a complete token / on a strict prefix of it *)
Definition tok_ok (fuel : nat) (bs : bytes) (f : skst -> option skst) : Prop :=
  forall c p L rest, p + len bs <= L ->
    skip_step fuel c (mkdst p (bs ++ rest) L) = (Ok (f c), mkdst (p + len bs) rest L).
Definition tok_short (fuel : nat) (bs : bytes) : Prop :=
  forall c p L a x t, bs = a ++ x :: t -> p + len a <= L -> eoi (skip_step fuel c (mkdst p a L)).

(* ---- major types 0, 1, 7 and tags: a head and nothing else ---- *)
Lemma tok_uint fuel w n : fits w n = true -> tok_ok fuel (Cbor.head 0 w n) skip_after.
Proof.
  intros Hf c p L rest HL. pose proof (ib_range 0 w n Hf) as Hb.
  rewrite head_app. rewrite arm_uint by lia. rewrite <- head_app.
  change dec_u64 with (dec_uint 18446744073709551615).
  assert (E: dec_uint 18446744073709551615 (mkdst p (Cbor.head 0 w n ++ rest) L)
             = (Ok n, mkdst (p + len (Cbor.head 0 w n)) rest L)).
  { rewrite dec_uint_uint by assumption.
    destruct (N.leb_spec n 18446744073709551615) as [_|Hn]; [reflexivity|].
    apply fits_u64 in Hf. lia. }
  rewrite (bind_ok _ _ _ _ _ E). reflexivity.
Qed.

Lemma tok_uint_short fuel w n : fits w n = true -> tok_short fuel (Cbor.head 0 w n).
Proof.
  intros Hf c p L a x t E HL. pose proof (ib_range 0 w n Hf) as Hb. rewrite head_split in E.
  destruct a as [|b a]; [eexists; apply step_nil|]. cbn [app] in E. injection E as <- E.
  rewrite arm_uint by lia. apply bind_eoi. unfold dec_u64, dec_uint.
  rewrite (bind_ok _ _ _ _ _ (read_cons _ _ _ _)). apply bind_eoi. rewrite ib0.
  eapply unsigned_args_short; eassumption.
Qed.

Lemma tok_nint fuel w n : fits w n = true -> tok_ok fuel (Cbor.head 1 w n) skip_after.
Proof.
  intros Hf c p L rest HL. pose proof (ib_range 1 w n Hf) as Hb.
  rewrite head_app. rewrite arm_nint by lia. rewrite <- head_app.
  erewrite bind_ok by (apply dec_int_nint; assumption). reflexivity.
Qed.

Lemma tok_nint_short fuel w n : fits w n = true -> tok_short fuel (Cbor.head 1 w n).
Proof.
  intros Hf c p L a x t E HL. pose proof (ib_range 1 w n Hf) as Hb. rewrite head_split in E.
  destruct a as [|b a]; [eexists; apply step_nil|]. cbn [app] in E. injection E as <- E.
  rewrite arm_nint by lia. apply bind_eoi. unfold dec_int.
  rewrite (bind_ok _ _ _ _ _ (read_cons _ _ _ _)).
  destruct (N.leb_spec (ib 1 w n) 27); [lia|].
  destruct (N.leb_spec 32 (ib 1 w n)); [|lia]. destruct (N.leb_spec (ib 1 w n) 59); [|lia]. cbn [andb].
  apply bind_eoi. replace (ib 1 w n - 32) with (ai w n) by (unfold ib; lia).
  eapply unsigned_args_short; eassumption.
Qed.

Lemma tok_simple fuel w n : fits w n = true -> tok_ok fuel (Cbor.head 7 w n) skip_after.
Proof.
  intros Hf c p L rest HL. pose proof (ib_range 7 w n Hf) as Hb.
  rewrite head_app. rewrite arm_simple by lia. rewrite <- head_app.
  erewrite bind_ok by (apply read_head_ok; assumption). reflexivity.
Qed.

Lemma tok_simple_short fuel w n : fits w n = true -> tok_short fuel (Cbor.head 7 w n).
Proof.
  intros Hf c p L a x t E HL. pose proof (ib_range 7 w n Hf) as Hb.
  destruct a as [|b a]; [eexists; apply step_nil|].
  pose proof E as E'. rewrite head_split in E'. cbn [app] in E'. injection E' as <- _.
  rewrite arm_simple by lia. apply bind_eoi. eapply read_head_short; eassumption.
Qed.

Lemma tok_tag fuel w n : fits w n = true -> tok_ok fuel (Cbor.head 6 w n) (fun c => Some c).
Proof.
  intros Hf c p L rest HL. pose proof (ib_range 6 w n Hf) as Hb.
  rewrite head_app. rewrite arm_tag by lia. rewrite <- head_app.
  erewrite bind_ok by (apply read_head_ok; assumption). reflexivity.
Qed.

Lemma tok_tag_short fuel w n : fits w n = true -> tok_short fuel (Cbor.head 6 w n).
Proof.
  intros Hf c p L a x t E HL. pose proof (ib_range 6 w n Hf) as Hb.
  destruct a as [|b a]; [eexists; apply step_nil|].
  pose proof E as E'. rewrite head_split in E'. cbn [app] in E'. injection E' as <- _.
  rewrite arm_tag by lia. apply bind_eoi. eapply read_head_short; eassumption.
Qed.

(* ---- array and map headers ---- *)
Lemma dec_container_def mt w n r p L : fits w n = true -> p + len (Cbor.head mt w n) <= L ->
  dec_container (mt * 32) (mkdst p (Cbor.head mt w n ++ r) L) = (Ok (Some n), mkdst (p + len (Cbor.head mt w n)) r L).
Proof.
  intros Hf HL. rewrite len_head1 in *. rewrite head_split. cbn [app]. unfold dec_container.
  rewrite (bind_ok _ _ _ _ _ (read_cons _ _ _ _)). rewrite major_ib, info_ib, N.eqb_refl, ai_ne31 by exact Hf.
  cbn [negb]. rewrite (bind_ok _ _ _ _ _ (unsigned_args w n r (p + 1) L Hf ltac:(lia))).
  replace (p + 1 + len (args w n)) with (p + (1 + len (args w n))) by lia. reflexivity.
Qed.

Lemma dec_container_short mt w n a x t p L : fits w n = true -> Cbor.head mt w n = a ++ x :: t ->
  eoi (dec_container (mt * 32) (mkdst p a L)).
Proof.
  intros Hf E. rewrite head_split in E. unfold dec_container. destruct a as [|b a].
  - eexists. reflexivity.
  - cbn [app] in E. injection E as <- E. rewrite (bind_ok _ _ _ _ _ (read_cons _ _ _ _)).
    rewrite major_ib, info_ib, N.eqb_refl, ai_ne31 by exact Hf. cbn [negb].
    apply bind_eoi. eapply unsigned_args_short; eassumption.
Qed.

Lemma tok_array fuel w n : fits w n = true ->
  tok_ok fuel (Cbor.head 4 w n) (fun c => skip_after (skip_definite c n)).
Proof.
  intros Hf c p L rest HL. pose proof (ib_range 4 w n Hf) as Hb.
  rewrite head_app. rewrite arm_array by lia. rewrite <- head_app.
  change dec_array with (dec_container (4 * 32)).
  erewrite bind_ok by (apply dec_container_def; assumption). reflexivity.
Qed.

Lemma tok_array_short fuel w n : fits w n = true -> tok_short fuel (Cbor.head 4 w n).
Proof.
  intros Hf c p L a x t E HL. pose proof (ib_range 4 w n Hf) as Hb.
  destruct a as [|b a]; [eexists; apply step_nil|].
  pose proof E as E'. rewrite head_split in E'. cbn [app] in E'. injection E' as <- _.
  rewrite arm_array by lia. apply bind_eoi. change dec_array with (dec_container (4 * 32)).
  eapply dec_container_short; eassumption.
Qed.

Lemma tok_map fuel w n : fits w n = true ->
  tok_ok fuel (Cbor.head 5 w n) (fun c => skip_after (skip_definite c (sat_mul n 2))).
Proof.
  intros Hf c p L rest HL. pose proof (ib_range 5 w n Hf) as Hb.
  rewrite head_app. rewrite arm_map by lia. rewrite <- head_app.
  change dec_map with (dec_container (5 * 32)).
  erewrite bind_ok by (apply dec_container_def; assumption). reflexivity.
Qed.

Lemma tok_map_short fuel w n : fits w n = true -> tok_short fuel (Cbor.head 5 w n).
Proof.
  intros Hf c p L a x t E HL. pose proof (ib_range 5 w n Hf) as Hb.
  destruct a as [|b a]; [eexists; apply step_nil|].
  pose proof E as E'. rewrite head_split in E'. cbn [app] in E'. injection E' as <- _.
  rewrite arm_map by lia. apply bind_eoi. change dec_map with (dec_container (5 * 32)).
  eapply dec_container_short; eassumption.
Qed.

Lemma one_byte_short (b : N) a x t : [b] = a ++ x :: t -> a = [].
Proof. destruct a as [|? [|? ?]]; [reflexivity|discriminate|discriminate]. Qed.

Lemma tok_array_indef fuel : tok_ok fuel [159] (fun c => skip_after (skip_indefinite c)).
Proof.
  intros c p L rest HL. cbn [app]. rewrite arm_array by lia. reflexivity.
Qed.
Lemma tok_map_indef fuel : tok_ok fuel [191] (fun c => skip_after (skip_indefinite c)).
Proof.
  intros c p L rest HL. cbn [app]. rewrite arm_map by lia. reflexivity.
Qed.
Lemma tok_break fuel : tok_ok fuel [255] (fun c => skip_after (skip_break c)).
Proof.
  intros c p L rest HL. cbn [app]. rewrite arm_break by reflexivity. reflexivity.
Qed.
Lemma tok_one_short fuel b : tok_short fuel [b].
Proof. intros c p L a x t E HL. apply one_byte_short in E as ->. eexists. apply step_nil. Qed.

(* ---- strings ---- *)
Lemma major_ib_eqb mt w n : fits w n = true -> (major (ib mt w n) =? mt * 32) = true.
Proof. intro H. rewrite major_ib by exact H. apply N.eqb_refl. Qed.

(* Decoder::bytes / Decoder::str on one definite-length string (they are the chunk readers) *)
Lemma dec_bytes_ok w b r p L : fits w (len b) = true -> p + len (Cbor.head 2 w (len b) ++ b) <= L ->
  dec_bytes (mkdst p ((Cbor.head 2 w (len b) ++ b) ++ r) L) = (Ok b, mkdst (p + len (Cbor.head 2 w (len b) ++ b)) r L).
Proof.
  intros Hf HL. rewrite len_app, len_head1 in *. rewrite <- app_assoc, head_app. unfold dec_bytes.
  rewrite (bind_ok _ _ _ _ _ (read_cons _ _ _ _)).
  change 0x40 with (2 * 32). rewrite major_ib_eqb, info_ib, ai_ne31 by exact Hf. cbn [negb orb].
  rewrite (bind_ok _ _ _ _ _ (unsigned_args w (len b) (b ++ r) (p + 1) L Hf ltac:(lia))).
  rewrite read_slice_app by lia.
  replace (p + (1 + len (args w (len b)) + len b)) with (p + 1 + len (args w (len b)) + len b) by lia. reflexivity.
Qed.

Lemma dec_str_ok w b r p L : fits w (len b) = true -> utf8_valid b = true -> p + len (Cbor.head 3 w (len b) ++ b) <= L ->
  dec_str (mkdst p ((Cbor.head 3 w (len b) ++ b) ++ r) L) = (Ok b, mkdst (p + len (Cbor.head 3 w (len b) ++ b)) r L).
Proof.
  intros Hf Hu HL. rewrite len_app, len_head1 in *. rewrite <- app_assoc, head_app. unfold dec_str.
  rewrite (bind_ok _ _ _ _ _ (read_cons _ _ _ _)).
  change 0x60 with (3 * 32). rewrite major_ib_eqb, info_ib, ai_ne31 by exact Hf. cbn [negb orb].
  rewrite (bind_ok _ _ _ _ _ (unsigned_args w (len b) (b ++ r) (p + 1) L Hf ltac:(lia))).
  rewrite (bind_ok _ _ _ _ _ (read_slice_app b r (p + 1 + len (args w (len b))) L ltac:(lia))). rewrite Hu.
  replace (p + (1 + len (args w (len b)) + len b)) with (p + 1 + len (args w (len b)) + len b) by lia. reflexivity.
Qed.

(* a strict prefix of head ++ payload: the argument is cut, or the payload is *)
Lemma str_short {A} (m : N -> M A) mt w (b : bytes) a x t p L :
  fits w (len b) = true -> Cbor.head mt w (len b) ++ b = a ++ x :: t -> p + len a <= L -> a <> [] ->
  (forall s, len b <> 0 -> eoi (read_slice (len b) s) -> eoi (m (len b) s)) ->
  exists a', a = ib mt w (len b) :: a' /\
    eoi ((n <- unsigned (ai w (len b)) ;; m n) (mkdst (p + 1) a' L)).
Proof.
  intros Hf E HL Ha Hm. rewrite head_split in E. destruct a as [|b0 a]; [congruence|]. cbn [app] in E.
  injection E as <- E. exists a. split; [reflexivity|].
  apply app_split in E as [(t' & E & _)|(w' & -> & E)].
  - apply bind_eoi. eapply unsigned_args_short; eassumption.
  - rewrite len_cons, len_app in HL.
    rewrite (bind_ok _ _ _ _ _ (unsigned_args w (len b) w' (p + 1) L Hf ltac:(lia))).
    apply Hm.
    + rewrite E, len_app, len_cons. lia.
    + eexists. apply read_slice_short. eapply len_lt_of_split. exact E.
Qed.

Lemma dec_bytes_short w b a x t p L : fits w (len b) = true -> Cbor.head 2 w (len b) ++ b = a ++ x :: t ->
  p + len a <= L -> a <> [] -> eoi (dec_bytes (mkdst p a L)).
Proof.
  intros Hf E HL Ha.
  destruct (str_short read_slice 2 w b a x t p L Hf E HL Ha ltac:(auto)) as (a' & -> & H).
  unfold dec_bytes. rewrite (bind_ok _ _ _ _ _ (read_cons _ _ _ _)).
  change 0x40 with (2 * 32). rewrite major_ib_eqb, info_ib, ai_ne31 by exact Hf. cbn [negb orb]. exact H.
Qed.

Lemma dec_str_short w b a x t p L : fits w (len b) = true -> Cbor.head 3 w (len b) ++ b = a ++ x :: t ->
  p + len a <= L -> a <> [] -> eoi (dec_str (mkdst p a L)).
Proof.
  intros Hf E HL Ha.
  destruct (str_short (fun n => d <- read_slice n ;; if utf8_valid d then ret d else fail Utf8) 3 w b a x t p L Hf E HL Ha
              ltac:(intros; now apply bind_eoi)) as (a' & -> & H).
  unfold dec_str. rewrite (bind_ok _ _ _ _ _ (read_cons _ _ _ _)).
  change 0x60 with (3 * 32). rewrite major_ib_eqb, info_ib, ai_ne31 by exact Hf. cbn [negb orb]. exact H.
Qed.

(* definite strings through the iterators, as skip drains them *)
Lemma tok_bytes fuel w b : fits w (len b) = true -> tok_ok fuel (Cbor.head 2 w (len b) ++ b) skip_after.
Proof.
  intros Hf c p L rest HL. pose proof (ib_range 2 w (len b) Hf) as Hb.
  rewrite <- app_assoc, head_app. rewrite arm_bytes by lia.
  rewrite len_app, len_head1 in *. unfold dec_bytes_iter.
  unfold bind at 1. unfold bind at 1. rewrite read_cons.
  change 0x40 with (2 * 32). rewrite major_ib_eqb, info_ib, ai_ne31 by exact Hf. cbn [negb].
  rewrite (bind_ok _ _ _ _ _ (unsigned_args w (len b) (b ++ rest) (p + 1) L Hf ltac:(lia))).
  destruct (N.eqb_spec (len b) 0) as [E0|E0].
  - destruct b; [|rewrite len_cons in E0; lia]. cbn [app]. change (len (@nil N)) with 0.
    replace (p + (1 + len (args w 0) + 0)) with (p + 1 + len (args w 0)) by lia. reflexivity.
  - rewrite (bind_ok _ _ _ _ _ (read_slice_app b rest (p + 1 + len (args w (len b))) L ltac:(lia))).
    replace (p + (1 + len (args w (len b)) + len b)) with (p + 1 + len (args w (len b)) + len b) by lia. reflexivity.
Qed.

Lemma tok_bytes_short fuel w b : fits w (len b) = true -> tok_short fuel (Cbor.head 2 w (len b) ++ b).
Proof.
  intros Hf c p L a x t E HL. pose proof (ib_range 2 w (len b) Hf) as Hb.
  destruct a as [|b0 a]; [eexists; apply step_nil|].
  destruct (str_short (fun n => if n =? 0 then ret [] else c0 <- read_slice n ;; ret [c0]) 2 w b _ x t p L Hf E HL ltac:(discriminate))
    as (a' & [= -> ->] & H).
  { intros s Hn Hs. destruct (N.eqb_spec (len b) 0) as [|_]; [contradiction|]. now apply bind_eoi. }
  rewrite arm_bytes by lia. apply bind_eoi. unfold dec_bytes_iter.
  rewrite (bind_ok _ _ _ _ _ (read_cons _ _ _ _)).
  change 0x40 with (2 * 32). rewrite major_ib_eqb, info_ib, ai_ne31 by exact Hf. cbn [negb]. exact H.
Qed.

Lemma tok_text fuel w b : fits w (len b) = true -> utf8_valid b = true -> tok_ok fuel (Cbor.head 3 w (len b) ++ b) skip_after.
Proof.
  intros Hf Hu c p L rest HL. pose proof (ib_range 3 w (len b) Hf) as Hb.
  rewrite <- app_assoc, head_app. rewrite arm_text by lia.
  rewrite len_app, len_head1 in *. unfold dec_str_iter.
  unfold bind at 1. unfold bind at 1. rewrite read_cons.
  change 0x60 with (3 * 32). rewrite major_ib_eqb, info_ib, ai_ne31 by exact Hf. cbn [negb].
  rewrite (bind_ok _ _ _ _ _ (unsigned_args w (len b) (b ++ rest) (p + 1) L Hf ltac:(lia))).
  destruct (N.eqb_spec (len b) 0) as [E0|E0].
  - destruct b; [|rewrite len_cons in E0; lia]. cbn [app]. change (len (@nil N)) with 0.
    replace (p + (1 + len (args w 0) + 0)) with (p + 1 + len (args w 0)) by lia. reflexivity.
  - rewrite (bind_ok _ _ _ _ _ (read_slice_app b rest (p + 1 + len (args w (len b))) L ltac:(lia))). rewrite Hu.
    replace (p + (1 + len (args w (len b)) + len b)) with (p + 1 + len (args w (len b)) + len b) by lia. reflexivity.
Qed.

Lemma tok_text_short fuel w b : fits w (len b) = true -> tok_short fuel (Cbor.head 3 w (len b) ++ b).
Proof.
  intros Hf c p L a x t E HL. pose proof (ib_range 3 w (len b) Hf) as Hb.
  destruct a as [|b0 a]; [eexists; apply step_nil|].
  destruct (str_short (fun n => if n =? 0 then ret [] else c0 <- read_slice n ;; if utf8_valid c0 then ret [c0] else fail Utf8)
              3 w b _ x t p L Hf E HL ltac:(discriminate))
    as (a' & [= -> ->] & H).
  { intros s Hn Hs. destruct (N.eqb_spec (len b) 0) as [|_]; [contradiction|]. now apply bind_eoi. }
  rewrite arm_text by lia. apply bind_eoi. unfold dec_str_iter.
  rewrite (bind_ok _ _ _ _ _ (read_cons _ _ _ _)).
  change 0x60 with (3 * 32). rewrite major_ib_eqb, info_ib, ai_ne31 by exact Hf. cbn [negb]. exact H.
Qed.

(* ---- chunked strings: 5f / 7f, definite chunks, break ---- *)
Definition chunk_good (mt : N) (one : M bytes) (c : chunk_t) : Prop :=
  (forall r p L, p + len (ser_chunk mt c) <= L ->
     one (mkdst p (ser_chunk mt c ++ r) L) = (Ok (snd c), mkdst (p + len (ser_chunk mt c)) r L))
  /\ (forall a x t p L, ser_chunk mt c = a ++ x :: t -> p + len a <= L -> a <> [] -> eoi (one (mkdst p a L)))
  /\ (exists b t, ser_chunk mt c = b :: t /\ b <> 255).

Lemma chunks_ok mt one cs : Forall (chunk_good mt one) cs -> forall fuel acc rest p L,
  (length cs < fuel)%nat -> p + len (flat_map (ser_chunk mt) cs ++ [255]) <= L ->
  chunks_until_break one fuel acc (mkdst p ((flat_map (ser_chunk mt) cs ++ [255]) ++ rest) L)
  = (Ok (rev acc ++ map snd cs), mkdst (p + len (flat_map (ser_chunk mt) cs ++ [255])) rest L).
Proof.
  induction 1 as [|c cs (Hok & _ & (b & tl & Eb & Hb)) _ IH]; intros fuel acc rest p L Hfu HL;
  (destruct fuel as [|fuel]; [cbn [length] in Hfu; lia|]); cbn [chunks_until_break flat_map map] in *.
  - cbn [app]. rewrite (bind_ok _ _ _ _ _ (current_cons _ _ _ _)). change (255 =? 255) with true. cbv iota.
    rewrite (bind_ok _ _ _ _ _ (read_cons _ _ _ _)). rewrite app_nil_r. reflexivity.
  - rewrite <- !app_assoc. rewrite !len_app in HL.
    assert (Ec: current (mkdst p (ser_chunk mt c ++ flat_map (ser_chunk mt) cs ++ [255] ++ rest) L)
                = (Ok b, mkdst p (ser_chunk mt c ++ flat_map (ser_chunk mt) cs ++ [255] ++ rest) L)).
    { rewrite Eb. reflexivity. }
    rewrite (bind_ok _ _ _ _ _ Ec). destruct (N.eqb_spec b 255); [contradiction|].
    rewrite (bind_ok _ _ _ _ _ (Hok _ p L ltac:(lia))).
    rewrite (app_assoc (flat_map _ cs)). rewrite IH.
    + cbn [rev]. rewrite <- app_assoc. cbn [app]. rewrite !len_app. f_equal. f_equal. lia.
    + cbn [length] in Hfu. lia.
    + rewrite !len_app in *. lia.
Qed.

Lemma chunks_short mt one cs : Forall (chunk_good mt one) cs -> forall fuel acc a x t p L,
  flat_map (ser_chunk mt) cs ++ [255] = a ++ x :: t -> (length a < fuel)%nat -> p + len a <= L ->
  eoi (chunks_until_break one fuel acc (mkdst p a L)).
Proof.
  induction 1 as [|c cs (Hok & Hsh & (b & tl & Eb & Hb)) _ IH]; intros fuel acc a x t p L E Hfu HL;
  (destruct fuel as [|fuel]; [lia|]); cbn [chunks_until_break flat_map] in *.
  - cbn [app] in E. apply one_byte_short in E as ->. apply bind_eoi. eexists. reflexivity.
  - destruct a as [|a0 a]; [apply bind_eoi; eexists; reflexivity|].
    rewrite <- app_assoc in E.
    assert (a0 = b) as ->. { rewrite Eb in E. cbn [app] in E. now injection E as <- _. }
    rewrite (bind_ok _ _ _ _ _ (current_cons _ _ _ _)). destruct (N.eqb_spec b 255); [contradiction|].
    apply app_split in E as [(t' & E & _)|(w' & E & E')].
    + apply bind_eoi. eapply Hsh; [exact E|exact HL|discriminate].
    + rewrite E in *. rewrite len_app in HL.
      rewrite (bind_ok _ _ _ _ _ (Hok _ p L ltac:(lia))).
      eapply IH; [exact E'| |lia].
      rewrite app_length in Hfu. rewrite Eb in Hfu. cbn [length] in Hfu. lia.
Qed.

Lemma chunk_good_bytes c : wf_chunk c = true -> chunk_good 2 dec_bytes c.
Proof.
  destruct c as [w b]. unfold chunk_good, wf_chunk, ser_chunk. cbn [fst snd]. intro H. apply andb_prop in H as [Hf _].
  split; [|split].
  - intros r p L HL. apply dec_bytes_ok; assumption.
  - intros a x t p L E HL Ha. eapply dec_bytes_short; eassumption.
  - rewrite head_split. cbn [app]. eexists _, _. split; [reflexivity|]. pose proof (ib_range 2 w (len b) Hf). lia.
Qed.

Lemma chunk_good_text c : wf_chunk c = true -> utf8_valid (snd c) = true -> chunk_good 3 dec_str c.
Proof.
  destruct c as [w b]. unfold chunk_good, wf_chunk, ser_chunk. cbn [fst snd]. intros H Hu. apply andb_prop in H as [Hf _].
  split; [|split].
  - intros r p L HL. apply dec_str_ok; assumption.
  - intros a x t p L E HL Ha. eapply dec_str_short; eassumption.
  - rewrite head_split. cbn [app]. eexists _, _. split; [reflexivity|]. pose proof (ib_range 3 w (len b) Hf). lia.
Qed.

Lemma tok_bytesI fuel cs : forallb wf_chunk cs = true -> (length cs < fuel)%nat ->
  tok_ok fuel (95 :: flat_map (ser_chunk 2) cs ++ [255]) skip_after.
Proof.
  intros Hw Hfu c p L rest HL. cbn [app]. rewrite arm_bytes by lia.
  unfold dec_bytes_iter. unfold bind at 1. unfold bind at 1. rewrite read_cons.
  change (negb (major 95 =? 64)) with false. change (info 95 =? 31) with true. cbv iota.
  rewrite len_cons in HL.
  rewrite chunks_ok; [| |exact Hfu|lia].
  - rewrite len_cons. replace (p + 1 + len (flat_map (ser_chunk 2) cs ++ [255])) with
      (p + (1 + len (flat_map (ser_chunk 2) cs ++ [255]))) by lia. reflexivity.
  - rewrite forallb_forall in Hw. apply Forall_forall. intros x Hx. apply chunk_good_bytes. auto.
Qed.

Lemma tok_bytesI_short fuel cs : forallb wf_chunk cs = true ->
  forall c p L a x t, 95 :: flat_map (ser_chunk 2) cs ++ [255] = a ++ x :: t -> (length a <= fuel)%nat -> p + len a <= L ->
  eoi (skip_step fuel c (mkdst p a L)).
Proof.
  intros Hw c p L a x t E Hfu HL. destruct a as [|a0 a]; [eexists; apply step_nil|].
  cbn [app] in E. injection E as <- E. rewrite arm_bytes by lia. apply bind_eoi.
  unfold dec_bytes_iter. rewrite (bind_ok _ _ _ _ _ (read_cons _ _ _ _)).
  change (negb (major 95 =? 64)) with false. change (info 95 =? 31) with true. cbv iota.
  rewrite len_cons in HL. cbn [length] in Hfu.
  eapply chunks_short; [|exact E|lia|lia].
  rewrite forallb_forall in Hw. apply Forall_forall. intros y Hy. apply chunk_good_bytes. auto.
Qed.

Lemma tok_textI fuel cs : forallb wf_chunk cs = true -> forallb (fun c => utf8_valid (snd c)) cs = true -> (length cs < fuel)%nat ->
  tok_ok fuel (127 :: flat_map (ser_chunk 3) cs ++ [255]) skip_after.
Proof.
  intros Hw Hu Hfu c p L rest HL. cbn [app]. rewrite arm_text by lia.
  unfold dec_str_iter. unfold bind at 1. unfold bind at 1. rewrite read_cons.
  change (negb (major 127 =? 96)) with false. change (info 127 =? 31) with true. cbv iota.
  rewrite len_cons in HL.
  rewrite chunks_ok; [| |exact Hfu|lia].
  - rewrite len_cons. replace (p + 1 + len (flat_map (ser_chunk 3) cs ++ [255])) with
      (p + (1 + len (flat_map (ser_chunk 3) cs ++ [255]))) by lia. reflexivity.
  - rewrite forallb_forall in Hw, Hu. apply Forall_forall. intros x Hx. apply chunk_good_text; [auto|]. exact (Hu x Hx).
Qed.

Lemma tok_textI_short fuel cs : forallb wf_chunk cs = true -> forallb (fun c => utf8_valid (snd c)) cs = true ->
  forall c p L a x t, 127 :: flat_map (ser_chunk 3) cs ++ [255] = a ++ x :: t -> (length a <= fuel)%nat -> p + len a <= L ->
  eoi (skip_step fuel c (mkdst p a L)).
Proof.
  intros Hw Hu c p L a x t E Hfu HL. destruct a as [|a0 a]; [eexists; apply step_nil|].
  cbn [app] in E. injection E as <- E. rewrite arm_text by lia. apply bind_eoi.
  unfold dec_str_iter. rewrite (bind_ok _ _ _ _ _ (read_cons _ _ _ _)).
  change (negb (major 127 =? 96)) with false. change (info 127 =? 31) with true. cbv iota.
  rewrite len_cons in HL. cbn [length] in Hfu.
  eapply chunks_short; [|exact E|lia|lia].
  rewrite forallb_forall in Hw, Hu. apply Forall_forall. intros y Hy. apply chunk_good_text; [auto|]. exact (Hu y Hy).
Qed.
