(* Proofs/SerdeRtFacts.v — the decoder side of the serde bridge on its own output: every Decoder primitive
   reads back what the matching Encoder primitive wrote, SeqAccess / MapAccess / EnumAccess count correctly,
   and de_s returns the value ser_s was given, consuming exactly the item (C17_roundtrip, for the shapes that do
   not go through deserialize_any / serde's Content buffer). *)
From MC Require Import Bytes BytesFacts Monad Cbor Utf8 Half Encoder Methods EncoderFacts Decoder DecoderFacts IntFacts
  Types Serde SerdeDoc SerdeFacts.
From Coq Require Import Lia.
Local Open Scope N_scope.

(* d reads the value a from exactly the bytes bs, wherever they stand in an input *)
Definition reads {A} (d : M A) (bs : bytes) (a : A) : Prop :=
  forall rest p L, p + len bs <= L -> d (mkdst p (bs ++ rest) L) = (Ok a, mkdst (p + len bs) rest L).

Lemma reads_ret {A} (a : A) : reads (ret a) [] a.
Proof. intros rest p L _. unfold ret. cbn [app]. change (len []) with 0. now rewrite N.add_0_r. Qed.

Lemma reads_bind {A B} (d : M A) (f : A -> M B) b1 b2 a r :
  reads d b1 a -> reads (f a) b2 r -> reads (bind d f) (b1 ++ b2) r.
Proof.
  intros H1 H2 rest p L HL. rewrite len_app in HL. rewrite <- app_assoc.
  rewrite (bind_ok _ _ _ _ _ (H1 (b2 ++ rest) p L ltac:(lia))).
  rewrite (H2 rest (p + len b1) L ltac:(lia)). rewrite len_app. f_equal. f_equal. lia.
Qed.

Lemma reads_fmap {A B} (g : A -> B) (d : M A) bs a : reads d bs a -> reads (fmap g d) bs (g a).
Proof. intros H rest p L HL. now rewrite (fmap_ok _ _ _ _ _ (H rest p L HL)). Qed.

Lemma reads_bind_nil {A B} (d : M A) (f : A -> M B) bs a r :
  reads d [] a -> reads (f a) bs r -> reads (bind d f) bs r.
Proof. intros H1 H2. change bs with ([] ++ bs). now apply reads_bind with a. Qed.

Lemma reads_eq {A} (d : M A) b1 b2 a : b1 = b2 -> reads d b1 a -> reads d b2 a.
Proof. now intros ->. Qed.

(* a step that looks at the input without consuming it *)
Definition peeks {A} (d : M A) (bs : bytes) (a : A) : Prop :=
  forall rest p L, d (mkdst p (bs ++ rest) L) = (Ok a, mkdst p (bs ++ rest) L).

Lemma reads_peek_bind {A B} (d : M A) (f : A -> M B) bs a r :
  peeks d bs a -> reads (f a) bs r -> reads (bind d f) bs r.
Proof. intros H1 H2 rest p L HL. rewrite (bind_ok _ _ _ _ _ (H1 rest p L)). now apply H2. Qed.

(* ---- heads ---- *)
Lemma phead_split mt n : phead mt n = ib mt (min_width n) n :: args (min_width n) n.
Proof. unfold phead. apply head_split. Qed.

Lemma len_phead mt n : len (phead mt n) = 1 + len (args (min_width n) n).
Proof. rewrite phead_split, len_cons. reflexivity. Qed.

Lemma fits_mw n : n < two64 -> fits (min_width n) n = true.
Proof. apply fits_min_width. Qed.

(* ---- integers ---- *)
Lemma reads_uint max n : n <= max -> n < two64 -> reads (dec_uint max) (phead 0 n) n.
Proof.
  intros Hm Hn rest p L HL. unfold phead in *.
  rewrite (dec_uint_uint max (min_width n) n rest p L (fits_mw n Hn) HL).
  destruct (N.leb_spec n max); [reflexivity|lia].
Qed.

Lemma umax_lt w : umax w < two64.
Proof. destruct w; reflexivity. Qed.
Lemma imax_lt w : imax w < 9223372036854775808.
Proof. destruct w; reflexivity. Qed.

Lemma reads_uw w n : n <= umax w -> reads (dec_uint (umax w)) (flat (enc_uw w n)) n.
Proof.
  intro H. rewrite (enc_uw_head w n H). apply reads_uint; [exact H|]. pose proof (umax_lt w). lia.
Qed.

Lemma reads_iw w z : zin w z = true -> reads (dec_sint (imax w)) (flat (enc_iw w z)) z.
Proof.
  intro H. rewrite (enc_iw_doc w z H). apply zin_range in H. pose proof (imax_lt w) as Hi.
  unfold doc_int. destruct (Z.leb_spec 0 z); cbn [prefer ser]; intros rest p L HL.
  - assert (Hlt: Z.to_N z < two64) by (rewrite two64_eq; lia).
    rewrite (dec_sint_uint (imax w) _ (Z.to_N z) rest p L (fits_mw _ Hlt) HL).
    destruct (N.leb_spec (Z.to_N z) (imax w)); [|lia]. now rewrite Z2N.id by lia.
  - assert (Hlt: Z.to_N (-1 - z) < two64) by (rewrite two64_eq; lia).
    rewrite (dec_sint_nint (imax w) _ (Z.to_N (-1 - z)) rest p L (fits_mw _ Hlt) HL).
    destruct (N.leb_spec (Z.to_N (-1 - z)) (imax w)); [|lia]. rewrite Z2N.id by lia. do 2 f_equal. lia.
Qed.

Lemma reads_char x : is_scalar x = true -> reads dec_char (flat (enc_char x)) x.
Proof.
  intro H. unfold enc_char, dec_char, dec_u32. pose proof (is_scalar_lt x H) as Hx.
  rewrite enc_u32_head by exact Hx.
  rewrite <- (app_nil_r (phead 0 x)). apply reads_bind with x.
  - apply reads_uint; [lia|rewrite two64_eq; lia].
  - rewrite H. apply reads_ret.
Qed.

(* ---- bool, floats ---- *)
Lemma reads_bool b : reads dec_bool (flat (enc_bool b)) b.
Proof. intros rest p L HL. destruct b; reflexivity. Qed.

Lemma flat_f32 b : flat (enc_f32 b) = 250 :: be 4 b.
Proof. unfold enc_f32, flat. cbn [concat app]. now rewrite app_nil_r. Qed.
Lemma flat_f64 b : flat (enc_f64 b) = 251 :: be 8 b.
Proof. unfold enc_f64, flat. cbn [concat app]. now rewrite app_nil_r. Qed.

Lemma reads_f32 c b : b < 4294967296 -> reads (dec_f32 c) (flat (enc_f32 b)) b.
Proof.
  intros Hb rest p L HL. rewrite flat_f32 in *. cbn [app]. unfold dec_f32.
  rewrite (bind_ok _ _ _ _ _ (current_cons _ _ _ _)).
  change (250 =? 249) with false. rewrite andb_false_r. change (250 =? 250) with true. cbv iota.
  rewrite (bind_ok _ _ _ _ _ (read_cons _ _ _ _)).
  rewrite len_cons, len_be in *.
  rewrite (read_be_app 4 b rest (p + 1) L ltac:(change (N.of_nat 4) with 4 in *; lia) Hb).
  do 2 f_equal. change (N.of_nat 4) with 4. lia.
Qed.

Lemma reads_f64 c b : b < two64 -> reads (dec_f64 c) (flat (enc_f64 b)) b.
Proof.
  intros Hb rest p L HL. rewrite flat_f64 in *. cbn [app]. unfold dec_f64.
  rewrite (bind_ok _ _ _ _ _ (current_cons _ _ _ _)).
  change (251 =? 249) with false. rewrite andb_false_r. change (251 =? 250) with false. change (251 =? 251) with true. cbv iota.
  rewrite (bind_ok _ _ _ _ _ (read_cons _ _ _ _)).
  rewrite len_cons, len_be in *.
  rewrite (read_be_app 8 b rest (p + 1) L ltac:(change (N.of_nat 8) with 8 in *; lia) Hb).
  do 2 f_equal. change (N.of_nat 8) with 8. lia.
Qed.

(* ---- strings, byte strings, container headers ---- *)
Lemma info_lt31 w n : fits w n = true -> (info (ib 3 w n) =? 31) = false /\ (info (ib 2 w n) =? 31) = false
  /\ (info (ib 4 w n) =? 31) = false /\ (info (ib 5 w n) =? 31) = false.
Proof.
  intro H. rewrite !info_ib by exact H. pose proof (ai_lt w n H).
  repeat split; apply N.eqb_neq; lia.
Qed.

Lemma reads_head_arg mt n : n < two64 ->
  forall rest p L, p + len (phead mt n) <= L ->
  (b <- read ;; ret b) (mkdst p (phead mt n ++ rest) L) = (Ok (ib mt (min_width n) n), mkdst (p + 1) (args (min_width n) n ++ rest) L).
Proof. intros Hn rest p L HL. rewrite phead_split. reflexivity. Qed.

Lemma reads_blob (str : bool) b : bytes_ok b = true -> (str = true -> utf8_valid b = true) -> len b < two64 ->
  reads (if str then dec_str else dec_bytes) (phead (if str then 3 else 2) (len b) ++ b) b.
Proof.
  intros Hb Hu Hl rest p L HL. rewrite len_app, len_phead in HL.
  pose proof (fits_mw _ Hl) as Hf. destruct (info_lt31 _ _ Hf) as (I3 & I2 & _ & _).
  rewrite phead_split. cbn [app]. rewrite <- app_assoc.
  destruct str; [unfold dec_str|unfold dec_bytes];
    rewrite (bind_ok _ _ _ _ _ (read_cons _ _ _ _)).
  - rewrite (major_ib 3 _ _ Hf), I3. change (3 * 32 =? 96) with true. cbn [negb orb].
    rewrite (info_ib 3 _ _ Hf).
    rewrite (bind_ok _ _ _ _ _ (unsigned_args _ _ (b ++ rest) (p + 1) L Hf ltac:(lia))).
    assert (Hq: p + 1 + len (args (min_width (len b)) (len b)) + len b <= L) by lia.
    rewrite (bind_ok _ _ _ _ _ (read_slice_app b rest _ L Hq)).
    rewrite (Hu eq_refl). unfold ret. rewrite len_cons, len_app. do 2 f_equal. lia.
  - rewrite (major_ib 2 _ _ Hf), I2. change (2 * 32 =? 64) with true. cbn [negb orb].
    rewrite (info_ib 2 _ _ Hf).
    rewrite (bind_ok _ _ _ _ _ (unsigned_args _ _ (b ++ rest) (p + 1) L Hf ltac:(lia))).
    assert (Hq: p + 1 + len (args (min_width (len b)) (len b)) + len b <= L) by lia.
    rewrite (read_slice_app b rest _ L Hq).
    rewrite len_cons, len_app. do 2 f_equal. lia.
Qed.

Lemma reads_str b : str_ok b = true -> reads dec_str (flat (enc_str b)) b.
Proof.
  unfold str_ok. intro H. apply andb_prop in H as [H Hl]. apply andb_prop in H as [Hb Hu]. apply N.ltb_lt in Hl.
  rewrite enc_str_flat by exact Hl. now apply (reads_blob true).
Qed.

Lemma reads_bytes b : bytes_ok b = true -> len b < two64 -> reads dec_bytes (flat (enc_bytes b)) b.
Proof.
  intros Hb Hl. rewrite enc_bytes_flat by exact Hl. apply (reads_blob false); [exact Hb|discriminate|exact Hl].
Qed.

Lemma reads_container mt n : (mt = 4 \/ mt = 5) -> n < two64 ->
  reads (dec_container (mt * 32)) (phead mt n) (Some n).
Proof.
  intros Hmt Hn rest p L HL. rewrite len_phead in HL. pose proof (fits_mw _ Hn) as Hf.
  rewrite phead_split. cbn [app]. unfold dec_container.
  rewrite (bind_ok _ _ _ _ _ (read_cons _ _ _ _)).
  rewrite (major_ib mt _ _ Hf), N.eqb_refl. cbn [negb].
  rewrite (info_ib mt _ _ Hf). pose proof (ai_lt _ _ Hf) as Ha.
  destruct (N.eqb_spec (ai (min_width n) n) 31); [lia|].
  rewrite (bind_ok _ _ _ _ _ (unsigned_args _ _ rest (p + 1) L Hf ltac:(lia))).
  unfold ret. rewrite len_cons. do 2 f_equal. lia.
Qed.

Lemma reads_array n : n < two64 -> reads dec_array (flat (enc_array n)) (Some n).
Proof. intro H. rewrite enc_array_flat by exact H. unfold dec_array. change 128 with (4 * 32). apply reads_container; [now left|exact H]. Qed.
Lemma reads_map n : n < two64 -> reads dec_map (flat (enc_map n)) (Some n).
Proof. intro H. rewrite enc_map_flat by exact H. unfold dec_map. change 160 with (5 * 32). apply reads_container; [now right|exact H]. Qed.
Lemma reads_begin_array : reads dec_array (flat enc_begin_array) None.
Proof. intros rest p L HL. reflexivity. Qed.
Lemma reads_begin_map : reads dec_map (flat enc_begin_map) None.
Proof. intros rest p L HL. reflexivity. Qed.

(* ---- null and skip ---- *)
Lemma skip_null c rest p L : skip_auto c (mkdst p (246 :: rest) L) = (Ok tt, mkdst (p + 1) rest L).
Proof. destruct c as [[] s h]; reflexivity. Qed.

Lemma datatype_null rest p L : datatype (mkdst p (246 :: rest) L) = (Ok TNull, mkdst p (246 :: rest) L).
Proof. reflexivity. Qed.

(* ---- the first byte of a well-formed item; datatype() on it ---- *)
Lemma args_nonempty w n : w <> W0 -> args w n <> [].
Proof. destruct w; cbn [args]; intro H; try congruence; try discriminate. Qed.

Lemma head_first mt w n tl : fits w n = true -> mt <= 6 ->
  exists b t, Cbor.head mt w n ++ tl = b :: t /\ b <> 255 /\ b <> 246 /\ (56 <= b <= 59 -> t <> []).
Proof.
  intros Hf Hm. rewrite head_split. cbn [app]. exists (ib mt w n), (args w n ++ tl).
  pose proof (ai_lt w n Hf) as Ha. unfold ib. repeat split; try lia.
  intros Hb Ht. apply app_eq_nil in Ht as [Ht _].
  assert (Hw: w <> W0).
  { intro Hw. apply (ai_w0 w n Hf) in Hw. assert (mt = 1) by lia. subst mt. lia. }
  now apply (args_nonempty w n Hw).
Qed.

Lemma ser_first e : wf e = true ->
  exists b t, ser e = b :: t /\ b <> 255 /\ (b = 246 -> e = ESimple 22) /\ (56 <= b <= 59 -> t <> []).
Proof.
  destruct e; cbn [wf ser]; intro Hw;
  repeat match goal with H : _ && _ = true |- _ => apply andb_prop in H as [? ?] end.
  - rewrite <- (app_nil_r (Cbor.head 0 w n)).
    destruct (head_first 0 w n [] ltac:(assumption) ltac:(lia)) as (b & t & -> & ? & ? & ?). exists b, t. repeat split; try assumption; congruence.
  - rewrite <- (app_nil_r (Cbor.head 1 w n)).
    destruct (head_first 1 w n [] ltac:(assumption) ltac:(lia)) as (b & t & -> & ? & ? & ?). exists b, t. repeat split; try assumption; congruence.
  - destruct (head_first 2 w (len b) b ltac:(assumption) ltac:(lia)) as (x & t & -> & ? & ? & ?). exists x, t. repeat split; try assumption; congruence.
  - eexists _, _. repeat split; try reflexivity; lia.
  - destruct (head_first 3 w (len b) b ltac:(assumption) ltac:(lia)) as (x & t & -> & ? & ? & ?). exists x, t. repeat split; try assumption; congruence.
  - eexists _, _. repeat split; try reflexivity; lia.
  - destruct (head_first 4 w (len es) (flat_map ser es) ltac:(assumption) ltac:(lia)) as (x & t & -> & ? & ? & ?). exists x, t. repeat split; try assumption; congruence.
  - eexists _, _. repeat split; try reflexivity; lia.
  - destruct (head_first 5 w (len es / 2) (flat_map ser es) ltac:(assumption) ltac:(lia)) as (x & t & -> & ? & ? & ?). exists x, t. repeat split; try assumption; congruence.
  - eexists _, _. repeat split; try reflexivity; lia.
  - destruct (head_first 6 w t (ser e) ltac:(assumption) ltac:(lia)) as (x & t' & -> & ? & ? & ?). exists x, t'. repeat split; try assumption; congruence.
  - destruct (N.ltb_spec n 24).
    + eexists _, _. repeat split; try reflexivity; try lia. intro Hb. f_equal. lia.
    + eexists _, _. repeat split; try reflexivity; lia.
  - eexists _, _. repeat split; try reflexivity; lia.
  - eexists _, _. repeat split; try reflexivity; lia.
  - eexists _, _. repeat split; try reflexivity; lia.
Qed.

Lemma type_of_ok b s : (b < 56 \/ 59 < b \/ exists x y r, drest s = x :: y :: r) ->
  exists ty, type_of b s = (Ok ty, s) /\ (ctype_is_null ty = true -> b = 246).
Proof.
  intro H. unfold type_of.
  repeat match goal with
  | |- context [if ?c then _ else _] => let E := fresh "E" in destruct c eqn:E
  end;
  try (eexists; split; [reflexivity|cbn [ctype_is_null]; intro; discriminate]);
  try (eexists; split; [reflexivity|intros _; now apply N.eqb_eq]).
  all: destruct H as [H|[H|(x & y & r & H)]];
    try (match goal with E : (_ =? _) = true |- _ => apply N.eqb_eq in E; lia end).
  all: unfold bind, peek; rewrite H; eexists; (split; [reflexivity|]); destruct (y <? 128); intro; discriminate.
Qed.

Lemma datatype_ser e rest p L : wf e = true -> e <> ESimple 22 ->
  exists t, datatype (mkdst p (ser e ++ rest) L) = (Ok t, mkdst p (ser e ++ rest) L) /\ ctype_is_null t = false.
Proof.
  intros Hw Hn. destruct (ser_first e Hw) as (b & t & E & _ & H246 & Hpk). rewrite E. cbn [app].
  unfold datatype. rewrite (bind_ok _ _ _ _ _ (current_cons _ _ _ _)).
  destruct (type_of_ok b (mkdst p (b :: t ++ rest) L)) as (ty & Ety & Hnull).
  { destruct (N.ltb_spec b 56); [now left|]. destruct (N.ltb_spec 59 b); [right; now left|].
    right; right. cbn [drest]. destruct t as [|y t']; [exfalso; apply Hpk; [lia|reflexivity]|]. now exists b, y, (t' ++ rest). }
  exists ty. split; [exact Ety|]. destruct (ctype_is_null ty) eqn:En; [|reflexivity].
  exfalso. apply Hn, H246, Hnull. reflexivity.
Qed.

(* the first byte is not the break byte: what SeqAccess / MapAccess test for indefinite containers *)
Lemma current_not_break e rest p L : wf e = true ->
  exists b, current (mkdst p (ser e ++ rest) L) = (Ok b, mkdst p (ser e ++ rest) L) /\ (b =? 255) = false.
Proof.
  intro Hw. destruct (ser_first e Hw) as (b & t & E & Hb & _). rewrite E. exists b. split; [reflexivity|now apply N.eqb_neq].
Qed.

(* ---- SeqAccess / MapAccess: the remaining-length bookkeeping ---- *)
Definition ln_dec (ln : option N) : option N := match ln with Some n => Some (n - 1) | None => None end.
Definition ln_rem (ln : option N) (k : nat) : Prop := match ln with Some n => n = N.of_nat k | None => True end.
Definition trailer (ln : option N) : bytes := match ln with Some _ => [] | None => [255] end.
Definition no_break (bs : bytes) : Prop := exists b t, bs = b :: t /\ b <> 255.

Lemma ln_rem_dec ln k : ln_rem ln (S k) -> ln_rem (ln_dec ln) k.
Proof. destruct ln as [n|]; cbn; [|trivial]. intros ->. lia. Qed.
Lemma trailer_dec ln : trailer (ln_dec ln) = trailer ln.
Proof. now destruct ln. Qed.

Lemma next_element_more {A} (d : M A) ln k bs x : ln_rem ln (S k) -> reads d bs x -> no_break bs ->
  reads (next_element d ln) bs (Some x, ln_dec ln).
Proof.
  intros Hr Hd (b & t & -> & Hb) rest p L HL. destruct ln as [n|]; cbn [next_element ln_dec ln_rem] in *.
  - destruct (N.eqb_spec n 0); [lia|]. now rewrite (bind_ok _ _ _ _ _ (Hd rest p L HL)).
  - cbn [app]. rewrite (bind_ok _ _ _ _ _ (current_cons _ _ _ _)).
    destruct (N.eqb_spec b 255); [contradiction|]. change (b :: t ++ rest) with ((b :: t) ++ rest).
    now rewrite (bind_ok _ _ _ _ _ (Hd rest p L HL)).
Qed.

Lemma next_element_done {A} (d : M A) ln : ln_rem ln 0 ->
  reads (next_element d ln) (trailer ln) (None, ln).
Proof.
  intros Hr rest p L HL. destruct ln as [n|]; cbn [next_element trailer ln_rem] in *.
  - subst n. cbn [app]. unfold ret. change (len []) with 0. now rewrite N.add_0_r.
  - reflexivity.
Qed.

Lemma next_key_more {A} (d : M A) ln k bs x : ln_rem ln (S k) -> reads d bs x -> no_break bs ->
  reads (next_key d ln) bs (Some x).
Proof.
  intros Hr Hd (b & t & -> & Hb) rest p L HL. destruct ln as [n|]; cbn [next_key ln_rem] in *.
  - destruct (N.eqb_spec n 0); [lia|]. now rewrite (fmap_ok _ _ _ _ _ (Hd rest p L HL)).
  - cbn [app]. rewrite (bind_ok _ _ _ _ _ (current_cons _ _ _ _)).
    destruct (N.eqb_spec b 255); [contradiction|]. change (b :: t ++ rest) with ((b :: t) ++ rest).
    now rewrite (fmap_ok _ _ _ _ _ (Hd rest p L HL)).
Qed.

Lemma next_key_done {A} (d : M A) ln : ln_rem ln 0 -> reads (next_key d ln) (trailer ln) None.
Proof.
  intros Hr rest p L HL. destruct ln as [n|]; cbn [next_key trailer ln_rem] in *.
  - subst n. cbn [app]. unfold ret. change (len []) with 0. now rewrite N.add_0_r.
  - reflexivity.
Qed.

Lemma next_value_more {A} (d : M A) ln k bs x : ln_rem ln (S k) -> reads d bs x ->
  reads (next_value d ln) bs (x, ln_dec ln).
Proof.
  intros Hr Hd rest p L HL. destruct ln as [n|]; cbn [next_value ln_dec ln_rem] in *.
  - rewrite (bind_ok _ _ _ _ _ (Hd rest p L HL)). destruct (N.eqb_spec n 0); [lia|]. reflexivity.
  - now rewrite (bind_ok _ _ _ _ _ (Hd rest p L HL)).
Qed.

(* ---- visitors over the accesses ---- *)
Lemma seq_collect_rt {A} (d : M A) xs bss : Forall2 (fun x bs => reads d bs x /\ no_break bs) xs bss ->
  forall ln lf acc, ln_rem ln (length xs) -> (length xs < lf)%nat ->
  reads (seq_collect d ln lf acc) (concat bss ++ trailer ln) (rev acc ++ xs).
Proof.
  induction 1 as [|x bs xs bss [Hx Hnb] _ IH]; intros ln lf acc Hr Hf.
  - destruct lf as [|f]; [cbn in Hf; lia|]. cbn [seq_collect concat app].
    rewrite <- (app_nil_r (trailer ln)). apply reads_bind with (None, ln); [now apply next_element_done|].
    rewrite app_nil_r. apply reads_ret.
  - destruct lf as [|f]; [cbn in Hf; lia|]. cbn [seq_collect concat length] in *. rewrite <- app_assoc.
    apply reads_bind with (Some x, ln_dec ln); [now apply (next_element_more d ln (length xs))|].
    cbv iota beta. rewrite <- (trailer_dec ln).
    replace (rev acc ++ x :: xs) with (rev (x :: acc) ++ xs) by (cbn [rev]; now rewrite <- app_assoc).
    apply IH; [now apply ln_rem_dec|lia].
Qed.

Inductive Reads3 {A} : list (M A) -> list A -> list bytes -> Prop :=
| R3nil : Reads3 [] [] []
| R3cons d x bs ds xs bss : reads d bs x -> no_break bs -> Reads3 ds xs bss -> Reads3 (d :: ds) (x :: xs) (bs :: bss).

Lemma tuple_collect_rt {A} (ds : list (M A)) xs bss : Reads3 ds xs bss ->
  forall ln, ln_rem ln (length xs) -> reads (tuple_collect ds ln) (concat bss) xs.
Proof.
  induction 1 as [|d x bs ds xs bss Hx Hnb _ IH]; intros ln Hr.
  - cbn [tuple_collect concat]. apply reads_ret.
  - cbn [tuple_collect concat length] in *.
    apply reads_bind with (Some x, ln_dec ln); [now apply (next_element_more d ln (length xs))|].
    cbv iota beta. rewrite <- (app_nil_r (concat bss)).
    apply reads_bind with xs; [apply IH; now apply ln_rem_dec|apply reads_ret].
Qed.

Inductive ReadsKV {A} (dk dv : M A) : list A -> list bytes -> Prop :=
| RKVnil : ReadsKV dk dv [] []
| RKVcons k v bk bv xs bss : reads dk bk k -> no_break bk -> reads dv bv v -> no_break bv -> ReadsKV dk dv xs bss ->
    ReadsKV dk dv (k :: v :: xs) (bk :: bv :: bss).

Lemma map_collect_rt {A} (dk dv : M A) xs bss : ReadsKV dk dv xs bss ->
  forall ln lf acc, ln_rem ln (length xs / 2) -> (length xs < lf)%nat ->
  reads (map_collect dk dv ln lf acc) (concat bss ++ trailer ln) (rev acc ++ xs).
Proof.
  induction 1 as [|k v bk bv xs bss Hk Hnb Hv _ _ IH]; intros ln lf acc Hr Hf.
  - destruct lf as [|f]; [cbn in Hf; lia|]. cbn [map_collect concat app].
    rewrite <- (app_nil_r (trailer ln)). apply reads_bind with None; [now apply next_key_done|].
    rewrite app_nil_r. apply reads_ret.
  - destruct lf as [|f]; [cbn in Hf; lia|]. cbn [map_collect concat length] in *. rewrite <- !app_assoc.
    assert (Hdiv: (S (S (length xs)) / 2 = S (length xs / 2))%nat).
    { change (S (S (length xs))) with (2 + length xs)%nat. rewrite (Nat.add_comm 2).
      replace (length xs + 2)%nat with (length xs + 1 * 2)%nat by lia. rewrite Nat.div_add by lia. lia. }
    rewrite Hdiv in Hr.
    apply reads_bind with (Some k); [now apply (next_key_more dk ln (length xs / 2))|].
    cbv iota beta.
    apply reads_bind with (v, ln_dec ln); [now apply (next_value_more dv ln (length xs / 2))|].
    cbn [fst snd]. rewrite <- (trailer_dec ln).
    replace (rev acc ++ k :: v :: xs) with (rev (v :: k :: acc) ++ xs) by (cbn [rev]; now rewrite <- !app_assoc).
    apply IH; [now apply ln_rem_dec|lia].
Qed.

(* ---- induction on shapes ---- *)
Section ShapeInd.
  Variable P : shape -> Prop.
  Hypothesis Hleaf : forall sh, (match sh with
      | ShBool | ShI _ | ShU _ | ShF32 | ShF64 | ShChar | ShStr _ | ShDisplayStr | ShBytes _ | ShUnit | ShUnitStruct
      | ShInternal _ _ | ShAdjacent _ _ _ | ShUntagged _ | ShFlat _ | ShAny | ShIgnored => True
      | _ => False end) -> P sh.
  Hypothesis Hopt : forall s, P s -> P (ShOption s).
  Hypothesis Hnt : forall s, P s -> P (ShNewtypeStruct s).
  Hypothesis Hseq : forall k s, P s -> P (ShSeq k s).
  Hypothesis Htup : forall ss, Forall P ss -> P (ShTuple ss).
  Hypothesis Hts : forall ss, Forall P ss -> P (ShTupleStruct ss).
  Hypothesis Hmap : forall b k v, P k -> P v -> P (ShMap b k v).
  Hypothesis Hstruct : forall fs, Forall (fun p => P (snd p)) fs -> P (ShStruct fs).
  Hypothesis Henum : forall vs, Forall (fun p => P (snd (snd p))) vs -> P (ShEnum vs).

  Fixpoint shape_ind' (sh : shape) : P sh :=
    let list_ind := fix go (l : list shape) : Forall P l :=
      match l with [] => Forall_nil _ | x :: r => Forall_cons _ (shape_ind' x) (go r) end in
    let fields_ind := fix go (l : list (bytes * shape)) : Forall (fun p => P (snd p)) l :=
      match l with [] => Forall_nil _ | (k, x) :: r => Forall_cons (k, x) (shape_ind' x) (go r) end in
    let vars_ind := fix go (l : list (bytes * (vkind * shape))) : Forall (fun p => P (snd (snd p))) l :=
      match l with [] => Forall_nil _ | (n, (k, x)) :: r => Forall_cons (n, (k, x)) (shape_ind' x) (go r) end in
    match sh with
    | ShOption s => Hopt s (shape_ind' s)
    | ShNewtypeStruct s => Hnt s (shape_ind' s)
    | ShSeq k s => Hseq k s (shape_ind' s)
    | ShTuple ss => Htup ss (list_ind ss)
    | ShTupleStruct ss => Hts ss (list_ind ss)
    | ShMap b k v => Hmap b k v (shape_ind' k) (shape_ind' v)
    | ShStruct fs => Hstruct fs (fields_ind fs)
    | ShEnum vs => Henum vs (vars_ind vs)
    | ShBool => Hleaf ShBool I | ShI w => Hleaf (ShI w) I | ShU w => Hleaf (ShU w) I | ShF32 => Hleaf ShF32 I
    | ShF64 => Hleaf ShF64 I | ShChar => Hleaf ShChar I | ShStr b => Hleaf (ShStr b) I
    | ShDisplayStr => Hleaf ShDisplayStr I | ShBytes b => Hleaf (ShBytes b) I | ShUnit => Hleaf ShUnit I
    | ShUnitStruct => Hleaf ShUnitStruct I | ShInternal t vs => Hleaf (ShInternal t vs) I
    | ShAdjacent t c vs => Hleaf (ShAdjacent t c vs) I | ShUntagged vs => Hleaf (ShUntagged vs) I
    | ShFlat fs => Hleaf (ShFlat fs) I | ShAny => Hleaf ShAny I | ShIgnored => Hleaf ShIgnored I
    end.
End ShapeInd.

(* ---- small facts about names and lookups ---- *)
Lemma beq_true a b : beq a b = true -> a = b.
Proof. unfold beq. destruct (list_eq_dec N.eq_dec a b); [auto|discriminate]. Qed.
Lemma beq_refl a : beq a a = true.
Proof. unfold beq. destruct (list_eq_dec N.eq_dec a a); [reflexivity|congruence]. Qed.
Lemma beq_false a b : beq a b = false -> a <> b.
Proof. unfold beq. destruct (list_eq_dec N.eq_dec a b); [discriminate|auto]. Qed.

Lemma str_ok_name b : str_ok b = true -> name_ok b = true.
Proof. auto. Qed.

Lemma existsb_beq_false n l : existsb (beq n) l = false -> ~ In n l.
Proof.
  induction l as [|x r IH]; cbn [existsb]; intros H Hin; [contradiction|].
  apply orb_false_elim in H as [H1 H2]. destruct Hin as [->|Hin]; [now rewrite beq_refl in H1|now apply IH].
Qed.

(* the i-th name is found at i when names are pairwise distinct *)
Lemma find_idx_at {A} (l : list (bytes * A)) : names_distinct (map fst l) = true ->
  forall i name a k, nth_error l i = Some (name, a) -> find_idx name l k = Some ((k + i)%nat, a).
Proof.
  induction l as [|[n x] r IH]; intros Hd i name a k Hn; [destruct i; discriminate|].
  cbn [map fst names_distinct] in Hd. apply andb_prop in Hd as [Hd1 Hd2]. apply negb_true_iff in Hd1.
  destruct i as [|i]; cbn [nth_error] in Hn.
  - injection Hn as -> ->. cbn [find_idx]. destruct (list_eq_dec N.eq_dec name name); [|congruence].
    now rewrite Nat.add_0_r.
  - cbn [find_idx]. destruct (list_eq_dec N.eq_dec name n) as [->|_].
    + exfalso. apply (existsb_beq_false n (map fst r) Hd1). apply nth_error_In in Hn.
      change n with (fst (n, a)). now apply in_map.
    + rewrite (IH Hd2 i name a (S k) Hn). do 2 f_equal. lia.
Qed.

(* ---- ser_s on lists, split per element ---- *)
Lemma all_s_split c l cs : all_s (ser_s c) l = Some cs ->
  exists css, Forall2 (fun x y => ser_s c x = Some y) l css /\ cs = concat css.
Proof.
  revert cs. induction l as [|x r IH]; intros cs H.
  - injection H as <-. now exists [].
  - cbn [all_s] in H. apply ocat_some in H as (a & b & Ha & Hb & ->).
    destruct (IH b Hb) as (css & Hf & ->). exists (a :: css). split; [now constructor|reflexivity].
Qed.

Lemma flat_concat css : flat (concat css) = concat (map flat css).
Proof. induction css as [|a r IH]; [reflexivity|]. cbn [concat map]. now rewrite flat_app, IH. Qed.

Lemma length_concat_ge {A} (l : list A) (ls : list (list A)) : In l ls -> (length l <= length (concat ls))%nat.
Proof.
  induction ls as [|a r IH]; [contradiction|]. intros [->|H]; cbn [concat]; rewrite app_length; [lia|].
  specialize (IH H). lia.
Qed.

Lemma no_break_ser c x y : sval_ok x = true -> ser_s c x = Some y -> no_break (flat y).
Proof.
  intros Hok Hs. destruct (ser_s_wf c x y Hok Hs) as (e & -> & Hw).
  destruct (ser_first e Hw) as (b & t & -> & Hb & _). now exists b, t.
Qed.

Lemma no_break_cons_nonempty bs : no_break bs -> (1 <= length bs)%nat.
Proof. intros (b & t & -> & _). cbn. lia. Qed.

(* ---- the statement proved by induction on the shape ---- *)
Definition rt_ok (c : cfg) (fuel : nat) (sh : shape) : Prop :=
  direct sh = true -> shape_ok sh = true -> opt_in_opt sh = false ->
  forall v cs, conforms sh v = true -> ser_s c v = Some cs -> (length (flat cs) < fuel)%nat ->
  reads (de_s c sh fuel) (flat cs) v /\ sval_ok v = true.

Lemma count_le_bytes {A} (P : A -> bytes -> Prop) xs bss :
  Forall2 (fun x bs => P x bs /\ no_break bs) xs bss -> (length xs <= length (concat bss))%nat.
Proof.
  induction 1 as [|x bs xs bss [_ Hnb] _ IH]; [cbn; lia|]. cbn [length concat]. rewrite app_length.
  apply no_break_cons_nonempty in Hnb. lia.
Qed.

Lemma elems_rt c fuel s : rt_ok c fuel s -> direct s = true -> shape_ok s = true -> opt_in_opt s = false ->
  forall l css, forallb (conforms s) l = true -> Forall2 (fun x y => ser_s c x = Some y) l css ->
  (length (flat (concat css)) < fuel)%nat ->
  Forall2 (fun x bs => reads (de_s c s fuel) bs x /\ no_break bs) l (map flat css) /\ forallb sval_ok l = true.
Proof.
  intros IH Hd Hs Ho l css Hc H. induction H as [|x y l css Hx _ IHl]; intro Hf; [split; [constructor|reflexivity]|].
  cbn [forallb] in Hc. apply andb_prop in Hc as [Hcx Hcl].
  cbn [concat] in Hf. rewrite flat_app, app_length in Hf.
  destruct (IH Hd Hs Ho x y Hcx Hx ltac:(lia)) as [Hr Hok].
  destruct (IHl Hcl ltac:(lia)) as [Hrl Hokl].
  split; [|cbn [forallb]; now rewrite Hok, Hokl].
  cbn [map]. constructor; [|exact Hrl]. split; [exact Hr|now apply (no_break_ser c x y)].
Qed.

Lemma tuple_rt c fuel ss : Forall (rt_ok c fuel) ss -> forallb direct ss = true -> forallb shape_ok ss = true ->
  existsb opt_in_opt ss = false ->
  forall l css, zip_b conforms ss l = true -> Forall2 (fun x y => ser_s c x = Some y) l css ->
  (length (flat (concat css)) < fuel)%nat ->
  Reads3 (map (fun s => de_s c s fuel) ss) l (map flat css) /\ forallb sval_ok l = true /\ length l = length ss.
Proof.
  induction 1 as [|s ss IHs _ IH]; intros Hd Hs Ho l css Hc H Hf.
  - destruct l; [|discriminate]. inversion H; subst. repeat split; constructor.
  - destruct l as [|x l]; [discriminate|]. cbn [zip_b] in Hc. apply andb_prop in Hc as [Hcx Hcl].
    inversion H as [|? y ? css' Hx Hl]; subst.
    cbn [forallb existsb] in *. apply andb_prop in Hd as [Hd1 Hd2]. apply andb_prop in Hs as [Hs1 Hs2].
    apply orb_false_elim in Ho as [Ho1 Ho2].
    cbn [concat] in Hf. rewrite flat_app, app_length in Hf.
    destruct (IHs Hd1 Hs1 Ho1 x y Hcx Hx ltac:(lia)) as [Hr Hok].
    destruct (IH Hd2 Hs2 Ho2 l css' Hcl Hl ltac:(lia)) as (Hrl & Hokl & Hlen).
    repeat split; [|now rewrite Hok, Hokl|cbn [length]; now rewrite Hlen].
    cbn [map]. constructor; [exact Hr|now apply (no_break_ser c x y)|exact Hrl].
Qed.

Lemma kv_rt c fuel k v : rt_ok c fuel k -> rt_ok c fuel v ->
  direct k = true -> direct v = true -> shape_ok k = true -> shape_ok v = true ->
  opt_in_opt k = false -> opt_in_opt v = false ->
  forall m l css, (length l <= m)%nat -> alt_b (conforms k) (conforms v) l = true ->
  Forall2 (fun x y => ser_s c x = Some y) l css -> (length (flat (concat css)) < fuel)%nat ->
  ReadsKV (de_s c k fuel) (de_s c v fuel) l (map flat css) /\ forallb sval_ok l = true.
Proof.
  intros IHk IHv Hdk Hdv Hsk Hsv Hok Hov. induction m as [|m IHm]; intros l css Hm Hc H Hf.
  - destruct l; [|cbn in Hm; lia]. inversion H; subst. split; constructor.
  - destruct l as [|a [|b l]]; [inversion H; subst; split; constructor|discriminate|].
    cbn [alt_b] in Hc. apply andb_prop in Hc as [Hc Hcl]. apply andb_prop in Hc as [Hca Hcb].
    inversion H as [|? ya ? css1 Ha H1]; subst. inversion H1 as [|? yb ? css2 Hb H2]; subst.
    cbn [concat] in Hf. rewrite !flat_app, !app_length in Hf.
    destruct (IHk Hdk Hsk Hok a ya Hca Ha ltac:(lia)) as [Hra Hoka].
    destruct (IHv Hdv Hsv Hov b yb Hcb Hb ltac:(lia)) as [Hrb Hokb].
    destruct (IHm l css2 ltac:(cbn in Hm; lia) Hcl H2 ltac:(lia)) as [Hrl Hokl].
    split; [|cbn [forallb]; now rewrite Hoka, Hokb, Hokl].
    cbn [map]. constructor; [exact Hra|now apply (no_break_ser c a ya)|exact Hrb|now apply (no_break_ser c b yb)|exact Hrl].
Qed.

Lemma kv_count_le {A} (dk dv : M A) xs bss : ReadsKV dk dv xs bss -> (length xs <= length (concat bss))%nat.
Proof.
  induction 1 as [|k v bk bv xs bss _ Hnb _ Hnb2 _ IH]; [cbn; lia|]. cbn [length concat]. rewrite !app_length.
  apply no_break_cons_nonempty in Hnb, Hnb2. lia.
Qed.

Lemma reads3_concat {A} (ds : list (M A)) xs bss : Reads3 ds xs bss -> length xs = length ds.
Proof. induction 1; cbn; congruence. Qed.

(* nullable / not null *)
Lemma doc_not_null s : forall x, direct s = true -> nullable s = false -> conforms s x = true ->
  prefer (serde_doc_tree x) <> ESimple 22.
Proof.
  induction s using shape_ind'; intros x Hd Hn Hc.
  - destruct s; try contradiction; try discriminate Hd; try discriminate Hn;
      destruct x; try discriminate Hc; cbn [serde_doc_tree prefer]; try discriminate.
    + destruct b; discriminate.
    + unfold doc_int. destruct (0 <=? z)%Z; discriminate.
  - discriminate Hn.
  - destruct x; try discriminate Hc. cbn [nullable direct conforms serde_doc_tree] in *. now apply IHs.
  - destruct x; try discriminate Hc. cbn [serde_doc_tree]. destruct n; discriminate.
  - destruct x; try discriminate Hc. discriminate.
  - destruct x; try discriminate Hc. discriminate.
  - destruct x; try discriminate Hc. cbn [serde_doc_tree]. destruct n; discriminate.
  - destruct x; try discriminate Hc. cbn [serde_doc_tree prefer]. discriminate.
  - destruct x; try discriminate Hc; cbn [serde_doc_tree prefer]; discriminate.
Qed.

Lemma iw_eqb_true a b : iw_eqb a b = true -> a = b.
Proof. destruct a, b; cbn; congruence. Qed.

Lemma reads_unit : reads de_unit (flat (enc_array 0)) tt.
Proof.
  unfold de_unit. rewrite <- (app_nil_r (flat (enc_array 0))).
  apply reads_bind with (Some 0); [apply reads_array; reflexivity|apply reads_ret].
Qed.

Lemma rt_leaf c fuel sh :
  match sh with
  | ShBool | ShI _ | ShU _ | ShF32 | ShF64 | ShChar | ShStr _ | ShDisplayStr | ShBytes _ | ShUnit | ShUnitStruct
  | ShInternal _ _ | ShAdjacent _ _ _ | ShUntagged _ | ShFlat _ | ShAny | ShIgnored => True
  | _ => False end -> rt_ok c fuel sh.
Proof.
  intros Hl Hd _ _ v cs Hc Hs _.
  destruct sh; try contradiction; try discriminate Hd; destruct v; try discriminate Hc;
    cbn [conforms] in Hc; cbn [ser_s] in Hs; cbn [de_s sval_ok].
  - injection Hs as <-. split; [apply reads_fmap, reads_bool|reflexivity].
  - apply andb_prop in Hc as [Hw Hz]. apply iw_eqb_true in Hw. subst w0. injection Hs as <-.
    split; [now apply reads_fmap, reads_iw|exact Hz].
  - apply andb_prop in Hc as [Hw Hz]. apply iw_eqb_true in Hw. subst w0. injection Hs as <-.
    split; [apply reads_fmap, reads_uw; now apply N.leb_le|exact Hz].
  - injection Hs as <-. split; [apply reads_fmap, reads_f32; now apply N.ltb_lt|exact Hc].
  - injection Hs as <-. split; [apply reads_fmap, reads_f64; now apply N.ltb_lt|exact Hc].
  - injection Hs as <-. split; [now apply reads_fmap, reads_char|exact Hc].
  - injection Hs as <-. split; [now apply reads_fmap, reads_str|exact Hc].
  - destruct (c_alloc c); [|discriminate]. injection Hs as <-. split; [now apply reads_fmap, reads_str|exact Hc].
  - injection Hs as <-. apply andb_prop in Hc as [Hb Hl']. split; [apply reads_fmap, reads_bytes; [exact Hb|now apply N.ltb_lt]|].
    now rewrite Hb, Hl'.
  - injection Hs as <-. split; [|reflexivity].
    rewrite <- (app_nil_r (flat (enc_array 0))). apply reads_bind with tt; [apply reads_unit|apply reads_ret].
  - injection Hs as <-. split; [|reflexivity].
    rewrite <- (app_nil_r (flat (enc_array 0))). apply reads_bind with tt; [apply reads_unit|apply reads_ret].
Qed.

Lemma rt_option c fuel s : rt_ok c fuel s -> rt_ok c fuel (ShOption s).
Proof.
  intros IH Hd Hs Ho v cs Hc Hser Hf. cbn [direct shape_ok opt_in_opt] in *.
  apply orb_false_elim in Ho as [Hn Ho]. cbn [de_s]. unfold de_option.
  destruct v; try discriminate Hc; cbn [conforms ser_s sval_ok] in *.
  - injection Hser as <-. split; [|reflexivity]. intros rest p L HL. change (flat enc_null) with [246]. cbn [app].
    rewrite (bind_ok _ _ _ _ _ (datatype_null rest p L)). cbn [ctype_is_null].
    rewrite (bind_ok _ _ _ _ _ (skip_null c rest p L)). reflexivity.
  - destruct (IH Hd Hs Ho v cs Hc Hser Hf) as [Hr Hok]. split; [|exact Hok].
    intros rest p L HL.
    pose proof (ser_s_repr c v cs Hok Hser) as Er. pose proof (doc_wf v Hok) as Hw.
    destruct (datatype_ser _ rest p L Hw (doc_not_null s v Hd Hn Hc)) as (t & Et & Hnn).
    rewrite Er. rewrite (bind_ok _ _ _ _ _ Et). rewrite Hnn. rewrite <- Er.
    now rewrite (fmap_ok _ _ _ _ _ (Hr rest p L HL)).
Qed.

Lemma rt_newtype c fuel s : rt_ok c fuel s -> rt_ok c fuel (ShNewtypeStruct s).
Proof.
  intros IH Hd Hs Ho v cs Hc Hser Hf. cbn [direct shape_ok opt_in_opt de_s] in *.
  destruct v; try discriminate Hc; cbn [conforms ser_s sval_ok] in *.
  destruct (IH Hd Hs Ho v cs Hc Hser Hf) as [Hr Hok]. split; [now apply reads_fmap|exact Hok].
Qed.

Lemma len_nat {A} (l : list A) : len l = N.of_nat (length l).
Proof. reflexivity. Qed.

Lemma rt_seq c fuel k s : rt_ok c fuel s -> rt_ok c fuel (ShSeq k s).
Proof.
  intros IH Hd Hs Ho v cs Hc Hser Hf. cbn [direct shape_ok opt_in_opt de_s] in *.
  destruct v; try discriminate Hc; cbn [conforms] in Hc.
  apply andb_prop in Hc as [Hc Hcl]. apply andb_prop in Hc as [Hn Hlen]. apply N.ltb_lt in Hlen.
  unfold de_seq_of. destruct n as [n|].
  - apply andb_prop in Hn as [Hk Hn]. apply N.eqb_eq in Hn. subst k n.
    cbn [ser_s] in Hser. apply ocat_some_l in Hser as (y & Hy & ->).
    destruct (all_s_split c l y Hy) as (css & Hf2 & ->).
    rewrite flat_app, app_length in Hf.
    destruct (elems_rt c fuel s IH Hd Hs Ho l css Hcl Hf2 ltac:(lia)) as [Hr Hok].
    split; [|cbn [sval_ok]; apply N.ltb_lt in Hlen; now rewrite N.eqb_refl, Hok, Hlen].
    rewrite flat_app, flat_concat.
    apply (reads_fmap (fun l0 => SSeq (Some (len l0)) l0) _ _ l).
    apply reads_bind with (Some (len l)); [now apply reads_array|].
    pose proof (seq_collect_rt _ l (map flat css) Hr (Some (len l)) fuel [] (len_nat l)) as G.
    cbn [trailer rev app] in G. rewrite app_nil_r in G. apply G.
    pose proof (count_le_bytes _ _ _ Hr). rewrite flat_concat in Hf. lia.
  - apply negb_true_iff in Hn. subst k.
    cbn [ser_s] in Hser. apply ocat_some_l in Hser as (y0 & Hy & ->).
    apply ocat_some in Hy as (y & z & Hy & [= <-] & ->).
    destruct (all_s_split c l y Hy) as (css & Hf2 & ->).
    rewrite !flat_app, !app_length in Hf.
    destruct (elems_rt c fuel s IH Hd Hs Ho l css Hcl Hf2 ltac:(lia)) as [Hr Hok].
    split; [|cbn [sval_ok]; exact Hok].
    rewrite !flat_app, flat_concat.
    apply (reads_fmap (fun l0 => SSeq None l0) _ _ l).
    apply reads_bind with None; [apply reads_begin_array|].
    pose proof (seq_collect_rt _ l (map flat css) Hr None fuel [] I) as G.
    cbn [trailer rev app] in G. apply G.
    pose proof (count_le_bytes _ _ _ Hr). rewrite flat_concat in Hf. lia.
Qed.

(* deserialize_tuple on enc_array n followed by the elements *)
Lemma tuple_of_rt c fuel ss : Forall (rt_ok c fuel) ss -> forallb direct ss = true -> forallb shape_ok ss = true ->
  existsb opt_in_opt ss = false -> len ss < two64 ->
  forall l y, zip_b conforms ss l = true -> all_s (ser_s c) l = Some y ->
  (length (flat (enc_array (len ss) ++ y)) < fuel)%nat ->
  reads (de_tuple_of (map (fun s => de_s c s fuel) ss)) (flat (enc_array (len ss) ++ y)) l
  /\ forallb sval_ok l = true /\ len l = len ss.
Proof.
  intros IH Hd Hs Ho Hlen l y Hc Hy Hf.
  destruct (all_s_split c l y Hy) as (css & Hf2 & ->).
  rewrite flat_app, app_length in Hf.
  destruct (tuple_rt c fuel ss IH Hd Hs Ho l css Hc Hf2 ltac:(lia)) as (Hr & Hok & Hl).
  split; [|split; [exact Hok|unfold len; now rewrite Hl]].
  rewrite flat_app, flat_concat. unfold de_tuple_of.
  apply reads_bind with (Some (len ss)); [now apply reads_array|].
  rewrite len_map. cbn [opt_eqb]. rewrite N.eqb_refl.
  apply (tuple_collect_rt _ l (map flat css) Hr (Some (len ss))). cbn [ln_rem]. unfold len. now rewrite Hl.
Qed.

Lemma rt_tuple c fuel ss : Forall (rt_ok c fuel) ss -> rt_ok c fuel (ShTuple ss).
Proof.
  intros IH Hd Hs Ho v cs Hc Hser Hf. cbn [direct shape_ok opt_in_opt de_s] in *.
  apply andb_prop in Hs as [Hlen Hs]. apply N.ltb_lt in Hlen.
  destruct v; try discriminate Hc; cbn [conforms] in Hc.
  apply andb_prop in Hc as [Hc Hcl]. apply andb_prop in Hc as [Hn Hn2]. apply N.eqb_eq in Hn. subst n.
  cbn [ser_s] in Hser. apply ocat_some_l in Hser as (y & Hy & ->).
  destruct (tuple_of_rt c fuel ss IH Hd Hs Ho Hlen l y Hcl Hy Hf) as (Hr & Hok & Hl).
  split.
  - rewrite <- Hl at 2. apply (reads_fmap (fun l0 => STuple (len l0) l0) _ _ l). exact Hr.
  - cbn [sval_ok]. now rewrite Hl, N.eqb_refl, Hn2, Hok.
Qed.

Lemma rt_tuple_struct c fuel ss : Forall (rt_ok c fuel) ss -> rt_ok c fuel (ShTupleStruct ss).
Proof.
  intros IH Hd Hs Ho v cs Hc Hser Hf. cbn [direct shape_ok opt_in_opt de_s] in *.
  apply andb_prop in Hs as [Hlen Hs]. apply N.ltb_lt in Hlen.
  destruct v; try discriminate Hc; cbn [conforms] in Hc.
  apply andb_prop in Hc as [Hc Hcl]. apply andb_prop in Hc as [Hn Hn2]. apply N.eqb_eq in Hn. subst n.
  cbn [ser_s] in Hser. apply ocat_some_l in Hser as (y & Hy & ->).
  destruct (tuple_of_rt c fuel ss IH Hd Hs Ho Hlen l y Hcl Hy Hf) as (Hr & Hok & Hl).
  split.
  - rewrite <- Hl at 2. apply (reads_fmap (fun l0 => STupleStruct (len l0) l0) _ _ l). exact Hr.
  - cbn [sval_ok]. now rewrite Hl, N.eqb_refl, Hn2, Hok.
Qed.

Lemma alt_even {B} (fk fv : B -> bool) l : alt_b fk fv l = true -> N.even (len l) = true /\ N.of_nat (length l / 2) = len l / 2.
Proof.
  assert (G: forall m l, (length l <= m)%nat -> alt_b fk fv l = true ->
             N.even (len l) = true /\ N.of_nat (length l / 2) = len l / 2).
  { induction m as [|m IH]; intros l0 Hm Ha.
    - destruct l0; [split; reflexivity|cbn in Hm; lia].
    - destruct l0 as [|a [|b r]]; [split; reflexivity|discriminate|].
      cbn [alt_b] in Ha. apply andb_prop in Ha as [_ Ha]. destruct (IH r ltac:(cbn in Hm; lia) Ha) as [He Hd].
      rewrite !len_cons. split.
      + replace (1 + (1 + len r)) with (len r + 2) by lia. rewrite N.even_add. now rewrite He.
      + cbn [length]. change (S (S (length r))) with (2 + length r)%nat.
        replace (2 + length r)%nat with (length r + 1 * 2)%nat by lia. rewrite Nat.div_add by lia.
        replace (1 + (1 + len r)) with (len r + 1 * 2) by lia. rewrite N.div_add by lia.
        rewrite Nat2N.inj_add, Hd. reflexivity. }
  intro H. now apply (G (length l)).
Qed.

Lemma rt_map c fuel b k v : rt_ok c fuel k -> rt_ok c fuel v -> rt_ok c fuel (ShMap b k v).
Proof.
  intros IHk IHv Hd Hs Ho x cs Hc Hser Hf. cbn [direct shape_ok opt_in_opt de_s] in *.
  apply andb_prop in Hd as [Hdk Hdv]. apply andb_prop in Hs as [Hsk Hsv]. apply orb_false_elim in Ho as [Hok Hov].
  destruct x; try discriminate Hc; cbn [conforms] in Hc.
  apply andb_prop in Hc as [Hc Hcl]. apply andb_prop in Hc as [Hn Hlen].
  destruct (alt_even _ _ _ Hcl) as [Hev Hdiv].
  unfold de_map_of. destruct n as [n|].
  - apply andb_prop in Hn as [Hb Hn]. apply N.eqb_eq in Hn. subst b n.
    cbn [ser_s] in Hser. apply ocat_some_l in Hser as (y & Hy & ->).
    destruct (all_s_split c kvs y Hy) as (css & Hf2 & ->).
    rewrite flat_app, app_length in Hf.
    destruct (kv_rt c fuel k v IHk IHv Hdk Hdv Hsk Hsv Hok Hov (length kvs) kvs css (le_n _) Hcl Hf2 ltac:(lia)) as [Hr Hokk].
    split; [|cbn [sval_ok]; now rewrite Hev, N.eqb_refl, Hlen, Hokk].
    rewrite flat_app, flat_concat.
    apply (reads_fmap (fun l0 => SMap (Some (len l0 / 2)) l0) _ _ kvs).
    apply N.ltb_lt in Hlen.
    apply reads_bind with (Some (len kvs / 2)); [now apply reads_map|].
    pose proof (map_collect_rt _ _ kvs (map flat css) Hr (Some (len kvs / 2)) fuel [] (eq_sym Hdiv)) as G.
    cbn [trailer rev app] in G. rewrite app_nil_r in G. apply G.
    pose proof (kv_count_le _ _ _ _ Hr) as Hcnt. rewrite flat_concat in Hf. lia.
  - apply negb_true_iff in Hn. subst b.
    cbn [ser_s] in Hser. apply ocat_some_l in Hser as (y0 & Hy & ->).
    apply ocat_some in Hy as (y & z & Hy & [= <-] & ->).
    destruct (all_s_split c kvs y Hy) as (css & Hf2 & ->).
    rewrite !flat_app, !app_length in Hf.
    destruct (kv_rt c fuel k v IHk IHv Hdk Hdv Hsk Hsv Hok Hov (length kvs) kvs css (le_n _) Hcl Hf2 ltac:(lia)) as [Hr Hokk].
    split; [|cbn [sval_ok]; now rewrite Hev, Hokk].
    rewrite !flat_app, flat_concat.
    apply (reads_fmap (fun l0 => SMap None l0) _ _ kvs).
    apply reads_bind with None; [apply reads_begin_map|].
    pose proof (map_collect_rt _ _ kvs (map flat css) Hr None fuel [] I) as G.
    cbn [trailer rev app] in G. apply G.
    pose proof (kv_count_le _ _ _ _ Hr) as Hcnt. rewrite flat_concat in Hf. lia.
Qed.

(* ---- structs ---- *)
Lemma set_nth_app {A} (pre : list A) x y suf : set_nth (pre ++ x :: suf) (length pre) y = pre ++ y :: suf.
Proof. induction pre as [|a pre IH]; [reflexivity|]. cbn [app length set_nth]. now rewrite IH. Qed.

Lemma nth_error_mid {A} (pre : list A) x suf : nth_error (pre ++ x :: suf) (length pre) = Some x.
Proof. induction pre as [|a pre IH]; [reflexivity|]. exact IH. Qed.

Lemma no_break_str n : len n < two64 -> no_break (flat (enc_str n)).
Proof.
  intro H. rewrite enc_str_flat by exact H. rewrite phead_split. cbn [app].
  eexists _, _. split; [reflexivity|]. pose proof (ai_lt _ _ (fits_mw _ H)). unfold ib. lia.
Qed.

Lemma str_ok_len n : str_ok n = true -> len n < two64.
Proof. unfold str_ok. intro H. apply andb_prop in H as [_ H]. now apply N.ltb_lt. Qed.

Definition fdec (c : cfg) (fuel : nat) (p : bytes * shape) : bytes * M sval := let (n, s) := p in (n, de_s c s fuel).

Lemma map_fst_fdec c fuel fs : map fst (map (fdec c fuel) fs) = map fst fs.
Proof. induction fs as [|[n s] r IH]; [reflexivity|]. cbn [map fdec fst]. now rewrite IH. Qed.

Lemma struct_loop_rt c fuel fs : names_distinct (map fst fs) = true ->
  forall suf pre pv, fs = pre ++ suf -> length pv = length pre ->
  Forall (fun p => rt_ok c fuel (snd p)) suf ->
  forallb (fun p : bytes * shape => let (_, s) := p in direct s) suf = true ->
  forallb (fun p : bytes * shape => let (n, s) := p in str_ok n && shape_ok s) suf = true ->
  existsb (fun p : bytes * shape => let (_, s) := p in opt_in_opt s) suf = false ->
  forall vsuf y lf, zip_b (field_b conforms) suf vsuf = true -> fields_s (ser_s c) vsuf = Some y ->
  (length (flat y) < fuel)%nat -> (length (flat y) < lf)%nat ->
  reads (struct_loop c (map (fdec c fuel) fs) (Some (len suf)) lf (map Some pv ++ map (fun _ => None) suf)) (flat y)
        (map Some (pv ++ map snd vsuf))
  /\ forallb (fun p => name_ok (fst p) && sval_ok (snd p)) vsuf = true /\ map fst vsuf = map fst suf.
Proof.
  intros Hnd suf. induction suf as [|[n s] suf IH]; intros pre pv Efs Hpv HIH Hd Hs Ho vsuf y lf Hc Hy Hf Hlf.
  - destruct vsuf; [|discriminate]. injection Hy as <-. repeat split.
    destruct lf as [|f]; [cbn in Hlf; lia|]. cbn [struct_loop map app]. rewrite !app_nil_r.
    change (flat []) with (@nil N).
    apply reads_bind_nil with None; [exact (next_key_done dec_str (Some (len (@nil (bytes * shape)))) eq_refl)|apply reads_ret].
  - destruct vsuf as [|[n' x] vsuf]; [discriminate|].
    cbn [zip_b] in Hc. apply andb_prop in Hc as [Hc Hcl]. unfold field_b in Hc. cbn [fst snd] in Hc.
    apply andb_prop in Hc as [Hn Hcx]. apply beq_true in Hn. subst n'.
    pose proof (Forall_inv HIH) as IHs. pose proof (Forall_inv_tail HIH) as HIH'. cbn [snd] in IHs.
    cbn [forallb existsb] in Hd, Hs, Ho. apply andb_prop in Hd as [Hd1 Hd2]. apply andb_prop in Hs as [Hs1 Hs2].
    apply andb_prop in Hs1 as [Hname Hs1]. apply orb_false_elim in Ho as [Ho1 Ho2].
    cbn [fields_s] in Hy. apply ocat_some_l in Hy as (y1 & Hy & ->). apply ocat_some in Hy as (yx & yr & Hx & Hr & ->).
    rewrite !flat_app, !app_length in Hf, Hlf.
    pose proof (str_ok_len n Hname) as Hnl. pose proof (no_break_str n Hnl) as Hnb.
    pose proof (no_break_cons_nonempty _ Hnb) as Hne.
    destruct (IHs Hd1 Hs1 Ho1 x yx Hcx Hx ltac:(lia)) as [Hrx Hokx].
    destruct lf as [|f]; [lia|].
    destruct (IH (pre ++ [(n, s)]) (pv ++ [x]) ltac:(now rewrite <- app_assoc) ltac:(rewrite !app_length; cbn; lia)
                 HIH' Hd2 Hs2 Ho2 vsuf yr f Hcl Hr ltac:(lia) ltac:(lia)) as (Hrr & Hokr & Hnames).
    split; [|split; [cbn [forallb fst snd]; now rewrite (str_ok_name n Hname), Hokx, Hokr|cbn [map fst]; now rewrite Hnames]].
    rewrite !flat_app. cbn [struct_loop].
    apply reads_bind with (Some n).
    { apply (next_key_more dec_str (Some (len ((n, s) :: suf))) (length suf)); [cbn [ln_rem length]; reflexivity|now apply reads_str|exact Hnb]. }
    cbv iota beta.
    assert (Efind: find_idx n (map (fdec c fuel) fs) 0 = Some (length pre, de_s c s fuel)).
    { rewrite (find_idx_at (map (fdec c fuel) fs) ltac:(now rewrite map_fst_fdec) (length pre) n (de_s c s fuel) 0); [reflexivity|].
      rewrite Efs, map_app. cbn [map fdec]. rewrite <- (map_length (fdec c fuel) pre). apply nth_error_mid. }
    rewrite Efind.
    assert (Enth: nth_error (map Some pv ++ map (fun _ => None) ((n, s) :: suf)) (length pre) = Some None).
    { cbn [map]. rewrite <- Hpv, <- (map_length Some pv). apply nth_error_mid. }
    rewrite Enth.
    apply reads_bind with (x, Some (len ((n, s) :: suf) - 1)).
    { apply (next_value_more (de_s c s fuel) (Some (len ((n, s) :: suf))) (length suf)); [reflexivity|exact Hrx]. }
    cbn [fst snd map].
    replace (len ((n, s) :: suf) - 1) with (len suf) by (rewrite len_cons; lia).
    rewrite <- Hpv, <- (map_length Some pv), set_nth_app.
    replace (map Some pv ++ Some x :: map (fun _ => None) suf) with (map Some (pv ++ [x]) ++ map (fun _ : bytes * shape => @None sval) suf)
      by (rewrite map_app, <- app_assoc; reflexivity).
    replace (pv ++ x :: map snd vsuf) with ((pv ++ [x]) ++ map snd vsuf) by (now rewrite <- app_assoc).
    exact Hrr.
Qed.

Lemma fill_missing_all fs vs : map fst vs = map fst fs ->
  fill_missing fs (map Some (map snd vs)) = Some vs.
Proof.
  revert vs. induction fs as [|[n s] fs IH]; intros vs H.
  - destruct vs; [reflexivity|discriminate].
  - destruct vs as [|[n' x] vs]; [discriminate|]. cbn [map fst] in H. injection H as -> H.
    cbn [map snd fill_missing]. now rewrite (IH vs H).
Qed.

Lemma de_struct_eq c fuel fs :
  map (fun p : bytes * shape => let (n, s) := p in (n, de_s c s fuel)) fs = map (fdec c fuel) fs.
Proof. reflexivity. Qed.

Lemma rt_struct c fuel fs : Forall (fun p => rt_ok c fuel (snd p)) fs -> rt_ok c fuel (ShStruct fs).
Proof.
  intros IH Hd Hs Ho v cs Hc Hser Hf. cbn [direct shape_ok opt_in_opt de_s] in *.
  apply andb_prop in Hs as [Hnd Hs].
  destruct v; try discriminate Hc; cbn [conforms] in Hc.
  apply andb_prop in Hc as [Hc Hcl]. apply andb_prop in Hc as [Hn Hn2]. apply N.eqb_eq in Hn. subst n.
  cbn [ser_s] in Hser. apply ocat_some_l in Hser as (y & Hy & ->).
  rewrite flat_app, app_length in Hf.
  destruct (struct_loop_rt c fuel fs Hnd fs [] [] eq_refl eq_refl IH Hd Hs Ho fs0 y fuel Hcl Hy ltac:(lia) ltac:(lia))
    as (Hr & Hok & Hnames).
  assert (Hlen: len fs0 = len fs).
  { unfold len. f_equal. rewrite <- (map_length fst fs0), Hnames. apply map_length. }
  split; [|cbn [sval_ok]; now rewrite Hlen, N.eqb_refl, Hn2, Hok].
  rewrite flat_app. apply N.ltb_lt in Hn2.
  apply reads_bind with (Some (len fs)); [now apply reads_map|].
  unfold struct_visit. rewrite de_struct_eq.
  rewrite <- (app_nil_r (flat y)). cbn [app] in Hr.
  apply reads_bind with (map Some (map snd fs0)); [exact Hr|].
  rewrite (fill_missing_all fs fs0 Hnames), Hlen. apply reads_ret.
Qed.

(* ---- enums: the optional map(1) wrapper, the identifier, the payload ---- *)
Lemma type_of_text b : 96 <= b <= 123 -> type_of b = ret TString.
Proof.
  intro H. unfold type_of.
  repeat match goal with
  | |- context [if ?c then _ else _] => let E := fresh "E" in destruct c eqn:E
  end; try reflexivity; exfalso;
  repeat match goal with
  | E : (_ && _) = true |- _ => apply andb_prop in E as [? ?]
  | E : (_ && _) = false |- _ => apply andb_false_iff in E as [E|E]
  | E : (_ || _) = true |- _ => apply orb_prop in E as [E|E]
  | E : (_ <=? _) = true |- _ => apply N.leb_le in E
  | E : (_ <=? _) = false |- _ => apply N.leb_gt in E
  | E : (_ =? _) = true |- _ => apply N.eqb_eq in E
  | E : (_ =? _) = false |- _ => apply N.eqb_neq in E
  end; lia.
Qed.

Lemma prelude_text n tl rest p L : len n < two64 ->
  de_enum_prelude (mkdst p ((flat (enc_str n) ++ tl) ++ rest) L) = (Ok tt, mkdst p ((flat (enc_str n) ++ tl) ++ rest) L).
Proof.
  intro H. rewrite enc_str_flat by exact H. rewrite phead_split. cbn [app].
  pose proof (ai_lt _ _ (fits_mw _ H)) as Ha.
  set (b := ib 3 (min_width (len n)) (len n)). set (t := ((args (min_width (len n)) (len n) ++ n) ++ tl) ++ rest).
  assert (Ed: datatype (mkdst p (b :: t) L) = (Ok TString, mkdst p (b :: t) L)).
  { unfold datatype. rewrite (bind_ok _ _ _ _ _ (current_cons _ _ _ _)).
    rewrite type_of_text by (unfold b, ib; lia). reflexivity. }
  unfold de_enum_prelude. rewrite (bind_ok _ _ _ _ _ Ed). reflexivity.
Qed.

Lemma prelude_map1 : reads de_enum_prelude (flat (enc_map 1)) tt.
Proof. intros rest p L HL. reflexivity. Qed.

Definition vdec (c : cfg) (fuel : nat) (p : bytes * (vkind * shape)) : bytes * (vkind * M sval) :=
  let (n, ks) := p in let (k, s) := ks in (n, (k, de_s c s fuel)).

Lemma map_fst_vdec c fuel vs : map fst (map (vdec c fuel) vs) = map fst vs.
Proof. induction vs as [|[n [k s]] r IH]; [reflexivity|]. cbn [map vdec fst]. now rewrite IH. Qed.

Lemma kind_eqb_true a b : kind_eqb a b = true -> a = b.
Proof. destruct a, b; cbn; congruence. Qed.

Lemma variant_at_some {A} (vs : list (bytes * (vkind * A))) i name k a :
  variant_at vs i name k = Some a -> nth_error vs (N.to_nat i) = Some (name, (k, a)).
Proof.
  unfold variant_at. destruct (nth_error vs (N.to_nat i)) as [[n [k' a']]|]; [|discriminate].
  destruct (beq n name && kind_eqb k k') eqn:E; [|discriminate]. intros [= <-].
  apply andb_prop in E as [E1 E2]. apply beq_true in E1. apply kind_eqb_true in E2. now subst.
Qed.

Definition vconf (p : bytes * (vkind * shape)) : bytes * (vkind * (sval -> bool)) :=
  let (n, ks) := p in let (k, s) := ks in (n, (k, conforms s)).

Lemma nth_error_vconf vs i name k f : nth_error (map vconf vs) i = Some (name, (k, f)) ->
  exists s, nth_error vs i = Some (name, (k, s)) /\ f = conforms s.
Proof.
  rewrite nth_error_map. destruct (nth_error vs i) as [[n [k' s]]|]; [|discriminate].
  cbn [option_map vconf]. intros [= -> -> <-]. now exists s.
Qed.

Lemma variant_ident_rt c fuel vs i name k s : names_distinct (map fst vs) = true -> str_ok name = true ->
  nth_error vs i = Some (name, (k, s)) ->
  reads (variant_ident (map (vdec c fuel) vs)) (flat (enc_str name)) (i, (name, (k, de_s c s fuel))).
Proof.
  intros Hnd Hn Hnth. unfold variant_ident. rewrite <- (app_nil_r (flat (enc_str name))).
  apply reads_bind with name; [now apply reads_str|].
  rewrite (find_idx_at (map (vdec c fuel) vs) ltac:(now rewrite map_fst_vdec) i name (k, de_s c s fuel) 0).
  - apply reads_ret.
  - rewrite nth_error_map, Hnth. reflexivity.
Qed.

Lemma nth_error_lt_len {A} (l : list A) i x : nth_error l (N.to_nat i) = Some x -> i < len l.
Proof. intro H. assert (N.to_nat i < length l)%nat by (apply nth_error_Some; congruence). unfold len. lia. Qed.

Lemma de_enum_eq c fuel vs :
  map (fun p : bytes * (vkind * shape) => let (n, ks) := p in let (k, s) := ks in (n, (k, de_s c s fuel))) vs = map (vdec c fuel) vs.
Proof. reflexivity. Qed.

Lemma conf_enum_eq vs :
  map (fun p : bytes * (vkind * shape) => let (n, ks) := p in let (k, s) := ks in (n, (k, conforms s))) vs = map vconf vs.
Proof. reflexivity. Qed.

Lemma rt_enum c fuel vs : Forall (fun p => rt_ok c fuel (snd (snd p))) vs -> rt_ok c fuel (ShEnum vs).
Proof.
  intros IH Hd Hs Ho v cs Hc Hser Hf. cbn [direct shape_ok opt_in_opt] in *.
  apply andb_prop in Hs as [Hs Hsv]. apply andb_prop in Hs as [Hnd Hlen]. apply N.ltb_lt in Hlen.
  (* facts about the variant the value names *)
  assert (Hvar: forall i name k s, nth_error vs (N.to_nat i) = Some (name, (k, s)) ->
            str_ok name = true /\ payload_ok k s = true /\ shape_ok s = true /\ direct s = true /\ opt_in_opt s = false
            /\ rt_ok c fuel s /\ (i <? 4294967296) = true).
  { intros i name k s Hn. pose proof (nth_error_In _ _ Hn) as Hin.
    pose proof (proj1 (forallb_forall _ _) Hsv _ Hin) as H1. cbn beta iota in H1.
    apply andb_prop in H1 as [H1 H1c]. apply andb_prop in H1 as [H1a H1b].
    pose proof (proj1 (forallb_forall _ _) Hd _ Hin) as H2. cbn beta iota in H2.
    pose proof (proj1 (Forall_forall _ _) IH _ Hin) as H3. cbn [snd] in H3.
    assert (H4: opt_in_opt s = false).
    { destruct (opt_in_opt s) eqn:E; [|reflexivity]. exfalso.
      assert (existsb (fun p : bytes * (vkind * shape) => let (_, ks) := p in let (_, s0) := ks in opt_in_opt s0) vs = true)
        by (apply existsb_exists; exists (name, (k, s)); split; [exact Hin|exact E]). congruence. }
    refine (conj H1a (conj H1b (conj H1c (conj H2 (conj H4 (conj H3 _)))))).
    apply N.ltb_lt. pose proof (nth_error_lt_len _ _ _ Hn). lia. }
  cbn [de_s]. rewrite de_enum_eq.
  destruct v; try discriminate Hc; cbn [conforms] in Hc; try rewrite conf_enum_eq in Hc.
  - (* unit variant *)
    destruct (variant_at vs idx name KUnit) as [s|] eqn:Ev; [|discriminate]. apply variant_at_some in Ev.
    destruct (Hvar _ _ _ _ Ev) as (Hn & _ & _ & _ & _ & _ & Hi).
    cbn [ser_s] in Hser. injection Hser as <-.
    split; [|cbn [sval_ok]; now rewrite (str_ok_name name Hn), Hi].
    intros rest p L HL.
    pose proof (prelude_text name [] rest p L (str_ok_len _ Hn)) as Ep. rewrite app_nil_r in Ep.
    rewrite (bind_ok _ _ _ _ _ Ep).
    rewrite (bind_ok _ _ _ _ _ (variant_ident_rt c fuel vs (N.to_nat idx) name KUnit s Hnd Hn Ev rest p L HL)).
    cbn [fst snd]. now rewrite N2Nat.id.
  - (* newtype variant *)
    destruct (variant_at (map vconf vs) idx name KNewtype) as [f|] eqn:Ev; [|discriminate]. apply variant_at_some in Ev.
    apply nth_error_vconf in Ev as (s & Ev & ->).
    destruct (Hvar _ _ _ _ Ev) as (Hn & _ & Hss & Hds & Hos & IHs & Hi).
    cbn [ser_s] in Hser. apply ocat_some_l in Hser as (y & Hy & ->).
    rewrite !flat_app, !app_length in Hf.
    destruct (IHs Hds Hss Hos v y Hc Hy ltac:(lia)) as [Hr Hok].
    split; [|cbn [sval_ok]; now rewrite (str_ok_name name Hn), Hi, Hok].
    rewrite !flat_app, <- app_assoc.
    apply reads_bind with tt; [apply prelude_map1|].
    apply reads_bind with (N.to_nat idx, (name, (KNewtype, de_s c s fuel))); [now apply variant_ident_rt|].
    cbn [fst snd]. rewrite N2Nat.id.
    apply (reads_fmap (fun x => wrap_variant KNewtype idx name x) _ _ v). exact Hr.
  - (* tuple variant *)
    destruct (variant_at (map vconf vs) idx name KTuple) as [f|] eqn:Ev; [|discriminate]. apply variant_at_some in Ev.
    apply nth_error_vconf in Ev as (s & Ev & ->).
    destruct (Hvar _ _ _ _ Ev) as (Hn & Hp & Hss & Hds & Hos & IHs & Hi).
    cbn [ser_s] in Hser. apply ocat_some_l in Hser as (y & Hy & ->).
    assert (Hpay: ser_s c (STuple n l) = Some (enc_array n ++ y)) by (cbn [ser_s]; now rewrite Hy).
    rewrite !flat_app, !app_length in Hf.
    destruct (IHs Hds Hss Hos (STuple n l) _ Hc Hpay ltac:(rewrite flat_app, app_length; lia)) as [Hr Hok].
    cbn [sval_ok] in Hok.
    split; [|cbn [sval_ok]; rewrite (str_ok_name name Hn), Hi; cbn [andb]; exact Hok].
    rewrite !flat_app. rewrite <- !app_assoc.
    apply reads_bind with tt; [apply prelude_map1|].
    apply reads_bind with (N.to_nat idx, (name, (KTuple, de_s c s fuel))); [now apply variant_ident_rt|].
    cbn [fst snd]. rewrite N2Nat.id. rewrite <- flat_app.
    apply (reads_fmap (fun x => wrap_variant KTuple idx name x) _ _ (STuple n l)). exact Hr.
  - (* struct variant *)
    destruct (variant_at (map vconf vs) idx name KStruct) as [f|] eqn:Ev; [|discriminate]. apply variant_at_some in Ev.
    apply nth_error_vconf in Ev as (s & Ev & ->).
    destruct (Hvar _ _ _ _ Ev) as (Hn & Hp & Hss & Hds & Hos & IHs & Hi).
    cbn [ser_s] in Hser. apply ocat_some_l in Hser as (y & Hy & ->).
    assert (Hpay: ser_s c (SStruct n fs) = Some (enc_map n ++ y)) by (cbn [ser_s]; now rewrite Hy).
    rewrite !flat_app, !app_length in Hf.
    destruct (IHs Hds Hss Hos (SStruct n fs) _ Hc Hpay ltac:(rewrite flat_app, app_length; lia)) as [Hr Hok].
    cbn [sval_ok] in Hok.
    split; [|cbn [sval_ok]; rewrite (str_ok_name name Hn), Hi; cbn [andb]; exact Hok].
    rewrite !flat_app. rewrite <- !app_assoc.
    apply reads_bind with tt; [apply prelude_map1|].
    apply reads_bind with (N.to_nat idx, (name, (KStruct, de_s c s fuel))); [now apply variant_ident_rt|].
    cbn [fst snd]. rewrite N2Nat.id. rewrite <- flat_app.
    apply (reads_fmap (fun x => wrap_variant KStruct idx name x) _ _ (SStruct n fs)). exact Hr.
Qed.

(* ---- the theorem ---- *)
Theorem de_s_roundtrip c fuel sh : rt_ok c fuel sh.
Proof.
  induction sh using shape_ind'.
  - now apply rt_leaf.
  - now apply rt_option.
  - now apply rt_newtype.
  - now apply rt_seq.
  - now apply rt_tuple.
  - now apply rt_tuple_struct.
  - now apply rt_map.
  - now apply rt_struct.
  - now apply rt_enum.
Qed.

(* the pinned form: explicit fuel, and the self-fuelled de_auto on a whole input *)
Theorem roundtrip_at c sh v cs fuel rest p L :
  direct sh = true -> shape_ok sh = true -> opt_in_opt sh = false -> conforms sh v = true ->
  ser_s c v = Some cs -> (length (flat cs) < fuel)%nat -> p + len (flat cs) <= L ->
  de_s c sh fuel (mkdst p (flat cs ++ rest) L) = (Ok v, mkdst (p + len (flat cs)) rest L).
Proof.
  intros Hd Hs Ho Hc Hser Hf HL. destruct (de_s_roundtrip c fuel sh Hd Hs Ho v cs Hc Hser Hf) as [Hr _].
  now apply Hr.
Qed.

Theorem roundtrip_auto c sh v cs rest :
  direct sh = true -> shape_ok sh = true -> opt_in_opt sh = false -> conforms sh v = true ->
  ser_s c v = Some cs ->
  run (de_auto c sh) (flat cs ++ rest) = (Ok v, mkdst (len (flat cs)) rest (len (flat cs ++ rest))).
Proof.
  intros Hd Hs Ho Hc Hser. unfold run, de_auto, start, fuel_of. cbn [drest].
  rewrite (roundtrip_at c sh v cs _ rest 0 (len (flat cs ++ rest)) Hd Hs Ho Hc Hser).
  - reflexivity.
  - rewrite app_length. lia.
  - rewrite len_app. lia.
Qed.

Theorem roundtrip_sval_ok c sh v cs :
  direct sh = true -> shape_ok sh = true -> opt_in_opt sh = false -> conforms sh v = true ->
  ser_s c v = Some cs -> sval_ok v = true.
Proof.
  intros Hd Hs Ho Hc Hser.
  destruct (de_s_roundtrip c (S (length (flat cs))) sh Hd Hs Ho v cs Hc Hser ltac:(lia)) as [_ Hok]. exact Hok.
Qed.
