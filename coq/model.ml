
(** val negb : bool -> bool **)

let negb = function
| true -> false
| false -> true

type nat =
| O
| S of nat

(** val fst : ('a1 * 'a2) -> 'a1 **)

let fst = function
| (x, _) -> x

(** val snd : ('a1 * 'a2) -> 'a2 **)

let snd = function
| (_, y) -> y

(** val length : 'a1 list -> nat **)

let rec length = function
| [] -> O
| _ :: l' -> S (length l')

(** val app : 'a1 list -> 'a1 list -> 'a1 list **)

let rec app l m0 =
  match l with
  | [] -> m0
  | a :: l1 -> a :: (app l1 m0)

type comparison =
| Eq
| Lt
| Gt

(** val compOpp : comparison -> comparison **)

let compOpp = function
| Eq -> Eq
| Lt -> Gt
| Gt -> Lt

module Coq__1 = struct
 (** val add : nat -> nat -> nat **)
 let rec add n0 m0 =
   match n0 with
   | O -> m0
   | S p -> S (add p m0)
end
include Coq__1

(** val tl : 'a1 list -> 'a1 list **)

let tl = function
| [] -> []
| _ :: m0 -> m0

(** val rev : 'a1 list -> 'a1 list **)

let rec rev = function
| [] -> []
| x :: l' -> app (rev l') (x :: [])

(** val concat : 'a1 list list -> 'a1 list **)

let rec concat = function
| [] -> []
| x :: l0 -> app x (concat l0)

(** val map : ('a1 -> 'a2) -> 'a1 list -> 'a2 list **)

let rec map f = function
| [] -> []
| a :: t -> (f a) :: (map f t)

(** val flat_map : ('a1 -> 'a2 list) -> 'a1 list -> 'a2 list **)

let rec flat_map f = function
| [] -> []
| x :: t -> app (f x) (flat_map f t)

(** val fold_left : ('a1 -> 'a2 -> 'a1) -> 'a2 list -> 'a1 -> 'a1 **)

let rec fold_left f l a0 =
  match l with
  | [] -> a0
  | b :: t -> fold_left f t (f a0 b)

(** val fold_right : ('a2 -> 'a1 -> 'a1) -> 'a1 -> 'a2 list -> 'a1 **)

let rec fold_right f a0 = function
| [] -> a0
| b :: t -> f b (fold_right f a0 t)

(** val forallb : ('a1 -> bool) -> 'a1 list -> bool **)

let rec forallb f = function
| [] -> true
| a :: l0 -> (&&) (f a) (forallb f l0)

(** val repeat : 'a1 -> nat -> 'a1 list **)

let rec repeat x = function
| O -> []
| S k -> x :: (repeat x k)

type positive =
| XI of positive
| XO of positive
| XH

type n =
| N0
| Npos of positive

type z =
| Z0
| Zpos of positive
| Zneg of positive

module Pos =
 struct
  type mask =
  | IsNul
  | IsPos of positive
  | IsNeg
 end

module Coq_Pos =
 struct
  (** val succ : positive -> positive **)

  let rec succ = function
  | XI p -> XO (succ p)
  | XO p -> XI p
  | XH -> XO XH

  (** val add : positive -> positive -> positive **)

  let rec add x y =
    match x with
    | XI p ->
      (match y with
       | XI q -> XO (add_carry p q)
       | XO q -> XI (add p q)
       | XH -> XO (succ p))
    | XO p ->
      (match y with
       | XI q -> XI (add p q)
       | XO q -> XO (add p q)
       | XH -> XI p)
    | XH -> (match y with
             | XI q -> XO (succ q)
             | XO q -> XI q
             | XH -> XO XH)

  (** val add_carry : positive -> positive -> positive **)

  and add_carry x y =
    match x with
    | XI p ->
      (match y with
       | XI q -> XI (add_carry p q)
       | XO q -> XO (add_carry p q)
       | XH -> XI (succ p))
    | XO p ->
      (match y with
       | XI q -> XO (add_carry p q)
       | XO q -> XI (add p q)
       | XH -> XO (succ p))
    | XH ->
      (match y with
       | XI q -> XI (succ q)
       | XO q -> XO (succ q)
       | XH -> XI XH)

  (** val pred_double : positive -> positive **)

  let rec pred_double = function
  | XI p -> XI (XO p)
  | XO p -> XI (pred_double p)
  | XH -> XH

  (** val pred_N : positive -> n **)

  let pred_N = function
  | XI p -> Npos (XO p)
  | XO p -> Npos (pred_double p)
  | XH -> N0

  type mask = Pos.mask =
  | IsNul
  | IsPos of positive
  | IsNeg

  (** val succ_double_mask : mask -> mask **)

  let succ_double_mask = function
  | IsNul -> IsPos XH
  | IsPos p -> IsPos (XI p)
  | IsNeg -> IsNeg

  (** val double_mask : mask -> mask **)

  let double_mask = function
  | IsPos p -> IsPos (XO p)
  | x0 -> x0

  (** val double_pred_mask : positive -> mask **)

  let double_pred_mask = function
  | XI p -> IsPos (XO (XO p))
  | XO p -> IsPos (XO (pred_double p))
  | XH -> IsNul

  (** val sub_mask : positive -> positive -> mask **)

  let rec sub_mask x y =
    match x with
    | XI p ->
      (match y with
       | XI q -> double_mask (sub_mask p q)
       | XO q -> succ_double_mask (sub_mask p q)
       | XH -> IsPos (XO p))
    | XO p ->
      (match y with
       | XI q -> succ_double_mask (sub_mask_carry p q)
       | XO q -> double_mask (sub_mask p q)
       | XH -> IsPos (pred_double p))
    | XH -> (match y with
             | XH -> IsNul
             | _ -> IsNeg)

  (** val sub_mask_carry : positive -> positive -> mask **)

  and sub_mask_carry x y =
    match x with
    | XI p ->
      (match y with
       | XI q -> succ_double_mask (sub_mask_carry p q)
       | XO q -> double_mask (sub_mask p q)
       | XH -> IsPos (pred_double p))
    | XO p ->
      (match y with
       | XI q -> double_mask (sub_mask_carry p q)
       | XO q -> succ_double_mask (sub_mask_carry p q)
       | XH -> double_pred_mask p)
    | XH -> IsNeg

  (** val mul : positive -> positive -> positive **)

  let rec mul x y =
    match x with
    | XI p -> add y (XO (mul p y))
    | XO p -> XO (mul p y)
    | XH -> y

  (** val iter : ('a1 -> 'a1) -> 'a1 -> positive -> 'a1 **)

  let rec iter f x = function
  | XI n' -> f (iter f (iter f x n') n')
  | XO n' -> iter f (iter f x n') n'
  | XH -> f x

  (** val pow : positive -> positive -> positive **)

  let pow x =
    iter (mul x) XH

  (** val size : positive -> positive **)

  let rec size = function
  | XI p0 -> succ (size p0)
  | XO p0 -> succ (size p0)
  | XH -> XH

  (** val compare_cont : comparison -> positive -> positive -> comparison **)

  let rec compare_cont r x y =
    match x with
    | XI p ->
      (match y with
       | XI q -> compare_cont r p q
       | XO q -> compare_cont Gt p q
       | XH -> Gt)
    | XO p ->
      (match y with
       | XI q -> compare_cont Lt p q
       | XO q -> compare_cont r p q
       | XH -> Gt)
    | XH -> (match y with
             | XH -> r
             | _ -> Lt)

  (** val compare : positive -> positive -> comparison **)

  let compare =
    compare_cont Eq

  (** val eqb : positive -> positive -> bool **)

  let rec eqb p q =
    match p with
    | XI p0 -> (match q with
                | XI q0 -> eqb p0 q0
                | _ -> false)
    | XO p0 -> (match q with
                | XO q0 -> eqb p0 q0
                | _ -> false)
    | XH -> (match q with
             | XH -> true
             | _ -> false)

  (** val coq_Nsucc_double : n -> n **)

  let coq_Nsucc_double = function
  | N0 -> Npos XH
  | Npos p -> Npos (XI p)

  (** val coq_Ndouble : n -> n **)

  let coq_Ndouble = function
  | N0 -> N0
  | Npos p -> Npos (XO p)

  (** val coq_lor : positive -> positive -> positive **)

  let rec coq_lor p q =
    match p with
    | XI p0 ->
      (match q with
       | XI q0 -> XI (coq_lor p0 q0)
       | XO q0 -> XI (coq_lor p0 q0)
       | XH -> p)
    | XO p0 ->
      (match q with
       | XI q0 -> XI (coq_lor p0 q0)
       | XO q0 -> XO (coq_lor p0 q0)
       | XH -> XI p0)
    | XH -> (match q with
             | XO q0 -> XI q0
             | _ -> q)

  (** val coq_land : positive -> positive -> n **)

  let rec coq_land p q =
    match p with
    | XI p0 ->
      (match q with
       | XI q0 -> coq_Nsucc_double (coq_land p0 q0)
       | XO q0 -> coq_Ndouble (coq_land p0 q0)
       | XH -> Npos XH)
    | XO p0 ->
      (match q with
       | XI q0 -> coq_Ndouble (coq_land p0 q0)
       | XO q0 -> coq_Ndouble (coq_land p0 q0)
       | XH -> N0)
    | XH -> (match q with
             | XO _ -> N0
             | _ -> Npos XH)

  (** val iter_op : ('a1 -> 'a1 -> 'a1) -> positive -> 'a1 -> 'a1 **)

  let rec iter_op op p a =
    match p with
    | XI p0 -> op a (iter_op op p0 (op a a))
    | XO p0 -> iter_op op p0 (op a a)
    | XH -> a

  (** val to_nat : positive -> nat **)

  let to_nat x =
    iter_op Coq__1.add x (S O)

  (** val of_succ_nat : nat -> positive **)

  let rec of_succ_nat = function
  | O -> XH
  | S x -> succ (of_succ_nat x)
 end

module N =
 struct
  (** val succ_double : n -> n **)

  let succ_double = function
  | N0 -> Npos XH
  | Npos p -> Npos (XI p)

  (** val double : n -> n **)

  let double = function
  | N0 -> N0
  | Npos p -> Npos (XO p)

  (** val pred : n -> n **)

  let pred = function
  | N0 -> N0
  | Npos p -> Coq_Pos.pred_N p

  (** val add : n -> n -> n **)

  let add n0 m0 =
    match n0 with
    | N0 -> m0
    | Npos p -> (match m0 with
                 | N0 -> n0
                 | Npos q -> Npos (Coq_Pos.add p q))

  (** val sub : n -> n -> n **)

  let sub n0 m0 =
    match n0 with
    | N0 -> N0
    | Npos n' ->
      (match m0 with
       | N0 -> n0
       | Npos m' ->
         (match Coq_Pos.sub_mask n' m' with
          | Coq_Pos.IsPos p -> Npos p
          | _ -> N0))

  (** val mul : n -> n -> n **)

  let mul n0 m0 =
    match n0 with
    | N0 -> N0
    | Npos p -> (match m0 with
                 | N0 -> N0
                 | Npos q -> Npos (Coq_Pos.mul p q))

  (** val compare : n -> n -> comparison **)

  let compare n0 m0 =
    match n0 with
    | N0 -> (match m0 with
             | N0 -> Eq
             | Npos _ -> Lt)
    | Npos n' -> (match m0 with
                  | N0 -> Gt
                  | Npos m' -> Coq_Pos.compare n' m')

  (** val eqb : n -> n -> bool **)

  let eqb n0 m0 =
    match n0 with
    | N0 -> (match m0 with
             | N0 -> true
             | Npos _ -> false)
    | Npos p -> (match m0 with
                 | N0 -> false
                 | Npos q -> Coq_Pos.eqb p q)

  (** val leb : n -> n -> bool **)

  let leb x y =
    match compare x y with
    | Gt -> false
    | _ -> true

  (** val ltb : n -> n -> bool **)

  let ltb x y =
    match compare x y with
    | Lt -> true
    | _ -> false

  (** val min : n -> n -> n **)

  let min n0 n' =
    match compare n0 n' with
    | Gt -> n'
    | _ -> n0

  (** val even : n -> bool **)

  let even = function
  | N0 -> true
  | Npos p -> (match p with
               | XO _ -> true
               | _ -> false)

  (** val pow : n -> n -> n **)

  let pow n0 = function
  | N0 -> Npos XH
  | Npos p0 -> (match n0 with
                | N0 -> N0
                | Npos q -> Npos (Coq_Pos.pow q p0))

  (** val size : n -> n **)

  let size = function
  | N0 -> N0
  | Npos p -> Npos (Coq_Pos.size p)

  (** val pos_div_eucl : positive -> n -> n * n **)

  let rec pos_div_eucl a b =
    match a with
    | XI a' ->
      let (q, r) = pos_div_eucl a' b in
      let r' = succ_double r in
      if leb b r' then ((succ_double q), (sub r' b)) else ((double q), r')
    | XO a' ->
      let (q, r) = pos_div_eucl a' b in
      let r' = double r in
      if leb b r' then ((succ_double q), (sub r' b)) else ((double q), r')
    | XH ->
      (match b with
       | N0 -> (N0, (Npos XH))
       | Npos p -> (match p with
                    | XH -> ((Npos XH), N0)
                    | _ -> (N0, (Npos XH))))

  (** val div_eucl : n -> n -> n * n **)

  let div_eucl a b =
    match a with
    | N0 -> (N0, N0)
    | Npos na -> (match b with
                  | N0 -> (N0, a)
                  | Npos _ -> pos_div_eucl na b)

  (** val div : n -> n -> n **)

  let div a b =
    fst (div_eucl a b)

  (** val modulo : n -> n -> n **)

  let modulo a b =
    snd (div_eucl a b)

  (** val coq_lor : n -> n -> n **)

  let coq_lor n0 m0 =
    match n0 with
    | N0 -> m0
    | Npos p ->
      (match m0 with
       | N0 -> n0
       | Npos q -> Npos (Coq_Pos.coq_lor p q))

  (** val coq_land : n -> n -> n **)

  let coq_land n0 m0 =
    match n0 with
    | N0 -> N0
    | Npos p -> (match m0 with
                 | N0 -> N0
                 | Npos q -> Coq_Pos.coq_land p q)

  (** val to_nat : n -> nat **)

  let to_nat = function
  | N0 -> O
  | Npos p -> Coq_Pos.to_nat p

  (** val of_nat : nat -> n **)

  let of_nat = function
  | O -> N0
  | S n' -> Npos (Coq_Pos.of_succ_nat n')
 end

module Z =
 struct
  (** val double : z -> z **)

  let double = function
  | Z0 -> Z0
  | Zpos p -> Zpos (XO p)
  | Zneg p -> Zneg (XO p)

  (** val succ_double : z -> z **)

  let succ_double = function
  | Z0 -> Zpos XH
  | Zpos p -> Zpos (XI p)
  | Zneg p -> Zneg (Coq_Pos.pred_double p)

  (** val pred_double : z -> z **)

  let pred_double = function
  | Z0 -> Zneg XH
  | Zpos p -> Zpos (Coq_Pos.pred_double p)
  | Zneg p -> Zneg (XI p)

  (** val pos_sub : positive -> positive -> z **)

  let rec pos_sub x y =
    match x with
    | XI p ->
      (match y with
       | XI q -> double (pos_sub p q)
       | XO q -> succ_double (pos_sub p q)
       | XH -> Zpos (XO p))
    | XO p ->
      (match y with
       | XI q -> pred_double (pos_sub p q)
       | XO q -> double (pos_sub p q)
       | XH -> Zpos (Coq_Pos.pred_double p))
    | XH ->
      (match y with
       | XI q -> Zneg (XO q)
       | XO q -> Zneg (Coq_Pos.pred_double q)
       | XH -> Z0)

  (** val add : z -> z -> z **)

  let add x y =
    match x with
    | Z0 -> y
    | Zpos x' ->
      (match y with
       | Z0 -> x
       | Zpos y' -> Zpos (Coq_Pos.add x' y')
       | Zneg y' -> pos_sub x' y')
    | Zneg x' ->
      (match y with
       | Z0 -> x
       | Zpos y' -> pos_sub y' x'
       | Zneg y' -> Zneg (Coq_Pos.add x' y'))

  (** val opp : z -> z **)

  let opp = function
  | Z0 -> Z0
  | Zpos x0 -> Zneg x0
  | Zneg x0 -> Zpos x0

  (** val sub : z -> z -> z **)

  let sub m0 n0 =
    add m0 (opp n0)

  (** val compare : z -> z -> comparison **)

  let compare x y =
    match x with
    | Z0 -> (match y with
             | Z0 -> Eq
             | Zpos _ -> Lt
             | Zneg _ -> Gt)
    | Zpos x' -> (match y with
                  | Zpos y' -> Coq_Pos.compare x' y'
                  | _ -> Gt)
    | Zneg x' ->
      (match y with
       | Zneg y' -> compOpp (Coq_Pos.compare x' y')
       | _ -> Lt)

  (** val leb : z -> z -> bool **)

  let leb x y =
    match compare x y with
    | Gt -> false
    | _ -> true

  (** val ltb : z -> z -> bool **)

  let ltb x y =
    match compare x y with
    | Lt -> true
    | _ -> false

  (** val to_N : z -> n **)

  let to_N = function
  | Zpos p -> Npos p
  | _ -> N0

  (** val of_N : n -> z **)

  let of_N = function
  | N0 -> Z0
  | Npos p -> Zpos p
 end

type bytes = n list

(** val byte_ok : n -> bool **)

let byte_ok b =
  N.ltb b (Npos (XO (XO (XO (XO (XO (XO (XO (XO XH)))))))))

(** val bytes_ok : bytes -> bool **)

let bytes_ok bs =
  forallb byte_ok bs

(** val len : 'a1 list -> n **)

let len l =
  N.of_nat (length l)

(** val be : nat -> n -> bytes **)

let rec be k n0 =
  match k with
  | O -> []
  | S k' ->
    (N.modulo
      (N.div n0
        (N.pow (Npos (XO XH)) (N.mul (Npos (XO (XO (XO XH)))) (N.of_nat k'))))
      (Npos (XO (XO (XO (XO (XO (XO (XO (XO XH)))))))))) :: (be k' n0)

(** val of_be : bytes -> n **)

let of_be bs =
  fold_left (fun a b ->
    N.add (N.mul a (Npos (XO (XO (XO (XO (XO (XO (XO (XO XH)))))))))) b) bs N0

(** val take : 'a1 list -> n -> ('a1 list * 'a1 list) option **)

let rec take l n0 =
  if N.eqb n0 N0
  then Some ([], l)
  else (match l with
        | [] -> None
        | b :: r ->
          (match take r (N.pred n0) with
           | Some p -> let (a, rest) = p in Some ((b :: a), rest)
           | None -> None))

(** val dropN : 'a1 list -> n -> 'a1 list **)

let rec dropN l n0 =
  if N.eqb n0 N0
  then l
  else (match l with
        | [] -> []
        | _ :: r -> dropN r (N.pred n0))

(** val u64_max : n **)

let u64_max =
  Npos (XI (XI (XI (XI (XI (XI (XI (XI (XI (XI (XI (XI (XI (XI (XI (XI (XI
    (XI (XI (XI (XI (XI (XI (XI (XI (XI (XI (XI (XI (XI (XI (XI (XI (XI (XI
    (XI (XI (XI (XI (XI (XI (XI (XI (XI (XI (XI (XI (XI (XI (XI (XI (XI (XI
    (XI (XI (XI (XI (XI (XI (XI (XI (XI (XI
    XH)))))))))))))))))))))))))))))))))))))))))))))))))))))))))))))))

type ctype =
| TBool
| TNull
| TUndefined
| TU8
| TU16
| TU32
| TU64
| TI8
| TI16
| TI32
| TI64
| TInt
| TF16
| TF32
| TF64
| TSimple
| TBytes
| TBytesIndef
| TString
| TStringIndef
| TArray
| TArrayIndef
| TMap
| TMapIndef
| TTag
| TBreak
| TUnknown of n

type err =
| EndOfInput
| TypeMismatch of ctype
| Overflow of n
| InvalidChar of n
| Utf8
| TagMismatch of n
| UnknownVariant of n
| MissingValue of n
| Message
| Custom

type 'a result =
| Ok of 'a
| Err of err
| Panic
| OutOfFuel

type dst = { dpos : n; drest : bytes; dlen : n }

type 'a m = dst -> 'a result * dst

(** val ret : 'a1 -> 'a1 m **)

let ret a s =
  ((Ok a), s)

(** val fail : err -> 'a1 m **)

let fail e s =
  ((Err e), s)

(** val bind : 'a1 m -> ('a1 -> 'a2 m) -> 'a2 m **)

let bind m0 f s =
  let (r, s') = m0 s in
  (match r with
   | Ok a -> f a s'
   | Err e -> ((Err e), s')
   | Panic -> (Panic, s')
   | OutOfFuel -> (OutOfFuel, s'))

(** val fmap : ('a1 -> 'a2) -> 'a1 m -> 'a2 m **)

let fmap f m0 =
  bind m0 (fun a -> ret (f a))

(** val start : bytes -> dst **)

let start bs =
  { dpos = N0; drest = bs; dlen = (len bs) }

(** val run : 'a1 m -> bytes -> 'a1 result * dst **)

let run m0 bs =
  m0 (start bs)

(** val at_pos : bytes -> n -> dst **)

let at_pos inp p =
  { dpos = p; drest = (dropN inp p); dlen = (len inp) }

(** val inr : n -> n -> n -> bool **)

let inr lo hi b =
  (&&) (N.leb lo b) (N.leb b hi)

(** val utf8_valid_fuel : nat -> bytes -> bool **)

let rec utf8_valid_fuel fuel bs =
  match fuel with
  | O -> (match bs with
          | [] -> true
          | _ :: _ -> false)
  | S fuel0 ->
    (match bs with
     | [] -> true
     | b0 :: r ->
       if N.ltb b0 (Npos (XO (XO (XO (XO (XO (XO (XO XH))))))))
       then utf8_valid_fuel fuel0 r
       else if inr (Npos (XO (XI (XO (XO (XO (XO (XI XH)))))))) (Npos (XI (XI
                 (XI (XI (XI (XO (XI XH)))))))) b0
            then (match r with
                  | [] -> false
                  | b1 :: r' ->
                    (&&)
                      (inr (Npos (XO (XO (XO (XO (XO (XO (XO XH)))))))) (Npos
                        (XI (XI (XI (XI (XI (XI (XO XH)))))))) b1)
                      (utf8_valid_fuel fuel0 r'))
            else if N.eqb b0 (Npos (XO (XO (XO (XO (XO (XI (XI XH))))))))
                 then (match r with
                       | [] -> false
                       | b1 :: l ->
                         (match l with
                          | [] -> false
                          | b2 :: r' ->
                            (&&)
                              ((&&)
                                (inr (Npos (XO (XO (XO (XO (XO (XI (XO
                                  XH)))))))) (Npos (XI (XI (XI (XI (XI (XI
                                  (XO XH)))))))) b1)
                                (inr (Npos (XO (XO (XO (XO (XO (XO (XO
                                  XH)))))))) (Npos (XI (XI (XI (XI (XI (XI
                                  (XO XH)))))))) b2))
                              (utf8_valid_fuel fuel0 r')))
                 else if (||)
                           (inr (Npos (XI (XO (XO (XO (XO (XI (XI XH))))))))
                             (Npos (XO (XO (XI (XI (XO (XI (XI XH)))))))) b0)
                           (inr (Npos (XO (XI (XI (XI (XO (XI (XI XH))))))))
                             (Npos (XI (XI (XI (XI (XO (XI (XI XH)))))))) b0)
                      then (match r with
                            | [] -> false
                            | b1 :: l ->
                              (match l with
                               | [] -> false
                               | b2 :: r' ->
                                 (&&)
                                   ((&&)
                                     (inr (Npos (XO (XO (XO (XO (XO (XO (XO
                                       XH)))))))) (Npos (XI (XI (XI (XI (XI
                                       (XI (XO XH)))))))) b1)
                                     (inr (Npos (XO (XO (XO (XO (XO (XO (XO
                                       XH)))))))) (Npos (XI (XI (XI (XI (XI
                                       (XI (XO XH)))))))) b2))
                                   (utf8_valid_fuel fuel0 r')))
                      else if N.eqb b0 (Npos (XI (XO (XI (XI (XO (XI (XI
                                XH))))))))
                           then (match r with
                                 | [] -> false
                                 | b1 :: l ->
                                   (match l with
                                    | [] -> false
                                    | b2 :: r' ->
                                      (&&)
                                        ((&&)
                                          (inr (Npos (XO (XO (XO (XO (XO (XO
                                            (XO XH)))))))) (Npos (XI (XI (XI
                                            (XI (XI (XO (XO XH)))))))) b1)
                                          (inr (Npos (XO (XO (XO (XO (XO (XO
                                            (XO XH)))))))) (Npos (XI (XI (XI
                                            (XI (XI (XI (XO XH)))))))) b2))
                                        (utf8_valid_fuel fuel0 r')))
                           else if N.eqb b0 (Npos (XO (XO (XO (XO (XI (XI (XI
                                     XH))))))))
                                then (match r with
                                      | [] -> false
                                      | b1 :: l ->
                                        (match l with
                                         | [] -> false
                                         | b2 :: l0 ->
                                           (match l0 with
                                            | [] -> false
                                            | b3 :: r' ->
                                              (&&)
                                                ((&&)
                                                  ((&&)
                                                    (inr (Npos (XO (XO (XO
                                                      (XO (XI (XO (XO
                                                      XH)))))))) (Npos (XI
                                                      (XI (XI (XI (XI (XI (XO
                                                      XH)))))))) b1)
                                                    (inr (Npos (XO (XO (XO
                                                      (XO (XO (XO (XO
                                                      XH)))))))) (Npos (XI
                                                      (XI (XI (XI (XI (XI (XO
                                                      XH)))))))) b2))
                                                  (inr (Npos (XO (XO (XO (XO
                                                    (XO (XO (XO XH))))))))
                                                    (Npos (XI (XI (XI (XI (XI
                                                    (XI (XO XH)))))))) b3))
                                                (utf8_valid_fuel fuel0 r'))))
                                else if inr (Npos (XI (XO (XO (XO (XI (XI (XI
                                          XH)))))))) (Npos (XI (XI (XO (XO
                                          (XI (XI (XI XH)))))))) b0
                                     then (match r with
                                           | [] -> false
                                           | b1 :: l ->
                                             (match l with
                                              | [] -> false
                                              | b2 :: l0 ->
                                                (match l0 with
                                                 | [] -> false
                                                 | b3 :: r' ->
                                                   (&&)
                                                     ((&&)
                                                       ((&&)
                                                         (inr (Npos (XO (XO
                                                           (XO (XO (XO (XO
                                                           (XO XH))))))))
                                                           (Npos (XI (XI (XI
                                                           (XI (XI (XI (XO
                                                           XH)))))))) b1)
                                                         (inr (Npos (XO (XO
                                                           (XO (XO (XO (XO
                                                           (XO XH))))))))
                                                           (Npos (XI (XI (XI
                                                           (XI (XI (XI (XO
                                                           XH)))))))) b2))
                                                       (inr (Npos (XO (XO (XO
                                                         (XO (XO (XO (XO
                                                         XH)))))))) (Npos (XI
                                                         (XI (XI (XI (XI (XI
                                                         (XO XH)))))))) b3))
                                                     (utf8_valid_fuel fuel0
                                                       r'))))
                                     else if N.eqb b0 (Npos (XO (XO (XI (XO
                                               (XI (XI (XI XH))))))))
                                          then (match r with
                                                | [] -> false
                                                | b1 :: l ->
                                                  (match l with
                                                   | [] -> false
                                                   | b2 :: l0 ->
                                                     (match l0 with
                                                      | [] -> false
                                                      | b3 :: r' ->
                                                        (&&)
                                                          ((&&)
                                                            ((&&)
                                                              (inr (Npos (XO
                                                                (XO (XO (XO
                                                                (XO (XO (XO
                                                                XH))))))))
                                                                (Npos (XI (XI
                                                                (XI (XI (XO
                                                                (XO (XO
                                                                XH)))))))) b1)
                                                              (inr (Npos (XO
                                                                (XO (XO (XO
                                                                (XO (XO (XO
                                                                XH))))))))
                                                                (Npos (XI (XI
                                                                (XI (XI (XI
                                                                (XI (XO
                                                                XH)))))))) b2))
                                                            (inr (Npos (XO
                                                              (XO (XO (XO (XO
                                                              (XO (XO
                                                              XH))))))))
                                                              (Npos (XI (XI
                                                              (XI (XI (XI (XI
                                                              (XO XH))))))))
                                                              b3))
                                                          (utf8_valid_fuel
                                                            fuel0 r'))))
                                          else false)

(** val utf8_valid : bytes -> bool **)

let utf8_valid bs =
  utf8_valid_fuel (length bs) bs

(** val is_scalar : n -> bool **)

let is_scalar n0 =
  (||)
    (N.ltb n0 (Npos (XO (XO (XO (XO (XO (XO (XO (XO (XO (XO (XO (XI (XI (XO
      (XI XH)))))))))))))))))
    ((&&)
      (N.leb (Npos (XO (XO (XO (XO (XO (XO (XO (XO (XO (XO (XO (XO (XO (XI
        (XI XH)))))))))))))))) n0)
      (N.ltb n0 (Npos (XO (XO (XO (XO (XO (XO (XO (XO (XO (XO (XO (XO (XO (XO
        (XO (XO (XI (XO (XO (XO XH)))))))))))))))))))))))

(** val lz16 : n -> n **)

let lz16 x =
  N.sub (Npos (XO (XO (XO (XO XH))))) (N.size x)

(** val f16_to_f32 : n -> n **)

let f16_to_f32 i =
  if N.eqb
       (N.coq_land i (Npos (XI (XI (XI (XI (XI (XI (XI (XI (XI (XI (XI (XI
         (XI (XI XH)))))))))))))))) N0
  then N.mul i (Npos (XO (XO (XO (XO (XO (XO (XO (XO (XO (XO (XO (XO (XO (XO
         (XO (XO XH)))))))))))))))))
  else let half_sign =
         N.coq_land i (Npos (XO (XO (XO (XO (XO (XO (XO (XO (XO (XO (XO (XO
           (XO (XO (XO XH))))))))))))))))
       in
       let half_exp =
         N.coq_land i (Npos (XO (XO (XO (XO (XO (XO (XO (XO (XO (XO (XI (XI
           (XI (XI XH)))))))))))))))
       in
       let half_man =
         N.coq_land i (Npos (XI (XI (XI (XI (XI (XI (XI (XI (XI XH))))))))))
       in
       if N.eqb half_exp (Npos (XO (XO (XO (XO (XO (XO (XO (XO (XO (XO (XI
            (XI (XI (XI XH)))))))))))))))
       then if N.eqb half_man N0
            then N.coq_lor
                   (N.mul half_sign (Npos (XO (XO (XO (XO (XO (XO (XO (XO (XO
                     (XO (XO (XO (XO (XO (XO (XO XH)))))))))))))))))) (Npos
                   (XO (XO (XO (XO (XO (XO (XO (XO (XO (XO (XO (XO (XO (XO
                   (XO (XO (XO (XO (XO (XO (XO (XO (XO (XI (XI (XI (XI (XI
                   (XI (XI XH)))))))))))))))))))))))))))))))
            else N.coq_lor
                   (N.coq_lor
                     (N.mul half_sign (Npos (XO (XO (XO (XO (XO (XO (XO (XO
                       (XO (XO (XO (XO (XO (XO (XO (XO XH))))))))))))))))))
                     (Npos (XO (XO (XO (XO (XO (XO (XO (XO (XO (XO (XO (XO
                     (XO (XO (XO (XO (XO (XO (XO (XO (XO (XO (XI (XI (XI (XI
                     (XI (XI (XI (XI XH))))))))))))))))))))))))))))))))
                   (N.mul half_man (Npos (XO (XO (XO (XO (XO (XO (XO (XO (XO
                     (XO (XO (XO (XO XH)))))))))))))))
       else let sign =
              N.mul half_sign (Npos (XO (XO (XO (XO (XO (XO (XO (XO (XO (XO
                (XO (XO (XO (XO (XO (XO XH)))))))))))))))))
            in
            if N.eqb half_exp N0
            then let e = N.sub (lz16 half_man) (Npos (XO (XI XH))) in
                 let exp =
                   N.mul
                     (N.sub
                       (N.sub (Npos (XI (XI (XI (XI (XI (XI XH))))))) (Npos
                         (XI (XI (XI XH))))) e)
                     (N.pow (Npos (XO XH)) (Npos (XI (XI (XI (XO XH))))))
                 in
                 let man =
                   N.coq_land
                     (N.mul half_man
                       (N.pow (Npos (XO XH))
                         (N.add (Npos (XO (XI (XI XH)))) e))) (Npos (XI (XI
                     (XI (XI (XI (XI (XI (XI (XI (XI (XI (XI (XI (XI (XI (XI
                     (XI (XI (XI (XI (XI (XI XH)))))))))))))))))))))))
                 in
                 N.coq_lor (N.coq_lor sign exp) man
            else let exp =
                   N.mul
                     (N.add
                       (N.div half_exp (Npos (XO (XO (XO (XO (XO (XO (XO (XO
                         (XO (XO XH)))))))))))) (Npos (XO (XO (XO (XO (XI (XI
                       XH))))))))
                     (N.pow (Npos (XO XH)) (Npos (XI (XI (XI (XO XH))))))
                 in
                 let man =
                   N.mul
                     (N.coq_land half_man (Npos (XI (XI (XI (XI (XI (XI (XI
                       (XI (XI XH))))))))))) (Npos (XO (XO (XO (XO (XO (XO
                     (XO (XO (XO (XO (XO (XO (XO XH))))))))))))))
                 in
                 N.coq_lor (N.coq_lor sign exp) man

(** val round_up_bits : n -> n -> bool **)

let round_up_bits man round_bit =
  (&&) (negb (N.eqb (N.coq_land man round_bit) N0))
    (negb
      (N.eqb
        (N.coq_land man (N.sub (N.mul (Npos (XI XH)) round_bit) (Npos XH)))
        N0))

(** val f32_to_f16 : n -> n **)

let f32_to_f16 x =
  let sign =
    N.coq_land x (Npos (XO (XO (XO (XO (XO (XO (XO (XO (XO (XO (XO (XO (XO
      (XO (XO (XO (XO (XO (XO (XO (XO (XO (XO (XO (XO (XO (XO (XO (XO (XO (XO
      XH))))))))))))))))))))))))))))))))
  in
  let exp =
    N.coq_land x (Npos (XO (XO (XO (XO (XO (XO (XO (XO (XO (XO (XO (XO (XO
      (XO (XO (XO (XO (XO (XO (XO (XO (XO (XO (XI (XI (XI (XI (XI (XI (XI
      XH)))))))))))))))))))))))))))))))
  in
  let man =
    N.coq_land x (Npos (XI (XI (XI (XI (XI (XI (XI (XI (XI (XI (XI (XI (XI
      (XI (XI (XI (XI (XI (XI (XI (XI (XI XH)))))))))))))))))))))))
  in
  if N.eqb exp (Npos (XO (XO (XO (XO (XO (XO (XO (XO (XO (XO (XO (XO (XO (XO
       (XO (XO (XO (XO (XO (XO (XO (XO (XO (XI (XI (XI (XI (XI (XI (XI
       XH)))))))))))))))))))))))))))))))
  then let nan_bit =
         if N.eqb man N0
         then N0
         else Npos (XO (XO (XO (XO (XO (XO (XO (XO (XO XH)))))))))
       in
       N.modulo
         (N.coq_lor
           (N.coq_lor
             (N.coq_lor
               (N.div sign (Npos (XO (XO (XO (XO (XO (XO (XO (XO (XO (XO (XO
                 (XO (XO (XO (XO (XO XH)))))))))))))))))) (Npos (XO (XO (XO
               (XO (XO (XO (XO (XO (XO (XO (XI (XI (XI (XI XH))))))))))))))))
             nan_bit)
           (N.div man (Npos (XO (XO (XO (XO (XO (XO (XO (XO (XO (XO (XO (XO
             (XO XH)))))))))))))))) (Npos (XO (XO (XO (XO (XO (XO (XO (XO (XO
         (XO (XO (XO (XO (XO (XO (XO XH)))))))))))))))))
  else let half_sign =
         N.div sign (Npos (XO (XO (XO (XO (XO (XO (XO (XO (XO (XO (XO (XO (XO
           (XO (XO (XO XH)))))))))))))))))
       in
       let half_exp =
         Z.add
           (Z.sub
             (Z.of_N
               (N.div exp
                 (N.pow (Npos (XO XH)) (Npos (XI (XI (XI (XO XH)))))))) (Zpos
             (XI (XI (XI (XI (XI (XI XH)))))))) (Zpos (XI (XI (XI XH))))
       in
       if Z.leb (Zpos (XI (XI (XI (XI XH))))) half_exp
       then N.coq_lor half_sign (Npos (XO (XO (XO (XO (XO (XO (XO (XO (XO (XO
              (XI (XI (XI (XI XH)))))))))))))))
       else if Z.leb half_exp Z0
            then if Z.ltb (Zpos (XO (XO (XO (XI XH)))))
                      (Z.sub (Zpos (XO (XI (XI XH)))) half_exp)
                 then half_sign
                 else let man0 =
                        N.coq_lor man (Npos (XO (XO (XO (XO (XO (XO (XO (XO
                          (XO (XO (XO (XO (XO (XO (XO (XO (XO (XO (XO (XO (XO
                          (XO (XO XH))))))))))))))))))))))))
                      in
                      let half_man =
                        N.div man0
                          (N.pow (Npos (XO XH))
                            (Z.to_N (Z.sub (Zpos (XO (XI (XI XH)))) half_exp)))
                      in
                      let round_bit =
                        N.pow (Npos (XO XH))
                          (Z.to_N (Z.sub (Zpos (XI (XO (XI XH)))) half_exp))
                      in
                      let half_man0 =
                        if round_up_bits man0 round_bit
                        then N.add half_man (Npos XH)
                        else half_man
                      in
                      N.modulo (N.coq_lor half_sign half_man0) (Npos (XO (XO
                        (XO (XO (XO (XO (XO (XO (XO (XO (XO (XO (XO (XO (XO
                        (XO XH)))))))))))))))))
            else let half_exp0 =
                   N.mul (Z.to_N half_exp) (Npos (XO (XO (XO (XO (XO (XO (XO
                     (XO (XO (XO XH)))))))))))
                 in
                 let half_man =
                   N.div man (Npos (XO (XO (XO (XO (XO (XO (XO (XO (XO (XO
                     (XO (XO (XO XH))))))))))))))
                 in
                 if round_up_bits man (Npos (XO (XO (XO (XO (XO (XO (XO (XO
                      (XO (XO (XO (XO XH)))))))))))))
                 then N.modulo
                        (N.add
                          (N.coq_lor (N.coq_lor half_sign half_exp0) half_man)
                          (Npos XH)) (Npos (XO (XO (XO (XO (XO (XO (XO (XO
                        (XO (XO (XO (XO (XO (XO (XO (XO XH)))))))))))))))))
                 else N.modulo
                        (N.coq_lor (N.coq_lor half_sign half_exp0) half_man)
                        (Npos (XO (XO (XO (XO (XO (XO (XO (XO (XO (XO (XO (XO
                        (XO (XO (XO (XO XH)))))))))))))))))

(** val f32_to_f64 : n -> n **)

let f32_to_f64 x =
  let sign =
    N.mul (N.div x (N.pow (Npos (XO XH)) (Npos (XI (XI (XI (XI XH)))))))
      (N.pow (Npos (XO XH)) (Npos (XI (XI (XI (XI (XI XH)))))))
  in
  let e =
    N.modulo (N.div x (N.pow (Npos (XO XH)) (Npos (XI (XI (XI (XO XH)))))))
      (Npos (XO (XO (XO (XO (XO (XO (XO (XO XH)))))))))
  in
  let m0 = N.modulo x (N.pow (Npos (XO XH)) (Npos (XI (XI (XI (XO XH)))))) in
  if N.eqb e (Npos (XI (XI (XI (XI (XI (XI (XI XH))))))))
  then if N.eqb m0 N0
       then N.add sign (Npos (XO (XO (XO (XO (XO (XO (XO (XO (XO (XO (XO (XO
              (XO (XO (XO (XO (XO (XO (XO (XO (XO (XO (XO (XO (XO (XO (XO (XO
              (XO (XO (XO (XO (XO (XO (XO (XO (XO (XO (XO (XO (XO (XO (XO (XO
              (XO (XO (XO (XO (XO (XO (XO (XO (XI (XI (XI (XI (XI (XI (XI (XI
              (XI (XI
              XH)))))))))))))))))))))))))))))))))))))))))))))))))))))))))))))))
       else N.add
              (N.add sign (Npos (XO (XO (XO (XO (XO (XO (XO (XO (XO (XO (XO
                (XO (XO (XO (XO (XO (XO (XO (XO (XO (XO (XO (XO (XO (XO (XO
                (XO (XO (XO (XO (XO (XO (XO (XO (XO (XO (XO (XO (XO (XO (XO
                (XO (XO (XO (XO (XO (XO (XO (XO (XO (XO (XO (XI (XI (XI (XI
                (XI (XI (XI (XI (XI (XI
                XH))))))))))))))))))))))))))))))))))))))))))))))))))))))))))))))))
              (N.coq_lor
                (N.mul m0
                  (N.pow (Npos (XO XH)) (Npos (XI (XO (XI (XI XH)))))))
                (N.pow (Npos (XO XH)) (Npos (XI (XI (XO (XO (XI XH))))))))
  else if N.eqb e N0
       then if N.eqb m0 N0
            then sign
            else let k = N.size m0 in
                 N.add
                   (N.add sign
                     (N.mul
                       (N.add k (Npos (XI (XO (XO (XI (XO (XI (XI (XO (XI
                         XH)))))))))))
                       (N.pow (Npos (XO XH)) (Npos (XO (XO (XI (XO (XI
                         XH)))))))))
                   (N.modulo
                     (N.mul m0
                       (N.pow (Npos (XO XH))
                         (N.sub (Npos (XI (XO (XI (XO (XI XH)))))) k)))
                     (N.pow (Npos (XO XH)) (Npos (XO (XO (XI (XO (XI XH))))))))
       else N.add
              (N.add sign
                (N.mul
                  (N.add e (Npos (XO (XO (XO (XO (XO (XO (XO (XI (XI
                    XH)))))))))))
                  (N.pow (Npos (XO XH)) (Npos (XO (XO (XI (XO (XI XH)))))))))
              (N.mul m0 (N.pow (Npos (XO XH)) (Npos (XI (XO (XI (XI XH)))))))

(** val is_nan32 : n -> bool **)

let is_nan32 x =
  (&&)
    (N.eqb
      (N.modulo
        (N.div x (N.pow (Npos (XO XH)) (Npos (XI (XI (XI (XO XH))))))) (Npos
        (XO (XO (XO (XO (XO (XO (XO (XO XH)))))))))) (Npos (XI (XI (XI (XI
      (XI (XI (XI XH)))))))))
    (negb
      (N.eqb
        (N.modulo x (N.pow (Npos (XO XH)) (Npos (XI (XI (XI (XO XH))))))) N0))

(** val is_nan64 : n -> bool **)

let is_nan64 x =
  (&&)
    (N.eqb
      (N.modulo
        (N.div x (N.pow (Npos (XO XH)) (Npos (XO (XO (XI (XO (XI XH))))))))
        (Npos (XO (XO (XO (XO (XO (XO (XO (XO (XO (XO (XO XH)))))))))))))
      (Npos (XI (XI (XI (XI (XI (XI (XI (XI (XI (XI XH))))))))))))
    (negb
      (N.eqb
        (N.modulo x (N.pow (Npos (XO XH)) (Npos (XO (XO (XI (XO (XI XH))))))))
        N0))

(** val is_nan16 : n -> bool **)

let is_nan16 x =
  (&&)
    (N.eqb
      (N.modulo
        (N.div x (Npos (XO (XO (XO (XO (XO (XO (XO (XO (XO (XO XH))))))))))))
        (Npos (XO (XO (XO (XO (XO XH))))))) (Npos (XI (XI (XI (XI XH))))))
    (negb
      (N.eqb
        (N.modulo x (Npos (XO (XO (XO (XO (XO (XO (XO (XO (XO (XO
          XH)))))))))))) N0))

type cfg = { c_alloc : bool; c_std : bool; c_half : bool }

(** val cfg_full : cfg **)

let cfg_full =
  { c_alloc = true; c_std = true; c_half = true }

(** val current : n m **)

let current s =
  match s.drest with
  | [] -> ((Err EndOfInput), s)
  | b :: _ -> ((Ok b), s)

(** val read : n m **)

let read s =
  match s.drest with
  | [] -> ((Err EndOfInput), s)
  | b :: r ->
    ((Ok b), { dpos = (N.add s.dpos (Npos XH)); drest = r; dlen = s.dlen })

(** val peek : n m **)

let peek s =
  match s.drest with
  | [] -> ((Err EndOfInput), s)
  | _ :: l ->
    (match l with
     | [] -> ((Err EndOfInput), s)
     | b :: _ -> ((Ok b), s))

(** val read_slice : n -> bytes m **)

let read_slice n0 s =
  if N.ltb s.dlen s.dpos
  then ((Err EndOfInput), s)
  else (match take s.drest n0 with
        | Some p ->
          let (a, r) = p in
          ((Ok a), { dpos = (N.add s.dpos n0); drest = r; dlen = s.dlen })
        | None -> ((Err EndOfInput), s))

(** val read_be : nat -> n m **)

let read_be k =
  fmap of_be (read_slice (N.of_nat k))

(** val type_of : n -> ctype m **)

let type_of n0 =
  if N.leb n0 (Npos (XO (XO (XO (XI XH)))))
  then ret TU8
  else if N.eqb n0 (Npos (XI (XO (XO (XI XH)))))
       then ret TU16
       else if N.eqb n0 (Npos (XO (XI (XO (XI XH)))))
            then ret TU32
            else if N.eqb n0 (Npos (XI (XI (XO (XI XH)))))
                 then ret TU64
                 else if (&&) (N.leb (Npos (XO (XO (XO (XO (XO XH)))))) n0)
                           (N.leb n0 (Npos (XI (XI (XI (XO (XI XH)))))))
                      then ret TI8
                      else if N.eqb n0 (Npos (XO (XO (XO (XI (XI XH))))))
                           then bind peek (fun b ->
                                  ret
                                    (if N.ltb b (Npos (XO (XO (XO (XO (XO (XO
                                          (XO XH))))))))
                                     then TI8
                                     else TI16))
                           else if N.eqb n0 (Npos (XI (XO (XO (XI (XI XH))))))
                                then bind peek (fun b ->
                                       ret
                                         (if N.ltb b (Npos (XO (XO (XO (XO
                                               (XO (XO (XO XH))))))))
                                          then TI16
                                          else TI32))
                                else if N.eqb n0 (Npos (XO (XI (XO (XI (XI
                                          XH))))))
                                     then bind peek (fun b ->
                                            ret
                                              (if N.ltb b (Npos (XO (XO (XO
                                                    (XO (XO (XO (XO XH))))))))
                                               then TI32
                                               else TI64))
                                     else if N.eqb n0 (Npos (XI (XI (XO (XI
                                               (XI XH))))))
                                          then bind peek (fun b ->
                                                 ret
                                                   (if N.ltb b (Npos (XO (XO
                                                         (XO (XO (XO (XO (XO
                                                         XH))))))))
                                                    then TI64
                                                    else TInt))
                                          else if (&&)
                                                    (N.leb (Npos (XO (XO (XO
                                                      (XO (XO (XO XH)))))))
                                                      n0)
                                                    (N.leb n0 (Npos (XI (XI
                                                      (XO (XI (XI (XO
                                                      XH))))))))
                                               then ret TBytes
                                               else if N.eqb n0 (Npos (XI (XI
                                                         (XI (XI (XI (XO
                                                         XH)))))))
                                                    then ret TBytesIndef
                                                    else if (&&)
                                                              (N.leb (Npos
                                                                (XO (XO (XO
                                                                (XO (XO (XI
                                                                XH))))))) n0)
                                                              (N.leb n0 (Npos
                                                                (XI (XI (XO
                                                                (XI (XI (XI
                                                                XH))))))))
                                                         then ret TString
                                                         else if N.eqb n0
                                                                   (Npos (XI
                                                                   (XI (XI
                                                                   (XI (XI
                                                                   (XI
                                                                   XH)))))))
                                                              then ret
                                                                    TStringIndef
                                                              else if 
                                                                    (&&)
                                                                    (N.leb
                                                                    (Npos (XO
                                                                    (XO (XO
                                                                    (XO (XO
                                                                    (XO (XO
                                                                    XH))))))))
                                                                    n0)
                                                                    (N.leb n0
                                                                    (Npos (XI
                                                                    (XI (XO
                                                                    (XI (XI
                                                                    (XO (XO
                                                                    XH)))))))))
                                                                   then 
                                                                    ret TArray
                                                                   else 
                                                                    if 
                                                                    N.eqb n0
                                                                    (Npos (XI
                                                                    (XI (XI
                                                                    (XI (XI
                                                                    (XO (XO
                                                                    XH))))))))
                                                                    then 
                                                                    ret
                                                                    TArrayIndef
                                                                    else 
                                                                    if 
                                                                    (&&)
                                                                    (N.leb
                                                                    (Npos (XO
                                                                    (XO (XO
                                                                    (XO (XO
                                                                    (XI (XO
                                                                    XH))))))))
                                                                    n0)
                                                                    (N.leb n0
                                                                    (Npos (XI
                                                                    (XI (XO
                                                                    (XI (XI
                                                                    (XI (XO
                                                                    XH)))))))))
                                                                    then 
                                                                    ret TMap
                                                                    else 
                                                                    if 
                                                                    N.eqb n0
                                                                    (Npos (XI
                                                                    (XI (XI
                                                                    (XI (XI
                                                                    (XI (XO
                                                                    XH))))))))
                                                                    then 
                                                                    ret
                                                                    TMapIndef
                                                                    else 
                                                                    if 
                                                                    (&&)
                                                                    (N.leb
                                                                    (Npos (XO
                                                                    (XO (XO
                                                                    (XO (XO
                                                                    (XO (XI
                                                                    XH))))))))
                                                                    n0)
                                                                    (N.leb n0
                                                                    (Npos (XI
                                                                    (XI (XO
                                                                    (XI (XI
                                                                    (XO (XI
                                                                    XH)))))))))
                                                                    then 
                                                                    ret TTag
                                                                    else 
                                                                    if 
                                                                    (||)
                                                                    ((&&)
                                                                    (N.leb
                                                                    (Npos (XO
                                                                    (XO (XO
                                                                    (XO (XO
                                                                    (XI (XI
                                                                    XH))))))))
                                                                    n0)
                                                                    (N.leb n0
                                                                    (Npos (XI
                                                                    (XI (XO
                                                                    (XO (XI
                                                                    (XI (XI
                                                                    XH))))))))))
                                                                    (N.eqb n0
                                                                    (Npos (XO
                                                                    (XO (XO
                                                                    (XI (XI
                                                                    (XI (XI
                                                                    XH)))))))))
                                                                    then 
                                                                    ret
                                                                    TSimple
                                                                    else 
                                                                    if 
                                                                    (||)
                                                                    (N.eqb n0
                                                                    (Npos (XO
                                                                    (XO (XI
                                                                    (XO (XI
                                                                    (XI (XI
                                                                    XH)))))))))
                                                                    (N.eqb n0
                                                                    (Npos (XI
                                                                    (XO (XI
                                                                    (XO (XI
                                                                    (XI (XI
                                                                    XH)))))))))
                                                                    then 
                                                                    ret TBool
                                                                    else 
                                                                    if 
                                                                    N.eqb n0
                                                                    (Npos (XO
                                                                    (XI (XI
                                                                    (XO (XI
                                                                    (XI (XI
                                                                    XH))))))))
                                                                    then 
                                                                    ret TNull
                                                                    else 
                                                                    if 
                                                                    N.eqb n0
                                                                    (Npos (XI
                                                                    (XI (XI
                                                                    (XO (XI
                                                                    (XI (XI
                                                                    XH))))))))
                                                                    then 
                                                                    ret
                                                                    TUndefined
                                                                    else 
                                                                    if 
                                                                    N.eqb n0
                                                                    (Npos (XI
                                                                    (XO (XO
                                                                    (XI (XI
                                                                    (XI (XI
                                                                    XH))))))))
                                                                    then 
                                                                    ret TF16
                                                                    else 
                                                                    if 
                                                                    N.eqb n0
                                                                    (Npos (XO
                                                                    (XI (XO
                                                                    (XI (XI
                                                                    (XI (XI
                                                                    XH))))))))
                                                                    then 
                                                                    ret TF32
                                                                    else 
                                                                    if 
                                                                    N.eqb n0
                                                                    (Npos (XI
                                                                    (XI (XO
                                                                    (XI (XI
                                                                    (XI (XI
                                                                    XH))))))))
                                                                    then 
                                                                    ret TF64
                                                                    else 
                                                                    if 
                                                                    N.eqb n0
                                                                    (Npos (XI
                                                                    (XI (XI
                                                                    (XI (XI
                                                                    (XI (XI
                                                                    XH))))))))
                                                                    then 
                                                                    ret TBreak
                                                                    else 
                                                                    ret
                                                                    (TUnknown
                                                                    n0)

(** val mismatch : n -> 'a1 m **)

let mismatch b =
  bind (type_of b) (fun t -> fail (TypeMismatch t))

(** val major : n -> n **)

let major b =
  N.mul (N.div b (Npos (XO (XO (XO (XO (XO XH))))))) (Npos (XO (XO (XO (XO
    (XO XH))))))

(** val info : n -> n **)

let info b =
  N.modulo b (Npos (XO (XO (XO (XO (XO XH))))))

(** val unsigned : n -> n m **)

let unsigned b =
  if N.leb b (Npos (XI (XI (XI (XO XH)))))
  then ret b
  else if N.eqb b (Npos (XO (XO (XO (XI XH)))))
       then read
       else if N.eqb b (Npos (XI (XO (XO (XI XH)))))
            then read_be (S (S O))
            else if N.eqb b (Npos (XO (XI (XO (XI XH)))))
                 then read_be (S (S (S (S O))))
                 else if N.eqb b (Npos (XI (XI (XO (XI XH)))))
                      then read_be (S (S (S (S (S (S (S (S O))))))))
                      else mismatch b

(** val try_as : n -> n -> n m **)

let try_as max n0 =
  if N.leb n0 max then ret n0 else fail (Overflow n0)

(** val dec_uint : n -> n m **)

let dec_uint max =
  bind read (fun b -> bind (unsigned b) (fun n0 -> try_as max n0))

(** val dec_u8 : n m **)

let dec_u8 =
  dec_uint (Npos (XI (XI (XI (XI (XI (XI (XI XH))))))))

(** val dec_u16 : n m **)

let dec_u16 =
  dec_uint (Npos (XI (XI (XI (XI (XI (XI (XI (XI (XI (XI (XI (XI (XI (XI (XI
    XH))))))))))))))))

(** val dec_u32 : n m **)

let dec_u32 =
  dec_uint (Npos (XI (XI (XI (XI (XI (XI (XI (XI (XI (XI (XI (XI (XI (XI (XI
    (XI (XI (XI (XI (XI (XI (XI (XI (XI (XI (XI (XI (XI (XI (XI (XI
    XH))))))))))))))))))))))))))))))))

(** val dec_u64 : n m **)

let dec_u64 =
  dec_uint (Npos (XI (XI (XI (XI (XI (XI (XI (XI (XI (XI (XI (XI (XI (XI (XI
    (XI (XI (XI (XI (XI (XI (XI (XI (XI (XI (XI (XI (XI (XI (XI (XI (XI (XI
    (XI (XI (XI (XI (XI (XI (XI (XI (XI (XI (XI (XI (XI (XI (XI (XI (XI (XI
    (XI (XI (XI (XI (XI (XI (XI (XI (XI (XI (XI (XI
    XH))))))))))))))))))))))))))))))))))))))))))))))))))))))))))))))))

(** val dec_sint : n -> z m **)

let dec_sint max =
  bind read (fun b ->
    if N.leb b (Npos (XI (XI (XO (XI XH)))))
    then bind (unsigned b) (fun n0 ->
           bind (try_as max n0) (fun n' -> ret (Z.of_N n')))
    else if (&&) (N.leb (Npos (XO (XO (XO (XO (XO XH)))))) b)
              (N.leb b (Npos (XI (XI (XO (XI (XI XH)))))))
         then bind (unsigned (N.sub b (Npos (XO (XO (XO (XO (XO XH))))))))
                (fun n0 ->
                bind (try_as max n0) (fun n' ->
                  ret (Z.sub (Zneg XH) (Z.of_N n'))))
         else mismatch b)

(** val dec_i8 : z m **)

let dec_i8 =
  dec_sint (Npos (XI (XI (XI (XI (XI (XI XH)))))))

(** val dec_i16 : z m **)

let dec_i16 =
  dec_sint (Npos (XI (XI (XI (XI (XI (XI (XI (XI (XI (XI (XI (XI (XI (XI
    XH)))))))))))))))

(** val dec_i32 : z m **)

let dec_i32 =
  dec_sint (Npos (XI (XI (XI (XI (XI (XI (XI (XI (XI (XI (XI (XI (XI (XI (XI
    (XI (XI (XI (XI (XI (XI (XI (XI (XI (XI (XI (XI (XI (XI (XI
    XH)))))))))))))))))))))))))))))))

(** val dec_i64 : z m **)

let dec_i64 =
  dec_sint (Npos (XI (XI (XI (XI (XI (XI (XI (XI (XI (XI (XI (XI (XI (XI (XI
    (XI (XI (XI (XI (XI (XI (XI (XI (XI (XI (XI (XI (XI (XI (XI (XI (XI (XI
    (XI (XI (XI (XI (XI (XI (XI (XI (XI (XI (XI (XI (XI (XI (XI (XI (XI (XI
    (XI (XI (XI (XI (XI (XI (XI (XI (XI (XI (XI
    XH)))))))))))))))))))))))))))))))))))))))))))))))))))))))))))))))

(** val dec_int : (bool * n) m **)

let dec_int =
  bind read (fun b ->
    if N.leb b (Npos (XI (XI (XO (XI XH)))))
    then bind (unsigned b) (fun n0 -> ret (false, n0))
    else if (&&) (N.leb (Npos (XO (XO (XO (XO (XO XH)))))) b)
              (N.leb b (Npos (XI (XI (XO (XI (XI XH)))))))
         then bind (unsigned (N.sub b (Npos (XO (XO (XO (XO (XO XH))))))))
                (fun n0 -> ret (true, n0))
         else mismatch b)

(** val dec_f16 : n m **)

let dec_f16 =
  bind read (fun b ->
    if negb (N.eqb b (Npos (XI (XO (XO (XI (XI (XI (XI XH)))))))))
    then mismatch b
    else bind (read_be (S (S O))) (fun n0 -> ret (f16_to_f32 n0)))

(** val dec_f32 : cfg -> n m **)

let dec_f32 c =
  bind current (fun b ->
    if (&&) c.c_half (N.eqb b (Npos (XI (XO (XO (XI (XI (XI (XI XH)))))))))
    then dec_f16
    else if N.eqb b (Npos (XO (XI (XO (XI (XI (XI (XI XH))))))))
         then bind read (fun _ -> read_be (S (S (S (S O)))))
         else mismatch b)

(** val dec_f64 : cfg -> n m **)

let dec_f64 c =
  bind current (fun b ->
    if (&&) c.c_half (N.eqb b (Npos (XI (XO (XO (XI (XI (XI (XI XH)))))))))
    then fmap f32_to_f64 dec_f16
    else if N.eqb b (Npos (XO (XI (XO (XI (XI (XI (XI XH))))))))
         then fmap f32_to_f64 (dec_f32 c)
         else if N.eqb b (Npos (XI (XI (XO (XI (XI (XI (XI XH))))))))
              then bind read (fun _ ->
                     read_be (S (S (S (S (S (S (S (S O)))))))))
              else mismatch b)

(** val dec_bool : bool m **)

let dec_bool =
  bind read (fun b ->
    if N.eqb b (Npos (XO (XO (XI (XO (XI (XI (XI XH))))))))
    then ret false
    else if N.eqb b (Npos (XI (XO (XI (XO (XI (XI (XI XH))))))))
         then ret true
         else mismatch b)

(** val dec_char : n m **)

let dec_char =
  bind dec_u32 (fun n0 ->
    if is_scalar n0 then ret n0 else fail (InvalidChar n0))

(** val dec_bytes : bytes m **)

let dec_bytes =
  bind read (fun b ->
    if (||) (negb (N.eqb (major b) (Npos (XO (XO (XO (XO (XO (XO XH)))))))))
         (N.eqb (info b) (Npos (XI (XI (XI (XI XH))))))
    then mismatch b
    else bind (unsigned (info b)) read_slice)

(** val dec_str : bytes m **)

let dec_str =
  bind read (fun b ->
    if (||) (negb (N.eqb (major b) (Npos (XO (XO (XO (XO (XO (XI XH)))))))))
         (N.eqb (info b) (Npos (XI (XI (XI (XI XH))))))
    then mismatch b
    else bind (unsigned (info b)) (fun n0 ->
           bind (read_slice n0) (fun d ->
             if utf8_valid d then ret d else fail Utf8)))

(** val chunks_until_break : bytes m -> nat -> bytes list -> bytes list m **)

let rec chunks_until_break one fuel acc =
  match fuel with
  | O -> (fun s -> (OutOfFuel, s))
  | S fuel0 ->
    bind current (fun b ->
      if N.eqb b (Npos (XI (XI (XI (XI (XI (XI (XI XH))))))))
      then bind read (fun _ -> ret (rev acc))
      else bind one (fun c -> chunks_until_break one fuel0 (c :: acc)))

(** val dec_bytes_iter : nat -> bytes list m **)

let dec_bytes_iter fuel =
  bind read (fun b ->
    if negb (N.eqb (major b) (Npos (XO (XO (XO (XO (XO (XO XH))))))))
    then mismatch b
    else if N.eqb (info b) (Npos (XI (XI (XI (XI XH)))))
         then chunks_until_break dec_bytes fuel []
         else bind (unsigned (info b)) (fun n0 ->
                if N.eqb n0 N0
                then ret []
                else bind (read_slice n0) (fun c -> ret (c :: []))))

(** val dec_str_iter : nat -> bytes list m **)

let dec_str_iter fuel =
  bind read (fun b ->
    if negb (N.eqb (major b) (Npos (XO (XO (XO (XO (XO (XI XH))))))))
    then mismatch b
    else if N.eqb (info b) (Npos (XI (XI (XI (XI XH)))))
         then chunks_until_break dec_str fuel []
         else bind (unsigned (info b)) (fun n0 ->
                if N.eqb n0 N0
                then ret []
                else bind (read_slice n0) (fun c ->
                       if utf8_valid c then ret (c :: []) else fail Utf8)))

(** val dec_container : n -> n option m **)

let dec_container mt =
  bind read (fun b ->
    if negb (N.eqb (major b) mt)
    then mismatch b
    else if N.eqb (info b) (Npos (XI (XI (XI (XI XH)))))
         then ret None
         else bind (unsigned (info b)) (fun n0 -> ret (Some n0)))

(** val dec_array : n option m **)

let dec_array =
  dec_container (Npos (XO (XO (XO (XO (XO (XO (XO XH))))))))

(** val dec_map : n option m **)

let dec_map =
  dec_container (Npos (XO (XO (XO (XO (XO (XI (XO XH))))))))

(** val dec_tag : n m **)

let dec_tag =
  bind read (fun b ->
    if negb (N.eqb (major b) (Npos (XO (XO (XO (XO (XO (XO (XI XH)))))))))
    then mismatch b
    else unsigned (info b))

(** val dec_null : unit m **)

let dec_null =
  bind read (fun b ->
    if N.eqb b (Npos (XO (XI (XI (XO (XI (XI (XI XH))))))))
    then ret ()
    else mismatch b)

(** val dec_undefined : unit m **)

let dec_undefined =
  bind read (fun b ->
    if N.eqb b (Npos (XI (XI (XI (XO (XI (XI (XI XH))))))))
    then ret ()
    else mismatch b)

(** val dec_simple : n m **)

let dec_simple =
  bind read (fun b ->
    if (&&) (N.leb (Npos (XO (XO (XO (XO (XO (XI (XI XH)))))))) b)
         (N.leb b (Npos (XI (XI (XO (XO (XI (XI (XI XH)))))))))
    then ret (N.sub b (Npos (XO (XO (XO (XO (XO (XI (XI XH)))))))))
    else if N.eqb b (Npos (XO (XO (XO (XI (XI (XI (XI XH))))))))
         then read
         else mismatch b)

(** val datatype : ctype m **)

let datatype =
  bind current type_of

(** val sat_add : n -> n -> n **)

let sat_add a b =
  N.min u64_max (N.add a b)

(** val sat_mul : n -> n -> n **)

let sat_mul a b =
  N.min u64_max (N.mul a b)

type frame =
| FSome of n
| FNone

type skst = { nr : n; ir : n; stk : frame list }

(** val pop_zeros : frame list -> frame list **)

let rec pop_zeros st = match st with
| [] -> st
| f :: r ->
  (match f with
   | FSome n0 -> if N.eqb n0 N0 then pop_zeros r else st
   | FNone -> st)

(** val counting : skst -> bool **)

let counting c =
  negb ((&&) (N.eqb c.nr N0) (N.eqb c.ir N0))

(** val skip_after : skst -> skst option **)

let skip_after c =
  if counting c
  then Some { nr = (N.sub c.nr (Npos XH)); ir = c.ir; stk = c.stk }
  else (match pop_zeros c.stk with
        | [] -> None
        | f :: r ->
          (match f with
           | FSome n0 ->
             Some { nr = N0; ir = N0; stk = ((FSome
               (N.sub n0 (Npos XH))) :: r) }
           | FNone -> Some { nr = N0; ir = N0; stk = (FNone :: r) }))

(** val skip_definite : skst -> n -> skst **)

let skip_definite c n0 =
  if N.eqb n0 N0
  then c
  else if counting c
       then { nr = (sat_add c.nr n0); ir = c.ir; stk = c.stk }
       else { nr = N0; ir = N0; stk = ((FSome n0) :: c.stk) }

(** val skip_indefinite : skst -> skst **)

let skip_indefinite c =
  if negb (counting c)
  then { nr = N0; ir = N0; stk = (FNone :: c.stk) }
  else if N.ltb c.nr (Npos (XO XH))
       then { nr = c.nr; ir = (sat_add c.ir (Npos XH)); stk = c.stk }
       else { nr = N0; ir = N0; stk = (FNone :: ((FSome
              (N.sub c.nr (Npos XH))) :: (app (repeat FNone (N.to_nat c.ir))
                                           c.stk))) }

(** val skip_break : skst -> skst **)

let skip_break c =
  if counting c
  then { nr = c.nr; ir = (N.sub c.ir (Npos XH)); stk = c.stk }
  else (match c.stk with
        | [] -> c
        | f :: r ->
          (match f with
           | FSome _ -> c
           | FNone -> { nr = N0; ir = N0; stk = r }))

(** val skip_step : nat -> skst -> skst option m **)

let skip_step fuel c =
  bind current (fun b ->
    if N.leb b (Npos (XI (XI (XO (XI XH)))))
    then bind dec_u64 (fun _ -> ret (skip_after c))
    else if (&&) (N.leb (Npos (XO (XO (XO (XO (XO XH)))))) b)
              (N.leb b (Npos (XI (XI (XO (XI (XI XH)))))))
         then bind dec_int (fun _ -> ret (skip_after c))
         else if (&&) (N.leb (Npos (XO (XO (XO (XO (XO (XO XH))))))) b)
                   (N.leb b (Npos (XI (XI (XI (XI (XI (XO XH))))))))
              then bind (dec_bytes_iter fuel) (fun _ -> ret (skip_after c))
              else if (&&) (N.leb (Npos (XO (XO (XO (XO (XO (XI XH))))))) b)
                        (N.leb b (Npos (XI (XI (XI (XI (XI (XI XH))))))))
                   then bind (dec_str_iter fuel) (fun _ -> ret (skip_after c))
                   else if (&&)
                             (N.leb (Npos (XO (XO (XO (XO (XO (XO (XO
                               XH)))))))) b)
                             (N.leb b (Npos (XI (XI (XI (XI (XI (XO (XO
                               XH)))))))))
                        then bind dec_array (fun r ->
                               ret
                                 (skip_after
                                   (match r with
                                    | Some n0 -> skip_definite c n0
                                    | None -> skip_indefinite c)))
                        else if (&&)
                                  (N.leb (Npos (XO (XO (XO (XO (XO (XI (XO
                                    XH)))))))) b)
                                  (N.leb b (Npos (XI (XI (XI (XI (XI (XI (XO
                                    XH)))))))))
                             then bind dec_map (fun r ->
                                    ret
                                      (skip_after
                                        (match r with
                                         | Some n0 ->
                                           skip_definite c
                                             (sat_mul n0 (Npos (XO XH)))
                                         | None -> skip_indefinite c)))
                             else if (&&)
                                       (N.leb (Npos (XO (XO (XO (XO (XO (XO
                                         (XI XH)))))))) b)
                                       (N.leb b (Npos (XI (XI (XO (XI (XI (XO
                                         (XI XH)))))))))
                                  then bind read (fun n0 ->
                                         bind (unsigned (info n0)) (fun _ ->
                                           ret (Some c)))
                                  else if (&&)
                                            (N.leb (Npos (XO (XO (XO (XO (XO
                                              (XI (XI XH)))))))) b)
                                            (N.leb b (Npos (XI (XI (XO (XI
                                              (XI (XI (XI XH)))))))))
                                       then bind read (fun n0 ->
                                              bind (unsigned (info n0))
                                                (fun _ -> ret (skip_after c)))
                                       else if N.eqb b (Npos (XI (XI (XI (XI
                                                 (XI (XI (XI XH))))))))
                                            then bind read (fun _ ->
                                                   ret
                                                     (skip_after
                                                       (skip_break c)))
                                            else mismatch b)

(** val skip_running : skst -> bool **)

let skip_running c =
  negb
    ((&&) ((&&) (N.eqb c.nr N0) (N.eqb c.ir N0))
      (match c.stk with
       | [] -> true
       | _ :: _ -> false))

(** val skip_loop : nat -> skst -> unit m **)

let rec skip_loop fuel c =
  if skip_running c
  then (match fuel with
        | O -> (fun s -> (OutOfFuel, s))
        | S fuel' ->
          bind (skip_step fuel c) (fun r ->
            match r with
            | Some c' -> skip_loop fuel' c'
            | None -> ret ()))
  else ret ()

(** val skip_alloc : nat -> unit m **)

let skip_alloc fuel =
  skip_loop fuel { nr = (Npos XH); ir = N0; stk = [] }

type sknst = { nnr : n; nir : n }

(** val skipn_step : nat -> sknst -> sknst m **)

let skipn_step fuel c =
  let dec1 = fun c0 -> { nnr = (N.sub c0.nnr (Npos XH)); nir = c0.nir } in
  let cont = fun r dbl ->
    match r with
    | Some n0 ->
      ret
        (dec1 { nnr =
          (sat_add c.nnr (if dbl then sat_mul n0 (Npos (XO XH)) else n0));
          nir = c.nir })
    | None ->
      if N.ltb c.nnr (Npos (XO XH))
      then ret (dec1 { nnr = c.nnr; nir = (sat_add c.nir (Npos XH)) })
      else fail Message
  in
  bind current (fun b ->
    if N.leb b (Npos (XI (XI (XO (XI XH)))))
    then bind dec_u64 (fun _ -> ret (dec1 c))
    else if (&&) (N.leb (Npos (XO (XO (XO (XO (XO XH)))))) b)
              (N.leb b (Npos (XI (XI (XO (XI (XI XH)))))))
         then bind dec_int (fun _ -> ret (dec1 c))
         else if (&&) (N.leb (Npos (XO (XO (XO (XO (XO (XO XH))))))) b)
                   (N.leb b (Npos (XI (XI (XI (XI (XI (XO XH))))))))
              then bind (dec_bytes_iter fuel) (fun _ -> ret (dec1 c))
              else if (&&) (N.leb (Npos (XO (XO (XO (XO (XO (XI XH))))))) b)
                        (N.leb b (Npos (XI (XI (XI (XI (XI (XI XH))))))))
                   then bind (dec_str_iter fuel) (fun _ -> ret (dec1 c))
                   else if (&&)
                             (N.leb (Npos (XO (XO (XO (XO (XO (XO (XO
                               XH)))))))) b)
                             (N.leb b (Npos (XI (XI (XI (XI (XI (XO (XO
                               XH)))))))))
                        then bind dec_array (fun r -> cont r false)
                        else if (&&)
                                  (N.leb (Npos (XO (XO (XO (XO (XO (XI (XO
                                    XH)))))))) b)
                                  (N.leb b (Npos (XI (XI (XI (XI (XI (XI (XO
                                    XH)))))))))
                             then bind dec_map (fun r -> cont r true)
                             else if (&&)
                                       (N.leb (Npos (XO (XO (XO (XO (XO (XO
                                         (XI XH)))))))) b)
                                       (N.leb b (Npos (XI (XI (XO (XI (XI (XO
                                         (XI XH)))))))))
                                  then bind read (fun n0 ->
                                         bind (unsigned (info n0)) (fun _ ->
                                           ret c))
                                  else if (&&)
                                            (N.leb (Npos (XO (XO (XO (XO (XO
                                              (XI (XI XH)))))))) b)
                                            (N.leb b (Npos (XI (XI (XO (XI
                                              (XI (XI (XI XH)))))))))
                                       then bind read (fun n0 ->
                                              bind (unsigned (info n0))
                                                (fun _ -> ret (dec1 c)))
                                       else if N.eqb b (Npos (XI (XI (XI (XI
                                                 (XI (XI (XI XH))))))))
                                            then bind read (fun _ ->
                                                   ret
                                                     (dec1 { nnr = c.nnr;
                                                       nir =
                                                       (N.sub c.nir (Npos XH)) }))
                                            else mismatch b)

(** val skipn_loop : nat -> sknst -> unit m **)

let rec skipn_loop fuel c =
  if negb ((&&) (N.eqb c.nnr N0) (N.eqb c.nir N0))
  then (match fuel with
        | O -> (fun s -> (OutOfFuel, s))
        | S fuel' -> bind (skipn_step fuel c) (fun c' -> skipn_loop fuel' c'))
  else ret ()

(** val skip_noalloc : nat -> unit m **)

let skip_noalloc fuel =
  skipn_loop fuel { nnr = (Npos XH); nir = N0 }

(** val skip : cfg -> nat -> unit m **)

let skip c fuel =
  if c.c_alloc then skip_alloc fuel else skip_noalloc fuel

(** val fuel_of : dst -> nat **)

let fuel_of s =
  S (length s.drest)

(** val skip_auto : cfg -> unit m **)

let skip_auto c s =
  skip c (fuel_of s) s

type chunk = bytes

(** val flat : chunk list -> bytes **)

let flat =
  concat

(** val sIGNED : n **)

let sIGNED =
  Npos (XO (XO (XO (XO (XO XH)))))

(** val bYTES : n **)

let bYTES =
  Npos (XO (XO (XO (XO (XO (XO XH))))))

(** val tEXT : n **)

let tEXT =
  Npos (XO (XO (XO (XO (XO (XI XH))))))

(** val aRRAY : n **)

let aRRAY =
  Npos (XO (XO (XO (XO (XO (XO (XO XH)))))))

(** val mAP : n **)

let mAP =
  Npos (XO (XO (XO (XO (XO (XI (XO XH)))))))

(** val tAGGED : n **)

let tAGGED =
  Npos (XO (XO (XO (XO (XO (XO (XI XH)))))))

(** val sIMPLE : n **)

let sIMPLE =
  Npos (XO (XO (XO (XO (XO (XI (XI XH)))))))

(** val as_u8 : n -> n **)

let as_u8 x =
  N.modulo x (Npos (XO (XO (XO (XO (XO (XO (XO (XO XH)))))))))

(** val as_u16 : n -> n **)

let as_u16 x =
  N.modulo x (Npos (XO (XO (XO (XO (XO (XO (XO (XO (XO (XO (XO (XO (XO (XO
    (XO (XO XH)))))))))))))))))

(** val as_u32 : n -> n **)

let as_u32 x =
  N.modulo x (Npos (XO (XO (XO (XO (XO (XO (XO (XO (XO (XO (XO (XO (XO (XO
    (XO (XO (XO (XO (XO (XO (XO (XO (XO (XO (XO (XO (XO (XO (XO (XO (XO (XO
    XH)))))))))))))))))))))))))))))))))

(** val enc_u8 : n -> chunk list **)

let enc_u8 x =
  if N.leb x (Npos (XI (XI (XI (XO XH)))))
  then (x :: []) :: []
  else ((Npos (XO (XO (XO (XI XH))))) :: (x :: [])) :: []

(** val enc_u16 : n -> chunk list **)

let enc_u16 x =
  if N.leb x (Npos (XI (XI (XI (XO XH)))))
  then ((as_u8 x) :: []) :: []
  else if N.leb x (Npos (XI (XI (XI (XI (XI (XI (XI XH))))))))
       then ((Npos (XO (XO (XO (XI XH))))) :: ((as_u8 x) :: [])) :: []
       else ((Npos (XI (XO (XO (XI XH))))) :: []) :: ((be (S (S O)) x) :: [])

(** val enc_u32 : n -> chunk list **)

let enc_u32 x =
  if N.leb x (Npos (XI (XI (XI (XO XH)))))
  then ((as_u8 x) :: []) :: []
  else if N.leb x (Npos (XI (XI (XI (XI (XI (XI (XI XH))))))))
       then ((Npos (XO (XO (XO (XI XH))))) :: ((as_u8 x) :: [])) :: []
       else if N.leb x (Npos (XI (XI (XI (XI (XI (XI (XI (XI (XI (XI (XI (XI
                 (XI (XI (XI XH))))))))))))))))
            then ((Npos (XI (XO (XO (XI
                   XH))))) :: []) :: ((be (S (S O)) (as_u16 x)) :: [])
            else ((Npos (XO (XI (XO (XI
                   XH))))) :: []) :: ((be (S (S (S (S O)))) x) :: [])

(** val enc_u64 : n -> chunk list **)

let enc_u64 x =
  if N.leb x (Npos (XI (XI (XI (XO XH)))))
  then ((as_u8 x) :: []) :: []
  else if N.leb x (Npos (XI (XI (XI (XI (XI (XI (XI XH))))))))
       then ((Npos (XO (XO (XO (XI XH))))) :: ((as_u8 x) :: [])) :: []
       else if N.leb x (Npos (XI (XI (XI (XI (XI (XI (XI (XI (XI (XI (XI (XI
                 (XI (XI (XI XH))))))))))))))))
            then ((Npos (XI (XO (XO (XI
                   XH))))) :: []) :: ((be (S (S O)) (as_u16 x)) :: [])
            else if N.leb x (Npos (XI (XI (XI (XI (XI (XI (XI (XI (XI (XI (XI
                      (XI (XI (XI (XI (XI (XI (XI (XI (XI (XI (XI (XI (XI (XI
                      (XI (XI (XI (XI (XI (XI
                      XH))))))))))))))))))))))))))))))))
                 then ((Npos (XO (XI (XO (XI
                        XH))))) :: []) :: ((be (S (S (S (S O)))) (as_u32 x)) :: [])
                 else ((Npos (XI (XI (XO (XI
                        XH))))) :: []) :: ((be (S (S (S (S (S (S (S (S
                                             O)))))))) x) :: [])

(** val neg_arg : z -> n **)

let neg_arg x =
  Z.to_N (Z.sub (Zneg XH) x)

(** val enc_i8 : z -> chunk list **)

let enc_i8 x =
  if Z.leb Z0 x
  then enc_u8 (Z.to_N x)
  else let n0 = neg_arg x in
       if N.leb n0 (Npos (XI (XI (XI (XO XH)))))
       then ((N.add sIGNED n0) :: []) :: []
       else ((N.add sIGNED (Npos (XO (XO (XO (XI XH)))))) :: (n0 :: [])) :: []

(** val enc_i16 : z -> chunk list **)

let enc_i16 x =
  if Z.leb Z0 x
  then enc_u16 (Z.to_N x)
  else let n0 = neg_arg x in
       if N.leb n0 (Npos (XI (XI (XI (XO XH)))))
       then ((N.add sIGNED (as_u8 n0)) :: []) :: []
       else if N.leb n0 (Npos (XI (XI (XI (XI (XI (XI (XI XH))))))))
            then ((N.add sIGNED (Npos (XO (XO (XO (XI XH)))))) :: ((as_u8 n0) :: [])) :: []
            else ((N.add sIGNED (Npos (XI (XO (XO (XI XH)))))) :: []) :: (
                   (be (S (S O)) n0) :: [])

(** val enc_i32 : z -> chunk list **)

let enc_i32 x =
  if Z.leb Z0 x
  then enc_u32 (Z.to_N x)
  else let n0 = neg_arg x in
       if N.leb n0 (Npos (XI (XI (XI (XO XH)))))
       then ((N.add sIGNED (as_u8 n0)) :: []) :: []
       else if N.leb n0 (Npos (XI (XI (XI (XI (XI (XI (XI XH))))))))
            then ((N.add sIGNED (Npos (XO (XO (XO (XI XH)))))) :: ((as_u8 n0) :: [])) :: []
            else if N.leb n0 (Npos (XI (XI (XI (XI (XI (XI (XI (XI (XI (XI
                      (XI (XI (XI (XI (XI XH))))))))))))))))
                 then ((N.add sIGNED (Npos (XI (XO (XO (XI XH)))))) :: []) :: (
                        (be (S (S O)) (as_u16 n0)) :: [])
                 else ((N.add sIGNED (Npos (XO (XI (XO (XI XH)))))) :: []) :: (
                        (be (S (S (S (S O)))) n0) :: [])

(** val enc_neg64 : n -> chunk list **)

let enc_neg64 n0 =
  if N.leb n0 (Npos (XI (XI (XI (XO XH)))))
  then ((N.add sIGNED (as_u8 n0)) :: []) :: []
  else if N.leb n0 (Npos (XI (XI (XI (XI (XI (XI (XI XH))))))))
       then ((N.add sIGNED (Npos (XO (XO (XO (XI XH)))))) :: ((as_u8 n0) :: [])) :: []
       else if N.leb n0 (Npos (XI (XI (XI (XI (XI (XI (XI (XI (XI (XI (XI (XI
                 (XI (XI (XI XH))))))))))))))))
            then ((N.add sIGNED (Npos (XI (XO (XO (XI XH)))))) :: []) :: (
                   (be (S (S O)) (as_u16 n0)) :: [])
            else if N.leb n0 (Npos (XI (XI (XI (XI (XI (XI (XI (XI (XI (XI
                      (XI (XI (XI (XI (XI (XI (XI (XI (XI (XI (XI (XI (XI (XI
                      (XI (XI (XI (XI (XI (XI (XI
                      XH))))))))))))))))))))))))))))))))
                 then ((N.add sIGNED (Npos (XO (XI (XO (XI XH)))))) :: []) :: (
                        (be (S (S (S (S O)))) (as_u32 n0)) :: [])
                 else ((N.add sIGNED (Npos (XI (XI (XO (XI XH)))))) :: []) :: (
                        (be (S (S (S (S (S (S (S (S O)))))))) n0) :: [])

(** val enc_i64 : z -> chunk list **)

let enc_i64 x =
  if Z.leb Z0 x then enc_u64 (Z.to_N x) else enc_neg64 (neg_arg x)

(** val enc_int : bool -> n -> chunk list **)

let enc_int neg val0 =
  if negb neg then enc_u64 val0 else enc_neg64 val0

(** val enc_null : chunk list **)

let enc_null =
  ((N.add sIMPLE (Npos (XO (XI (XI (XO XH)))))) :: []) :: []

(** val enc_undefined : chunk list **)

let enc_undefined =
  ((N.add sIMPLE (Npos (XI (XI (XI (XO XH)))))) :: []) :: []

(** val enc_simple : n -> chunk list **)

let enc_simple x =
  if N.ltb x (Npos (XO (XO (XI (XO XH)))))
  then ((N.add sIMPLE x) :: []) :: []
  else ((N.add sIMPLE (Npos (XO (XO (XO (XI XH)))))) :: (x :: [])) :: []

(** val enc_f32 : n -> chunk list **)

let enc_f32 bits =
  ((N.add sIMPLE (Npos (XO (XI (XO (XI XH)))))) :: []) :: ((be (S (S (S (S
                                                             O)))) bits) :: [])

(** val enc_f64 : n -> chunk list **)

let enc_f64 bits =
  ((N.add sIMPLE (Npos (XI (XI (XO (XI XH)))))) :: []) :: ((be (S (S (S (S (S
                                                             (S (S (S
                                                             O)))))))) bits) :: [])

(** val enc_f16_bits : n -> chunk list **)

let enc_f16_bits bits =
  ((N.add sIMPLE (Npos (XI (XO (XO (XI XH)))))) :: []) :: ((be (S (S O)) bits) :: [])

(** val enc_bool : bool -> chunk list **)

let enc_bool x =
  ((N.add sIMPLE
     (if x then Npos (XI (XO (XI (XO XH)))) else Npos (XO (XO (XI (XO XH)))))) :: []) :: []

(** val enc_char : n -> chunk list **)

let enc_char =
  enc_u32

(** val type_len : n -> n -> chunk list **)

let type_len t x =
  if N.leb x (Npos (XI (XI (XI (XO XH)))))
  then ((N.add t (as_u8 x)) :: []) :: []
  else if N.leb x (Npos (XI (XI (XI (XI (XI (XI (XI XH))))))))
       then ((N.add t (Npos (XO (XO (XO (XI XH)))))) :: ((as_u8 x) :: [])) :: []
       else if N.leb x (Npos (XI (XI (XI (XI (XI (XI (XI (XI (XI (XI (XI (XI
                 (XI (XI (XI XH))))))))))))))))
            then ((N.add t (Npos (XI (XO (XO (XI XH)))))) :: []) :: (
                   (be (S (S O)) (as_u16 x)) :: [])
            else if N.leb x (Npos (XI (XI (XI (XI (XI (XI (XI (XI (XI (XI (XI
                      (XI (XI (XI (XI (XI (XI (XI (XI (XI (XI (XI (XI (XI (XI
                      (XI (XI (XI (XI (XI (XI
                      XH))))))))))))))))))))))))))))))))
                 then ((N.add t (Npos (XO (XI (XO (XI XH)))))) :: []) :: (
                        (be (S (S (S (S O)))) (as_u32 x)) :: [])
                 else ((N.add t (Npos (XI (XI (XO (XI XH)))))) :: []) :: (
                        (be (S (S (S (S (S (S (S (S O)))))))) x) :: [])

(** val enc_tag : n -> chunk list **)

let enc_tag x =
  type_len tAGGED x

(** val enc_bytes : bytes -> chunk list **)

let enc_bytes b =
  app (type_len bYTES (len b)) (b :: [])

(** val enc_str : bytes -> chunk list **)

let enc_str b =
  app (type_len tEXT (len b)) (b :: [])

(** val enc_array : n -> chunk list **)

let enc_array n0 =
  type_len aRRAY n0

(** val enc_map : n -> chunk list **)

let enc_map n0 =
  type_len mAP n0

(** val enc_begin_array : chunk list **)

let enc_begin_array =
  ((Npos (XI (XI (XI (XI (XI (XO (XO XH)))))))) :: []) :: []

(** val enc_begin_bytes : chunk list **)

let enc_begin_bytes =
  ((Npos (XI (XI (XI (XI (XI (XO XH))))))) :: []) :: []

(** val enc_begin_map : chunk list **)

let enc_begin_map =
  ((Npos (XI (XI (XI (XI (XI (XI (XO XH)))))))) :: []) :: []

(** val enc_begin_str : chunk list **)

let enc_begin_str =
  ((Npos (XI (XI (XI (XI (XI (XI XH))))))) :: []) :: []

(** val enc_end : chunk list **)

let enc_end =
  ((Npos (XI (XI (XI (XI (XI (XI (XI XH)))))))) :: []) :: []

type width =
| W0
| W1
| W2
| W4
| W8

(** val fits : width -> n -> bool **)

let fits w n0 =
  match w with
  | W0 -> N.ltb n0 (Npos (XO (XO (XO (XI XH)))))
  | W1 -> N.ltb n0 (Npos (XO (XO (XO (XO (XO (XO (XO (XO XH)))))))))
  | W2 ->
    N.ltb n0 (Npos (XO (XO (XO (XO (XO (XO (XO (XO (XO (XO (XO (XO (XO (XO
      (XO (XO XH)))))))))))))))))
  | W4 ->
    N.ltb n0 (Npos (XO (XO (XO (XO (XO (XO (XO (XO (XO (XO (XO (XO (XO (XO
      (XO (XO (XO (XO (XO (XO (XO (XO (XO (XO (XO (XO (XO (XO (XO (XO (XO (XO
      XH)))))))))))))))))))))))))))))))))
  | W8 ->
    N.ltb n0 (Npos (XO (XO (XO (XO (XO (XO (XO (XO (XO (XO (XO (XO (XO (XO
      (XO (XO (XO (XO (XO (XO (XO (XO (XO (XO (XO (XO (XO (XO (XO (XO (XO (XO
      (XO (XO (XO (XO (XO (XO (XO (XO (XO (XO (XO (XO (XO (XO (XO (XO (XO (XO
      (XO (XO (XO (XO (XO (XO (XO (XO (XO (XO (XO (XO (XO (XO
      XH)))))))))))))))))))))))))))))))))))))))))))))))))))))))))))))))))

(** val min_width : n -> width **)

let min_width n0 =
  if N.ltb n0 (Npos (XO (XO (XO (XI XH)))))
  then W0
  else if N.ltb n0 (Npos (XO (XO (XO (XO (XO (XO (XO (XO XH)))))))))
       then W1
       else if N.ltb n0 (Npos (XO (XO (XO (XO (XO (XO (XO (XO (XO (XO (XO (XO
                 (XO (XO (XO (XO XH)))))))))))))))))
            then W2
            else if N.ltb n0 (Npos (XO (XO (XO (XO (XO (XO (XO (XO (XO (XO
                      (XO (XO (XO (XO (XO (XO (XO (XO (XO (XO (XO (XO (XO (XO
                      (XO (XO (XO (XO (XO (XO (XO (XO
                      XH)))))))))))))))))))))))))))))))))
                 then W4
                 else W8

(** val width_eqb : width -> width -> bool **)

let width_eqb a b =
  match a with
  | W0 -> (match b with
           | W0 -> true
           | _ -> false)
  | W1 -> (match b with
           | W1 -> true
           | _ -> false)
  | W2 -> (match b with
           | W2 -> true
           | _ -> false)
  | W4 -> (match b with
           | W4 -> true
           | _ -> false)
  | W8 -> (match b with
           | W8 -> true
           | _ -> false)

(** val head : n -> width -> n -> bytes **)

let head mt w n0 =
  match w with
  | W0 -> (N.add (N.mul mt (Npos (XO (XO (XO (XO (XO XH))))))) n0) :: []
  | W1 ->
    (N.add (N.mul mt (Npos (XO (XO (XO (XO (XO XH))))))) (Npos (XO (XO (XO
      (XI XH)))))) :: (n0 :: [])
  | W2 ->
    (N.add (N.mul mt (Npos (XO (XO (XO (XO (XO XH))))))) (Npos (XI (XO (XO
      (XI XH)))))) :: (be (S (S O)) n0)
  | W4 ->
    (N.add (N.mul mt (Npos (XO (XO (XO (XO (XO XH))))))) (Npos (XO (XI (XO
      (XI XH)))))) :: (be (S (S (S (S O)))) n0)
  | W8 ->
    (N.add (N.mul mt (Npos (XO (XO (XO (XO (XO XH))))))) (Npos (XI (XI (XO
      (XI XH)))))) :: (be (S (S (S (S (S (S (S (S O)))))))) n0)

type chunk_t = width * bytes

type enc =
| EUInt of width * n
| ENInt of width * n
| EBytes of width * bytes
| EBytesI of chunk_t list
| EText of width * bytes
| ETextI of chunk_t list
| EArray of width * enc list
| EArrayI of enc list
| EMap of width * enc list
| EMapI of enc list
| ETag of width * n * enc
| ESimple of n
| EF16 of n
| EF32 of n
| EF64 of n

(** val ser_chunk : n -> chunk_t -> bytes **)

let ser_chunk mt c =
  app (head mt (fst c) (len (snd c))) (snd c)

(** val ser : enc -> bytes **)

let rec ser = function
| EUInt (w, n0) -> head N0 w n0
| ENInt (w, n0) -> head (Npos XH) w n0
| EBytes (w, b) -> app (head (Npos (XO XH)) w (len b)) b
| EBytesI cs ->
  (Npos (XI (XI (XI (XI (XI (XO
    XH))))))) :: (app (flat_map (ser_chunk (Npos (XO XH))) cs) ((Npos (XI (XI
                   (XI (XI (XI (XI (XI XH)))))))) :: []))
| EText (w, b) -> app (head (Npos (XI XH)) w (len b)) b
| ETextI cs ->
  (Npos (XI (XI (XI (XI (XI (XI
    XH))))))) :: (app (flat_map (ser_chunk (Npos (XI XH))) cs) ((Npos (XI (XI
                   (XI (XI (XI (XI (XI XH)))))))) :: []))
| EArray (w, es) ->
  app (head (Npos (XO (XO XH))) w (len es)) (flat_map ser es)
| EArrayI es ->
  (Npos (XI (XI (XI (XI (XI (XO (XO
    XH)))))))) :: (app (flat_map ser es) ((Npos (XI (XI (XI (XI (XI (XI (XI
                    XH)))))))) :: []))
| EMap (w, es) ->
  app (head (Npos (XI (XO XH))) w (N.div (len es) (Npos (XO XH))))
    (flat_map ser es)
| EMapI es ->
  (Npos (XI (XI (XI (XI (XI (XI (XO
    XH)))))))) :: (app (flat_map ser es) ((Npos (XI (XI (XI (XI (XI (XI (XI
                    XH)))))))) :: []))
| ETag (w, t, e0) -> app (head (Npos (XO (XI XH))) w t) (ser e0)
| ESimple n0 ->
  if N.ltb n0 (Npos (XO (XO (XO (XI XH)))))
  then (N.add (Npos (XO (XO (XO (XO (XO (XI (XI XH)))))))) n0) :: []
  else (Npos (XO (XO (XO (XI (XI (XI (XI XH)))))))) :: (n0 :: [])
| EF16 b -> (Npos (XI (XO (XO (XI (XI (XI (XI XH)))))))) :: (be (S (S O)) b)
| EF32 b ->
  (Npos (XO (XI (XO (XI (XI (XI (XI XH)))))))) :: (be (S (S (S (S O)))) b)
| EF64 b ->
  (Npos (XI (XI (XO (XI (XI (XI (XI
    XH)))))))) :: (be (S (S (S (S (S (S (S (S O)))))))) b)

(** val wf_chunk : chunk_t -> bool **)

let wf_chunk c =
  (&&) (fits (fst c) (len (snd c))) (bytes_ok (snd c))

(** val wf : enc -> bool **)

let rec wf = function
| EUInt (w, n0) -> fits w n0
| ENInt (w, n0) -> fits w n0
| EBytes (w, b) -> (&&) (fits w (len b)) (bytes_ok b)
| EBytesI cs -> forallb wf_chunk cs
| EText (w, b) -> (&&) (fits w (len b)) (bytes_ok b)
| ETextI cs -> forallb wf_chunk cs
| EArray (w, es) -> (&&) (fits w (len es)) (forallb wf es)
| EArrayI es -> forallb wf es
| EMap (w, es) ->
  (&&) ((&&) (N.even (len es)) (fits w (N.div (len es) (Npos (XO XH)))))
    (forallb wf es)
| EMapI es -> (&&) (N.even (len es)) (forallb wf es)
| ETag (w, t, e0) -> (&&) (fits w t) (wf e0)
| ESimple n0 ->
  (||) (N.ltb n0 (Npos (XO (XO (XO (XI XH))))))
    ((&&) (N.leb (Npos (XO (XO (XO (XO (XO XH)))))) n0)
      (N.ltb n0 (Npos (XO (XO (XO (XO (XO (XO (XO (XO XH)))))))))))
| EF16 b ->
  N.ltb b (Npos (XO (XO (XO (XO (XO (XO (XO (XO (XO (XO (XO (XO (XO (XO (XO
    (XO XH)))))))))))))))))
| EF32 b ->
  N.ltb b (Npos (XO (XO (XO (XO (XO (XO (XO (XO (XO (XO (XO (XO (XO (XO (XO
    (XO (XO (XO (XO (XO (XO (XO (XO (XO (XO (XO (XO (XO (XO (XO (XO (XO
    XH)))))))))))))))))))))))))))))))))
| EF64 b ->
  N.ltb b (Npos (XO (XO (XO (XO (XO (XO (XO (XO (XO (XO (XO (XO (XO (XO (XO
    (XO (XO (XO (XO (XO (XO (XO (XO (XO (XO (XO (XO (XO (XO (XO (XO (XO (XO
    (XO (XO (XO (XO (XO (XO (XO (XO (XO (XO (XO (XO (XO (XO (XO (XO (XO (XO
    (XO (XO (XO (XO (XO (XO (XO (XO (XO (XO (XO (XO (XO
    XH)))))))))))))))))))))))))))))))))))))))))))))))))))))))))))))))))

(** val pref : enc -> bool **)

let rec pref = function
| EUInt (w, n0) -> width_eqb w (min_width n0)
| ENInt (w, n0) -> width_eqb w (min_width n0)
| EBytes (w, b) -> width_eqb w (min_width (len b))
| EBytesI _ -> false
| EText (w, b) -> width_eqb w (min_width (len b))
| ETextI _ -> false
| EArray (w, es) -> (&&) (width_eqb w (min_width (len es))) (forallb pref es)
| EArrayI _ -> false
| EMap (w, es) ->
  (&&) (width_eqb w (min_width (N.div (len es) (Npos (XO XH)))))
    (forallb pref es)
| EMapI _ -> false
| ETag (w, t, e0) -> (&&) (width_eqb w (min_width t)) (pref e0)
| _ -> true

(** val prefer_chunk : chunk_t -> chunk_t **)

let prefer_chunk c =
  ((min_width (len (snd c))), (snd c))

(** val prefer : enc -> enc **)

let rec prefer = function
| EUInt (_, n0) -> EUInt ((min_width n0), n0)
| ENInt (_, n0) -> ENInt ((min_width n0), n0)
| EBytes (_, b) -> EBytes ((min_width (len b)), b)
| EBytesI cs -> EBytesI (map prefer_chunk cs)
| EText (_, b) -> EText ((min_width (len b)), b)
| ETextI cs -> ETextI (map prefer_chunk cs)
| EArray (_, es) -> EArray ((min_width (len es)), (map prefer es))
| EArrayI es -> EArrayI (map prefer es)
| EMap (_, es) ->
  EMap ((min_width (N.div (len es) (Npos (XO XH)))), (map prefer es))
| EMapI es -> EMapI (map prefer es)
| ETag (_, t, e0) -> ETag ((min_width t), t, (prefer e0))
| x -> x

(** val size0 : enc -> nat **)

let rec size0 = function
| EArray (_, es) -> S (fold_right (fun e0 a -> add (size0 e0) a) O es)
| EArrayI es -> S (fold_right (fun e0 a -> add (size0 e0) a) O es)
| EMap (_, es) -> S (fold_right (fun e0 a -> add (size0 e0) a) O es)
| EMapI es -> S (fold_right (fun e0 a -> add (size0 e0) a) O es)
| ETag (_, _, e0) -> S (size0 e0)
| _ -> S O

type item =
| IUInt of n
| INInt of n
| IBytes of bytes
| IText of bytes
| IArray of item list
| IMap of item list
| ITag of n * item
| ISimple of n
| IF16 of n
| IF32 of n
| IF64 of n

(** val val_of : enc -> item **)

let rec val_of = function
| EUInt (_, n0) -> IUInt n0
| ENInt (_, n0) -> INInt n0
| EBytes (_, b) -> IBytes b
| EBytesI cs -> IBytes (flat_map snd cs)
| EText (_, b) -> IText b
| ETextI cs -> IText (flat_map snd cs)
| EArray (_, es) -> IArray (map val_of es)
| EArrayI es -> IArray (map val_of es)
| EMap (_, es) -> IMap (map val_of es)
| EMapI es -> IMap (map val_of es)
| ETag (_, t, e0) -> ITag (t, (val_of e0))
| ESimple n0 -> ISimple n0
| EF16 b -> IF16 b
| EF32 b -> IF32 b
| EF64 b -> IF64 b

(** val phead : n -> n -> bytes **)

let phead mt n0 =
  head mt (min_width n0) n0

(** val enc_pref : item -> bytes **)

let rec enc_pref = function
| IUInt n0 -> phead N0 n0
| INInt n0 -> phead (Npos XH) n0
| IBytes b -> app (phead (Npos (XO XH)) (len b)) b
| IText b -> app (phead (Npos (XI XH)) (len b)) b
| IArray l -> app (phead (Npos (XO (XO XH))) (len l)) (flat_map enc_pref l)
| IMap l ->
  app (phead (Npos (XI (XO XH))) (N.div (len l) (Npos (XO XH))))
    (flat_map enc_pref l)
| ITag (t, i0) -> app (phead (Npos (XO (XI XH))) t) (enc_pref i0)
| ISimple n0 ->
  if N.ltb n0 (Npos (XO (XO (XO (XI XH)))))
  then (N.add (Npos (XO (XO (XO (XO (XO (XI (XI XH)))))))) n0) :: []
  else (Npos (XO (XO (XO (XI (XI (XI (XI XH)))))))) :: (n0 :: [])
| IF16 b -> (Npos (XI (XO (XO (XI (XI (XI (XI XH)))))))) :: (be (S (S O)) b)
| IF32 b ->
  (Npos (XO (XI (XO (XI (XI (XI (XI XH)))))))) :: (be (S (S (S (S O)))) b)
| IF64 b ->
  (Npos (XI (XI (XO (XI (XI (XI (XI
    XH)))))))) :: (be (S (S (S (S (S (S (S (S O)))))))) b)

type parser0 = bytes -> (enc * bytes) option

(** val read_arg : n -> bytes -> ((width * n) * bytes) option **)

let read_arg ai r =
  if N.ltb ai (Npos (XO (XO (XO (XI XH)))))
  then Some ((W0, ai), r)
  else if N.eqb ai (Npos (XO (XO (XO (XI XH)))))
       then (match take r (Npos XH) with
             | Some p -> let (a, r') = p in Some ((W1, (of_be a)), r')
             | None -> None)
       else if N.eqb ai (Npos (XI (XO (XO (XI XH)))))
            then (match take r (Npos (XO XH)) with
                  | Some p -> let (a, r') = p in Some ((W2, (of_be a)), r')
                  | None -> None)
            else if N.eqb ai (Npos (XO (XI (XO (XI XH)))))
                 then (match take r (Npos (XO (XO XH))) with
                       | Some p ->
                         let (a, r') = p in Some ((W4, (of_be a)), r')
                       | None -> None)
                 else if N.eqb ai (Npos (XI (XI (XO (XI XH)))))
                      then (match take r (Npos (XO (XO (XO XH)))) with
                            | Some p ->
                              let (a, r') = p in Some ((W8, (of_be a)), r')
                            | None -> None)
                      else None

(** val parse_n :
    parser0 -> n -> nat -> bytes -> enc list -> (enc list * bytes) option **)

let rec parse_n p k fuel bs acc =
  if N.eqb k N0
  then Some ((rev acc), bs)
  else (match fuel with
        | O -> None
        | S fuel0 ->
          (match p bs with
           | Some p0 ->
             let (e, r) = p0 in parse_n p (N.pred k) fuel0 r (e :: acc)
           | None -> None))

(** val starts : n -> bytes -> bool **)

let starts b = function
| [] -> false
| x :: _ -> N.eqb x b

(** val parse_brk :
    parser0 -> nat -> bytes -> enc list -> (enc list * bytes) option **)

let rec parse_brk p fuel bs acc =
  match fuel with
  | O -> None
  | S fuel0 ->
    if starts (Npos (XI (XI (XI (XI (XI (XI (XI XH)))))))) bs
    then Some ((rev acc), (tl bs))
    else (match p bs with
          | Some p0 -> let (e, r) = p0 in parse_brk p fuel0 r (e :: acc)
          | None -> None)

(** val parse_chunks :
    n -> nat -> bytes -> chunk_t list -> (chunk_t list * bytes) option **)

let rec parse_chunks mt fuel bs acc =
  match fuel with
  | O -> None
  | S fuel0 ->
    (match bs with
     | [] -> None
     | b :: r ->
       if N.eqb b (Npos (XI (XI (XI (XI (XI (XI (XI XH))))))))
       then Some ((rev acc), r)
       else if negb (N.eqb (N.div b (Npos (XO (XO (XO (XO (XO XH))))))) mt)
            then None
            else (match read_arg
                          (N.modulo b (Npos (XO (XO (XO (XO (XO XH))))))) r with
                  | Some p ->
                    let (p0, r') = p in
                    let (w, n0) = p0 in
                    (match take r' n0 with
                     | Some p1 ->
                       let (c, r'') = p1 in
                       parse_chunks mt fuel0 r'' ((w, c) :: acc)
                     | None -> None)
                  | None -> None))

(** val dispatch : parser0 -> bytes -> (enc * bytes) option **)

let dispatch p = function
| [] -> None
| b :: r ->
  let mt = N.div b (Npos (XO (XO (XO (XO (XO XH)))))) in
  let ai = N.modulo b (Npos (XO (XO (XO (XO (XO XH)))))) in
  if N.eqb ai (Npos (XI (XI (XI (XI XH)))))
  then if N.eqb mt (Npos (XO XH))
       then (match parse_chunks (Npos (XO XH)) (S (length r)) r [] with
             | Some p0 -> let (cs, r') = p0 in Some ((EBytesI cs), r')
             | None -> None)
       else if N.eqb mt (Npos (XI XH))
            then (match parse_chunks (Npos (XI XH)) (S (length r)) r [] with
                  | Some p0 -> let (cs, r') = p0 in Some ((ETextI cs), r')
                  | None -> None)
            else if N.eqb mt (Npos (XO (XO XH)))
                 then (match parse_brk p (S (length r)) r [] with
                       | Some p0 ->
                         let (es, r') = p0 in Some ((EArrayI es), r')
                       | None -> None)
                 else if N.eqb mt (Npos (XI (XO XH)))
                      then (match parse_brk p (S (length r)) r [] with
                            | Some p0 ->
                              let (es, r') = p0 in
                              if N.even (len es)
                              then Some ((EMapI es), r')
                              else None
                            | None -> None)
                      else None
  else if N.eqb mt (Npos (XI (XI XH)))
       then if N.ltb ai (Npos (XO (XO (XO (XI XH)))))
            then Some ((ESimple ai), r)
            else if N.eqb ai (Npos (XO (XO (XO (XI XH)))))
                 then (match r with
                       | [] -> None
                       | x :: r' ->
                         if N.leb (Npos (XO (XO (XO (XO (XO XH)))))) x
                         then Some ((ESimple x), r')
                         else None)
                 else if N.eqb ai (Npos (XI (XO (XO (XI XH)))))
                      then (match take r (Npos (XO XH)) with
                            | Some p0 ->
                              let (a, r') = p0 in Some ((EF16 (of_be a)), r')
                            | None -> None)
                      else if N.eqb ai (Npos (XO (XI (XO (XI XH)))))
                           then (match take r (Npos (XO (XO XH))) with
                                 | Some p0 ->
                                   let (a, r') = p0 in
                                   Some ((EF32 (of_be a)), r')
                                 | None -> None)
                           else if N.eqb ai (Npos (XI (XI (XO (XI XH)))))
                                then (match take r (Npos (XO (XO (XO XH)))) with
                                      | Some p0 ->
                                        let (a, r') = p0 in
                                        Some ((EF64 (of_be a)), r')
                                      | None -> None)
                                else None
       else (match read_arg ai r with
             | Some p0 ->
               let (p1, r1) = p0 in
               let (w, n0) = p1 in
               if N.eqb mt N0
               then Some ((EUInt (w, n0)), r1)
               else if N.eqb mt (Npos XH)
                    then Some ((ENInt (w, n0)), r1)
                    else if N.eqb mt (Npos (XO XH))
                         then (match take r1 n0 with
                               | Some p2 ->
                                 let (c, r2) = p2 in
                                 Some ((EBytes (w, c)), r2)
                               | None -> None)
                         else if N.eqb mt (Npos (XI XH))
                              then (match take r1 n0 with
                                    | Some p2 ->
                                      let (c, r2) = p2 in
                                      Some ((EText (w, c)), r2)
                                    | None -> None)
                              else if N.eqb mt (Npos (XO (XO XH)))
                                   then (match parse_n p n0 (length r1) r1 [] with
                                         | Some p2 ->
                                           let (es, r2) = p2 in
                                           Some ((EArray (w, es)), r2)
                                         | None -> None)
                                   else if N.eqb mt (Npos (XI (XO XH)))
                                        then if N.ltb n0 (Npos (XO (XO (XO
                                                  (XO (XO (XO (XO (XO (XO (XO
                                                  (XO (XO (XO (XO (XO (XO (XO
                                                  (XO (XO (XO (XO (XO (XO (XO
                                                  (XO (XO (XO (XO (XO (XO (XO
                                                  (XO (XO (XO (XO (XO (XO (XO
                                                  (XO (XO (XO (XO (XO (XO (XO
                                                  (XO (XO (XO (XO (XO (XO (XO
                                                  (XO (XO (XO (XO (XO (XO (XO
                                                  (XO (XO (XO (XO
                                                  XH))))))))))))))))))))))))))))))))))))))))))))))))))))))))))))))))
                                             then (match parse_n p
                                                           (N.mul (Npos (XO
                                                             XH)) n0)
                                                           (length r1) r1 [] with
                                                   | Some p2 ->
                                                     let (es, r2) = p2 in
                                                     Some ((EMap (w, es)), r2)
                                                   | None -> None)
                                             else None
                                        else (match p r1 with
                                              | Some p2 ->
                                                let (e, r2) = p2 in
                                                Some ((ETag (w, n0, e)), r2)
                                              | None -> None)
             | None -> None)

(** val parse : nat -> bytes -> (enc * bytes) option **)

let rec parse fuel bs =
  match fuel with
  | O -> None
  | S fuel0 -> dispatch (parse fuel0) bs

(** val one_item : bytes -> enc option **)

let one_item bs =
  match parse (S (length bs)) bs with
  | Some p -> let (e, b) = p in (match b with
                                 | [] -> Some e
                                 | _ :: _ -> None)
  | None -> None

(** val items : nat -> bytes -> enc list option **)

let rec items fuel bs =
  match fuel with
  | O -> None
  | S fuel0 ->
    (match bs with
     | [] -> Some []
     | _ :: _ ->
       (match parse (S (length bs)) bs with
        | Some p ->
          let (e, r) = p in
          (match items fuel0 r with
           | Some es -> Some (e :: es)
           | None -> None)
        | None -> None))
