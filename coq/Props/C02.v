(* Props/C02.v — pinned statements for property C02 (decoding untrusted bytes is total: no panic, no
   hang, bounded work, bounded pushes, position in bounds).  All statements are for ALL byte strings:
   no well-formedness or byte-range assumption on the input anywhere.

   Model: Model/{Decoder,Accessors,Types,Ops}.v.  Outcomes are Ok | Err | Panic | OutOfFuel; Panic is
   what any Rust panic is modelled as; OutOfFuel is what a loop running longer than its fuel returns.
   The fuel every entry point supplies is fuel_of s = (remaining bytes) + 1. *)
From MC Require Import Bytes Monad Decoder Acc Accessors Types Ops
  TotalPrims TotalSkip TotalTypes TotalFacts.
Local Open Scope N_scope.

(* ------------------------------------------------------------------ 0. state invariant *)
(* st_ok s: |remaining input| = dlen s - dpos s (truncated: nothing remains at or beyond the end).
   st_in inp s: moreover the remaining input is literally inp[dpos s ..] — every byte the decoder
   looks at is a byte of the input ("never reads outside the input"; by construction of the model's
   primitives, hence only as good as the correspondence). *)
Theorem C02_st_ok_start : forall inp, st_ok (start inp).
Proof. exact st_ok_start. Qed.
Theorem C02_st_ok_at_pos : forall inp p, st_ok (at_pos inp p).
Proof. exact st_ok_at_pos. Qed.
Theorem C02_st_ok_op : forall c inp o s, st_ok s -> st_ok (snd (run_op c inp o s)).
Proof. exact run_op_st_ok. Qed.
Theorem C02_st_ok_decode : forall c t fuel s,
  (length (drest s) < fuel)%nat -> st_ok s -> st_ok (snd (decode_ty c t fuel s)).
Proof. exact decode_ty_st_ok. Qed.
Theorem C02_st_in_start : forall inp, st_in inp (start inp).
Proof. exact st_in_start. Qed.
Theorem C02_st_in_at_pos : forall inp p, st_in inp (at_pos inp p).
Proof. exact st_in_at_pos. Qed.
Theorem C02_st_in_op : forall c inp o s, st_in inp s -> st_in inp (snd (run_op c inp o s)).
Proof. exact run_op_st_in. Qed.
Theorem C02_st_in_ok : forall inp s, st_in inp s -> st_ok s.
Proof. exact st_in_ok. Qed.

(* ------------------------------------------------------------------ 1. no panic *)
(* Any sequence of decoder calls (every accessor, probe + accessor, decode::<T>() at every type
   descriptor, datatype, set_position(p) for any p, position) on any input, from any state, in any
   feature configuration: no call yields Panic.  (Holds without the state invariant.) *)
Theorem C02_no_panic : forall c inp os s, Forall (fun r => fst r <> Panic) (run_ops c inp os s).
Proof. exact run_ops_no_panic. Qed.

(* ------------------------------------------------------------------ 2. no hang: the fuel is never exhausted *)
Theorem C02_no_out_of_fuel : forall c inp os s, Forall (fun r => fst r <> OutOfFuel) (run_ops c inp os s).
Proof. exact run_ops_no_oof. Qed.

(* The step bound.  Every loop of the decoder (chunk iterators, both skip loops, the definite /
   indefinite array, map, [T;N] and field loops, at any nesting depth inside decode::<T>()) is
   recursion on `fuel`, one unit per iteration.  Any fuel above the number of remaining bytes is
   never exhausted: each loop instance performs at most length (drest s) + 1 iterations. *)
Theorem C02_linear : forall c fuel s, (length (drest s) < fuel)%nat ->
  (forall t, fst (decode_ty c t fuel s) <> OutOfFuel) /\
  fst (skip c fuel s) <> OutOfFuel /\
  fst (dec_bytes_iter fuel s) <> OutOfFuel /\
  fst (dec_str_iter fuel s) <> OutOfFuel.
Proof. exact fuel_suffices. Qed.

(* … because every item decoded successfully consumed at least one byte (and nothing ever gives
   bytes back): *)
Theorem C02_progress : forall c t fuel s v s', (length (drest s) < fuel)%nat ->
  decode_ty c t fuel s = (Ok v, s') -> (length (drest s') < length (drest s))%nat.
Proof. exact decode_ty_consumes. Qed.
Theorem C02_progress_acc : forall c a s v s',
  run_acc c a s = (Ok v, s') -> (length (drest s') < length (drest s))%nat.
Proof. exact run_acc_consumes. Qed.
Theorem C02_progress_pos : forall c t fuel s v s', st_ok s -> (length (drest s) < fuel)%nat ->
  decode_ty c t fuel s = (Ok v, s') -> dpos s + 1 <= dpos s' <= dlen s.
Proof. exact decode_ty_progress. Qed.

(* ------------------------------------------------------------------ 3. position *)
(* Every operation other than set_position — whether it returns Ok or Err — leaves the buffer length
   unchanged and the position between the position before and max(position before, buffer length). *)
Theorem C02_position : forall c inp o s, st_ok s -> is_setpos o = false ->
  dlen (snd (run_op c inp o s)) = dlen s /\
  dpos s <= dpos (snd (run_op c inp o s)) <= N.max (dpos s) (dlen s).
Proof. exact run_op_position. Qed.

Theorem C02_probe : forall c inp a s, snd (run_op c inp (OProbe a) s) = s.
Proof. exact run_op_probe. Qed.

(* After any call the position is at most the input length (unless the caller itself set it beyond). *)
Theorem C02_position_seq : forall c inp os s, st_ok s -> dlen s = len inp -> dpos s <= len inp ->
  Forall (setpos_within (len inp)) os ->
  Forall (fun r => snd r <= len inp) (run_ops c inp os s).
Proof. exact run_ops_position. Qed.

(* ------------------------------------------------------------------ 4. skip (alloc): the stack *)
(* skip_reach fuel c s fuel2 c2 s2: (c2, s2) is a loop head the while loop started at (c, s) passes
   through; C02_skip_reach says the loop indeed continues from there.  At every such loop head the
   Vec's length plus the pending `for _ in 0..irounds` pushes is at most the number of bytes consumed
   so far, and so is the number of iterations performed. *)
Theorem C02_skip_reach : forall fuel s fuel2 c2 s2,
  skip_reach fuel (mksk 1 0 []) s fuel2 c2 s2 -> skip_alloc fuel s = skip_loop fuel2 c2 s2.
Proof. exact skip_alloc_reach_loop. Qed.

Theorem C02_skip_stack : forall fuel s fuel2 c2 s2, (length (drest s) < fuel)%nat ->
  skip_reach fuel (mksk 1 0 []) s fuel2 c2 s2 ->
  len (stk c2) + ir c2 + len (drest s2) <= len (drest s).
Proof. exact skip_stack_bound. Qed.

Theorem C02_skip_steps : forall fuel c s fuel2 c2 s2, (length (drest s) < fuel)%nat ->
  skip_reach fuel c s fuel2 c2 s2 -> (length (drest s2) + (fuel - fuel2) <= length (drest s))%nat.
Proof. exact skip_steps_bound. Qed.

(* ------------------------------------------------------------------ 5. pushes into collections *)
(* Whatever length the header declares, the number of elements pushed (Vec::push / insert / ArrayVec
   push; a map pushes a key and a value per entry) plus one is at most the number of bytes consumed. *)
Theorem C02_pushes_seq : forall c t fuel s l s', st_ok s -> (length (drest s) < fuel)%nat ->
  decode_ty c (TySeq t) fuel s = (Ok (VList l), s') -> len l + 1 <= dpos s' - dpos s.
Proof. exact pushes_seq. Qed.
Theorem C02_pushes_arr : forall c n t fuel s l s', st_ok s -> (length (drest s) < fuel)%nat ->
  decode_ty c (TyArr n t) fuel s = (Ok (VList l), s') -> len l + 1 <= dpos s' - dpos s.
Proof. exact pushes_arr. Qed.
Theorem C02_pushes_map : forall c tk tv fuel s l s', st_ok s -> (length (drest s) < fuel)%nat ->
  decode_ty c (TyMap tk tv) fuel s = (Ok (VList l), s') -> len l + 1 <= dpos s' - dpos s.
Proof. exact pushes_map. Qed.

(* ------------------------------------------------------------------ 6. Size *)
Theorem C02_size_tail : forall hd, size_tail hd <> Panic /\ size_tail hd <> OutOfFuel.
Proof. exact size_tail_total. Qed.
Theorem C02_size_head : forall b n, size_head b = Some n -> 1 <= n <= 9.
Proof. exact size_head_range. Qed.

(* ------------------------------------------------------------------ examples *)
(* hostile length: 9b ff ff ff ff ff ff ff ff 01 = array of 2^64-1 elements, one present.  Decoding
   Vec<u8> stops with EndOfInput at position 10 = the input length, after one push. *)
Example C02_hostile_example :
  decode_auto cfg_full (TySeq (TyU B8)) (start [0x9b; 255; 255; 255; 255; 255; 255; 255; 255; 1])
  = (Err EndOfInput, mkdst 10 [] 10).
Proof. vm_compute. reflexivity. Qed.

(* the hypotheses of the theorems above are satisfiable by non-trivial instances: an indefinite
   array inside a definite one, skipped with the alloc variant — the stack is in use mid-way *)
Example C02_hyp_example :
  st_ok (start [0x82; 0x9f; 1; 0xff; 2]) /\ st_in [0x82; 0x9f; 1; 0xff; 2] (at_pos [0x82; 0x9f; 1; 0xff; 2] 3)
  /\ (length (drest (start [0x82; 0x9f; 1; 0xff; 2]%N)) < fuel_of (start [0x82; 0x9f; 1; 0xff; 2]%N))%nat
  /\ skip_reach 6 (mksk 1 0 []) (start [0x82; 0x9f; 1; 0xff; 2]) 4 (mksk 0 0 [FNone; FSome 1]) (mkdst 2 [1; 0xff; 2] 5)
  /\ decode_auto cfg_full (TySeq (TyU B8)) (start [0x82; 1; 2]) = (Ok (VList [VNat 1; VNat 2]), mkdst 3 [] 3)
  /\ setpos_within 5 (OSetPos 5) /\ is_setpos (OType TyDuration) = false.
Proof.
  split; [vm_compute; reflexivity|]. split; [split; reflexivity|]. split; [vm_compute; auto|].
  split; [|split; [vm_compute; reflexivity|split; [vm_compute; discriminate|reflexivity]]].
  eapply reach_step; [reflexivity|vm_compute; reflexivity|].
  eapply reach_step; [reflexivity|vm_compute; reflexivity|]. apply reach_refl.
Qed.

Print Assumptions C02_st_ok_start.
Print Assumptions C02_st_ok_at_pos.
Print Assumptions C02_st_ok_op.
Print Assumptions C02_st_ok_decode.
Print Assumptions C02_st_in_start.
Print Assumptions C02_st_in_at_pos.
Print Assumptions C02_st_in_op.
Print Assumptions C02_st_in_ok.
Print Assumptions C02_no_panic.
Print Assumptions C02_no_out_of_fuel.
Print Assumptions C02_linear.
Print Assumptions C02_progress.
Print Assumptions C02_progress_acc.
Print Assumptions C02_progress_pos.
Print Assumptions C02_position.
Print Assumptions C02_probe.
Print Assumptions C02_position_seq.
Print Assumptions C02_skip_reach.
Print Assumptions C02_skip_stack.
Print Assumptions C02_skip_steps.
Print Assumptions C02_pushes_seq.
Print Assumptions C02_pushes_arr.
Print Assumptions C02_pushes_map.
Print Assumptions C02_size_tail.
Print Assumptions C02_size_head.
