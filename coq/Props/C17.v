(* Props/C17.v — pinned statements for property C17 (the serde bridge round-trips the serde data model with
   the documented representation).  Statements only; proofs live in Proofs/Serde*.v. *)
From MC Require Import Bytes Monad Cbor Encoder Decoder Types Serde SerdeDoc SerdeFacts SerdeRtFacts SerdeAnyFacts.
Local Open Scope N_scope.

(* The bytes the bridge writes for a call tree whose arguments are values of the Rust parameter types are
   exactly the documented representation (Spec/SerdeDoc.v: structs = maps keyed by field name, unit variant =
   the name as text, other variants = one-entry map, None = null, unit = empty array, char = unsigned integer,
   …) with every head the shortest one and a container indefinite exactly when its length was not given. *)
Theorem C17_repr : forall c v cs,
  sval_ok v = true -> ser_s c v = Some cs -> flat cs = ser (prefer (serde_doc_tree v)).
Proof. exact ser_s_repr. Qed.

(* … which is exactly one well-formed CBOR item. *)
Theorem C17_wf : forall c v cs,
  sval_ok v = true -> ser_s c v = Some cs -> exists e, flat cs = ser e /\ wf e = true.
Proof. exact ser_s_wf. Qed.

(* With alloc the serializer refuses nothing (without it, only collect_str). *)
Theorem C17_total : forall c v, c_alloc c = true -> exists cs, ser_s c v = Some cs.
Proof. exact ser_s_total. Qed.

(* Round trip, for every shape that is read without deserialize_any (`direct`: all primitives, strings, byte
   buffers, options, unit, unit / newtype / tuple / ordinary structs, sequences and maps of known and unknown
   length, tuples, externally tagged enums with unit / newtype / tuple / struct variants, and every
   composition), every value of that shape, in every feature configuration, at any position of any input,
   with any sufficient fuel: deserialising the serialisation returns the value and stops exactly after the item.
   Excluded: an Option directly inside an Option (the documented exception).

   GOAL (full statement, not proved for the any-driven shapes — internally / adjacently tagged, untagged,
   flattened — whose serde-side visitors are modelled but validated by the correspondence only):
     forall c sh v, typed sh v -> opt_in_opt sh = false -> opaque_under_any sh = false ->
       run (de_auto c sh) (flat (ser_s c v) ++ rest) = (Ok v, …)
   `direct sh` implies `opaque_under_any sh = false`; for the complement see C17_any_refuted_*. *)
Theorem C17_roundtrip_partial : forall c sh v cs fuel rest p L,
  direct sh = true -> shape_ok sh = true -> opt_in_opt sh = false -> conforms sh v = true ->
  ser_s c v = Some cs -> (length (flat cs) < fuel)%nat -> p + len (flat cs) <= L ->
  de_s c sh fuel (mkdst p (flat cs ++ rest) L) = (Ok v, mkdst (p + len (flat cs)) rest L).
Proof. exact roundtrip_at. Qed.

(* the same on a whole input with the fuel the driver supplies *)
Theorem C17_roundtrip_auto_partial : forall c sh v cs rest,
  direct sh = true -> shape_ok sh = true -> opt_in_opt sh = false -> conforms sh v = true ->
  ser_s c v = Some cs ->
  run (de_auto c sh) (flat cs ++ rest) = (Ok v, mkdst (len (flat cs)) rest (len (flat cs ++ rest))).
Proof. exact roundtrip_auto. Qed.

(* F12: the unrestricted statement is false.  Concrete witnesses (exact outcomes of the model, replayed on the
   real crates by checks/C17.py): an untagged unit variant, a unit in a flattened struct, a char in an untagged
   variant and in an internally tagged struct variant, a unit struct in an untagged variant do not read back. *)
Theorem C17_any_refuted_untagged_unit :
  opt_in_opt w_untagged_unit = false /\ opaque_under_any w_untagged_unit = true /\
  option_map flat (ser_s cfg_full SUnit) = Some [128] /\
  rt_result w_untagged_unit SUnit = Some (Err Message, 1, 1).
Proof. exact untagged_unit_refuted. Qed.

Theorem C17_any_refuted_untagged_unit_other_value :
  opaque_under_any w_untagged_unit_seq = true /\
  rt_result w_untagged_unit_seq SUnit = Some (Ok (SSeq (Some 0) []), 1, 1).
Proof. exact untagged_unit_other_value. Qed.

Theorem C17_any_refuted_flatten_unit :
  opt_in_opt w_flat_unit = false /\ opaque_under_any w_flat_unit = true /\
  let v := SMap None [SStr [97]; SU B8 1; SStr [117]; SUnit] in
  option_map flat (ser_s cfg_full v) = Some [191; 97; 97; 1; 97; 117; 128; 255] /\
  rt_result w_flat_unit v = Some (Err Message, 8, 8).
Proof. exact flatten_unit_refuted. Qed.

Theorem C17_any_refuted_untagged_char :
  opt_in_opt w_untagged_char = false /\ opaque_under_any w_untagged_char = true /\
  option_map flat (ser_s cfg_full (SChar 97)) = Some [24; 97] /\
  rt_result w_untagged_char (SChar 97) = Some (Err Message, 2, 2).
Proof. exact untagged_char_refuted. Qed.

Theorem C17_any_refuted_internal_char :
  opaque_under_any w_internal_char = true /\
  let v := SStruct 2 [([116], SStr [86]); ([99], SChar 97)] in
  rt_result w_internal_char v = Some (Err Message, 9, 9).
Proof. exact internal_char_refuted. Qed.

Theorem C17_any_refuted_untagged_unit_struct :
  opaque_under_any w_untagged_unit_struct = true /\
  rt_result w_untagged_unit_struct SUnitStruct = Some (Err Message, 1, 1).
Proof. exact untagged_unit_struct_refuted. Qed.

(* the class is delimited exactly: the neighbours outside it read back *)
Theorem C17_any_neighbours_read_back :
  opaque_under_any w_internal_unit_struct = false /\
  (let v := SStruct 2 [([116], SStr [86]); ([107], SUnitStruct)] in rt_result w_internal_unit_struct v = Some (Ok v, 8, 8)) /\
  (let v := SMap (Some 1) [SStr [116]; SStr [85]] in rt_result w_internal_unit_struct v = Some (Ok v, 5, 5)).
Proof. exact internal_unit_struct_reads_back. Qed.

(* the documented exception *)
Theorem C17_opt_in_opt_refuted :
  opt_in_opt (ShOption (ShOption (ShU B8))) = true /\
  conforms (ShOption (ShOption (ShU B8))) (SSome SNone) = true /\
  rt_result (ShOption (ShOption (ShU B8))) (SSome SNone) = Some (Ok SNone, 1, 1).
Proof. exact opt_in_opt_refuted. Qed.

(* the hypotheses are satisfiable by non-trivial instances *)
Example C17_repr_example :
  let v := SStruct 2 [([120], SSeq None [SU B16 300; SNone]); ([121], SNewtypeVariant 1 [66] (SChar 8364))] in
  sval_ok v = true /\
  option_map flat (ser_s cfg_full v) = Some [162; 97; 120; 159; 25; 1; 44; 246; 255; 97; 121; 161; 97; 66; 25; 32; 172].
Proof. vm_compute. auto. Qed.

Example C17_roundtrip_example :
  let sh := ShStruct [([120], ShSeq false (ShOption (ShU B16)));
                      ([121], ShEnum [([65], (KUnit, ShUnit)); ([66], (KNewtype, ShChar));
                                      ([67], (KStruct, ShStruct [([122], ShMap true (ShStr false) (ShTuple [ShBool; ShUnit]))]))])] in
  let v := SStruct 2 [([120], SSeq None [SSome (SU B16 300); SNone]);
                      ([121], SStructVariant 2 [67] 1 [([122], SMap (Some 1) [SStr [107]; STuple 2 [SBool true; SUnit]])])] in
  direct sh = true /\ shape_ok sh = true /\ opt_in_opt sh = false /\ conforms sh v = true /\ ser_s cfg_full v <> None.
Proof. vm_compute. repeat split; discriminate. Qed.

Print Assumptions C17_repr.
Print Assumptions C17_wf.
Print Assumptions C17_total.
Print Assumptions C17_roundtrip_partial.
Print Assumptions C17_roundtrip_auto_partial.
Print Assumptions C17_any_refuted_untagged_unit.
