(* Props/C17.v — pinned statements for property C17 (the serde bridge round-trips the serde data model with
   the documented representation).  Statements only; proofs live in Proofs/Serde*.v. *)
From MC Require Import Bytes Monad Cbor Encoder Decoder Types Serde SerdeDoc SerdeCont SerdeAny SerdeFacts SerdeRtFacts SerdeAnyFacts
  SerdeContentFacts SerdeBufFacts SerdeAnyRtFacts SerdeAdjFacts SerdeFlatFacts SerdeFamilyFacts.
Local Open Scope N_scope.

(* The bytes the bridge writes for a call tree whose arguments are values of the Rust parameter types are
   exactly the documented representation (Spec/SerdeDoc.v: structs = maps keyed by field name, unit variant =
   the name as text, other variants = one-entry map, None = null, unit = empty array, char = unsigned integer,
   …) with every head the shortest one and a container indefinite exactly when its length was not given. *)
Theorem C17_repr : forall c v cs,
  sval_ok v = true -> ser_s c v = Some cs -> flat cs = ser (prefer (serde_doc_tree v)).
Proof. exact ser_s_repr. Qed.

(* … which is exactly one well-formed CBOR item. *)
Theorem C17_wf : forall c v cs,
  sval_ok v = true -> ser_s c v = Some cs -> exists e, flat cs = ser e /\ wf e = true.
Proof. exact ser_s_wf. Qed.

(* With alloc the serializer refuses nothing (without it, only collect_str). *)
Theorem C17_total : forall c v, c_alloc c = true -> exists cs, ser_s c v = Some cs.
Proof. exact ser_s_total. Qed.

(* Round trip, for every shape that is read without deserialize_any (`direct`: all primitives, strings, byte
   buffers, options, unit, unit / newtype / tuple / ordinary structs, sequences and maps of known and unknown
   length, tuples, externally tagged enums with unit / newtype / tuple / struct variants, and every
   composition), every value of that shape, in every feature configuration, at any position of any input,
   with any sufficient fuel: deserialising the serialisation returns the value and stops exactly after the item.
   Excluded: an Option directly inside an Option (the documented exception).

   For the shapes that go through deserialize_any see C17_roundtrip_any below; for the F12 class
   C17_any_refuted_*. *)
Theorem C17_roundtrip_partial : forall c sh v cs fuel rest p L,
  direct sh = true -> shape_ok sh = true -> opt_in_opt sh = false -> conforms sh v = true ->
  ser_s c v = Some cs -> (length (flat cs) < fuel)%nat -> p + len (flat cs) <= L ->
  de_s c sh fuel (mkdst p (flat cs ++ rest) L) = (Ok v, mkdst (p + len (flat cs)) rest L).
Proof. exact roundtrip_at. Qed.

(* the same on a whole input with the fuel the driver supplies *)
Theorem C17_roundtrip_auto_partial : forall c sh v cs rest,
  direct sh = true -> shape_ok sh = true -> opt_in_opt sh = false -> conforms sh v = true ->
  ser_s c v = Some cs ->
  run (de_auto c sh) (flat cs ++ rest) = (Ok v, mkdst (len (flat cs)) rest (len (flat cs ++ rest))).
Proof. exact roundtrip_auto. Qed.

(* Round trip for EVERY shape of the model's shape universe, the ones that go through the bridge's deserialize_any
   and serde's Content buffer included: primitives, strings, bytes, options, unit, unit / newtype / tuple / plain
   structs, sequences, maps, tuples, externally tagged enums; INTERNALLY TAGGED enums (TaggedContentVisitor's tag
   search, then ContentDeserializer on the buffered rest); UNTAGGED enums (ContentRefDeserializer, first variant
   that deserialises); ADJACENTLY TAGGED enums (the bridge writes the tag first, so the content is read directly
   with the variant known); structs with #[serde(flatten)] fields (the key loop reads the known fields directly and
   buffers every other entry; FlatStructAccess claims the entries of each flattened struct, re-read through
   ContentDeserializer; FlatMapAccess gives a flattened map every unclaimed entry, re-read through
   ContentRefDeserializer; a flattened () takes nothing); the keep-everything visitor ShAny; every composition.
   For every value v of the shape (`conf_any`: the call tree the derived Serialize makes; `sval_ok`: arguments in
   range, true lengths) that is outside the F12 class (`f12_free`, on shape and value; checks/serdegen.py f12_hit
   is its mirror and checks/C17.py compares the two on every case) and whose shape has no Option directly inside
   an Option, with the side condition of untagged enums (`untagged_disjoint`: an earlier variant rejects what a
   later variant writes; proved for the family by C17_family_side_conditions and asserted, through the driver, for
   every family type) and static well-formedness (`shape_ok_any`: names are text and distinct, payload kinds; of the
   flattened kinds the model has struct, map — as the last field, since it takes every unclaimed entry — and ()),
   in EVERY feature configuration c in which the serializer accepts the value (without alloc only collect_str is
   refused, C17_total), at any position of any input, with any fuel above the length:
   de_s returns exactly v (no canonical form is needed: for ShAny `conf_any` = `any_canon` says v is one of the
   call trees the visitor can produce) and stops right after the item.
   Not in the model (hence `conf_any` / `buf_conf` false there): tagged / flattened types nested below a buffered
   node, flattened enums / options.  `conf_any` also excludes the two key clashes serde cannot represent in any
   format (a map key equal to the tag of an internally tagged enum; a flattened map key equal to a sibling field). *)
Theorem C17_roundtrip_any : forall c sh v cs fuel rest p L,
  shape_ok_any sh = true -> opt_in_opt sh = false -> untagged_disjoint sh = true ->
  conf_any sh v = true -> f12_free sh v = true -> sval_ok v = true ->
  ser_s c v = Some cs -> (length (flat cs) < fuel)%nat -> p + len (flat cs) <= L ->
  de_s c sh fuel (mkdst p (flat cs ++ rest) L) = (Ok v, mkdst (p + len (flat cs)) rest L).
Proof. exact roundtrip_all_at. Qed.

(* the same on a whole input with the fuel the driver supplies *)
Theorem C17_roundtrip_any_auto : forall c sh v cs rest,
  shape_ok_any sh = true -> opt_in_opt sh = false -> untagged_disjoint sh = true ->
  conf_any sh v = true -> f12_free sh v = true -> sval_ok v = true -> ser_s c v = Some cs ->
  run (de_auto c sh) (flat cs ++ rest) = (Ok v, mkdst (len (flat cs)) rest (len (flat cs ++ rest))).
Proof. exact roundtrip_all_auto. Qed.

(* the two layers the proof goes through, each for every call tree / every shape:
   deserialize_any + ContentVisitor buffer the serialisation of v as cont_of v … *)
Theorem C17_content_buffer : forall c v fuel cs rest p L,
  sval_ok v = true -> ser_s c v = Some cs -> (length (flat cs) < fuel)%nat -> p + len (flat cs) <= L ->
  de_content c fuel (mkdst p (flat cs ++ rest) L) = (Ok (cont_of v), mkdst (p + len (flat cs)) rest L).
Proof. intros c v fuel cs rest p L Hok Hs Hf HL. exact (de_content_rt c v fuel cs Hok Hs Hf rest p L HL). Qed.

(* … and ContentDeserializer (owned) / ContentRefDeserializer re-reading that buffer give v back, with their
   leniencies (integers of any width, visit_some / visit_none, transparent newtype structs, sequences for tuples,
   the untagged "first variant that deserialises" loop), for every value without an F12 leaf *)
Theorem C17_content_reread : forall sh owned v,
  shape_ok_any sh = true -> opt_in_opt sh = false -> untagged_disjoint sh = true ->
  buf_conf owned sh v = true -> fc owned sh (cont_of v) = Some v.
Proof. intros sh owned v. exact (fc_rt sh owned v). Qed.

(* the static side conditions hold for the internally / adjacently tagged, untagged and flattened types of the family *)
Theorem C17_family_side_conditions :
  forallb (fun sh => shape_ok_any sh && negb (opt_in_opt sh) && untagged_disjoint sh) fam_any = true.
Proof. exact family_side_conditions. Qed.

(* F12: the unrestricted statement is false.  Concrete witnesses (exact outcomes of the model, replayed on the
   real crates by checks/C17.py): an untagged unit variant, a unit in a flattened struct, a char in an untagged
   variant and in an internally tagged struct variant, a unit struct in an untagged variant do not read back. *)
Theorem C17_any_refuted_untagged_unit :
  opt_in_opt w_untagged_unit = false /\ opaque_under_any w_untagged_unit = true /\
  option_map flat (ser_s cfg_full SUnit) = Some [128] /\
  rt_result w_untagged_unit SUnit = Some (Err Message, 1, 1).
Proof. exact untagged_unit_refuted. Qed.

Theorem C17_any_refuted_untagged_unit_other_value :
  opaque_under_any w_untagged_unit_seq = true /\
  rt_result w_untagged_unit_seq SUnit = Some (Ok (SSeq (Some 0) []), 1, 1).
Proof. exact untagged_unit_other_value. Qed.

Theorem C17_any_refuted_flatten_unit :
  opt_in_opt w_flat_unit = false /\ opaque_under_any w_flat_unit = true /\
  let v := SMap None [SStr [97]; SU B8 1; SStr [117]; SUnit] in
  option_map flat (ser_s cfg_full v) = Some [191; 97; 97; 1; 97; 117; 128; 255] /\
  rt_result w_flat_unit v = Some (Err Message, 8, 8).
Proof. exact flatten_unit_refuted. Qed.

Theorem C17_any_refuted_untagged_char :
  opt_in_opt w_untagged_char = false /\ opaque_under_any w_untagged_char = true /\
  option_map flat (ser_s cfg_full (SChar 97)) = Some [24; 97] /\
  rt_result w_untagged_char (SChar 97) = Some (Err Message, 2, 2).
Proof. exact untagged_char_refuted. Qed.

Theorem C17_any_refuted_internal_char :
  opaque_under_any w_internal_char = true /\
  let v := SStruct 2 [([116], SStr [86]); ([99], SChar 97)] in
  rt_result w_internal_char v = Some (Err Message, 9, 9).
Proof. exact internal_char_refuted. Qed.

Theorem C17_any_refuted_untagged_unit_struct :
  opaque_under_any w_untagged_unit_struct = true /\
  rt_result w_untagged_unit_struct SUnitStruct = Some (Err Message, 1, 1).
Proof. exact untagged_unit_struct_refuted. Qed.

(* the class is delimited exactly: the neighbours outside it read back *)
Theorem C17_any_neighbours_read_back :
  opaque_under_any w_internal_unit_struct = false /\
  (let v := SStruct 2 [([116], SStr [86]); ([107], SUnitStruct)] in rt_result w_internal_unit_struct v = Some (Ok v, 8, 8)) /\
  (let v := SMap (Some 1) [SStr [116]; SStr [85]] in rt_result w_internal_unit_struct v = Some (Ok v, 5, 5)).
Proof. exact internal_unit_struct_reads_back. Qed.

(* the documented exception *)
Theorem C17_opt_in_opt_refuted :
  opt_in_opt (ShOption (ShOption (ShU B8))) = true /\
  conforms (ShOption (ShOption (ShU B8))) (SSome SNone) = true /\
  rt_result (ShOption (ShOption (ShU B8))) (SSome SNone) = Some (Ok SNone, 1, 1).
Proof. exact opt_in_opt_refuted. Qed.

(* the hypotheses are satisfiable by non-trivial instances *)
Example C17_repr_example :
  let v := SStruct 2 [([120], SSeq None [SU B16 300; SNone]); ([121], SNewtypeVariant 1 [66] (SChar 8364))] in
  sval_ok v = true /\
  option_map flat (ser_s cfg_full v) = Some [162; 97; 120; 159; 25; 1; 44; 246; 255; 97; 121; 161; 97; 66; 25; 32; 172].
Proof. vm_compute. auto. Qed.

Example C17_roundtrip_example :
  let sh := ShStruct [([120], ShSeq false (ShOption (ShU B16)));
                      ([121], ShEnum [([65], (KUnit, ShUnit)); ([66], (KNewtype, ShChar));
                                      ([67], (KStruct, ShStruct [([122], ShMap true (ShStr false) (ShTuple [ShBool; ShUnit]))]))])] in
  let v := SStruct 2 [([120], SSeq None [SSome (SU B16 300); SNone]);
                      ([121], SStructVariant 2 [67] 1 [([122], SMap (Some 1) [SStr [107]; STuple 2 [SBool true; SUnit]])])] in
  direct sh = true /\ shape_ok sh = true /\ opt_in_opt sh = false /\ conforms sh v = true /\ ser_s cfg_full v <> None.
Proof. vm_compute. repeat split; discriminate. Qed.

(* any-driven round trips with non-trivial values: the hypotheses of C17_roundtrip_any are satisfiable *)
Example C17_any_internal_example :
  all_hyps ex_internal ex_internal_v = true /\ rt_result ex_internal ex_internal_v = Some (Ok ex_internal_v, 36, 36).
Proof. exact internal_example. Qed.

Example C17_any_untagged_tuple_example :
  let v := STuple 2 [SI B16 (-300); SStr [97; 98]] in
  all_hyps fam_Unt v = true /\ rt_result fam_Unt v = Some (Ok v, 7, 7).
Proof. exact untagged_tuple_example. Qed.

Example C17_any_untagged_seq_example :
  let v := SSeq (Some 2) [SI B16 1; SI B16 (-2)] in
  all_hyps fam_Unt v = true /\ rt_result fam_Unt v = Some (Ok v, 3, 3).
Proof. exact untagged_seq_example. Qed.

Example C17_any_adjacent_example :
  let v1 := SStruct 2 [([116], SUnitVariant 3 [68]); ([99], SStruct 2 [([120], SU B8 200); ([121], SSome (SI B8 (-100)))])] in
  let v2 := SStruct 2 [([116], SUnitVariant 5 [67; 104]); ([99], SChar 8364)] in
  all_hyps fam_Adj v1 = true /\ rt_result fam_Adj v1 = Some (Ok v1, 16, 16) /\
  all_hyps fam_Adj v2 = true /\ rt_result fam_Adj v2 = Some (Ok v2, 11, 11).
Proof. exact adjacent_example. Qed.

Example C17_any_flatten_example :
  all_hyps ex_flat ex_flat_v = true /\ rt_result ex_flat ex_flat_v = Some (Ok ex_flat_v, 23, 23).
Proof. exact flatten_example. Qed.

Example C17_any_flatten_map_example :
  let v := SMap None [SStr [97]; SU B8 1; SStr [111]; SNone; SStr [107]; SI B16 5; SStr [108]; SI B16 (-5)] in
  all_hyps fam_FlM v = true /\ rt_result fam_FlM v = Some (Ok v, 14, 14).
Proof. exact flatten_map_example. Qed.

(* F12 below a flattened node: what is outside the class reads back, what is inside does not *)
Example C17_any_flatten_f12_interaction :
  (let v := SMap None [SStr [97]; SU B8 1; SStr [98]; SUnit; SStr [99]; SChar 97] in
   all_hyps fam_FlU v = true /\ rt_result fam_FlU v = Some (Ok v, 12, 12)) /\
  (let v := SMap None [SStr [97]; SU B8 1; SStr [107]; SUnitStruct] in
   all_hyps fam_FlK v = true /\ rt_result fam_FlK v = Some (Ok v, 8, 8)) /\
  (let v := SMap None [SStr [97]; SU B8 1] in
   all_hyps fam_FlMK v = true /\ rt_result fam_FlMK v = Some (Ok v, 5, 5)) /\
  (let v := SMap None [SStr [97]; SU B8 1; SStr [117]; SUnit] in
   conf_any fam_FlF v = true /\ f12_free fam_FlF v = false /\ rt_result fam_FlF v = Some (Err Message, 8, 8)) /\
  (let v := SMap None [SStr [97]; SU B8 1; SStr [99]; SChar 97] in
   conf_any fam_FlFC v = true /\ f12_free fam_FlFC v = false /\ rt_result fam_FlFC v = Some (Err Message, 9, 9)) /\
  (let v := SMap None [SStr [97]; SU B8 1; SStr [120]; SUnitStruct] in
   conf_any fam_FlMK v = true /\ f12_free fam_FlMK v = false /\ rt_result fam_FlMK v = Some (Err Message, 8, 8)) /\
  (let v := SMap None [SStr [97]; SU B8 1; SStr [120]; SChar 97] in
   conf_any fam_FlMC v = true /\ f12_free fam_FlMC v = false /\ rt_result fam_FlMC v = Some (Err Message, 9, 9)).
Proof. exact flatten_f12_interaction. Qed.

Example C17_f12_witnesses_not_free :
  f12_free w_untagged_unit SUnit = false /\ f12_free w_untagged_char (SChar 97) = false /\
  f12_free w_flat_unit (SMap None [SStr [97]; SU B8 1; SStr [117]; SUnit]) = false /\
  f12_free w_internal_char (SStruct 2 [([116], SStr [86]); ([99], SChar 97)]) = false /\
  f12_free w_untagged_unit_struct SUnitStruct = false /\
  f12_free w_internal_unit_struct (SStruct 2 [([116], SStr [86]); ([107], SUnitStruct)]) = true.
Proof. exact f12_witnesses_not_free. Qed.

Print Assumptions C17_repr.
Print Assumptions C17_wf.
Print Assumptions C17_total.
Print Assumptions C17_roundtrip_partial.
Print Assumptions C17_roundtrip_auto_partial.
Print Assumptions C17_any_refuted_untagged_unit.
Print Assumptions C17_roundtrip_any.
Print Assumptions C17_roundtrip_any_auto.
Print Assumptions C17_content_buffer.
Print Assumptions C17_content_reread.
Print Assumptions C17_family_side_conditions.
