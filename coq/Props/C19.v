(* Props/C19.v — pinned statements for property C19 (diagnostic display is total, size-bounded and
   follows the documented notation). *)
From MC Require Import Bytes Monad Cbor Utf8 Half Decoder Text Token Tokenizer Diag Toks TokenFacts DisplayFacts RenderFacts.
Local Open Scope N_scope.

(* For arbitrary bytes (any slice is shorter than 2^64), minicbor::display written into a sink that
   accepts everything finishes within fuel_lin bs = 8*|bs| + 8 iterations of its loops: it never runs
   out of that fuel and never panics. *)
Theorem C19_total : forall c bs, len bs < two64 -> exists out, display c bs = DDone out.
Proof. exact display_total. Qed.

(* The output is at most A*|bs| + B bytes long with A = fl + 26 and B = el + 42, where fl bounds the
   length of one float text ({:e} is an external function; 32 suffices for f32/f64) and el bounds the
   length of one decode::Error text (128 suffices).  With fl = 32, el = 128: 58*|bs| + 170. *)
Theorem C19_bound : forall fl el c bs, len bs < two64 -> bytes_ok bs = true ->
  exists out, display c bs = DDone out /\ (plen fl el out <= (fl + 26) * length bs + (el + 42))%nat.
Proof. exact display_bound. Qed.

(* For every well-formed data item e (any head widths, any nesting, indefinite containers, chunked
   strings) whose text chunks are valid UTF-8, display of its serialisation writes exactly the
   documented notation, Spec/Diag.v render e — piece for piece — where a half-precision float is
   written as the scientific notation of the single-precision float of the same value (widen16: Rust
   holds a decoded f16 as f32 and formats that). *)
Theorem C19_render : forall c e, wf e = true -> utf8_ok e = true -> len (ser e) < two64 ->
  display c (ser e) = DDone (map widen16 (render e)).
Proof. exact display_render. Qed.

(* the hypotheses are satisfiable by a non-trivial instance, and the statement is not vacuous *)
Example C19_render_example :
  let e := EMapI [EText W1 [97]; EArray W0 [ENInt W0 0; EBytesI [(W0, [1]); (W0, [2; 255])]; ETag W1 1 (EF16 15360)]] in
  wf e && utf8_ok e = true
  /\ flat_pieces (map widen16 (render e))
     = map SByte [123;95;32;34;97;34;58;32;91;45;49;44;32;40;95;32;104;39;48;49;39;44;32;104;39;48;50;32;102;102;39;41;44;32;49;40]
       ++ [SFloat 32 1065353216] ++ map SByte [41;93;125].           (* {_ "a": [-1, (_ h'01', h'02 ff'), 1(<1e0>)]} *)
Proof. vm_compute. auto. Qed.

(* F11's input (a 5-byte header declaring 100000 elements) now renders as "[", within the bound *)
Example C19_bound_example :
  bytes_ok [154;0;1;134;160] = true /\ display cfg_full [154;0;1;134;160] = DDone [PLit [91]]
  /\ display cfg_full [155;255;255;255;255;255;255;255;255;1] = DDone [PLit [91]; PLit [49]; PLit [44;32]].
Proof. vm_compute. auto. Qed.

Print Assumptions C19_total.
Print Assumptions C19_bound.
Print Assumptions C19_render.
