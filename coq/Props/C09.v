(* Props/C09.v — pinned statements for property C09 (derived Encode/Decode round-trip). *)
From MC Require Import Bytes Monad Cbor Decoder Encoder Types TypeSem DeriveSchema DeriveEnc DeriveDec DeriveKnown DeriveFacts DeriveDecFacts DeriveClosed
  DeriveReframe DeriveReframeFacts.
Local Open Scope N_scope.

(* For every schema the macros accept whose Option payloads are not themselves nullable (schema_rt: no
   Option<transparent newtype>, the derived analogue of C01's ty_rt), every definition d and every value v the
   derived encoder accepts: decoding the derived encoding followed by any suffix yields the value with skipped
   fields defaulted and stops exactly at the end of the encoding; in every feature configuration c.
   Hypotheses: (1) every built-in leaf type of the schema (okty) encodes to at least one byte and its decoder
   reads its own encoding back from any position, with any suffix, given fuel above the remaining input length
   (C01_roundtrip, to be discharged at merge time); (2) the input is shorter than 2^64 bytes. *)
Theorem C09_roundtrip_gen : forall (c : cfg) (okty : ty -> Prop),
  (forall t, okty t -> forall v cs, encode_ty t v = Some cs -> flat cs <> [] /\ reads_f (decode_ty c t) (flat cs) v) ->
  forall Sc d v cs rest, schema_ok Sc = true -> schema_all okty Sc -> schema_rt Sc = true ->
  gen_encode Sc d v = Some cs -> len (flat cs ++ rest) < two64 ->
  gen_decode c Sc d (start (flat cs ++ rest)) =
    (Ok (default_skipped Sc d v), mkdst (len (flat cs)) rest (len (flat cs ++ rest))).
Proof. exact gen_roundtrip. Qed.

(* The same with hypothesis (1) discharged by C01_roundtrip / C03_types. *)
Theorem C09_roundtrip : forall Sc, schema_ok Sc = true -> schema_all leaf_ok Sc ->
  forall c d v cs rest, schema_rt Sc = true -> gen_encode Sc d v = Some cs -> len (flat cs ++ rest) < two64 ->
  gen_decode c Sc d (start (flat cs ++ rest)) =
    (Ok (default_skipped Sc d v), mkdst (len (flat cs)) rest (len (flat cs ++ rest))).
Proof. exact gen_roundtrip_closed. Qed.

(* C09 on RE-FRAMED input ("whether the input container is definite or indefinite").  `reframe Sc d v bs`
   (Model/DeriveReframe.v): bs is the derived encoding of v with the framing of the derive layer chosen freely —
   every body array / map of a struct or variant (the empty body of a unit variant included) definite with a head
   of any width that holds its length, or indefinite (9f / bf … ff), at every nesting level (also below Option and
   Vec fields); the u32 keys of map encoding, the variant index, the tags at the four levels and the head of the
   enum's 2-element array in any width that holds the argument; the leaves (built-in types, minicbor::bytes,
   codecs), the gap / Option nulls and Vec headers as the encoder writes them.  NOT free: the enum's 2-element array
   stays definite, because the generated decoder demands `Some(2)` from `array()` (decode.rs:217) and refuses
   `9f index body ff` — class `enum_pair_indefinite`, example below.
   Same hypotheses as C09_roundtrip; the encoder's own bytes are the re-framing of the empty choice list
   (C09_reframe_canonical_example), so this generalises C09_roundtrip. *)
Theorem C09_roundtrip_reframed : forall Sc, schema_ok Sc = true -> schema_all leaf_ok Sc ->
  forall c d v cs bs rest, schema_rt Sc = true -> gen_encode Sc d v = Some cs -> reframe Sc d v bs -> len (bs ++ rest) < two64 ->
  gen_decode c Sc d (start (bs ++ rest)) =
    (Ok (default_skipped Sc d v), mkdst (len bs) rest (len (bs ++ rest))).
Proof. exact reframe_roundtrip_closed. Qed.

(* the encoder's own bytes are the re-framing the empty choice list selects: C09_roundtrip is the instance
   bs = flat cs of C09_roundtrip_reframed, and `reframe` is anchored at the derived encoding (by C08_format the
   preferred serialisation of the documented tree): it varies framing only *)
Theorem C09_reframe_canonical : forall Sc d v cs, schema_ok Sc = true -> gen_encode Sc d v = Some cs ->
  reframe_with [] Sc d v = Some (flat cs) /\ reframe Sc d v (flat cs).
Proof. exact reframe_canonical. Qed.

(* the same with the leaves abstract: any way `leaf` of writing the built-in leaf types that their decoders read
   back (from any position, any suffix) and whose first byte datatype() does not take for a break *)
Theorem C09_roundtrip_reframed_gen : forall (c : cfg) (okty : ty -> Prop) (leaf : ty -> value -> RF bytes),
  (forall t, okty t -> forall v ch b ch', leaf t v ch = Some (b, ch') -> b <> [] /\ nobrk b /\ reads_f (decode_ty c t) b v) ->
  forall Sc d v ch bs ch' rest, schema_ok Sc = true -> schema_all okty Sc -> schema_rt Sc = true ->
  gen_reframe_f leaf (S d) Sc d v ch = Some (bs, ch') -> len (bs ++ rest) < two64 ->
  gen_decode c Sc d (start (bs ++ rest)) =
    (Ok (default_skipped Sc d v), mkdst (len bs) rest (len (bs ++ rest))).
Proof. exact gen_reframe_roundtrip. Qed.

(* ... and with the LEAVES re-framed too.  `reframe_leaves alloc Sc d v bs` (Model/DeriveReframe.v): bs is built like a
   re-framing (same freedom of the derive layer) but every leaf of built-in type t with value v is either what the encoder writes
   or ANY well-formed item e with `spec_ty_lenient_at alloc t e = TXOk v (len (ser e))` — the specification of the built-in
   types of property C04 (Spec/TypeSem.v, open records): any head widths, indefinite / chunked strings, indefinite arrays and
   maps, surplus record elements … (C04_types_lenient does the reading; with alloc the encoder's own leaf is such an item,
   C09_leaf_as_written_is_item, from C04_types_roundtrip_consistent).  alloc = c_alloc c is the one feature the specification
   depends on.  No side condition about break bytes is needed: the first byte of a well-formed item is never 0xff
   (C04_datatype: datatype() reports spec_type e, which is not Break).  Contains `reframe` (C09_reframe_in_leaves), so this
   subsumes C09_roundtrip_reframed; the value need not be accepted by the derived *encoder* (no gen_encode hypothesis). *)
Theorem C09_roundtrip_reframed_leaves : forall Sc, schema_ok Sc = true -> schema_all leaf_ok Sc ->
  forall c d v bs rest, schema_rt Sc = true -> reframe_leaves (c_alloc c) Sc d v bs -> len (bs ++ rest) < two64 ->
  gen_decode c Sc d (start (bs ++ rest)) =
    (Ok (default_skipped Sc d v), mkdst (len bs) rest (len (bs ++ rest))).
Proof. exact reframe_leaves_roundtrip. Qed.

Theorem C09_reframe_in_leaves : forall alloc Sc d v bs, reframe Sc d v bs -> reframe_leaves alloc Sc d v bs.
Proof. exact reframe_in_leaves. Qed.

Theorem C09_leaf_as_written_is_item : forall t v cs, leaf_ok t -> encode_ty t v = Some cs -> len (flat cs) < two64 ->
  exists e, flat cs = ser e /\ wf e = true /\ spec_ty_lenient_at true t e = TXOk v (len (ser e)).
Proof. exact rf_leaf_enc_is_item. Qed.

(* a nested instance: struct (tag 1, array encoding, a skipped field, indices 0 / 2 / 4 — gaps at 1 and 3) whose field 2
   is an optional, tagged enum (tag 300) in a variant with a map-encoded body (variant tag 5, keys 1 and 3, the latter
   tagged and optional) and whose field 4 is a Vec of that enum (a unit variant and the map variant with its optional
   field absent).  Every body container indefinite, several heads wide (2-, 4- and 8-byte arguments). *)
Definition C09_rf_schema : schema :=
  [ DEnum (Some AsMap) (Some 300) false
      [ mkvariant 0 None None DsUnit [];
        mkvariant 7 None (Some 5) DsNamed
          [ mkfield 1 false None CoDefault false false (FTy (TyU B16));
            mkfield 3 false (Some 9) CoDefault true false (FTy (TyOpt TyBool)) ] ];
    DStruct None (Some 1) false DsNamed
      [ mkfield 0 false None CoDefault false false (FTy (TyU B8));
        mkfield 0 false None CoDefault false true (FTy TyBool);
        mkfield 2 false (Some 70000) CoDefault true false (FOpt (FRef 0));
        mkfield 4 false None CoDefault false false (FSeq (FRef 0)) ] ].
Definition C09_rf_value : value :=
  VList [VNat 5; VBool true; VSome (VVar 7 (VList [VNat 1000; VSome (VBool true)]));
         VList [VVar 0 (VList []); VVar 7 (VList [VNat 1; VNone])]].
Definition C09_rf_choices : list N := [2; 5; 4; 0; 1; 3; 1; 5; 2; 0; 4;  3; 0; 0; 5;  0; 2; 1; 0; 5; 4].
Definition C09_rf_bytes : bytes :=
  [217; 0; 1; 159; 5; 246; 219; 0; 0; 0; 0; 0; 1; 17; 112; 217; 1; 44; 152; 2; 26; 0; 0; 0; 7; 216; 5; 191; 25; 0; 1; 25; 3; 232;
   3; 219; 0; 0; 0; 0; 0; 0; 0; 9; 245; 255; 246; 130; 218; 0; 0; 1; 44; 130; 0; 191; 255; 217; 1; 44; 153; 0; 2; 24; 7;
   197; 191; 27; 0; 0; 0; 0; 0; 0; 0; 1; 1; 255; 255].

Example C09_roundtrip_reframed_example :
  schema_ok C09_rf_schema = true /\ schema_rt C09_rf_schema = true /\ schema_all leaf_ok C09_rf_schema /\
  option_map flat (gen_encode C09_rf_schema 1 C09_rf_value) =
    Some [193; 133; 5; 246; 218; 0; 1; 17; 112; 217; 1; 44; 130; 7; 197; 162; 1; 25; 3; 232; 3; 201; 245; 246; 130;
          217; 1; 44; 130; 0; 160; 217; 1; 44; 130; 7; 197; 161; 1; 1] /\
  reframe_with C09_rf_choices C09_rf_schema 1 C09_rf_value = Some C09_rf_bytes /\
  reframe C09_rf_schema 1 C09_rf_value C09_rf_bytes /\
  gen_decode cfg_full C09_rf_schema 1 (start (C09_rf_bytes ++ [255; 0])) =
    (Ok (VList [VNat 5; VBool false; VSome (VVar 7 (VList [VNat 1000; VSome (VBool true)]));
                VList [VVar 0 (VList []); VVar 7 (VList [VNat 1; VNone])]]), mkdst 79 [255; 0] 81).
Proof.
  split; [vm_compute; reflexivity|]. split; [vm_compute; reflexivity|].
  split; [repeat (constructor || split); reflexivity|].
  split; [vm_compute; reflexivity|]. split; [vm_compute; reflexivity|].
  split; [exists C09_rf_choices; vm_compute; reflexivity|vm_compute; reflexivity].
Qed.

(* the same value with the unsigned integer leaves re-framed as well (rf_leaf_wide: 5 as 1a 00000005, 1000 as 1b …03e8, 1 as 19 0001),
   read without feature alloc *)
Definition C09_rf_choices_leaves : list N := [2; 5; 3; 4; 0; 1; 3; 1; 5; 2; 4; 0; 4;  3; 0; 0; 5;  0; 2; 1; 0; 5; 4; 2].
Definition C09_rf_bytes_leaves : bytes :=
  [217; 0; 1; 159; 26; 0; 0; 0; 5; 246; 219; 0; 0; 0; 0; 0; 1; 17; 112; 217; 1; 44; 152; 2; 26; 0; 0; 0; 7; 216; 5; 191; 25; 0; 1;
   27; 0; 0; 0; 0; 0; 0; 3; 232; 3; 219; 0; 0; 0; 0; 0; 0; 0; 9; 245; 255; 246; 130; 218; 0; 0; 1; 44; 130; 0; 191; 255; 217; 1; 44;
   153; 0; 2; 24; 7; 197; 191; 27; 0; 0; 0; 0; 0; 0; 0; 1; 25; 0; 1; 255; 255].

Example C09_roundtrip_reframed_leaves_example :
  reframe_leaves false C09_rf_schema 1 C09_rf_value C09_rf_bytes_leaves /\
  gen_decode (mkcfg false true true) C09_rf_schema 1 (start (C09_rf_bytes_leaves ++ [7])) =
    (Ok (VList [VNat 5; VBool false; VSome (VVar 7 (VList [VNat 1000; VSome (VBool true)]));
                VList [VVar 0 (VList []); VVar 7 (VList [VNat 1; VNone])]]), mkdst 91 [7] 92).
Proof.
  split; [|vm_compute; reflexivity].
  exists rf_leaf_wide, C09_rf_choices_leaves, []. split; [apply rf_leaf_wide_writer|vm_compute; reflexivity].
Qed.

(* the encoder's own bytes are the re-framing the empty choice list selects (on this instance) *)
Example C09_reframe_canonical_example :
  reframe_with [] C09_rf_schema 1 C09_rf_value = option_map flat (gen_encode C09_rf_schema 1 C09_rf_value).
Proof. vm_compute. reflexivity. Qed.

(* class enum_pair_indefinite: the [index, body] array of an enum in indefinite form is refused ("expected enum
   (2-element array)"), the same item with a definite array of any head width is read *)
Example C09_enum_indefinite_pair_rejected :
  gen_decode cfg_full C09_rf_schema 0 (start [217; 1; 44; 159; 0; 160; 255]) = (Err Message, mkdst 4 [0; 160; 255] 7) /\
  gen_decode cfg_full C09_rf_schema 0 (start [217; 1; 44; 130; 0; 160]) = (Ok (VVar 0 (VList [])), mkdst 6 [] 6) /\
  gen_decode cfg_full C09_rf_schema 0 (start [217; 1; 44; 153; 0; 2; 0; 191; 255]) = (Ok (VVar 0 (VList [])), mkdst 9 [] 9).
Proof. vm_compute. repeat split. Qed.

(* C09_errors — a wrong or missing tag, a missing mandatory field and an unknown variant are errors of the
   documented classes, at the documented positions; never a default. *)

(* a definition that carries a tag t, given an item tagged t' <> t: TagMismatch t', right after the tag *)
Theorem C09_errors_wrong_tag : forall c rec df t t' fuel r p L,
  def_tag df = Some t -> def_ntr df = true -> t' < two64 -> t' <> t -> p + len (flat (enc_tag t')) <= L ->
  dec_def c rec df fuel (mkdst p (flat (enc_tag t') ++ r) L) = (Err (TagMismatch t'), mkdst (p + len (flat (enc_tag t'))) r L).
Proof. exact dec_def_wrong_tag. Qed.

(* … given an untagged array (mt = 4) or map (mt = 5) instead: a type mismatch naming what was found *)
Theorem C09_errors_missing_tag : forall c rec df t mt n fuel r p L,
  def_tag df = Some t -> def_ntr df = true -> mt = 4 \/ mt = 5 -> n < two64 ->
  dec_def c rec df fuel (mkdst p (Cbor.head mt (min_width n) n ++ r) L) =
    (Err (TypeMismatch (if mt =? 4 then TArray else TMap)), mkdst (p + 1) (DecoderFacts.args (min_width n) n ++ r) L).
Proof. exact dec_def_missing_tag. Qed.

(* an index that is not a variant of the enum, decoded directly: UnknownVariant n, right after the index *)
Theorem C09_errors_unknown_variant : forall c rec e tag (io : bool) vars n fuel r p L,
  tag_ok tag = true -> n < 4294967296 -> find_variant vars n = None ->
  let pre := enc_tag_opt tag ++ (if io then (nil : list chunk) else enc_array 2) ++ enc_u32 n in
  p + len (flat pre) <= L ->
  dec_def c rec (DEnum e tag io vars) fuel (mkdst p (flat pre ++ r) L) = (Err (UnknownVariant n), mkdst (p + len (flat pre)) r L).
Proof. exact dec_def_unknown_variant. Qed.

(* a mandatory field (no Option syntax, no nil()) whose slot stayed empty — here: an empty array / map given to
   the body — is MissingValue of a field index, never a default value *)
Theorem C09_errors_missing_value : forall c rec e sh fs fuel r p L pf,
  In pf (sorted_fields fs) -> f_synopt (pf_fld pf) = false -> nil_of (pf_fld pf) = None ->
  exists i, dec_body c rec e sh fs fuel (mkdst p ((match e with AsArray => 128 | AsMap => 160 end) :: r) L)
            = (Err (MissingValue i), mkdst (p + 1) r L).
Proof. exact empty_container_missing. Qed.

(* … and whenever slots stay unresolved the error names the first of them in evaluation order *)
Theorem C09_errors_missing_first : forall (named : bool) fs sf sl s i,
  first_missing_slot (if named then combine sf sl else sort_by by_pos (combine sf sl)) = Some i ->
  resolve named fs sf sl s = (Err (MissingValue i), s).
Proof. exact resolve_missing. Qed.

(* the hypotheses of C09_roundtrip are satisfiable: a map-encoded struct with a tagged optional, a skipped and a
   mandatory field, in declaration order 2, skip, 0 *)
Example C09_roundtrip_example :
  let Sc := [DStruct (Some AsMap) (Some 9) false DsNamed
               [mkfield 2 false (Some 7) CoDefault true false (FTy (TyOpt (TyU B8)));
                mkfield 0 false None CoDefault false true (FTy TyBool);
                mkfield 0 false None CoDefault false false (FTy (TyU B16))]] in
  let v := VList [VNone; VBool true; VNat 300] in
  schema_ok Sc = true /\ schema_rt Sc = true /\
  option_map flat (gen_encode Sc 0 v) = Some [201; 161; 0; 25; 1; 44] /\
  gen_decode cfg_full Sc 0 (start [201; 161; 0; 25; 1; 44; 255]) = (Ok (VList [VNone; VBool false; VNat 300]), mkdst 6 [255] 7).
Proof. vm_compute. repeat split. Qed.

Print Assumptions C09_roundtrip_gen.
Print Assumptions C09_roundtrip.
Print Assumptions C09_roundtrip_reframed.
Print Assumptions C09_roundtrip_reframed_gen.
Print Assumptions C09_reframe_canonical.
Print Assumptions C09_roundtrip_reframed_leaves.
Print Assumptions C09_reframe_in_leaves.
Print Assumptions C09_leaf_as_written_is_item.
Print Assumptions C09_errors_wrong_tag.
Print Assumptions C09_errors_missing_tag.
Print Assumptions C09_errors_unknown_variant.
Print Assumptions C09_errors_missing_value.
Print Assumptions C09_errors_missing_first.
