(* Props/C09.v — pinned statements for property C09 (derived Encode/Decode round-trip). *)
From MC Require Import Bytes Monad Cbor Decoder Encoder Types DeriveSchema DeriveEnc DeriveDec DeriveKnown DeriveFacts DeriveDecFacts DeriveClosed.
Local Open Scope N_scope.

(* For every schema the macros accept whose Option payloads are not themselves nullable (schema_rt: no
   Option<transparent newtype>, the derived analogue of C01's ty_rt), every definition d and every value v the
   derived encoder accepts: decoding the derived encoding followed by any suffix yields the value with skipped
   fields defaulted and stops exactly at the end of the encoding; in every feature configuration c.
   Hypotheses: (1) every built-in leaf type of the schema (okty) encodes to at least one byte and its decoder
   reads its own encoding back from any position, with any suffix, given fuel above the remaining input length
   (C01_roundtrip, to be discharged at merge time); (2) the input is shorter than 2^64 bytes. *)
Theorem C09_roundtrip_gen : forall (c : cfg) (okty : ty -> Prop),
  (forall t, okty t -> forall v cs, encode_ty t v = Some cs -> flat cs <> [] /\ reads_f (decode_ty c t) (flat cs) v) ->
  forall Sc d v cs rest, schema_ok Sc = true -> schema_all okty Sc -> schema_rt Sc = true ->
  gen_encode Sc d v = Some cs -> len (flat cs ++ rest) < two64 ->
  gen_decode c Sc d (start (flat cs ++ rest)) =
    (Ok (default_skipped Sc d v), mkdst (len (flat cs)) rest (len (flat cs ++ rest))).
Proof. exact gen_roundtrip. Qed.

(* The same with hypothesis (1) discharged by C01_roundtrip / C03_types. *)
Theorem C09_roundtrip : forall Sc, schema_ok Sc = true -> schema_all leaf_ok Sc ->
  forall c d v cs rest, schema_rt Sc = true -> gen_encode Sc d v = Some cs -> len (flat cs ++ rest) < two64 ->
  gen_decode c Sc d (start (flat cs ++ rest)) =
    (Ok (default_skipped Sc d v), mkdst (len (flat cs)) rest (len (flat cs ++ rest))).
Proof. exact gen_roundtrip_closed. Qed.

(* C09_errors — a wrong or missing tag, a missing mandatory field and an unknown variant are errors of the
   documented classes, at the documented positions; never a default. *)

(* a definition that carries a tag t, given an item tagged t' <> t: TagMismatch t', right after the tag *)
Theorem C09_errors_wrong_tag : forall c rec df t t' fuel r p L,
  def_tag df = Some t -> def_ntr df = true -> t' < two64 -> t' <> t -> p + len (flat (enc_tag t')) <= L ->
  dec_def c rec df fuel (mkdst p (flat (enc_tag t') ++ r) L) = (Err (TagMismatch t'), mkdst (p + len (flat (enc_tag t'))) r L).
Proof. exact dec_def_wrong_tag. Qed.

(* … given an untagged array (mt = 4) or map (mt = 5) instead: a type mismatch naming what was found *)
Theorem C09_errors_missing_tag : forall c rec df t mt n fuel r p L,
  def_tag df = Some t -> def_ntr df = true -> mt = 4 \/ mt = 5 -> n < two64 ->
  dec_def c rec df fuel (mkdst p (Cbor.head mt (min_width n) n ++ r) L) =
    (Err (TypeMismatch (if mt =? 4 then TArray else TMap)), mkdst (p + 1) (DecoderFacts.args (min_width n) n ++ r) L).
Proof. exact dec_def_missing_tag. Qed.

(* an index that is not a variant of the enum, decoded directly: UnknownVariant n, right after the index *)
Theorem C09_errors_unknown_variant : forall c rec e tag (io : bool) vars n fuel r p L,
  tag_ok tag = true -> n < 4294967296 -> find_variant vars n = None ->
  let pre := enc_tag_opt tag ++ (if io then (nil : list chunk) else enc_array 2) ++ enc_u32 n in
  p + len (flat pre) <= L ->
  dec_def c rec (DEnum e tag io vars) fuel (mkdst p (flat pre ++ r) L) = (Err (UnknownVariant n), mkdst (p + len (flat pre)) r L).
Proof. exact dec_def_unknown_variant. Qed.

(* a mandatory field (no Option syntax, no nil()) whose slot stayed empty — here: an empty array / map given to
   the body — is MissingValue of a field index, never a default value *)
Theorem C09_errors_missing_value : forall c rec e sh fs fuel r p L pf,
  In pf (sorted_fields fs) -> f_synopt (pf_fld pf) = false -> nil_of (pf_fld pf) = None ->
  exists i, dec_body c rec e sh fs fuel (mkdst p ((match e with AsArray => 128 | AsMap => 160 end) :: r) L)
            = (Err (MissingValue i), mkdst (p + 1) r L).
Proof. exact empty_container_missing. Qed.

(* … and whenever slots stay unresolved the error names the first of them in evaluation order *)
Theorem C09_errors_missing_first : forall (named : bool) fs sf sl s i,
  first_missing_slot (if named then combine sf sl else sort_by by_pos (combine sf sl)) = Some i ->
  resolve named fs sf sl s = (Err (MissingValue i), s).
Proof. exact resolve_missing. Qed.

(* the hypotheses of C09_roundtrip are satisfiable: a map-encoded struct with a tagged optional, a skipped and a
   mandatory field, in declaration order 2, skip, 0 *)
Example C09_roundtrip_example :
  let Sc := [DStruct (Some AsMap) (Some 9) false DsNamed
               [mkfield 2 false (Some 7) CoDefault true false (FTy (TyOpt (TyU B8)));
                mkfield 0 false None CoDefault false true (FTy TyBool);
                mkfield 0 false None CoDefault false false (FTy (TyU B16))]] in
  let v := VList [VNone; VBool true; VNat 300] in
  schema_ok Sc = true /\ schema_rt Sc = true /\
  option_map flat (gen_encode Sc 0 v) = Some [201; 161; 0; 25; 1; 44] /\
  gen_decode cfg_full Sc 0 (start [201; 161; 0; 25; 1; 44; 255]) = (Ok (VList [VNone; VBool false; VNat 300]), mkdst 6 [255] 7).
Proof. vm_compute. repeat split. Qed.

Print Assumptions C09_roundtrip_gen.
Print Assumptions C09_roundtrip.
Print Assumptions C09_errors_wrong_tag.
Print Assumptions C09_errors_missing_tag.
Print Assumptions C09_errors_unknown_variant.
Print Assumptions C09_errors_missing_value.
Print Assumptions C09_errors_missing_first.
