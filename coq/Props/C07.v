(* Props/C07.v — pinned statements for property C07 (CborLen is exact).
   Built-in impls: names starting C07_types (this slice).  Token and derived-type theorems are added by
   other slices. *)
From MC Require Import Bytes Monad Cbor Decoder Encoder Types TypesEnc TypesLen TypesFacts.
Local Open Scope N_scope.

(* For every well-formed descriptor t and every value v the encoder accepts, the computed length is
   the number of bytes written. *)
Theorem C07_types : forall t v cs,
  ty_ok t = true -> encode_ty t v = Some cs -> len_ty t v = len (flat cs).
Proof. exact len_ty_is_exact. Qed.

Example C07_types_example :
  ty_ok rt_example_ty = true /\
  match encode_ty rt_example_ty rt_example_val with
  | Some cs => len_ty rt_example_ty rt_example_val = len (flat cs) /\ (50 <? len (flat cs)) = true
  | None => False
  end.
Proof. vm_compute. auto. Qed.

Print Assumptions C07_types.
