(* Props/C07.v — pinned statements for property C07 (CborLen is exact).
   Built-in impls: names starting C07_types (this slice).  Token and derived-type theorems are added by
   other slices. *)
From MC Require Import Bytes Monad Cbor Decoder Encoder Types TypesEnc TypesLen TypesFacts Sink LenBuffer Iana IanaFacts.
Local Open Scope N_scope.

(* For every well-formed descriptor t and every value v the encoder accepts, the computed length is
   the number of bytes written. *)
Theorem C07_types : forall t v cs,
  ty_ok t = true -> encode_ty t v = Some cs -> len_ty t v = len (flat cs).
Proof. exact len_ty_is_exact. Qed.

(* Consequently, for every bounded sink kind (byte slice, the three cursors): a sink of exactly len_ty t v
   bytes accepts the whole encoding, and any smaller sink refuses it (run_sink: Model/Sink.v, C13). *)
Theorem C07_buffer : forall k t v cs, bounded k = true -> ty_ok t = true -> encode_ty t v = Some cs ->
  fst (run_sink (sink_new k (len_ty t v)) cs) = true
  /\ s_written (snd (run_sink (sink_new k (len_ty t v)) cs)) = flat cs
  /\ (forall cap, cap < len_ty t v -> fst (run_sink (sink_new k cap) cs) = false).
Proof. exact len_buffer. Qed.

(* CborLen for IanaTag (encode.rs:430) *)
Theorem C07_iana : forall t, len_iana t = len (flat (enc_iana t)).
Proof. exact iana_len_exact. Qed.

Example C07_types_example :
  ty_ok rt_example_ty = true /\
  match encode_ty rt_example_ty rt_example_val with
  | Some cs => len_ty rt_example_ty rt_example_val = len (flat cs) /\ (50 <? len (flat cs)) = true
  | None => False
  end.
Proof. vm_compute. auto. Qed.

Print Assumptions C07_types.
Print Assumptions C07_buffer.
Print Assumptions C07_iana.
