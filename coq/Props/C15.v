(* Props/C15.v — pinned statements for property C15 (AsyncReader is cancellation-safe).
   Nothing but statements closed by `exact`; proofs live in Proofs/AsyncIoFacts.v.
   Vocabulary (Model/AsyncIo.v): a source is the bytes it holds plus a script with one outcome per inner
   poll_read (AData k: up to k bytes, APend: Pending, AErr: an error; after the script: everything asked for);
   atok_ok excludes AData 0; a caller script says after every Pending whether the same future is polled again
   (CPoll, the default) or dropped and read() called again (CDrop).  ar_stream keeps calling read until
   Ok(None) or an error other than a decode / inner error and lists every result; transient o holds for the
   inner error; state_bytes r = the bytes of the frame in progress held in self.state / self.buffer;
   ar_wf r = the representation invariant; fut_ok f r = future f was suspended in reader state r (or is fresh). *)
From MC Require Import Bytes Monad Decoder Types TypesEnc TypesFacts FrameIo FrameIoFacts AsyncIo AsyncIoFacts FrameIoTypes.
Local Open Scope N_scope.

(* Every list of payloads, every source script, every caller script: the values returned are exactly the
   payloads in order and then a clean end, whatever was dropped; every injected inner error is reported
   exactly once (errors reported + errors still in the script = errors injected). *)
Theorem C15_safe : forall (V : Type) (dec : bytes -> option V) max ps sched calls c,
  Forall (fits max) ps -> Forall (fun p => bytes_ok p = true) ps -> Forall atok_ok sched ->
  exists os r' s',
    ar_stream V dec calls (areader_new max) (mkasrc (stream_of ps) sched c) = (os, r', s') /\
    filter (fun o => negb (transient V o)) os = map (decode_outcome V dec) ps ++ [OEnd] /\
    (length (filter (transient V) os) + nerr (a_sched s') = nerr sched)%nat.
Proof. exact aio_safe. Qed.

(* The general form: from every reader state satisfying the invariant, on every byte stream, the results
   are those the wire-format specification assigns to (bytes held in the state ++ bytes still in the source). *)
Theorem C15_spec : forall (V : Type) (dec : bytes -> option V) calls r s,
  ar_wf r -> aok s -> bytes_ok (state_bytes r ++ a_data s) = true ->
  exists os r' s',
    ar_stream V dec calls r s = (os, r', s') /\
    filter (fun o => negb (transient V o)) os
      = map (outcome_of_sitem V dec) (spec_stream (ar_max r) (state_bytes r ++ a_data s)) /\
    (length (filter (transient V) os) + nerr (a_sched s') = nerr (a_sched s))%nat.
Proof. exact aio_spec. Qed.

(* One poll, fresh or resumed, in any state (the accounting invariant): a Pending or an inner error leaves
   state_bytes ++ source bytes unchanged — every byte taken from the source is in self; any other result is
   the one the specification assigns, and after a frame what is left is the rest of the stream. *)
Theorem C15_poll : forall (V : Type) (dec : bytes -> option V) f r s,
  ar_wf r -> aok s -> bytes_ok (state_bytes r ++ a_data s) = true -> fut_ok f r ->
  exists res r' s', ar_poll V dec (asrc_fuel s) f r s = (res, r', s') /\ poll_post V dec r s res r' s'.
Proof. exact ar_poll_spec. Qed.

(* Dropping is safe because a suspended future carries nothing: polling it equals polling a fresh one. *)
Theorem C15_resume_eq : forall (V : Type) (dec : bytes -> option V) fuel f r s,
  fut_ok f r -> ar_poll V dec fuel f r s = ar_poll V dec fuel FStart r s.
Proof. exact resume_eq. Qed.

(* One call of read under any caller script (polls and drops): same post-condition as a single poll that
   completed — in particular an inner error leaves state_bytes ++ source bytes unchanged, so the next call
   resumes where this one stopped. *)
Theorem C15_call : forall (V : Type) (dec : bytes -> option V) fuel calls f r s,
  ar_wf r -> aok s -> bytes_ok (state_bytes r ++ a_data s) = true -> fut_ok f r ->
  (length (a_sched s) < fuel)%nat ->
  exists o calls' r' s', ar_read V dec fuel calls f r s = (o, calls', r', s') /\ poll_post V dec r s (Ready o) r' s'.
Proof. exact ar_read_spec. Qed.

(* End of stream strictly inside a frame: UnexpectedEof after the complete frames, never a value. *)
Theorem C15_trunc : forall (V : Type) (dec : bytes -> option V) max ps p k sched calls c,
  Forall (fits max) ps -> fits max p -> (0 < k < length (frame_of p))%nat ->
  Forall (fun p => bytes_ok p = true) (p :: ps) -> Forall atok_ok sched ->
  exists os r' s',
    ar_stream V dec calls (areader_new max) (mkasrc (stream_of ps ++ firstn k (frame_of p)) sched c) = (os, r', s') /\
    filter (fun o => negb (transient V o)) os = map (decode_outcome V dec) ps ++ [OErr IoUnexpectedEof].
Proof. exact aio_truncated. Qed.

(* A declared length above max_len: InvalidLen (the buffer is not resized: ar_wf keeps |buffer| <= max_len). *)
Theorem C15_invalid_len : forall (V : Type) (dec : bytes -> option V) max ps p rest sched calls c,
  Forall (fits max) ps -> max < len p -> len p < 4294967296 ->
  Forall (fun p => bytes_ok p = true) (p :: ps) -> bytes_ok rest = true -> Forall atok_ok sched ->
  exists os r' s',
    ar_stream V dec calls (areader_new max) (mkasrc (stream_of ps ++ frame_of p ++ rest) sched c) = (os, r', s') /\
    filter (fun o => negb (transient V o)) os = map (decode_outcome V dec) ps ++ [OErr IoInvalidLen].
Proof. exact aio_too_long. Qed.

(* For every source script and every caller script, without any hypothesis: max_len is never changed,
   Vec::resize is only ever reached with an argument <= max_len (ar_peak) and the buffer never grows beyond
   max(|initial buffer|, max_len) — the check precedes the resize. *)
Theorem C15_alloc : forall (V : Type) (dec : bytes -> option V) fuel calls r s os r' s',
  ar_run V dec fuel calls r s = (os, r', s') ->
  ar_max r' = ar_max r /\ ar_peak r' <= N.max (ar_peak r) (ar_max r) /\
  len (ar_buf r') <= N.max (len (ar_buf r)) (ar_max r).
Proof. exact ar_run_alloc. Qed.

(* Under the hypotheses of C15_spec the model never panics (the `as u8` / `+=` / slice index sites of
   async_reader.rs:101-120) and never runs out of fuel: every result is a specified one or the inner error. *)
Theorem C15_no_panic : forall (V : Type) (dec : bytes -> option V) (os : list (outcome V)) items,
  filter (fun o => negb (transient V o)) os = map (outcome_of_sitem V dec) items ->
  Forall (fun o => o <> OPanic /\ o <> OFuel) os.
Proof. exact no_panic_of_filter. Qed.

Print Assumptions C15_safe.
Print Assumptions C15_spec.
Print Assumptions C15_poll.
Print Assumptions C15_resume_eq.
Print Assumptions C15_call.
Print Assumptions C15_trunc.
Print Assumptions C15_invalid_len.
Print Assumptions C15_alloc.
Print Assumptions C15_no_panic.

(* End to end with the real value codec (Proofs/FrameIoTypes.v): `dec` instantiated with the built-in Decode impls (dec_of c t),
   the payloads being what the built-in Encode impls write for the values vs (payloads_of): under every source script and every
   caller script (polls and drops) the values eventually returned are exactly vs, in order, then a clean end; each transient error
   is reported once. *)
Theorem C15_values_safe : forall c t vs ps max sched calls c0,
  ty_ok t = true -> rt_ok t = true -> payloads_of t vs ps ->
  Forall (fits max) ps -> Forall (fun p => bytes_ok p = true) ps -> Forall atok_ok sched ->
  exists os r' s',
    ar_stream value (dec_of c t) calls (areader_new max) (mkasrc (stream_of ps) sched c0) = (os, r', s') /\
    filter (fun o => negb (transient value o)) os = map OVal vs ++ [OEnd] /\
    (length (filter (transient value) os) + nerr (a_sched s') = nerr sched)%nat.
Proof. exact aio_values_safe. Qed.
Print Assumptions C15_values_safe.
