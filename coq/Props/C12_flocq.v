(* Props/C12_flocq.v — optional, separate from Props/C12.v: the integer specification Spec/Float16.v agrees with
   Flocq.  These statements (and only these) depend on Flocq and therefore on its classical-reals axioms. *)
From MC Require Import Bytes Half Float16 HalfFacts Float16Flocq.
Local Open Scope N_scope.

(* what a binary16 pattern denotes: fdecode = Flocq's binary_float_of_bits, on all 65536 patterns *)
Theorem C12_flocq_decode16 : forall h, h < 65536 -> fval_eqb (of_flocq (flocq16 h)) (fdecode binary16 h) = true.
Proof. exact flocq_decode16. Qed.

(* the same for binary32 on the boundary set, and for binary64 on its widenings *)
Theorem C12_flocq_decode32 : forall x, In x boundary32 -> fval_eqb (of_flocq (flocq32 x)) (fdecode binary32 x) = true.
Proof. exact flocq_decode32. Qed.
Theorem C12_flocq_decode64 : forall x, In x boundary32 ->
  fval_eqb (of_flocq (flocq64 (f32_to_f64 x))) (fdecode binary64 (f32_to_f64 x)) = true.
Proof. exact flocq_decode64. Qed.

(* rne16 = Flocq's round-to-nearest-even into binary16 on the boundary set (NaN operands: both say NaN) *)
Theorem C12_flocq_round : forall x, In x boundary32 -> agree_round x = true.
Proof. exact flocq_round. Qed.

Print Assumptions C12_flocq_decode16.
Print Assumptions C12_flocq_decode32.
Print Assumptions C12_flocq_decode64.
Print Assumptions C12_flocq_round.
