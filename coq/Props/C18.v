(* Props/C18.v — pinned statements for property C18 (the serde bridge and the native traits interoperate on the
   shared data model). *)
From MC Require SerdeC01.
From MC Require Import Bytes Monad Cbor Encoder Decoder Types Serde SerdeDoc SerdeSharedFacts SerdeCrossFacts SerdeAgreeFacts.
Local Open Scope N_scope.

(* For every type of the shared data model (integers, bool, char, floats, strings, unit, options, sequences,
   fixed arrays, tuples, ordered maps and every composition) and every value the native encoder accepts, the
   bridge makes the same Encoder calls: the same chunks, hence the same bytes. *)
Theorem C18_same_chunks : forall c t v cs,
  shared t = true -> encode_ty t v = Some cs -> ser_s c (embed t v) = Some cs.
Proof. exact same_chunks. Qed.

Theorem C18_same_bytes : forall c t v cs,
  shared t = true -> encode_ty t v = Some cs ->
  exists cs', ser_s c (embed t v) = Some cs' /\ flat cs' = flat cs.
Proof. exact same_bytes. Qed.

(* Bytes written by the native Encode impl are read by the bridge to the same value (its embedding), consuming
   exactly the item; `conforms` says the value is a value of the type with lengths below 2^64, `ty_opt_opt`
   excludes an Option directly inside an Option. *)
Theorem C18_cross_bridge_reads_native : forall c t v cs fuel rest p L,
  shared t = true -> ty_opt_opt t = false -> conforms (shape_of t) (embed t v) = true ->
  encode_ty t v = Some cs -> (length (flat cs) < fuel)%nat -> p + len (flat cs) <= L ->
  de_s c (shape_of t) fuel (mkdst p (flat cs ++ rest) L) = (Ok (embed t v), mkdst (p + len (flat cs)) rest L).
Proof. exact bridge_reads_native. Qed.

(* Bytes written by the bridge are read by the native Decode impl to the same value: by C18_same_chunks this is
   the native round trip (Props/C01.v C01_roundtrip) itself, which is the premise here, in C01's own form
   restricted to the shared types (to discharge it: shared t -> ty_ok t, and shared t -> ty_opt_opt t = false ->
   rt_ok t for C01's predicates). *)
Theorem C18_cross_native_reads_bridge :
  (forall c t v cs fuel rest p L,
     shared t = true -> ty_opt_opt t = false -> encode_ty t v = Some cs ->
     p + len (flat cs) <= L -> len (flat cs) < two64 -> (length (flat cs ++ rest) < fuel)%nat ->
     decode_ty c t fuel (mkdst p (flat cs ++ rest) L) = (Ok v, mkdst (p + len (flat cs)) rest L)) ->
  forall c t v cs cs' fuel rest p L,
  shared t = true -> ty_opt_opt t = false -> encode_ty t v = Some cs ->
  ser_s c (embed t v) = Some cs' ->
  p + len (flat cs') <= L -> len (flat cs') < two64 -> (length (flat cs' ++ rest) < fuel)%nat ->
  decode_ty c t fuel (mkdst p (flat cs' ++ rest) L) = (Ok v, mkdst (p + len (flat cs')) rest L).
Proof. exact native_reads_bridge. Qed.

(* … and unconditionally, the premise being C01_roundtrip (Proofs/TypesFacts.roundtrip) on the shared types. *)
Theorem C18_cross_native_reads_bridge_c01 : forall c t v cs cs' fuel rest p L,
  shared t = true -> ty_opt_opt t = false -> encode_ty t v = Some cs ->
  ser_s c (embed t v) = Some cs' ->
  p + len (flat cs') <= L -> len (flat cs') < two64 -> (length (flat cs' ++ rest) < fuel)%nat ->
  decode_ty c t fuel (mkdst p (flat cs' ++ rest) L) = (Ok v, mkdst (p + len (flat cs')) rest L).
Proof. exact SerdeC01.native_reads_bridge_c01. Qed.

(* On every input whatsoever (any bytes, any position: well-formed or not, preferred or with wider heads or
   indefinite containers), for every shared type and any fuel on either side: if the native decoder and the
   bridge both succeed, they return the same value and stop at the same position.  They never disagree; at
   most one of them returns an error (e.g. an indefinite array for a tuple, which only the native [T; N]
   decoder accepts). *)
Theorem C18_agree : forall c t, shared t = true -> forall f1 f2 s v s1 w s2,
  decode_ty c t f1 s = (Ok v, s1) -> de_s c (shape_of t) f2 s = (Ok w, s2) -> w = embed t v /\ s1 = s2.
Proof. exact agree_all. Qed.

(* in particular on every serialisation of every encoding tree *)
Corollary C18_agree_on_items : forall c t e rest p L, shared t = true -> forall f1 f2 v s1 w s2,
  decode_ty c t f1 (mkdst p (ser e ++ rest) L) = (Ok v, s1) ->
  de_s c (shape_of t) f2 (mkdst p (ser e ++ rest) L) = (Ok w, s2) -> w = embed t v /\ s1 = s2.
Proof. intros c t e rest p L Hs f1 f2 v s1 w s2. now apply agree_all. Qed.

Example C18_same_bytes_example :
  let t := TyMap TyChar (TyTuple [TyOpt TyUnit; TySeq (TyI B16); TyArr 2 TyStr]) in
  let v := VList [VNat 955; VList [VSome VUnit; VList [VInt (-300)]; VList [VBlob [97]; VBlob []]]] in
  shared t = true /\ ty_opt_opt t = false /\ encode_ty t v <> None /\ ser_s cfg_full (embed t v) = encode_ty t v
  /\ conforms (shape_of t) (embed t v) = true.
Proof. vm_compute. repeat split; discriminate. Qed.

(* both decoders on a re-framed encoding of [1, 2] as [u16; 2]: definite with wide heads — both succeed and agree;
   indefinite — only the native decoder accepts *)
Example C18_agree_example :
  let t := TyArr 2 (TyU B16) in
  fst (run (decode_auto cfg_full t) [130; 24; 1; 25; 0; 2]) = Ok (VList [VNat 1; VNat 2]) /\
  fst (run (de_auto cfg_full (shape_of t)) [130; 24; 1; 25; 0; 2]) = Ok (embed t (VList [VNat 1; VNat 2])) /\
  fst (run (decode_auto cfg_full t) [159; 1; 2; 255]) = Ok (VList [VNat 1; VNat 2]) /\
  fst (run (de_auto cfg_full (shape_of t)) [159; 1; 2; 255]) = Err Message.
Proof. vm_compute. auto. Qed.

Print Assumptions C18_same_chunks.
Print Assumptions C18_same_bytes.
Print Assumptions C18_cross_bridge_reads_native.
Print Assumptions C18_cross_native_reads_bridge.
Print Assumptions C18_cross_native_reads_bridge_c01.
Print Assumptions C18_agree.
