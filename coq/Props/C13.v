(* Props/C13.v — pinned statements for property C13 (bounded sinks: encoding succeeds iff it fits,
   never overruns, sink-independent). The encoder is any list of chunks (one per write_all call);
   Props/C03 and C01 say which chunk lists the encoder produces. *)
From MC Require Import Bytes Encoder Sink SinkFacts Types.
Local Open Scope N_scope.

(* Into a bounded sink (byte slice, the three cursors) of capacity cap, for every sequence of write_all
   calls: success iff the total fits; what is left behind is the concatenation of the chunks before the
   first one that does not fit, hence a prefix of the full output; the position equals the number of
   bytes accepted; never more than cap bytes are accepted; on success the content is the full output. *)
Theorem C13_sinks : forall k cap cs, bounded k = true ->
  let r := run_sink (sink_new k cap) cs in
  (fst r = true <-> len (flat cs) <= cap)
  /\ s_written (snd r) = flat (fitting cap cs)
  /\ (exists rest, flat cs = s_written (snd r) ++ rest)
  /\ s_pos (snd r) = len (s_written (snd r))
  /\ len (s_written (snd r)) <= cap
  /\ (fst r = true -> s_written (snd r) = flat cs).
Proof. exact sinks_bounded. Qed.

(* Growable sinks (Vec, io::Write over a Vec) always succeed and hold the full output. *)
Theorem C13_unbounded : forall k cap cs, bounded k = false -> partial k = false ->
  run_sink (sink_new k cap) cs = (true, mksink k cap (flat cs) (len (flat cs))).
Proof. exact sinks_unbounded. Qed.

(* A bounded std::io writer behind the io adapter (it copies what fits and then fails): success iff the
   output fits; the content is always the first min(cap, total) bytes of the output. *)
Theorem C13_io_bounded : forall k cap cs, partial k = true ->
  let r := run_sink (sink_new k cap) cs in
  (fst r = true <-> len (flat cs) <= cap)
  /\ (exists rest, flat cs = s_written (snd r) ++ rest)
  /\ len (s_written (snd r)) = N.min cap (len (flat cs))
  /\ s_pos (snd r) = len (s_written (snd r))
  /\ (fst r = true -> s_written (snd r) = flat cs).
Proof. exact sinks_partial. Qed.

(* Any two sinks that both accept the output hold the same bytes. *)
Theorem C13_same : forall k k' cap cap' cs,
  fst (run_sink (sink_new k cap) cs) = true -> fst (run_sink (sink_new k' cap') cs) = true ->
  s_written (snd (run_sink (sink_new k cap) cs)) = s_written (snd (run_sink (sink_new k' cap') cs)).
Proof. exact sinks_same. Qed.

Example C13_example :
  run_sink (sink_new KCursorBox 3) [[24; 255]; [1; 2]; [3]] = (false, mksink KCursorBox 3 [24; 255] 2)
  /\ bounded KCursorBox = true.
Proof. vm_compute. auto. Qed.

Print Assumptions C13_sinks.
Print Assumptions C13_unbounded.
Print Assumptions C13_io_bounded.
Print Assumptions C13_same.
