(* Props/C20.v — pinned statements for property C20 (same behaviour in every feature configuration, up
   to the documented differences).  doc_diff c1 c2 r1 r2 (Proofs/CfgFacts.v) reads: the outcomes
   (value / error class, and the whole decoder state incl. position) are equal, or the configuration
   without alloc reports the documented "requires feature flag alloc" error (Err Message), or the
   configuration without half reports the half-precision item as a type error (TypeMismatch TF16).
   The `std` flag occurs in no definition of the model.  Encoding and length functions take no
   configuration argument. *)
From MC Require Import Bytes Monad Decoder Acc Accessors Types CfgFacts.
From MC Require Import Encoder Serde SerdeDoc SerdeCfgFacts.
Local Open Scope N_scope.

(* Every Decoder accessor, at every state (any input, any position), in any two configurations.
   (f16() itself exists only with half: compared only between configurations that both have it.) *)
Theorem C20_accessors : forall c1 c2 a s,
  (a = AF16 -> c_half c1 = c_half c2) ->
  doc_diff c1 c2 (run_acc c1 a s) (run_acc c2 a s).
Proof. exact accessors_cfg. Qed.

(* Typed decoding of every type of the universe, at every state, in any two configurations. *)
Theorem C20_types : forall c1 c2 t s, doc_diff c1 c2 (decode_auto c1 t s) (decode_auto c2 t s).
Proof. exact decode_auto_cfg. Qed.

(* skip: whenever the build without alloc does not refuse, it agrees with the build with alloc —
   for all inputs, well-formed or not. *)
Theorem C20_skip : forall c1 c2 fuel s, doc_diff c1 c2 (skip c1 fuel s) (skip c2 fuel s).
Proof. exact dd_skip. Qed.

(* with equal alloc and half flags nothing differs (std is irrelevant) *)
Corollary C20_std : forall c1 c2 t s, c_alloc c1 = c_alloc c2 -> c_half c1 = c_half c2 ->
  decode_auto c1 t s = decode_auto c2 t s.
Proof.
  intros c1 c2 t s Ha Hh. destruct (decode_auto_cfg c1 c2 t s) as [E|[(A & B & _)|[(A & B & _)|[(A & B & _)|(A & B & _)]]]]; congruence.
Qed.

Example C20_documented_difference :
  let inp := [131; 159; 255; 1; 2] in    (* 83 9f ff 01 02: an indefinite array inside a definite one, not in last position *)
  fst (run_acc (mkcfg true true true) ASkip (start inp)) = Ok VU /\
  fst (run_acc (mkcfg false false true) ASkip (start inp)) = Err Message.
Proof. vm_compute. auto. Qed.

Print Assumptions C20_accessors.
Print Assumptions C20_types.
Print Assumptions C20_skip.
Print Assumptions C20_std.

(* ------------------------------------------------------------------ the serde bridge (Model/Serde.v) *)

(* Serialisation: any two configurations produce the same chunks, or the one without alloc refuses because the
   call tree uses collect_str (uses_collect_str: a syntactic test for an SCollectStr node) — ser.rs:256. *)
Theorem C20_serde_ser : forall c1 c2 v,
  ser_s c1 v = ser_s c2 v
  \/ (c_alloc c1 = false /\ c_alloc c2 = true /\ ser_s c1 v = None /\ uses_collect_str v = true)
  \/ (c_alloc c2 = false /\ c_alloc c1 = true /\ ser_s c2 v = None /\ uses_collect_str v = true).
Proof. exact ser_s_cfg. Qed.

(* with equal alloc flags the outputs are equal (half and std never matter for serialisation) … *)
Corollary C20_serde_ser_alloc : forall c1 c2 v, c_alloc c1 = c_alloc c2 -> ser_s c1 v = ser_s c2 v.
Proof. exact ser_s_alloc_only. Qed.

(* … and a call tree without collect_str is serialised identically everywhere *)
Corollary C20_serde_ser_plain : forall c1 c2 v, uses_collect_str v = false -> ser_s c1 v = ser_s c2 v.
Proof. exact ser_s_no_cs. Qed.

(* Deserialisation, for every shape (direct and any-driven alike), any fuel, every state (any input, any
   position): doc_diff_serde = doc_diff (no alloc: skip may answer Err Message — Option::None, ignored and unknown
   fields, null under deserialize_any; no half: a half-precision item is TypeMismatch TF16 — f32()/f64() and
   de.rs:90 under deserialize_any) or the bridge's own documented case: without alloc an indefinite-length
   byte / text string under deserialize_any is TypeMismatch TBytesIndef / TStringIndef (de.rs:114). *)
Theorem C20_serde_de : forall c1 c2 sh fuel s,
  doc_diff_serde c1 c2 (de_s c1 sh fuel s) (de_s c2 sh fuel s).
Proof. exact de_s_cfg_dds. Qed.

Theorem C20_serde_de_auto : forall c1 c2 sh s, doc_diff_serde c1 c2 (de_auto c1 sh s) (de_auto c2 sh s).
Proof. exact de_auto_cfg_dds. Qed.

(* the std flag never matters: with equal alloc and half flags both directions are identical *)
Corollary C20_serde_std : forall c1 c2 sh fuel s v, c_alloc c1 = c_alloc c2 -> c_half c1 = c_half c2 ->
  de_s c1 sh fuel s = de_s c2 sh fuel s /\ ser_s c1 v = ser_s c2 v.
Proof. intros c1 c2 sh fuel s v Ha Hh. split; [now apply de_s_std|now apply ser_s_alloc_only]. Qed.

(* the documented differences on concrete inputs: 7f 61 61 ff (an indefinite text string) under ShAny,
   f9 3c 00 (half-precision 1.0) under ShAny, collect_str *)
Example C20_serde_documented_difference :
  fst (run (de_auto (mkcfg true true true) ShAny) [127; 97; 97; 255]) = Ok (SStr [97]) /\
  fst (run (de_auto (mkcfg false false true) ShAny) [127; 97; 97; 255]) = Err (TypeMismatch TStringIndef) /\
  fst (run (de_auto (mkcfg true true true) ShAny) [249; 60; 0]) = Ok (SF32 1065353216) /\
  fst (run (de_auto (mkcfg true true false) ShAny) [249; 60; 0]) = Err (TypeMismatch TF16) /\
  ser_s (mkcfg true true true) (SSeq None [SCollectStr [97]]) <> None /\
  ser_s (mkcfg false false true) (SSeq None [SCollectStr [97]]) = None /\
  uses_collect_str (SSeq None [SCollectStr [97]]) = true.
Proof. vm_compute. repeat split; discriminate. Qed.

Print Assumptions C20_serde_ser.
Print Assumptions C20_serde_ser_alloc.
Print Assumptions C20_serde_de.
Print Assumptions C20_serde_de_auto.
Print Assumptions C20_serde_std.
