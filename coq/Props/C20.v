(* Props/C20.v — pinned statements for property C20 (same behaviour in every feature configuration, up
   to the documented differences).  doc_diff c1 c2 r1 r2 (Proofs/CfgFacts.v) reads: the outcomes
   (value / error class, and the whole decoder state incl. position) are equal, or the configuration
   without alloc reports the documented "requires feature flag alloc" error (Err Message), or the
   configuration without half reports the half-precision item as a type error (TypeMismatch TF16).
   The `std` flag occurs in no definition of the model.  Encoding and length functions take no
   configuration argument. *)
From MC Require Import Bytes Monad Decoder Acc Accessors Types CfgFacts.
Local Open Scope N_scope.

(* Every Decoder accessor, at every state (any input, any position), in any two configurations.
   (f16() itself exists only with half: compared only between configurations that both have it.) *)
Theorem C20_accessors : forall c1 c2 a s,
  (a = AF16 -> c_half c1 = c_half c2) ->
  doc_diff c1 c2 (run_acc c1 a s) (run_acc c2 a s).
Proof. exact accessors_cfg. Qed.

(* Typed decoding of every type of the universe, at every state, in any two configurations. *)
Theorem C20_types : forall c1 c2 t s, doc_diff c1 c2 (decode_auto c1 t s) (decode_auto c2 t s).
Proof. exact decode_auto_cfg. Qed.

(* skip: whenever the build without alloc does not refuse, it agrees with the build with alloc —
   for all inputs, well-formed or not. *)
Theorem C20_skip : forall c1 c2 fuel s, doc_diff c1 c2 (skip c1 fuel s) (skip c2 fuel s).
Proof. exact dd_skip. Qed.

(* with equal alloc and half flags nothing differs (std is irrelevant) *)
Corollary C20_std : forall c1 c2 t s, c_alloc c1 = c_alloc c2 -> c_half c1 = c_half c2 ->
  decode_auto c1 t s = decode_auto c2 t s.
Proof.
  intros c1 c2 t s Ha Hh. destruct (decode_auto_cfg c1 c2 t s) as [E|[(A & B & _)|[(A & B & _)|[(A & B & _)|(A & B & _)]]]]; congruence.
Qed.

Example C20_documented_difference :
  let inp := [131; 159; 255; 1; 2] in    (* 83 9f ff 01 02: an indefinite array inside a definite one, not in last position *)
  fst (run_acc (mkcfg true true true) ASkip (start inp)) = Ok VU /\
  fst (run_acc (mkcfg false false true) ASkip (start inp)) = Err Message.
Proof. vm_compute. auto. Qed.

Print Assumptions C20_accessors.
Print Assumptions C20_types.
Print Assumptions C20_skip.
Print Assumptions C20_std.
