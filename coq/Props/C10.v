(* Props/C10.v — pinned statements for property C10 (derived codecs are forward and backward compatible as
   documented). *)
From MC Require Import Bytes Monad Cbor Decoder Encoder Types DeriveSchema DeriveEnc DeriveDec DeriveDoc DeriveKnown DeriveCompat
  DeriveMigrate DeriveFacts DeriveDocFacts DeriveDecFacts DeriveCompatFacts DeriveClosed DeriveSkipFacts DeriveMigrateFacts.
Local Open Scope N_scope.

(* One struct / variant body in two versions (writer fsW, reader fsR, same encoding e), related by the
   documented-compatible edits body_compat: fields with the same index are the same field (names, declaration
   order, n/b and the named/tuple shape are free); a field only the reader knows is optional (its nil() exists —
   tagged or not, array or map encoding); fields only the writer knows are arbitrary.  Then, for every writer
   value, the reader's derived decoder reads the writer's derived encoding, from any position and with any
   suffix, as migrate_fields: shared fields equal (skipped fields of nested values defaulted), fields unknown to
   the writer nil (None), fields unknown to the reader ignored whatever their content, stopping exactly at the
   end of the body.  Both directions of "add / drop an optional field at a new or gap index, in array or map
   encoding" are instances (swap the roles).
   Restriction (hence _partial): the definitions the fields refer to are the same in both versions; their
   contract is C09's (hypothesis on recE/recD/recV, instantiated by gen_encode / gen_decode / default_skipped of
   the common schema through DeriveDecFacts.gen_decode_f_reads).
   Hypotheses: C01 for the leaf types (okty); what only the writer knows is skipped as one item — by C06 applied
   to the well-formed tree C08_format provides (C10_skippable below).
   The schema-level statement — all nested definitions in two versions, variants added / removed, unit variant <-> variant with only
   optional fields — is C10_compat below; this theorem is its one-body special case with shared nested definitions and an abstract
   skippability premise. *)
Theorem C10_compat_partial : forall (c : cfg) (okty : ty -> Prop),
  (forall t, okty t -> forall v cs, encode_ty t v = Some cs -> flat cs <> [] /\ reads_f (decode_ty c t) (flat cs) v) ->
  forall (recE : nat -> value -> option (list chunk)) (recD : nat -> nat -> M value) (recV : nat -> value -> value) (ntr : nat -> bool),
  (forall d v cs, recE d v = Some cs ->
     flat cs <> [] /\ (ntr d = true -> hd_class (flat cs) = true) /\ reads_f (recD d) (flat cs) (recV d v)) ->
  forall dW dR e sh fsW fsR vsW cs,
  fields_ok dW fsW = true -> fields_ok dR fsR = true -> fields_all okty fsR -> fields_rt ntr fsR = true ->
  body_compat fsW fsR ->
  (forall pf z, In pf (sorted_fields fsW) -> (forall q, In q (sorted_fields fsR) -> pf_idx q <> pf_idx pf) ->
     enc_field_fn recE (pf_fld pf) (pf_val vsW pf) = Some z ->
     flat z <> [] /\ skippable c (flat (enc_tag_opt (f_tag (pf_fld pf)) ++ z))) ->
  enc_fields recE e fsW vsW = Some cs ->
  reads_f (dec_body c recD e sh fsR) (flat cs) (VList (migrate_fields recV fsW vsW fsR)).
Proof. exact fields_compat_reads. Qed.

(* … with the leaf-type hypothesis discharged by C01_roundtrip *)
Theorem C10_compat_leaf_partial : forall (c : cfg)
  (recE : nat -> value -> option (list chunk)) (recD : nat -> nat -> M value) (recV : nat -> value -> value) (ntr : nat -> bool),
  (forall d v cs, recE d v = Some cs ->
     flat cs <> [] /\ (ntr d = true -> hd_class (flat cs) = true) /\ reads_f (recD d) (flat cs) (recV d v)) ->
  forall dW dR e sh fsW fsR vsW cs,
  fields_ok dW fsW = true -> fields_ok dR fsR = true -> fields_all leaf_ok fsR -> fields_rt ntr fsR = true ->
  body_compat fsW fsR ->
  (forall pf z, In pf (sorted_fields fsW) -> (forall q, In q (sorted_fields fsR) -> pf_idx q <> pf_idx pf) ->
     enc_field_fn recE (pf_fld pf) (pf_val vsW pf) = Some z ->
     flat z <> [] /\ skippable c (flat (enc_tag_opt (f_tag (pf_fld pf)) ++ z))) ->
  enc_fields recE e fsW vsW = Some cs ->
  reads_f (dec_body c recD e sh fsR) (flat cs) (VList (migrate_fields recV fsW vsW fsR)).
Proof. intro c. exact (fields_compat_reads c leaf_ok (leaf_reads c)). Qed.

(* … and one level up: a whole struct definition in two versions (same encoding and tag; field names, declaration
   order, n/b and the named/tuple shape free, fields added and dropped as above): the reader's derived decoder of
   the definition reads the writer's derived encoding of the definition — tag, header and body — as the migrated
   value.  Same restriction as C10_compat_partial on the nested definitions. *)
Theorem C10_compat_struct_partial : forall (c : cfg)
  (recE : nat -> value -> option (list chunk)) (recD : nat -> nat -> M value) (recV : nat -> value -> value) (ntr : nat -> bool),
  (forall d v cs, recE d v = Some cs ->
     flat cs <> [] /\ (ntr d = true -> hd_class (flat cs) = true) /\ reads_f (recD d) (flat cs) (recV d v)) ->
  forall dW dR e tag shW shR fsW fsR vsW cs,
  def_ok dW (DStruct e tag false shW fsW) = true -> def_ok dR (DStruct e tag false shR fsR) = true ->
  fields_all leaf_ok fsR -> fields_rt ntr fsR = true -> body_compat fsW fsR ->
  (forall pf z, In pf (sorted_fields fsW) -> (forall q, In q (sorted_fields fsR) -> pf_idx q <> pf_idx pf) ->
     enc_field_fn recE (pf_fld pf) (pf_val vsW pf) = Some z ->
     flat z <> [] /\ skippable c (flat (enc_tag_opt (f_tag (pf_fld pf)) ++ z))) ->
  enc_def recE (DStruct e tag false shW fsW) (VList vsW) = Some cs ->
  reads_f (dec_def c recD (DStruct e tag false shR fsR)) (flat cs) (VList (migrate_fields recV fsW vsW fsR)).
Proof. intro c. exact (struct_compat_reads c leaf_ok (leaf_reads c)). Qed.

(* C10 AT SCHEMA LEVEL.  Two whole schemas — the writer's ScW and the reader's ScR, definition d of the one being the older /
   newer version of definition d of the other — related definition-wise by the documented-compatible edits (schema_compat,
   Model/DeriveMigrate.v): per struct and per variant both versions know, body_compat (optional fields added or dropped at new
   or gap indices — tagged or not, array or map —, names, declaration order, n/b, named / tuple shape free); unit variant <->
   variant with only optional fields (a unit variant counts as the empty field list; a reader's unit variant skips whatever
   body the writer wrote); variants added to or removed from an enum.  All nested definitions evolve at once: the proof is by
   induction over the definition graph (DeriveMigrateFacts.migrate_f_two) with a two-outcome invariant per value.
   Then for EVERY value v of the writer's definition d whose text strings are valid UTF-8 (a Rust String always is; the model's
   value universe lets a string leaf carry arbitrary bytes) and which is outside the recorded class F14 — `writer_value_ok`, a
   boolean over schema and value —, with `migrate ScW ScR d v` the reader's view of it (shared fields migrated recursively
   through references, Option and Vec; reader-only fields nil; writer-only fields ignored; skipped fields defaulted; an
   unknown variant ANYWHERE inside the value of an optional field turns that field into its nil value):
     migrate = Some v' : the reader's derived decoder reads the writer's derived encoding, followed by any suffix, as v' and
                         stops exactly at its end;
     migrate = None    : the value contains a variant the reader does not know outside every optional field (a place for which
                         the documentation promises nothing): the reader answers UnknownVariant — never a wrong value.
   In EVERY feature configuration c.  No premise about skip() remains: that skip() consumes, as one item, every field item and
   variant body the writer wrote is DERIVED (C10_writer_skippable below) from C08 (the bytes are the preferred serialisation of
   the documented tree, which has no indefinite container) and C06 (skip on well-formed items with valid text; without `alloc`
   on items without an indefinite container below a definite one).  Hypotheses: both schemas accepted with leaf_ok leaves, the
   reader without Option<transparent newtype> (as C09), input below 2^64 bytes.  Both directions of every edit are instances
   (swap the roles); C10_compat_example_rg / _f10 exhibit all hypotheses on concrete pairs. *)
Theorem C10_compat : forall c ScW ScR d v cs rest,
  schema_ok ScW = true -> schema_all leaf_ok ScW -> schema_ok ScR = true -> schema_all leaf_ok ScR -> schema_rt ScR = true ->
  schema_compat ScW ScR -> writer_value_ok ScW d v = true ->
  gen_encode ScW d v = Some cs -> len (flat cs ++ rest) < two64 ->
  match migrate ScW ScR d v with
  | Some v' => gen_decode c ScR d (start (flat cs ++ rest)) = (Ok v', mkdst (len (flat cs)) rest (len (flat cs ++ rest)))
  | None => exists n s', gen_decode c ScR d (start (flat cs ++ rest)) = (Err (UnknownVariant n), s')
  end.
Proof. exact compat_roundtrip_closed. Qed.

(* the same with the reader's leaf types abstract (C01_roundtrip as a hypothesis) *)
Theorem C10_compat_gen : forall (c : cfg) (okty : ty -> Prop),
  (forall t, okty t -> forall v cs, encode_ty t v = Some cs -> flat cs <> [] /\ reads_f (decode_ty c t) (flat cs) v) ->
  forall ScW ScR d v cs rest,
  schema_ok ScW = true -> schema_all leaf_ok ScW -> schema_ok ScR = true -> schema_all okty ScR -> schema_rt ScR = true ->
  schema_compat ScW ScR -> writer_value_ok ScW d v = true ->
  gen_encode ScW d v = Some cs -> len (flat cs ++ rest) < two64 ->
  match migrate ScW ScR d v with
  | Some v' => gen_decode c ScR d (start (flat cs ++ rest)) = (Ok v', mkdst (len (flat cs)) rest (len (flat cs ++ rest)))
  | None => exists n s', gen_decode c ScR d (start (flat cs ++ rest)) = (Err (UnknownVariant n), s')
  end.
Proof. exact compat_roundtrip. Qed.

(* the former premise of C10_compat, derived: in every configuration, skip() consumes as one item every item a definition of an
   accepted schema writes for a field (with and without the field's tag) and every variant body, for values outside class F14
   (known_f fmt_group = known_alias_nil) whose text is valid UTF-8 (text_f = value_text_ok) *)
Theorem C10_writer_skippable : forall c Sc, schema_ok Sc = true -> schema_all leaf_ok Sc ->
  forall k d df v, nth_error Sc d = Some df ->
  known_f fmt_group (S k) Sc d v = false -> text_f (S k) Sc d v = true ->
  def_skippable c (fun d' v' => if Nat.ltb d' d then gen_encode_f k Sc d' v' else None) df v.
Proof. exact schema_skippable. Qed.

(* one struct / variant body in two versions with the nested definitions in two versions as well (the body-level core of
   C10_compat; generalises C10_compat_partial, whose nested definitions are shared); okN: what is known about the nested values *)
Theorem C10_compat_body : forall (c : cfg) (okty : ty -> Prop),
  (forall t, okty t -> forall v cs, encode_ty t v = Some cs -> flat cs <> [] /\ reads_f (decode_ty c t) (flat cs) v) ->
  forall (recE : nat -> value -> option (list chunk)) (recD : nat -> nat -> M value) (recM : nat -> value -> option value) (ntr : nat -> bool)
         (okN : nat -> value -> bool),
  (forall d v cs, recE d v = Some cs -> okN d v = true ->
     flat cs <> [] /\ (ntr d = true -> hd_class (flat cs) = true) /\ outcome (recD d) (flat cs) (recM d v)) ->
  forall dW dR e sh fsW fsR vsW cs,
  fields_ok dW fsW = true -> fields_ok dR fsR = true -> fields_all okty fsR -> fields_rt ntr fsR = true ->
  body_compat fsW fsR -> ok_fields okN fsW vsW -> fields_skippable c recE fsW vsW ->
  enc_fields recE e fsW vsW = Some cs ->
  outcome (dec_body c recD e sh fsR) (flat cs) (option_map VList (mig_fields recM fsW vsW fsR)).
Proof. exact fields_two. Qed.

(* all hypotheses of C10_compat on concrete pairs, and what it then says in every configuration with any suffix: the regular-enum
   pair (the writer's enum has a variant 7 the reader lacks, inside an Option field) and the pair of the former finding F10 (the
   reader adds a tagged optional field at gap index 1; related in both directions) *)
Example C10_compat_example_rg :
  let v := VList [VNat 1; VSome (VVar 7 (VList [VNat 5])); VNat 9] in
  schema_ok rg_writer = true /\ schema_all leaf_ok rg_writer /\ schema_ok rg_reader = true /\ schema_all leaf_ok rg_reader /\
  schema_rt rg_reader = true /\ schema_compat rg_writer rg_reader /\ writer_value_ok rg_writer 1 v = true /\
  forall c rest, len ([131; 1; 130; 7; 129; 5; 9] ++ rest) < two64 ->
    gen_decode c rg_reader 1 (start ([131; 1; 130; 7; 129; 5; 9] ++ rest))
    = (Ok (VList [VNat 1; VNone; VNat 9]), mkdst 7 rest (len ([131; 1; 130; 7; 129; 5; 9] ++ rest))).
Proof. exact rg_compat_instance. Qed.

Example C10_compat_example_f10 :
  schema_ok f10_writer = true /\ schema_all leaf_ok f10_writer /\ schema_ok f10_reader = true /\ schema_all leaf_ok f10_reader /\
  schema_rt f10_reader = true /\ schema_compat f10_writer f10_reader /\ schema_compat f10_reader f10_writer /\
  writer_value_ok f10_writer 0 (VList [VNat 1; VNat 3]) = true /\
  forall c rest, len ([131; 1; 246; 3] ++ rest) < two64 ->
    gen_decode c f10_reader 0 (start ([131; 1; 246; 3] ++ rest))
    = (Ok (VList [VNat 1; VNone; VNat 3]), mkdst 4 rest (len ([131; 1; 246; 3] ++ rest))).
Proof. exact f10_compat_instance. Qed.

(* schema_compat and migrate on the regular-enum pair of C10_regular_enum_example (the writer knows variant 7 of the enum, the
   reader does not): inside the Option field the unknown variant becomes None; decoded directly it is UnknownVariant 7 *)
Example C10_schema_compat_example :
  schema_compat rg_writer rg_reader /\ schema_compat rg_reader rg_writer /\
  migrate rg_writer rg_reader 1 (VList [VNat 1; VSome (VVar 7 (VList [VNat 5])); VNat 9]) = Some (VList [VNat 1; VNone; VNat 9]) /\
  migrate rg_writer rg_reader 1 (VList [VNat 1; VSome (VVar 0 (VList [])); VNat 9]) = Some (VList [VNat 1; VSome (VVar 0 (VList [])); VNat 9]) /\
  migrate rg_writer rg_reader 0 (VVar 7 (VList [VNat 5])) = None /\
  gen_decode cfg_full rg_reader 0 (start [130; 7; 129; 5]) = (Err (UnknownVariant 7), mkdst 2 [129; 5] 4).
Proof. exact rg_schema_compat. Qed.

(* the skippability hypothesis above follows from C06 (skip consumes one well-formed item) and C08_format *)
Theorem C10_skippable : forall c,
  (forall e r p L, wf e = true -> L < two64 -> p + len (ser e) <= L ->
     skip_auto c (mkdst p (ser e ++ r) L) = (Ok tt, mkdst (p + len (ser e)) r L)) ->
  forall t e cs, tag_ok t = true -> flat cs = ser (prefer e) -> wf (prefer e) = true ->
  skippable c (flat (enc_tag_opt t ++ cs)).
Proof. exact skippable_of_item. Qed.

(* … and, with C06_skip_auto, in the full configuration for every item whose text strings are valid UTF-8 *)
Theorem C10_skippable_full : forall t e cs, tag_ok t = true -> flat cs = ser (prefer e) -> wf (prefer e) = true ->
  Acc.utf8_ok (prefer e) = true -> skippable cfg_full (flat (enc_tag_opt t ++ cs)).
Proof. exact skippable_full. Qed.

(* Guarantee 4: when the decode function of a field that has the unknown-variant arm fails with UnknownVariant —
   wherever in the field's value b it stopped (s' is arbitrary) — and b is skipped as one item, the field action
   succeeds, leaves the slot alone (it resolves to None) and stops exactly at the end of b: the handler returns to
   the first byte of the value before it skips.  So the sibling fields are read from the right place for a regular
   enum (b = [index, body]) and for an index_only enum (b = the bare index, where the enum decoder has already
   consumed all of b when it fails) alike. *)
Theorem C10_unknown_variant_optional : forall c recD f n b,
  has_handler f = true -> tag_ok (f_tag f) = true -> skippable c b ->
  (forall fuel r p L, (length (b ++ r) < fuel)%nat -> L < two64 -> p + len b <= L ->
     exists s', dec_field_fn c recD f fuel (mkdst p (b ++ r) L) = (Err (UnknownVariant n), s')) ->
  reads_f (field_action c recD f) (flat (enc_tag_opt (f_tag f)) ++ b) None.
Proof. exact handler_skips. Qed.

(* … and an Option<enum> field passes the enum decoder's UnknownVariant on from where that decoder stopped *)
Theorem C10_optional_ref_unknown : forall c recD d f n b1 b2,
  f_codec f = CoDefault -> f_ty f = FOpt (FRef d) -> hd_class (b1 ++ b2) = true ->
  (forall fuel r p L, (length ((b1 ++ b2) ++ r) < fuel)%nat -> L < two64 -> p + len (b1 ++ b2) <= L ->
     recD d fuel (mkdst p ((b1 ++ b2) ++ r) L) = (Err (UnknownVariant n), mkdst (p + len b1) (b2 ++ r) L)) ->
  forall fuel r p L, (length ((b1 ++ b2) ++ r) < fuel)%nat -> L < two64 -> p + len (b1 ++ b2) <= L ->
     dec_field_fn c recD f fuel (mkdst p ((b1 ++ b2) ++ r) L) = (Err (UnknownVariant n), mkdst (p + len b1) (b2 ++ r) L).
Proof. exact opt_ref_unknown. Qed.

(* Missing mandatory fields are always an error: whatever the writer's body contains (tgt abstracts what the
   reader's fields make of it), if the position / key of a mandatory reader field q0 (no Option syntax, no nil())
   is not met, the reader's body decoder returns MissingValue after having read the body. *)
Theorem C10_mandatory : forall c recE recD dW dR e sh fsW fsR vsW cs (tgt : pfield -> option value) q0,
  fields_ok dW fsW = true -> fields_ok dR fsR = true ->
  (forall pf z, In pf (sorted_fields fsW) -> enc_field_fn recE (pf_fld pf) (pf_val vsW pf) = Some z ->
     flat z <> [] /\ reads_item c recD (sorted_fields fsR) tgt (pf_idx pf) (flat (enc_tag_opt (f_tag (pf_fld pf)) ++ z))) ->
  (e = AsArray -> forall j, (forall q, In q (sorted_fields fsW) -> pf_idx q <> j) -> reads_item c recD (sorted_fields fsR) tgt j [246]) ->
  In q0 (sorted_fields fsR) -> met e (sorted_fields fsW) vsW q0 = false -> f_synopt (pf_fld q0) = false -> nil_of (pf_fld q0) = None ->
  enc_fields recE e fsW vsW = Some cs ->
  forall fuel r p L, (length (flat cs ++ r) < fuel)%nat -> L < two64 -> p + len (flat cs) <= L ->
  exists i, dec_body c recD e sh fsR fuel (mkdst p (flat cs ++ r) L) = (Err (MissingValue i), mkdst (p + len (flat cs)) r L).
Proof. exact dec_fields2_missing. Qed.

(* The former witness of F9: {x: 1, e: Some(variant 7 of an index_only enum), z: 9} = 83 01 07 09, read by the
   version without variant 7, is {1, None, 9} *)
Example C10_index_only_example : schema_ok f9_writer = true /\ schema_ok f9_reader = true /\
  option_map flat (gen_encode f9_writer 1 f9_value) = Some [131; 1; 7; 9] /\
  gen_decode cfg_full f9_reader 1 (start [131; 1; 7; 9]) = (Ok (VList [VNat 1; VNone; VNat 9]), mkdst 4 [] 4).
Proof. exact f9_repaired. Qed.

(* The former witness of F10: {x: 1, z: 3} = 83 01 f6 03 read by the version with #[n(1)] #[cbor(tag(9))] y: Option<u8>
   is {1, None, 3} *)
Example C10_tagged_gap_example : schema_ok f10_writer = true /\ schema_ok f10_reader = true /\
  option_map flat (gen_encode f10_writer 0 (VList [VNat 1; VNat 3])) = Some [131; 1; 246; 3] /\
  gen_decode cfg_full f10_reader 0 (start [131; 1; 246; 3]) = (Ok (VList [VNat 1; VNone; VNat 3]), mkdst 4 [] 4).
Proof. exact f10_repaired. Qed.

(* the documented behaviour on a regular enum: unknown variant 7 with a body -> None, z intact *)
Example C10_regular_enum_example :
  option_map flat (gen_encode rg_writer 1 (VList [VNat 1; VSome (VVar 7 (VList [VNat 5])); VNat 9])) = Some [131; 1; 130; 7; 129; 5; 9] /\
  gen_decode cfg_full rg_reader 1 (start [131; 1; 130; 7; 129; 5; 9]) = (Ok (VList [VNat 1; VNone; VNat 9]), mkdst 7 [] 7).
Proof. exact rg_example. Qed.

(* body_compat is inhabited by a non-trivial instance: the reader adds a tagged optional field at gap index 1 *)
Example C10_body_compat_example :
  let a := mkfield 0 false None CoDefault false false (FTy (TyU B8)) in
  let b := mkfield 2 true None CoDefault false false (FTy TyStr) in
  let o := mkfield 1 false (Some 9) CoDefault true false (FTy (TyOpt (TyU B16))) in
  body_compat [a; b] [eraseb b; o; a].
Proof.
  cbv zeta. split.
  - intros fW fR HW HR _ _ E. cbn [In] in HW, HR.
    destruct HW as [<-|[<-|[]]], HR as [<-|[<-|[<-|[]]]]; try reflexivity; cbn in E; discriminate.
  - intros fR HR _ Hno. cbn [In] in HR. destruct HR as [<-|[<-|[<-|[]]]].
    + exfalso. eapply (Hno _ (or_intror (or_introl eq_refl))); reflexivity.
    + discriminate.
    + exfalso. eapply (Hno _ (or_introl eq_refl)); reflexivity.
Qed.

Print Assumptions C10_compat_partial.
Print Assumptions C10_compat_leaf_partial.
Print Assumptions C10_compat_struct_partial.
Print Assumptions C10_compat.
Print Assumptions C10_compat_gen.
Print Assumptions C10_compat_body.
Print Assumptions C10_writer_skippable.
Print Assumptions C10_skippable.
Print Assumptions C10_skippable_full.
Print Assumptions C10_unknown_variant_optional.
Print Assumptions C10_optional_ref_unknown.
Print Assumptions C10_mandatory.
