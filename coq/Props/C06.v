(* Props/C06.v — pinned statements for property C06: skip() consumes exactly one data item, whatever its
   nesting.  Hypotheses common to all statements:
     wf e            the encoding tree is well-formed (RFC 8949 Appendix C), any head widths, any nesting of
                     definite and indefinite arrays and maps, chunked strings, tag chains;
     utf8_ok e       every text string / text chunk is valid UTF-8 (skip drains str_iter, which validates;
                     RFC 8949 calls an item violating this well-formed but invalid — see Example C06_text_validated);
     len (ser e) < 2^64   the item fits in an address space, so the u64 counters cannot saturate
                     (every Rust slice satisfies it);
     p + len (ser e) <= L  the item lies inside the buffer of length L, starting at position p. *)
From MC Require Import Bytes Monad Cbor Decoder Acc Accessors SkipFacts.
Local Open Scope N_scope.

(* With `alloc`: for every such item followed by arbitrary bytes, skip returns Ok and leaves the position
   exactly at the first byte after the item (any fuel >= the item's length in bytes; never OutOfFuel/Panic). *)
Theorem C06_skip : forall e rest p L fuel,
  wf e = true -> utf8_ok e = true -> len (ser e) < 18446744073709551616 -> p + len (ser e) <= L ->
  (length (ser e) <= fuel)%nat ->
  skip_alloc fuel (mkdst p (ser e ++ rest) L) = (Ok tt, mkdst (p + len (ser e)) rest L).
Proof. exact skip_exact. Qed.

(* the same through the entry point the correspondence check runs (fuel = remaining bytes + 1) *)
Theorem C06_skip_auto : forall e rest p L,
  wf e = true -> utf8_ok e = true -> len (ser e) < 18446744073709551616 -> p + len (ser e) <= L ->
  skip_auto cfg_full (mkdst p (ser e ++ rest) L) = (Ok tt, mkdst (p + len (ser e)) rest L).
Proof. exact skip_auto_exact. Qed.

(* On every strict prefix a of the item (ser e = a ++ x :: t) skip reports end of input; it never stops early. *)
Theorem C06_prefix : forall e a x t p L fuel,
  wf e = true -> utf8_ok e = true -> len (ser e) < 18446744073709551616 ->
  ser e = a ++ x :: t -> p + len a <= L -> (length a < fuel)%nat ->
  exists q, skip_alloc fuel (mkdst p a L) = (Err EndOfInput, q).
Proof. exact skip_prefix. Qed.

Theorem C06_prefix_auto : forall e a x t p L,
  wf e = true -> utf8_ok e = true -> len (ser e) < 18446744073709551616 ->
  ser e = a ++ x :: t -> p + len a <= L ->
  exists q, skip_auto cfg_full (mkdst p a L) = (Err EndOfInput, q).
Proof. exact skip_auto_prefix. Qed.

(* Without `alloc`: the same Ok at the same position, or the documented unsupported-nesting error
   (Err Message) — never another position, never another outcome. *)
Theorem C06_noalloc : forall e rest p L fuel,
  wf e = true -> utf8_ok e = true -> len (ser e) < 18446744073709551616 -> p + len (ser e) <= L ->
  (length (ser e) <= fuel)%nat ->
  skip_noalloc fuel (mkdst p (ser e ++ rest) L) = (Ok tt, mkdst (p + len (ser e)) rest L)
  \/ exists q, skip_noalloc fuel (mkdst p (ser e ++ rest) L) = (Err Message, q).
Proof. exact skip_noalloc_sound. Qed.

(* ... and Ok whenever no indefinite array/map lies below a definite array/map (noalloc_ok, Spec/Acc.v):
   then no indefinite header is met while nrounds >= 2. *)
Theorem C06_noalloc_ok : forall e rest p L fuel,
  wf e = true -> utf8_ok e = true -> noalloc_ok e = true -> len (ser e) < 18446744073709551616 ->
  p + len (ser e) <= L -> (length (ser e) <= fuel)%nat ->
  skip_noalloc fuel (mkdst p (ser e ++ rest) L) = (Ok tt, mkdst (p + len (ser e)) rest L).
Proof. exact skip_noalloc_exact. Qed.

(* ... and on a strict prefix it is an error as well (end of input, or the unsupported-nesting error). *)
Theorem C06_noalloc_prefix : forall e a x t p L fuel,
  wf e = true -> utf8_ok e = true -> len (ser e) < 18446744073709551616 ->
  ser e = a ++ x :: t -> p + len a <= L -> (length a < fuel)%nat ->
  exists err q, skip_noalloc fuel (mkdst p a L) = (Err err, q) /\ (err = EndOfInput \/ err = Message).
Proof. exact skip_noalloc_prefix. Qed.

(* Whatever the input (no well-formedness assumed): the build without alloc either answers Err Message or
   answers exactly what the build with alloc answers, with the same final state. *)
Theorem C06_noalloc_refines : forall fuel st r st',
  skip_noalloc fuel st = (r, st') -> r = Err Message \/ skip_alloc fuel st = (r, st').
Proof. exact SkipNoalloc.noalloc_refines. Qed.

(* skip's end position is the reference parser's (Spec/Cbor.v parse): same rest of input. *)
Corollary C06_agrees : forall e rest p L,
  wf e = true -> utf8_ok e = true -> len (ser e) < 18446744073709551616 -> p + len (ser e) <= L ->
  exists q, parse (S (length (ser e ++ rest))) (ser e ++ rest) = Some (e, drest q)
         /\ skip_auto cfg_full (mkdst p (ser e ++ rest) L) = (Ok tt, q)
         /\ dpos q = p + len (ser e) /\ drest q = rest.
Proof. exact skip_agrees_parse. Qed.

(* ---- the hypotheses are satisfiable by non-trivial instances ---- *)
(* [1, [_ {"a": [_ ]}, 2(h'0102' chunked)], {_ 0: [[_ -4]]}, "é" chunked] with mixed head widths:
   definite inside indefinite inside definite, both modes of the algorithm, a tag, chunked strings *)
Definition C06_example : enc :=
  EArray W1 [ EUInt W0 1;
              EArrayI [ EMap W1 [ EText W0 [97]; EArrayI [] ]; ETag W0 2 (EBytesI [(W0, [1; 2]); (W1, [])]) ];
              EMapI [ EUInt W2 0; EArray W0 [ EArrayI [ ENInt W0 3 ] ] ];
              ETextI [(W0, [195; 169])] ].

Example C06_skip_example :
  wf C06_example = true /\ utf8_ok C06_example = true /\ noalloc_ok C06_example = false
  /\ (len (ser C06_example) <? 18446744073709551616) = true
  /\ skip_auto cfg_full (mkdst 5 (ser C06_example ++ [255; 0]) 100) = (Ok tt, mkdst (5 + len (ser C06_example)) [255; 0] 100)
  /\ (exists q, skip_noalloc 100 (mkdst 5 (ser C06_example ++ [255; 0]) 100) = (Err Message, q))
  /\ (exists q, skip_auto cfg_full (mkdst 5 (firstn 20 (ser C06_example)) 100) = (Err EndOfInput, q)).
Proof. vm_compute. repeat split; eexists; reflexivity. Qed.

(* an item in the class noalloc_ok: indefinite containers above, definite ones below *)
Definition C06_example_noalloc : enc :=
  ETag W1 0 (EArrayI [ EMapI [ EUInt W0 1; EArray W0 [ EMap W0 [ESimple 22; EF16 15360]; EBytesI [] ] ]; EArrayI [] ]).

Example C06_noalloc_example :
  wf C06_example_noalloc = true /\ utf8_ok C06_example_noalloc = true /\ noalloc_ok C06_example_noalloc = true
  /\ skip_noalloc 100 (mkdst 0 (ser C06_example_noalloc ++ [7]) 50) = (Ok tt, mkdst (len (ser C06_example_noalloc)) [7] 50).
Proof. vm_compute. repeat split. Qed.

(* why utf8_ok is a hypothesis: a well-formed text string that is not UTF-8 is rejected, not skipped *)
Example C06_text_validated :
  wf (EText W0 [255]) = true /\ utf8_ok (EText W0 [255]) = false
  /\ skip_auto cfg_full (start (ser (EText W0 [255]))) = (Err Utf8, mkdst 2 [] 2).
Proof. vm_compute. repeat split. Qed.

Print Assumptions C06_skip.
Print Assumptions C06_skip_auto.
Print Assumptions C06_prefix.
Print Assumptions C06_prefix_auto.
Print Assumptions C06_noalloc.
Print Assumptions C06_noalloc_ok.
Print Assumptions C06_noalloc_prefix.
Print Assumptions C06_noalloc_refines.
Print Assumptions C06_agrees.
