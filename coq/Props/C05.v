(* Props/C05.v — pinned statements for property C05 (integer decoding is value-preserving across
   widths; it never wraps or truncates). *)
From MC Require Import Bytes Monad Cbor Decoder Acc Accessors DecoderFacts IntFacts IntConv IntConvFacts.
Local Open Scope N_scope.

(* For every well-formed item e (any head width), at any position in any input, each of the nine
   integer accessors (u8..u64, i8..i64, Int) returns exactly the integer the data model assigns to e
   and stops right after it, if and only if e is an integer item whose value is representable in the
   accessor's type; otherwise it returns an error (spec_acc says which). *)
Theorem C05_ints : forall c a e r p L,
  int_accessor a = true -> wf e = true -> p + len (ser e) <= L ->
  agrees (run_acc c a (mkdst p (ser e ++ r) L)) (spec_acc a e) p r L.
Proof. exact int_accessors_agree. Qed.

(* The reported data type of an integer item names a type whose accessor accepts the item. *)
Theorem C05_datatype : forall c e r p L,
  is_int_item e = true -> wf e = true -> p + len (ser e) <= L ->
  exists t a v, datatype (mkdst p (ser e ++ r) L) = (Ok t, mkdst p (ser e ++ r) L)
             /\ acc_of_ctype t = Some a
             /\ run_acc c a (mkdst p (ser e ++ r) L) = (Ok v, mkdst (p + len (ser e)) r L).
Proof. exact datatype_accepts. Qed.

(* data::Int covers exactly [-2^64, 2^64-1]: construction from an i128 succeeds iff the value is in that
   range and then denotes it … *)
Theorem C05_Int_from_i128 : forall z,
  match int_of_i128 z with
  | Some i => int_ok i /\ int_val i = z
  | None => (z < -18446744073709551616 \/ 18446744073709551615 < z)%Z
  end.
Proof. exact int_of_i128_exact. Qed.

(* … and every conversion out of Int is exact when it succeeds and fails exactly outside the target range
   (max = the target type's MAX; the lower bound is 0 resp. -1-max). *)
Theorem C05_Int_to_unsigned : forall max i, (0 <= max <= 18446744073709551615)%Z -> int_ok i ->
  int_to_unsigned max i = if ((0 <=? int_val i) && (int_val i <=? max))%Z then Some (int_val i) else None.
Proof. exact int_to_unsigned_exact. Qed.

Theorem C05_Int_to_signed : forall max i, (0 <= max <= 9223372036854775807)%Z -> int_ok i ->
  int_to_signed max i = if ((-1 - max <=? int_val i) && (int_val i <=? max))%Z then Some (int_val i) else None.
Proof. exact int_to_signed_exact. Qed.

(* the hypotheses are satisfiable by non-trivial instances *)
Example C05_ints_example :
  run_acc cfg_full AI16 (mkdst 3 (ser (ENInt W2 32767) ++ [7]) 100) = (Ok (VZ (-32768)), mkdst 6 [7] 100)
  /\ spec_acc AI16 (ENInt W2 32768) = XErr /\ wf (ENInt W2 32768) = true.
Proof. vm_compute. auto. Qed.

Print Assumptions C05_ints.
Print Assumptions C05_datatype.
Print Assumptions C05_Int_from_i128.
Print Assumptions C05_Int_to_unsigned.
Print Assumptions C05_Int_to_signed.
