(* Props/C07d.v — pinned statements for property C07, derived part (the derived CborLen is exact).
   To be merged into Props/C07.v next to C07_types. *)
From MC Require Import Bytes Encoder Types DeriveSchema DeriveEnc DeriveLen DeriveKnown DeriveFacts DeriveLenFacts DeriveClosed.
Local Open Scope N_scope.

(* For every schema the macros accept, every definition d of it and every value v the derived encoder
   accepts: outside the classes F6 (map header sized from the declared field count) and F7 (tagged nil
   field written as `tag null` inside an array) the derived cbor_len is exactly the number of bytes the
   derived encoder writes.
   Hypothesis (to be discharged with C07_types at merge time): the CborLen impl of every built-in leaf
   type occurring in the schema (predicate okty) is exact. *)
Theorem C07_derived_gen : forall (okty : ty -> Prop),
  (forall t, okty t -> forall v cs, encode_ty t v = Some cs -> len_ty t v = len (flat cs)) ->
  forall Sc d v cs, schema_ok Sc = true -> schema_all okty Sc ->
  gen_encode Sc d v = Some cs -> known_len_derived Sc d v = false ->
  gen_len Sc d v = len (flat cs).
Proof. exact gen_len_exact. Qed.

(* The same with the hypothesis discharged by C07_types: for every schema whose built-in leaf types are
   well-formed descriptors (leaf_ok: ty_ok, no Option directly around an Option, no bare Tag). *)
Theorem C07_derived : forall Sc, schema_ok Sc = true -> schema_all leaf_ok Sc ->
  forall d v cs, gen_encode Sc d v = Some cs -> known_len_derived Sc d v = false ->
  gen_len Sc d v = len (flat cs).
Proof. exact gen_len_exact_closed. Qed.

(* F6: 24 declared Option fields under map encoding, none present: one byte written, cbor_len 2. *)
Theorem C07_map_header_refuted :
  schema_ok f6_schema = true /\ known_len_derived f6_schema 0 f6_value = true /\
  exists cs, gen_encode f6_schema 0 f6_value = Some cs /\ flat cs = [160] /\ gen_len f6_schema 0 f6_value = 2.
Proof. exact f6_refuted. Qed.

(* F7: { #[n(0)] #[cbor(tag(5))] a: Option<u8> = None, #[n(1)] b: u8 = 1 }: 82 c5 f6 01 written, cbor_len 3. *)
Theorem C07_tagged_nil_refuted :
  schema_ok f7_schema = true /\ known_len_derived f7_schema 0 f7_value = true /\
  exists cs, gen_encode f7_schema 0 f7_value = Some cs /\ flat cs = [130; 197; 246; 1] /\ gen_len f7_schema 0 f7_value = 3.
Proof. exact f7_refuted. Qed.

(* the hypotheses of C07_derived are satisfiable by a non-trivial instance: the F7 schema with the tagged
   field present lies outside both classes *)
Example C07_derived_example :
  schema_ok f7_schema = true /\ known_len_derived f7_schema 0 (VList [VSome (VNat 2); VNat 1]) = false /\
  exists cs, gen_encode f7_schema 0 (VList [VSome (VNat 2); VNat 1]) = Some cs /\ flat cs = [130; 197; 2; 1]
             /\ gen_len f7_schema 0 (VList [VSome (VNat 2); VNat 1]) = 4.
Proof. vm_compute. repeat split. eexists. repeat split. Qed.

Print Assumptions C07_derived_gen.
Print Assumptions C07_derived.
Print Assumptions C07_map_header_refuted.
Print Assumptions C07_tagged_nil_refuted.
