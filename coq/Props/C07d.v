(* Props/C07d.v — pinned statements for property C07, derived part (the derived CborLen is exact).
   To be merged into Props/C07.v next to C07_types. *)
From MC Require Import Bytes Encoder Types DeriveSchema DeriveEnc DeriveLen DeriveKnown DeriveFacts DeriveLenFacts DeriveClosed.
Local Open Scope N_scope.

(* For every schema the macros accept, every definition d of it and every value v the derived encoder accepts,
   the derived cbor_len is exactly the number of bytes the derived encoder writes (F6 and F7 are repaired: the map
   header is sized from the entries written, the tags of nil fields inside an array are counted).
   Hypothesis: the CborLen impl of every built-in leaf type occurring in the schema (predicate okty) is exact. *)
Theorem C07_derived_gen : forall (okty : ty -> Prop),
  (forall t, okty t -> forall v cs, encode_ty t v = Some cs -> len_ty t v = len (flat cs)) ->
  forall Sc d v cs, schema_ok Sc = true -> schema_all okty Sc ->
  gen_encode Sc d v = Some cs -> gen_len Sc d v = len (flat cs).
Proof. exact gen_len_exact. Qed.

(* The same with the hypothesis discharged by C07_types: for every schema whose built-in leaf types are
   well-formed descriptors (leaf_ok: ty_ok, no Option directly around an Option, no bare Tag). *)
Theorem C07_derived : forall Sc, schema_ok Sc = true -> schema_all leaf_ok Sc ->
  forall d v cs, gen_encode Sc d v = Some cs -> gen_len Sc d v = len (flat cs).
Proof. exact gen_len_exact_closed. Qed.

(* the former witness of F6 — 24 declared Option fields under map encoding, none present: a0, cbor_len 1 *)
Example C07_map_header_example : schema_ok f6_schema = true /\
  option_map flat (gen_encode f6_schema 0 f6_value) = Some [160] /\ gen_len f6_schema 0 f6_value = 1.
Proof. exact f6_repaired. Qed.

(* the former witness of F7 — { #[n(0)] #[cbor(tag(5))] a: None, #[n(1)] b: 1 }: 82 c5 f6 01, cbor_len 4 *)
Example C07_tagged_nil_example : schema_ok f7_schema = true /\
  option_map flat (gen_encode f7_schema 0 f7_value) = Some [130; 197; 246; 1] /\ gen_len f7_schema 0 f7_value = 4.
Proof. exact f7_repaired. Qed.

Print Assumptions C07_derived_gen.
Print Assumptions C07_derived.
