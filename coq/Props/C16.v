(* Props/C16.v — pinned statements for property C16 (AsyncWriter delivers whole frames in order).
   Nothing but statements closed by `exact`; proofs live in Proofs/AsyncIoFacts.v.
   Vocabulary (Model/AsyncIo.v): a sink records the slice each inner poll_write accepted (k_out) and has a script
   with one outcome per inner poll_write (KAccept k: min(k, offered) bytes — k = 0 is the accept-0 case —,
   KPend, KErr; after the script: everything offered).  aw_run writes the values in order under the caller
   protocol of the property (after every Pending: poll again or drop; a dropped or failed write is followed by
   sync, re-created when dropped or failed, until it returns Ok), then calls sync once on the idle writer.
   enc_res is the outcome of encoding a value (payload, or failure after some bytes); enc_fits max e: an accepted
   payload is shorter than 2^32 (always true for max < 2^32, i.e. for every max_len the API can set);
   frame_part max e = the frame of e if it encodes and |payload| <= max, else nothing.
   Interleaved operations (second half of this file; proofs in Proofs/AsyncIoOpsFacts.v): the inner object has a
   second scripted method poll_flush (osink = the asink above + a script KfReady / KfPend / KfErr, then Ready);
   aw_op (OpFlush cs) is one call of AsyncWriter::flush under the caller decisions cs (after every Pending poll
   again or drop), aw_op (OpSetMax v) one call of set_max_len; aw_run_ops is aw_run with a stream of gaps, one
   gap (a list of operations) consumed wherever the caller holds no pending future: before each write, before
   each (re-)issued sync - i.e. also between a cancelled or failed write and its sync, and between syncs - and
   before the final sync.  Its events: per value (events of the gap before the write, events of the session),
   OEvW (write / sync event), OEvF (flush result, FlDropped = future dropped), OEvM v (set_max_len v).
   last_max m evs = the argument of the last OEvM in evs (m if none); frames_ops / evss_ok judge every value
   against the max_len in force when its write was issued. *)
From MC Require Import Bytes FrameIo FrameIoFacts AsyncIo AsyncIoFacts AsyncIoOpsFacts.
Local Open Scope N_scope.

(* Every list of values, every sink script, every caller script: the sink holds exactly the complete frames
   of the accepted values in order; the writer ends idle; the final sync returns Ok; a completed write returns
   its payload length and a refused value yields its error followed by an immediate sync Ok (evs_ok); the
   number of WriteZero errors equals the number of accept-0 outcomes consumed. *)
Theorem C16_frames : forall max es sched calls b0 c0,
  Forall (enc_fits max) es ->
  exists evss w' k',
    aw_run calls es (mkawriter b0 max WNone) (mkasink [] sched c0) = (evss, SyReady SOk, w', k') /\
    aw_state w' = WNone /\
    concat (k_out k') = concat (map (frame_part max) es) /\
    Forall2 (evs_ok max) es evss /\
    (length (filter is_wz (concat evss)) + nzero (k_sched k') = nzero sched)%nat.
Proof. exact aio_write_frames. Qed.

(* The same with the only assumption the real API needs: max_len is a u32 (AsyncWriter::set_max_len). *)
Theorem C16_frames_u32 : forall max es sched calls b0 c0,
  max < 4294967296 ->
  exists evss w' k',
    aw_run calls es (mkawriter b0 max WNone) (mkasink [] sched c0) = (evss, SyReady SOk, w', k') /\
    aw_state w' = WNone /\
    concat (k_out k') = concat (map (frame_part max) es) /\
    Forall2 (evs_ok max) es evss /\
    (length (filter is_wz (concat evss)) + nzero (k_sched k') = nzero sched)%nat.
Proof. exact aio_write_frames_u32. Qed.

(* The invariant behind it, at the granularity of one poll: sink = base ++ first o bytes of the buffered frame,
   o only moves forward, Ok exactly when the frame is complete.  A drop changes neither writer nor sink. *)
Theorem C16_invariant : forall w k o base fu,
  aw_state w = WriteFrom o -> o <= len (aw_buf w) -> len (aw_buf w) < two64 ->
  (fu = SStart \/ (fu = SAtWrite /\ o < len (aw_buf w))) ->
  concat (k_out k) = base ++ firstn (N.to_nat o) (aw_buf w) ->
  exists res w' k', sync_poll (asink_fuel k) fu w k = (res, w', k') /\ aw_buf w' = aw_buf w /\
    ((aw_state w' = WNone /\ res = SyReady SOk /\ concat (k_out k') = base ++ aw_buf w) \/
     (exists o', aw_state w' = WriteFrom o' /\ o <= o' /\ o' < len (aw_buf w) /\
        concat (k_out k') = base ++ firstn (N.to_nat o') (aw_buf w) /\
        (res = SyPend \/ res = SyReady (SErr IoInner) \/ res = SyReady (SErr IoWriteZero)))).
Proof. exact sync_poll_inv. Qed.

(* One value from an idle writer, any sink and caller script. *)
Theorem C16_call : forall calls e w k,
  aw_state w = WNone -> enc_fits (aw_max w) e ->
  exists evs c' w' k', aw_write_call calls e w k = (evs, c', w', k') /\ call_post e w k evs w' k'.
Proof. exact aw_write_call_spec. Qed.

(* sync on an idle writer writes nothing. *)
Theorem C16_idle : forall fuel w k, aw_state w = WNone -> sync_poll fuel SStart w k = (SyReady SOk, w, k).
Proof. exact sync_idle. Qed.

(* A sink that accepts 0 bytes of a non-empty offer: WriteZero; offset, buffer and state unchanged. *)
Theorem C16_zero : forall fuel w k o t c out,
  aw_state w = WriteFrom o -> o < len (aw_buf w) -> k = mkasink out (KAccept 0 :: t) c ->
  sync_poll fuel SStart w k = (SyReady (SErr IoWriteZero), w, mkasink (out ++ [[]]) t (c + 1)).
Proof. exact sync_zero. Qed.

(* Encode failure or over-long value, in any writer state: the error is returned by the first poll, the sink
   is not called, the state enum is unchanged (the buffer is overwritten). *)
Theorem C16_reject : forall fuel e w k,
  frame_part (aw_max w) e = [] ->
  exists er b, aw_poll fuel WfStart e w k = (WReady (WErr er), mkawriter b (aw_max w) (aw_state w), k) /\
    er = match e with EncOk _ => IoInvalidLen | EncFail _ => IoEncode end.
Proof. exact aw_poll_reject. Qed.

(* Inside the caller protocol every write starts on an idle writer (C16_call ends idle), so a refused value
   meets State::None: no sink call (the sink is returned unchanged), the writer stays idle, its events are the
   error and an immediate sync Ok, and every later sync is the idle sync.  (A refusal over a still-armed state,
   notes/io.md observation 3, needs a write issued before a cancelled write was synced: outside the protocol.) *)
Theorem C16_reject_in_protocol : forall calls e w k,
  aw_state w = WNone -> frame_part (aw_max w) e = [] ->
  exists evs c' w',
    aw_write_call calls e w k = (evs, c', w', k) /\ aw_state w' = WNone /\
    evs = [EvW (WErr (match e with EncOk _ => IoInvalidLen | EncFail _ => IoEncode end)); EvS SOk] /\
    forall fuel, sync_poll fuel SStart w' k = (SyReady SOk, w', k).
Proof. exact aio_reject_in_protocol. Qed.

(* ---- flush and set_max_len interleaved by the caller ---- *)

(* One poll of a flush future: the writer (buffer, state with its offset, max_len) is returned as it is, and so
   is the poll_write part of the sink (no bytes, no poll_write call). *)
Theorem C16_flush_poll_neutral : forall w s p w' s',
  aw_flush_poll w s = (p, w', s') -> w' = w /\ os_w s' = os_w s.
Proof. exact flush_poll_neutral. Qed.

(* One call of flush under any caller script - polled to completion, failed, or dropped while pending: the same,
   and the call ends (the fuel the run gives it is never exhausted). *)
Theorem C16_flush_neutral : forall cs w s,
  exists r f', aw_op (OpFlush cs) w s = (OEvF r, w, mkosink (os_w s) f') /\ r <> FlFuel.
Proof. exact flush_neutral. Qed.

(* set_max_len changes nothing but aw_max (the sink is not touched), and no poll of a sync future - fresh or
   resumed - depends on aw_max: the frame in flight is sent exactly as it would have been. *)
Theorem C16_set_max_len_neutral : forall v w s,
  exists w', aw_op (OpSetMax v) w s = (OEvM v, w', s) /\
    aw_buf w' = aw_buf w /\ aw_state w' = aw_state w /\ aw_max w' = v /\
    forall fuel fu k, sync_poll fuel fu w' k = let '(r, w1, k1) := sync_poll fuel fu w k in (r, aw_set_max_len w1 v, k1).
Proof. exact set_max_len_neutral. Qed.

(* C16_frames for caller scripts with arbitrary flush / set_max_len operations in every gap.  Hypotheses: what the
   API type gives - the initial max_len and every set_max_len argument is a u32.  The sink holds exactly the
   complete frames, in order, of the values accepted under the max_len in force when their write was issued
   (frames_ops); the writer ends idle; the final sync returns Ok; per value the write / sync events are those of
   C16_frames (evss_ok) and the gaps contain none; #WriteZero = #accept-0 consumed. *)
Theorem C16_frames_ops : forall max es sched fsched calls gaps b0 c0 fc0,
  max < 4294967296 -> gaps_u32 gaps ->
  exists evss fin w' s',
    aw_run_ops calls gaps es (mkawriter b0 max WNone) (mkosink (mkasink [] sched c0) (mkfsink fsched fc0))
      = (evss, fin, SyReady SOk, w', s') /\
    aw_state w' = WNone /\ wevs_of fin = [] /\
    concat (k_out (os_w s')) = frames_ops max es evss /\
    evss_ok max es evss /\
    (length (filter is_wz (all_wevs evss)) + nzero (k_sched (os_w s')) = nzero sched)%nat.
Proof. exact aio_write_frames_ops. Qed.

Print Assumptions C16_frames.
Print Assumptions C16_invariant.
Print Assumptions C16_call.
Print Assumptions C16_idle.
Print Assumptions C16_zero.
Print Assumptions C16_reject.
Print Assumptions C16_frames_u32.
Print Assumptions C16_reject_in_protocol.
Print Assumptions C16_flush_poll_neutral.
Print Assumptions C16_flush_neutral.
Print Assumptions C16_set_max_len_neutral.
Print Assumptions C16_frames_ops.
