(* Props/C11.v — pinned statements for property C11 (token streams are faithful). *)
From MC Require Import Bytes Monad Cbor Utf8 Half Decoder Encoder Token Tokenizer Toks TokenFacts RetokFacts ConverseFacts.
Local Open Scope N_scope.

(* For every sequence of well-formed items es (any head widths, any nesting, indefinite containers and
   chunked strings included) whose text chunks are valid UTF-8 and whose half floats are not signalling
   NaNs: the tokenizer yields, without error, exactly the spec-side token walk of the items
   (Spec/Toks.v: one token per head, one Break per indefinite container); Encoder::tokens accepts these
   tokens; and the bytes it writes are the same items with every head in its shortest form
   (indefinite structure kept). *)
Theorem C11_retokenise : forall c es,
  Forall (fun e => wf e = true /\ utf8_ok e = true /\ no_snan16 e = true) es ->
  len (flat_map ser es) < two64 ->
  exists cs, tokenise c (flat_map ser es) = Ok (map IOk (flat_map toks es))
          /\ enc_tokens (flat_map toks es) = Some cs
          /\ flat cs = flat_map ser (map prefer es).
Proof. exact retokenise. Qed.

(* ... hence the input itself when it already is in preferred form. *)
Theorem C11_identity : forall c es,
  Forall (fun e => wf e = true /\ utf8_ok e = true /\ no_snan16 e = true /\ prefer e = e) es ->
  len (flat_map ser es) < two64 ->
  exists cs, tokenise c (flat_map ser es) = Ok (map IOk (flat_map toks es))
          /\ enc_tokens (flat_map toks es) = Some cs
          /\ flat cs = flat_map ser es.
Proof. exact retokenise_identity. Qed.

(* The side condition on half floats is exact: a 16-bit pattern survives f16 -> f32 -> f16 (what
   Decoder::f16 followed by Encoder::f16 does) iff it is not a signalling NaN.  All 2^16 patterns. *)
Theorem C11_snan_exact : forall b, b < 65536 -> (f32_to_f16 (f16_to_f32 b) =? b) = negb (snan16 b).
Proof. exact snan16_exact. Qed.

(* Every token carries the data-model value of its head: integer tokens the integer whatever the
   Rust type chosen, string tokens the bytes, headers their length / tag, simple values their number
   (Bool/Null/Undefined = simple 20..23), floats their bits. *)
Theorem C11_values : forall c es,
  Forall (fun e => wf e = true /\ utf8_ok e = true) es -> len (flat_map ser es) < two64 ->
  exists ts, tokenise c (flat_map ser es) = Ok (map IOk ts) /\ map tok_val ts = flat_map head_vals es.
Proof. exact retokenise_values. Qed.

(* Conversely every sequence of tokens whose payloads are in the range of their Rust types, with
   F16 payloads exactly representable in half precision and strings valid UTF-8, is accepted by
   Encoder::tokens, and tokenising the bytes written yields, without error, as many tokens with the
   same values (U32(5) may come back as U8(5), Simple(20) as Bool(false), Int variants by numeric
   value).  Simple(24..=31) is included: it is written as f8 18..f8 1f and read back as the same token;
   that those two bytes are not a well-formed RFC 8949 item is finding F2b (C03_simple_reserved_refuted) —
   C11_retokenise / C11_identity / C11_values, which start from well-formed items, do not cover them. *)
Theorem C11_converse : forall c ts, tokens_ok ts = true ->
  exists cs, enc_tokens ts = Some cs /\
    (len (flat cs) < two64 ->
     exists ts', tokenise c (flat cs) = Ok (map IOk ts') /\ map tok_val ts' = map tok_val ts).
Proof. exact converse. Qed.

(* On arbitrary bytes (no well-formedness assumed; any slice is shorter than 2^64) the tokenizer
   iterator, run with fuel |bs| + 1, never runs out of fuel and never panics; it yields at most one
   token per input byte — more precisely one byte per token plus the payload bytes of string tokens —
   and an error token, if any, is the last one (hence there is at most one). *)
Theorem C11_bound : forall c bs, len bs < two64 ->
  exists l, tokenise c bs = Ok l
         /\ (length l <= length bs)%nat
         /\ weight l <= len bs
         /\ (forall l1 e l2, l = l1 ++ IErr e :: l2 -> l2 = []).
Proof. exact tokenise_bound. Qed.

(* CborLen for Token is exact (the token clause of C07): whenever Token::encode succeeds, the number
   of bytes it writes is what Token::cbor_len announces — for every token, every payload. *)
Theorem C11_len : forall t cs, enc_token t = Some cs -> len (flat cs) = len_token t.
Proof. exact len_token_exact. Qed.

(* the hypotheses are satisfiable by non-trivial instances *)
Example C11_retokenise_example :
  let es := [EArray W1 [ENInt W2 5; ETextI [(W0, [97]); (W1, [98])]]; EMapI [EF16 15360; ESimple 20]] in
  forallb (fun e => wf e && utf8_ok e && no_snan16 e) es = true
  /\ tokenise cfg_full (flat_map ser es)
     = Ok (map IOk [TkArray 2; TkI16 (-6); TkBeginString; TkString [97]; TkString [98]; TkBreak;
                    TkBeginMap; TkF16 1065353216; TkBool false; TkBreak])
  /\ flat_map ser (map prefer es) <> flat_map ser es.
Proof. vm_compute. repeat split; try reflexivity. discriminate. Qed.

Example C11_converse_example :
  tokens_ok [TkU32 5; TkSimple 20; TkInt (true, 300); TkF16 1065353216; TkString [226;130;172]] = true
  /\ tokens_ok [TkSimple 24; TkSimple 31; TkSimple 255] = true
  /\ tokens_ok [TkSimple 256] = false /\ tokens_ok [TkF16 1065353217] = false.
Proof. vm_compute. auto. Qed.

(* F2b seen through the token codec: Token::Simple(24) is written as f8 18 and read back as Simple(24),
   although f8 18 is not a well-formed item. *)
Example C11_converse_reserved_example :
  option_map flat (enc_tokens [TkSimple 24]) = Some [248; 24]
  /\ tokenise cfg_full [248; 24] = Ok [IOk (TkSimple 24)]
  /\ one_item [248; 24] = None.
Proof. vm_compute. auto. Qed.

Print Assumptions C11_retokenise.
Print Assumptions C11_identity.
Print Assumptions C11_snan_exact.
Print Assumptions C11_values.
Print Assumptions C11_converse.
Print Assumptions C11_bound.
Print Assumptions C11_len.
