(* Props/C04.v — pinned statements for property C04 (typed decoding agrees with the RFC 8949 data model
   on every well-formed encoding).

   Reading guide.  `spec_acc a e` (Spec/Acc.v) is what the data model assigns to the well-formed item e
   when it is read through accessor a: `XOk v k` (value v, exactly k bytes consumed), `XErr` (the item
   does not have the accessor's shape or the value is not representable: an error is required, "never
   a different value") or `XAny` (not constrained here: the float-widening arms and f16 values belong
   to C12, `simple()` on the four values 20..23 is an error in the crate).  `run_acc c a` (Model/
   Accessors.v) is the transliterated accessor of decoder.rs under feature configuration c.
   `agrees_at res x p inp L` says that outcome res meets expectation x when the decoder stood at
   position p of a buffer of length L with inp remaining: for `XOk v k` the outcome is `Ok v`, the
   position is p + k and the remaining input is inp without its first k bytes.
   All accessors are covered except `skip` (property C06).

   The model returns values, not pointers: C04_borrow* state that a returned payload / chunk is a
   contiguous slice of the input lying inside the item; the harness additionally checks the real
   pointer ranges of the borrowed results at run time. *)
From MC Require Import Bytes Monad Cbor Utf8 Decoder Acc Accessors DecoderFacts IntFacts
  AccFacts AccAgreeFacts AccPrefixFacts AccBorrowFacts.
Local Open Scope N_scope.

(* 1. Every accessor, on every well-formed item (any head width, definite or indefinite), at any
   position of any input: the matching accessor returns exactly the data-model value and consumes
   exactly the specified bytes; a non-matching accessor returns an error. *)
Theorem C04_accessors : forall c a e r p L,
  acc_in_scope a = true -> wf e = true -> p + len (ser e) <= L ->
  agrees_at (run_acc c a (mkdst p (ser e ++ r) L)) (spec_acc a e) p (ser e ++ r) L.
Proof. exact accessors_agree. Qed.

(* the same in the form of C05 (the remaining input is r) for the accessors that read a whole item *)
Theorem C04_accessors_whole : forall c a e r p L,
  acc_in_scope a = true -> whole_item a = true -> wf e = true -> p + len (ser e) <= L ->
  agrees (run_acc c a (mkdst p (ser e ++ r) L)) (spec_acc a e) p r L.
Proof. exact accessors_agree_whole. Qed.

(* 2. Position: whenever the specification assigns a value, the accessor succeeds and the position
   advances by exactly the bytes of the item, or of its head for array / map / tag. *)
Theorem C04_position : forall c a e r p L v k,
  acc_in_scope a = true -> wf e = true -> p + len (ser e) <= L -> spec_acc a e = XOk v k ->
  run_acc c a (mkdst p (ser e ++ r) L) = (Ok v, mkdst (p + k) (dropN (ser e ++ r) k) L)
  /\ k = consumed a e /\ k <= len (ser e).
Proof. exact position_exact. Qed.

Theorem C04_position_whole : forall c a e r p L v k,
  acc_in_scope a = true -> whole_item a = true -> wf e = true -> p + len (ser e) <= L ->
  spec_acc a e = XOk v k ->
  run_acc c a (mkdst p (ser e ++ r) L) = (Ok v, mkdst (p + len (ser e)) r L).
Proof. exact position_whole. Qed.

Theorem C04_position_start : forall c a e r v k,
  acc_in_scope a = true -> wf e = true -> spec_acc a e = XOk v k ->
  run (run_acc c a) (ser e ++ r) = (Ok v, mkdst k (dropN (ser e ++ r) k) (len (ser e ++ r)))
  /\ k = consumed a e.
Proof. exact position_start. Qed.

(* 3. Borrowed results: the payload returned by bytes()/str() is the contiguous slice of the input
   that follows the item's head and ends with the item. *)
Theorem C04_borrow : forall c a e r p L d s',
  a = ABytes \/ a = AStr -> wf e = true -> p + len (ser e) <= L ->
  run_acc c a (mkdst p (ser e ++ r) L) = (Ok (VBytes d), s') ->
  exists w pre post, (e = EBytes w d \/ e = EText w d)
    /\ ser e ++ r = pre ++ d ++ post /\ head_len w <= len pre /\ len (pre ++ d) <= len (ser e).
Proof. exact borrow_def_slice. Qed.

Theorem C04_borrow_exact : forall c a e r p L d s',
  a = ABytes \/ a = AStr -> wf e = true -> p + len (ser e) <= L ->
  run_acc c a (mkdst p (ser e ++ r) L) = (Ok (VBytes d), s') ->
  exists w pre, (e = EBytes w d \/ e = EText w d)
    /\ ser e ++ r = pre ++ d ++ r /\ len pre = head_len w /\ len pre + len d = len (ser e)
    /\ s' = mkdst (p + len (ser e)) r L.
Proof. exact borrow_def. Qed.

(* the chunks returned by bytes_iter()/str_iter() lie in the item one after the other, in order,
   without overlap, each preceded by at least one byte (its head) *)
Theorem C04_borrow_iter : forall c a e r p L ds s',
  a = ABytesIter \/ a = AStrIter -> wf e = true -> p + len (ser e) <= L ->
  run_acc c a (mkdst p (ser e ++ r) L) = (Ok (VChunks ds), s') ->
  slices ds (ser e) /\ s' = mkdst (p + len (ser e)) r L.
Proof. exact borrow_iter. Qed.

Theorem C04_borrow_iter_each : forall c a e r p L ds s' d,
  a = ABytesIter \/ a = AStrIter -> wf e = true -> p + len (ser e) <= L ->
  run_acc c a (mkdst p (ser e ++ r) L) = (Ok (VChunks ds), s') -> In d ds ->
  exists pre post, ser e ++ r = pre ++ d ++ post /\ 1 <= len pre /\ len (pre ++ d) <= len (ser e).
Proof. exact borrow_iter_each. Qed.

(* chunks of an indefinite string concatenate to the whole (the data-model value) *)
Theorem C04_chunks_concat : forall a e l k,
  spec_acc a e = XOk (VChunks l) k ->
  (a = ABytesIter -> val_of e = IBytes (concat l)) /\ (a = AStrIter -> val_of e = IText (concat l)).
Proof. exact chunks_concat. Qed.

(* text is accepted iff every chunk is well-formed UTF-8 *)
Theorem C04_utf8 : forall c e r p L, wf e = true -> is_text e = true -> p + len (ser e) <= L ->
  (exists v s, run_acc c AStrIter (mkdst p (ser e ++ r) L) = (Ok v, s))
  <-> forallb utf8_valid (text_chunks e) = true.
Proof. exact utf8_iff. Qed.

Theorem C04_utf8_str : forall c w b r p L, wf (EText w b) = true -> p + len (ser (EText w b)) <= L ->
  (exists v s, run_acc c AStr (mkdst p (ser (EText w b) ++ r) L) = (Ok v, s)) <-> utf8_valid b = true.
Proof. exact utf8_str. Qed.

(* 4. Every strict prefix of a well-formed item (of its head, for array / map / tag), read through an
   accessor that matches the item, fails with the end-of-input class: never success, never another
   class.  k ranges over the bytes the accessor would consume. *)
Theorem C04_prefix_acc : forall c a e v n k,
  acc_in_scope a = true -> wf e = true -> spec_acc a e = XOk v n -> N.of_nat k < n ->
  exists q, run_acc c a (start (firstn k (ser e))) = (Err EndOfInput, q).
Proof. exact prefix_eoi. Qed.

(* 5. datatype() reports the RFC classification of every well-formed item and does not move *)
Theorem C04_datatype : forall e r p L, wf e = true ->
  datatype (mkdst p (ser e ++ r) L) = (Ok (spec_type e), mkdst p (ser e ++ r) L).
Proof. exact datatype_spec. Qed.

(* 6. the hypotheses are satisfiable by non-trivial instances *)
(* ex_text, ex_nested: Proofs/AccBorrowFacts.v *)

Example C04_example_chunked_text :
  wf ex_text = true
  /\ spec_acc AStrIter ex_text = XOk (VChunks [[104; 105]; [206; 187]; []]) 10
  /\ run_acc cfg_full AStrIter (mkdst 3 (ser ex_text ++ [7]) 100)
     = (Ok (VChunks [[104; 105]; [206; 187]; []]), mkdst 13 [7] 100)
  /\ spec_acc AStr ex_text = XErr
  /\ run_acc cfg_full AStrIter (start (firstn 6 (ser ex_text))) = (Err EndOfInput, mkdst 6 [] 6)
  /\ spec_acc AStrIter (ETextI [(W0, [104]); (W0, [206])]) = XErr
  /\ wf (ETextI [(W0, [104]); (W0, [206])]) = true.
Proof. vm_compute. repeat split. Qed.

Example C04_example_nested_array :
  wf ex_nested = true
  /\ spec_acc AArray ex_nested = XOk (VLen (Some 3)) 2
  /\ run_acc cfg_full AArray (mkdst 0 (ser ex_nested ++ [7]) 40)
     = (Ok (VLen (Some 3)), mkdst 2 (dropN (ser ex_nested ++ [7]) 2) 40)
  /\ run_acc cfg_full AArray (start (firstn 1 (ser ex_nested))) = (Err EndOfInput, mkdst 1 [] 1)
  /\ spec_acc AMap ex_nested = XErr
  /\ datatype (start (ser ex_nested)) = (Ok TArray, start (ser ex_nested)).
Proof. vm_compute. repeat split. Qed.

Print Assumptions C04_accessors.
Print Assumptions C04_accessors_whole.
Print Assumptions C04_position.
Print Assumptions C04_position_whole.
Print Assumptions C04_position_start.
Print Assumptions C04_borrow.
Print Assumptions C04_borrow_exact.
Print Assumptions C04_borrow_iter.
Print Assumptions C04_borrow_iter_each.
Print Assumptions C04_chunks_concat.
Print Assumptions C04_utf8.
Print Assumptions C04_utf8_str.
Print Assumptions C04_prefix_acc.
Print Assumptions C04_datatype.
