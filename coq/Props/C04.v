(* Props/C04.v — pinned statements for property C04 (typed decoding agrees with the RFC 8949 data model
   on every well-formed encoding).

   Reading guide.  `spec_acc a e` (Spec/Acc.v) is what the data model assigns to the well-formed item e
   when it is read through accessor a: `XOk v k` (value v, exactly k bytes consumed), `XErr` (the item
   does not have the accessor's shape or the value is not representable: an error is required, "never
   a different value") or `XAny` (not constrained here: the float-widening arms and f16 values belong
   to C12, `simple()` on the four values 20..23 is an error in the crate).  `run_acc c a` (Model/
   Accessors.v) is the transliterated accessor of decoder.rs under feature configuration c.
   `agrees_at res x p inp L` says that outcome res meets expectation x when the decoder stood at
   position p of a buffer of length L with inp remaining: for `XOk v k` the outcome is `Ok v`, the
   position is p + k and the remaining input is inp without its first k bytes.
   All accessors are covered except `skip` (property C06).

   The model returns values, not pointers: C04_borrow* state that a returned payload / chunk is a
   contiguous slice of the input lying inside the item; the harness additionally checks the real
   pointer ranges of the borrowed results at run time. *)
From MC Require Import Bytes Monad Cbor Utf8 Decoder Acc Accessors DecoderFacts IntFacts
  AccFacts AccAgreeFacts AccPrefixFacts AccBorrowFacts Encoder Types TypesEnc TypesFacts TypeSem TypeSemFacts TypeSemAgree TypeSemPrefix TypeSemRound TypeSemPos.
Local Open Scope N_scope.

(* 1. Every accessor, on every well-formed item (any head width, definite or indefinite), at any
   position of any input: the matching accessor returns exactly the data-model value and consumes
   exactly the specified bytes; a non-matching accessor returns an error. *)
Theorem C04_accessors : forall c a e r p L,
  acc_in_scope a = true -> wf e = true -> p + len (ser e) <= L ->
  agrees_at (run_acc c a (mkdst p (ser e ++ r) L)) (spec_acc a e) p (ser e ++ r) L.
Proof. exact accessors_agree. Qed.

(* the same in the form of C05 (the remaining input is r) for the accessors that read a whole item *)
Theorem C04_accessors_whole : forall c a e r p L,
  acc_in_scope a = true -> whole_item a = true -> wf e = true -> p + len (ser e) <= L ->
  agrees (run_acc c a (mkdst p (ser e ++ r) L)) (spec_acc a e) p r L.
Proof. exact accessors_agree_whole. Qed.

(* 2. Position: whenever the specification assigns a value, the accessor succeeds and the position
   advances by exactly the bytes of the item, or of its head for array / map / tag. *)
Theorem C04_position : forall c a e r p L v k,
  acc_in_scope a = true -> wf e = true -> p + len (ser e) <= L -> spec_acc a e = XOk v k ->
  run_acc c a (mkdst p (ser e ++ r) L) = (Ok v, mkdst (p + k) (dropN (ser e ++ r) k) L)
  /\ k = consumed a e /\ k <= len (ser e).
Proof. exact position_exact. Qed.

Theorem C04_position_whole : forall c a e r p L v k,
  acc_in_scope a = true -> whole_item a = true -> wf e = true -> p + len (ser e) <= L ->
  spec_acc a e = XOk v k ->
  run_acc c a (mkdst p (ser e ++ r) L) = (Ok v, mkdst (p + len (ser e)) r L).
Proof. exact position_whole. Qed.

Theorem C04_position_start : forall c a e r v k,
  acc_in_scope a = true -> wf e = true -> spec_acc a e = XOk v k ->
  run (run_acc c a) (ser e ++ r) = (Ok v, mkdst k (dropN (ser e ++ r) k) (len (ser e ++ r)))
  /\ k = consumed a e.
Proof. exact position_start. Qed.

(* 3. Borrowed results: the payload returned by bytes()/str() is the contiguous slice of the input
   that follows the item's head and ends with the item. *)
Theorem C04_borrow : forall c a e r p L d s',
  a = ABytes \/ a = AStr -> wf e = true -> p + len (ser e) <= L ->
  run_acc c a (mkdst p (ser e ++ r) L) = (Ok (VBytes d), s') ->
  exists w pre post, (e = EBytes w d \/ e = EText w d)
    /\ ser e ++ r = pre ++ d ++ post /\ head_len w <= len pre /\ len (pre ++ d) <= len (ser e).
Proof. exact borrow_def_slice. Qed.

Theorem C04_borrow_exact : forall c a e r p L d s',
  a = ABytes \/ a = AStr -> wf e = true -> p + len (ser e) <= L ->
  run_acc c a (mkdst p (ser e ++ r) L) = (Ok (VBytes d), s') ->
  exists w pre, (e = EBytes w d \/ e = EText w d)
    /\ ser e ++ r = pre ++ d ++ r /\ len pre = head_len w /\ len pre + len d = len (ser e)
    /\ s' = mkdst (p + len (ser e)) r L.
Proof. exact borrow_def. Qed.

(* the chunks returned by bytes_iter()/str_iter() lie in the item one after the other, in order,
   without overlap, each preceded by at least one byte (its head) *)
Theorem C04_borrow_iter : forall c a e r p L ds s',
  a = ABytesIter \/ a = AStrIter -> wf e = true -> p + len (ser e) <= L ->
  run_acc c a (mkdst p (ser e ++ r) L) = (Ok (VChunks ds), s') ->
  slices ds (ser e) /\ s' = mkdst (p + len (ser e)) r L.
Proof. exact borrow_iter. Qed.

Theorem C04_borrow_iter_each : forall c a e r p L ds s' d,
  a = ABytesIter \/ a = AStrIter -> wf e = true -> p + len (ser e) <= L ->
  run_acc c a (mkdst p (ser e ++ r) L) = (Ok (VChunks ds), s') -> In d ds ->
  exists pre post, ser e ++ r = pre ++ d ++ post /\ 1 <= len pre /\ len (pre ++ d) <= len (ser e).
Proof. exact borrow_iter_each. Qed.

(* chunks of an indefinite string concatenate to the whole (the data-model value) *)
Theorem C04_chunks_concat : forall a e l k,
  spec_acc a e = XOk (VChunks l) k ->
  (a = ABytesIter -> val_of e = IBytes (concat l)) /\ (a = AStrIter -> val_of e = IText (concat l)).
Proof. exact chunks_concat. Qed.

(* text is accepted iff every chunk is well-formed UTF-8 *)
Theorem C04_utf8 : forall c e r p L, wf e = true -> is_text e = true -> p + len (ser e) <= L ->
  (exists v s, run_acc c AStrIter (mkdst p (ser e ++ r) L) = (Ok v, s))
  <-> forallb utf8_valid (text_chunks e) = true.
Proof. exact utf8_iff. Qed.

Theorem C04_utf8_str : forall c w b r p L, wf (EText w b) = true -> p + len (ser (EText w b)) <= L ->
  (exists v s, run_acc c AStr (mkdst p (ser (EText w b) ++ r) L) = (Ok v, s)) <-> utf8_valid b = true.
Proof. exact utf8_str. Qed.

(* 4. Every strict prefix of a well-formed item (of its head, for array / map / tag), read through an
   accessor that matches the item, fails with the end-of-input class: never success, never another
   class.  k ranges over the bytes the accessor would consume. *)
Theorem C04_prefix_acc : forall c a e v n k,
  acc_in_scope a = true -> wf e = true -> spec_acc a e = XOk v n -> N.of_nat k < n ->
  exists q, run_acc c a (start (firstn k (ser e))) = (Err EndOfInput, q).
Proof. exact prefix_eoi. Qed.

(* 5. datatype() reports the RFC classification of every well-formed item and does not move *)
Theorem C04_datatype : forall e r p L, wf e = true ->
  datatype (mkdst p (ser e ++ r) L) = (Ok (spec_type e), mkdst p (ser e ++ r) L).
Proof. exact datatype_spec. Qed.

(* 6. the hypotheses are satisfiable by non-trivial instances *)
(* ex_text, ex_nested: Proofs/AccBorrowFacts.v *)

Example C04_example_chunked_text :
  wf ex_text = true
  /\ spec_acc AStrIter ex_text = XOk (VChunks [[104; 105]; [206; 187]; []]) 10
  /\ run_acc cfg_full AStrIter (mkdst 3 (ser ex_text ++ [7]) 100)
     = (Ok (VChunks [[104; 105]; [206; 187]; []]), mkdst 13 [7] 100)
  /\ spec_acc AStr ex_text = XErr
  /\ run_acc cfg_full AStrIter (start (firstn 6 (ser ex_text))) = (Err EndOfInput, mkdst 6 [] 6)
  /\ spec_acc AStrIter (ETextI [(W0, [104]); (W0, [206])]) = XErr
  /\ wf (ETextI [(W0, [104]); (W0, [206])]) = true.
Proof. vm_compute. repeat split. Qed.

Example C04_example_nested_array :
  wf ex_nested = true
  /\ spec_acc AArray ex_nested = XOk (VLen (Some 3)) 2
  /\ run_acc cfg_full AArray (mkdst 0 (ser ex_nested ++ [7]) 40)
     = (Ok (VLen (Some 3)), mkdst 2 (dropN (ser ex_nested ++ [7]) 2) 40)
  /\ run_acc cfg_full AArray (start (firstn 1 (ser ex_nested))) = (Err EndOfInput, mkdst 1 [] 1)
  /\ spec_acc AMap ex_nested = XErr
  /\ datatype (start (ser ex_nested)) = (Ok TArray, start (ser ex_nested)).
Proof. vm_compute. repeat split. Qed.

Print Assumptions C04_accessors.
Print Assumptions C04_accessors_whole.
Print Assumptions C04_position.
Print Assumptions C04_position_whole.
Print Assumptions C04_position_start.
Print Assumptions C04_borrow.
Print Assumptions C04_borrow_exact.
Print Assumptions C04_borrow_iter.
Print Assumptions C04_borrow_iter_each.
Print Assumptions C04_chunks_concat.
Print Assumptions C04_utf8.
Print Assumptions C04_utf8_str.
Print Assumptions C04_prefix_acc.
Print Assumptions C04_datatype.

(* ------------------------------------------------------------------------------------------------------
   7. The built-in *types* (every `Decode` impl of decode.rs / bytes.rs / data.rs, Model/Types.v decode_ty)
   on EVERY well-formed encoding of an item — any head widths, definite or indefinite arrays / maps / strings,
   any tags — not only on what the matching encoder writes (C01).

   `spec_ty_at alloc t e` (Spec/TypeSem.v) is what the data model assigns to the tree e read as type t, by
   recursion over the descriptor and the tree (no bytes, no positions, no fuel): `TXOk v k` (value v, k bytes
   consumed: the whole item, or the head for a bare `Tag`), `TXErr` (shape mismatch or value not representable:
   an error is required) or `TXAny` (unconstrained: f32/f64 on a narrower float item as for the accessors, and
   items the decoder has to *skip* that skip() may refuse — text that is not UTF-8; without feature `alloc` an
   indefinite array/map below a definite one).  alloc is the one feature the expectation depends on;
   `spec_ty = spec_ty_at true` is what the correspondence check compares the real crate with (S= of DT cases).
   `tag_top t`: no bare `Tag` below a container (it reads only a head, so the readers after it would start
   inside the item); `whole_ty t`: no bare `Tag` at all.  `tagrees_at` / `tagrees` are `agrees_at` / `agrees`
   for typed values; an error is `Err _`, never Panic / OutOfFuel.  The bound len (ser e) < 2^64 says the item
   fits a usize-sized buffer (skip's counters).

   OPEN RECORDS.  The decode_fields! types (Range*, SocketAddrV4/V6, Duration, SystemTime) are array-encoded records of
   the documented derive wire format and ignore elements at indices they do not know; Bound::Unbounded ignores its
   body (both deliberate: forward compatibility, the rule of property C10).  THE SPECIFICATION is therefore
   spec_ty_lenient_at (open records) and the main theorems are C04_types_lenient / _lenient_auto / _lenient_position /
   C04_types_position_any / C04_prefix_types_lenient / _at: ALL well-formed items, no exclusion.  spec_ty_at is the
   closed-record reading (surplus elements are a shape mismatch); `lenient_hit t e` is the class of items on which the
   two differ (real crate: Range<u8> on 83 01 02 03 -> Ok(1..2), Bound<i32> on 82 02 18 ff -> Ok(Unbounded), Duration on
   9f 05 07 61 78 ff -> Ok(5.000000007s); the position is exactly the end of the item).  C04_types / _whole / _success /
   _position / C04_prefix_types state the same for the closed reading outside that class, C04_types_strict_ty for every
   descriptor without such types unconditionally; C04_types_open_record_example_* show the class is inhabited.  (A first
   version took the closed reading for the specification and listed the difference as a candidate finding; that was a
   false alarm of the specification, DESIGN.md 11.4.) *)
Theorem C04_types : forall c t e r p L fuel,
  tag_top t = true -> lenient_hit t e = false -> wf e = true -> p + len (ser e) <= L ->
  len (ser e) < 18446744073709551616 -> (length (ser e ++ r) < fuel)%nat ->
  tagrees_at (decode_ty c t fuel (mkdst p (ser e ++ r) L)) (spec_ty_at (c_alloc c) t e) p (ser e ++ r) L.
Proof. exact types_strict_agree. Qed.

(* the same in the form of C05 (what remains is r) for the descriptors that read a whole item *)
Theorem C04_types_whole : forall c t e r p L fuel,
  whole_ty t = true -> lenient_hit t e = false -> wf e = true -> p + len (ser e) <= L ->
  len (ser e) < 18446744073709551616 -> (length (ser e ++ r) < fuel)%nat ->
  tagrees (decode_ty c t fuel (mkdst p (ser e ++ r) L)) (spec_ty_at (c_alloc c) t e) p r L.
Proof. exact types_strict_agree_whole. Qed.

(* no exclusion at all for descriptors without decode_fields! types and Bound: integers, bool, char, floats,
   NonZero*, strings, byte newtypes, (), Option, Vec-likes, [T; N], maps, tuples, Result / IpAddr, Tagged *)
Theorem C04_types_strict_ty : forall c t e r p L fuel,
  whole_ty t = true -> strict_ty t = true -> wf e = true -> p + len (ser e) <= L ->
  len (ser e) < 18446744073709551616 -> (length (ser e ++ r) < fuel)%nat ->
  tagrees (decode_ty c t fuel (mkdst p (ser e ++ r) L)) (spec_ty_at (c_alloc c) t e) p r L.
Proof. exact types_strict_ty. Qed.

Theorem C04_types_strict_ty_class : forall t, strict_ty t = true -> forall e, lenient_hit t e = false.
Proof. exact strict_ty_no_hit. Qed.

(* position: whenever the specification assigns a value, decoding returns it and the new state is exactly
   the end of the item (no exclusion needed: on the lenient class the specification assigns no value) *)
Theorem C04_types_position : forall c t e r p L fuel v k,
  whole_ty t = true -> wf e = true -> p + len (ser e) <= L -> len (ser e) < 18446744073709551616 ->
  (length (ser e ++ r) < fuel)%nat -> spec_ty_at (c_alloc c) t e = TXOk v k ->
  decode_ty c t fuel (mkdst p (ser e ++ r) L) = (Ok v, mkdst (p + len (ser e)) r L) /\ k = len (ser e).
Proof. exact types_strict_position. Qed.

(* ... and conversely every success on a constrained combination outside the class is the specified value at
   the end of the item ("never a different value", and never a value where an error is specified) *)
Theorem C04_types_success : forall c t e r p L fuel v s',
  whole_ty t = true -> lenient_hit t e = false -> wf e = true -> p + len (ser e) <= L ->
  len (ser e) < 18446744073709551616 -> (length (ser e ++ r) < fuel)%nat -> spec_ty_at (c_alloc c) t e <> TXAny ->
  decode_ty c t fuel (mkdst p (ser e ++ r) L) = (Ok v, s') ->
  spec_ty_at (c_alloc c) t e = TXOk v (len (ser e)) /\ s' = mkdst (p + len (ser e)) r L.
Proof. exact types_strict_success. Qed.

(* MAIN THEOREM: every built-in type on ALL well-formed items against the specification (open records) *)
Theorem C04_types_lenient : forall c t e r p L fuel,
  tag_top t = true -> wf e = true -> p + len (ser e) <= L -> len (ser e) < 18446744073709551616 ->
  (length (ser e ++ r) < fuel)%nat ->
  tagrees_at (decode_ty c t fuel (mkdst p (ser e ++ r) L)) (spec_ty_lenient_at (c_alloc c) t e) p (ser e ++ r) L.
Proof. exact types_agree. Qed.

(* through the entry point the extracted model is run with (fuel = remaining bytes + 1) *)
Theorem C04_types_lenient_auto : forall c t e r,
  tag_top t = true -> wf e = true -> len (ser e ++ r) < 18446744073709551616 ->
  tagrees_at (run (decode_auto c t) (ser e ++ r)) (spec_ty_lenient_at (c_alloc c) t e) 0 (ser e ++ r) (len (ser e ++ r)).
Proof. exact types_agree_auto. Qed.

(* even on the lenient class the position is exact: a success of a whole-item descriptor on any constrained
   combination leaves the state at the end of the item *)
Theorem C04_types_lenient_position : forall c t e r p L fuel v s',
  whole_ty t = true -> wf e = true -> p + len (ser e) <= L -> len (ser e) < 18446744073709551616 ->
  (length (ser e ++ r) < fuel)%nat -> spec_ty_lenient_at (c_alloc c) t e <> TXAny ->
  decode_ty c t fuel (mkdst p (ser e ++ r) L) = (Ok v, s') ->
  spec_ty_lenient_at (c_alloc c) t e = TXOk v (len (ser e)) /\ s' = mkdst (p + len (ser e)) r L.
Proof. exact types_success. Qed.

(* Position, unconditionally: whenever a whole-item descriptor succeeds on a well-formed item all of whose text is
   valid UTF-8 (RFC 8949: a *valid* item), followed by anything, the new state is exactly the end of the item — also
   where the value is not constrained here (float widening, TXAny) and on the lenient class (skipped surplus).
   (utf8_ok only matters for items that are skipped: skip() validates text, C06.) *)
Theorem C04_types_position_any : forall c t e r p L fuel v s',
  whole_ty t = true -> wf e = true -> utf8_ok e = true -> p + len (ser e) <= L -> len (ser e) < 18446744073709551616 ->
  (length (ser e ++ r) < fuel)%nat ->
  decode_ty c t fuel (mkdst p (ser e ++ r) L) = (Ok v, s') -> s' = mkdst (p + len (ser e)) r L.
Proof. exact types_position_any. Qed.

Example C04_types_position_any_example :
  let e := EArrayI [EF16 15360; EF32 0; EF64 1] in
  wf e = true /\ spec_ty (TySeq TyF64) e = TXAny
  /\ exists v, decode_ty cfg_full (TySeq TyF64) 30 (mkdst 2 (ser e ++ [1]) 30) = (Ok v, mkdst (2 + len (ser e)) [1] 30).
Proof. vm_compute. repeat split. eexists. reflexivity. Qed.

(* the class on which the open and the closed reading differ is inhabited: the closed reading says error, the
   specification (and the model, and the real crate) the value of the known fields, at the end of the item *)
Theorem C04_types_open_record_example_range :
  let t := TyFields [TyU B8; TyU B8] in let e := EArray W0 [EUInt W0 1; EUInt W0 2; EUInt W0 3] in
  wf e = true /\ lenient_hit t e = true /\ spec_ty t e = TXErr
  /\ run (decode_auto cfg_full t) (ser e) = (Ok (VList [VNat 1; VNat 2]), mkdst 4 [] 4).
Proof. exact lenient_refuted_range. Qed.

Theorem C04_types_open_record_example_bound :
  let t := TyBound (TyI B32) in let e := EArray W0 [EUInt W0 2; EUInt W1 255] in
  wf e = true /\ lenient_hit t e = true /\ spec_ty t e = TXErr
  /\ run (decode_auto cfg_full t) (ser e) = (Ok (VVar 2 VUnit), mkdst 4 [] 4).
Proof. exact lenient_refuted_bound. Qed.

Theorem C04_types_open_record_example_duration :
  let e := EArrayI [EUInt W0 5; EUInt W0 7; EText W0 [120]] in
  wf e = true /\ lenient_hit TyDuration e = true /\ spec_ty TyDuration e = TXErr
  /\ run (decode_auto cfg_full TyDuration) (ser e) = (Ok (VList [VNat 5; VNat 7]), mkdst 6 [] 6).
Proof. exact lenient_refuted_duration. Qed.

(* 8. Every strict prefix of ANY well-formed encoding of an item to which the specification assigns a value, read
   as that type, fails with the end-of-input class: never a value, never another class, never Panic / OutOfFuel.
   k ranges over the bytes the decoder would consume (the whole item; the head for a bare `Tag`).  This generalises
   C04_prefix_types_partial (Props/C01.v), which needs rt_ok and speaks about the bytes the matching encoder writes.
   Feature alloc is assumed because items that are skipped go through skip(), whose build without alloc may answer
   its documented unsupported-nesting error on a truncated nested item (C06_noalloc_prefix) before reaching the end. *)
Theorem C04_prefix_types : forall c t e v n k fuel,
  c_alloc c = true -> tag_top t = true -> wf e = true -> len (ser e) < 18446744073709551616 ->
  spec_ty_at (c_alloc c) t e = TXOk v n -> N.of_nat k < n -> (k < fuel)%nat ->
  exists q, decode_ty c t fuel (start (firstn k (ser e))) = (Err EndOfInput, q).
Proof. exact types_strict_prefix. Qed.

Theorem C04_prefix_types_auto : forall c t e v n k,
  c_alloc c = true -> tag_top t = true -> wf e = true -> len (ser e) < 18446744073709551616 ->
  spec_ty_at (c_alloc c) t e = TXOk v n -> N.of_nat k < n ->
  exists q, run (decode_auto c t) (firstn k (ser e)) = (Err EndOfInput, q).
Proof. exact types_strict_prefix_auto. Qed.

(* the same on the lenient class (what the code does there), and anywhere in a buffer *)
Theorem C04_prefix_types_lenient : forall c t e v n k fuel,
  c_alloc c = true -> tag_top t = true -> wf e = true -> len (ser e) < 18446744073709551616 ->
  spec_ty_lenient_at (c_alloc c) t e = TXOk v n -> N.of_nat k < n -> (k < fuel)%nat ->
  exists q, decode_ty c t fuel (start (firstn k (ser e))) = (Err EndOfInput, q).
Proof. exact types_prefix. Qed.

Theorem C04_prefix_types_at : forall c t e v n l p L fuel,
  c_alloc c = true -> whole_ty t = true -> wf e = true -> len (ser e) < 18446744073709551616 ->
  spec_ty_lenient_at (c_alloc c) t e = TXOk v n -> sprefix l (ser e) -> p + len l <= L -> (length l < fuel)%nat ->
  exists q, decode_ty c t fuel (mkdst p l L) = (Err EndOfInput, q).
Proof. exact types_prefix_whole. Qed.

(* link with the encoder side (C01, C03): the bytes the matching encoder writes for v, read as a tree e, are outside
   the lenient class and the specification assigns them exactly v and the whole item — not an error, not another
   value, not "unconstrained".  (rt_ok: no Option directly around an Option, where Some(None) is written as null.) *)
Theorem C04_types_roundtrip_consistent : forall t v cs e,
  ty_ok t = true -> rt_ok t = true -> whole_ty t = true -> encode_ty t v = Some cs ->
  flat cs = ser e -> wf e = true -> len (ser e) < 18446744073709551616 ->
  lenient_hit t e = false /\ spec_ty t e = TXOk v (len (ser e)).
Proof. exact types_roundtrip_spec. Qed.

Example C04_types_roundtrip_example :
  match encode_ty rt_example_ty rt_example_val with
  | Some cs => match one_item (flat cs) with
               | Some e => spec_ty rt_example_ty e = TXOk rt_example_val (len (flat cs)) /\ lenient_hit rt_example_ty e = false
               | None => False
               end
  | None => False
  end.
Proof. vm_compute. split; reflexivity. Qed.

(* non-trivial instances.  BTreeMap<u16, Vec<Option<i8>>> from an indefinite map with 2-, 8-, 1- and 4-byte heads,
   a definite and an indefinite array as values: {_ 1: [-6, null, 7], 300: [_ ]} *)
Definition C04_ex_map : enc :=
  EMapI [EUInt W2 1; EArray W1 [ENInt W1 5; ESimple 22; EUInt W4 7]; EUInt W8 300; EArrayI []].
Definition C04_ex_map_ty : ty := TyMap (TyU B16) (TySeq (TyOpt (TyI B8))).

Example C04_types_example_map :
  wf C04_ex_map = true /\ whole_ty C04_ex_map_ty = true /\ strict_ty C04_ex_map_ty = true
  /\ pref C04_ex_map = false /\ len (ser C04_ex_map) = 26
  /\ spec_ty C04_ex_map_ty C04_ex_map
     = TXOk (VList [VNat 1; VList [VSome (VInt (-6)); VNone; VSome (VInt 7)]; VNat 300; VList []]) 26
  /\ decode_ty cfg_full C04_ex_map_ty 40 (mkdst 3 (ser C04_ex_map ++ [7]) 50)
     = (Ok (VList [VNat 1; VList [VSome (VInt (-6)); VNone; VSome (VInt 7)]; VNat 300; VList []]), mkdst 29 [7] 50)
  (* the same map read as BTreeMap<u8, _>: the key 300 is not representable *)
  /\ spec_ty (TyMap (TyU B8) (TySeq (TyOpt (TyI B8)))) C04_ex_map = TXErr
  /\ (exists q, run (decode_auto cfg_full (TyMap (TyU B8) (TySeq (TyOpt (TyI B8))))) (ser C04_ex_map) = (Err (Overflow 300), q)).
Proof. vm_compute. repeat split. eexists. reflexivity. Qed.

(* shapes: chunked text is refused by String (Decoder::str), a 3-array is not a 2-tuple, an indefinite 2-array is
   not a 2-tuple but is a [u8; 2]; a Range is an array (definite or not) of exactly its fields; Bound::Unbounded is
   [2, []]; f32 on an f16 item is not constrained here (C12) *)
Example C04_types_example_shapes :
  spec_ty TyStr ex_text = TXErr /\ wf ex_text = true
  /\ (exists q, run (decode_auto cfg_full TyStr) (ser ex_text) = (Err (TypeMismatch TStringIndef), q))
  /\ spec_ty TyStr (EText W4 [104; 105]) = TXOk (VBlob [104; 105]) 7
  /\ spec_ty (TyTuple [TyU B8; TyU B8]) (EArray W0 [EUInt W0 1; EUInt W0 2; EUInt W0 3]) = TXErr
  /\ (exists q, run (decode_auto cfg_full (TyTuple [TyU B8; TyU B8])) (ser (EArray W0 [EUInt W0 1; EUInt W0 2; EUInt W0 3])) = (Err Message, q))
  /\ spec_ty (TyTuple [TyU B8; TyU B8]) (EArrayI [EUInt W0 1; EUInt W0 2]) = TXErr
  /\ spec_ty (TyArr 2 (TyU B8)) (EArrayI [EUInt W0 1; EUInt W1 2]) = TXOk (VList [VNat 1; VNat 2]) 5
  /\ spec_ty (TyArr 2 (TyU B8)) (EArray W0 [EUInt W0 1; EUInt W0 2; EUInt W0 3]) = TXErr
  /\ spec_ty (TyFields [TyU B8; TyU B8]) (EArrayI [EUInt W4 1; EUInt W0 2]) = TXOk (VList [VNat 1; VNat 2]) 8
  /\ run (decode_auto cfg_full (TyFields [TyU B8; TyU B8])) (ser (EArrayI [EUInt W4 1; EUInt W0 2]))
     = (Ok (VList [VNat 1; VNat 2]), mkdst 8 [] 8)
  /\ spec_ty (TyFields [TyU B8; TyU B8]) (EArray W0 [EUInt W0 1]) = TXErr
  /\ spec_ty (TyFields [TyU B8; TyU B8]) (EArrayI [EUInt W0 1; EUInt W0 2; ETextI [(W0, [97])]]) = TXErr
  /\ spec_ty_lenient (TyFields [TyU B8; TyU B8]) (EArrayI [EUInt W0 1; EUInt W0 2; ETextI [(W0, [97])]]) = TXOk (VList [VNat 1; VNat 2]) 8
  /\ spec_ty (TyBound (TyI B32)) (EArray W1 [EUInt W1 2; EArrayI []]) = TXOk (VVar 2 VUnit) 6
  /\ spec_ty (TyBound (TyI B32)) (EArray W1 [EUInt W1 2; EMapI []]) = TXErr
  /\ spec_ty (TyOpt (TyOpt TyBool)) (ESimple 22) = TXOk VNone 1
  /\ spec_ty (TyOpt TyBool) (ESimple 23) = TXErr
  /\ spec_ty (TyTagged 7 TyBool) (ETag W2 7 (ESimple 21)) = TXOk (VBool true) 4
  /\ spec_ty TyTag (ETag W2 7 (ESimple 21)) = TXOk (VNat 7) 3
  /\ spec_ty TyF32 (EF16 15360) = TXAny
  /\ spec_ty_lenient (TyFields [TyU B8]) (EArray W0 [EUInt W0 1; EText W0 [255]]) = TXAny
  /\ spec_ty_lenient_at false (TyBound TyBool) (EArray W0 [EUInt W0 2; EArray W0 [EArrayI []]]) = TXAny
  /\ spec_ty_lenient_at true (TyBound TyBool) (EArray W0 [EUInt W0 2; EArray W0 [EArrayI []]]) = TXOk (VVar 2 VUnit) 5.
Proof. vm_compute. repeat split; eexists; reflexivity. Qed.

Example C04_prefix_types_example :
  forallb (fun k => match run (decode_auto cfg_full C04_ex_map_ty) (firstn k (ser C04_ex_map)) with
                    | (Err EndOfInput, _) => true | _ => false end) (seq 0 (length (ser C04_ex_map))) = true
  /\ length (ser C04_ex_map) = 26%nat.
Proof. vm_compute. split; reflexivity. Qed.

Print Assumptions C04_types.
Print Assumptions C04_types_whole.
Print Assumptions C04_types_strict_ty.
Print Assumptions C04_types_strict_ty_class.
Print Assumptions C04_types_position.
Print Assumptions C04_types_success.
Print Assumptions C04_types_position_any.
Print Assumptions C04_types_lenient.
Print Assumptions C04_types_lenient_auto.
Print Assumptions C04_types_lenient_position.
Print Assumptions C04_types_open_record_example_range.
Print Assumptions C04_types_open_record_example_bound.
Print Assumptions C04_types_open_record_example_duration.
Print Assumptions C04_types_roundtrip_consistent.
Print Assumptions C04_prefix_types.
Print Assumptions C04_prefix_types_auto.
Print Assumptions C04_prefix_types_lenient.
Print Assumptions C04_prefix_types_at.
