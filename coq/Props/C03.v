(* Props/C03.v — pinned statements for property C03 (encoder output is well-formed, deterministic,
   shortest-form CBOR).  Nothing but statements closed by `exact`; proofs live in Proofs/. *)
From MC Require Import Bytes Cbor Item Acc Encoder Methods Calls Types EncoderFacts ItemFacts MethodsWf CallsFacts.
From MC Require Import Denote TypesFacts TypesItem.
From MC Require Import Iana IanaReg IanaFacts.
Local Open Scope N_scope.

(* Every Encoder method that writes a whole item produces exactly the RFC 8949 preferred
   serialisation (reference encoder enc_pref) of the value it was given, for every argument of its
   Rust parameter type — outside the class F2b (Encoder::simple(24..=31), simple_reserved: these values
   do not exist in RFC 8949, so there is no preferred serialisation to compare with; see
   C03_simple_reserved_refuted below). *)
Theorem C03_methods : forall m cs,
  arg_ok m = true -> simple_reserved m = false -> run_meth m = Some cs -> flat cs = enc_pref (item_of m).
Proof. exact methods_preferred. Qed.

(* The encoder refuses no call, and the class excluded from C03_methods / C03_wellformed is exactly the set
   of calls whose value has no well-formed encoding at all (item_ok, Spec/Item.v: simple values 24..=31). *)
Theorem C03_refusals : forall m, arg_ok m = true ->
  run_meth m <> None /\ (simple_reserved m = true <-> item_ok (item_of m) = false).
Proof. exact methods_refuse. Qed.

(* F2b (open): the statement without the exclusion is false.  Encoder::simple(24) writes f8 18, which is
   not a well-formed RFC 8949 item (section 3.3 forbids the two-byte forms f8 00..f8 1f; the reference parser
   rejects it) — kept because the crate's own test rfc_tv_small pins the RFC 7049 vector simple(24) = f8 18. *)
Theorem C03_simple_reserved_refuted :
  exists x, 24 <= x <= 31 /\ arg_ok (MSimple x) = true /\ simple_reserved (MSimple x) = true /\
    option_map flat (run_meth (MSimple x)) = Some [248; x] /\ one_item [248; x] = None.
Proof. exact simple_reserved_refuted. Qed.

(* ... and so for each of the eight values: the two bytes written are the serialisation of no well-formed tree. *)
Theorem C03_simple_reserved_not_wf : forall x, 24 <= x <= 31 ->
  option_map flat (run_meth (MSimple x)) = Some [248; x] /\
  forall e, wf e = true -> ser e <> [248; x].
Proof. exact simple_reserved_not_wf. Qed.

(* the hypotheses of C03_methods / C03_wellformed are satisfiable on both sides of the excluded class *)
Example C03_methods_example :
  arg_ok (MSimple 23) = true /\ simple_reserved (MSimple 23) = false /\ option_map flat (run_meth (MSimple 23)) = Some [247] /\
  arg_ok (MSimple 32) = true /\ simple_reserved (MSimple 32) = false /\ option_map flat (run_meth (MSimple 32)) = Some [248; 32] /\
  simple_reserved (MSimple 31) = true /\ simple_reserved (MU8 24) = false /\ option_map flat (run_meth (MU8 24)) = Some [24; 24].
Proof. vm_compute. auto 12. Qed.

(* tag / array / map headers always use the shortest head. *)
Theorem C03_heads : forall h, hmeth_ok h = true -> flat (run_hmeth h) = hmeth_head h.
Proof. exact hmethods_preferred. Qed.

(* … and those bytes are exactly one well-formed data item, every head in its shortest form, whose
   data-model value is the value given (again outside F2b). *)
Theorem C03_wellformed : forall m cs,
  arg_ok m = true -> simple_reserved m = false -> run_meth m = Some cs ->
  exists e, flat cs = ser e /\ wf e = true /\ pref e = true /\ val_of e = item_of m.
Proof. exact methods_wellformed. Qed.

(* The reference encoder itself: for every representable item its output is the serialisation of a
   well-formed, preferred tree denoting that item. *)
Theorem C03_reference : forall i, item_ok i = true ->
  exists e, enc_pref i = ser e /\ wf e = true /\ pref e = true /\ val_of e = i.
Proof. exact enc_pref_is_item. Qed.

(* Balanced call sequences: the Encoder calls that render any forest of trees an encoder can express
   (shortest heads — `short` —, valid text, arbitrary nesting of definite and indefinite containers,
   chunked strings, tags) all succeed and write exactly the serialisation of that forest. *)
Theorem C03_balanced : forall es,
  Forall (fun e => wf e = true /\ short e = true /\ utf8_ok e = true) es ->
  exists ch, run_calls (flat_map calls_of es) = Some ch /\ flat ch = flat_map ser es.
Proof. exact calls_write_forest. Qed.

(* encode::ArrayIter / MapIter emit the definite form iff the iterator's size hint is exact (and honest),
   else begin … end; either way exactly the items, each in the form its own encoder gives it. *)
Theorem C03_iter_array : forall low up items es,
  Forall2 (fun cs e => flat cs = ser e) items es -> low < 18446744073709551616 ->
  (hint_exact low up = true -> low = len es) ->
  flat (enc_array_iter low up items) =
    if hint_exact low up then ser (EArray (min_width (len es)) es) else ser (EArrayI es).
Proof. exact array_iter_form. Qed.

Theorem C03_iter_map : forall low up pairs es,
  Forall2 (fun cs e => flat cs = ser e) pairs es -> low < 18446744073709551616 ->
  (hint_exact low up = true -> low = len es / 2) ->
  flat (enc_map_iter low up pairs) =
    if hint_exact low up then ser (EMap (min_width (len es / 2)) es) else ser (EMapI es).
Proof. exact map_iter_form. Qed.

Example C03_balanced_example :
  let e := EArrayI [EMap W0 [EUInt W1 255; ETextI [(W0, [97]); (W0, [])]]; ETag W2 256 (ESimple 22)] in
  wf e = true /\ short e = true /\ utf8_ok e = true /\
  option_map flat (run_calls (calls_of e)) = Some (ser e).
Proof. vm_compute. auto. Qed.

(* Each built-in Encode impl (Model/Types.v, every descriptor without a bare Tag, every value the encoder
   accepts, the encoding having a usize length) writes exactly the RFC 8949 preferred, definite-length
   serialisation of the data-model item the value denotes (Spec/Denote.v) … *)
Theorem C03_types : forall t v cs,
  no_bare_tag t = true -> encode_ty t v = Some cs -> len (flat cs) < two64 ->
  exists i, denote t v = Some i /\ item_ok i = true /\ flat cs = enc_pref i.
Proof. exact types_preferred. Qed.

(* … hence exactly one well-formed data item with every head in its shortest form and that value. *)
Theorem C03_types_wellformed : forall t v cs,
  no_bare_tag t = true -> encode_ty t v = Some cs -> len (flat cs) < two64 ->
  exists i e, denote t v = Some i /\ flat cs = ser e /\ wf e = true /\ pref e = true /\ val_of e = i.
Proof. exact types_wellformed. Qed.

(* The excluded impl, data::Tag, writes the shortest tag header (not a whole item). *)
Theorem C03_types_tag : forall n cs, encode_ty TyTag (VNat n) = Some cs -> flat cs = phead 6 n.
Proof. exact tag_is_header. Qed.

Example C03_types_example :
  no_bare_tag rt_example_ty = true /\
  match encode_ty rt_example_ty rt_example_val, denote rt_example_ty rt_example_val with
  | Some cs, Some i => item_ok i = true /\ flat cs = enc_pref i /\ (50 <? len (flat cs)) = true
  | _, _ => False
  end.
Proof. vm_compute. auto. Qed.

Print Assumptions C03_methods.
Print Assumptions C03_wellformed.
Print Assumptions C03_reference.
Print Assumptions C03_balanced.
Print Assumptions C03_iter_array.
Print Assumptions C03_iter_map.
Print Assumptions C03_refusals.
Print Assumptions C03_simple_reserved_refuted.
Print Assumptions C03_simple_reserved_not_wf.
Print Assumptions C03_heads.
Print Assumptions C03_types.
Print Assumptions C03_types_wellformed.
Print Assumptions C03_types_tag.

(* data::IanaTag (Model/Iana.v): the Encode impl writes exactly the shortest tag head of the number the IANA registry assigns to
   the variant (Spec/IanaReg.v: RFC 8949 section 3.4 and RFC 8746, transcribed in decimal, independently of the code's tables) … *)
Theorem C03_iana : forall t, flat (enc_iana t) = phead 6 (iana_registry t).
Proof. exact iana_encode_head. Qed.

(* … and the two conversion tables (From<IanaTag> for Tag, TryFrom<Tag> for IanaTag) are mutually inverse, for EVERY tag number. *)
Theorem C03_iana_tables : (forall t, iana_of_tag (iana_to_tag t) = Some t)
  /\ (forall n t, iana_of_tag n = Some t -> iana_to_tag t = n) /\ (forall t, iana_to_tag t = iana_registry t).
Proof. exact (conj iana_of_to (conj iana_to_of iana_registry_agrees)). Qed.

Print Assumptions C03_iana.
Print Assumptions C03_iana_tables.
