(* Props/C03.v — pinned statements for property C03 (encoder output is well-formed, deterministic,
   shortest-form CBOR).  Nothing but statements closed by `exact`; proofs live in Proofs/. *)
From MC Require Import Bytes Cbor Encoder Methods EncoderFacts.
Local Open Scope N_scope.

(* Every Encoder method that writes a whole item produces exactly the RFC 8949 preferred
   serialisation (reference encoder enc_pref) of the value it was given, for every argument of its
   Rust parameter type. *)
Theorem C03_methods : forall m cs,
  arg_ok m = true -> run_meth m = Some cs -> flat cs = enc_pref (item_of m).
Proof. exact methods_preferred. Qed.

(* The only calls the encoder refuses are simple values 24..=31, which have no well-formed encoding. *)
Theorem C03_refusals : forall m,
  arg_ok m = true -> (run_meth m = None <-> simple_unassigned m = true).
Proof. exact methods_refuse. Qed.

(* tag / array / map headers always use the shortest head. *)
Theorem C03_heads : forall h, hmeth_ok h = true -> flat (run_hmeth h) = hmeth_head h.
Proof. exact hmethods_preferred. Qed.

Print Assumptions C03_methods.
Print Assumptions C03_refusals.
Print Assumptions C03_heads.
