(* Props/C12.v — pinned statements for property C12 (floats survive bit-exactly; half precision per IEEE 754).
   Nothing but statements closed by `exact`; proofs live in Proofs/HalfFacts.v and Proofs/HalfRoundFacts.v.
   Model side: Model/Encoder.v (enc_f32, enc_f64, enc_f16_bits), Model/Decoder.v (dec_f16, dec_f32, dec_f64),
   Model/Half.v (f16_to_f32, f32_to_f16, f32_to_f64).  Specification side: Spec/Float16.v (fdecode = what a bit
   pattern denotes, feq = same datum with NaN = NaN, rne16 = IEEE roundTiesToEven binary32 -> binary16). *)
From MC Require Import Bytes Monad Encoder Decoder Half Float16 HalfFacts HalfRoundFacts.
Local Open Scope N_scope.

(* Every f32 (f64) bit pattern b — NaN payloads, -0, subnormals included — written by Encoder::f32 (f64) and read
   back by Decoder::f32 (f64), in any feature configuration and whatever follows in the buffer, is returned as
   exactly b, and exactly the 5 (9) bytes of the item are consumed. *)
Theorem C12_same_width : forall c rest,
  (forall b, b < 2 ^ 32 ->
     dec_f32 c (start (flat (enc_f32 b) ++ rest)) = (Ok b, mkdst 5 rest (5 + len rest))) /\
  (forall b, b < 2 ^ 64 ->
     dec_f64 c (start (flat (enc_f64 b) ++ rest)) = (Ok b, mkdst 9 rest (9 + len rest))).
Proof. exact same_width. Qed.

(* Each of the 65536 half patterns is converted by half's f16 -> f32 routine to the single-precision pattern that
   denotes exactly the same datum: same class, same sign (also of zeros and infinities), same real; NaN -> NaN. *)
Theorem C12_half_exact : forall h, h < 65536 ->
  feq (fdecode binary32 (f16_to_f32 h)) (fdecode binary16 h) = true.
Proof. exact half_exact. Qed.

(* Narrower items through wider accessors (feature half on): the f16 item through f16 / f32 / f64 and the f32 item
   through f64 succeed, consume exactly the item and return a pattern denoting exactly the datum of the item
   (for every pattern; a NaN stays a NaN). *)
Theorem C12_widen : forall c rest, c_half c = true ->
  (forall h, h < 2 ^ 16 -> exists y,
     dec_f16 (start (flat (enc_f16_bits h) ++ rest)) = (Ok y, mkdst 3 rest (3 + len rest)) /\
     feq (fdecode binary32 y) (fdecode binary16 h) = true) /\
  (forall h, h < 2 ^ 16 -> exists y,
     dec_f32 c (start (flat (enc_f16_bits h) ++ rest)) = (Ok y, mkdst 3 rest (3 + len rest)) /\
     feq (fdecode binary32 y) (fdecode binary16 h) = true) /\
  (forall h, h < 2 ^ 16 -> exists y,
     dec_f64 c (start (flat (enc_f16_bits h) ++ rest)) = (Ok y, mkdst 3 rest (3 + len rest)) /\
     feq (fdecode binary64 y) (fdecode binary16 h) = true) /\
  (forall b, b < 2 ^ 32 -> exists y,
     dec_f64 c (start (flat (enc_f32 b) ++ rest)) = (Ok y, mkdst 5 rest (5 + len rest)) /\
     feq (fdecode binary64 y) (fdecode binary32 b) = true).
Proof. exact widen_exact. Qed.

(* A wider item is never accepted by a narrower accessor: type mismatch naming the item's type. *)
Theorem C12_narrow_rejects : forall c b rest,
  fst (dec_f32 c (start (flat (enc_f64 b) ++ rest))) = Err (TypeMismatch TF64) /\
  fst (dec_f16 (start (flat (enc_f32 b) ++ rest))) = Err (TypeMismatch TF32) /\
  fst (dec_f16 (start (flat (enc_f64 b) ++ rest))) = Err (TypeMismatch TF64).
Proof. exact narrow_rejects. Qed.

(* Encoder::f16's conversion is IEEE 754 roundTiesToEven for every one of the 2^32 single-precision patterns
   (symbolic proof, no enumeration); NaN operands map as rne16 documents (sign kept, quiet, top payload bits). *)
Theorem C12_round : forall x, x < 2 ^ 32 -> f32_to_f16 x = rne16 x.
Proof. exact round_eq. Qed.

(* ... it is exact on every half-representable value: an operand denoting what the non-NaN half pattern h
   denotes is encoded as h *)
Theorem C12_round_exact : forall x h, x < 2 ^ 32 -> h < 65536 ->
  fv_is_nan (fdecode binary16 h) = false ->
  feq (fdecode binary32 x) (fdecode binary16 h) = true -> f32_to_f16 x = h.
Proof. exact round_exact. Qed.

(* ... decoding any non-NaN half pattern and encoding the result again gives the pattern back *)
Theorem C12_round_trip16 : forall h, h < 65536 ->
  fv_is_nan (fdecode binary16 h) = false -> f32_to_f16 (f16_to_f32 h) = h.
Proof. exact half_round_trip. Qed.

(* ... a finite operand becomes an infinity exactly when its magnitude is at least 65520, and the sign is kept *)
Theorem C12_round_overflow : forall x, x < 2 ^ 32 -> fv_is_finite (fdecode binary32 x) = true ->
  ((f32_to_f16 x) mod 32768 =? 31744) = overflows16 (fdecode binary32 x).
Proof. exact round_overflow. Qed.

Theorem C12_round_sign : forall x, x < 2 ^ 32 -> (f32_to_f16 x) / 32768 = x / 2 ^ 31.
Proof. exact round_sign. Qed.

(* ... NaN -> NaN, and nothing else becomes a NaN (independent of the payload mapping chosen in rne16) *)
Theorem C12_round_nan : forall x, x < 2 ^ 32 ->
  fv_is_nan (fdecode binary16 (f32_to_f16 x)) = fv_is_nan (fdecode binary32 x).
Proof. exact round_nan. Qed.

Print Assumptions C12_same_width.
Print Assumptions C12_half_exact.
Print Assumptions C12_widen.
Print Assumptions C12_narrow_rejects.
Print Assumptions C12_round.
Print Assumptions C12_round_exact.
Print Assumptions C12_round_trip16.
Print Assumptions C12_round_overflow.
Print Assumptions C12_round_sign.
Print Assumptions C12_round_nan.
